import CoapVerif.Model.MsgLayer
/-
Helper definitions and lemmas for C08 (NSTART accounting, delay queue FIFO, NACKs on failure).
Core Lean only.
-/
namespace Coap.Msg
open Coap.SQ

/-! ### counting nodes in the send queue -/

/-- a node predicate that does not look at the relative time `t` -/
abbrev TStable (p : Node → Bool) : Prop := ∀ (n : Node) (x : Nat), p { n with t := x } = p n

theorem tstable_sess (s : Nat) : TStable (fun n => decide (n.sess = s)) := fun _ _ => rfl
theorem tstable_ncon : TStable (fun n => !n.con) := fun _ _ => rfl
theorem tstable_key (s id : Nat) : TStable (fun n => decide (n.sess = s ∧ n.mid = id)) := fun _ _ => rfl

theorem countP_insertAfter (p : Node → Bool) (hp : ∀ (n : Node) (x : Nat), p { n with t := x } = p n) : ∀ (l : List Node) (n : Node),
    (insertAfter l n).countP p = l.countP p + (if p n then 1 else 0)
  | [], n => by simp [insertAfter, List.countP_cons]
  | q :: r, n => by
    unfold insertAfter
    split
    · rw [List.countP_cons, countP_insertAfter p hp r, hp, List.countP_cons]; omega
    · simp only [List.countP_cons, hp]

theorem countP_insertNode (p : Node → Bool) (hp : ∀ (n : Node) (x : Nat), p { n with t := x } = p n) (l : List Node) (n : Node) :
    (insertNode l n).countP p = l.countP p + (if p n then 1 else 0) := by
  cases l with
  | nil => simp [insertNode, List.countP_cons]
  | cons q r =>
    simp only [insertNode]
    split
    · simp only [List.countP_cons, hp]
    · rw [List.countP_cons, countP_insertAfter p hp r, hp, List.countP_cons]; omega

theorem countP_enqueue (p : Node → Bool) (hp : ∀ (n : Node) (x : Nat), p { n with t := x } = p n) (q : Queue) (now d : Nat) (n : Node) :
    (enqueue q now d n).nodes.countP p = q.nodes.countP p + (if p n then 1 else 0) := by
  unfold enqueue
  split
  · rename_i h; simp [h, List.countP_cons, hp]
  · simp only [countP_insertNode p hp, hp]

theorem countP_popNext (p : Node → Bool) (hp : ∀ (n : Node) (x : Nat), p { n with t := x } = p n) (l : List Node) (n : Node) (rest : List Node)
    (h : popNext l = some (n, rest)) :
    n ∈ l ∧ l.countP p = rest.countP p + (if p n then 1 else 0) := by
  match l, h with
  | [a], h => simp [popNext] at h; obtain ⟨rfl, rfl⟩ := h; simp [List.countP_cons]
  | a :: b :: r, h =>
    simp [popNext] at h; obtain ⟨rfl, rfl⟩ := h
    simp only [List.countP_cons, hp]; simp

theorem removeNode_some (p : Node → Bool) (hp : ∀ (n : Node) (x : Nat), p { n with t := x } = p n) : ∀ (l : List Node) (s id : Nat) (n : Node)
    (rest : List Node), removeNode l s id = (some n, rest) →
    n ∈ l ∧ n.sess = s ∧ n.mid = id ∧ l.countP p = rest.countP p + (if p n then 1 else 0)
  | [], s, id, n, rest, h => by simp [removeNode] at h
  | a :: r, s, id, n, rest, h => by
    unfold removeNode at h
    split at h
    · rename_i hk
      split at h
      · simp at h; obtain ⟨rfl, rfl⟩ := h; simp [List.countP_cons, hk.1, hk.2]
      · simp at h; obtain ⟨rfl, rfl⟩ := h
        simp only [List.countP_cons, hp]; simp [hk.1, hk.2]
    · rcases hr : removeNode r s id with ⟨res, r'⟩
      simp only [hr] at h
      simp at h; obtain ⟨rfl, rfl⟩ := h
      have := removeNode_some p hp r s id n r' hr
      simp only [List.countP_cons]
      refine ⟨List.mem_cons_of_mem _ this.1, this.2.1, this.2.2.1, ?_⟩
      omega

theorem removeNode_none : ∀ (l : List Node) (s id : Nat) (rest : List Node),
    removeNode l s id = (none, rest) →
    rest = l ∧ l.countP (fun n => decide (n.sess = s ∧ n.mid = id)) = 0
  | [], s, id, rest, h => by simp [removeNode] at h; simp [h]
  | a :: r, s, id, rest, h => by
    unfold removeNode at h
    split at h
    · split at h <;> simp at h
    · rename_i hk
      rcases hr : removeNode r s id with ⟨res, r'⟩
      simp only [hr] at h
      simp at h; obtain ⟨rfl, rfl⟩ := h
      have := removeNode_none r s id r' hr
      simp only [List.countP_cons, hk, this.1, this.2]; simp

theorem removeTok_some (p : Node → Bool) (hp : ∀ (n : Node) (x : Nat), p { n with t := x } = p n) : ∀ (l : List Node) (s tok : Nat) (n : Node)
    (rest : List Node), removeTok l s tok = (some n, rest) →
    n ∈ l ∧ n.sess = s ∧ l.countP p = rest.countP p + (if p n then 1 else 0)
  | [], s, id, n, rest, h => by simp [removeTok] at h
  | a :: r, s, id, n, rest, h => by
    unfold removeTok at h
    split at h
    · rename_i hk
      split at h
      · simp at h; obtain ⟨rfl, rfl⟩ := h; simp [List.countP_cons, hk.1]
      · simp at h; obtain ⟨rfl, rfl⟩ := h
        simp only [List.countP_cons, hp]; simp [hk.1]
    · rcases hr : removeTok r s id with ⟨res, r'⟩
      simp only [hr] at h
      simp at h; obtain ⟨rfl, rfl⟩ := h
      have := removeTok_some p hp r s id n r' hr
      simp only [List.countP_cons]
      refine ⟨List.mem_cons_of_mem _ this.1, this.2.1, ?_⟩
      omega

theorem countP_cancelAux (p : Node → Bool) (hp : ∀ (n : Node) (x : Nat), p { n with t := x } = p n) : ∀ (l : List Node) (s c : Nat),
    (cancelSessionAux l s c).2.countP p = l.countP (fun n => p n && !decide (n.sess = s))
  | [], s, c => by simp [cancelSessionAux]
  | a :: r, s, c => by
    unfold cancelSessionAux
    split
    · rename_i hk
      rcases hr : cancelSessionAux r s (a.t + c) with ⟨g, r'⟩
      have := countP_cancelAux p hp r s (a.t + c)
      rw [hr] at this
      simp only [List.countP_cons, hk, this]; simp
    · rename_i hk
      rcases hr : cancelSessionAux r s 0 with ⟨g, r'⟩
      have := countP_cancelAux p hp r s 0
      rw [hr] at this
      simp only [List.countP_cons, hk, this, hp]; simp

/-- the removed nodes are exactly the session's nodes, in queue order (their `t` may differ) -/
theorem gone_cancelAux (f : Node → Nat × Bool) (hf : ∀ (n : Node) (x : Nat), f { n with t := x } = f n) :
    ∀ (l : List Node) (s c : Nat),
    (cancelSessionAux l s c).1.map f = (l.filter (fun n => decide (n.sess = s))).map f
  | [], s, c => by simp [cancelSessionAux]
  | a :: r, s, c => by
    unfold cancelSessionAux
    split
    · rename_i hk
      rcases hr : cancelSessionAux r s (a.t + c) with ⟨g, r'⟩
      have := gone_cancelAux f hf r s (a.t + c)
      rw [hr] at this
      subst hk
      simp only [List.filter_cons, List.map_cons, hf]; simp at this ⊢; exact this
    · rename_i hk
      rcases hr : cancelSessionAux r s 0 with ⟨g, r'⟩
      have := gone_cancelAux f hf r s 0
      rw [hr] at this
      simp only [List.filter_cons, hk]; simp at this ⊢; exact this

/-! ### the message layer: projections -/

/-- number of nodes of session `s` waiting for an ACK in the send queue -/
def inflight (l : L) (s : Nat) : Nat := (l.q.nodes.filter (fun n => n.sess = s)).length

theorem inflight_eq (l : L) (s : Nat) :
    inflight l s = l.q.nodes.countP (fun n => decide (n.sess = s)) := by
  simp [inflight, List.countP_eq_length_filter]

/-- every node in the send queue is a Confirmable -/
def AllCon (ns : List Node) : Prop := ns.countP (fun n => !n.con) = 0

theorem AllCon.mem {ns : List Node} (h : AllCon ns) {n : Node} (hn : n ∈ ns) : n.con = true := by
  have := (List.countP_eq_zero.mp h) n hn
  simpa using this

@[simp] theorem setS_q (l : L) (s : Nat) (se : Sess) : (l.setS s se).q = l.q := rfl
@[simp] theorem setS_out (l : L) (s : Nat) (se : Sess) : (l.setS s se).out = l.out := rfl
@[simp] theorem setS_now (l : L) (s : Nat) (se : Sess) : (l.setS s se).now = l.now := rfl
@[simp] theorem setS_len (l : L) (s : Nat) (se : Sess) : (l.setS s se).sess.length = l.sess.length := by
  simp [L.setS]
@[simp] theorem emit_q (l : L) (o : Out) : (l.emit o).q = l.q := rfl
@[simp] theorem emit_out (l : L) (o : Out) : (l.emit o).out = o :: l.out := rfl
@[simp] theorem emit_now (l : L) (o : Out) : (l.emit o).now = l.now := rfl
@[simp] theorem emit_sess (l : L) (o : Out) : (l.emit o).sess = l.sess := rfl
@[simp] theorem getS_emit (l : L) (o : Out) (s : Nat) : (l.emit o).getS s = l.getS s := rfl
@[simp] theorem waitAck_out (l : L) (n : Node) : (waitAck l n).out = l.out := rfl
@[simp] theorem waitAck_now (l : L) (n : Node) : (waitAck l n).now = l.now := rfl
@[simp] theorem waitAck_sess (l : L) (n : Node) : (waitAck l n).sess = l.sess := rfl
@[simp] theorem getS_waitAck (l : L) (n : Node) (s : Nat) : (waitAck l n).getS s = l.getS s := rfl
@[simp] theorem inflight_setS (l : L) (s : Nat) (se : Sess) (s' : Nat) :
    inflight (l.setS s se) s' = inflight l s' := rfl
@[simp] theorem inflight_emit (l : L) (o : Out) (s' : Nat) : inflight (l.emit o) s' = inflight l s' := rfl

theorem getS_setS_same {l : L} {s : Nat} {se : Sess} (h : s < l.sess.length) :
    (l.setS s se).getS s = se := by
  simp [L.getS, L.setS, List.getD_eq_getElem?_getD, List.getElem?_set, h]

theorem getS_setS_other {l : L} {s s' : Nat} {se : Sess} (h : s ≠ s') :
    (l.setS s se).getS s' = l.getS s' := by
  simp [L.getS, L.setS, List.getD_eq_getElem?_getD, List.getElem?_set, h]

theorem inflight_waitAck (l : L) (n : Node) (s : Nat) :
    inflight (waitAck l n) s = inflight l s + (if n.sess = s then 1 else 0) := by
  rw [inflight_eq, inflight_eq, Msg.waitAck]
  simp only [countP_enqueue (fun n => decide (n.sess = s)) (tstable_sess s)]
  simp

/-! ### frames and the per-session invariant -/

/-- `l'` differs from `l` only in session `s0` (and in the outputs / clock) -/
structure Frame (s0 : Nat) (l l' : L) : Prop where
  len : l'.sess.length = l.sess.length
  con : AllCon l.q.nodes → AllCon l'.q.nodes
  other : ∀ s, s ≠ s0 → l'.getS s = l.getS s ∧ inflight l' s = inflight l s

theorem Frame.refl (s0 : Nat) (l : L) : Frame s0 l l := ⟨rfl, id, fun _ _ => ⟨rfl, rfl⟩⟩

theorem Frame.trans {s0 : Nat} {l l' l'' : L} (h1 : Frame s0 l l') (h2 : Frame s0 l' l'') :
    Frame s0 l l'' :=
  ⟨h2.len.trans h1.len, fun h => h2.con (h1.con h), fun s hs =>
    ⟨(h2.other s hs).1.trans (h1.other s hs).1, (h2.other s hs).2.trans (h1.other s hs).2⟩⟩

theorem Frame.setS (l : L) (s : Nat) (se : Sess) : Frame s l (l.setS s se) :=
  ⟨by simp, id, fun _ hs => ⟨getS_setS_other (Ne.symm hs), rfl⟩⟩

theorem Frame.emit (s : Nat) (l : L) (o : Out) : Frame s l (l.emit o) :=
  ⟨rfl, id, fun _ _ => ⟨rfl, rfl⟩⟩

theorem Frame.waitAck {s : Nat} (l : L) {n : Node} (hs : n.sess = s) (hc : n.con = true) :
    Frame s l (waitAck l n) := by
  refine ⟨rfl, fun h => ?_, fun s' hs' => ⟨rfl, ?_⟩⟩
  · unfold AllCon at *
    rw [Msg.waitAck]; simp only [countP_enqueue (fun n => !n.con) tstable_ncon, h, hc]; simp
  · rw [inflight_waitAck]; simp [hs, Ne.symm hs']

/-- the accounting of session `s`: `con_active` is the number of its nodes in the send queue plus `k`
(`k = 1` between a node leaving the queue and the matching `con_active--`) -/
def SInv (l : L) (s k : Nat) : Prop :=
  s < l.sess.length →
    (l.getS s).conActive = inflight l s + k ∧ inflight l s + k ≤ (l.getS s).nstart ∧ (l.getS s).nstart ≤ 255

/-- the inductive invariant of the message layer -/
def WF (l : L) : Prop :=
  AllCon l.q.nodes ∧
  ∀ s, s < l.sess.length →
    (l.getS s).conActive = inflight l s ∧ inflight l s ≤ (l.getS s).nstart ∧ (l.getS s).nstart ≤ 255

theorem WF.sinv {l : L} (h : WF l) (s : Nat) : SInv l s 0 := fun hs => by simpa using h.2 s hs

theorem WF.of_frame {l l' : L} {s0 : Nat} (hw : WF l) (hf : Frame s0 l l') (hs : SInv l' s0 0) : WF l' := by
  refine ⟨hf.con hw.1, fun s hlt => ?_⟩
  by_cases h : s = s0
  · subst h; simpa using hs hlt
  · rw [(hf.other s h).1, (hf.other s h).2]; exact hw.2 s (hf.len ▸ hlt)

@[simp] theorem SInv_emit (l : L) (o : Out) (s k : Nat) : SInv (l.emit o) s k ↔ SInv l s k := Iff.rfl

theorem SInv.waitAck {l : L} {n : Node} {s k : Nat} (hs : n.sess = s) (h : SInv l s (k + 1)) :
    SInv (waitAck l n) s k := by
  intro hlt
  have := h hlt
  rw [inflight_waitAck]; simp only [getS_waitAck, hs, if_true]; omega

theorem SInv.setS {l : L} {s k : Nat} {se : Sess}
    (h : s < l.sess.length → se.conActive = inflight l s + k ∧ inflight l s + k ≤ se.nstart ∧ se.nstart ≤ 255) :
    SInv (l.setS s se) s k := by
  intro hlt
  simp only [setS_len] at hlt
  rw [getS_setS_same hlt]; simpa using h hlt

/-! ### the model functions keep the invariant -/

theorem drain_ok : ∀ (fuel : Nat) (l : L) (s : Nat),
    Frame s l (drain fuel l s) ∧ (SInv l s 0 → SInv (drain fuel l s) s 0)
  | 0, l, s => ⟨Frame.refl _ _, id⟩
  | fuel + 1, l, s => by
    unfold drain
    simp only []
    split
    · exact ⟨Frame.refl _ _, id⟩
    · rename_i n rest hdq
      split
      · exact ⟨Frame.refl _ _, id⟩
      · split
        · exact ⟨Frame.refl _ _, id⟩
        · rename_i hest hg
          cases hc : n.con
          · simp only [Bool.false_eq_true, if_false]
            refine ⟨Frame.trans ?_ (drain_ok fuel _ s).1, fun h => (drain_ok fuel _ s).2 ?_⟩
            · exact (Frame.setS _ _ _).trans (Frame.emit _ _ _)
            · rw [SInv_emit]; exact SInv.setS (fun hlt => h hlt)
          · simp only [if_true]
            simp [hc] at hg
            refine ⟨Frame.trans ?_ (drain_ok fuel _ s).1, fun h => (drain_ok fuel _ s).2 ?_⟩
            · exact ((Frame.setS _ _ _).trans (Frame.emit _ _ _)).trans (Frame.waitAck (s := s) _ rfl rfl)
            · apply SInv.waitAck rfl
              rw [SInv_emit]
              apply SInv.setS
              intro hlt
              have := h hlt
              simp only []
              omega

theorem connected_ok (l : L) (s : Nat) :
    Frame s l (connected l s) ∧ (SInv l s 0 → SInv (connected l s) s 0) := by
  unfold connected
  simp only []
  refine ⟨Frame.trans ?_ (drain_ok _ _ s).1, fun h => (drain_ok _ _ s).2 ?_⟩
  · exact Frame.setS _ _ _
  · exact SInv.setS (fun hlt => h hlt)

theorem release_ok (l : L) (s : Nat) :
    Frame s l (release l s) ∧ (SInv l s 1 → SInv (release l s) s 0) := by
  unfold release
  simp only []
  have hset : SInv l s 1 → SInv (l.setS s { (l.getS s) with conActive := (l.getS s).conActive - 1 }) s 0 :=
    fun h => SInv.setS (fun hlt => by have := h hlt; simp only []; omega)
  split
  · rename_i h0
    exact ⟨Frame.refl _ _, fun h hlt => by have := h hlt; omega⟩
  · split
    · refine ⟨Frame.trans ?_ (connected_ok _ s).1, fun h => (connected_ok _ s).2 ?_⟩
      · exact Frame.setS _ _ _
      · exact hset h
    · exact ⟨Frame.setS _ _ _, hset⟩

theorem submit_ok (l : L) (s : Nat) (con : Bool) (mid r : Nat) :
    Frame s l (submit l s con mid r) ∧ (SInv l s 0 → SInv (submit l s con mid r) s 0) := by
  unfold submit
  simp only []
  split
  · exact ⟨Frame.emit _ _ _, fun h => h⟩
  · split
    · split
      · exact ⟨Frame.emit _ _ _, fun h => h⟩
      · refine ⟨(Frame.setS _ _ _).trans (Frame.emit _ _ _), fun h => ?_⟩
        rw [SInv_emit]; exact SInv.setS (fun hlt => h hlt)
    · rename_i hg
      cases con
      · simp only [Bool.false_eq_true, if_false]
        exact ⟨(Frame.emit _ _ _).trans (Frame.emit _ _ _), fun h => h⟩
      · simp only [if_true]
        refine ⟨(((Frame.emit _ _ _).trans (Frame.setS _ _ _)).trans (Frame.waitAck (s := s) _ rfl rfl)).trans
          (Frame.emit _ _ _), fun h => ?_⟩
        rw [SInv_emit]
        apply SInv.waitAck rfl
        apply SInv.setS
        intro hlt
        have := h hlt
        simp [gate] at hg
        simp only [getS_emit, inflight_emit]
        omega

theorem inflight_enq (l : L) (now d : Nat) (n : Node) (s : Nat) :
    inflight { l with q := enqueue l.q now d n } s = inflight l s + (if n.sess = s then 1 else 0) := by
  rw [inflight_eq, inflight_eq]
  simp only [countP_enqueue (fun n => decide (n.sess = s)) (tstable_sess s)]
  simp

theorem Frame.enq {s : Nat} (l : L) (now d : Nat) {n : Node} (hs : n.sess = s) (hc : n.con = true) :
    Frame s l { l with q := enqueue l.q now d n } := by
  refine ⟨rfl, fun h => ?_, fun s' hs' => ⟨rfl, ?_⟩⟩
  · unfold AllCon at *
    simp only [countP_enqueue (fun n => !n.con) tstable_ncon, h, hc]; simp
  · rw [inflight_enq]; simp [hs, Ne.symm hs']

theorem removed_one (l : L) (n : Node) (rest : List Node) (hm : n ∈ l.q.nodes)
    (hc : ∀ p : Node → Bool, TStable p → l.q.nodes.countP p = rest.countP p + (if p n then 1 else 0)) :
    Frame n.sess l { l with q := { l.q with nodes := rest } } ∧
    (∀ k, SInv l n.sess k → SInv { l with q := { l.q with nodes := rest } } n.sess (k + 1)) ∧
    (AllCon l.q.nodes → n.con = true) := by
  refine ⟨⟨rfl, fun h => ?_, fun s hs => ⟨rfl, ?_⟩⟩, fun k h hlt => ?_, fun h => h.mem hm⟩
  · unfold AllCon at *
    have := hc _ tstable_ncon
    simp only []
    omega
  · rw [inflight_eq, inflight_eq]
    have := hc _ (tstable_sess s)
    simp [Ne.symm hs] at this
    simp only []
    omega
  · have h1 := h hlt
    have hc' := hc _ (tstable_sess n.sess)
    simp at hc'
    have e : inflight l n.sess = inflight { l with q := { l.q with nodes := rest } } n.sess + 1 := by
      rw [inflight_eq, inflight_eq]; exact hc'
    show (l.getS n.sess).conActive = inflight _ n.sess + (k + 1) ∧
      inflight _ n.sess + (k + 1) ≤ (l.getS n.sess).nstart ∧ (l.getS n.sess).nstart ≤ 255
    omega

abbrev dly (l : L) (q1 : Queue) (s mid : Nat) : L :=
  { now := l.now, q := { base := q1.base, nodes := (removeNode q1.nodes s mid).snd }, sess := l.sess, out := l.out }

/-- the `coap_session_delay_pdu` path of `coap_retransmit`: the node is put back, then a node with the
same (session, id) is taken out again -/
theorem delay_path (l : L) (d : Nat) (n' : Node) (se : Sess) (hc : n'.con = true)
    (hse : se.conActive = (l.getS n'.sess).conActive - 1 ∧ se.nstart = (l.getS n'.sess).nstart) :
    Frame n'.sess l (L.setS (dly l (enqueue l.q l.now d n') n'.sess n'.mid) n'.sess se) ∧
    (SInv l n'.sess 1 → SInv (L.setS (dly l (enqueue l.q l.now d n') n'.sess n'.mid) n'.sess se) n'.sess 0) := by
  have hcnt : ∀ p : Node → Bool, TStable p →
      (enqueue l.q l.now d n').nodes.countP p = l.q.nodes.countP p + (if p n' then 1 else 0) :=
    fun p hp => countP_enqueue p hp _ _ _ _
  generalize enqueue l.q l.now d n' = q1 at hcnt ⊢
  unfold dly
  rcases hr : removeNode q1.nodes n'.sess n'.mid with ⟨res, rest⟩
  simp only []
  cases res with
  | none =>
    have h1 := (removeNode_none _ _ _ _ hr).2
    have h2 := hcnt _ (tstable_key n'.sess n'.mid)
    rw [h1] at h2; simp at h2
  | some m =>
    have hms : m.sess = n'.sess := (removeNode_some (fun n => !n.con) tstable_ncon _ _ _ _ _ hr).2.1
    have hinf : ∀ s, inflight (L.setS (⟨l.now, ⟨q1.base, rest⟩, l.sess, l.out⟩ : L) n'.sess se) s
        = inflight l s := by
      intro s
      have h1 := (removeNode_some (fun n => decide (n.sess = s)) (tstable_sess s) _ _ _ _ _ hr).2.2.2
      have h2 := hcnt _ (tstable_sess s)
      rw [inflight_setS, inflight_eq, inflight_eq]
      simp only [hms] at h1
      simp only [] at h1 h2 ⊢
      omega
    refine ⟨⟨by simp, fun h => ?_, fun s hs => ⟨getS_setS_other (Ne.symm hs), hinf s⟩⟩, fun h => ?_⟩
    · unfold AllCon at *
      have h1 := (removeNode_some (fun n => !n.con) tstable_ncon _ _ _ _ _ hr).2.2.2
      have h2 := hcnt _ tstable_ncon
      simp [hc] at h2
      simp only [setS_q]
      omega
    · intro hlt
      have hlt' : n'.sess < l.sess.length := by simpa using hlt
      have h0 := h hlt'
      rw [hinf, getS_setS_same (l := ⟨l.now, ⟨q1.base, rest⟩, l.sess, l.out⟩) hlt']
      omega

theorem retransmit_ok (l : L) (n : Node) (hc : n.con = true) :
    Frame n.sess l (retransmit l n) ∧ (SInv l n.sess 1 → SInv (retransmit l n) n.sess 0) := by
  unfold retransmit
  simp only []
  split
  · split
    · exact delay_path l _ { n with cnt := (n.cnt + 1) % 256 } _ hc (by exact ⟨rfl, rfl⟩)
    · rename_i hg
      refine ⟨((Frame.enq (s := n.sess) (n := { n with cnt := (n.cnt + 1) % 256 }) _ _ _ rfl hc).trans (Frame.emit _ _ _)).trans (Frame.setS _ _ _), fun h => ?_⟩
      apply SInv.setS
      intro hlt
      have h0 := h hlt
      simp [gate, hc] at hg
      rw [inflight_emit, inflight_enq]
      simp only [if_true]
      omega
  · have hr := release_ok l n.sess
    exact ⟨hr.1.trans (Frame.emit _ _ _), fun h => (SInv_emit _ _ _ _).mpr (hr.2 h)⟩

@[simp] theorem WF_emit (l : L) (o : Out) : WF (l.emit o) ↔ WF l := Iff.rfl

theorem wf_remove_release {l : L} (h : WF l) (n : Node) (rest : List Node) (hm : n ∈ l.q.nodes)
    (hc : ∀ p : Node → Bool, TStable p → l.q.nodes.countP p = rest.countP p + (if p n then 1 else 0)) :
    WF (release { l with q := { l.q with nodes := rest } } n.sess) ∧ n.con = true := by
  obtain ⟨hf, hs, hcon⟩ := removed_one l n rest hm hc
  have hr := release_ok { l with q := { l.q with nodes := rest } } n.sess
  exact ⟨h.of_frame (hf.trans hr.1) (hr.2 (hs 0 (h.sinv _))), hcon h.1⟩

theorem wf_dueLoop : ∀ (fuel : Nat) (l : L), WF l → WF (dueLoop fuel l)
  | 0, l, h => h
  | fuel + 1, l, h => by
    unfold dueLoop
    split
    · exact h
    · split
      · split
        · exact h
        · rename_i n rest hp
          apply wf_dueLoop fuel
          obtain ⟨hf, hs, hcon⟩ := removed_one l n rest
            (countP_popNext (fun _ => true) (fun _ _ => rfl) _ _ _ hp).1
            (fun p hp' => (countP_popNext p hp' _ _ _ hp).2)
          have hr := retransmit_ok { l with q := { l.q with nodes := rest } } n (hcon h.1)
          exact h.of_frame (hf.trans hr.1) (hr.2 (hs 0 (h.sinv _)))
      · exact h

theorem prepareCore_fst (l : L) : (prepareCore l).1 = dueLoop (dueFuel l) l := by
  unfold prepareCore
  simp only []
  split <;> rfl

theorem wf_prepare (l : L) (h : WF l) : WF (prepare l) := by
  unfold prepare
  have := wf_dueLoop (dueFuel l) l h
  rw [← prepareCore_fst] at this
  rcases hp : prepareCore l with ⟨l', w⟩
  rw [hp] at this
  simpa using this

theorem wf_afterRx (l : L) (h : WF l) : WF (afterRx l) := by
  unfold afterRx; rw [prepareCore_fst]; exact wf_dueLoop _ _ h

theorem wf_rxAck (l : L) (s mid : Nat) (h : WF l) : WF (rxAck l s mid) := by
  unfold rxAck
  rcases hr : removeNode l.q.nodes s mid with ⟨res, rest⟩
  simp only []
  cases res with
  | none => have := (removeNode_none _ _ _ _ hr).1; subst this; exact h
  | some n =>
    have hm := removeNode_some (fun _ => true) (fun _ _ => rfl) _ _ _ _ _ hr
    have hns := hm.2.1
    subst hns
    exact (wf_remove_release h n rest hm.1 (fun p hp => (removeNode_some p hp _ _ _ _ _ hr).2.2.2)).1

theorem wf_rxRst (l : L) (s mid : Nat) (h : WF l) : WF (rxRst l s mid) := by
  unfold rxRst
  rcases hr : removeNode l.q.nodes s mid with ⟨res, rest⟩
  simp only []
  cases res with
  | none => have := (removeNode_none _ _ _ _ hr).1; subst this; exact h
  | some n =>
    have hm := removeNode_some (fun _ => true) (fun _ _ => rfl) _ _ _ _ _ hr
    have hns := hm.2.1
    subst hns
    have := (wf_remove_release h n rest hm.1 (fun p hp => (removeNode_some p hp _ _ _ _ _ hr).2.2.2)).1
    simp only []
    split
    · exact this
    · exact this

theorem wf_rxBad (l : L) (s mid : Nat) (h : WF l) : WF (rxBad l s mid) := by
  unfold rxBad
  rcases hr : removeNode l.q.nodes s mid with ⟨res, rest⟩
  simp only []
  cases res with
  | none => have := (removeNode_none _ _ _ _ hr).1; subst this; exact h
  | some n =>
    have hm := removeNode_some (fun _ => true) (fun _ _ => rfl) _ _ _ _ _ hr
    have hns := hm.2.1
    subst hns
    exact (wf_remove_release h n rest hm.1 (fun p hp => (removeNode_some p hp _ _ _ _ _ hr).2.2.2)).1

theorem wf_cancelToken : ∀ (fuel : Nat) (l : L) (s tok : Nat), WF l → WF (cancelToken fuel l s tok)
  | 0, _, _, _, h => h
  | fuel + 1, l, s, tok, h => by
    unfold cancelToken
    split
    · exact h
    · rename_i n rest hr
      apply wf_cancelToken fuel
      have hm := removeTok_some (fun _ => true) (fun _ _ => rfl) _ _ _ _ _ hr
      have hns := hm.2.1
      subst hns
      have := wf_remove_release h n rest hm.1 (fun p hp => (removeTok_some p hp _ _ _ _ _ hr).2.2)
      simp only [this.2, if_true]
      exact this.1

theorem wf_rxNon (l : L) (s mid tok : Nat) (h : WF l) : WF (rxNon l s mid tok) := by
  unfold rxNon
  exact wf_cancelToken _ _ _ _ h

theorem nackAll_eq (s : Nat) (r : Reason) : ∀ (ns : List Node) (l : L), nackAll l s r ns =
    { l with out := ((ns.filter (·.con)).reverse.map fun n => Out.nack l.now s r n.mid true) ++ l.out }
  | [], l => by simp [nackAll]
  | n :: ns, l => by
    unfold nackAll
    rw [nackAll_eq s r ns]
    cases hc : n.con <;> simp [List.filter_cons, hc, L.emit]

@[simp] theorem nackAll_sess (l : L) (s : Nat) (r : Reason) (ns : List Node) :
    (nackAll l s r ns).sess = l.sess := by rw [nackAll_eq]
@[simp] theorem nackAll_q (l : L) (s : Nat) (r : Reason) (ns : List Node) :
    (nackAll l s r ns).q = l.q := by rw [nackAll_eq]
@[simp] theorem nackAll_now (l : L) (s : Nat) (r : Reason) (ns : List Node) :
    (nackAll l s r ns).now = l.now := by rw [nackAll_eq]
theorem nackAll_out (l : L) (s : Nat) (r : Reason) (ns : List Node) :
    (nackAll l s r ns).out =
      ((ns.filter (·.con)).reverse.map fun n => Out.nack l.now s r n.mid true) ++ l.out := by
  rw [nackAll_eq]

/-- the first half of `disconnect`: only NACKs are emitted -/
def discHead (l : L) (s : Nat) : L :=
  let se := l.getS s
  let first := l.q.nodes.find? (fun n => n.sess = s)
  let l := match first with
    | some n => l.emit (.nack l.now s .undeliv n.mid true)
    | none => l
  let l := nackAll l s .undeliv se.delayq
  let sentNack := first.isSome || se.delayq.any (·.con)
  if sentNack then l else l.emit (.nack l.now s .undeliv 0 false)

/-- the second half of `disconnect` -/
def discTail (l : L) (s : Nat) (se : Sess) : L :=
  let l := l.setS s { se with est := true, conActive := 0, delayq := [] }
  let (gone, rest) := cancelSession l.q.nodes s
  let l := { l with q := { l.q with nodes := rest } }
  let l := nackAll l s .undeliv gone
  l.setS s { (l.getS s) with sockOpen := false }

theorem disconnect_eq (l : L) (s : Nat) : disconnect l s = discTail (discHead l s) s (l.getS s) := rfl

theorem Frame.nackAll (s0 : Nat) (l : L) (s : Nat) (r : Reason) (ns : List Node) :
    Frame s0 l (nackAll l s r ns) := by
  rw [nackAll_eq]; exact ⟨rfl, id, fun _ _ => ⟨rfl, rfl⟩⟩

theorem SInv_nackAll (l : L) (s' : Nat) (r : Reason) (ns : List Node) (s k : Nat) :
    SInv (nackAll l s' r ns) s k ↔ SInv l s k := by
  rw [nackAll_eq]; exact Iff.rfl

theorem discHead_frame (l : L) (s : Nat) : Frame s l (discHead l s) ∧ ∀ k, SInv l s k → SInv (discHead l s) s k := by
  unfold discHead
  simp only []
  cases l.q.nodes.find? (fun n => decide (n.sess = s)) <;> simp only [] <;> split
  · exact ⟨Frame.nackAll _ _ _ _ _, fun k h => (SInv_nackAll _ _ _ _ _ _).mpr h⟩
  · exact ⟨(Frame.nackAll _ _ _ _ _).trans (Frame.emit _ _ _), fun k h => (SInv_nackAll _ _ _ _ _ _).mpr h⟩
  · exact ⟨(Frame.emit _ _ _).trans (Frame.nackAll _ _ _ _ _), fun k h => (SInv_nackAll _ _ _ _ _ _).mpr h⟩
  · exact ⟨((Frame.emit _ _ _).trans (Frame.nackAll _ _ _ _ _)).trans (Frame.emit _ _ _),
      fun k h => (SInv_nackAll _ _ _ _ _ _).mpr h⟩

theorem cancel_frame (l : L) (s : Nat) :
    Frame s l { l with q := { l.q with nodes := (cancelSession l.q.nodes s).2 } } ∧
    inflight { l with q := { l.q with nodes := (cancelSession l.q.nodes s).2 } } s = 0 := by
  refine ⟨⟨rfl, fun h => ?_, fun s' hs' => ⟨rfl, ?_⟩⟩, ?_⟩
  · unfold AllCon at *
    simp only [cancelSession, countP_cancelAux (fun n => !n.con) tstable_ncon]
    have := List.countP_mono_left (l := l.q.nodes) (p := fun n => !n.con && !decide (n.sess = s))
      (q := fun n => !n.con) (fun x _ hx => by simp at hx ⊢; exact hx.1)
    omega
  · rw [inflight_eq, inflight_eq]
    simp only [cancelSession, countP_cancelAux (fun n => decide (n.sess = s')) (tstable_sess s')]
    apply List.countP_congr
    intro x _
    simp
    intro hx; rw [hx]; exact hs'
  · rw [inflight_eq]
    simp only [cancelSession, countP_cancelAux (fun n => decide (n.sess = s)) (tstable_sess s)]
    rw [List.countP_eq_zero]
    intro a _; simp

theorem discTail_ok (l : L) (s : Nat) (se : Sess) (hn : se.nstart ≤ 255) :
    Frame s l (discTail l s se) ∧ SInv (discTail l s se) s 0 := by
  unfold discTail
  simp only []
  have hc := cancel_frame (l.setS s { se with est := true, conActive := 0, delayq := [] }) s
  refine ⟨(((Frame.setS _ _ _).trans hc.1).trans (Frame.nackAll _ _ _ _ _)).trans (Frame.setS _ _ _), ?_⟩
  apply SInv.setS
  intro hlt
  simp only [nackAll_sess, setS_len] at hlt
  have e1 : ∀ l' : L, inflight (nackAll l' s .undeliv
      (cancelSession (l.setS s { se with est := true, conActive := 0, delayq := [] }).q.nodes s).1) s
      = inflight l' s := fun l' => by rw [nackAll_eq]; rfl
  rw [e1, hc.2]
  have e2 : ∀ (l' : L) ns, (nackAll l' s .undeliv ns).getS s = l'.getS s := fun l' ns => by rw [nackAll_eq]; rfl
  rw [e2]
  show ((l.setS s _).getS s).conActive = 0 + 0 ∧ 0 + 0 ≤ ((l.setS s _).getS s).nstart ∧
    ((l.setS s _).getS s).nstart ≤ 255
  rw [getS_setS_same hlt]
  exact ⟨rfl, Nat.zero_le _, hn⟩

theorem wf_disconnect (l : L) (s : Nat) (h : WF l) : WF (disconnect l s) := by
  rw [disconnect_eq]
  by_cases hlt : s < l.sess.length
  · have := discTail_ok (discHead l s) s (l.getS s) (h.2 s hlt).2.2
    exact h.of_frame ((discHead_frame l s).1.trans this.1) this.2
  · have h1 := discHead_frame l s
    have h2 : Frame s (discHead l s) (discTail (discHead l s) s (l.getS s)) := by
      unfold discTail
      simp only []
      exact (((Frame.setS _ _ _).trans (cancel_frame _ s).1).trans (Frame.nackAll _ _ _ _ _)).trans
        (Frame.setS _ _ _)
    have hf := h1.1.trans h2
    exact h.of_frame hf (fun hlt' => absurd (hf.len ▸ hlt') hlt)

theorem wf_step (l : L) (e : Ev) (h : WF l) : WF (step l e) := by
  cases e with
  | setNow t => exact h
  | submit s con mid r =>
    have := submit_ok l s con mid r
    exact h.of_frame this.1 (this.2 (h.sinv s))
  | prepare => exact wf_prepare l h
  | rxAck s mid => simp only [step]; split; exact wf_afterRx _ (wf_rxAck _ _ _ h); exact h
  | rxRst s mid => simp only [step]; split; exact wf_afterRx _ (wf_rxRst _ _ _ h); exact h
  | rxNon s mid tok => simp only [step]; split; exact wf_afterRx _ (wf_rxNon _ _ _ _ h); exact h
  | rxBad s mid => simp only [step]; split; exact wf_afterRx _ (wf_rxBad _ _ _ h); exact h
  | hold s =>
    exact h.of_frame (Frame.setS _ _ _) (SInv.setS (fun hlt => h.sinv s hlt))
  | connect s =>
    have := connected_ok l s
    exact h.of_frame this.1 (this.2 (h.sinv s))
  | disconnect s => simp only [step]; split; exact wf_disconnect _ _ h; exact h

theorem wf_run (evs : List Ev) : ∀ (l : L), WF l → WF (run l evs) := by
  induction evs with
  | nil => intro l h; exact h
  | cons e es ih => intro l h; exact ih _ (wf_step l e h)

theorem wf_init (t0 : Nat) (ss : List Sess)
    (hss : ∀ se ∈ ss, se.conActive = 0 ∧ se.delayq = [] ∧ se.nstart ≤ 255) : WF (init t0 ss) := by
  refine ⟨rfl, fun s hlt => ?_⟩
  have hlt' : s < ss.length := hlt
  have hm : (init t0 ss).getS s ∈ ss := by
    simp [init, L.getS, List.getD_eq_getElem?_getD, hlt']
  have := hss _ hm
  refine ⟨this.1, ?_, this.2.2⟩
  simp [inflight, init]

/-! ### no event changes the number of sessions -/

theorem release_len (l : L) (s : Nat) : (release l s).sess.length = l.sess.length := (release_ok l s).1.len

theorem retransmit_len (l : L) (n : Node) : (retransmit l n).sess.length = l.sess.length := by
  unfold retransmit
  simp only []
  split
  · split
    · simp
    · simp
  · split
    · simp [release_len]
    · exact release_len _ _

theorem dueLoop_len : ∀ (fuel : Nat) (l : L), (dueLoop fuel l).sess.length = l.sess.length
  | 0, _ => rfl
  | fuel + 1, l => by
    unfold dueLoop
    split
    · rfl
    · split
      · split
        · rfl
        · rw [dueLoop_len fuel, retransmit_len]
      · rfl

theorem afterRx_len (l : L) : (afterRx l).sess.length = l.sess.length := by
  unfold afterRx; rw [prepareCore_fst]; exact dueLoop_len _ _

theorem prepare_len (l : L) : (prepare l).sess.length = l.sess.length := by
  unfold prepare
  have := dueLoop_len (dueFuel l) l
  rw [← prepareCore_fst] at this
  rcases hp : prepareCore l with ⟨l', w⟩
  rw [hp] at this
  simpa using this

theorem rxAck_len (l : L) (s mid : Nat) : (rxAck l s mid).sess.length = l.sess.length := by
  unfold rxAck
  rcases removeNode l.q.nodes s mid with ⟨res, rest⟩
  cases res <;> simp [release_len]

theorem rxRst_len (l : L) (s mid : Nat) : (rxRst l s mid).sess.length = l.sess.length := by
  unfold rxRst
  rcases removeNode l.q.nodes s mid with ⟨res, rest⟩
  cases res
  · simp
  · simp only []; split <;> simp [release_len]

theorem rxBad_len (l : L) (s mid : Nat) : (rxBad l s mid).sess.length = l.sess.length := by
  unfold rxBad
  rcases removeNode l.q.nodes s mid with ⟨res, rest⟩
  cases res <;> simp [release_len]

theorem cancelToken_len : ∀ (fuel : Nat) (l : L) (s tok : Nat),
    (cancelToken fuel l s tok).sess.length = l.sess.length
  | 0, _, _, _ => rfl
  | fuel + 1, l, s, tok => by
    unfold cancelToken
    split
    · rfl
    · rw [cancelToken_len fuel]
      split <;> simp [release_len]

theorem rxNon_len (l : L) (s mid tok : Nat) : (rxNon l s mid tok).sess.length = l.sess.length := by
  unfold rxNon; simp [cancelToken_len]

theorem disconnect_frame (l : L) (s : Nat) : Frame s l (disconnect l s) := by
  rw [disconnect_eq]
  refine (discHead_frame l s).1.trans ?_
  unfold discTail
  simp only []
  exact (((Frame.setS _ _ _).trans (cancel_frame _ s).1).trans (Frame.nackAll _ _ _ _ _)).trans
    (Frame.setS _ _ _)

theorem step_len (l : L) (e : Ev) : (step l e).sess.length = l.sess.length := by
  cases e with
  | setNow t => rfl
  | submit s con mid r => exact (submit_ok l s con mid r).1.len
  | prepare => exact prepare_len l
  | rxAck s mid => simp only [step]; split; rw [afterRx_len, rxAck_len]; rfl
  | rxRst s mid => simp only [step]; split; rw [afterRx_len, rxRst_len]; rfl
  | rxNon s mid tok => simp only [step]; split; rw [afterRx_len, rxNon_len]; rfl
  | rxBad s mid => simp only [step]; split; rw [afterRx_len, rxBad_len]; rfl
  | hold s => simp [step]
  | connect s => exact (connected_ok l s).1.len
  | disconnect s => simp only [step]; split; exact (disconnect_frame l s).len; rfl

theorem run_len (evs : List Ev) : ∀ (l : L), (run l evs).sess.length = l.sess.length := by
  induction evs with
  | nil => intro l; rfl
  | cons e es ih => intro l; exact (ih _).trans (step_len l e)

/-! ### what `disconnect` reports -/

theorem discHead_out (l : L) (s : Nat) : ∃ pre post0 : List Out,
    (discHead l s).out = post0 ++ (((l.getS s).delayq.filter (·.con)).reverse.map
      (fun n => Out.nack l.now s .undeliv n.mid true)) ++ pre ++ l.out ∧
    pre.length ≤ 1 ∧ (∀ o ∈ post0, o = Out.nack l.now s .undeliv 0 false) ∧
    (discHead l s).now = l.now ∧ (discHead l s).q = l.q ∧ (discHead l s).sess = l.sess := by
  unfold discHead
  simp only []
  cases l.q.nodes.find? (fun n => decide (n.sess = s)) with
  | none =>
    simp only []
    split
    · exact ⟨[], [], by simp [nackAll_out], by simp, by simp, by simp, by simp, by simp⟩
    · exact ⟨[], [Out.nack l.now s .undeliv 0 false], by simp [nackAll_out], by simp, by simp, by simp,
        by simp, by simp⟩
  | some n =>
    simp only []
    split
    · exact ⟨[Out.nack l.now s .undeliv n.mid true], [], by simp [nackAll_out], by simp, by simp, by simp,
        by simp, by simp⟩
    · exact ⟨[Out.nack l.now s .undeliv n.mid true], [Out.nack l.now s .undeliv 0 false],
        by simp [nackAll_out], by simp, by simp, by simp, by simp, by simp⟩

theorem discTail_out (l : L) (s : Nat) (se : Sess) :
    (discTail l s se).out = (((cancelSession l.q.nodes s).1.filter (·.con)).reverse.map
      (fun n => Out.nack l.now s .undeliv n.mid true)) ++ l.out := by
  unfold discTail
  simp [nackAll_out]

theorem discTail_delayq (l : L) (s : Nat) (se : Sess) (hlt : s < l.sess.length) :
    ((discTail l s se).getS s).delayq = [] := by
  unfold discTail
  simp only []
  rw [getS_setS_same (by simpa using hlt)]
  have e2 : ∀ (l' : L) ns, (nackAll l' s .undeliv ns).getS s = l'.getS s := fun l' ns => by rw [nackAll_eq]; rfl
  simp only [e2]
  show ((l.setS s _).getS s).delayq = []
  rw [getS_setS_same hlt]

theorem disconnect_out (l : L) (s : Nat) (hlt : s < l.sess.length) : ∃ pre post : List Out,
    (disconnect l s).out = post ++ (((l.getS s).delayq.filter (·.con)).reverse.map
      (fun n => Out.nack l.now s .undeliv n.mid true)) ++ pre ++ l.out ∧
    ((disconnect l s).getS s).delayq = [] ∧ pre.length ≤ 1 ∧
    (∀ o ∈ post, (∃ n ∈ l.q.nodes, n.sess = s ∧ o = Out.nack l.now s .undeliv n.mid true) ∨
      o = Out.nack l.now s .undeliv 0 false) := by
  obtain ⟨pre, post0, hout, hpre, hpost0, hnow, hq, hsess⟩ := discHead_out l s
  rw [disconnect_eq]
  refine ⟨pre, (((cancelSession l.q.nodes s).1.filter (·.con)).reverse.map
      (fun n => Out.nack l.now s .undeliv n.mid true)) ++ post0, ?_, ?_, hpre, ?_⟩
  · rw [discTail_out, hout, hnow, hq]; simp
  · exact discTail_delayq _ _ _ (by rw [hsess]; exact hlt)
  · intro o ho
    rw [List.mem_append] at ho
    rcases ho with ho | ho
    · left
      simp only [List.mem_map, List.mem_reverse, List.mem_filter] at ho
      obtain ⟨n, ⟨hn, _⟩, rfl⟩ := ho
      have hg := gone_cancelAux (fun n => (n.mid, n.con)) (fun _ _ => rfl) l.q.nodes s 0
      have : (n.mid, n.con) ∈ (cancelSessionAux l.q.nodes s 0).1.map (fun n => (n.mid, n.con)) :=
        List.mem_map.mpr ⟨n, hn, rfl⟩
      rw [hg] at this
      simp only [List.mem_map, List.mem_filter] at this
      obtain ⟨m, ⟨hm, hms⟩, hmn⟩ := this
      refine ⟨m, hm, by simpa using hms, ?_⟩
      have : m.mid = n.mid := by simpa using congrArg Prod.fst hmn
      rw [this]
    · right; exact hpost0 o ho

/-! ### the delay queue is a FIFO -/

/-- `drain` transmits exactly the first `k` held messages, once each, in order; the rest stays held in order -/
theorem drain_fifo : ∀ (fuel : Nat) (l : L) (s : Nat), s < l.sess.length →
    ∃ (k : Nat) (added : List Out),
      ((drain fuel l s).getS s).delayq = (l.getS s).delayq.drop k ∧
      (drain fuel l s).out = added ++ l.out ∧
      added.reverse = ((l.getS s).delayq.take k).map (fun n => Out.tx l.now s n.mid n.cnt n.con) ∧
      (drain fuel l s).now = l.now
  | 0, l, s, _ => ⟨0, [], by simp [drain], by simp [drain], by simp, rfl⟩
  | fuel + 1, l, s, hlt => by
    unfold drain
    simp only []
    split
    · exact ⟨0, [], by simp, by simp, by simp, rfl⟩
    · rename_i n rest hdq
      split
      · exact ⟨0, [], by simp, by simp, by simp, rfl⟩
      · split
        · exact ⟨0, [], by simp, by simp, by simp, rfl⟩
        · have key : ∀ l' : L, l'.sess.length = l.sess.length → (l'.getS s).delayq = rest →
              l'.out = Out.tx l.now s n.mid n.cnt n.con :: l.out → l'.now = l.now →
              ∃ (k : Nat) (added : List Out),
                ((drain fuel l' s).getS s).delayq = (l.getS s).delayq.drop k ∧
                (drain fuel l' s).out = added ++ l.out ∧
                added.reverse = ((l.getS s).delayq.take k).map (fun n => Out.tx l.now s n.mid n.cnt n.con) ∧
                (drain fuel l' s).now = l.now := by
            intro l' hlen hdq' hout hnow
            obtain ⟨k', added', h1, h2, h3, h4⟩ := drain_fifo fuel l' s (hlen ▸ hlt)
            refine ⟨k' + 1, added' ++ [Out.tx l.now s n.mid n.cnt n.con], ?_, ?_, ?_, ?_⟩
            · rw [h1, hdq', hdq]; simp
            · rw [h2, hout]; simp
            · rw [hdq]; simp [h3, hdq', hnow]
            · rw [h4, hnow]
          cases hc : n.con
          · simp only [Bool.false_eq_true, if_false]
            apply key <;> simp [getS_setS_same hlt, hc]
          · simp only [if_true]
            apply key <;> simp [getS_setS_same hlt, hc]

/-- a message that passes the gate into the delay queue is appended at its end; nothing is transmitted -/
theorem submit_held_appends (l : L) (s : Nat) (con : Bool) (mid r : Nat) (hlt : s < l.sess.length)
    (hg : gate (l.getS s) con = true) (ho : (l.getS s).sockOpen = true)
    (hm : (l.getS s).delayq.any (fun x => x.mid = mid) = false) :
    ((submit l s con mid r).getS s).delayq = (l.getS s).delayq ++
      [{ sess := s, mid := mid, t := 0,
         timeout := if con then calcTimeout (l.getS s).atI (l.getS s).atF (l.getS s).arfI (l.getS s).arfF r else 0,
         cnt := 0, tok := mid, con := con }] ∧
    (submit l s con mid r).out = Out.sub (some mid) :: l.out ∧ (submit l s con mid r).q = l.q := by
  unfold submit
  simp only [ho, hg, hm]
  simp [getS_setS_same hlt]

/-! ### the life of the delay queue: a step relation and its reflexive-transitive closure -/

/-- the allowed effect of one elementary action of the message layer on the delay queue of session `s` -/
inductive DqStep (s : Nat) : L → L → Prop
  /-- the delay queue of `s` is left alone -/
  | other {l l' : L} : (l'.getS s).delayq = (l.getS s).delayq → l'.sess.length = l.sess.length → DqStep s l l'
  /-- a message is held: appended at the END, nothing is transmitted by this step -/
  | push {l l' : L} (n : Node) : (l'.getS s).delayq = (l.getS s).delayq ++ [n] → l'.out = l.out →
      l'.sess.length = l.sess.length → DqStep s l l'
  /-- the HEAD leaves, and exactly then it is transmitted (once) -/
  | popTx {l l' : L} (n : Node) (rest : List Node) : (l.getS s).delayq = n :: rest →
      (l'.getS s).delayq = rest → l'.out = Out.tx l.now s n.mid n.cnt n.con :: l.out → l'.now = l.now →
      l'.sess.length = l.sess.length → DqStep s l l'
  /-- failure of the session: the whole delay queue goes, each held CON is NACKed exactly once, in order
  (`pre`: at most one NACK for the first send-queue node; `post`: NACKs for send-queue nodes of `s`, or the
  single "nothing pending" NACK) -/
  | clear {l l' : L} : (l'.getS s).delayq = [] →
      (∃ pre post : List Out,
        l'.out = post ++ (((l.getS s).delayq.filter (·.con)).reverse.map
          (fun n => Out.nack l.now s .undeliv n.mid true)) ++ pre ++ l.out ∧ pre.length ≤ 1 ∧
        (∀ o ∈ post, (∃ n ∈ l.q.nodes, n.sess = s ∧ o = Out.nack l.now s .undeliv n.mid true) ∨
          o = Out.nack l.now s .undeliv 0 false)) →
      l'.sess.length = l.sess.length → DqStep s l l'

/-- reflexive-transitive closure -/
inductive Star (r : L → L → Prop) : L → L → Prop
  | refl {l : L} : Star r l l
  | tail {a b c : L} : Star r a b → r b c → Star r a c

theorem Star.single {r : L → L → Prop} {a b : L} (h : r a b) : Star r a b := Star.tail Star.refl h

theorem Star.trans {r : L → L → Prop} {a b c : L} (h1 : Star r a b) (h2 : Star r b c) : Star r a c := by
  induction h2 with
  | refl => exact h1
  | tail _ hbc ih => exact Star.tail ih hbc

theorem DqStep.len {s : Nat} {l l' : L} (h : DqStep s l l') : l'.sess.length = l.sess.length := by
  cases h <;> assumption

theorem Star.len {s : Nat} {l l' : L} (h : Star (DqStep s) l l') : l'.sess.length = l.sess.length := by
  induction h with
  | refl => rfl
  | tail _ h2 ih => exact h2.len.trans ih

/-- the delay queue of `s` is the same in `l` and `l'` (a composable form of `DqStep.other`) -/
def DqSame (s : Nat) (l l' : L) : Prop :=
  (l'.getS s).delayq = (l.getS s).delayq ∧ l'.sess.length = l.sess.length

theorem DqSame.star {s : Nat} {l l' : L} (h : DqSame s l l') : Star (DqStep s) l l' :=
  Star.single (DqStep.other h.1 h.2)
theorem DqSame.refl (s : Nat) (l : L) : DqSame s l l := ⟨rfl, rfl⟩
theorem DqSame.trans {s : Nat} {l l' l'' : L} (h1 : DqSame s l l') (h2 : DqSame s l' l'') : DqSame s l l'' :=
  ⟨h2.1.trans h1.1, h2.2.trans h1.2⟩
theorem DqSame.emit (s : Nat) (l : L) (o : Out) : DqSame s l (l.emit o) := ⟨rfl, rfl⟩
theorem DqSame.waitAck (s : Nat) (l : L) (n : Node) : DqSame s l (waitAck l n) := ⟨rfl, rfl⟩
theorem DqSame.mk_q (s : Nat) (l : L) (q : Queue) : DqSame s l { l with q := q } := ⟨rfl, rfl⟩
theorem DqSame.nackAll (s : Nat) (l : L) (s' : Nat) (r : Reason) (ns : List Node) :
    DqSame s l (nackAll l s' r ns) := by rw [nackAll_eq]; exact ⟨rfl, rfl⟩
theorem DqSame.of_frame {s s' : Nat} {l l' : L} (hf : Frame s' l l') (hne : s ≠ s') : DqSame s l l' :=
  ⟨by rw [(hf.other s hne).1], hf.len⟩

theorem DqSame.setS_keep {s : Nat} {l : L} (hs : s < l.sess.length) (s' : Nat) {se : Sess}
    (h : se.delayq = (l.getS s').delayq) : DqSame s l (l.setS s' se) := by
  refine ⟨?_, by simp⟩
  by_cases e : s' = s
  · subst e; rw [getS_setS_same hs]; exact h
  · rw [getS_setS_other e]

theorem DqStep.setS_push {s : Nat} {l : L} (hs : s < l.sess.length) (s' : Nat) {se : Sess} (n : Node)
    (h : se.delayq = (l.getS s').delayq ++ [n]) : DqStep s l (l.setS s' se) := by
  by_cases e : s' = s
  · subst e; exact DqStep.push n (by rw [getS_setS_same hs]; exact h) rfl (by simp)
  · exact DqStep.other (by rw [getS_setS_other e]) (by simp)

theorem drain_star_same : ∀ (fuel : Nat) (l : L) (s : Nat), s < l.sess.length →
    Star (DqStep s) l (drain fuel l s)
  | 0, _, _, _ => Star.refl
  | fuel + 1, l, s, hs => by
    unfold drain
    simp only []
    split
    · exact Star.refl
    · rename_i n rest hdq
      split
      · exact Star.refl
      · split
        · exact Star.refl
        · have key : ∀ l1 l' : L, DqStep s l l1 → DqSame s l1 l' → Star (DqStep s) l (drain fuel l' s) :=
            fun l1 l' h1 h2 => (Star.single h1).trans (h2.star.trans
              (drain_star_same fuel l' s (by rw [h2.2, h1.len]; exact hs)))
          cases hc : n.con
          · simp only [Bool.false_eq_true, if_false]
            exact key _ _ (DqStep.popTx n rest hdq (by simp [getS_setS_same hs]) (by simp [hc]) (by simp)
              (by simp)) (DqSame.refl _ _)
          · simp only [if_true]
            exact key _ _ (DqStep.popTx n rest hdq (by simp [getS_setS_same hs]) (by simp [hc]) (by simp)
              (by simp)) (DqSame.waitAck _ _ _)

theorem drain_star (fuel : Nat) (l : L) (s' s : Nat) (hs : s < l.sess.length) :
    Star (DqStep s) l (drain fuel l s') := by
  by_cases e : s' = s
  · subst e; exact drain_star_same fuel l s' hs
  · exact (DqSame.of_frame (drain_ok fuel l s').1 (Ne.symm e)).star

theorem connected_star (l : L) (s' s : Nat) (hs : s < l.sess.length) :
    Star (DqStep s) l (connected l s') := by
  unfold connected
  simp only []
  exact (DqSame.setS_keep (by exact hs) s' (by rfl)).star.trans (drain_star _ _ _ _ (by simpa using hs))

theorem release_star (l : L) (s' s : Nat) (hs : s < l.sess.length) :
    Star (DqStep s) l (release l s') := by
  unfold release
  simp only []
  split
  · exact Star.refl
  · split
    · exact (DqSame.setS_keep (by exact hs) s' (by rfl)).star.trans (connected_star _ _ _ (by simpa using hs))
    · exact (DqSame.setS_keep (by exact hs) s' (by rfl)).star

theorem submit_star (l : L) (s' : Nat) (con : Bool) (mid r : Nat) (s : Nat) (hs : s < l.sess.length) :
    Star (DqStep s) l (submit l s' con mid r) := by
  unfold submit
  simp only []
  split
  · exact (DqSame.emit _ _ _).star
  · split
    · split
      · exact (DqSame.emit _ _ _).star
      · exact (Star.single (DqStep.setS_push (by exact hs) s' _ (by rfl))).trans (DqSame.emit _ _ _).star
    · cases con
      · simp only [Bool.false_eq_true, if_false]
        exact ((DqSame.emit _ _ _).trans (DqSame.emit _ _ _)).star
      · simp only [if_true]
        exact ((((DqSame.emit _ _ _).trans (DqSame.setS_keep (by exact hs) s' (by rfl))).trans
          (DqSame.waitAck _ _ _)).trans (DqSame.emit _ _ _)).star

theorem retransmit_star (l : L) (n : Node) (s : Nat) (hs : s < l.sess.length) :
    Star (DqStep s) l (retransmit l n) := by
  unfold retransmit
  simp only []
  split
  · split
    · refine Star.trans (DqSame.mk_q s l _).star (Star.single (DqStep.setS_push ?_ n.sess _ (by rfl)))
      exact hs
    · refine (((DqSame.mk_q s l _).trans (DqSame.emit _ _ _)).trans (DqSame.setS_keep ?_ n.sess (by rfl))).star
      exact hs
  · split
    · exact (release_star l n.sess s hs).trans (DqSame.emit _ _ _).star
    · exact release_star l n.sess s hs

theorem dueLoop_star : ∀ (fuel : Nat) (l : L) (s : Nat), s < l.sess.length →
    Star (DqStep s) l (dueLoop fuel l)
  | 0, _, _, _ => Star.refl
  | fuel + 1, l, s, hs => by
    unfold dueLoop
    split
    · exact Star.refl
    · split
      · split
        · exact Star.refl
        · rename_i n rest hp
          refine ((DqSame.mk_q s l _).star.trans (retransmit_star _ n s (by exact hs))).trans
            (dueLoop_star fuel _ s ?_)
          rw [retransmit_len]; exact hs
      · exact Star.refl

theorem afterRx_star (l : L) (s : Nat) (hs : s < l.sess.length) : Star (DqStep s) l (afterRx l) := by
  unfold afterRx; rw [prepareCore_fst]; exact dueLoop_star _ _ _ hs

theorem prepare_star (l : L) (s : Nat) (hs : s < l.sess.length) : Star (DqStep s) l (prepare l) := by
  unfold prepare
  have := dueLoop_star (dueFuel l) l s hs
  rw [← prepareCore_fst] at this
  rcases hp : prepareCore l with ⟨l', w⟩
  rw [hp] at this
  exact this.trans (DqSame.emit _ _ _).star

theorem rxAck_star (l : L) (s' mid s : Nat) (hs : s < l.sess.length) : Star (DqStep s) l (rxAck l s' mid) := by
  unfold rxAck
  rcases removeNode l.q.nodes s' mid with ⟨res, rest⟩
  cases res
  · exact (DqSame.mk_q s l _).star
  · exact (DqSame.mk_q s l _).star.trans (release_star _ _ _ (by exact hs))

theorem rxRst_star (l : L) (s' mid s : Nat) (hs : s < l.sess.length) : Star (DqStep s) l (rxRst l s' mid) := by
  unfold rxRst
  rcases removeNode l.q.nodes s' mid with ⟨res, rest⟩
  cases res
  · exact ((DqSame.mk_q s l _).trans (DqSame.emit _ _ _)).star
  · simp only []
    split
    · exact ((DqSame.mk_q s l _).star.trans (release_star _ _ _ (by exact hs))).trans (DqSame.emit _ _ _).star
    · exact (DqSame.mk_q s l _).star.trans (release_star _ _ _ (by exact hs))

theorem rxBad_star (l : L) (s' mid s : Nat) (hs : s < l.sess.length) : Star (DqStep s) l (rxBad l s' mid) := by
  unfold rxBad
  rcases removeNode l.q.nodes s' mid with ⟨res, rest⟩
  cases res
  · exact (DqSame.mk_q s l _).star
  · exact ((DqSame.mk_q s l _).star.trans (release_star _ _ _ (by exact hs))).trans (DqSame.emit _ _ _).star

theorem cancelToken_star : ∀ (fuel : Nat) (l : L) (s' tok s : Nat), s < l.sess.length →
    Star (DqStep s) l (cancelToken fuel l s' tok)
  | 0, _, _, _, _, _ => Star.refl
  | fuel + 1, l, s', tok, s, hs => by
    unfold cancelToken
    split
    · exact Star.refl
    · rename_i n rest hr
      cases hc : n.con
      · simp only [Bool.false_eq_true, if_false]
        exact (DqSame.mk_q s l _).star.trans (cancelToken_star fuel _ s' tok s (by exact hs))
      · simp only [if_true]
        refine ((DqSame.mk_q s l _).star.trans (release_star _ s' s (by exact hs))).trans
          (cancelToken_star fuel _ s' tok s ?_)
        rw [release_len]; exact hs

theorem rxNon_star (l : L) (s' mid tok s : Nat) (hs : s < l.sess.length) :
    Star (DqStep s) l (rxNon l s' mid tok) := by
  unfold rxNon
  exact (cancelToken_star _ l s' tok s hs).trans (DqSame.emit _ _ _).star

theorem disconnect_star (l : L) (s' s : Nat) (hs : s < l.sess.length) :
    Star (DqStep s) l (disconnect l s') := by
  by_cases e : s' = s
  · subst e
    obtain ⟨pre, post, hout, hdq, hpre, hpost⟩ := disconnect_out l s' hs
    exact Star.single (DqStep.clear hdq ⟨pre, post, hout, hpre, hpost⟩ (disconnect_frame l s').len)
  · exact (DqSame.of_frame (disconnect_frame l s') (Ne.symm e)).star

/-- every event moves the delay queue of every session only by `DqStep`s -/
theorem step_star (l : L) (e : Ev) (s : Nat) (hs : s < l.sess.length) : Star (DqStep s) l (step l e) := by
  cases e with
  | setNow t => exact (show DqSame s l { l with now := t } from ⟨rfl, rfl⟩).star
  | submit s' con mid r => exact submit_star l s' con mid r s hs
  | prepare => exact prepare_star l s hs
  | rxAck s' mid =>
    simp only [step]; split
    · exact (rxAck_star l s' mid s hs).trans (afterRx_star _ s (by rw [rxAck_len]; exact hs))
    · exact Star.refl
  | rxRst s' mid =>
    simp only [step]; split
    · exact (rxRst_star l s' mid s hs).trans (afterRx_star _ s (by rw [rxRst_len]; exact hs))
    · exact Star.refl
  | rxNon s' mid tok =>
    simp only [step]; split
    · exact (rxNon_star l s' mid tok s hs).trans (afterRx_star _ s (by rw [rxNon_len]; exact hs))
    · exact Star.refl
  | rxBad s' mid =>
    simp only [step]; split
    · exact (rxBad_star l s' mid s hs).trans (afterRx_star _ s (by rw [rxBad_len]; exact hs))
    · exact Star.refl
  | hold s' => exact (DqSame.setS_keep (by exact hs) s' (by rfl)).star
  | connect s' => exact connected_star l s' s hs
  | disconnect s' =>
    simp only [step]; split
    · exact disconnect_star l s' s hs
    · exact Star.refl

theorem run_star (evs : List Ev) : ∀ (l : L) (s : Nat), s < l.sess.length → Star (DqStep s) l (run l evs) := by
  induction evs with
  | nil => intro l s _; exact Star.refl
  | cons e es ih =>
    intro l s hs
    exact (step_star l e s hs).trans (ih (step l e) s (by rw [step_len]; exact hs))

end Coap.Msg
