import CoapVerif.Lemmas.Replay
/- C15 — the sender side of an endpoint over whole histories (`nrun`: requests in, own requests, responses, Echo
challenges, save watermark, crashes and restarts): ghost log of the nonces used, invariant relating it to the sender
sequence number, the stored watermark and the associations.  Core Lean only. -/
namespace Coap.Replay

/-- the Partial IVs used with the endpoint's own Sender ID in a list of nonces -/
def ownsOf : List Nonce → List Nat
  | [] => []
  | .own p :: r => p :: ownsOf r
  | .ofReq _ :: r => ownsOf r

/-- the Partial IVs of requests whose nonce was used again (for a response) -/
def ofReqsOf : List Nonce → List Nat
  | [] => []
  | .own _ :: r => ofReqsOf r
  | .ofReq p :: r => p :: ofReqsOf r

theorem ownsOf_append (a b : List Nonce) : ownsOf (a ++ b) = ownsOf a ++ ownsOf b := by
  induction a with
  | nil => rfl
  | cons x a ih => cases x <;> simp [ownsOf, ih]

theorem ofReqsOf_append (a b : List Nonce) : ofReqsOf (a ++ b) = ofReqsOf a ++ ofReqsOf b := by
  induction a with
  | nil => rfl
  | cons x a ih => cases x <;> simp [ofReqsOf, ih]

theorem SGood.step {y : SSys} {U : List Nat} {n : Nat} (g : SGood y U n) : SGood y U (n + 1) :=
  ⟨g.used_seq, g.used_st, g.alive, g.st_le, by have := g.seq_le; omega⟩

/-- Invariant: the sender invariant `SGood` for the own Partial IVs used so far, and every association that can
protect a response (not `is_client`) holds the nonce of a request of the peer. -/
structure NInv (e : Endp) (U : List Nat) (n : Nat) : Prop where
  sg : SGood e.sys U n
  srv : ∀ t a, e.assocs t = some a → a.client = false → ∃ p, a.nonce = .ofReq p

theorem ninv_start (f start : Nat) (h : start ≤ SEQ_MAX + 2 ^ 32) : NInv (Endp.start f start) [] 0 :=
  ⟨sgood_start f start h, fun _ _ h => by simp [Endp.start] at h⟩

theorem ownPiv_good {y : SSys} {U : List Nat} {n : Nat} (g : SGood y U n) (hn : n < 2 ^ 63) :
    (∀ p, (ownPiv y).2 = some p → SGood (ownPiv y).1 (p :: U) (n + 1) ∧ ∀ u ∈ U, u < p) ∧
    ((ownPiv y).2 = none → SGood (ownPiv y).1 U (n + 1)) := by
  have h := sstep_good g hn .protect
  have h1 : (sstep y .protect).1 = (ownPiv y).1 := rfl
  have h2 : emitted (sstep y .protect).2 = (match (ownPiv y).2 with | some p => [p] | none => []) := rfl
  rw [h1, h2] at h
  constructor
  · intro p hp
    rw [hp] at h
    exact ⟨h.1, fun u hu => h.2 p (by simp) u hu⟩
  · intro hp
    rw [hp] at h
    exact h.1

theorem srv_erase {a : Nat → Option Assoc} (t : Nat)
    (h : ∀ t' x, a t' = some x → x.client = false → ∃ p, x.nonce = .ofReq p) :
    ∀ t' x, setAssoc a t none t' = some x → x.client = false → ∃ p, x.nonce = .ofReq p := by
  intro t' x hx hc
  unfold setAssoc at hx
  by_cases ht : t' = t
  · simp [ht] at hx
  · simp [ht] at hx; exact h t' x hx hc

theorem srv_set {a : Nat → Option Assoc} (t : Nat) (v : Assoc) (hv : v.client = false → ∃ p, v.nonce = .ofReq p)
    (h : ∀ t' x, a t' = some x → x.client = false → ∃ p, x.nonce = .ofReq p) :
    ∀ t' x, setAssoc a t (some v) t' = some x → x.client = false → ∃ p, x.nonce = .ofReq p := by
  intro t' x hx hc
  unfold setAssoc at hx
  by_cases ht : t' = t
  · simp [ht] at hx; subst hx; exact hv hc
  · simp [ht] at hx; exact h t' x hx hc

theorem srv_mark {a : Nat → Option Assoc} (t : Nat)
    (h : ∀ t' x, a t' = some x → x.client = false → ∃ p, x.nonce = .ofReq p) :
    ∀ t' x, markObserve a t t' = some x → x.client = false → ∃ p, x.nonce = .ofReq p := by
  unfold markObserve
  cases hy : a t with
  | some y => exact srv_set t _ (fun hc => h t y hy hc) h
  | none => exact h

/-- one response: the invariant is kept, an own Partial IV is above all those used before, and the nonce of a request
is only ever taken from an association that belongs to a request received -/
theorem respond_inv {e : Endp} {U : List Nat} {n : Nat} (g : NInv e U n) (hn : n < 2 ^ 63) (t : Nat) (o s : Bool) :
    NInv (respond e t o s).1 (ownsOf (nemit (respond e t o s).2) ++ U) (n + 1) ∧
      (∀ p ∈ ownsOf (nemit (respond e t o s).2), ∀ u ∈ U, u < p) ∧
      ((respond e t o s).2 = .err ∨ (∃ p, (respond e t o s).2 = .sent (some p) (.own p)) ∨
        (∃ q, (respond e t o s).2 = .sent none (.ofReq q) ∧ (o || s) = false)) := by
  obtain ⟨hsome, hnone⟩ := ownPiv_good g.sg hn
  unfold respond
  cases ha : e.assocs t with
  | none => exact ⟨⟨g.sg.step, g.srv⟩, by simp [nemit, ownsOf], Or.inl rfl⟩
  | some a =>
    dsimp only
    cases hc : a.client with
    | true => exact ⟨⟨g.sg.step, g.srv⟩, by simp [nemit, ownsOf], Or.inl rfl⟩
    | false =>
      obtain ⟨q, hq⟩ := g.srv t a ha hc
      simp only [Bool.false_eq_true, if_false]
      by_cases hb : (o || (s || a.observe && !o)) = true
      · rw [if_pos hb]
        cases hp : (ownPiv e.sys).2 with
        | none =>
          exact ⟨⟨hnone hp, g.srv⟩, by simp [nemit, ownsOf], Or.inl rfl⟩
        | some p =>
          obtain ⟨h1, h2⟩ := hsome p hp
          refine ⟨⟨by simpa [nemit, ownsOf] using h1, ?_⟩, by simpa [nemit, ownsOf] using h2, Or.inr (Or.inl ⟨p, rfl⟩)⟩
          dsimp only
          cases a.observe with
          | true => exact g.srv
          | false => exact srv_erase t g.srv
      · rw [if_neg hb]
        have hos : (o || s) = false := by
          cases o <;> cases s <;> simp_all
        refine ⟨⟨by simpa [nemit, hq, ownsOf] using g.sg.step, ?_⟩, by simp [nemit, hq, ownsOf],
          Or.inr (Or.inr ⟨q, by rw [hq], hos⟩)⟩
        dsimp only
        cases a.observe with
        | true => exact g.srv
        | false => exact srv_erase t g.srv

/-- the protected Echo challenge: a response with `OSCORE_SEND_PARTIAL_IV` -/
theorem chal_inv {e : Endp} {U : List Nat} {n : Nat} (g : NInv e U n) (hn : n < 2 ^ 63) (t : Nat) :
    NInv (respond e t false true).1
        (ownsOf (nemit (.chal (chalPiv (respond e t false true).2))) ++ U) (n + 1) ∧
      (∀ p ∈ ownsOf (nemit (.chal (chalPiv (respond e t false true).2))), ∀ u ∈ U, u < p) ∧
      (ownsOf (nemit (.chal (chalPiv (respond e t false true).2)))).length ≤ 1 := by
  obtain ⟨h1, h2, h3⟩ := respond_inv g hn t false true
  rcases h3 with h | ⟨p, h⟩ | ⟨q, _, h⟩
  · rw [h] at h1 h2 ⊢
    exact ⟨by simpa [nemit, ownsOf, chalPiv] using h1, by simp [nemit, ownsOf, chalPiv], by simp [nemit, ownsOf, chalPiv]⟩
  · rw [h] at h1 h2 ⊢
    exact ⟨by simpa [nemit, ownsOf, chalPiv] using h1, by simpa [nemit, ownsOf, chalPiv] using h2, by simp [nemit, ownsOf, chalPiv]⟩
  · simp at h

/-- one operation of the endpoint -/
theorem nstep_inv {cfg : Cfg} {e : Endp} {U : List Nat} {n : Nat} (g : NInv e U n) (hn : n < 2 ^ 63) (op : NOp) :
    NInv (nstep cfg e op).1 (ownsOf (nemit (nstep cfg e op).2) ++ U) (n + 1) ∧
      (∀ p ∈ ownsOf (nemit (nstep cfg e op).2), ∀ u ∈ U, u < p) ∧ (ownsOf (nemit (nstep cfg e op).2)).length ≤ 1 := by
  cases op with
  | sendRsp t o s =>
    obtain ⟨h1, h2, h3⟩ := respond_inv g hn t o s
    refine ⟨h1, h2, ?_⟩
    show (ownsOf (nemit (respond e t o s).2)).length ≤ 1
    rcases h3 with h | ⟨p, h⟩ | ⟨q, h, _⟩ <;> rw [h] <;> simp [nemit, ownsOf]
  | crash f =>
    have h := sstep_good g.sg hn (.crash f)
    simp only [sstep, emitted, List.nil_append] at h
    exact ⟨⟨by simpa [nstep, nemit, ownsOf] using h.1, fun _ _ h => by simp [nstep] at h⟩, by simp [nstep, nemit, ownsOf],
      by simp [nstep, nemit, ownsOf]⟩
  | sendReq t o d =>
    obtain ⟨hsome, hnone⟩ := ownPiv_good g.sg hn
    simp only [nstep]
    cases hp : (ownPiv e.sys).2 with
    | none => exact ⟨⟨hnone hp, g.srv⟩, by simp [nemit, ownsOf], by simp [nemit, ownsOf]⟩
    | some p =>
      obtain ⟨h1, h2⟩ := hsome p hp
      refine ⟨⟨by simpa [nemit, ownsOf] using h1, ?_⟩, by simpa [nemit, ownsOf] using h2, by simp [nemit, ownsOf]⟩
      dsimp only
      apply srv_set t _ _ g.srv
      intro hc
      revert hc
      cases e.assocs t <;> simp
  | reqIn t ev obs =>
    simp only [nstep]
    -- the associations after the decryption step
    have ha1 : ∀ t' x, (if decrypted cfg e.rcp ev = true then
        setAssoc e.assocs t (some { nonce := .ofReq ev.piv, observe := keptObserve e.assocs t, client := false })
      else e.assocs) t' = some x → x.client = false → ∃ p, x.nonce = .ofReq p := by
      split
      · exact srv_set t _ (fun _ => ⟨ev.piv, rfl⟩) g.srv
      · exact g.srv
    by_cases hch : (recv cfg e.rcp ev).2 = .chal
    · rw [if_pos hch]
      have g' : NInv { e with rcp := (recv cfg e.rcp ev).1, assocs := (if decrypted cfg e.rcp ev = true then
          setAssoc e.assocs t (some { nonce := .ofReq ev.piv, observe := keptObserve e.assocs t, client := false })
        else e.assocs) } U n := ⟨g.sg, ha1⟩
      obtain ⟨h1, h2, h3⟩ := chal_inv g' hn t
      exact ⟨⟨h1.sg, srv_erase t h1.srv⟩, h2, h3⟩
    · rw [if_neg hch]
      split
      · exact ⟨⟨g.sg.step, srv_erase t ha1⟩, by simp [nemit, ownsOf], by simp [nemit, ownsOf]⟩
      · refine ⟨⟨g.sg.step, ?_⟩, by simp [nemit, ownsOf], by simp [nemit, ownsOf]⟩
        dsimp only [nemit, ownsOf, List.nil_append]
        by_cases hao : (recv cfg e.rcp ev).2 = .acc ∧ obs = true
        · rw [if_pos hao]; exact srv_mark t ha1
        · rw [if_neg hao]; exact ha1

/-- the run: the own Partial IVs of a history are strictly increasing and above everything used before it -/
theorem nrun_owns (cfg : Cfg) (ops : List NOp) : ∀ (e : Endp) (U : List Nat) (n : Nat), NInv e U n →
    n + ops.length < 2 ^ 63 →
    (∀ p ∈ ownsOf (nonces (nrun cfg e ops)), ∀ u ∈ U, u < p) ∧ (ownsOf (nonces (nrun cfg e ops))).Pairwise (· < ·) := by
  induction ops with
  | nil => intro _ _ _ _ _; simp [nrun, nonces, ownsOf]
  | cons op ops ih =>
    intro e U n g hn
    simp only [List.length_cons] at hn
    obtain ⟨g', hnew, hlen⟩ := nstep_inv (cfg := cfg) g (by omega) op
    obtain ⟨hfut, hpw⟩ := ih _ _ _ g' (by omega)
    simp only [nrun, nonces, ownsOf_append]
    refine ⟨?_, ?_⟩
    · intro p hp u hu
      rcases List.mem_append.mp hp with hp | hp
      · exact hnew p hp u hu
      · exact hfut p hp u (List.mem_append_right _ hu)
    · rw [List.pairwise_append]
      refine ⟨?_, hpw, ?_⟩
      · match hl : ownsOf (nemit (nstep cfg e op).2), hlen with
        | [], _ => exact List.Pairwise.nil
        | [x], _ => exact List.pairwise_singleton _ _
        | _ :: _ :: _, h => simp at h
      · intro a ha b hb
        exact hfut b hb a (List.mem_append_left _ ha)

/-- the endpoint after a history -/
def nfinal (cfg : Cfg) : Endp → List NOp → Endp
  | e, [] => e
  | e, op :: ops => nfinal cfg (nstep cfg e op).1 ops

theorem nfinal_inv (cfg : Cfg) (ops : List NOp) : ∀ (e : Endp) (U : List Nat) (n : Nat), NInv e U n →
    n + ops.length < 2 ^ 63 → ∃ U', NInv (nfinal cfg e ops) U' (n + ops.length) := by
  induction ops with
  | nil => intro e U n g _; exact ⟨U, g⟩
  | cons op ops ih =>
    intro e U n g hn
    simp only [List.length_cons] at hn ⊢
    obtain ⟨g', _, _⟩ := nstep_inv (cfg := cfg) g (by omega) op
    obtain ⟨U', h⟩ := ih _ _ _ g' (by omega)
    exact ⟨U', by simpa [nfinal, Nat.add_assoc, Nat.add_comm 1] using h⟩

/-- in a state that satisfies the invariant, whatever goes out without a Partial IV uses the nonce of a request of the peer -/
theorem sent_none_ofReq {cfg : Cfg} {e : Endp} (g : ∃ U n, NInv e U n ∧ n < 2 ^ 63) (op : NOp) (x : Nonce)
    (h : (nstep cfg e op).2 = .sent none x) : ∃ q, x = .ofReq q := by
  obtain ⟨U, n, g, hn⟩ := g
  cases op with
  | sendRsp t o s =>
    obtain ⟨_, _, h3⟩ := respond_inv g hn t o s
    have h' : (respond e t o s).2 = .sent none x := h
    rcases h3 with h3 | ⟨p, h3⟩ | ⟨q, h3, _⟩
    · rw [h3] at h'; cases h'
    · rw [h3] at h'; cases h'
    · rw [h3] at h'; injection h' with _ h2; exact ⟨q, h2.symm⟩
  | crash f => simp [nstep] at h
  | sendReq t o d =>
    simp only [nstep] at h
    split at h <;> simp at h
  | reqIn t ev obs =>
    simp only [nstep] at h
    split at h
    · simp at h
    · split at h <;> simp at h

end Coap.Replay
