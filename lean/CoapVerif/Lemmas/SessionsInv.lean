import CoapVerif.Lemmas.Sessions
/-
C12 helper lemmas, part 2: a generic "closed under the primitives ⇒ closed under every event" skeleton, then the
peer / event / ledger invariants.
-/
namespace Coap.Sessions

/-- a function on sessions that only touches `last`, `conActive`, `delayq`, `notes`, `closed`, `pend` -/
def Benign (f : Sess → Sess) : Prop := ∀ s, (f s).sid = s.sid ∧ (f s).ref = s.ref ∧ (f s).peer = s.peer

/-- a function on holders that keeps what it points to, its ledger id and whether it is an allocation -/
def HBenign (g : Holder → Holder) : Prop := ∀ x, (g x).sid = x.sid ∧ (g x).hid = x.hid ∧ (g x).kind.isAlloc = x.kind.isAlloc

structure Closed (P : St → Prop) : Prop where
  benign : ∀ st sid f, P st → Benign f → P (st.updSess sid f)
  refRelease : ∀ st sid, P st → P ((st.updSess sid Sess.reference).updSess sid Sess.release)
  addHolder : ∀ st sid k, P st → (∃ s ∈ st.sessions, s.sid = sid) → P (st.addHolder sid k)
  dropHolder : ∀ st x, P st → P (st.dropHolder x)
  reclaim : ∀ st sid, P st → P (st.reclaim sid)
  clientFree : ∀ st sid, P st → P (st.clientFree sid)
  addPartial : ∀ st sid, P st → (∃ s ∈ st.sessions, s.sid = sid) → P (st.addPartial sid)
  dropPartial : ∀ st sid, P st → P (st.dropPartial sid)
  promote : ∀ st x due, P st → (∃ s ∈ st.sessions, s.sid = x.2) → P (st.promote x due)
  newSession : ∀ st p, P st → st.lookup p = none → (p.lport, p.proto) ∈ st.eps → P (st.newSession p)
  mapHolders : ∀ st g, P st → HBenign g → P { st with holders := st.holders.map g }
  misc : ∀ st (now timeout maxIdle : Nat) (res dirty : List Nat), P st →
    P { st with now := now, timeout := timeout, maxIdle := maxIdle, resAlive := res, dirty := dirty }
  teardownEnd : ∀ st, P st → P { (st.freeObjs st.ctxObjs) with ctxObjs := [], resAlive := [], freed := true }
  newOwned : ∀ st, P st → P st.newOwned

namespace Closed
variable {P : St → Prop} (c : Closed P)
include c

theorem dropHolders {st : St} (h : P st) (xs : List Holder) : P (st.dropHolders xs) :=
  foldl_inv P St.dropHolder (fun a x ha => c.dropHolder a x ha) xs st h

theorem releaseHolder {st : St} (h : P st) (x : Holder) : P (st.releaseHolder x) :=
  c.clientFree _ _ (c.dropHolder _ _ h)

theorem releaseHolders {st : St} (h : P st) (xs : List Holder) : P (st.releaseHolders xs) :=
  foldl_inv P St.releaseHolder (fun a x ha => c.releaseHolder ha x) xs st h

theorem flushDelayed {st : St} (h : P st) (sid : Nat) : P (st.flushDelayed sid) := by
  unfold St.flushDelayed
  split
  · exact h
  · rename_i s hs
    split
    · exact h
    · split
      · exact h
      · rename_i x hx
        have hx2 : x.2 = sid := by
          have := List.find?_some hx
          simpa using this
        refine c.promote _ _ _ ?_ ?_
        · refine c.benign _ _ _ h ?_
          intro t; exact ⟨rfl, rfl, rfl⟩
        · obtain ⟨hm, he⟩ := getSess_some hs
          exact live_updSess sid _ (fun _ => rfl) ⟨s, hm, by rw [hx2]; exact he⟩

theorem retransmit {st : St} (h : P st) (x : Holder) : P (st.retransmit x) := by
  unfold St.retransmit
  split
  · split
    · split
      · refine c.mapHolders _ _ ?_ ?_
        · refine c.benign _ _ _ h ?_
          intro s; exact ⟨rfl, rfl, rfl⟩
        · rename_i hk _ _
          intro y
          by_cases e : y = x
          · subst e; simp [hk, HKind.isAlloc]
          · simp [e]
      · apply c.releaseHolder
        apply c.flushDelayed
        refine c.benign _ _ _ h ?_
        intro s; exact ⟨rfl, rfl, rfl⟩
    · exact h
  · exact h

theorem reclaimStep {st : St} (h : P st) (now sid : Nat) : P (st.reclaimStep now sid) := by
  unfold St.reclaimStep
  split
  · exact h
  · split
    · exact c.reclaim _ _ h
    · exact c.refRelease _ _ h

theorem notifyOne {st : St} (h : P st) (x : Holder) : P (st.notifyOne x) := by
  unfold St.notifyOne
  split
  · exact h
  · refine c.mapHolders _ _ (c.benign _ _ _ h (fun s => ⟨rfl, rfl, rfl⟩)) ?_
    intro y
    by_cases e : y = x
    · subst e; simp [setNote_isAlloc]
    · simp [e]

theorem notifyRes {st : St} (h : P st) (k : Nat) : P (st.notifyRes k) :=
  foldl_inv P St.notifyOne (fun _ x ha => c.notifyOne ha x) _ st h

theorem checkNotify {st : St} (h : P st) : P st.checkNotify := by
  unfold St.checkNotify
  have h1 : P ((st.resAlive.filter (· ∈ st.dirty)).foldl St.notifyRes st) :=
    foldl_inv P St.notifyRes (fun _ k ha => c.notifyRes ha k) _ st h
  exact c.misc _ _ _ _ _ [] h1

theorem fireAsync {st : St} (h : P st) (now : Nat) (x : Holder) : P (st.fireAsync now x) := by
  unfold St.fireAsync
  split
  · split
    · apply c.releaseHolder
      refine c.benign _ _ _ (c.misc st _ st.timeout st.maxIdle st.resAlive st.dirty h) ?_
      intro s; dsimp only; split <;> exact ⟨rfl, rfl, rfl⟩
    · exact h
  · exact h

theorem checkAsync {st : St} (h : P st) (now : Nat) : P (st.checkAsync now) :=
  foldl_inv P _ (fun _ x ha => c.fireAsync ha now x) _ st h

theorem preReclaim {st : St} (h : P st) (now : Nat) : P (st.preReclaim now) := by
  have h0 := c.checkAsync (c.checkNotify h) now
  unfold St.preReclaim
  exact foldl_inv P St.retransmit (fun a x ha => c.retransmit ha x) _ _ h0

theorem reclaimPass {st : St} (h : P st) (now : Nat) : P (st.reclaimPass now) := by
  unfold St.reclaimPass
  apply foldl_inv P
  · intro a ep ha
    exact foldl_inv P _ (fun b sid hb => c.reclaimStep hb now sid) _ a ha
  · exact h

theorem prepareIoAt {st : St} (h : P st) (now : Nat) : P (st.prepareIoAt now) :=
  c.reclaimPass (c.preReclaim h now) now

theorem prepareIo {st : St} (h : P st) : P st.prepareIo := c.prepareIoAt h st.now

theorem addObserver {st : St} (h : P st) (sid k q tok : Nat) (hl : ∃ s ∈ st.sessions, s.sid = sid) :
    P (st.addObserver sid k q tok) := by
  unfold St.addObserver
  split
  · exact h
  · split
    · exact c.addHolder _ _ _ (c.dropHolder _ _ h) (live_dropHolder _ hl)
    · exact c.addHolder _ _ _ h hl

theorem delObserverReq {st : St} (h : P st) (sid k q tok : Nat) : P (st.delObserverReq sid k q tok) := by
  unfold St.delObserverReq
  split
  · exact c.dropHolder _ _ h
  · split
    · exact c.dropHolder _ _ h
    · exact h

theorem rstNote {st : St} (h : P st) (sid n : Nat) : P (st.rstNote sid n) := by
  unfold St.rstNote
  split
  · rename_i x hx
    rw [rstCancel_eq st sid x (findHolder_some hx).1]
    exact c.dropHolder _ _ h
  · exact h

omit c in
theorem lookup_reclaim_none {st : St} {p : Peer} (sid : Nat) (h : st.lookup p = none) : (st.reclaim sid).lookup p = none := by
  unfold St.reclaim
  split
  · exact h
  · split
    · exact h
    · unfold St.lookup at h ⊢
      simp only [List.find?_eq_none] at h ⊢
      intro x hx
      exact h x (List.mem_filter.mp hx).1

omit c in
theorem reclaim_eps (st : St) (sid : Nat) : (st.reclaim sid).eps = st.eps := by
  unfold St.reclaim
  split
  · rfl
  · split <;> rfl

theorem getSession {st : St} (h : P st) (p : Peer) (hp : (st.lookup p).isSome ∨ (p.lport, p.proto) ∈ st.eps) :
    P (st.getSession p).1 := by
  unfold St.getSession
  split
  · refine c.benign _ _ _ h ?_
    intro s; exact ⟨rfl, rfl, rfl⟩
  · rename_i hn
    have hp' : (p.lport, p.proto) ∈ st.eps := by
      rcases hp with hp | hp
      · simp [hn] at hp
      · exact hp
    dsimp only
    split
    · split
      · refine c.newSession _ _ (c.reclaim _ _ h) (lookup_reclaim_none _ hn) ?_
        rw [reclaim_eps]; exact hp'
      · exact c.newSession _ _ h hn hp'
    · exact c.newSession _ _ h hn hp'

theorem serve {st : St} (h : P st) (sid : Nat) (r : Req) (hl : ∃ s ∈ st.sessions, s.sid = sid) : P (st.serve sid r) := by
  unfold St.serve
  cases r with
  | plain => exact h
  | obsReg k q tok =>
    dsimp only
    split
    · exact c.addObserver h _ _ _ _ hl
    · exact h
  | obsDereg k q tok => exact c.delObserverReq h _ _ _ _
  | async =>
    dsimp only
    split
    · exact h
    · exact c.addHolder _ _ _ h hl
  | slow d dur =>
    dsimp only
    split
    · exact h
    · exact c.addHolder _ _ _ h hl

theorem freeEndpoint {st : St} (h : P st) (ep : Nat × Nat) : P (st.freeEndpoint ep) := by
  unfold St.freeEndpoint
  exact foldl_inv P _ (fun a sid ha => c.reclaim _ _ (c.dropHolders ha _)) _ st h

theorem disconnectSess {st : St} (h : P st) (s : Sess) : P (st.disconnectSess s) := by
  unfold St.disconnectSess
  dsimp only
  apply c.dropHolders
  apply c.dropPartial
  refine c.benign _ _ _ (c.dropHolders h _) ?_
  intro t; exact ⟨rfl, rfl, rfl⟩

end Closed

/-- the session the datagram is handled on exists afterwards (needs only `HInv`'s proof structure; restated for any state) -/
theorem getSession_live (st : St) (p : Peer) : ∃ s ∈ (st.getSession p).1.sessions, s.sid = (st.getSession p).2 := by
  unfold St.getSession
  split
  · rename_i s hs
    obtain ⟨hm, _⟩ := lookup_some hs
    exact ⟨_, mem_updSess.mpr ⟨s, hm, rfl⟩, by simp⟩
  · exact ⟨_, List.mem_append.mpr (Or.inr (List.mem_singleton.mpr rfl)), rfl⟩

theorem rxSkip_false_eps {st : St} {p : Peer} {r : Req} (h : ¬ st.rxSkip p r = true) : (p.lport, p.proto) ∈ st.eps := by
  unfold St.rxSkip at h
  simp at h
  exact h.2

/-- closed under the primitives ⇒ closed under every event of a history -/
theorem Closed.step {P : St → Prop} (c : Closed P) {st : St} (h : P st) (e : Event) : P (st.step e).1 := by
  unfold St.step
  split
  · exact h
  · cases e with
    | rx p r =>
      dsimp only
      split
      · exact h
      · rename_i hs
        split
        · split
          · exact h
          · rename_i s hl
            obtain ⟨hm, _⟩ := lookup_some hl
            split
            · exact h
            · dsimp only
              apply c.prepareIo
              apply c.serve
              · refine c.benign _ _ _ h ?_
                intro t; exact ⟨rfl, rfl, rfl⟩
              · exact live_updSess s.sid _ (fun _ => rfl) ⟨s, hm, rfl⟩
        · exact c.prepareIo (c.clientFree _ _
            (c.serve (c.getSession h p (Or.inr (rxSkip_false_eps hs))) _ r (getSession_live st p)))
    | rst p =>
      dsimp only
      split
      · exact h
      · rename_i s hs
        split
        · exact h
        · dsimp only
          apply c.prepareIo
          apply c.clientFree
          apply c.dropHolder
          apply c.flushDelayed
          refine c.benign _ _ _ (c.getSession h p (Or.inl (by simp [hs]))) ?_
          intro s; exact ⟨rfl, rfl, rfl⟩
    | ack p bad =>
      dsimp only
      split
      · exact h
      · rename_i s hs
        split
        · exact h
        · dsimp only
          apply c.prepareIo
          apply c.clientFree
          apply c.dropHolder
          apply c.flushDelayed
          refine c.benign _ _ _ (c.getSession h p (Or.inl (by simp [hs]))) ?_
          intro s; exact ⟨rfl, rfl, rfl⟩
    | sendCon p =>
      dsimp only
      split
      · exact h
      · rename_i s hs
        obtain ⟨hm, _⟩ := lookup_some hs
        split
        · exact h
        · split
          · dsimp only
            refine c.addPartial _ _ ?_ ?_
            · refine c.benign _ _ _ h ?_
              intro t; exact ⟨rfl, rfl, rfl⟩
            · exact live_updSess s.sid _ (fun _ => rfl) ⟨s, hm, rfl⟩
          · dsimp only
            refine c.addHolder _ _ _ ?_ ?_
            · refine c.benign _ _ _ h ?_
              intro t; exact ⟨rfl, rfl, rfl⟩
            · exact live_updSess s.sid _ (fun _ => rfl) ⟨s, hm, rfl⟩
    | ping p =>
      dsimp only
      split
      · exact h
      · rename_i s hs
        split
        · exact h
        · obtain ⟨hm, _⟩ := lookup_some hs
          dsimp only
          apply c.addHolder
          · refine c.benign _ _ _ h ?_
            intro s; exact ⟨rfl, rfl, rfl⟩
          · exact live_updSess s.sid _ (fun _ => rfl) ⟨s, hm, rfl⟩
    | asyncFree p =>
      dsimp only
      split
      · exact h
      · split
        · exact h
        · exact c.releaseHolder h _
    | appRef p =>
      dsimp only
      split
      · exact h
      · rename_i s hs
        obtain ⟨hm, _⟩ := lookup_some hs
        dsimp only
        exact c.addHolder _ s.sid _ h ⟨s, hm, rfl⟩
    | appRelease p =>
      dsimp only
      split
      · exact h
      · split
        · exact h
        · exact c.releaseHolder h _
    | disconnect p =>
      dsimp only
      split
      · exact h
      · split
        · exact h
        · exact c.disconnectSess h _
    | callHome p =>
      dsimp only
      split
      · exact h
      · rename_i s hs
        split
        · exact h
        · obtain ⟨hm, _⟩ := lookup_some hs
          dsimp only
          apply c.addHolder
          · refine c.benign _ _ _ h ?_
            intro s; exact ⟨rfl, rfl, rfl⟩
          · exact live_updSess s.sid _ (fun _ => rfl) ⟨s, hm, rfl⟩
    | endCallHome p =>
      dsimp only
      split
      · exact h
      · split
        · exact h
        · exact c.clientFree _ _ (c.dropHolder _ _ h)
    | connect p =>
      dsimp only
      split
      · exact h
      · rename_i hc
        split
        · exact h
        · rename_i hl
          have hep : (p.lport, p.proto) ∈ st.eps := by
            simp only [Bool.or_eq_true, Bool.not_eq_true', decide_eq_false_iff_not, not_or, Decidable.not_not] at hc
            exact hc.2
          dsimp only
          apply c.prepareIo
          refine c.benign _ _ _ (c.prepareIo (c.newSession _ _ h hl hep)) ?_
          intro t; exact ⟨rfl, rfl, rfl⟩
    | partialRx p n =>
      dsimp only
      split
      · exact h
      · rename_i s hl
        obtain ⟨hm, _⟩ := lookup_some hl
        split
        · exact h
        · dsimp only
          apply c.prepareIo
          have h1 : P (st.updSess s.sid fun t => { t with last := st.now, pend := n }) :=
            c.benign _ _ _ h (fun t => ⟨rfl, rfl, rfl⟩)
          split
          · exact c.addPartial _ _ h1 (live_updSess s.sid _ (fun _ => rfl) ⟨s, hm, rfl⟩)
          · exact h1
    | restRx p =>
      dsimp only
      split
      · exact h
      · split
        · exact h
        · dsimp only
          apply c.prepareIo
          apply c.dropPartial
          exact c.benign _ _ _ h (fun t => ⟨rfl, rfl, rfl⟩)
    | peerClose p =>
      dsimp only
      split
      · exact h
      · split
        · exact h
        · exact c.prepareIo (c.disconnectSess h _)
    | delResource k =>
      dsimp only
      split
      · dsimp only
        have h1 : P ((st.holders.filter fun h => isObs k h.kind).foldl
            (fun acc h => (acc.updSess h.sid fun t => { t with last := st.now, notes := t.notes + 1 }).releaseHolder h) st) := by
          apply foldl_inv P
          · intro a x ha
            apply c.releaseHolder
            refine c.benign _ _ _ ha ?_
            intro s; exact ⟨rfl, rfl, rfl⟩
          · exact h
        exact c.misc _ _ _ _ _ _ h1
      · exact h
    | changed k =>
      dsimp only
      split
      · split
        · exact c.misc st st.now st.timeout st.maxIdle st.resAlive _ h
        · exact h
      · exact h
    | noteRst p j =>
      dsimp only
      split
      · exact h
      · rename_i s hs
        split
        · dsimp only
          apply c.prepareIo
          apply c.clientFree
          apply c.rstNote
          exact c.getSession h p (Or.inl (by simp [hs]))
        · exact h
    | noteAck p j =>
      dsimp only
      split
      · exact h
      · rename_i s hs
        split
        · exact c.prepareIo (c.clientFree _ _ (c.getSession h p (Or.inl (by simp [hs]))))
        · exact h
    | advance d => exact c.misc st (st.now + d) st.timeout st.maxIdle st.resAlive st.dirty h
    | io => exact c.prepareIo h
    | ioStale d => exact c.prepareIoAt h _
    | setMaxIdle n => exact c.misc st st.now st.timeout n st.resAlive st.dirty h
    | setTimeout n => exact c.misc st st.now n st.maxIdle st.resAlive st.dirty h
    | ownClient k => exact c.newOwned st h
    | freeContext =>
      dsimp only
      apply c.teardownEnd
      exact foldl_inv P _ (fun a ep ha => c.freeEndpoint ha ep) _ _
        (c.releaseHolders (c.releaseHolders (c.releaseHolders h _) _) _)

theorem Closed.run {P : St → Prop} (c : Closed P) {st : St} (h : P st) (es : List Event) : P (st.run es) :=
  foldl_inv P _ (fun _ e ha => c.step ha e) es st h


/-! ## shape and event invariants -/

def St.sids (st : St) : List Nat := st.sessions.map (·.sid)

structure SInv (st : St) : Prop where
  pw : st.sessions.Pairwise (fun a b => a.peer ≠ b.peer ∧ a.sid ≠ b.sid)
  ep : ∀ s ∈ st.sessions, (s.peer.lport, s.peer.proto) ∈ st.eps
  evLive : ∀ x ∈ st.sids, st.events.count (.new x) = 1 ∧ st.events.count (.del x) = 0 ∧ st.events.count (.handed x) = 0
  evDead : ∀ x, x ∉ st.sids →
    st.events.count (.del x) + st.events.count (.handed x) = st.events.count (.new x) ∧ st.events.count (.new x) ≤ 1
  evFresh : ∀ x, 0 < st.events.count (.new x) → x < st.next

def ShapeBenign (g : Sess → Sess) : Prop := ∀ s, (g s).sid = s.sid ∧ (g s).peer = s.peer

theorem SInv.of_shape {st st' : St} (h : SInv st) (g : Sess → Sess) (hg : ShapeBenign g)
    (hs : st'.sessions = st.sessions.map g) (he : st'.events = st.events) (hp : st'.eps = st.eps)
    (hn : st.next ≤ st'.next) : SInv st' := by
  have hsid : st'.sids = st.sids := by
    unfold St.sids; rw [hs, List.map_map]; apply List.map_congr_left; intro s _; exact (hg s).1
  constructor
  · rw [hs, List.pairwise_map]
    apply h.pw.imp
    intro a b hab
    rw [(hg a).1, (hg a).2, (hg b).1, (hg b).2]; exact hab
  · intro t ht
    rw [hs] at ht
    obtain ⟨s, hs', rfl⟩ := List.mem_map.mp ht
    rw [hp, (hg s).2]; exact h.ep s hs'
  · intro x hx; rw [hsid] at hx; rw [he]; exact h.evLive x hx
  · intro x hx; rw [hsid] at hx; rw [he]; exact h.evDead x hx
  · intro x hx; rw [he] at hx; have := h.evFresh x hx; omega

theorem shapeBenign_if (sid : Nat) (f : Sess → Sess) (hf : ShapeBenign f) :
    ShapeBenign (fun s => if s.sid = sid then f s else s) := by
  intro s; by_cases c : s.sid = sid <;> simp [c, hf s]

theorem SInv.updSess {st : St} (h : SInv st) (sid : Nat) (f : Sess → Sess) (hf : ShapeBenign f) :
    SInv (st.updSess sid f) :=
  h.of_shape _ (shapeBenign_if sid f hf) rfl rfl rfl (Nat.le_refl _)

theorem SInv.same {st st' : St} (h : SInv st) (hs : st'.sessions = st.sessions) (he : st'.events = st.events)
    (hp : st'.eps = st.eps) (hn : st.next ≤ st'.next) : SInv st' :=
  h.of_shape id (fun _ => ⟨rfl, rfl⟩) (by rw [hs, List.map_id]) he hp hn

theorem SInv.addHolder {st : St} (h : SInv st) (sid : Nat) (k : HKind) : SInv (st.addHolder sid k) := by
  unfold St.addHolder
  split
  · exact h.of_shape _ (shapeBenign_if sid Sess.reference (fun _ => ⟨rfl, rfl⟩)) rfl rfl rfl (Nat.le_succ _)
  · exact h.of_shape _ (shapeBenign_if sid Sess.reference (fun _ => ⟨rfl, rfl⟩)) rfl rfl rfl (Nat.le_refl _)

theorem SInv.dropHolder {st : St} (h : SInv st) (x : Holder) : SInv (st.dropHolder x) := by
  unfold St.dropHolder
  split
  · exact h.of_shape _ (shapeBenign_if x.sid Sess.release (fun _ => ⟨rfl, rfl⟩)) rfl rfl rfl (Nat.le_refl _)
  · exact h

theorem count_snoc_ne {a b : SEvent} (l : List SEvent) (hab : b ≠ a) : (l ++ [b]).count a = l.count a := by
  simp [List.count_append, List.count_cons, hab]

theorem count_snoc_self (a : SEvent) (l : List SEvent) : (l ++ [a]).count a = l.count a + 1 := by
  simp [List.count_append]

theorem SInv.reclaim {st : St} (h : SInv st) (sid : Nat) : SInv (st.reclaim sid) := by
  unfold St.reclaim
  split
  · exact h
  · rename_i s hs
    obtain ⟨hm, hsid⟩ := getSess_some hs
    split
    · exact h
    · have hmem : ∀ t, t ∈ st.sessions.filter (fun t => t.sid ≠ sid) ↔ t ∈ st.sessions ∧ t.sid ≠ sid := by
        intro t; simp [List.mem_filter]
      have hsids : ∀ x, x ∈ (st.sessions.filter (fun t => t.sid ≠ sid)).map (·.sid) ↔ x ∈ st.sids ∧ x ≠ sid := by
        intro x
        simp only [St.sids, List.mem_map, hmem]
        constructor
        · rintro ⟨t, ⟨ht, hne⟩, rfl⟩; exact ⟨⟨t, ht, rfl⟩, hne⟩
        · rintro ⟨⟨t, ht, rfl⟩, hne⟩; exact ⟨t, ⟨ht, hne⟩, rfl⟩
      constructor
      · exact h.pw.filter _
      · intro t ht; exact h.ep t ((hmem t).mp ht).1
      · intro x hx
        obtain ⟨hx1, hx2⟩ := (hsids x).mp hx
        show List.count _ (st.events ++ [SEvent.del sid]) = 1 ∧ List.count _ (st.events ++ [SEvent.del sid]) = 0 ∧
          List.count _ (st.events ++ [SEvent.del sid]) = 0
        rw [count_snoc_ne _ (by simp), count_snoc_ne _ (by simp; exact fun e => hx2 e.symm), count_snoc_ne _ (by simp)]
        exact h.evLive x hx1
      · intro x hx
        show List.count (SEvent.del x) (st.events ++ [SEvent.del sid]) + List.count (SEvent.handed x) (st.events ++ [SEvent.del sid]) =
          List.count (SEvent.new x) (st.events ++ [SEvent.del sid]) ∧ List.count (SEvent.new x) (st.events ++ [SEvent.del sid]) ≤ 1
        by_cases e : x = sid
        · subst e
          have := h.evLive x (by unfold St.sids; exact List.mem_map.mpr ⟨s, hm, hsid⟩)
          rw [count_snoc_self, count_snoc_ne _ (by simp), count_snoc_ne _ (by simp)]
          omega
        · have hx' : x ∉ st.sids := fun hin => hx ((hsids x).mpr ⟨hin, e⟩)
          rw [count_snoc_ne _ (by simp; exact fun e' => e e'.symm), count_snoc_ne _ (by simp), count_snoc_ne _ (by simp)]
          exact h.evDead x hx'
      · intro x hx
        have hx' : 0 < List.count (SEvent.new x) (st.events ++ [SEvent.del sid]) := hx
        rw [count_snoc_ne _ (by simp)] at hx'
        exact h.evFresh x hx'

theorem SInv.clientFree {st : St} (h : SInv st) (sid : Nat) : SInv (st.clientFree sid) := by
  unfold St.clientFree
  split
  · exact h
  · rename_i s hs
    obtain ⟨hm, hsid⟩ := getSess_some hs
    split
    · exact h
    · have hmem : ∀ t, t ∈ st.sessions.filter (fun t => t.sid ≠ sid) ↔ t ∈ st.sessions ∧ t.sid ≠ sid := by
        intro t; simp [List.mem_filter]
      have hsids : ∀ x, x ∈ (st.sessions.filter (fun t => t.sid ≠ sid)).map (·.sid) ↔ x ∈ st.sids ∧ x ≠ sid := by
        intro x
        simp only [St.sids, List.mem_map, hmem]
        constructor
        · rintro ⟨t, ⟨ht, hne⟩, rfl⟩; exact ⟨⟨t, ht, rfl⟩, hne⟩
        · rintro ⟨⟨t, ht, rfl⟩, hne⟩; exact ⟨t, ⟨ht, hne⟩, rfl⟩
      constructor
      · exact h.pw.filter _
      · intro t ht; exact h.ep t ((hmem t).mp ht).1
      · intro x hx
        obtain ⟨hx1, hx2⟩ := (hsids x).mp hx
        show List.count _ (st.events ++ [SEvent.handed sid]) = 1 ∧ List.count _ (st.events ++ [SEvent.handed sid]) = 0 ∧
          List.count _ (st.events ++ [SEvent.handed sid]) = 0
        rw [count_snoc_ne _ (by simp), count_snoc_ne _ (by simp), count_snoc_ne _ (by simp; exact fun e => hx2 e.symm)]
        exact h.evLive x hx1
      · intro x hx
        show List.count (SEvent.del x) (st.events ++ [SEvent.handed sid]) + List.count (SEvent.handed x) (st.events ++ [SEvent.handed sid]) =
          List.count (SEvent.new x) (st.events ++ [SEvent.handed sid]) ∧ List.count (SEvent.new x) (st.events ++ [SEvent.handed sid]) ≤ 1
        by_cases e : x = sid
        · subst e
          have := h.evLive x (by unfold St.sids; exact List.mem_map.mpr ⟨s, hm, hsid⟩)
          rw [count_snoc_ne _ (by simp), count_snoc_self, count_snoc_ne _ (by simp)]
          omega
        · have hx' : x ∉ st.sids := fun hin => hx ((hsids x).mpr ⟨hin, e⟩)
          rw [count_snoc_ne _ (by simp), count_snoc_ne _ (by simp; exact fun e' => e e'.symm), count_snoc_ne _ (by simp)]
          exact h.evDead x hx'
      · intro x hx
        have hx' : 0 < List.count (SEvent.new x) (st.events ++ [SEvent.handed sid]) := hx
        rw [count_snoc_ne _ (by simp)] at hx'
        exact h.evFresh x hx'

theorem lookup_none {st : St} {p : Peer} (h : st.lookup p = none) : ∀ s ∈ st.sessions, s.peer ≠ p := by
  unfold St.lookup at h
  simp only [List.find?_eq_none] at h
  intro s hs; simpa using h s hs

theorem SInv.newSession {st : St} (h : SInv st) (hH : HInv st) (p : Peer) (hl : st.lookup p = none)
    (hp : (p.lport, p.proto) ∈ st.eps) : SInv (st.newSession p) := by
  have hfresh : st.next ∉ st.sids := by
    intro hin
    obtain ⟨s, hs, e⟩ := List.mem_map.mp hin
    have := hH.fresh s hs
    omega
  have hnew0 : st.events.count (.new st.next) = 0 := by
    cases hc : st.events.count (.new st.next) with
    | zero => rfl
    | succ n => have := h.evFresh st.next (by omega); omega
  unfold St.newSession
  constructor
  · show (st.sessions ++ [_]).Pairwise _
    rw [List.pairwise_append]
    refine ⟨h.pw, List.pairwise_singleton _ _, ?_⟩
    intro a ha b hb
    simp only [List.mem_singleton] at hb; subst hb
    refine ⟨lookup_none hl a ha, ?_⟩
    have := hH.fresh a ha
    show a.sid ≠ st.next
    omega
  · intro t ht
    have ht' : t ∈ st.sessions ++ [⟨st.next, st.nsess, p, 0, st.now, 0, 0, 0, false, 0, false⟩] := ht
    rcases List.mem_append.mp ht' with h1 | h1
    · exact h.ep t h1
    · simp only [List.mem_singleton] at h1; subst h1; exact hp
  · intro x hx
    have hx' : x ∈ (st.sessions ++ [(⟨st.next, st.nsess, p, 0, st.now, 0, 0, 0, false, 0, false⟩ : Sess)]).map (fun s : Sess => s.sid) := hx
    show List.count _ (st.events ++ [SEvent.new st.next]) = 1 ∧ List.count _ (st.events ++ [SEvent.new st.next]) = 0 ∧
      List.count _ (st.events ++ [SEvent.new st.next]) = 0
    rw [List.map_append, List.mem_append] at hx'
    rcases hx' with h1 | h1
    · have hne : x ≠ st.next := fun e => hfresh (e ▸ h1)
      rw [count_snoc_ne _ (by simp; exact fun e => hne e.symm), count_snoc_ne _ (by simp), count_snoc_ne _ (by simp)]
      exact h.evLive x h1
    · simp at h1; subst h1
      rw [count_snoc_self, count_snoc_ne _ (by simp), count_snoc_ne _ (by simp), hnew0]
      have := h.evDead st.next hfresh
      omega
  · intro x hx
    have hx1 : x ∉ st.sids ∧ x ≠ st.next := by
      constructor
      · intro hin; apply hx
        show x ∈ (st.sessions ++ [(⟨st.next, st.nsess, p, 0, st.now, 0, 0, 0, false, 0, false⟩ : Sess)]).map (fun s : Sess => s.sid)
        rw [List.map_append]; exact List.mem_append.mpr (Or.inl hin)
      · intro e; apply hx
        show x ∈ (st.sessions ++ [(⟨st.next, st.nsess, p, 0, st.now, 0, 0, 0, false, 0, false⟩ : Sess)]).map (fun s : Sess => s.sid)
        rw [List.map_append]; apply List.mem_append.mpr; right; simp [e]
    show List.count (SEvent.del x) (st.events ++ [SEvent.new st.next]) + List.count (SEvent.handed x) (st.events ++ [SEvent.new st.next]) =
      List.count (SEvent.new x) (st.events ++ [SEvent.new st.next]) ∧ List.count (SEvent.new x) (st.events ++ [SEvent.new st.next]) ≤ 1
    rw [count_snoc_ne _ (by simp), count_snoc_ne _ (by simp), count_snoc_ne _ (by simp; exact fun e => hx1.2 e.symm)]
    exact h.evDead x hx1.1
  · intro x hx
    have hx' : 0 < List.count (SEvent.new x) (st.events ++ [SEvent.new st.next]) := hx
    show x < st.next + 1
    by_cases e : x = st.next
    · omega
    · rw [count_snoc_ne _ (by simp; exact fun e' => e e'.symm)] at hx'
      have := h.evFresh x hx'; omega


/-! ## the ledger invariant: what the monitor holds live is exactly what the state contains -/

def St.allocHids (st : St) : List Nat := (st.holders.filter (·.kind.isAlloc)).map (·.hid)
/-- the partly received PDUs hanging off stream sessions -/
def St.partialIds (st : St) : List Nat := st.partials.map (·.1)
def St.objects (st : St) : List Nat := st.sids ++ st.allocHids ++ st.ctxObjs ++ st.partialIds

def LInv (st : St) : Prop := ∃ live, runLedger st.ledger [] = some live ∧ ∀ i, live.count i = st.objects.count i

theorem objects_count (st : St) (i : Nat) :
    st.objects.count i = st.sids.count i + st.allocHids.count i + st.ctxObjs.count i + st.partialIds.count i := by
  simp [St.objects, List.count_append, Nat.add_assoc]

theorem LInv.same {st st' : St} (h : LInv st) (hl : st'.ledger = st.ledger) (h1 : st'.sids = st.sids)
    (h2 : st'.allocHids = st.allocHids) (h3 : st'.ctxObjs = st.ctxObjs) (h4 : st'.partialIds = st.partialIds) :
    LInv st' := by
  obtain ⟨live, hr, hc⟩ := h
  refine ⟨live, by rw [hl]; exact hr, ?_⟩
  intro i; rw [objects_count, h1, h2, h3, h4, ← objects_count]; exact hc i

theorem LInv.alloc {st st' : St} (h : LInv st) (j : Nat) (hl : st'.ledger = st.ledger ++ [.alloc j])
    (ho : ∀ i, st'.objects.count i = st.objects.count i + (if j = i then 1 else 0)) : LInv st' := by
  obtain ⟨live, hr, hc⟩ := h
  refine ⟨j :: live, ?_, ?_⟩
  · rw [hl, runLedger_append, hr]; rfl
  · intro i; rw [ho, List.count_cons, hc]; simp

theorem LInv.free {st st' : St} (h : LInv st) (j : Nat) (hj : 0 < st.objects.count j)
    (hl : st'.ledger = st.ledger ++ [.free j])
    (ho : ∀ i, st'.objects.count i = st.objects.count i - (if j = i then 1 else 0)) : LInv st' := by
  obtain ⟨live, hr, hc⟩ := h
  have hm : j ∈ live := List.count_pos_iff.mp (by rw [hc]; exact hj)
  refine ⟨live.erase j, ?_, ?_⟩
  · rw [hl, runLedger_append, hr]; simp [runLedger, hm]
  · intro i; rw [ho, count_erase_nat, hc]

theorem sids_updSess (st : St) (sid : Nat) (f : Sess → Sess) (hf : ∀ s, (f s).sid = s.sid) :
    (st.updSess sid f).sids = st.sids := by
  unfold St.sids St.updSess
  simp only [List.map_map]
  apply List.map_congr_left
  intro s _
  by_cases c : s.sid = sid <;> simp [c, hf]

theorem LInv.updSess {st : St} (h : LInv st) (sid : Nat) (f : Sess → Sess) (hf : ∀ s, (f s).sid = s.sid) :
    LInv (st.updSess sid f) :=
  h.same rfl (sids_updSess st sid f hf) rfl rfl rfl

theorem sids_addHolder (st : St) (sid : Nat) (k : HKind) : (st.addHolder sid k).sids = st.sids := by
  unfold St.addHolder; split <;> exact sids_updSess st sid _ (fun _ => rfl)
theorem ctxObjs_addHolder (st : St) (sid : Nat) (k : HKind) : (st.addHolder sid k).ctxObjs = st.ctxObjs := by
  unfold St.addHolder; split <;> rfl
theorem partialIds_addHolder (st : St) (sid : Nat) (k : HKind) : (st.addHolder sid k).partialIds = st.partialIds := by
  unfold St.addHolder; split <;> rfl
theorem allocHids_addHolder (st : St) (sid : Nat) (k : HKind) :
    (st.addHolder sid k).allocHids = if k.isAlloc then st.allocHids ++ [st.next] else st.allocHids := by
  unfold St.addHolder; split <;> rename_i hk <;> simp [St.allocHids, List.filter_append, hk]
theorem ledger_addHolder (st : St) (sid : Nat) (k : HKind) :
    (st.addHolder sid k).ledger = if k.isAlloc then st.ledger ++ [.alloc st.next] else st.ledger := by
  unfold St.addHolder; split <;> rename_i hk <;> simp [hk, St.updSess]

theorem LInv.addHolder {st : St} (h : LInv st) (sid : Nat) (k : HKind) : LInv (st.addHolder sid k) := by
  by_cases hk : k.isAlloc
  · refine LInv.alloc (st := st) h st.next (by rw [ledger_addHolder]; simp [hk]) ?_
    intro i
    rw [objects_count, objects_count, sids_addHolder, ctxObjs_addHolder, allocHids_addHolder, partialIds_addHolder]
    simp only [hk, if_true, List.count_append, List.count_cons, List.count_nil, beq_iff_eq]
    omega
  · refine LInv.same (st := st) h (by rw [ledger_addHolder]; simp [hk]) (sids_addHolder st sid k) ?_ (ctxObjs_addHolder st sid k)
      (partialIds_addHolder st sid k)
    rw [allocHids_addHolder]; simp [hk]

theorem allocHids_erase (l : List Holder) (x : Holder) (hx : x ∈ l) (i : Nat) :
    ((l.filter (·.kind.isAlloc)).map (·.hid)).count i =
      (((l.erase x).filter (·.kind.isAlloc)).map (·.hid)).count i + (if x.kind.isAlloc ∧ x.hid = i then 1 else 0) := by
  have hp := ((List.perm_cons_erase hx).filter (·.kind.isAlloc)).map (·.hid)
  rw [hp.count_eq]
  by_cases ha : x.kind.isAlloc
  · simp [List.filter_cons, ha, List.count_cons]
  · simp [List.filter_cons, ha]

theorem sids_dropHolder (st : St) (x : Holder) : (st.dropHolder x).sids = st.sids := by
  unfold St.dropHolder; split
  · exact sids_updSess st x.sid _ (fun _ => rfl)
  · rfl
theorem ctxObjs_dropHolder (st : St) (x : Holder) : (st.dropHolder x).ctxObjs = st.ctxObjs := by
  unfold St.dropHolder; split <;> rfl
theorem partialIds_dropHolder (st : St) (x : Holder) : (st.dropHolder x).partialIds = st.partialIds := by
  unfold St.dropHolder; split <;> rfl
theorem allocHids_dropHolder (st : St) (x : Holder) (hx : x ∈ st.holders) :
    (st.dropHolder x).allocHids = ((st.holders.erase x).filter (·.kind.isAlloc)).map (·.hid) := by
  unfold St.dropHolder; simp [hx, St.allocHids]
theorem ledger_dropHolder (st : St) (x : Holder) (hx : x ∈ st.holders) :
    (st.dropHolder x).ledger = if x.kind.isAlloc then st.ledger ++ [.free x.hid] else st.ledger := by
  unfold St.dropHolder; simp [hx, St.updSess]

theorem LInv.dropHolder {st : St} (h : LInv st) (x : Holder) : LInv (st.dropHolder x) := by
  by_cases hx : x ∈ st.holders
  · by_cases ha : x.kind.isAlloc
    · refine LInv.free (st := st) h x.hid ?_ (by rw [ledger_dropHolder st x hx]; simp [ha]) ?_
      · rw [objects_count]
        have := allocHids_erase st.holders x hx x.hid
        simp only [ha, and_self, if_true] at this
        unfold St.allocHids; omega
      · intro i
        rw [objects_count, objects_count, sids_dropHolder, ctxObjs_dropHolder, allocHids_dropHolder st x hx,
          partialIds_dropHolder]
        have := allocHids_erase st.holders x hx i
        simp only [ha, true_and] at this
        unfold St.allocHids
        omega
    · refine LInv.same (st := st) h (by rw [ledger_dropHolder st x hx]; simp [ha]) (sids_dropHolder st x) ?_
        (ctxObjs_dropHolder st x) (partialIds_dropHolder st x)
      rw [allocHids_dropHolder st x hx]
      unfold St.allocHids
      have : List.filter (fun x => x.kind.isAlloc) (st.holders.erase x) = (st.holders.filter (·.kind.isAlloc)).erase x := by
        rw [List.erase_filter]
      rw [this, List.erase_of_not_mem]
      intro hin; exact ha (by simpa using (List.mem_filter.mp hin).2)
  · have : st.dropHolder x = st := by unfold St.dropHolder; simp [hx]
    rw [this]; exact h

theorem count_sids_filter (l : List Sess) (sid i : Nat) :
    ((l.filter (fun t => t.sid ≠ sid)).map (·.sid)).count i = if i = sid then 0 else (l.map (·.sid)).count i := by
  induction l with
  | nil => simp
  | cons a t ih =>
    by_cases c : a.sid = sid
    · simp only [List.filter_cons, c, ne_eq, not_true_eq_false, decide_false, Bool.false_eq_true, if_false,
        List.map_cons, List.count_cons]
      rw [ih]
      by_cases e : i = sid
      · simp [e]
      · have : ¬ sid = i := fun e' => e e'.symm
        simp [e, this]
    · simp only [List.filter_cons, c, ne_eq, not_false_eq_true, decide_true, if_true, List.map_cons, List.count_cons]
      rw [ih]
      by_cases e : i = sid
      · subst e; simp [c]
      · simp [e]

theorem count_sid_one (l : List Sess) (hpw : l.Pairwise (fun a b => a.peer ≠ b.peer ∧ a.sid ≠ b.sid)) (s : Sess)
    (hs : s ∈ l) : (l.map (·.sid)).count s.sid = 1 := by
  induction l with
  | nil => simp at hs
  | cons a t ih =>
    rw [List.pairwise_cons] at hpw
    rcases List.mem_cons.mp hs with e | e
    · subst e
      have : (t.map (·.sid)).count s.sid = 0 := by
        apply List.count_eq_zero.mpr
        intro hin
        obtain ⟨b, hb, e⟩ := List.mem_map.mp hin
        exact (hpw.1 b hb).2 e.symm
      simp [List.count_cons, this]
    · have hne : a.sid ≠ s.sid := (hpw.1 s e).2
      simp only [List.map_cons, List.count_cons]
      rw [ih hpw.2 e]; simp [hne]

theorem LInv.freeAll : ∀ (C : List Nat) (L : List AllocEvent) (live A : List Nat),
    runLedger L [] = some live → (∀ i, live.count i = A.count i + C.count i) →
    ∃ live', runLedger (L ++ C.map .free) [] = some live' ∧ ∀ i, live'.count i = A.count i := by
  intro C
  induction C with
  | nil => intro L live A hr hc; exact ⟨live, by simpa using hr, by simpa using hc⟩
  | cons j t ih =>
    intro L live A hr hc
    have hm : j ∈ live := List.count_pos_iff.mp (by have := hc j; simp [List.count_cons] at this; omega)
    have := ih (L ++ [.free j]) (live.erase j) A (by rw [runLedger_append, hr]; simp [runLedger, hm])
      (by intro i; rw [count_erase_nat, hc, List.count_cons]; simp; split <;> omega)
    simpa using this

/-- freeing a list `C` of objects that are all there -/
theorem LInv.freeList {st st' : St} (h : LInv st) (C : List Nat) (hl : st'.ledger = st.ledger ++ C.map .free)
    (ho : ∀ i, st.objects.count i = st'.objects.count i + C.count i) : LInv st' := by
  obtain ⟨live, hr, hc⟩ := h
  obtain ⟨live', hr', hc'⟩ := LInv.freeAll C st.ledger live st'.objects hr (by intro i; rw [hc, ho])
  exact ⟨live', by rw [hl]; exact hr', hc'⟩

theorem count_filter_split (l : List (Nat × Nat)) (sid i : Nat) :
    (l.map (·.1)).count i =
      ((l.filter (fun x => x.2 != sid)).map (·.1)).count i + ((l.filter (fun x => x.2 == sid)).map (·.1)).count i := by
  induction l with
  | nil => rfl
  | cons a t ih =>
    by_cases c : a.2 = sid
    · simp only [List.filter_cons, c, bne_self_eq_false, Bool.false_eq_true, if_false, beq_self_eq_true, if_true,
        List.map_cons, List.count_cons]
      rw [ih]; omega
    · have c1 : (a.2 != sid) = true := by simpa using c
      have c2 : (a.2 == sid) = false := by simpa using c
      simp only [List.filter_cons, c1, c2, if_true, Bool.false_eq_true, if_false, List.map_cons, List.count_cons]
      rw [ih]; omega

theorem LInv.dropPartial {st : St} (h : LInv st) (sid : Nat) : LInv (st.dropPartial sid) := by
  refine LInv.freeList (st := st) h ((st.partials.filter (fun x => x.2 == sid)).map (·.1)) ?_ ?_
  · show st.ledger ++ _ = st.ledger ++ _
    rw [List.map_map]; rfl
  · intro i
    rw [objects_count, objects_count]
    have e1 : (st.dropPartial sid).sids = st.sids := rfl
    have e2 : (st.dropPartial sid).allocHids = st.allocHids := rfl
    have e3 : (st.dropPartial sid).ctxObjs = st.ctxObjs := rfl
    have e4 : (st.dropPartial sid).partialIds = (st.partials.filter (fun x => x.2 != sid)).map (·.1) := rfl
    rw [e1, e2, e3, e4]
    have := count_filter_split st.partials sid i
    unfold St.partialIds
    omega

theorem LInv.addPartial {st : St} (h : LInv st) (sid : Nat) : LInv (st.addPartial sid) := by
  refine LInv.alloc (st := st) h st.next rfl ?_
  intro i
  rw [objects_count, objects_count]
  have e1 : (st.addPartial sid).sids = st.sids := rfl
  have e2 : (st.addPartial sid).allocHids = st.allocHids := rfl
  have e3 : (st.addPartial sid).ctxObjs = st.ctxObjs := rfl
  have e4 : (st.addPartial sid).partialIds = st.partialIds ++ [st.next] := by simp [St.partialIds, St.addPartial]
  rw [e1, e2, e3, e4, List.count_append]
  simp only [List.count_cons, List.count_nil, beq_iff_eq]
  omega

theorem LInv.reclaim {st : St} (h : LInv st) (hS : SInv st) (sid : Nat) : LInv (st.reclaim sid) := by
  unfold St.reclaim
  split
  · exact h
  · rename_i s hs
    obtain ⟨hm, hsid⟩ := getSess_some hs
    split
    · exact h
    · have h1 := count_sid_one st.sessions hS.pw s hm
      rw [hsid] at h1
      have hd := LInv.dropPartial h sid
      refine LInv.free (st := st.dropPartial sid) hd sid ?_ rfl ?_
      · rw [objects_count]
        have e1 : (st.dropPartial sid).sids = st.sids := rfl
        rw [e1]; unfold St.sids; omega
      · intro i
        rw [objects_count, objects_count]
        show ((st.sessions.filter (fun t => t.sid ≠ sid)).map (·.sid)).count i + (st.dropPartial sid).allocHids.count i +
          (st.dropPartial sid).ctxObjs.count i + (st.dropPartial sid).partialIds.count i = _
        rw [count_sids_filter]
        have e1 : (st.dropPartial sid).sids = st.sids := rfl
        rw [e1]
        by_cases e : i = sid
        · subst e; simp; unfold St.sids; omega
        · have : ¬ sid = i := fun e' => e e'.symm
          simp [e, this]; rfl

theorem LInv.clientFree {st : St} (h : LInv st) (hS : SInv st) (sid : Nat) : LInv (st.clientFree sid) := by
  unfold St.clientFree
  split
  · exact h
  · rename_i s hs
    obtain ⟨hm, hsid⟩ := getSess_some hs
    split
    · exact h
    · have h1 := count_sid_one st.sessions hS.pw s hm
      rw [hsid] at h1
      have hd := LInv.dropPartial h sid
      refine LInv.free (st := st.dropPartial sid) hd sid ?_ rfl ?_
      · rw [objects_count]
        have e1 : (st.dropPartial sid).sids = st.sids := rfl
        rw [e1]; unfold St.sids; omega
      · intro i
        rw [objects_count, objects_count]
        show ((st.sessions.filter (fun t => t.sid ≠ sid)).map (·.sid)).count i + (st.dropPartial sid).allocHids.count i +
          (st.dropPartial sid).ctxObjs.count i + (st.dropPartial sid).partialIds.count i = _
        rw [count_sids_filter]
        have e1 : (st.dropPartial sid).sids = st.sids := rfl
        rw [e1]
        by_cases e : i = sid
        · subst e; simp; unfold St.sids; omega
        · have : ¬ sid = i := fun e' => e e'.symm
          simp [e, this]; rfl

theorem LInv.newSession {st : St} (h : LInv st) (p : Peer) : LInv (st.newSession p) := by
  refine LInv.alloc (st := st) h st.next rfl ?_
  intro i
  rw [objects_count, objects_count]
  have e1 : (st.newSession p).allocHids = st.allocHids := rfl
  have e2 : (st.newSession p).ctxObjs = st.ctxObjs := rfl
  have e3 : (st.newSession p).sids = st.sids ++ [st.next] := by simp [St.sids, St.newSession]
  have e4 : (st.newSession p).partialIds = st.partialIds := rfl
  rw [e1, e2, e3, e4, List.count_append]
  simp only [List.count_cons, List.count_nil, beq_iff_eq]
  omega

theorem allocHids_map (l : List Holder) (g : Holder → Holder) (hg : HBenign g) :
    ((l.map g).filter (·.kind.isAlloc)).map (·.hid) = (l.filter (·.kind.isAlloc)).map (·.hid) := by
  induction l with
  | nil => rfl
  | cons a t ih =>
    simp only [List.map_cons, List.filter_cons, (hg a).2.2]
    by_cases c : a.kind.isAlloc
    · simp only [c, if_true, List.map_cons, (hg a).2.1, ih]
    · simpa [c] using ih

theorem LInv.mapHolders {st : St} (h : LInv st) (g : Holder → Holder) (hg : HBenign g) :
    LInv { st with holders := st.holders.map g } :=
  h.same rfl rfl (allocHids_map st.holders g hg) rfl rfl

theorem LInv.teardownEnd {st : St} (h : LInv st) :
    LInv { (st.freeObjs st.ctxObjs) with ctxObjs := [], resAlive := [], freed := true } := by
  obtain ⟨live, hr, hc⟩ := h
  obtain ⟨live', hr', hc'⟩ := LInv.freeAll st.ctxObjs st.ledger live (st.sids ++ st.allocHids ++ st.partialIds) hr
    (by intro i; rw [hc, objects_count, List.count_append, List.count_append]; omega)
  refine ⟨live', hr', ?_⟩
  intro i; rw [hc' i, objects_count]
  show _ = st.sids.count i + st.allocHids.count i + 0 + st.partialIds.count i
  rw [List.count_append, List.count_append]; omega


/-! ## partly received PDUs hang off LIVE sessions -/

/-- every `session->partial_pdu` the ledger knows belongs to a session that is in its endpoint's table -/
def PInv (st : St) : Prop := ∀ x ∈ st.partials, ∃ s ∈ st.sessions, s.sid = x.2

theorem PInv.updSess {st : St} (h : PInv st) (sid : Nat) (f : Sess → Sess) (hf : ∀ s, (f s).sid = s.sid) :
    PInv (st.updSess sid f) := fun x hx => live_updSess sid f hf (h x hx)

theorem PInv.same {st st' : St} (h : PInv st) (h1 : st'.sessions = st.sessions) (h2 : st'.partials = st.partials) :
    PInv st' := by
  intro x hx; rw [h2] at hx; rw [h1]; exact h x hx

theorem PInv.addHolder {st : St} (h : PInv st) (sid : Nat) (k : HKind) : PInv (st.addHolder sid k) := by
  unfold St.addHolder
  split <;> exact fun x hx => live_updSess sid _ (fun _ => rfl) (h x hx)

theorem PInv.dropHolder {st : St} (h : PInv st) (y : Holder) : PInv (st.dropHolder y) := by
  intro x hx
  have hx' : x ∈ st.partials := by
    unfold St.dropHolder at hx; split at hx <;> exact hx
  exact live_dropHolder y (h x hx')

theorem PInv.dropPartial {st : St} (h : PInv st) (sid : Nat) : PInv (st.dropPartial sid) := by
  intro x hx
  have hx' : x ∈ st.partials.filter (fun x => x.2 != sid) := hx
  exact h x (List.mem_filter.mp hx').1

theorem PInv.addPartial {st : St} (h : PInv st) (sid : Nat) (hl : ∃ s ∈ st.sessions, s.sid = sid) :
    PInv (st.addPartial sid) := by
  intro x hx
  have hx' : x ∈ st.partials ++ [(st.next, sid)] := hx
  rcases List.mem_append.mp hx' with h1 | h1
  · exact h x h1
  · simp only [List.mem_singleton] at h1; subst h1; exact hl

theorem PInv.reclaim {st : St} (h : PInv st) (sid : Nat) : PInv (st.reclaim sid) := by
  unfold St.reclaim
  split
  · exact h
  · split
    · exact h
    · intro x hx
      have hx' : x ∈ st.partials.filter (fun x => x.2 != sid) := hx
      obtain ⟨hx1, hx2⟩ := List.mem_filter.mp hx'
      obtain ⟨s, hs, e⟩ := h x hx1
      refine ⟨s, ?_, e⟩
      show s ∈ st.sessions.filter (fun t => t.sid ≠ sid)
      apply List.mem_filter.mpr
      refine ⟨hs, ?_⟩
      have : x.2 ≠ sid := by simpa using hx2
      simp [e]; exact this

theorem PInv.clientFree {st : St} (h : PInv st) (sid : Nat) : PInv (st.clientFree sid) := by
  unfold St.clientFree
  split
  · exact h
  · split
    · exact h
    · intro x hx
      have hx' : x ∈ st.partials.filter (fun x => x.2 != sid) := hx
      obtain ⟨hx1, hx2⟩ := List.mem_filter.mp hx'
      obtain ⟨s, hs, e⟩ := h x hx1
      refine ⟨s, ?_, e⟩
      show s ∈ st.sessions.filter (fun t => t.sid ≠ sid)
      apply List.mem_filter.mpr
      refine ⟨hs, ?_⟩
      have : x.2 ≠ sid := by simpa using hx2
      simp [e]; exact this

theorem PInv.newSession {st : St} (h : PInv st) (p : Peer) : PInv (st.newSession p) := by
  intro x hx
  obtain ⟨s, hs, e⟩ := h x hx
  exact ⟨s, List.mem_append.mpr (Or.inl hs), e⟩

/-! ## everything together -/

/-! ### `promote`: a delayed node becomes a queued message (same object, now with a reference) -/

theorem HInv.promote {st : St} (h : HInv st) (x : Nat × Nat) (due : Nat) (hl : ∃ s ∈ st.sessions, s.sid = x.2) :
    HInv (st.promote x due) := by
  unfold St.promote
  split
  · have := HInv.addHolder (st := { st with holders := st.holders }) h x.2 (.node 0 due) hl
    have key : HInv { (st.updSess x.2 Sess.reference) with
        holders := st.holders ++ [⟨st.next, x.2, .node 0 due⟩], ledger := st.ledger ++ [.alloc st.next], next := st.next + 1 } := by
      simpa [St.addHolder, HKind.isAlloc] using this
    constructor
    · intro t ht
      have := key.ref t ht
      unfold St.holds at this ⊢
      simpa [List.countP_append] using this
    · intro y hy
      have hy' : y ∈ st.holders ++ [⟨x.1, x.2, .node 0 due⟩] := hy
      rcases List.mem_append.mp hy' with h1 | h1
      · exact key.live y (List.mem_append.mpr (Or.inl h1))
      · simp only [List.mem_singleton] at h1; subst h1
        exact key.live ⟨st.next, x.2, .node 0 due⟩ (List.mem_append.mpr (Or.inr (by simp)))
    · intro t ht
      obtain ⟨s0, hs0, rfl⟩ := mem_updSess.mp ht
      have := h.fresh s0 hs0
      show _ < st.next
      by_cases c : s0.sid = x.2 <;> simp [c, Sess.reference] <;> omega
  · exact h

theorem SInv.promote {st : St} (h : SInv st) (x : Nat × Nat) (due : Nat) : SInv (st.promote x due) := by
  unfold St.promote
  split
  · exact h.of_shape _ (shapeBenign_if x.2 Sess.reference (fun _ => ⟨rfl, rfl⟩)) rfl rfl rfl (Nat.le_refl _)
  · exact h

theorem count_map_erase (l : List (Nat × Nat)) (x : Nat × Nat) (hx : x ∈ l) (i : Nat) :
    ((l.erase x).map (·.1)).count i + (if x.1 = i then 1 else 0) = (l.map (·.1)).count i := by
  induction l with
  | nil => simp at hx
  | cons y t ih =>
    by_cases e : y = x
    · subst e; simp [List.count_cons]
    · have hx' : x ∈ t := by
        rcases List.mem_cons.mp hx with h1 | h1
        · exact absurd h1.symm e
        · exact h1
      have := ih hx'
      rw [List.erase_cons_tail (by simpa using e)]
      simp only [List.map_cons, List.count_cons]
      omega

theorem LInv.promote {st : St} (h : LInv st) (x : Nat × Nat) (due : Nat) : LInv (st.promote x due) := by
  unfold St.promote
  split
  · rename_i hx
    obtain ⟨live, hr, hc⟩ := h
    refine ⟨live, hr, ?_⟩
    intro i
    rw [hc i, objects_count, objects_count]
    have h1 : St.sids { (st.updSess x.2 Sess.reference) with
        holders := st.holders ++ [⟨x.1, x.2, .node 0 due⟩], partials := st.partials.erase x } = st.sids :=
      sids_updSess st x.2 _ (fun _ => rfl)
    have h2 : St.allocHids { (st.updSess x.2 Sess.reference) with
        holders := st.holders ++ [⟨x.1, x.2, .node 0 due⟩], partials := st.partials.erase x } = st.allocHids ++ [x.1] := by
      simp [St.allocHids, List.filter_append, HKind.isAlloc]
    have h3 : St.ctxObjs { (st.updSess x.2 Sess.reference) with
        holders := st.holders ++ [⟨x.1, x.2, .node 0 due⟩], partials := st.partials.erase x } = st.ctxObjs := rfl
    have h4 := count_map_erase st.partials x hx i
    rw [h1, h2, h3]
    show _ = _ + _ + _ + ((st.partials.erase x).map (·.1)).count i
    simp only [List.count_append, List.count_cons, List.count_nil, beq_iff_eq]
    unfold St.partialIds
    omega
  · exact h

theorem PInv.promote {st : St} (h : PInv st) (x : Nat × Nat) (due : Nat) : PInv (st.promote x due) := by
  unfold St.promote
  split
  · intro y hy
    have hy' : y ∈ st.partials.erase x := hy
    obtain ⟨s, hs, e⟩ := h y (List.mem_of_mem_erase hy')
    exact live_updSess x.2 _ (fun _ => rfl) ⟨s, hs, e⟩
  · exact h

structure Inv (st : St) : Prop where
  H : HInv st
  S : SInv st
  L : LInv st
  P : PInv st

theorem HInv.addPartial {st : St} (h : HInv st) (sid : Nat) : HInv (st.addPartial sid) :=
  ⟨h.ref, h.live, fun t ht => Nat.lt_succ_of_lt (h.fresh t ht)⟩

theorem LInv.newOwned {st : St} (h : LInv st) : LInv st.newOwned := by
  refine LInv.alloc (st := st) h st.next rfl ?_
  intro i
  rw [objects_count, objects_count]
  have e1 : st.newOwned.sids = st.sids := rfl
  have e2 : st.newOwned.allocHids = st.allocHids := rfl
  have e3 : st.newOwned.ctxObjs = st.ctxObjs ++ [st.next] := rfl
  have e4 : st.newOwned.partialIds = st.partialIds := rfl
  rw [e1, e2, e3, e4, List.count_append]
  simp only [List.count_cons, List.count_nil, beq_iff_eq]
  omega

theorem Inv.closed : Closed Inv where
  benign st sid f h hf :=
    ⟨h.H.updSess_benign sid f (fun s => ⟨(hf s).1, (hf s).2.1⟩), h.S.updSess sid f (fun s => ⟨(hf s).1, (hf s).2.2⟩),
     h.L.updSess sid f (fun s => (hf s).1), h.P.updSess sid f (fun s => (hf s).1)⟩
  refRelease st sid h := by
    rw [updSess_updSess st sid Sess.reference Sess.release (fun _ => rfl)]
    exact ⟨h.H.updSess_benign sid _ (fun s => ⟨rfl, by simp [Sess.reference, Sess.release]⟩),
      h.S.updSess sid _ (fun s => ⟨rfl, rfl⟩), h.L.updSess sid _ (fun s => rfl), h.P.updSess sid _ (fun s => rfl)⟩
  addHolder st sid k h hl := ⟨h.H.addHolder sid k hl, h.S.addHolder sid k, h.L.addHolder sid k, h.P.addHolder sid k⟩
  dropHolder st x h := ⟨h.H.dropHolder x, h.S.dropHolder x, h.L.dropHolder x, h.P.dropHolder x⟩
  reclaim st sid h := ⟨h.H.reclaim sid, h.S.reclaim sid, h.L.reclaim h.S sid, h.P.reclaim sid⟩
  clientFree st sid h := ⟨h.H.clientFree sid, h.S.clientFree sid, h.L.clientFree h.S sid, h.P.clientFree sid⟩
  addPartial st sid h hl :=
    ⟨h.H.addPartial sid, h.S.same rfl rfl rfl (Nat.le_succ _), h.L.addPartial sid, h.P.addPartial sid hl⟩
  dropPartial st sid h :=
    ⟨h.H.congr rfl rfl rfl, h.S.same rfl rfl rfl (Nat.le_refl _), h.L.dropPartial sid, h.P.dropPartial sid⟩
  promote st x due h hl := ⟨h.H.promote x due hl, h.S.promote x due, h.L.promote x due, h.P.promote x due⟩
  newSession st p h hl hp := ⟨h.H.newSession p, h.S.newSession h.H p hl hp, h.L.newSession p, h.P.newSession p⟩
  mapHolders st g h hg :=
    ⟨h.H.mapHolders g (fun x => (hg x).1), h.S.same rfl rfl rfl (Nat.le_refl _), h.L.mapHolders g hg, h.P.same rfl rfl⟩
  misc st now timeout maxIdle res dirty h :=
    ⟨h.H.congr rfl rfl rfl, h.S.same rfl rfl rfl (Nat.le_refl _), h.L.same rfl rfl rfl rfl rfl, h.P.same rfl rfl⟩
  teardownEnd st h :=
    ⟨h.H.congr rfl rfl rfl, h.S.same rfl rfl rfl (Nat.le_refl _), h.L.teardownEnd, h.P.same rfl rfl⟩
  newOwned st h :=
    ⟨⟨h.H.ref, h.H.live, fun t ht => Nat.lt_succ_of_lt (h.H.fresh t ht)⟩, h.S.same rfl rfl rfl (Nat.le_succ _),
     h.L.newOwned, h.P.same rfl rfl⟩

theorem runLedger_allocs (l : List Nat) : ∀ live, runLedger (l.map .alloc) live = some (l.reverse ++ live) := by
  induction l with
  | nil => intro live; rfl
  | cons a t ih => intro live; simp [runLedger, ih]

theorem Inv.init (eps : List (Nat × Nat)) (nres : Nat) : Inv (St.init eps nres) := by
  refine ⟨HInv.init eps nres, ?_, ?_, fun x hx => by simp [St.init] at hx⟩
  · constructor
    · simp [St.init]
    · intro s hs; simp [St.init] at hs
    · intro x hx; simp [St.init, St.sids] at hx
    · intro x _; simp [St.init]
    · intro x hx; simp [St.init] at hx
  · refine ⟨_, runLedger_allocs _ [], ?_⟩
    intro i
    simp [St.init, St.objects, St.sids, St.allocHids, St.partialIds, List.count_append]

theorem Inv.run (eps : List (Nat × Nat)) (nres : Nat) (es : List Event) : Inv ((St.init eps nres).run es) :=
  Inv.closed.run (Inv.init eps nres) es


/-! ## teardown: nothing survives coap_free_context -/

theorem dropHolders_cons (st : St) (x : Holder) (t : List Holder) :
    st.dropHolders (x :: t) = (st.dropHolder x).dropHolders t := rfl

theorem holders_dropHolder_mem (st : St) (x : Holder) (hx : x ∈ st.holders) :
    (st.dropHolder x).holders = st.holders.erase x := by
  unfold St.dropHolder; simp [hx]

theorem dropHolders_all (sid : Nat) : ∀ (xs : List Holder) (acc : St),
    xs.Perm (acc.holders.filter (fun h => h.sid == sid)) →
    (acc.dropHolders xs).holders.filter (fun h => h.sid == sid) = [] := by
  intro xs
  induction xs with
  | nil => intro acc hp; exact (List.nil_perm.mp hp)
  | cons x t ih =>
    intro acc hp
    obtain ⟨hx, ht⟩ := List.cons_perm_iff_perm_erase.mp hp
    have hx' : x ∈ acc.holders := (List.mem_filter.mp hx).1
    rw [dropHolders_cons]
    apply ih
    rw [holders_dropHolder_mem acc x hx', ← List.erase_filter]
    exact ht

/-- `r`'s sessions all stem from sessions of `a` with the same id and key -/
def Sub (r a : St) : Prop := ∀ s ∈ r.sessions, ∃ s0 ∈ a.sessions, s0.sid = s.sid ∧ s0.peer = s.peer

theorem Sub.refl (a : St) : Sub a a := fun s hs => ⟨s, hs, rfl, rfl⟩
theorem Sub.trans {a b c : St} (h1 : Sub a b) (h2 : Sub b c) : Sub a c := by
  intro s hs
  obtain ⟨s1, hs1, e1, e2⟩ := h1 s hs
  obtain ⟨s2, hs2, e3, e4⟩ := h2 s1 hs1
  exact ⟨s2, hs2, by rw [e3, e1], by rw [e4, e2]⟩
theorem Sub.sids {r a : St} (h : Sub r a) : ∀ x, x ∈ r.sids → x ∈ a.sids := by
  intro x hx
  obtain ⟨s, hs, rfl⟩ := List.mem_map.mp hx
  obtain ⟨s0, hs0, e, _⟩ := h s hs
  exact List.mem_map.mpr ⟨s0, hs0, e⟩

theorem Sub.dropHolder (a : St) (x : Holder) : Sub (a.dropHolder x) a := by
  unfold St.dropHolder
  split
  · intro s hs
    obtain ⟨s0, hs0, rfl⟩ := mem_updSess.mp hs
    refine ⟨s0, hs0, ?_, ?_⟩ <;> by_cases c : s0.sid = x.sid <;> simp [c, Sess.release]
  · exact Sub.refl a

theorem Sub.dropHolders : ∀ (xs : List Holder) (a : St), Sub (a.dropHolders xs) a := by
  intro xs
  induction xs with
  | nil => intro a; exact Sub.refl a
  | cons x t ih => intro a; rw [dropHolders_cons]; exact (ih _).trans (Sub.dropHolder a x)

theorem Sub.reclaim (a : St) (sid : Nat) : Sub (a.reclaim sid) a := by
  unfold St.reclaim
  split
  · exact Sub.refl a
  · split
    · exact Sub.refl a
    · intro s hs
      have hs' : s ∈ a.sessions.filter (fun t => t.sid ≠ sid) := hs
      exact ⟨s, (List.mem_filter.mp hs').1, rfl, rfl⟩

theorem eps_dropHolder (a : St) (x : Holder) : (a.dropHolder x).eps = a.eps := by
  unfold St.dropHolder; split <;> rfl
theorem eps_dropHolders : ∀ (xs : List Holder) (a : St), (a.dropHolders xs).eps = a.eps := by
  intro xs
  induction xs with
  | nil => intro a; rfl
  | cons x t ih => intro a; rw [dropHolders_cons, ih, eps_dropHolder]

/-- one session of `coap_free_endpoint_lkd`: afterwards it is gone -/
theorem freeOne {a : St} (h : Inv a) (sid : Nat) :
    let r := (a.dropHolders (a.holders.filter fun h => h.sid == sid)).reclaim sid
    Inv r ∧ Sub r a ∧ r.eps = a.eps ∧ sid ∉ r.sids := by
  intro r
  have h1 : Inv (a.dropHolders (a.holders.filter fun h => h.sid == sid)) := Inv.closed.dropHolders h _
  have hz : (a.dropHolders (a.holders.filter fun h => h.sid == sid)).holds sid = 0 := by
    unfold St.holds
    rw [List.countP_eq_length_filter, dropHolders_all sid _ a (List.Perm.refl _)]; rfl
  refine ⟨Inv.closed.reclaim _ _ h1, (Sub.reclaim _ sid).trans (Sub.dropHolders _ a), ?_, ?_⟩
  · show (St.reclaim _ sid).eps = _
    rw [Closed.reclaim_eps, eps_dropHolders]
  · show sid ∉ (St.reclaim _ sid).sids
    unfold St.reclaim
    cases hg : (a.dropHolders (a.holders.filter fun h => h.sid == sid)).getSess sid with
    | none =>
      dsimp only
      intro hin
      obtain ⟨s, hs, e⟩ := List.mem_map.mp hin
      unfold St.getSess at hg
      rw [List.find?_eq_none] at hg
      exact hg s hs (by simpa using e)
    | some t =>
      obtain ⟨ht, hsid⟩ := getSess_some hg
      have : t.ref = 0 := by rw [h1.H.ref t ht, hsid]; exact hz
      simp only [this, ne_eq, not_true_eq_false, if_false]
      intro hin
      obtain ⟨s, hs, e⟩ := List.mem_map.mp hin
      have hs' : s ∈ (a.dropHolders (a.holders.filter fun h => h.sid == sid)).sessions.filter (fun t => t.sid ≠ sid) := hs
      have := (List.mem_filter.mp hs').2
      simp at this; exact this e

theorem freeMany : ∀ (L : List Nat) (a : St), Inv a →
    let r := L.foldl (fun acc sid => (acc.dropHolders (acc.holders.filter fun h => h.sid == sid)).reclaim sid) a
    Inv r ∧ Sub r a ∧ r.eps = a.eps ∧ ∀ x ∈ L, x ∉ r.sids := by
  intro L
  induction L with
  | nil => intro a h; exact ⟨h, Sub.refl a, rfl, by simp⟩
  | cons sid t ih =>
    intro a h
    obtain ⟨i1, s1, e1, n1⟩ := freeOne h sid
    obtain ⟨i2, s2, e2, n2⟩ := ih _ i1
    refine ⟨i2, s2.trans s1, e2.trans e1, ?_⟩
    intro x hx
    rcases List.mem_cons.mp hx with rfl | hx
    · exact fun hin => n1 (s2.sids _ hin)
    · exact n2 x hx

theorem freeEndpoint_spec {a : St} (h : Inv a) (ep : Nat × Nat) :
    Inv (a.freeEndpoint ep) ∧ Sub (a.freeEndpoint ep) a ∧ (a.freeEndpoint ep).eps = a.eps ∧
    ∀ s ∈ (a.freeEndpoint ep).sessions, s.onEp ep.1 ep.2 = false := by
  obtain ⟨i1, s1, e1, n1⟩ := freeMany ((a.epSessions ep.1 ep.2).map (·.sid)) a h
  refine ⟨i1, s1, e1, ?_⟩
  intro s hs
  cases hon : s.onEp ep.1 ep.2 with
  | false => rfl
  | true =>
    exfalso
    obtain ⟨s0, hs0, es, epr⟩ := s1 s hs
    have hon0 : s0.onEp ep.1 ep.2 = true := by unfold Sess.onEp at hon ⊢; rw [epr]; exact hon
    have hin : s0.sid ∈ (a.epSessions ep.1 ep.2).map (·.sid) :=
      List.mem_map.mpr ⟨s0, List.mem_filter.mpr ⟨hs0, hon0⟩, rfl⟩
    apply n1 _ hin
    rw [es]
    exact List.mem_map.mpr ⟨s, hs, rfl⟩

theorem freeEndpoints_spec : ∀ (E : List (Nat × Nat)) (a : St), Inv a →
    Inv (E.foldl St.freeEndpoint a) ∧ Sub (E.foldl St.freeEndpoint a) a ∧ (E.foldl St.freeEndpoint a).eps = a.eps ∧
    ∀ ep ∈ E, ∀ s ∈ (E.foldl St.freeEndpoint a).sessions, s.onEp ep.1 ep.2 = false := by
  intro E
  induction E with
  | nil => intro a h; exact ⟨h, Sub.refl a, rfl, by simp⟩
  | cons ep t ih =>
    intro a h
    obtain ⟨i1, s1, e1, n1⟩ := freeEndpoint_spec h ep
    obtain ⟨i2, s2, e2, n2⟩ := ih _ i1
    refine ⟨i2, s2.trans s1, e2.trans e1, ?_⟩
    intro ep' hep s hs
    rcases List.mem_cons.mp hep with rfl | hep
    · obtain ⟨s0, hs0, _, epr⟩ := s2 s hs
      have := n1 s0 hs0
      unfold Sess.onEp at this ⊢; rw [← epr]; exact this
    · exact n2 ep' hep s hs

/-- after all endpoints have been freed no session and no holder is left -/
theorem freeEndpoints_empty {a : St} (h : Inv a) :
    (a.eps.foldl St.freeEndpoint a).sessions = [] ∧ (a.eps.foldl St.freeEndpoint a).holders = [] := by
  obtain ⟨i1, _, e1, n1⟩ := freeEndpoints_spec a.eps a h
  have hs : (a.eps.foldl St.freeEndpoint a).sessions = [] := by
    apply List.eq_nil_iff_forall_not_mem.mpr
    intro s hs
    have hep := i1.S.ep s hs
    rw [e1] at hep
    have := n1 _ hep s hs
    simp [Sess.onEp] at this
  refine ⟨hs, ?_⟩
  apply List.eq_nil_iff_forall_not_mem.mpr
  intro x hx
  obtain ⟨s, hs', _⟩ := i1.H.live x hx
  rw [hs] at hs'; simp at hs'

/-! ## holder counts across the observer primitives (for `reregistration_keeps_refcount`, `rst_releases_exactly_one`) -/

theorem holds_dropHolder (st : St) (x : Holder) (hx : x ∈ st.holders) (y : Nat) :
    st.holds y = (st.dropHolder x).holds y + (if x.sid = y then 1 else 0) := by
  have e := countP_erase_mem st.holders x (fun h => h.sid == y) hx
  unfold St.holds
  rw [holders_dropHolder_mem st x hx, e]
  simp

theorem holders_addHolder_obs (st : St) (sid k q tok n : Nat) :
    (st.addHolder sid (.obs k q tok n)).holders = st.holders ++ [⟨st.next, sid, .obs k q tok n⟩] := rfl

theorem holds_addHolder_obs (st : St) (sid k q tok n : Nat) (y : Nat) :
    (st.addHolder sid (.obs k q tok n)).holds y = st.holds y + (if sid = y then 1 else 0) := by
  unfold St.holds
  rw [holders_addHolder_obs]
  exact holds_append st _ y

/-- reference counts follow holder counts: if both states satisfy the invariant and the holder counts differ by `d`,
    so do the reference counts of corresponding sessions (no truncated subtraction involved) -/
theorem ref_of_holds {st st' : St} (hI : Inv st) (hI' : Inv st') (d : Nat → Nat)
    (hh : ∀ y, st.holds y = st'.holds y + d y) :
    ∀ s ∈ st.sessions, ∀ t ∈ st'.sessions, t.sid = s.sid → s.ref = t.ref + d s.sid := by
  intro s hs t ht e
  rw [hI.H.ref s hs, hI'.H.ref t ht, e]; exact hh s.sid

end Coap.Sessions
