import CoapVerif.Model.BlockTok
import CoapVerif.Lemmas.BlockCrcv
/- C09, client side: (1) once a Block2 body has been handed over, a Block2 response nobody is waiting for (`sent == NULL`,
   no lg_crcv: a duplicate or delayed copy of ANY block, the last one included) never reaches the response handler;
   (2) `coap_check_update_token` puts the application's token of the right transfer back, wherever that transfer sits
   in the session's lists.  Core Lean only. -/
set_option linter.unusedSimpArgs false
set_option linter.unusedVariables false
namespace Coap.Block

/-! ## (1) `crcvStepS` -/

theorem crcvStore_final_none (single : Bool) (cap : Nat) (junk : UInt8) (lg : Crcv) (num m szx : Nat) (payload data : Bytes)
    (offset size2 fmt : Nat)
    (h : (crcvStore single cap junk lg num m szx payload data offset size2 fmt).2.isFinal = true) :
    (crcvStore single cap junk lg num m szx payload data offset size2 fmt).1 = none := by
  revert h
  unfold crcvStore
  dsimp only
  by_cases hf : fmt ≠ lg.fmt
  · rw [if_pos hf]; intro h; simp [CrcvOut.isFinal] at h
  rw [if_neg hf]
  by_cases hsz : szx ≠ lg.szx
  · rw [if_pos hsz]; intro h; simp [CrcvOut.isFinal] at h
  rw [if_neg hsz]
  by_cases hr : checkIfReceived lg.recv num = true
  · rw [if_pos hr]; intro h; simp [CrcvOut.isFinal] at h
  rw [if_neg hr]
  cases hu : updateReceived cap lg.recv num with
  | mk ok rec' =>
    cases ok with
    | false => intro h; simp [CrcvOut.isFinal] at h
    | true =>
      dsimp only
      cases single with
      | true =>
        simp only [if_true]
        cases hb : buildBody junk lg.body data offset size2 with
        | none => intro h; simp [CrcvOut.isFinal] at h
        | some b =>
          dsimp only
          by_cases hc : m ≠ 0 ∨ ¬ checkAllBlocksIn rec' ((size2 + 2 ^ (szx + 4) - 1) / 2 ^ (szx + 4)) = true
          · rw [if_pos hc]
            by_cases hm : m ≠ 0
            · rw [if_pos hm]; intro h; simp [CrcvOut.isFinal] at h
            · rw [if_neg hm]
              by_cases hd : data.length % 2 ^ (szx + 4) ≠ 0
              · rw [if_pos hd]; intro h; simp [CrcvOut.isFinal] at h
              · rw [if_neg hd]; intro h; simp [CrcvOut.isFinal] at h
          · rw [if_neg hc]; intro _; rfl
      | false =>
        simp only [Bool.false_eq_true, if_false]
        by_cases hc : m ≠ 0 ∨ ¬ checkAllBlocksIn rec' ((size2 + 2 ^ (szx + 4) - 1) / 2 ^ (szx + 4)) = true
        · rw [if_pos hc]; intro h; simp [CrcvOut.isFinal] at h
        · rw [if_neg hc]; intro _; rfl

theorem crcvBlock_final_none (single : Bool) (cap : Nat) (junk : UInt8) (lg : Crcv) (num m szx : Nat) (r : Resp)
    (h : (crcvBlock single cap junk lg num m szx r).2.isFinal = true) :
    (crcvBlock single cap junk lg num m szx r).1 = none := by
  revert h
  unfold crcvBlock
  dsimp only
  generalize (if r.payload.length > 2 ^ (szx + 4) then r.payload.take (2 ^ (szx + 4)) else r.payload) = data
  by_cases hund : m ≠ 0 ∧ data.length ≠ 2 ^ (szx + 4)
  · rw [if_pos hund]; intro _; rfl
  · rw [if_neg hund]
    by_cases hlastnum : m ≠ 0 ∧ 0xFFFFF ≤ num
    · rw [if_pos hlastnum]; intro _; rfl
    rw [if_neg hlastnum]
    cases he : r.etag with
    | some e =>
      simp only
      split
      · intro h; simp [CrcvOut.isFinal] at h
      · exact crcvStore_final_none _ _ _ _ _ _ _ _ _ _ _ _
    | none =>
      simp only
      split
      · intro h; simp [CrcvOut.isFinal] at h
      · exact crcvStore_final_none _ _ _ _ _ _ _ _ _ _ _ _

theorem crcvFound_final_none (single : Bool) (cap : Nat) (junk : UInt8) (lg : Crcv) (r : Resp)
    (h : (crcvFound single cap junk lg r).2.isFinal = true) : (crcvFound single cap junk lg r).1 = none := by
  revert h
  unfold crcvFound
  cases hb : r.blk with
  | none => intro _; rfl
  | some b =>
    obtain ⟨num, m, szx⟩ := b
    simp only
    split
    · exact crcvBlock_final_none _ _ _ _ _ _ _ _
    · intro _; rfl

/-- whoever hands the body / the completing block to the handler releases the lg_crcv, with or without `sent` -/
theorem crcvStepS_final_none (sent single : Bool) (cap : Nat) (junk : UInt8) (st : Option Crcv) (r : Resp)
    (h : (crcvStepS sent single cap junk st r).2.isFinal = true) : (crcvStepS sent single cap junk st r).1 = none := by
  revert h
  unfold crcvStepS
  cases st with
  | some lg => exact crcvFound_final_none _ _ _ _ _
  | none =>
    dsimp only
    cases sent with
    | true =>
      simp only [if_true]
      unfold crcvStep
      dsimp only
      cases hb : r.blk with
      | none => intro _; rfl
      | some b =>
        obtain ⟨num, m, szx⟩ := b
        dsimp only
        by_cases hn : num ≠ 0
        · rw [if_pos hn]; intro _; rfl
        · rw [if_neg hn]
          exact crcvFound_final_none single cap junk {} r
    | false =>
      simp only [Bool.false_eq_true, if_false]
      cases hb : r.blk with
      | none => intro _; rfl
      | some b => intro _; rfl

/-- no lg_crcv, no request the response was matched to, a Block2 option: dropped (ACKed if need be), handler not called -/
theorem crcvStepS_unsolicited (single : Bool) (cap : Nat) (junk : UInt8) (r : Resp) (hb : r.blk ≠ none) :
    crcvStepS false single cap junk none r = (none, .skip) := by
  unfold crcvStepS
  cases h : r.blk with
  | none => exact absurd h hb
  | some b => simp

theorem runCrcvS_none_unsolicited (single : Bool) (cap : Nat) (junk : UInt8) :
    ∀ xs : List (Bool × Resp), (∀ x, x ∈ xs → x.1 = false ∧ x.2.blk ≠ none) →
      ∀ o, o ∈ runCrcvS single cap junk none xs → o = CrcvOut.skip := by
  intro xs
  induction xs with
  | nil => intro _ o ho; simp [runCrcvS] at ho
  | cons x xs ih =>
    intro hx o ho
    obtain ⟨b, r⟩ := x
    have hx0 := hx (b, r) (by simp)
    have hb : b = false := hx0.1
    subst hb
    have hstep := crcvStepS_unsolicited single cap junk r hx0.2
    simp only [runCrcvS, hstep, List.mem_cons] at ho
    rcases ho with ho | ho
    · exact ho
    · exact ih (fun y hy => hx y (by simp [hy])) o ho

/-- the state after a run -/
def stateCrcvS (single : Bool) (cap : Nat) (junk : UInt8) : Option Crcv → List (Bool × Resp) → Option Crcv
  | st, [] => st
  | st, x :: xs => stateCrcvS single cap junk (crcvStepS x.1 single cap junk st x.2).1 xs

/-- a Non-confirmable transfer (every response arrives with `sent == NULL`): at most one hand-over of the body / of the
completing block along the whole run, whatever is duplicated or arrives late -/
theorem runCrcvS_final_le_one (single : Bool) (cap : Nat) (junk : UInt8) :
    ∀ (xs : List (Bool × Resp)) (st : Option Crcv), (∀ x, x ∈ xs → x.1 = false ∧ x.2.blk ≠ none) →
      ((runCrcvS single cap junk st xs).filter (fun o => o.isFinal)).length ≤ 1 := by
  intro xs
  induction xs with
  | nil => intro st _; simp [runCrcvS]
  | cons x xs ih =>
    intro st hx
    have hrest : ∀ y, y ∈ xs → y.1 = false ∧ y.2.blk ≠ none := fun y hy => hx y (by simp [hy])
    simp only [runCrcvS]
    by_cases hf : (crcvStepS x.1 single cap junk st x.2).2.isFinal = true
    · have hn := crcvStepS_final_none _ _ _ _ _ _ hf
      rw [hn]
      have hall := runCrcvS_none_unsolicited single cap junk xs hrest
      have : (runCrcvS single cap junk none xs).filter (fun o => o.isFinal) = [] := by
        rw [List.filter_eq_nil_iff]
        intro o ho
        rw [hall o ho]
        simp [CrcvOut.isFinal]
      rw [List.filter_cons_of_pos (by simpa using hf), this]
      simp
    · rw [List.filter_cons_of_neg (by simpa using hf)]
      exact ih _ hrest

/-! ## (2) `coap_check_update_token` -/

theorem tokScan_some (m : Nat) (tok : Bytes) : ∀ (l : List TokEnt) (t : Bytes), tokScan m tok l = some t →
    ∃ e, e ∈ l ∧ t = e.appTok ∧ (tok = e.appTok ∨ m = stateTokenBase e.state) := by
  intro l
  induction l with
  | nil => intro t h; simp [tokScan] at h
  | cons e es ih =>
    intro t h
    unfold tokScan at h
    by_cases h1 : tok = e.appTok
    · rw [if_pos h1] at h
      exact ⟨e, by simp, by rw [← h1]; exact (Option.some.inj h).symm, Or.inl h1⟩
    · rw [if_neg h1] at h
      by_cases h2 : m = stateTokenBase e.state
      · rw [if_pos h2] at h
        exact ⟨e, by simp, (Option.some.inj h).symm, Or.inr h2⟩
      · rw [if_neg h2] at h
        obtain ⟨e', he', ht, hm⟩ := ih t h
        exact ⟨e', by simp [he'], ht, hm⟩

theorem tokScan_none (m : Nat) (tok : Bytes) : ∀ (l : List TokEnt), tokScan m tok l = none →
    ∀ e, e ∈ l → tok ≠ e.appTok ∧ m ≠ stateTokenBase e.state := by
  intro l
  induction l with
  | nil => intro _ e he; simp at he
  | cons e es ih =>
    intro h e' he'
    unfold tokScan at h
    by_cases h1 : tok = e.appTok
    · rw [if_pos h1] at h; cases h
    · rw [if_neg h1] at h
      by_cases h2 : m = stateTokenBase e.state
      · rw [if_pos h2] at h; cases h
      · rw [if_neg h2] at h
        rcases List.mem_cons.mp he' with he' | he'
        · subst he'; exact ⟨h1, h2⟩
        · exact ih h e' he'

/-- a token that is the wire token of some entry of the list (and nobody's application token) is found, wherever the
entry sits -/
theorem tokScan_finds (m : Nat) (tok : Bytes) (l : List TokEnt) (e : TokEnt) (he : e ∈ l) (hm : m = stateTokenBase e.state) :
    ∃ t, tokScan m tok l = some t := by
  cases h : tokScan m tok l with
  | some t => exact ⟨t, rfl⟩
  | none => exact absurd hm (tokScan_none m tok l h e he).2

end Coap.Block
