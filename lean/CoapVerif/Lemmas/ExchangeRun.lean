import CoapVerif.Lemmas.Exchange
/-
Helper lemmas for C07: whole runs of the client (`Client.run`) under D1 ("one exchange outstanding per session": the
application sends a Confirmable request only when the message layer is idle).  The message layer is then always
`Idle` or `Wt n` (the request waiting for its ACK), nothing is ever held back on the delay queue, and the ACK / RST
datagrams and the handler calls of the WHOLE run are functions of the received datagrams alone.
-/
namespace Coap.Exch

/-- the layer under D1: idle, or exactly the Confirmable request waiting for its ACK -/
def LOk (L : Layer) : Prop := L = Idle ∨ ∃ n, L = Wt n ∧ n.d.type = .con

/-- an event is admissible in state `c` under D1: whatever arrives arrives (ANY datagram), time passes at will, the
    application sends requests — a Non-confirmable one at any time, a Confirmable one only when the layer is idle -/
def EvD1 (c : Client) : CEvent → Prop
  | .appSend _ d _ => isRequest d.code = true ∧ (d.type = .non ∨ (d.type = .con ∧ c.L = Idle))
  | _ => True

def RunD1 : Client → List CEvent → Prop
  | _, [] => True
  | c, e :: es => EvD1 c e ∧ RunD1 (c.step e).1 es

/-- message ids for which the received datagrams of a run oblige the client to send an ACK or a RST: every
    Confirmable response (duplicate or not), and every Non-confirmable response the handler FAILed -/
def owed : List CEvent → List Nat
  | [] => []
  | .rx _ d ok :: es =>
    (if isResponse d.code = true ∧ (d.type = .con ∨ (d.type = .non ∧ ok = false)) then [d.mid] else []) ++ owed es
  | _ :: es => owed es

/-- message ids of the ACK / RST datagrams in an output list, in order of transmission -/
def replies : List Out → List Nat
  | [] => []
  | .tx d :: o => (if d.type = .ack ∨ d.type = .rst then [d.mid] else []) ++ replies o
  | _ :: o => replies o

/-- handler calls in an output list, in order -/
def handlerCalls : List Out → List (Dgram × Bool)
  | [] => []
  | .callResponse d ok :: o => (d, ok) :: handlerCalls o
  | _ :: o => handlerCalls o

/-- the handler calls that the single-slot duplicate filter (`last_con_mid`, `last_ack_mid`) lets through, as a
    function of the received datagrams alone: a CON response unless its mid is that of the previous CON response, a
    piggybacked response unless its mid is that of the previous piggybacked response, every NON response -/
def expectedCalls (lc la : Option Nat) : List CEvent → List (Dgram × Bool)
  | [] => []
  | .rx _ d ok :: es =>
    if isResponse d.code = true then
      match d.type with
      | .con => if lc = some d.mid then expectedCalls lc la es else (d, ok) :: expectedCalls (some d.mid) la es
      | .ack => if la = some d.mid then expectedCalls lc la es else (d, ok) :: expectedCalls lc (some d.mid) es
      | .non => (d, ok) :: expectedCalls lc la es
      | .rst => expectedCalls lc la es
    else expectedCalls lc la es
  | _ :: es => expectedCalls lc la es

/-- the content of `last_con_mid` after a run, as a function of the received datagrams alone -/
def lastConAfter (lc : Option Nat) : List CEvent → Option Nat
  | [] => lc
  | .rx _ d _ :: es => lastConAfter (if isResponse d.code = true ∧ d.type = .con then some d.mid else lc) es
  | _ :: es => lastConAfter lc es

/-- the content of `last_ack_mid` after a run -/
def lastAckAfter (la : Option Nat) : List CEvent → Option Nat
  | [] => la
  | .rx _ d _ :: es => lastAckAfter (if isResponse d.code = true ∧ d.type = .ack then some d.mid else la) es
  | _ :: es => lastAckAfter la es

/-! ### list lemmas -/

theorem replies_append (a b : List Out) : replies (a ++ b) = replies a ++ replies b := by
  induction a with
  | nil => rfl
  | cons x a ih => cases x <;> simp [replies, ih]

theorem handlerCalls_append (a b : List Out) : handlerCalls (a ++ b) = handlerCalls a ++ handlerCalls b := by
  induction a with
  | nil => rfl
  | cons x a ih => cases x <;> simp [handlerCalls, ih]

theorem owed_cons (e : CEvent) (es : List CEvent) : owed (e :: es) = owed [e] ++ owed es := by
  cases e <;> simp [owed]

theorem owed_append (es1 es2 : List CEvent) : owed (es1 ++ es2) = owed es1 ++ owed es2 := by
  induction es1 with
  | nil => rfl
  | cons e es ih =>
    rw [List.cons_append, owed_cons, ih, owed_cons e es, List.append_assoc]

theorem lastConAfter_cons (lc : Option Nat) (e : CEvent) (es : List CEvent) :
    lastConAfter lc (e :: es) = lastConAfter (lastConAfter lc [e]) es := by
  cases e <;> rfl

theorem lastAckAfter_cons (la : Option Nat) (e : CEvent) (es : List CEvent) :
    lastAckAfter la (e :: es) = lastAckAfter (lastAckAfter la [e]) es := by
  cases e <;> rfl

theorem expectedCalls_cons (lc la : Option Nat) (e : CEvent) (es : List CEvent) :
    expectedCalls lc la (e :: es) =
      expectedCalls lc la [e] ++ expectedCalls (lastConAfter lc [e]) (lastAckAfter la [e]) es := by
  cases e with
  | appSend now d T => simp [expectedCalls, lastConAfter, lastAckAfter]
  | tick now => simp [expectedCalls, lastConAfter, lastAckAfter]
  | rx now d ok =>
    by_cases hr : isResponse d.code = true
    · cases hty : d.type
      · by_cases hl : lc = some d.mid <;> simp [expectedCalls, lastConAfter, lastAckAfter, hr, hty, hl]
      · simp [expectedCalls, lastConAfter, lastAckAfter, hr, hty]
      · by_cases hl : la = some d.mid <;> simp [expectedCalls, lastConAfter, lastAckAfter, hr, hty, hl]
      · simp [expectedCalls, lastConAfter, lastAckAfter, hr, hty]
    · simp [expectedCalls, lastConAfter, lastAckAfter, hr]

/-! ### `Client.run` -/

theorem Client.run_cons (c : Client) (e : CEvent) (es : List CEvent) :
    Client.run c (e :: es) =
      ((Client.run (c.step e).1 es).1, (c.step e).2 ++ (Client.run (c.step e).1 es).2) := rfl

theorem Client.run_append (c : Client) (es1 es2 : List CEvent) :
    Client.run c (es1 ++ es2) =
      ((Client.run (Client.run c es1).1 es2).1, (Client.run c es1).2 ++ (Client.run (Client.run c es1).1 es2).2) := by
  induction es1 generalizing c with
  | nil => simp [Client.run]
  | cons e es ih =>
    rw [List.cons_append, Client.run_cons, ih, Client.run_cons]
    simp [List.append_assoc]

theorem RunD1_append (es1 es2 : List CEvent) (c : Client) :
    RunD1 c (es1 ++ es2) ↔ RunD1 c es1 ∧ RunD1 (Client.run c es1).1 es2 := by
  induction es1 generalizing c with
  | nil => simp [RunD1, Client.run]
  | cons e es ih =>
    rw [List.cons_append, Client.run_cons]
    simp only [RunD1, ih, and_assoc]

/-! ### one step under D1 -/

/-- what `step_D1` states about the result `r` of one step from `c` on event `e` -/
def StepOk (c : Client) (e : CEvent) (r : Client × List Out) : Prop :=
  LOk r.1.L ∧
  replies r.2 = owed [e] ∧
  handlerCalls r.2 = expectedCalls c.lastCon c.lastAck [e] ∧
  r.1.lastCon = lastConAfter c.lastCon [e] ∧
  r.1.lastAck = lastAckAfter c.lastAck [e]

theorem LOk_Idle : LOk Idle := Or.inl rfl
theorem LOk_Wt (n : Node) (h : n.d.type = .con) : LOk (Wt n) := Or.inr ⟨n, rfl, h⟩

namespace Layer

theorem cancelAll_Wt_ne (now : Nat) (tok : Bytes) (n : Node) (ht : n.d.token ≠ tok) :
    cancelAll now tok (Wt n) = (Wt n, []) := by
  simp [cancelAll, cancelByToken, Wt, ht]

theorem cancelAll_LOk (now : Nat) (tok : Bytes) (L : Layer) (hL : LOk L) :
    ∃ L1, LOk L1 ∧ cancelAll now tok L = (L1, []) := by
  rcases hL with rfl | ⟨n, rfl, hc⟩
  · exact ⟨Idle, LOk_Idle, cancelAll_Idle now tok⟩
  · by_cases ht : n.d.token = tok
    · exact ⟨Idle, LOk_Idle, cancelAll_Wt now tok n ht hc⟩
    · exact ⟨Wt n, LOk_Wt n hc, cancelAll_Wt_ne now tok n ht⟩

/-- the retransmission loop on a waiting Confirmable: the node stays (same PDU) or the layer goes idle; only
    retransmissions of the request and NACKs come out — no ACK / RST, no handler call -/
theorem tick_Wt_quiet (now : Nat) :
    ∀ (fuel : Nat) (n : Node), n.d.type = .con →
      LOk (tick now fuel (Wt n)).1 ∧ replies (tick now fuel (Wt n)).2 = [] ∧
      handlerCalls (tick now fuel (Wt n)).2 = [] := by
  intro fuel
  induction fuel with
  | zero => intro n hc; exact ⟨by simpa [tick] using LOk_Wt n hc, by simp [tick, replies], by simp [tick, handlerCalls]⟩
  | succ f ih =>
    intro n hc
    by_cases hdue : n.due ≤ now
    · by_cases hcnt : n.cnt < maxRetransmit
      · have hret : retransmit { sendq := [], delayq := [], conActive := 1 } now n =
            (Wt { n with cnt := n.cnt + 1, due := now + n.timeout * 2 ^ (n.cnt + 1) }, [Out.tx n.d]) := by
          simp [retransmit, hcnt, insertNode, hc, nstart, Wt]
        have hstep : tick now (f + 1) (Wt n) =
            ((tick now f (Wt { n with cnt := n.cnt + 1, due := now + n.timeout * 2 ^ (n.cnt + 1) })).1,
             Out.tx n.d :: (tick now f (Wt { n with cnt := n.cnt + 1, due := now + n.timeout * 2 ^ (n.cnt + 1) })).2) := by
          conv => lhs; unfold tick
          simp only [Wt, hdue, if_true]
          rw [show ({ sendq := [], delayq := [], conActive := 1 } : Layer) = { sendq := [], delayq := [], conActive := 1 } from rfl]
          simp [hret, Wt]
        rw [hstep]
        obtain ⟨a1, a2, a3⟩ := ih { n with cnt := n.cnt + 1, due := now + n.timeout * 2 ^ (n.cnt + 1) } hc
        exact ⟨a1, by simp [replies, hc, a2], by simp [handlerCalls, a3]⟩
      · have hret : retransmit { sendq := [], delayq := [], conActive := 1 } now n =
            (Idle, [Out.callNack .retries n.d.mid]) := by
          simp [retransmit, hcnt, release_Wt_removed, hc]
        have hstep : tick now (f + 1) (Wt n) = (Idle, [Out.callNack .retries n.d.mid]) := by
          conv => lhs; unfold tick
          simp [Wt, hdue, hret, tick_Idle]
        rw [hstep]
        exact ⟨LOk_Idle, by simp [replies], by simp [handlerCalls]⟩
    · have hstep : tick now (f + 1) (Wt n) = (Wt n, []) := by simp [tick, Wt, hdue]
      rw [hstep]
      exact ⟨LOk_Wt n hc, by simp [replies], by simp [handlerCalls]⟩

theorem tickAll_LOk (now : Nat) (L : Layer) (hL : LOk L) :
    LOk (tickAll now L).1 ∧ replies (tickAll now L).2 = [] ∧ handlerCalls (tickAll now L).2 = [] := by
  rcases hL with rfl | ⟨n, rfl, hc⟩
  · unfold tickAll
    rw [tick_Idle]
    exact ⟨LOk_Idle, rfl, rfl⟩
  · exact tick_Wt_quiet now _ n hc

end Layer

theorem tick_D1 (c : Client) (now : Nat) (hL : LOk c.L) : StepOk c (.tick now) (c.tick now) := by
  obtain ⟨h1, h2, h3⟩ := Layer.tickAll_LOk now c.L hL
  exact ⟨h1, by simpa [owed, Client.tick] using h2, by simpa [expectedCalls, Client.tick] using h3, rfl, rfl⟩

theorem appSend_D1 (c : Client) (now : Nat) (d : Dgram) (T : Nat) (hL : LOk c.L)
    (he : EvD1 c (.appSend now d T)) : StepOk c (.appSend now d T) (c.appSend now d T) := by
  obtain ⟨_, hd | ⟨hd, hI⟩⟩ := he
  · have : c.appSend now d T = (c, [Out.tx d]) := by
      simp [Client.appSend, Layer.send, hd]
    rw [this]
    exact ⟨hL, by simp [replies, owed, hd], by simp [handlerCalls, expectedCalls], rfl, rfl⟩
  · rw [appSend_Idle c now d T hI hd]
    exact ⟨LOk_Wt _ hd, by simp [replies, owed, hd], by simp [handlerCalls, expectedCalls], rfl, rfl⟩

theorem hr_non_eq (c : Client) (now : Nat) (d : Dgram) (ok : Bool) (L1 : Layer)
    (h : Layer.cancelAll now d.token c.L = (L1, [])) (hd : d.type = .non) :
    c.handleResponse now d ok =
      ({ c with L := L1, lastResOk := ok }, Out.callResponse d ok :: (if ok then [] else rstFor d)) := by
  unfold Client.handleResponse
  rw [h]
  cases ok <;> simp [hd, ackFor]

/-- a datagram the client does not model (or ignores): no state change -/
theorem unmodelled_D1 (c : Client) (now : Nat) (d : Dgram) (ok : Bool) (hL : LOk c.L)
    (hr : isResponse d.code = false) : StepOk c (.rx now d ok) (c, [Out.unmodelled]) :=
  ⟨hL, by simp [replies, owed, hr], by simp [handlerCalls, expectedCalls, hr],
   by simp [lastConAfter, hr], by simp [lastAckAfter, hr]⟩

theorem rx_con_D1 (c : Client) (now : Nat) (d : Dgram) (ok : Bool) (hL : LOk c.L)
    (hty : d.type = .con) (hr : isResponse d.code = true) : StepOk c (.rx now d ok) (c.rx now d ok) := by
  have hcc := isResponse_codeClassOk hr
  obtain ⟨L1, hL1, hca⟩ := Layer.cancelAll_LOk now d.token c.L hL
  have hrx : c.rx now d ok = c.handleResponse now d ok := by
    unfold Client.rx
    simp [hcc, hty, hr]
  rw [hrx, hr_con_eq c now d ok L1 hca hty]
  by_cases hdup : c.lastCon = some d.mid
  · cases hro : c.lastResOk <;>
      simp [StepOk, hdup, hL1, replies, handlerCalls, owed, expectedCalls, lastConAfter, lastAckAfter, hr, hty,
        ackFor, rstFor]
  · cases ok <;>
      simp [StepOk, hdup, hL1, replies, handlerCalls, owed, expectedCalls, lastConAfter, lastAckAfter, hr, hty,
        ackFor, rstFor]

theorem rx_non_D1 (c : Client) (now : Nat) (d : Dgram) (ok : Bool) (hL : LOk c.L)
    (hty : d.type = .non) (hr : isResponse d.code = true) : StepOk c (.rx now d ok) (c.rx now d ok) := by
  have hcc := isResponse_codeClassOk hr
  obtain ⟨L1, hL1, hca⟩ := Layer.cancelAll_LOk now d.token c.L hL
  have hrx : c.rx now d ok = c.handleResponse now d ok := by
    unfold Client.rx
    simp [hcc, hty, hr]
  rw [hrx, hr_non_eq c now d ok L1 hca hty]
  cases ok <;>
    simp [StepOk, hL1, replies, handlerCalls, owed, expectedCalls, lastConAfter, lastAckAfter, hr, hty, rstFor]

/-- the send-queue lookup of an ACK / RST under D1: the layer afterwards is again `Idle` / `Wt`, nothing is
    transmitted, and the node found (if any) is the waiting request -/
theorem lookup_LOk (L : Layer) (hL : LOk L) (now mid : Nat) :
    ∃ sent q L1, Layer.removeByMid mid L.sendq = (sent, q) ∧
      (if sent.isSome = true then Layer.release now { L with sendq := q } else ({ L with sendq := q }, [])) = (L1, []) ∧
      LOk L1 := by
  rcases hL with rfl | ⟨n, rfl, hc⟩
  · exact ⟨none, [], Idle, by simp [Idle, Layer.removeByMid], by simp [Idle], LOk_Idle⟩
  · by_cases hm : n.d.mid = mid
    · exact ⟨some n, [], Idle, by simp [Wt, Layer.removeByMid, hm], by simp [Wt, Layer.release_Wt_removed], LOk_Idle⟩
    · exact ⟨none, [n], Wt n, by simp [Wt, Layer.removeByMid, hm], by simp [Wt], LOk_Wt n hc⟩

theorem rx_rst_D1 (c : Client) (now : Nat) (d : Dgram) (ok : Bool) (hL : LOk c.L)
    (hcc : codeClassOk d.code = true) (hty : d.type = .rst) : StepOk c (.rx now d ok) (c.rx now d ok) := by
  obtain ⟨sent, q, L1, h1, h2, hL1⟩ := lookup_LOk c.L hL now d.mid
  have hrx : c.rx now d ok = ({ c with L := L1 },
      match sent with
      | some n => if n.d.type = .con then [Out.callNack .rst n.d.mid] else []
      | none => [Out.callNack .rst d.mid]) := by
    unfold Client.rx
    simp only [hcc, hty, h1, h2]
    cases sent <;> simp
  rw [hrx]
  refine ⟨hL1, ?_, ?_, by simp [lastConAfter, hty], by simp [lastAckAfter, hty]⟩
  · cases sent with
    | none => simp [replies, owed, hty]
    | some n => by_cases hn : n.d.type = .con <;> simp [replies, owed, hty, hn]
  · cases sent with
    | none => by_cases hr : isResponse d.code = true <;> simp [handlerCalls, expectedCalls, hty, hr]
    | some n =>
      by_cases hn : n.d.type = .con <;> by_cases hr : isResponse d.code = true <;>
        simp [handlerCalls, expectedCalls, hty, hn, hr]

theorem rx_ack_D1 (c : Client) (now : Nat) (d : Dgram) (ok : Bool) (hL : LOk c.L)
    (hcc : codeClassOk d.code = true) (hty : d.type = .ack) : StepOk c (.rx now d ok) (c.rx now d ok) := by
  obtain ⟨sent, q, L1, h1, h2, hL1⟩ := lookup_LOk c.L hL now d.mid
  by_cases hr : isResponse d.code = true
  · have hne := isResponse_not_empty hr
    have hnr := isResponse_not_request hr
    have hrx : c.rx now d ok = Client.handleResponse { c with L := L1 } now d ok := by
      unfold Client.rx
      simp only [hcc, hty, h1, h2, hne, hnr, hr]
      simp
    rw [hrx, hr_ack_eq _ now d ok hty]
    by_cases hdup : c.lastAck = some d.mid <;>
      simp [StepOk, hdup, hL1, replies, handlerCalls, owed, expectedCalls, lastConAfter, lastAckAfter, hr, hty]
  · have hr' : isResponse d.code = false := by simpa using hr
    by_cases hem : isEmpty d.code = true
    · have hrx : c.rx now d ok = ({ c with L := L1 }, []) := by
        unfold Client.rx
        simp only [hcc, hty, h1, h2, hem]
        simp
      rw [hrx]
      exact ⟨hL1, by simp [replies, owed, hr'], by simp [handlerCalls, expectedCalls, hr'],
        by simp [lastConAfter, hr'], by simp [lastAckAfter, hr']⟩
    · by_cases hrq : isRequest d.code = true
      · have hrx : c.rx now d ok = ({ c with L := L1 },
            match sent with | some n => [Out.callNack .bad n.d.mid] | none => []) := by
          unfold Client.rx
          simp only [hcc, hty, h1, h2, hem, hrq]
          cases sent <;> simp
        rw [hrx]
        refine ⟨hL1, ?_, ?_, by simp [lastConAfter, hr'], by simp [lastAckAfter, hr']⟩
        · cases sent <;> simp [replies, owed, hr']
        · cases sent <;> simp [handlerCalls, expectedCalls, hr']
      · have hrx : c.rx now d ok = (c, [Out.unmodelled]) := by
          unfold Client.rx
          simp only [hcc, hty, h1, h2, hem, hrq, hr']
          simp
        rw [hrx]
        exact unmodelled_D1 c now d ok hL hr'

theorem rx_D1 (c : Client) (now : Nat) (d : Dgram) (ok : Bool) (hL : LOk c.L) :
    StepOk c (.rx now d ok) (c.rx now d ok) := by
  by_cases hcc : codeClassOk d.code = true
  · cases hty : d.type with
    | ack => exact rx_ack_D1 c now d ok hL hcc hty
    | rst => exact rx_rst_D1 c now d ok hL hcc hty
    | con =>
      by_cases hr : isResponse d.code = true
      · exact rx_con_D1 c now d ok hL hty hr
      · have hr' : isResponse d.code = false := by simpa using hr
        have hrx : c.rx now d ok = (c, [Out.unmodelled]) := by
          unfold Client.rx
          simp [hcc, hty, hr']
        rw [hrx]
        exact unmodelled_D1 c now d ok hL hr'
    | non =>
      by_cases hr : isResponse d.code = true
      · exact rx_non_D1 c now d ok hL hty hr
      · have hr' : isResponse d.code = false := by simpa using hr
        have hrx : c.rx now d ok = (c, [Out.unmodelled]) := by
          unfold Client.rx
          simp [hcc, hty, hr']
        rw [hrx]
        exact unmodelled_D1 c now d ok hL hr'
  · have hr' : isResponse d.code = false := by
      cases h : isResponse d.code with
      | false => rfl
      | true => exact absurd (isResponse_codeClassOk h) hcc
    have hrx : c.rx now d ok = (c, [Out.unmodelled]) := by
      unfold Client.rx
      simp [hcc]
    rw [hrx]
    exact unmodelled_D1 c now d ok hL hr'

/-- one step under D1: the layer stays `Idle`/`Wt`, and the ACK/RST datagrams, the handler calls and the two
    duplicate-filter slots after the step are the functions of the received datagram given above -/
theorem step_D1 (c : Client) (e : CEvent) (hL : LOk c.L) (he : EvD1 c e) :
    LOk (c.step e).1.L ∧
    replies (c.step e).2 = owed [e] ∧
    handlerCalls (c.step e).2 = expectedCalls c.lastCon c.lastAck [e] ∧
    (c.step e).1.lastCon = lastConAfter c.lastCon [e] ∧
    (c.step e).1.lastAck = lastAckAfter c.lastAck [e] := by
  cases e with
  | appSend now d T => exact appSend_D1 c now d T hL he
  | rx now d ok => exact rx_D1 c now d ok hL
  | tick now => exact tick_D1 c now hL

/-! ### whole runs under D1 -/

theorem run_D1 (es : List CEvent) (c : Client) (hL : LOk c.L) (h : RunD1 c es) :
    LOk (Client.run c es).1.L ∧
    replies (Client.run c es).2 = owed es ∧
    handlerCalls (Client.run c es).2 = expectedCalls c.lastCon c.lastAck es ∧
    (Client.run c es).1.lastCon = lastConAfter c.lastCon es ∧
    (Client.run c es).1.lastAck = lastAckAfter c.lastAck es := by
  induction es generalizing c with
  | nil => exact ⟨hL, rfl, rfl, rfl, rfl⟩
  | cons e es ih =>
    obtain ⟨he, hrest⟩ := h
    obtain ⟨s1, s2, s3, s4, s5⟩ := step_D1 c e hL he
    obtain ⟨r1, r2, r3, r4, r5⟩ := ih (c.step e).1 s1 hrest
    rw [Client.run_cons]
    refine ⟨r1, ?_, ?_, ?_, ?_⟩
    · rw [replies_append, s2, r2, owed_cons e es]
    · rw [handlerCalls_append, s3, r3, s4, s5, expectedCalls_cons _ _ e es]
    · rw [r4, s4, lastConAfter_cons _ e es]
    · rw [r5, s5, lastAckAfter_cons _ e es]

theorem run_LOk (es : List CEvent) (c : Client) (hL : LOk c.L) (h : RunD1 c es) : LOk (Client.run c es).1.L :=
  (run_D1 es c hL h).1

/-- every ACK / RST of the whole run is owed, every owed one is sent, in order -/
theorem run_replies (es : List CEvent) (c : Client) (hL : LOk c.L) (h : RunD1 c es) :
    replies (Client.run c es).2 = owed es :=
  (run_D1 es c hL h).2.1

theorem run_handlerCalls (es : List CEvent) (c : Client) (hL : LOk c.L) (h : RunD1 c es) :
    handlerCalls (Client.run c es).2 = expectedCalls c.lastCon c.lastAck es :=
  (run_D1 es c hL h).2.2.1

theorem run_lastCon (es : List CEvent) (c : Client) (hL : LOk c.L) (h : RunD1 c es) :
    (Client.run c es).1.lastCon = lastConAfter c.lastCon es :=
  (run_D1 es c hL h).2.2.2.1

theorem run_lastAck (es : List CEvent) (c : Client) (hL : LOk c.L) (h : RunD1 c es) :
    (Client.run c es).1.lastAck = lastAckAfter c.lastAck es :=
  (run_D1 es c hL h).2.2.2.2

/-! ### the single-slot filter never lets the same message through twice in a row -/

/-- message ids of the handler calls that carry a message of type `ty`, in order -/
def callMids (ty : MType) : List (Dgram × Bool) → List Nat
  | [] => []
  | (d, _) :: r => if d.type = ty then d.mid :: callMids ty r else callMids ty r

/-- no element equals its predecessor; `prev` is the predecessor of the head (the content of the filter slot) -/
def noRepeat : Option Nat → List Nat → Prop
  | _, [] => True
  | prev, m :: ms => prev ≠ some m ∧ noRepeat (some m) ms

instance decNoRepeat : (prev : Option Nat) → (l : List Nat) → Decidable (noRepeat prev l)
  | _, [] => isTrue trivial
  | prev, m :: ms => @instDecidableAnd (prev ≠ some m) (noRepeat (some m) ms) inferInstance (decNoRepeat (some m) ms)

/-- among the calls the filter lets through, two successive ACK-typed ones never carry the same message id, and the
    first differs from the slot's initial content -/
theorem expectedCalls_ack_noRepeat (es : List CEvent) :
    ∀ lc la, noRepeat la (callMids .ack (expectedCalls lc la es)) := by
  induction es with
  | nil => intro lc la; simp [expectedCalls, callMids, noRepeat]
  | cons e es ih =>
    intro lc la
    cases e with
    | appSend now d T => simpa [expectedCalls] using ih lc la
    | tick now => simpa [expectedCalls] using ih lc la
    | rx now d ok =>
      by_cases hr : isResponse d.code = true
      · cases hty : d.type with
        | con =>
          by_cases hl : lc = some d.mid
          · simpa [expectedCalls, hr, hty, hl] using ih (some d.mid) la
          · simpa [expectedCalls, hr, hty, hl, callMids] using ih (some d.mid) la
        | non => simpa [expectedCalls, hr, hty, callMids] using ih lc la
        | ack =>
          by_cases hl : la = some d.mid
          · simpa [expectedCalls, hr, hty, hl] using ih lc (some d.mid)
          · simp only [expectedCalls, hr, hty, hl, if_true, if_false, callMids, noRepeat]
            exact ⟨hl, ih lc (some d.mid)⟩
        | rst => simpa [expectedCalls, hr, hty] using ih lc la
      · simpa [expectedCalls, hr] using ih lc la

/-- the same for Confirmable responses and `last_con_mid` -/
theorem expectedCalls_con_noRepeat (es : List CEvent) :
    ∀ lc la, noRepeat lc (callMids .con (expectedCalls lc la es)) := by
  induction es with
  | nil => intro lc la; simp [expectedCalls, callMids, noRepeat]
  | cons e es ih =>
    intro lc la
    cases e with
    | appSend now d T => simpa [expectedCalls] using ih lc la
    | tick now => simpa [expectedCalls] using ih lc la
    | rx now d ok =>
      by_cases hr : isResponse d.code = true
      · cases hty : d.type with
        | con =>
          by_cases hl : lc = some d.mid
          · simpa [expectedCalls, hr, hty, hl] using ih (some d.mid) la
          · simp only [expectedCalls, hr, hty, hl, if_true, if_false, callMids, noRepeat]
            exact ⟨hl, ih (some d.mid) la⟩
        | non => simpa [expectedCalls, hr, hty, callMids] using ih lc la
        | ack =>
          by_cases hl : la = some d.mid
          · simpa [expectedCalls, hr, hty, hl] using ih lc (some d.mid)
          · simpa [expectedCalls, hr, hty, hl, callMids] using ih lc (some d.mid)
        | rst => simpa [expectedCalls, hr, hty] using ih lc la
      · simpa [expectedCalls, hr] using ih lc la

/-! ### a concrete run -/

instance (c : Client) : (e : CEvent) → Decidable (EvD1 c e)
  | .appSend _ d _ =>
    inferInstanceAs (Decidable (isRequest d.code = true ∧ (d.type = .non ∨ (d.type = .con ∧ c.L = Idle))))
  | .rx _ _ _ => isTrue trivial
  | .tick _ => isTrue trivial

instance decRunD1 : (c : Client) → (es : List CEvent) → Decidable (RunD1 c es)
  | _, [] => isTrue trivial
  | c, e :: es => @instDecidableAnd (EvD1 c e) (RunD1 (c.step e).1 es) inferInstance (decRunD1 (c.step e).1 es)

/-- a Confirmable request is sent (and retransmitted once by the tick at 3100: not an ACK / RST); its separate CON
    response (mid 50) arrives, then — after another timer tick — a duplicate
    of it, then a different CON response (mid 51) that the handler FAILs, then a NON response (mid 52, verdict OK):
    the run is admissible under D1, the client acknowledges 50 twice (the duplicate is re-acknowledged), resets 51,
    owes nothing for the NON, and the handler is called three times (not for the duplicate) -/
example :
    let req : Dgram := { type := .con, code := 1, mid := 1, token := [7] }
    let r1 : Dgram := { type := .con, code := 69, mid := 50, token := [7] }
    let r2 : Dgram := { type := .con, code := 69, mid := 51, token := [7] }
    let r3 : Dgram := { type := .non, code := 69, mid := 52, token := [9] }
    let es : List CEvent :=
      [.appSend 1000 req 2000, .tick 3100, .rx 3200 r1 true, .tick 3300, .rx 3400 r1 true, .rx 3500 r2 false,
       .rx 3600 r3 true]
    RunD1 {} es ∧
    replies (Client.run {} es).2 = [50, 50, 51] ∧
    owed es = [50, 50, 51] ∧
    handlerCalls (Client.run {} es).2 = [(r1, true), (r2, false), (r3, true)] ∧
    (handlerCalls (Client.run {} es).2).length = 3 ∧
    (Client.run {} es).2.head? = some (Out.tx req) ∧ (Client.run {} es).2[1]? = some (Out.tx req) ∧
    (Client.run {} es).1.L = Idle := by
  decide

end Coap.Exch
