import CoapVerif.Model.PskSelect
import CoapVerif.Spec.TlsCreds
/- C19 helper lemmas: the SNI cache of the server context only ever holds what the application's callback answers -/
namespace Coap.PskSelect
open Coap

/-- the server half of a credential configuration of S, as libcoap's coap_dtls_spsk_t -/
def toSrv (cfg : TlsCreds.Cfg) : SrvCfg := { defKey := cfg.sk, defHint := cfg.sh, idTab := cfg.st, sniTab := cfg.ss }

theorem lookup2_eq (k : String) (t : List (String × String)) : lookup2 k t = TlsCreds.lookup2 k t := by
  induction t with
  | nil => rfl
  | cons a t ih => obtain ⟨x, y⟩ := a; simp [lookup2, TlsCreds.lookup2, ih]

theorem lookup3_eq (k : String) (t : List (String × String × String)) : lookup3 k t = TlsCreds.lookup3 k t := by
  induction t with
  | nil => rfl
  | cons a t ih => obtain ⟨x, y, z⟩ := a; simp [lookup3, TlsCreds.lookup3, ih]

/-- every cached entry is what the callback answers for its name -/
def CacheOk (tab : List (String × String × String)) (cache : Cache) : Prop :=
  ∀ e ∈ cache, lookup3 e.name tab = some (e.hint, e.key)

theorem sniIndex_le (name : String) (c : Cache) : sniIndex name c ≤ c.length := by
  induction c with
  | nil => simp [sniIndex]
  | cons e t ih => unfold sniIndex; split <;> simp <;> omega

/-- the loop stops inside the list only at an entry for that name -/
theorem sniIndex_get (name : String) (c : Cache) (h : sniIndex name c ≠ c.length) :
    ∃ e, c[sniIndex name c]? = some e ∧ e.name = name ∧ e ∈ c := by
  induction c with
  | nil => simp [sniIndex] at h
  | cons e t ih =>
    unfold sniIndex at h ⊢
    by_cases he : e.name = name
    · simp only [he, if_true]
      exact ⟨e, by simp, he, by simp⟩
    · simp only [he, if_false] at h ⊢
      have h' : sniIndex name t ≠ t.length := by simpa using h
      obtain ⟨x, hx, hn, hm⟩ := ih h'
      exact ⟨x, by simpa using hx, hn, by simp [hm]⟩

/-- post_client_hello_gnutls_psk with an SNI callback: the cache stays consistent, and the session gets exactly the key
and hint the callback answers for that name — whether the name was cached or not -/
theorem postClientHello_spec (cfg : SrvCfg) (tab : List (String × String × String)) (hs : cfg.sniTab = some tab)
    (cache : Cache) (hok : CacheOk tab cache) (sp : SessPsk) (name : String) :
    CacheOk tab (postClientHello cfg cache sp name).1 ∧
      (match lookup3 name tab with
       | none => (postClientHello cfg cache sp name).2.2 = false
       | some (h, k) => (postClientHello cfg cache sp name).2.2 = true ∧
                        (postClientHello cfg cache sp name).2.1 = { key := some k, hint := some h }) := by
  unfold postClientHello
  simp only [hs]
  by_cases hi : sniIndex name cache = cache.length
  · simp only [hi, if_true]
    cases hl : lookup3 name tab with
    | none => exact ⟨hok, rfl⟩
    | some hk =>
      obtain ⟨h, k⟩ := hk
      simp only [List.getElem?_append_right (Nat.le_refl _), Nat.sub_self, List.getElem?_cons_zero]
      refine ⟨?_, by simp⟩
      intro e he
      simp only [List.mem_append, List.mem_singleton] at he
      rcases he with he | rfl
      · exact hok e he
      · exact hl
  · simp only [hi, if_false]
    obtain ⟨e, hget, hn, hm⟩ := sniIndex_get name cache hi
    have hle := hok e hm
    rw [hn] at hle
    simp only [hget, hle]
    exact ⟨hok, by simp⟩

theorem postClientHello_noTab (cfg : SrvCfg) (hs : cfg.sniTab = none) (cache : Cache) (sp : SessPsk) (name : String) :
    postClientHello cfg cache sp name = (cache, sp, true) := by
  unfold postClientHello
  simp [hs]

/-- an empty key authenticates nobody: S's reading of a key the callbacks hand over with length 0 -/
def normKey : Option String → Option String
  | none => none
  | some k => if k = "" then none else some k

/-- the consistency condition on the cache of a server configured by `cfg` -/
def CfgCacheOk (cfg : TlsCreds.Cfg) (cache : Cache) : Prop := ∀ tab, cfg.ss = some tab → CacheOk tab cache

/-- ONE handshake, from any consistent cache: the key libcoap hands the TLS library is the key S says the server holds for
that server name and identity; the cache stays consistent -/
theorem handshakeKey_spec (cfg : TlsCreds.Cfg) (cache : Cache) (hok : CfgCacheOk cfg cache) (name id : String) :
    CfgCacheOk cfg (handshakeKey (toSrv cfg) cache name id).1 ∧
      normKey (handshakeKey (toSrv cfg) cache name id).2 = TlsCreds.serverKey cfg name id := by
  unfold handshakeKey
  cases hss : cfg.ss with
  | none =>
    have h1 := postClientHello_noTab (toSrv cfg) (by simp [toSrv, hss]) cache {} name
    simp only [h1, if_true]
    refine ⟨hok, ?_⟩
    unfold pskServerCallback sessionServerKey TlsCreds.serverKey TlsCreds.served
    cases hst : cfg.st with
    | none =>
      by_cases hk : cfg.sk = "" <;> simp [toSrv, hss, hst, hk, normKey]
    | some t2 =>
      simp only [toSrv, hss, hst, lookup2_eq]
      cases TlsCreds.lookup2 id t2 <;> simp [normKey]
  | some tab =>
    have h1 := postClientHello_spec (toSrv cfg) tab (by simp [toSrv, hss]) cache (hok tab hss) {} name
    generalize postClientHello (toSrv cfg) cache {} name = r at h1
    obtain ⟨c', sp, ok⟩ := r
    obtain ⟨h1a, h1b⟩ := h1
    have hok' : CfgCacheOk cfg c' := by
      intro t ht; rw [hss] at ht; cases ht; exact h1a
    unfold TlsCreds.serverKey TlsCreds.served
    simp only [hss, ← lookup3_eq]
    cases hl : lookup3 name tab with
    | none =>
      simp only [hl] at h1b
      have h1b' : ok = false := h1b
      subst h1b'
      exact ⟨hok', rfl⟩
    | some hk =>
      obtain ⟨h, k⟩ := hk
      simp only [hl] at h1b
      obtain ⟨hb1, hb2⟩ := h1b
      have hb1' : ok = true := hb1
      have hb2' : sp = { key := some k, hint := some h } := hb2
      subst hb1'; subst hb2'
      simp only [if_true]
      refine ⟨hok', ?_⟩
      unfold pskServerCallback sessionServerKey
      cases hst : cfg.st with
      | none => simp [toSrv, hst, normKey]
      | some t2 =>
        simp only [toSrv, hst, lookup2_eq]
        cases TlsCreds.lookup2 id t2 <;> simp [normKey]

/-- a ClientHello that never reaches the key exchange keeps the cache consistent as well -/
theorem postClientHello_cacheOk (cfg : TlsCreds.Cfg) (cache : Cache) (hok : CfgCacheOk cfg cache) (sp : SessPsk) (name : String) :
    CfgCacheOk cfg (postClientHello (toSrv cfg) cache sp name).1 := by
  cases hss : cfg.ss with
  | none => rw [postClientHello_noTab (toSrv cfg) (by simp [toSrv, hss])]; exact hok
  | some tab =>
    intro t ht
    rw [hss] at ht; cases ht
    exact (postClientHello_spec (toSrv cfg) tab (by simp [toSrv, hss]) cache (hok tab hss) sp name).1

theorem runHist_cacheOk (cfg : TlsCreds.Cfg) (hist : List (String × Option String)) (cache : Cache)
    (hok : CfgCacheOk cfg cache) : CfgCacheOk cfg (runHist (toSrv cfg) cache hist) := by
  induction hist generalizing cache with
  | nil => exact hok
  | cons a t ih =>
    obtain ⟨name, id⟩ := a
    cases id with
    | none => exact ih _ (postClientHello_cacheOk cfg cache hok {} name)
    | some i => exact ih _ (handshakeKey_spec cfg cache hok name i).1

end Coap.PskSelect
