import CoapVerif.Lemmas.Block
/- Helper lemmas for C09 Layer B (receiver side): the SINGLE_BODY Block1 receive automaton srcvStep. Core Lean only. -/
set_option linter.unusedSimpArgs false
set_option linter.unusedVariables false
namespace Coap.Block
open Coap.Spec.Block

theorem recvLoop_spec (cap : Nat) : ∀ (cnt : Nat) (rs : Ranges) (n : Nat) (upd : Bool) (rs' : Ranges) (upd' : Bool),
    WfFrom 0 rs → rs.length ≤ cap - 1 → recvLoop cap cnt rs n upd = some (rs', upd') →
    WfFrom 0 rs' ∧ rs'.length ≤ cap - 1 ∧ (∀ k, Covers rs' k ↔ (Covers rs k ∨ (n ≤ k ∧ k < n + cnt))) ∧
    (upd' = false → rs' = rs) := by
  intro cnt
  induction cnt with
  | zero =>
    intro rs n upd rs' upd' hw hl h
    simp only [recvLoop] at h
    cases h
    refine ⟨hw, hl, ?_, fun _ => rfl⟩
    intro k; constructor
    · intro h; exact Or.inl h
    · intro h; rcases h with h | h
      · exact h
      · omega
  | succ cnt ih =>
    intro rs n upd rs' upd' hw hl h
    simp only [recvLoop] at h
    by_cases hc : checkIfReceived rs n = true
    · rw [if_pos hc] at h
      obtain ⟨a, b, c, d⟩ := ih rs (n + 1) upd rs' upd' hw hl h
      refine ⟨a, b, ?_, d⟩
      intro k
      rw [c k]
      have hn : Covers rs n := (checkIfReceived_iff rs 0 n hw).mp hc
      constructor
      · intro h; rcases h with h | h
        · exact Or.inl h
        · exact Or.inr (by omega)
      · intro h; rcases h with h | h
        · exact Or.inl h
        · by_cases hk : k = n
          · subst hk; exact Or.inl hn
          · exact Or.inr (by omega)
    · rw [if_neg hc] at h
      have hs := updateReceived_spec cap rs n hw hl
      cases hu : updateReceived cap rs n with
      | mk ok r =>
        rw [hu] at h hs
        cases ok with
        | false => simp at h
        | true =>
          simp only at h
          obtain ⟨x, y, z⟩ := hs.2 rfl
          obtain ⟨a, b, c, d⟩ := ih r (n + 1) true rs' upd' x y h
          refine ⟨a, b, ?_, ?_⟩
          · intro k
            rw [c k, z k]
            constructor
            · intro h; rcases h with (h | h) | h
              · exact Or.inl h
              · exact Or.inr (by omega)
              · exact Or.inr (by omega)
            · intro h; rcases h with h | h
              · exact Or.inl (Or.inl h)
              · by_cases hk : k = n
                · exact Or.inl (Or.inr hk)
                · exact Or.inr (by omega)
          · intro hf
            -- the flag can only stay false if no insertion happened
            exfalso
            have : ∀ (cnt : Nat) (rs : Ranges) (n : Nat) (rs' : Ranges), recvLoop cap cnt rs n true = some (rs', false) → False := by
              intro cnt
              induction cnt with
              | zero => intro rs n rs' h; simp [recvLoop] at h
              | succ cnt ih2 =>
                intro rs n rs' h
                simp only [recvLoop] at h
                split at h
                · exact ih2 _ _ _ h
                · split at h
                  · cases h
                  · exact ih2 _ _ _ h
            subst hf
            exact this _ _ _ _ h


/-- `coap_block_build_body` with the receiver's running total: the result has length `tl'`, holds `data` at `off`,
and keeps every other byte below the old length -/
theorem buildBody_spec (junk : UInt8) (buf : Option Bytes) (data : Bytes) (off tl tl' : Nat)
    (hd : 0 < data.length) (hbuf : ∀ b, buf = some b → b.length = tl)
    (htl : tl' = if tl < off + data.length then off + data.length else tl) :
    ∃ b', buildBody junk buf data off tl' = some b' ∧ b'.length = tl' ∧
      (∀ i, off ≤ i → i < off + data.length → b'[i]? = data[i - off]?) ∧
      (∀ b, buf = some b → ∀ i, i < tl → ¬ (off ≤ i ∧ i < off + data.length) → b'[i]? = b[i]?) := by
  have ht : tl ≤ tl' ∧ off + data.length ≤ tl' ∧ (tl' = tl ∨ tl' = off + data.length) := by
    by_cases hh : tl < off + data.length
    · rw [if_pos hh] at htl; omega
    · rw [if_neg hh] at htl; omega
  obtain ⟨t1, t2, t3⟩ := ht
  have key : ∃ b0 : Bytes, buildBody junk buf data off tl' = some (memcpyAt b0 off data) ∧ b0.length = tl' ∧
      (∀ b, buf = some b → ∀ i, i < b.length → b0[i]? = b[i]?) := by
    unfold buildBody
    cases buf with
    | none =>
      have hne : tl' ≠ 0 := by omega
      simp only [hne, ne_eq, not_false_eq_true, if_true]
      refine ⟨List.replicate tl' junk, ?_, by simp, by intro b hb; cases hb⟩
      have : off + data.length ≤ tl' ∧ (List.replicate tl' junk).length ≥ tl' := by simp; omega
      rw [if_pos this]
    | some b =>
      have l1 := hbuf b rfl
      simp only
      by_cases hc : off + data.length ≤ tl' ∧ b.length ≥ tl'
      · rw [if_pos hc]
        exact ⟨b, rfl, by omega, by intro b' hb' i hi; cases hb'; rfl⟩
      · rw [if_neg hc]
        have hnl : ¬ (off + data.length < b.length) := by omega
        simp only [if_neg hnl]
        refine ⟨resizeBin junk b (off + data.length), rfl, ?_, ?_⟩
        · rw [resizeBin_length]; omega
        · intro b' hb' i hi
          cases hb'
          exact resizeBin_get junk b _ i hi (by omega)
  obtain ⟨b0, hb0, hlen0, hold⟩ := key
  have hfit : off + data.length ≤ b0.length := by omega
  refine ⟨memcpyAt b0 off data, hb0, by rw [memcpyAt_length _ _ _ hfit]; exact hlen0, ?_, ?_⟩
  · intro i h1 h2
    rw [memcpyAt_get _ _ _ hfit, if_pos ⟨h1, h2⟩]
  · intro b hb i hi hw
    rw [memcpyAt_get _ _ _ hfit, if_neg hw]
    have := hbuf b hb
    exact hold b hb i (by omega)

/-- The receiver state is consistent with the sender's body: the ranges are well formed, every covered block (in the
tracked units) lies inside the body, every byte of a covered block is below `total_len` and holds the sender's byte. -/
structure SrcvInv (cap : Nat) (body : Bytes) (s : Srcv) : Prop where
  wf : WfFrom 0 s.recv
  cnt : s.recv.length ≤ cap - 1
  tl : s.totalLen ≤ body.length
  inRange : ∀ k, Covers s.recv k → k * chunkSize s.szx < body.length
  below : ∀ k, Covers s.recv k → ∀ i, k * chunkSize s.szx ≤ i → i < k * chunkSize s.szx + chunkSize s.szx →
      i < body.length → i < s.totalLen
  buf : match s.body with
        | none => s.recv = []
        | some b => b.length = s.totalLen ∧
            ∀ k, Covers s.recv k → ∀ i, k * chunkSize s.szx ≤ i → i < k * chunkSize s.szx + chunkSize s.szx →
              i < body.length → b[i]? = body[i]?
  nms : s.noMoreSeen = true → s.totalLen = body.length
  szxle : s.szx ≤ 6

theorem chunk_le (szx : Nat) (h : szx ≤ 6) : chunkSize szx ≤ 1024 := by
  unfold chunkSize
  have : 2 ^ (szx + 4) ≤ 2 ^ 10 := Nat.pow_le_pow_right (by decide) (by omega)
  omega

/-- the block count of fix 8abfc44 is the rounded-up quotient -/
theorem totalBlocks_eq (tl c : Nat) (hc : 0 < c) : totalBlocks tl c = (tl + c - 1) / c := by
  unfold totalBlocks
  have hdm := Nat.div_add_mod tl c
  have hml := Nat.mod_lt tl hc
  have e : tl + c - 1 = c * (tl / c) + (tl % c + c - 1) := by omega
  rw [e, Nat.mul_add_div hc]
  congr 1
  by_cases h0 : tl % c ≠ 0
  · rw [if_pos h0]
    exact (Nat.div_eq_of_lt_le (by omega) (by omega)).symm
  · rw [if_neg h0]
    have : tl % c = 0 := by omega
    rw [this]
    exact (Nat.div_eq_of_lt (by omega)).symm

theorem srcvDecide_spec (cap : Nat) (body : Bytes) (lg1 : Srcv) (m : Nat) (st' : Option Srcv) (out : SrcvOut)
    (hinv : SrcvInv cap body lg1) (hne : lg1.recv ≠ []) (hm : m ≠ 1 → lg1.totalLen = body.length)
    (hlen : body.length < 2 ^ 31)
    (h : srcvDecide lg1 m (2 ^ (lg1.szx + 4)) = (st', out)) :
    (∀ s', st' = some s' → SrcvInv cap body s') ∧
    (∀ b l, out = SrcvOut.deliver b l → b = body ∧ l = body.length ∧ st' = none) := by
  have hc := chunk_pos lg1.szx
  have hc1024 := chunk_le lg1.szx hinv.szxle
  have hcs : 2 ^ (lg1.szx + 4) = chunkSize lg1.szx := rfl
  rw [hcs] at h
  -- if the total is complete and everything is in, the buffer is the body
  have hdeliver : lg1.totalLen = body.length →
      checkAllBlocksIn lg1.recv (totalBlocks lg1.totalLen (chunkSize lg1.szx)) = true →
      srcvGive lg1 = SrcvOut.deliver body body.length := by
    intro htl hall
    unfold srcvGive
    rw [totalBlocks_eq _ _ hc, htl] at hall
    have hT : (body.length + chunkSize lg1.szx - 1) / chunkSize lg1.szx = nBlocks body.length lg1.szx := rfl
    rw [hT] at hall
    have hcov := (checkAllBlocksIn_iff lg1.recv _ hinv.wf hne
      (fun k hk => (lt_nBlocks_iff body.length lg1.szx k).mpr (hinv.inRange k hk))).mp hall
    have hbuf := hinv.buf
    cases hb : lg1.body with
    | none => rw [hb] at hbuf; exact (hne hbuf).elim
    | some b =>
      rw [hb] at hbuf
      simp only at hbuf
      obtain ⟨l1, l2⟩ := hbuf
      simp only
      rw [htl]
      congr 1
      apply List.ext_getElem?
      intro i
      by_cases hi : i < body.length
      · have hdm := Nat.div_add_mod i (chunkSize lg1.szx)
        have hml := Nat.mod_lt i hc
        rw [Nat.mul_comm] at hdm
        have hk : i / chunkSize lg1.szx < nBlocks body.length lg1.szx :=
          (lt_nBlocks_iff body.length lg1.szx _).mpr (by omega)
        exact l2 _ (hcov _ hk) i (by omega) (by omega) hi
      · have h1 : b[i]? = none := by rw [List.getElem?_eq_none_iff]; omega
        have h2 : body[i]? = none := by rw [List.getElem?_eq_none_iff]; omega
        rw [h1, h2]
  unfold srcvDecide at h
  dsimp only at h
  by_cases hm1 : m = 1
  · rw [if_pos hm1] at h
    by_cases hcont : ¬ lg1.noMoreSeen = true ∨
        ¬ checkAllBlocksIn lg1.recv (totalBlocks lg1.totalLen (chunkSize lg1.szx)) = true
    · rw [if_pos hcont] at h
      cases h
      exact ⟨fun s' hs => by cases hs; exact hinv, fun b l hb => by cases hb⟩
    · rw [if_neg hcont] at h
      cases h
      have h1 : lg1.noMoreSeen = true := by
        cases hx : lg1.noMoreSeen with
        | true => rfl
        | false => exact (hcont (Or.inl (by rw [hx]; decide))).elim
      have h2 : checkAllBlocksIn lg1.recv (totalBlocks lg1.totalLen (chunkSize lg1.szx)) = true := by
        cases hx : checkAllBlocksIn lg1.recv (totalBlocks lg1.totalLen (chunkSize lg1.szx)) with
        | true => rfl
        | false => exact (hcont (Or.inr (by rw [hx]; decide))).elim
      have htl := hinv.nms h1
      refine ⟨(fun s' hs => by cases hs), fun b l hb => ?_⟩
      rw [hdeliver htl h2] at hb
      cases hb
      exact ⟨rfl, rfl, rfl⟩
  · rw [if_neg hm1] at h
    have htl := hm hm1
    by_cases hall : ¬ checkAllBlocksIn lg1.recv (totalBlocks lg1.totalLen (chunkSize lg1.szx)) = true
    · rw [if_pos hall] at h
      cases h
      refine ⟨fun s' hs => ?_, fun b l hb => by cases hb⟩
      cases hs
      exact { wf := hinv.wf, cnt := hinv.cnt, tl := hinv.tl, inRange := hinv.inRange, below := hinv.below,
              buf := hinv.buf, nms := fun _ => htl, szxle := hinv.szxle }
    · rw [if_neg hall] at h
      cases h
      have h2 : checkAllBlocksIn lg1.recv (totalBlocks lg1.totalLen (chunkSize lg1.szx)) = true := by
        cases hx : checkAllBlocksIn lg1.recv (totalBlocks lg1.totalLen (chunkSize lg1.szx)) with
        | true => rfl
        | false => exact (hall (by rw [hx]; decide)).elim
      refine ⟨(fun s' hs => by cases hs), fun b l hb => ?_⟩
      rw [hdeliver htl h2] at hb
      cases hb
      exact ⟨rfl, rfl, rfl⟩


theorem window_facts (C n cnt D q len off : Nat) (hC : 0 < C) (hoff : off = n * C) (hD1 : 0 < D)
    (hF1 : (cnt - 1) * C < D) (hF2 : D ≤ cnt * C) (hD : D = min (q * C) (len - off)) (hofflt : off < len)
    (k : Nat) (hk1 : n ≤ k) (hk2 : k < n + cnt) :
    k * C < len ∧ off ≤ k * C ∧ (∀ i, i < k * C + C → i < len → i < off + D) := by
  have hcnt : 1 ≤ cnt := by omega
  have e1 : k * C = n * C + (k - n) * C := by rw [← Nat.add_mul]; congr 1; omega
  have e2 : cnt * C = (cnt - 1) * C + C := by
    have : cnt = (cnt - 1) + 1 := by omega
    rw [this, Nat.succ_mul]; simp
  have e3 : (k - n) * C ≤ (cnt - 1) * C := Nat.mul_le_mul_right _ (by omega)
  have e4 : D = q * C → cnt * C ≤ q * C := by
    intro hq
    rw [hq] at hF1
    have : cnt - 1 < q := Nat.lt_of_mul_lt_mul_right hF1
    exact Nat.mul_le_mul_right _ (by omega)
  refine ⟨by omega, by omega, ?_⟩
  intro i hi hil
  by_cases hq : D = q * C
  · have := e4 hq; omega
  · omega

theorem take_drop_get (body : Bytes) (off w i : Nat) (h1 : off ≤ i) (h2 : i < off + ((body.drop off).take w).length) :
    ((body.drop off).take w)[i - off]? = body[i]? := by
  have hl : ((body.drop off).take w).length = min w (body.length - off) := by simp
  rw [List.getElem?_take, List.getElem?_drop]
  have : i - off < w := by omega
  rw [if_pos this]
  congr 1
  omega

theorem srcvCore_spec (cap : Nat) (junk : UInt8) (body : Bytes) (lg : Srcv) (n m q : Nat) (data : Bytes) (offset : Nat)
    (st' : Option Srcv) (out : SrcvOut)
    (hinv : SrcvInv cap body lg) (hoff : offset = n * chunkSize lg.szx) (hofflt : offset < body.length)
    (hq : 1 ≤ q) (hdata : data = (body.drop offset).take (q * chunkSize lg.szx))
    (hm : m ≠ 1 → offset + data.length = body.length) (hlen : body.length < 2 ^ 31)
    (h : srcvCore cap junk lg n lg.szx m data offset = (st', out)) :
    (∀ s', st' = some s' → SrcvInv cap body s') ∧
    (∀ b l, out = SrcvOut.deliver b l → b = body ∧ l = body.length ∧ st' = none) := by
  have hc := chunk_pos lg.szx
  have hcs : 2 ^ (lg.szx + 4) = chunkSize lg.szx := rfl
  have hD : data.length = min (q * chunkSize lg.szx) (body.length - offset) := by rw [hdata]; simp
  have hqc : chunkSize lg.szx ≤ q * chunkSize lg.szx := Nat.le_mul_of_pos_left _ hq
  have hD1 : 0 < data.length := by omega
  have hcnt : (data.length + chunkSize lg.szx - 1) / chunkSize lg.szx = nBlocks data.length lg.szx := rfl
  have hnb : 0 < nBlocks data.length lg.szx := (lt_nBlocks_iff data.length lg.szx 0).mpr (by omega)
  have hF1 : (nBlocks data.length lg.szx - 1) * chunkSize lg.szx < data.length :=
    (lt_nBlocks_iff data.length lg.szx _).mp (by omega)
  have hF2 := nBlocks_mul_ge data.length lg.szx
  have hwin := window_facts (chunkSize lg.szx) n (nBlocks data.length lg.szx) data.length q body.length offset hc hoff hD1
    hF1 hF2 hD hofflt
  unfold srcvCore at h
  dsimp only at h
  rw [hcs, hcnt] at h
  -- a genuine block passes the last-block test of fix cb35487
  have hguard : ¬ ((data.length % chunkSize lg.szx ≠ 0 ∧ offset + data.length < lg.totalLen) ∨
      (lg.noMoreSeen = true ∧ offset + data.length > lg.totalLen)) := by
    intro hg
    have htl := hinv.tl
    rcases hg with ⟨g1, g2⟩ | ⟨g1, g2⟩
    · by_cases hfull : data.length = q * chunkSize lg.szx
      · rw [hfull, Nat.mul_mod_left] at g1
        exact g1 rfl
      · omega
    · have := hinv.nms g1
      omega
  rw [if_neg hguard] at h
  cases hloop : recvLoop cap (nBlocks data.length lg.szx) lg.recv n false with
  | none =>
    rw [hloop] at h
    cases h
    exact ⟨(fun s' hs => by cases hs), (fun b l hb => by cases hb)⟩
  | some res =>
    obtain ⟨rec', updated⟩ := res
    rw [hloop] at h
    dsimp only at h
    obtain ⟨w1, w2, w3, w4⟩ := recvLoop_spec cap _ lg.recv n false rec' updated hinv.wf hinv.cnt hloop
    have hne : rec' ≠ [] := by
      intro he
      have : Covers rec' n := (w3 n).mpr (Or.inr ⟨Nat.le_refl _, by omega⟩)
      rw [he] at this
      exact (covers_nil n).mp this
    cases updated with
    | false =>
      have hrec := w4 rfl
      subst hrec
      simp only [Bool.false_eq_true, if_false] at h
      -- every block of the window was already there, so the bytes (and the total) are too
      have hm' : m ≠ 1 → lg.totalLen = body.length := by
        intro hm1
        have hend := hm hm1
        have hk : Covers lg.recv (n + (nBlocks data.length lg.szx - 1)) :=
          (w3 _).mpr (Or.inr ⟨by omega, by omega⟩)
        obtain ⟨f1, f2, f3⟩ := hwin (n + (nBlocks data.length lg.szx - 1)) (by omega) (by omega)
        have e1 : (n + (nBlocks data.length lg.szx - 1)) * chunkSize lg.szx =
            n * chunkSize lg.szx + (nBlocks data.length lg.szx - 1) * chunkSize lg.szx := Nat.add_mul _ _ _
        have e2 : nBlocks data.length lg.szx * chunkSize lg.szx =
            (nBlocks data.length lg.szx - 1) * chunkSize lg.szx + chunkSize lg.szx := by
          have : nBlocks data.length lg.szx = (nBlocks data.length lg.szx - 1) + 1 := by omega
          rw [this, Nat.succ_mul]; simp
        have := hinv.below _ hk (body.length - 1) (by omega) (by omega) (by omega)
        have := hinv.tl
        omega
      exact srcvDecide_spec cap body lg m st' out hinv hne hm' hlen (by rw [hcs]; exact h)
    | true =>
      simp only [if_true] at h
      generalize htl : (if lg.totalLen < offset + data.length then offset + data.length else lg.totalLen) = tl' at h
      have hbufl : ∀ b, lg.body = some b → b.length = lg.totalLen := by
        intro b hb
        have := hinv.buf
        rw [hb] at this
        exact this.1
      obtain ⟨b', hb1, hb2, hb3, hb4⟩ := buildBody_spec junk lg.body data offset lg.totalLen tl' hD1 hbufl htl.symm
      rw [hb1] at h
      dsimp only at h
      have ht : lg.totalLen ≤ tl' ∧ offset + data.length ≤ tl' ∧ tl' ≤ body.length := by
        have := hinv.tl
        by_cases hh : lg.totalLen < offset + data.length
        · rw [if_pos hh] at htl; omega
        · rw [if_neg hh] at htl; omega
      obtain ⟨t1, t2, t3⟩ := ht
      have hinv1 : SrcvInv cap body { lg with recv := rec', totalLen := tl', body := some b' } := by
        refine { wf := w1, cnt := w2, tl := t3, inRange := ?_, below := ?_, buf := ?_, nms := ?_, szxle := hinv.szxle }
        · intro k hk
          dsimp only at hk ⊢
          rcases (w3 k).mp hk with hk | hk
          · exact hinv.inRange k hk
          · exact (hwin k hk.1 hk.2).1
        · intro k hk i hi1 hi2 hi3
          dsimp only at hk hi1 hi2 ⊢
          rcases (w3 k).mp hk with hk | hk
          · have := hinv.below k hk i hi1 hi2 hi3
            show i < tl'
            omega
          · have := (hwin k hk.1 hk.2).2.2 i hi2 hi3
            show i < tl'
            omega
        · refine ⟨hb2, ?_⟩
          intro k hk i hi1 hi2 hi3
          dsimp only at hk hi1 hi2 ⊢
          by_cases hw : offset ≤ i ∧ i < offset + data.length
          · rw [hb3 i hw.1 hw.2, hdata]
            exact take_drop_get body offset _ i hw.1 (by rw [← hdata]; exact hw.2)
          · rcases (w3 k).mp hk with hk | hk
            · cases hbody : lg.body with
              | none =>
                have := hinv.buf
                rw [hbody] at this
                simp only at this
                rw [this] at hk
                exact ((covers_nil k).mp hk).elim
              | some b =>
                have hb := hinv.buf
                rw [hbody] at hb
                simp only at hb
                have hlt := hinv.below k hk i hi1 hi2 hi3
                rw [hb4 b hbody i hlt hw]
                exact hb.2 k hk i hi1 hi2 hi3
            · obtain ⟨f1, f2, f3⟩ := hwin k hk.1 hk.2
              exact (hw ⟨by omega, f3 i hi2 hi3⟩).elim
        · intro hn
          have := hinv.nms hn
          show tl' = body.length
          omega
      have hm' : m ≠ 1 → tl' = body.length := by
        intro hm1
        have := hm hm1
        omega
      exact srcvDecide_spec cap body _ m st' out hinv1 hne hm' hlen (by rw [hcs]; exact h)


/-- a Block1 request datagram as the receiver sees it -/
structure Dgram where
  num : Nat
  m : Nat
  szx : Nat
  payload : Bytes
  size1 : Option Nat

/-- the datagram carries the sender's slice for its NUM/SZX with the right More bit, does not use a smaller block size
than the one the receiver tracks the body in, and an announced size is at most the true one -/
def Genuine (body : Bytes) (st : Option Srcv) (d : Dgram) : Prop :=
  d.szx ≤ 6 ∧ d.num < nBlocks body.length d.szx ∧ d.payload = slice body d.szx d.num ∧
  d.m = more body.length d.szx d.num ∧ (∀ s, st = some s → s.szx ≤ d.szx) ∧
  (∀ t, d.size1 = some t → t ≤ body.length)

theorem srcvStep_spec (cap : Nat) (junk : UInt8) (maxBlk : Nat) (body : Bytes) (st : Option Srcv) (d : Dgram)
    (st' : Option Srcv) (out : SrcvOut)
    (hst : ∀ s, st = some s → SrcvInv cap body s) (hg : Genuine body st d) (hlen : body.length < 2 ^ 31)
    (h : srcvStep cap junk maxBlk st d.num d.m d.szx d.payload d.size1 = (st', out)) :
    (∀ s', st' = some s' → SrcvInv cap body s') ∧
    (∀ b l, out = SrcvOut.deliver b l → b = body ∧ l = body.length ∧ (¬ (d.num = 0 ∧ d.m = 0) → st' = none)) := by
  obtain ⟨g1, g2, g3, g4, g5, g6⟩ := hg
  have hc0 := chunk_pos d.szx
  have hcs0 : 2 ^ (d.szx + 4) = chunkSize d.szx := rfl
  have hoff := (lt_nBlocks_iff body.length d.szx d.num).mp g2
  have hpl : d.payload.length = min (chunkSize d.szx) (body.length - d.num * chunkSize d.szx) := by
    rw [g3]; exact slice_length body d.szx d.num
  have hnext := lt_nBlocks_iff body.length d.szx (d.num + 1)
  rw [Nat.succ_mul] at hnext
  unfold srcvStep at h
  dsimp only at h
  rw [hcs0] at h
  have hdata : (if d.payload.length > chunkSize d.szx then d.payload.take (chunkSize d.szx) else d.payload) = d.payload := by
    rw [if_neg (by omega)]
  rw [hdata] at h
  by_cases hsingle : d.num = 0 ∧ d.m = 0
  · rw [if_pos hsingle] at h
    cases h
    refine ⟨hst, ?_⟩
    intro b l hb
    cases hb
    have hm0 : more body.length d.szx d.num = 0 := by rw [← g4]; exact hsingle.2
    unfold more at hm0
    have hnl : ¬ (d.num + 1 < nBlocks body.length d.szx) := by
      intro hh; rw [if_pos hh] at hm0; cases hm0
    have hle : body.length ≤ chunkSize d.szx := by
      have : ¬ (d.num * chunkSize d.szx + chunkSize d.szx < body.length) := fun hh => hnl (hnext.mpr hh)
      rw [hsingle.1] at this
      omega
    have hb : d.payload = body := by
      rw [g3, hsingle.1]
      unfold slice
      simp only [Nat.zero_mul, List.drop_zero]
      exact List.take_of_length_le hle
    refine ⟨hb, by rw [hb], fun hn => (hn hsingle).elim⟩
  · rw [if_neg hsingle] at h
    have hmm : d.m = 1 ∨ d.m = 0 := by
      rw [g4]; unfold more; split <;> simp
    have hfull : d.m = 1 → d.payload.length = chunkSize d.szx := by
      intro hm1
      have : more body.length d.szx d.num = 1 := by rw [← g4]; exact hm1
      unfold more at this
      have hlt : d.num + 1 < nBlocks body.length d.szx := by
        apply Classical.byContradiction; intro hh; rw [if_neg hh] at this; cases this
      have := hnext.mp hlt
      omega
    have hund : ¬ (¬ (d.payload.length > chunkSize d.szx) ∧ d.m = 1 ∧ d.payload.length ≠ chunkSize d.szx) := by
      intro hh; exact hh.2.2 (hfull hh.2.1)
    rw [if_neg hund] at h
    have hend : d.m ≠ 1 → d.num * chunkSize d.szx + d.payload.length = body.length := by
      intro hm1
      have hm0 : more body.length d.szx d.num = 0 := by rw [← g4]; omega
      unfold more at hm0
      have hnl : ¬ (d.num + 1 < nBlocks body.length d.szx) := by
        intro hh; rw [if_pos hh] at hm0; cases hm0
      have : ¬ (d.num * chunkSize d.szx + chunkSize d.szx < body.length) := fun hh => hnl (hnext.mpr hh)
      omega
    -- the lg_srcv the block is processed against
    generalize hlg : srcvLocate maxBlk st d.num d.szx d.size1 = lg at h
    unfold srcvLocate at hlg
    unfold srcvConv at h
    rw [hcs0] at h
    have hlginv : SrcvInv cap body lg ∧ lg.szx ≤ d.szx := by
      cases st with
      | some s => simp only at hlg; subst hlg; exact ⟨hst s rfl, g5 s rfl⟩
      | none =>
        simp only at hlg
        subst hlg
        refine ⟨{ wf := trivial, cnt := Nat.zero_le _, tl := ?_, inRange := ?_, below := ?_, buf := rfl,
                  nms := (by intro hh; cases hh), szxle := ?_ }, ?_⟩
        · dsimp only
          cases hs : d.size1 with
          | none => exact Nat.zero_le _
          | some t => exact g6 t hs
        · intro k hk; exact ((covers_nil k).mp hk).elim
        · intro k hk; exact ((covers_nil k).mp hk).elim
        · dsimp only; split <;> omega
        · dsimp only; split <;> omega
    obtain ⟨hinv, hszx⟩ := hlginv
    have hpow : chunkSize d.szx = 2 ^ (d.szx - lg.szx) * chunkSize lg.szx := by
      unfold chunkSize
      rw [← Nat.pow_add]
      congr 1
      omega
    have hq : 1 ≤ 2 ^ (d.szx - lg.szx) := Nat.two_pow_pos _
    have hoffeq : d.num * chunkSize d.szx = d.num * 2 ^ (d.szx - lg.szx) * chunkSize lg.szx := by
      rw [hpow, Nat.mul_assoc]
    have hdat : d.payload = (body.drop (d.num * chunkSize d.szx)).take (2 ^ (d.szx - lg.szx) * chunkSize lg.szx) := by
      rw [g3, ← hpow]; rfl
    have key : ∀ (hcore : srcvCore cap junk lg (d.num * 2 ^ (d.szx - lg.szx)) lg.szx d.m d.payload
        (d.num * chunkSize d.szx) = (st', out)),
        (∀ s', st' = some s' → SrcvInv cap body s') ∧
        (∀ b l, out = SrcvOut.deliver b l → b = body ∧ l = body.length ∧ (¬ (d.num = 0 ∧ d.m = 0) → st' = none)) := by
      intro hcore
      obtain ⟨r1, r2⟩ := srcvCore_spec cap junk body lg _ d.m _ d.payload _ st' out hinv hoffeq hoff hq hdat hend hlen hcore
      refine ⟨r1, fun b l hb => ?_⟩
      obtain ⟨x, y, z⟩ := r2 b l hb
      exact ⟨x, y, fun _ => z⟩
    by_cases hbig : d.szx > lg.szx
    · rw [if_pos hbig] at h
      have hcl := chunk_pos lg.szx
      have hnw : (d.num * 2 ^ (d.szx - lg.szx)) % 2 ^ 32 = d.num * 2 ^ (d.szx - lg.szx) := by
        apply Nat.mod_eq_of_lt
        have : d.num * 2 ^ (d.szx - lg.szx) ≤ d.num * 2 ^ (d.szx - lg.szx) * chunkSize lg.szx :=
          Nat.le_mul_of_pos_right _ hcl
        omega
      rw [hnw] at h
      exact key h
    · rw [if_neg hbig] at h
      rw [if_neg (by omega : ¬ d.szx < lg.szx)] at h
      have he : d.szx = lg.szx := by omega
      have h0 : d.num * 2 ^ (d.szx - lg.szx) = d.num := by rw [he]; simp
      rw [h0] at key
      rw [he] at h
      rw [he] at key
      exact key h


/-- outputs of the receiver over a sequence of datagrams -/
def runSrcv (cap : Nat) (junk : UInt8) (maxBlk : Nat) : Option Srcv → List Dgram → List SrcvOut
  | _, [] => []
  | st, d :: ds =>
    (srcvStep cap junk maxBlk st d.num d.m d.szx d.payload d.size1).2 ::
      runSrcv cap junk maxBlk (srcvStep cap junk maxBlk st d.num d.m d.szx d.payload d.size1).1 ds

/-- every datagram of the sequence is genuine with respect to the state it meets -/
def Admissible (cap : Nat) (junk : UInt8) (maxBlk : Nat) (body : Bytes) : Option Srcv → List Dgram → Prop
  | _, [] => True
  | st, d :: ds =>
    Genuine body st d ∧
      Admissible cap junk maxBlk body (srcvStep cap junk maxBlk st d.num d.m d.szx d.payload d.size1).1 ds

theorem runSrcv_sound (cap : Nat) (junk : UInt8) (maxBlk : Nat) (body : Bytes) (hlen : body.length < 2 ^ 31) :
    ∀ (ds : List Dgram) (st : Option Srcv), (∀ s, st = some s → SrcvInv cap body s) →
      Admissible cap junk maxBlk body st ds →
      ∀ o, o ∈ runSrcv cap junk maxBlk st ds → ∀ b l, o = SrcvOut.deliver b l → b = body ∧ l = body.length
  | [], _, _, _, o, ho, _, _, _ => by simp [runSrcv] at ho
  | d :: ds, st, hst, hadm, o, ho, b, l, hb => by
    obtain ⟨hg, hrest⟩ := hadm
    have hspec := srcvStep_spec cap junk maxBlk body st d _ _ hst hg hlen rfl
    unfold runSrcv at ho
    rw [List.mem_cons] at ho
    rcases ho with ho | ho
    · obtain ⟨x, y, _⟩ := hspec.2 b l (ho ▸ hb)
      exact ⟨x, y⟩
    · exact runSrcv_sound cap junk maxBlk body hlen ds _ hspec.1 hrest o ho b l hb

end Coap.Block
