import CoapVerif.Lemmas.Encode
import CoapVerif.Model.Build
/-
The abstraction used by the M-side theorems of C01 / C04: the PDU that represents an abstract
message.  Every field of `M.Pdu` other than type / code / mid / max_size is a function of the
abstract (token, options, payload), so "M refines S" is stated as an equation between PDUs:

    M.op (conc maxSize a) args = R.ok (rc, conc maxSize a')       with a' = a (refused) or a' = S.op a args
-/
namespace Coap
open Coap.M

/-- highest option number of a list in ascending order = number of its last element (`pdu->max_opt`) -/
def lastNum (os : List (Nat × Bytes)) : Nat := (os.getLast?.map (·.1)).getD 0

/-- the PDU that represents the abstract message `a` with capacity `maxSize` -/
def conc (maxSize : Nat) (a : Msg) : Pdu :=
  { type := a.type, code := a.code, mid := a.mid, maxSize := maxSize,
    buf := Spec.encToken a.token ++ (Spec.encOpts 0 a.opts ++ Spec.encPayload a.payload),
    etl := (Spec.extBytes a.token.length).length + a.token.length,
    tokLen := a.token.length,
    maxOpt := lastNum a.opts,
    data := if a.payload = [] then none
            else some ((Spec.extBytes a.token.length).length + a.token.length + (Spec.encOpts 0 a.opts).length + 1) }

/-- the invariant on abstract messages that the builders maintain (no per-option RFC length limits
here: the API does not enforce them; they are a hypothesis on the caller wherever the decoder is involved) -/
def Shape (a : Msg) : Prop :=
  a.token.length ≤ 65804 ∧ a.opts.Pairwise (fun x y => x.1 ≤ y.1) ∧
  ∀ o ∈ a.opts, o.1 ≤ 65535 ∧ o.2.length ≤ 65804

/-- does the capacity admit `n` more bytes? (`coap_pdu_check_resize(pdu, used_size + n)`) -/
def fits (maxSize : Nat) (a : Msg) (n : Nat) : Prop :=
  maxSize = 0 ∨ (conc maxSize a).buf.length + n ≤ maxSize

end Coap
