import CoapVerif.Model.BlockAdl
import CoapVerif.Lemmas.BlockXmit
/-! Lemmas for Model/BlockAdl.lean: the release-callback ledger of a session over calls of
coap_add_data_large_request / _response that supersede a transfer still in progress (round S09). -/

namespace Coap.Block

/-! ## the exits agree with `adlRel` (and through `adlRel_spec` with `addDataLarge`) -/

theorem adlExitFinish_rel (maxSize tokOpts rem : Nat) (lg : Option Nat) :
    (adlExitFinish maxSize tokOpts rem lg).rel = adlRelFinish maxSize tokOpts rem lg.isSome := by
  unfold adlExitFinish adlRelFinish
  by_cases hc : rem ≠ 0 ∧ tokOpts + 1 + rem > maxSize
  · rw [if_pos hc, if_pos hc]; cases lg <;> rfl
  · rw [if_neg hc, if_neg hc]; cases lg <;> rfl

theorem adlExitLgTail_rel (maxSize tokLen base d b2 length extra : Nat) (sb : BlockB) :
    (adlExitLgTail maxSize tokLen base d b2 length extra sb).rel = adlRelLgTail maxSize tokLen base d b2 length extra sb := by
  unfold adlExitLgTail adlRelLgTail
  simp only
  split
  · split
    · rfl
    · exact adlExitFinish_rel _ _ _ _
  · exact adlExitFinish_rel _ _ _ _

theorem adlExitBody_rel (maxSize tokLen base d tokOpts0 b2 length extra : Nat) (blk : Option Nat) (isReq : Bool) :
    (adlExitBody maxSize tokLen base d tokOpts0 b2 length extra blk isReq 0).rel =
      adlRelBody maxSize tokLen base d tokOpts0 b2 length extra blk := by
  unfold adlExitBody adlRelBody
  simp only
  split
  · rfl
  · split
    · have h1 : ¬ (0 = 1) := by decide
      have h2 : ¬ (0 = 2 ∧ isReq = true) := by intro h; exact absurd h.1 (by decide)
      have h3 : ¬ (0 = 3) := by decide
      rw [if_neg h1, if_neg h2]
      cases setupBlockB maxSize (tokOpts0 + extra) 0 b2 length with
      | none => rfl
      | some sb => simp only [if_neg h3]; exact adlExitLgTail_rel _ _ _ _ _ _ _ _
    · exact adlExitFinish_rel _ _ _ _

/-- without allocation failure the exit of the request path is what `adlRel` says -/
theorem adlExitReq_rel (maxSize tokLen optBytes lastOpt : Nat) (blk : Option Nat) (maxBlk length rtagLen : Nat) :
    (adlExitReq maxSize tokLen optBytes lastOpt blk maxBlk length rtagLen 0).rel =
      adlRel maxSize tokLen optBytes lastOpt blk maxBlk length rtagLen := by
  unfold adlExitReq adlRel
  exact adlExitBody_rel _ _ _ _ _ _ _ _ _ _

/-! ## the ledger -/

/-- how often the release callback of body `b` has run -/
def ran (s : AdlSess) (b : Nat) : Nat := s.rel.count b
/-- how many linked lg_xmits hold the release callback of body `b` -/
def held (s : AdlSess) (b : Nat) : Nat := (s.xmits.map (·.body)).count b

/-- the body of the transfer a call supersedes -/
def superseded (s : AdlSess) (key : Nat) (ex : AdlExit) : Option Nat :=
  if ex = .refused then none else (findKey s.xmits key).map (·.body)

def AdlExit.isLinked : AdlExit → Bool
  | .linked _ => true
  | _ => false

theorem count_cons_nat (a b : Nat) (l : List Nat) : (a :: l).count b = l.count b + (if a = b then 1 else 0) := by
  rw [List.count_cons]
  by_cases h : a = b
  · simp [h]
  · simp [h]

theorem removeKey_count (l : List XmitEnt) (k b : Nat) :
    ((removeKey l k).map (·.body)).count b + (if (findKey l k).map (·.body) = some b then 1 else 0) =
      (l.map (·.body)).count b := by
  induction l with
  | nil => simp [removeKey, findKey]
  | cons e rest ih =>
    by_cases hk : e.key = k
    · simp only [removeKey, findKey, if_pos hk, List.map_cons, Option.map_some]
      rw [count_cons_nat]
      by_cases hb : e.body = b
      · simp [hb]
      · have : ¬ (some e.body = some b) := by intro h; exact hb (Option.some.inj h)
        simp [hb, this]
    · simp only [removeKey, findKey, if_neg hk, List.map_cons]
      rw [count_cons_nat, count_cons_nat]
      omega

theorem removeKey_none (l : List XmitEnt) (k : Nat) (h : findKey l k = none) : removeKey l k = l := by
  induction l with
  | nil => rfl
  | cons e rest ih =>
    by_cases hk : e.key = k
    · simp [findKey, hk] at h
    · simp only [findKey, if_neg hk] at h
      simp only [removeKey, if_neg hk, ih h]

/-- the search in front: the local variable is NULL afterwards; the list is the old one without the first element with
the key; that element's callback has run once -/
theorem adlSupersede_spec (s : AdlSess) (key : Nat) :
    (adlSupersede s key).2 = none ∧
    (adlSupersede s key).1.xmits = removeKey s.xmits key ∧
    (∀ b, ran (adlSupersede s key).1 b = ran s b + (if (findKey s.xmits key).map (·.body) = some b then 1 else 0)) := by
  unfold adlSupersede
  cases hf : findKey s.xmits key with
  | none =>
    refine ⟨rfl, (removeKey_none _ _ hf).symm, ?_⟩
    intro b; simp
  | some e =>
    refine ⟨rfl, rfl, ?_⟩
    intro b
    show (e.body :: s.rel).count b = s.rel.count b + _
    rw [count_cons_nat]
    by_cases hb : e.body = b
    · simp [hb]
    · have : ¬ (some e.body = some b) := by intro h; exact hb (Option.some.inj h)
      simp [hb, this]

/-- every exit that enters the function, as one record: the search result, the new lg_xmit in front if linked, the
callback of the body handed in run once otherwise (whichever arm of `fail:` / success path does it) -/
theorem adlCall_eq (s : AdlSess) (key body : Nat) (ex : AdlExit) (hne : ex ≠ .refused) :
    adlCall s key body ex =
      { xmits := (if ex.isLinked then [{ key := key, body := body }] else []) ++ (adlSupersede s key).1.xmits,
        rel := if ex.isLinked then (adlSupersede s key).1.rel else body :: (adlSupersede s key).1.rel } := by
  have h1 := (adlSupersede_spec s key).1
  cases ex with
  | refused => exact absurd rfl hne
  | failSearch =>
    show ({ (adlSupersede s key).1 with rel := adlFailPath (adlSupersede s key).2 body (adlSupersede s key).1.rel } : AdlSess) = _
    rw [h1]; rfl
  | failNew => rfl
  | linked blk => rfl
  | released => rfl

theorem ite_body (body b : Nat) (l : Bool) :
    (if body = b ∧ l = false then 1 else 0) = if l then 0 else (if body = b then 1 else 0) := by
  cases l <;> simp

/-- ONE call, every state, key, body, exit: the list afterwards, and exactly which callbacks ran -/
theorem adlCall_spec (s : AdlSess) (key body : Nat) (ex : AdlExit) :
    (adlCall s key body ex).xmits =
      (if ex.isLinked then [{ key := key, body := body }] else []) ++
        (if ex = .refused then s.xmits else removeKey s.xmits key) ∧
    (∀ b, ran (adlCall s key body ex) b =
      ran s b + (if body = b ∧ ex.isLinked = false then 1 else 0) + (if superseded s key ex = some b then 1 else 0)) := by
  obtain ⟨_, h2, h3⟩ := adlSupersede_spec s key
  by_cases hne : ex = .refused
  · subst hne
    refine ⟨rfl, ?_⟩
    intro b
    have e1 : ran (adlCall s key body .refused) b = ran s b + (if body = b then 1 else 0) := count_cons_nat _ _ _
    have e2 : superseded s key .refused = none := rfl
    rw [e1, e2, ite_body]
    simp [AdlExit.isLinked]
  · rw [adlCall_eq s key body ex hne]
    refine ⟨by rw [h2, if_neg hne], ?_⟩
    intro b
    have e2 : superseded s key ex = (findKey s.xmits key).map (·.body) := by unfold superseded; rw [if_neg hne]
    rw [e2, ite_body]
    have h3b := h3 b
    cases hl : ex.isLinked with
    | true =>
      show ran (adlSupersede s key).1 b = _
      rw [h3b]; simp
    | false =>
      show (body :: (adlSupersede s key).1.rel).count b = _
      rw [count_cons_nat]
      have : (adlSupersede s key).1.rel.count b = ran (adlSupersede s key).1 b := rfl
      rw [this, h3b]
      simp only [Bool.false_eq_true, if_false]
      omega

theorem held_cons (e : XmitEnt) (l : List XmitEnt) (r : List Nat) (b : Nat) :
    held { xmits := e :: l, rel := r } b = held { xmits := l, rel := r } b + (if e.body = b then 1 else 0) := by
  unfold held
  exact count_cons_nat _ _ _

/-- the ledger of one call: every body's "ran + held" is unchanged, except that the body handed in is accounted for
exactly once -/
theorem adlCall_ledger (s : AdlSess) (key body : Nat) (ex : AdlExit) (b : Nat) :
    ran (adlCall s key body ex) b + held (adlCall s key body ex) b =
      ran s b + held s b + (if body = b then 1 else 0) := by
  obtain ⟨hx, hr⟩ := adlCall_spec s key body ex
  rw [hr b, ite_body]
  have hh : held (adlCall s key body ex) b =
      (if ex.isLinked then (if body = b then 1 else 0) else 0) +
        ((if ex = .refused then s.xmits else removeKey s.xmits key).map (·.body)).count b := by
    unfold held
    rw [hx]
    cases ex.isLinked with
    | true =>
      simp only [if_true, List.cons_append, List.nil_append, List.map_cons]
      rw [count_cons_nat]; omega
    | false => simp
  rw [hh]
  have hrm := removeKey_count s.xmits key b
  unfold superseded
  by_cases hne : ex = .refused
  · subst hne
    have e0 : ∀ (α : Type) (x y : α), (if AdlExit.refused = AdlExit.refused then x else y) = x := fun _ _ _ => if_pos rfl
    have e1 : AdlExit.refused.isLinked = false := rfl
    have e2 : ¬ ((none : Option Nat) = some b) := by intro h; cases h
    rw [e0, e0, e1, if_neg e2]
    unfold held
    simp only [Bool.false_eq_true, if_false]
    omega
  · rw [if_neg hne, if_neg hne]
    unfold held
    cases ex.isLinked with
    | true => simp only [if_true]; omega
    | false => simp only [Bool.false_eq_true, if_false]; omega

theorem adlReleaseAll_ledger (s : AdlSess) (b : Nat) :
    (adlReleaseAll s).xmits = [] ∧ ran (adlReleaseAll s) b = ran s b + held s b := by
  refine ⟨rfl, ?_⟩
  show (s.xmits.map (·.body) ++ s.rel).count b = _
  rw [List.count_append]
  unfold ran held
  omega

/-- ledger invariant of a run: bodies 0..n-1 have been handed over; each of them has either had its callback run
exactly once or is held by exactly one linked lg_xmit; no other callback has run -/
def AdlInv (st : AdlSess × Nat) : Prop := ∀ b, ran st.1 b + held st.1 b = if b < st.2 then 1 else 0

theorem adlEvStep_inv (st : AdlSess × Nat) (e : AdlEv) (h : AdlInv st) : AdlInv (adlEvStep st e) := by
  intro b
  have hb := h b
  cases e with
  | call key ex =>
    show ran (adlCall st.1 key st.2 ex) b + held (adlCall st.1 key st.2 ex) b = if b < st.2 + 1 then 1 else 0
    rw [adlCall_ledger, hb]
    by_cases h1 : b < st.2
    · have : ¬ st.2 = b := by omega
      have h2 : b < st.2 + 1 := by omega
      simp [h1, h2, this]
    · by_cases h3 : st.2 = b
      · subst h3
        simp
      · have h2 : ¬ b < st.2 + 1 := by omega
        simp [h1, h2, h3]
  | expire =>
    show ran (adlReleaseAll st.1) b + held (adlReleaseAll st.1) b = if b < st.2 then 1 else 0
    have := adlReleaseAll_ledger st.1 b
    have h0 : held (adlReleaseAll st.1) b = 0 := by unfold held; rw [this.1]; rfl
    rw [this.2, h0]
    simpa using hb
  | free =>
    show ran (adlReleaseAll st.1) b + held (adlReleaseAll st.1) b = if b < st.2 then 1 else 0
    have := adlReleaseAll_ledger st.1 b
    have h0 : held (adlReleaseAll st.1) b = 0 := by unfold held; rw [this.1]; rfl
    rw [this.2, h0]
    simpa using hb

theorem adlFold_inv : ∀ (evs : List AdlEv) (st : AdlSess × Nat), AdlInv st → AdlInv (evs.foldl adlEvStep st)
  | [], _, h => h
  | e :: evs, st, h => adlFold_inv evs _ (adlEvStep_inv st e h)

theorem adlInv_init : AdlInv ({}, 0) := by
  intro b
  simp [ran, held]

/-! ## one transfer per key -/

theorem removeKey_keys_sub (l : List XmitEnt) (k x : Nat) (h : x ∈ (removeKey l k).map (·.key)) : x ∈ l.map (·.key) := by
  induction l with
  | nil => simp [removeKey] at h
  | cons e rest ih =>
    by_cases hk : e.key = k
    · simp only [removeKey, if_pos hk] at h
      exact List.mem_cons_of_mem _ h
    · simp only [removeKey, if_neg hk, List.map_cons, List.mem_cons] at h
      rcases h with h | h
      · rw [h]; exact List.mem_cons_self
      · exact List.mem_cons_of_mem _ (ih h)

theorem removeKey_nodup (l : List XmitEnt) (k : Nat) (h : (l.map (·.key)).Nodup) :
    ((removeKey l k).map (·.key)).Nodup ∧ k ∉ (removeKey l k).map (·.key) := by
  induction l with
  | nil => simp [removeKey]
  | cons e rest ih =>
    rw [List.map_cons, List.nodup_cons] at h
    by_cases hk : e.key = k
    · simp only [removeKey, if_pos hk]
      exact ⟨h.2, by rw [← hk]; exact h.1⟩
    · simp only [removeKey, if_neg hk, List.map_cons]
      obtain ⟨i1, i2⟩ := ih h.2
      refine ⟨List.nodup_cons.mpr ⟨fun hm => h.1 (removeKey_keys_sub _ _ _ hm), i1⟩, ?_⟩
      intro hm
      rcases List.mem_cons.mp hm with hm | hm
      · exact hk hm.symm
      · exact i2 hm

/-- a session never holds two transfers with one key (the search supersedes THE transfer with the key) -/
theorem adlEvStep_keys (st : AdlSess × Nat) (e : AdlEv) (h : (st.1.xmits.map (·.key)).Nodup) :
    ((adlEvStep st e).1.xmits.map (·.key)).Nodup := by
  cases e with
  | call key ex =>
    show ((adlCall st.1 key st.2 ex).xmits.map (·.key)).Nodup
    rw [(adlCall_spec st.1 key st.2 ex).1]
    obtain ⟨i1, i2⟩ := removeKey_nodup st.1.xmits key h
    cases ex with
    | refused => simpa [AdlExit.isLinked] using h
    | failSearch => simpa [AdlExit.isLinked] using i1
    | failNew => simpa [AdlExit.isLinked] using i1
    | linked blk =>
      simp only [AdlExit.isLinked, if_true, reduceCtorEq, if_false, List.cons_append, List.nil_append, List.map_cons]
      exact List.nodup_cons.mpr ⟨i2, i1⟩
    | released => simpa [AdlExit.isLinked] using i1
  | expire => exact List.nodup_nil
  | free => exact List.nodup_nil

theorem adlFold_keys : ∀ (evs : List AdlEv) (st : AdlSess × Nat), (st.1.xmits.map (·.key)).Nodup →
    ((evs.foldl adlEvStep st).1.xmits.map (·.key)).Nodup
  | [], _, h => h
  | e :: evs, st, h => adlFold_keys evs _ (adlEvStep_keys st e h)

end Coap.Block
