import CoapVerif.Lemmas.MsgLayerX
/-
C08, "held … and later transmitted as earlier exchanges finish": the invariant `NIH` (no idle hold) — on an
ESTABLISHED session a message sits in the delay queue only if it is a Confirmable and `con_active ≥ NSTART` —
is kept by every event of the base model (`Coap.Msg.step`) and of the extended model (`Coap.MsgX.stepX`).
With `WF` (con_active = in flight ≤ NSTART) this says: a message waits only while exactly NSTART Confirmables
are in flight; every event that ends an exchange (ACK, RST, pong, invalid reply, give-up, cancel by token)
re-opens the gate at once.  Core Lean only.
-/
namespace Coap.MsgX
open Coap.SQ Coap.Msg

/-- the delay queue of an established session is empty, or blocked by a Confirmable at its head for which there is
no free NSTART slot -/
def Blocked (se : Sess) : Prop :=
  se.est = true → ∀ n ∈ se.delayq.head?, n.con = true ∧ se.nstart ≤ se.conActive

def NIH (l : L) : Prop := ∀ s, s < l.sess.length → Blocked (l.getS s)

theorem Blocked.of_nil {se : Sess} (h : se.delayq = []) : Blocked se := by
  intro _ n hn; simp [h] at hn

theorem Blocked.of_not_est {se : Sess} (h : se.est = false) : Blocked se := by
  intro he; simp [h] at he

theorem NIH.of_frame {l l' : L} {s0 : Nat} (h : NIH l) (hf : Frame s0 l l')
    (hb : s0 < l.sess.length → Blocked (l'.getS s0)) : NIH l' := by
  intro s hlt
  have hlt' : s < l.sess.length := hf.len ▸ hlt
  by_cases e : s = s0
  · subst e; exact hb hlt'
  · rw [(hf.other s e).1]; exact h s hlt'

/-- states with the same sessions -/
theorem NIH.of_sess {l l' : L} (h : NIH l) (e : l'.sess = l.sess) : NIH l' := by
  intro s hlt
  have : l'.getS s = l.getS s := by simp [L.getS, e]
  rw [this]; exact h s (by rw [← e]; exact hlt)

theorem drain_blocked : ∀ (fuel : Nat) (l : L) (s : Nat), s < l.sess.length →
    (l.getS s).delayq.length < fuel → Blocked ((drain fuel l s).getS s)
  | 0, _, _, _, hf => absurd hf (Nat.not_lt_zero _)
  | fuel + 1, l, s, hlt, hf => by
    unfold drain
    simp only []
    split
    · rename_i hdq; exact Blocked.of_nil hdq
    · rename_i n rest hdq
      split
      · rename_i hest; exact Blocked.of_not_est (by simpa using hest)
      · split
        · rename_i hest hg
          intro _ m hm
          simp [hdq] at hm
          subst hm
          simpa using hg
        · have hlen : rest.length < fuel := by rw [hdq] at hf; simp at hf; omega
          cases hc : n.con
          · simp only [Bool.false_eq_true, if_false]
            apply drain_blocked fuel _ s (by simpa using hlt)
            simp [getS_setS_same hlt]; exact hlen
          · simp only [if_true]
            apply drain_blocked fuel _ s (by simpa using hlt)
            simp [getS_setS_same hlt]; exact hlen

theorem connected_blocked (l : L) (s : Nat) (hlt : s < l.sess.length) : Blocked ((connected l s).getS s) := by
  unfold connected
  simp only []
  apply drain_blocked _ _ s (by simpa using hlt)
  rw [getS_setS_same hlt]
  exact Nat.lt_succ_self _

theorem release_blocked (l : L) (s : Nat) (hlt : s < l.sess.length) (h : Blocked (l.getS s)) :
    Blocked ((release l s).getS s) := by
  unfold release
  simp only []
  split
  · exact h
  · split
    · exact connected_blocked _ s (by simpa using hlt)
    · rename_i hest
      rw [getS_setS_same hlt]
      exact Blocked.of_not_est (by simpa using hest)

theorem sendCore_blocked (l : L) (s : Nat) (con : Bool) (mid r tok : Nat) (hlt : s < l.sess.length)
    (h : Blocked (l.getS s)) : Blocked ((sendCore l s con mid r tok).1.getS s) := by
  unfold sendCore
  simp only []
  split
  · rename_i hg
    split
    · exact h
    · rw [getS_setS_same hlt]
      intro hest m hm
      simp only [] at hest
      cases hdq : (l.getS s).delayq with
      | nil =>
        simp [hdq] at hm
        subst hm
        simp [gate, hest] at hg
        simpa using hg
      | cons a t =>
        simp [hdq] at hm
        subst hm
        exact h hest a (by simp [hdq])
  · rename_i hg
    cases con
    · simp only [Bool.false_eq_true, if_false]
      exact h
    · simp only [if_true]
      rw [getS_waitAck, getS_setS_same (by simpa using hlt)]
      simp [gate] at hg
      intro hest m hm
      simp only [getS_emit] at hest hm
      have := h hest m hm
      omega

theorem submitT_blocked (l : L) (s : Nat) (con : Bool) (mid r tok : Nat) (hlt : s < l.sess.length)
    (h : Blocked (l.getS s)) : Blocked ((submitT l s con mid r tok).getS s) := by
  unfold submitT
  split
  · exact h
  · have := sendCore_blocked l s con mid r tok hlt h
    rcases hsc : sendCore l s con mid r tok with ⟨l', res⟩
    rw [hsc] at this
    exact this

theorem nih_submitT (l : L) (s : Nat) (con : Bool) (mid r tok : Nat) (h : NIH l) : NIH (submitT l s con mid r tok) :=
  h.of_frame (submitT_ok l s con mid r tok).1 (fun hlt => submitT_blocked l s con mid r tok hlt (h s hlt))

theorem nih_submit (l : L) (s : Nat) (con : Bool) (mid r : Nat) (h : NIH l) : NIH (submit l s con mid r) := by
  rw [← submitT_eq_submit]; exact nih_submitT l s con mid r mid h

theorem retransmitX_blocked (pt prng : Nat) (l : L) (n : Node) (hc : n.con = true) (hlt : n.sess < l.sess.length)
    (hb : (l.getS n.sess).conActive ≤ 255) (h : Blocked (l.getS n.sess)) :
    Blocked ((retransmitX pt prng l n).getS n.sess) := by
  unfold retransmitX
  simp only []
  split
  · split
    · rename_i hg
      rw [getS_setS_same (by simpa using hlt)]
      intro hest m hm
      simp only [] at hest
      simp [gate, hc, hest] at hg
      cases hdq : (l.getS n.sess).delayq with
      | nil =>
        simp [hdq] at hm
        subst hm
        exact ⟨hc, hg⟩
      | cons a t =>
        simp [hdq] at hm
        subst hm
        exact ⟨(h hest a (by simp [hdq])).1, hg⟩
    · rename_i hg
      rw [getS_setS_same (by simpa using hlt)]
      intro hest m hm
      simp only [] at hest hm
      have := h hest m hm
      refine ⟨this.1, ?_⟩
      simp only [hc, if_true]
      show (l.getS n.sess).nstart ≤ ((l.getS n.sess).conActive - 1 + 1) % 256
      omega
  · first
      | (rw [getS_emit]; exact release_blocked l n.sess hlt h)
      | (split
         · rw [getS_emit]; exact release_blocked l n.sess hlt h
         · exact release_blocked l n.sess hlt h)

/-- a node of session `n.sess` has left the send queue (`rest`), the session's accounting is one ahead -/
theorem nih_retransmitX (pt prng : Nat) {l : L} (hw : WF l) (h : NIH l) (n : Node) (rest : List Node)
    (hm : n ∈ l.q.nodes) :
    NIH (retransmitX pt prng { l with q := { l.q with nodes := rest } } n) := by
  have hc : n.con = true := hw.1.mem hm
  have h1 : NIH { l with q := { l.q with nodes := rest } } := h.of_sess rfl
  refine h1.of_frame (retransmitX_ok pt prng _ n hc).1 (fun hlt => ?_)
  refine retransmitX_blocked pt prng _ n hc hlt ?_ (h n.sess hlt)
  have := hw.2 n.sess hlt
  show (l.getS n.sess).conActive ≤ 255
  omega

theorem nih_dueLoopX (pt prng : Nat) : ∀ (fuel : Nat) (l : L), WF l → NIH l → NIH (dueLoopX pt prng fuel l)
  | 0, _, _, h => h
  | fuel + 1, l, hw, h => by
    unfold dueLoopX
    split
    · exact h
    · split
      · split
        · exact h
        · rename_i n rest hp
          have hm := (countP_popNext (fun _ => true) (fun _ _ => rfl) _ _ _ hp).1
          refine nih_dueLoopX pt prng fuel _ ?_ (nih_retransmitX pt prng hw h n rest hm)
          obtain ⟨hf, hs, hcon⟩ := removed_one l n rest hm (fun p hp' => (countP_popNext p hp' _ _ _ hp).2)
          have hr := retransmitX_ok pt prng { l with q := { l.q with nodes := rest } } n (hcon hw.1)
          exact hw.of_frame (hf.trans hr.1) (hr.2 (hs 0 (hw.sinv _)))
      · exact h

theorem nih_dueLoop (fuel : Nat) (l : L) (hw : WF l) (h : NIH l) : NIH (dueLoop fuel l) := by
  rw [← dueLoopX_zero 0]; exact nih_dueLoopX 0 0 fuel l hw h

/-- a node of session `s` has left the send queue and its slot is released -/
theorem nih_remove_release {l : L} (h : NIH l) (s : Nat) (rest : List Node) :
    NIH (release { l with q := { l.q with nodes := rest } } s) := by
  have h1 : NIH { l with q := { l.q with nodes := rest } } := h.of_sess rfl
  exact h1.of_frame (release_ok _ s).1 (fun hlt => release_blocked _ s hlt (h1 s hlt))

theorem nih_rxAck (l : L) (s mid : Nat) (h : NIH l) : NIH (rxAck l s mid) := by
  unfold rxAck
  rcases removeNode l.q.nodes s mid with ⟨res, rest⟩
  cases res
  · exact h.of_sess rfl
  · exact nih_remove_release h s rest

theorem nih_rxRst (l : L) (s mid : Nat) (h : NIH l) : NIH (rxRst l s mid) := by
  unfold rxRst
  rcases removeNode l.q.nodes s mid with ⟨res, rest⟩
  cases res
  · exact h.of_sess rfl
  · simp only []
    split
    · exact (nih_remove_release h s rest).of_sess rfl
    · exact nih_remove_release h s rest

theorem nih_rxBad (l : L) (s mid : Nat) (h : NIH l) : NIH (rxBad l s mid) := by
  unfold rxBad
  rcases removeNode l.q.nodes s mid with ⟨res, rest⟩
  cases res
  · exact h.of_sess rfl
  · exact (nih_remove_release h s rest).of_sess rfl

theorem nih_cancelToken : ∀ (fuel : Nat) (l : L) (s tok : Nat), NIH l → NIH (cancelToken fuel l s tok)
  | 0, _, _, _, h => h
  | fuel + 1, l, s, tok, h => by
    unfold cancelToken
    split
    · exact h
    · rename_i n rest hr
      apply nih_cancelToken fuel
      cases n.con
      · exact h.of_sess rfl
      · exact nih_remove_release h s rest

theorem nih_rxNon (l : L) (s mid tok : Nat) (h : NIH l) : NIH (rxNon l s mid tok) := by
  unfold rxNon
  exact (nih_cancelToken _ _ _ _ h).of_sess rfl

theorem nih_cancelWalk : ∀ (fuel : Nat) (l : L) (s tok i : Nat), NIH l → NIH (cancelWalk fuel l s tok i)
  | 0, _, _, _, _, h => h
  | fuel + 1, l, s, tok, i, h => by
    unfold cancelWalk
    split
    · exact h
    · rename_i q rest hd
      split
      · apply nih_cancelWalk fuel
        cases q.con
        · exact h.of_sess rfl
        · exact nih_remove_release h s _
      · exact nih_cancelWalk fuel l s tok (i + 1) h

theorem nih_rxNonX (l : L) (s mid tok : Nat) (h : NIH l) : NIH (rxNonX l s mid tok) := by
  unfold rxNonX
  exact (nih_cancelWalk _ _ _ _ _ h).of_sess rfl

theorem nih_connected (l : L) (s : Nat) (h : NIH l) : NIH (connected l s) :=
  h.of_frame (connected_ok l s).1 (fun hlt => connected_blocked l s hlt)

theorem nih_disconnect (l : L) (s : Nat) (h : NIH l) : NIH (disconnect l s) :=
  h.of_frame (disconnect_frame l s) (fun hlt => Blocked.of_nil (disconnect_out l s hlt).choose_spec.choose_spec.2.1)

theorem nih_hold (l : L) (s : Nat) (h : NIH l) : NIH (l.setS s { (l.getS s) with est := false }) :=
  h.of_frame (Frame.setS _ _ _) (fun hlt => by rw [getS_setS_same hlt]; exact Blocked.of_not_est rfl)

theorem nih_icmp (l : L) (s : Nat) (h : NIH l) : NIH (icmp l s) := by
  unfold icmp
  split <;> exact h.of_sess rfl

/-- `NIH` is an invariant of the base model (given `WF`) -/
theorem nih_step (l : L) (e : Ev) (hw : WF l) (h : NIH l) : NIH (step l e) := by
  cases e with
  | setNow t => exact h.of_sess rfl
  | submit s con mid r => exact nih_submit l s con mid r h
  | prepare =>
    have := nih_dueLoop (dueFuel l) l hw h
    rw [← prepareCore_fst] at this
    simp only [step, prepare]
    rcases hp : prepareCore l with ⟨l', w⟩
    rw [hp] at this
    exact this.of_sess rfl
  | rxAck s mid =>
    simp only [step]; split
    · unfold afterRx; rw [prepareCore_fst]; exact nih_dueLoop _ _ (wf_rxAck _ _ _ hw) (nih_rxAck _ _ _ h)
    · exact h
  | rxRst s mid =>
    simp only [step]; split
    · unfold afterRx; rw [prepareCore_fst]; exact nih_dueLoop _ _ (wf_rxRst _ _ _ hw) (nih_rxRst _ _ _ h)
    · exact h
  | rxNon s mid tok =>
    simp only [step]; split
    · unfold afterRx; rw [prepareCore_fst]; exact nih_dueLoop _ _ (wf_rxNon _ _ _ _ hw) (nih_rxNon _ _ _ _ h)
    · exact h
  | rxBad s mid =>
    simp only [step]; split
    · unfold afterRx; rw [prepareCore_fst]; exact nih_dueLoop _ _ (wf_rxBad _ _ _ hw) (nih_rxBad _ _ _ h)
    · exact h
  | hold s => exact nih_hold l s h
  | connect s => exact nih_connected l s h
  | disconnect s => simp only [step]; split; exact nih_disconnect l s h; exact h

theorem nih_run (evs : List Ev) : ∀ (l : L), WF l → NIH l → NIH (run l evs) := by
  induction evs with
  | nil => intro l _ h; exact h
  | cons e es ih => intro l hw h; exact ih _ (Msg.wf_step l e hw) (nih_step l e hw h)

theorem nih_init (t0 : Nat) (ss : List Sess) (hss : ∀ se ∈ ss, se.conActive = 0 ∧ se.delayq = [] ∧ se.nstart ≤ 255) :
    NIH (init t0 ss) := by
  intro s hlt
  have hlt' : s < ss.length := hlt
  have hm : (init t0 ss).getS s ∈ ss := by
    simp [init, L.getS, List.getD_eq_getElem?_getD, hlt']
  exact Blocked.of_nil (hss _ hm).2.1

/-! ### the extended model -/

theorem nih_sendPing (lx : LX) (s : Nat) (h : NIH lx.l) : NIH (sendPing lx s).1.l := by
  unfold sendPing
  simp only []
  split
  · exact h
  · split
    · exact h
    · have h1 := sendCore_ok lx.l s true (((lx.getK s).txMid + 1) % 65536) lx.prng noTok
      have h2 := fun hlt => sendCore_blocked lx.l s true (((lx.getK s).txMid + 1) % 65536) lx.prng noTok hlt (h s hlt)
      simp only [setK_l, setK_prng]
      rcases hsc : sendCore lx.l s true (((lx.getK s).txMid + 1) % 65536) lx.prng noTok with ⟨l', res⟩
      rw [hsc] at h1 h2
      exact h.of_frame h1.1 h2

theorem nih_pingOne (lx : LX) (s t : Nat) (h : NIH lx.l) : NIH (pingOne lx s t).1.l := by
  unfold pingOne
  simp only []
  split
  · split
    · have := nih_sendPing lx s h
      rcases hsp : sendPing lx s with ⟨lx', res⟩
      rw [hsp] at this
      cases res <;> simpa using this
    · exact h
  · exact h

theorem nih_pingLoop : ∀ (k s : Nat) (lx : LX) (t : Nat), NIH lx.l → NIH (pingLoop k s lx t).1.l
  | 0, _, _, _, h => h
  | k + 1, s, lx, t, h => by
    unfold pingLoop
    have := nih_pingOne lx s t h
    rcases hp : pingOne lx s t with ⟨lx', t'⟩
    rw [hp] at this
    exact nih_pingLoop k (s + 1) lx' t' this

theorem nih_prepareCoreX (lx : LX) (hw : WF lx.l) (h : NIH lx.l) : NIH (prepareCoreX lx).1.l := by
  unfold prepareCoreX
  simp only []
  apply nih_pingLoop
  simpa using nih_dueLoopX lx.pingTimeout lx.prng (dueFuel lx.l) lx.l hw h

theorem nih_rxRstX (lx : LX) (s mid : Nat) (h : NIH lx.l) : NIH (rxRstX lx s mid).l := by
  unfold rxRstX
  simp only []
  split
  · rcases removeNode lx.l.q.nodes s mid with ⟨res, rest⟩
    cases res
    · simpa using (h.of_sess (l' := ({ lx.l with q := { lx.l.q with nodes := rest } } : L).emit
        (.nack lx.l.now s .rst mid false)) rfl)
    · simpa using nih_remove_release h s rest
  · simpa using nih_rxRst lx.l s mid h

theorem nih_rxAckP (l : L) (s mid : Nat) (dup : Bool) (h : NIH l) : NIH (rxAckP l s mid dup) := by
  unfold rxAckP
  simp only []
  split
  · exact nih_rxAck l s mid h
  · exact (nih_rxAck l s mid h).of_sess rfl

theorem nih_disconnectP (p : Proto) (l : L) (s : Nat) (h : NIH l) : NIH (disconnectP p l s) := by
  unfold disconnectP
  have hd := nih_disconnect l s h
  cases p with
  | udp => exact hd
  | dtls => exact hd.of_frame (Frame.setS _ _ _) (fun hlt => by rw [getS_setS_same hlt]; exact Blocked.of_not_est rfl)

/-- `NIH` is an invariant of the extended model (given `WF`) -/
theorem nihX_step (lx : LX) (e : EvX) (hw : WF lx.l) (h : NIH lx.l) : NIH (stepX lx e).l := by
  cases e with
  | base e =>
    cases e with
    | setNow t => exact h.of_sess rfl
    | submit s con mid r => simpa [stepX] using nih_submit lx.l s con mid r h
    | prepare =>
      simp only [stepX, prepareX]
      exact (nih_prepareCoreX lx hw h).of_sess rfl
    | rxAck s mid =>
      simp only [stepX]; split
      · exact nih_prepareCoreX _ (by simpa using wf_rxAck _ _ _ hw) (by simpa using nih_rxAck _ _ _ h)
      · exact h
    | rxRst s mid =>
      simp only [stepX]; split
      · exact nih_prepareCoreX _ (wf_rxRstX _ _ _ (by simpa using hw)) (nih_rxRstX _ _ _ (by simpa using h))
      · exact h
    | rxNon s mid tok =>
      simp only [stepX]; split
      · exact nih_prepareCoreX _ (by simpa using wf_rxNonX _ _ _ _ hw) (by simpa using nih_rxNonX _ _ _ _ h)
      · exact h
    | rxBad s mid =>
      simp only [stepX]; split
      · exact nih_prepareCoreX _ (by simpa using wf_rxBad _ _ _ hw) (by simpa using nih_rxBad _ _ _ h)
      · exact h
    | hold s => simpa [stepX, step] using nih_hold lx.l s h
    | connect s => simpa [stepX] using nih_connected lx.l s h
    | disconnect s =>
      simp only [stepX]; split
      · simpa using nih_disconnectP _ lx.l s h
      · exact h
  | submitT s con mid r tok => simpa [stepX] using nih_submitT lx.l s con mid r tok h
  | icmp s =>
    simp only [stepX]; split
    · exact nih_prepareCoreX _ (by simpa using wf_icmp _ _ hw) (by simpa using nih_icmp _ _ h)
    · exact h
  | keepalive secs => exact h
  | rxAckP s mid tok =>
    simp only [stepX]; split
    · exact nih_prepareCoreX _ (by simpa using wf_rxAckP _ _ _ _ hw) (by simpa using nih_rxAckP _ _ _ _ h)
    · exact h

theorem nihX_run (evs : List EvX) : ∀ (lx : LX), WF lx.l → NIH lx.l → NIH (runX lx evs).l := by
  induction evs with
  | nil => intro lx _ h; exact h
  | cons e es ih => intro lx hw h; exact ih _ (wfX_step lx e hw) (nihX_step lx e hw h)

end Coap.MsgX
