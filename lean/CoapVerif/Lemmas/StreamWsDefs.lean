import CoapVerif.Model.WsReader
import CoapVerif.Lemmas.Parse
import CoapVerif.Lemmas.StreamWs
/- C05, WebSocket part: the vocabulary of the correspondence proof M_ws = S_ws.

   * "remaining work" views of the specification: `hsRes` (what S makes of the bytes from a handshake-line
     boundary on) and `frRes` (from a frame boundary on);
   * the abstraction of a reader state: `Abs` = the phase and the bytes consumed but not yet delivered, and the
     invariant `WsInv mode st a` ("the reader state `st` is what S's incremental parser holds at `a`");

   The handshake phase needs no restriction on the bytes: a NUL byte inside a line is part of S (D20: the line has
   no end; the model's strchr stops at it in the same way, `lfIdx_eq`), and a header line that starts with its
   separator is refused by the per-line checks since the `fix:` commit (the former `hsClean` sub-domain is gone). -/
namespace Coap
open Coap.M Coap.M.Ws Coap.Spec.Stream Coap.Spec.Stream.Ws

/-! ### S, seen from a parser position -/

/-- S from a frame boundary on -/
def frRes (mode : Mode) (bs : Bytes) : Res :=
  ⟨(frames mode (bs.length + 1) bs).1, true, (frames mode (bs.length + 1) bs).2⟩

/-- S from a handshake-line boundary on, validator state `s` -/
def hsRes {σ} (V : Validator σ) (mode : Mode) (s : σ) (bs : Bytes) : Res :=
  match handshake V (bs.length + 1) s bs with
  | .more => ⟨[], false, false⟩
  | .failed => ⟨[], false, true⟩
  | .done rest => frRes mode rest

theorem run_eq_hsRes {σ} (V : Validator σ) (mode : Mode) (bs : Bytes) : run V mode bs = hsRes V mode V.init bs := by
  unfold run hsRes frRes
  cases handshake V (bs.length + 1) V.init bs <;> rfl

/-- `ms` delivered, then `r` -/
def Res.pre (ms : List Msg) (r : Res) : Res := ⟨ms ++ r.msgs, r.up, r.closed⟩

/-! ### reader state ↔ parser position -/

/-- number of extended-length bytes / of header bytes after the two fixed ones, from the second header byte -/
def hExt (b1 : Nat) : Nat := if b1 % 128 = 127 then 8 else if b1 % 128 = 126 then 2 else 0
def hExtra (b1 : Nat) : Nat := hExt b1 + (if b1 / 128 = 1 then 4 else 0)
/-- declared payload length: `r` = the header bytes after the two fixed ones -/
def hSize (b1 : Nat) (r : Bytes) : Nat := if hExt b1 = 0 then b1 % 128 else be (r.take (hExt b1))

/-- a proper prefix of a frame header (and not yet refused) -/
def HdrPend (mode : Mode) (p : Bytes) : Prop :=
  match p with
  | _ :: b1 :: r => ¬ (mode = .server ∧ ¬ b1.toNat / 128 = 1) ∧ r.length < hExtra b1.toNat
  | _ => True

/-- the reader between frames / inside a frame header: `rd_header[0 .. hdr_ofs)` = `p` -/
def FrPre (st : St) (p : Bytes) : Prop :=
  st.up = true ∧ st.allHdrIn = false ∧ st.rdHeader = p ∧ st.rxData = none

/-- the reader inside a frame payload: `p` = complete header ++ payload bytes so far -/
def DataInv (mode : Mode) (st : St) (p : Bytes) : Prop :=
  st.up = true ∧ st.allHdrIn = true ∧
  ∃ (b0 b1 : UInt8) (r D : Bytes), p = b0 :: b1 :: (r ++ D) ∧ r.length = hExtra b1.toNat ∧
    ¬ (mode = .server ∧ ¬ b1.toNat / 128 = 1) ∧ b0.toNat % 16 = 2 ∧
    st.dataSize = hSize b1.toNat r ∧ 0 < st.dataSize ∧ st.dataSize ≤ maxFrame ∧
    (mode = .server → st.maskKey = (r.drop (hExt b1.toNat)).take 4) ∧
    st.dataOfs = D.length ∧ D.length < st.dataSize ∧
    st.rxData = (if D = [] then none else some D) ∧
    (b0 :: b1 :: r) <+: st.rdHeader

/-- the reader inside the handshake: the current line so far is `http_hdr[0 .. http_ofs)`; it has no line end
yet (no LF, or a NUL byte in front of it) -/
def HsInv (st : St) : Prop :=
  st.up = false ∧ lfIndex st.httpHdr = none ∧ st.httpHdr.length < httpCap - 1 ∧
  st.rdHeader = [] ∧ st.allHdrIn = false ∧ st.rxData = none

/-- phase and bytes consumed but not yet delivered -/
inductive Abs where
  | hs (s : Seen) (line : Bytes)
  | fr (p : Bytes)
  deriving DecidableEq, Repr

/-- "the reader state is what S's incremental parser holds after the bytes consumed so far" -/
def WsInv (mode : Mode) (st : St) : Abs → Prop
  | .hs s l => HsInv st ∧ st.seen = s ∧ st.httpHdr = l
  | .fr p => (FrPre st p ∧ HdrPend mode p) ∨ DataInv mode st p

/-- what S makes of position `a` followed by the bytes `Y` -/
def specFrom (mode : Mode) (accept : Bytes) : Abs → Bytes → Res
  | .hs s l, Y => hsRes (validator mode accept) mode s (l ++ Y)
  | .fr p, Y => frRes mode (p ++ Y)

end Coap
