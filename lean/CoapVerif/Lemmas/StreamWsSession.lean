import CoapVerif.Lemmas.StreamWsFrames
/- C05, WebSocket part: one `coap_read_session` call (`readSession`: the do … while (more) loop around
   `coap_ws_read`) in the frame phase, against S. -/
namespace Coap
open Coap.M Coap.M.Ws Coap.Spec.Stream Coap.Spec.Stream.Ws

theorem deliver_nil_append (x : Option Msg) (l : List Msg) : deliver x l = deliver x [] ++ l := by
  cases x <;> rfl

/-! ### nothing is stuck: S finds no message in what the reader holds -/

theorem HdrPend_length {mode : Mode} {p : Bytes} (h : HdrPend mode p) : p.length < fsCap := by
  match p, h with
  | [], _ => simp [fsCap]
  | [_], _ => simp [fsCap]
  | _ :: b1 :: r, h =>
    have := hExtra_le b1.toNat
    have := h.2
    simp only [List.length_cons, fsCap]; omega

theorem frOf_hdrPend (mode : Mode) (p : Bytes) (h : HdrPend mode p) : frOf mode p = ([], false) := by
  match p, h with
  | [], _ => rfl
  | [_], _ => rfl
  | b0 :: b1 :: r, h => rw [frOf_cons2, if_neg h.1, if_pos h.2]

theorem frOf_dataPend (mode : Mode) (st : St) (p : Bytes) (h : DataInv mode st p) : frOf mode p = ([], false) := by
  obtain ⟨_, _, b0, b1, r, D, hp, hr, hm, hop, hsize, _, hmax, _, _, hlt, _, _⟩ := h
  rw [hp, frOf_frame mode b0 b1 r D hr hm hop (by rw [← hsize]; exact hmax), ← hsize, if_pos hlt]

theorem frOf_pend (mode : Mode) (st : St) (p : Bytes) (h : WsInv mode st (.fr p)) : frOf mode p = ([], false) := by
  rcases h with h | h
  · exact frOf_hdrPend mode p h.2
  · exact frOf_dataPend mode st p h

/-! ### `coap_ws_read` in the frame phase -/

theorem wsRead_up (mode : Mode) (accept : Bytes) (st : St) (av : Bytes) (hup : st.up = true) :
    wsRead mode accept rxBuf st av = readFrame mode rxBuf (av.length + fsCap + 2) st av := by
  simp [wsRead, hup]

/-- inside a frame payload -/
theorem readFrame_data_spec (mode : Mode) (X : Bytes) (fuel : Nat) (st : St) (av p : Bytes) (h : DataInv mode st p) :
    FrPost mode X True p av (readFrame mode rxBuf (fuel + 1) st av) := by
  obtain ⟨hup, hall, b0, b1, r, D, hp, hr, hm, hop, hsize, hpos, hmax, hkey, hofs, hlt, hrx, hpre⟩ := h
  have e : readFrame mode rxBuf (fuel + 1) st av = readData mode st av [] rxBuf := by
    simp [readFrame, hall]
  rw [e, hp]
  refine readData_post mode X st av [] D b0 b1 r hup hall ⟨hr, hm, hop, hsize, hpos, hmax, hkey⟩ ?_ hofs.symm
    (by omega) ?_ hpre
  · rw [hrx]
    by_cases hd : D = []
    · simp [hd]
    · simp only [if_neg hd, hofs, List.take_length]
  · by_cases hd : D = []
    · left; rw [hrx, if_pos hd]
    · right; exact hd

/-- `coap_ws_read` from a state that satisfies the invariant, frame phase -/
theorem wsRead_fr_spec (mode : Mode) (accept : Bytes) (X : Bytes) (st : St) (av p : Bytes) (h : WsInv mode st (.fr p)) :
    FrPost mode X True p av (wsRead mode accept rxBuf st av) := by
  rcases h with h | h
  · rw [wsRead_up mode accept st av h.1.1]
    have hl := HdrPend_length h.2
    have := readFrame_spec mode X (av.length + fsCap + 2) st av p h.1 (by omega) (by omega)
    exact FrPost_imp mode X True _ p av _ this (fun _ => hl)
  · rw [wsRead_up mode accept st av h.1]
    exact readFrame_data_spec mode X _ st av p h

/-! ### one `coap_read_session` call -/

/-- what a `coap_read_session` call may do in the frame phase, relative to S -/
def SessFr (mode : Mode) (X : Bytes) (c : Prop) (p av : Bytes) : List Msg × Sess × Bytes → Prop
  | (ms, .open st', av') =>
      (∃ p', WsInv mode st' (.fr p') ∧ frOf mode (p ++ (av ++ X)) =
        (ms ++ (frOf mode (p' ++ (av' ++ X))).1, (frOf mode (p' ++ (av' ++ X))).2)) ∧ Prog c av av'
  | (ms, .closed, _) => frOf mode (p ++ (av ++ X)) = (ms, true)
  | (_, .oob, _) => False

/-- from the first `coap_ws_read` of a call to the whole call; `ihrec` = the statement for the remaining rounds -/
theorem readSession_of_post (mode : Mode) (accept : Bytes) (X : Bytes) (fuel : Nat)
    (ihrec : ∀ (st : St) (av p : Bytes), FrPre st p → p.length ≤ fsCap → p.length + av.length < fuel →
      SessFr mode X (p.length < fsCap) p av (readSession mode accept fuel st av))
    (st : St) (av p av0 : Bytes) (c : Prop)
    (hpost : FrPost mode X c p av0 (wsRead mode accept rxBuf st av)) (hfuel : min p.length fsCap + av0.length ≤ fuel + 2) :
    SessFr mode X c p av0 (readSession mode accept (fuel + 1) st av) := by
  rw [readSession]
  generalize wsRead mode accept rxBuf st av = res at hpost
  obtain ⟨ret, st', av'⟩ := res
  cases ret with
  | err => exact hpost.elim
  | oob => exact hpost.elim
  | closed => simp only [FrPost] at hpost; simp only [SessFr]; exact hpost
  | zero =>
    simp only [FrPost] at hpost
    simp only [SessFr]
    obtain ⟨⟨p', hi, hf⟩, hp⟩ := hpost
    exact ⟨⟨p', hi, by rw [hf]; simp⟩, hp⟩
  | pkt pl =>
    simp only [FrPost] at hpost
    obtain ⟨hpre, hle, hmeas, hf, hp1, hp2⟩ := hpost
    simp only [parse_ws_eq]
    by_cases hrd : st'.rdHeader.length > 0
    · rw [if_pos hrd]
      have hr := ihrec st' av' st'.rdHeader hpre hle (by omega)
      generalize readSession mode accept fuel st' av' = r at hr
      obtain ⟨ms2, sess, av''⟩ := r
      cases sess with
      | oob => exact hr.elim
      | closed =>
        simp only [SessFr] at hr ⊢
        rw [hf, hr, deliver_nil_append]
      | «open» st'' =>
        simp only [SessFr] at hr ⊢
        obtain ⟨⟨p', hi, hf2⟩, hq1, _⟩ := hr
        refine ⟨⟨p', hi, ?_⟩, by omega, fun hc hne => by have := hp2 hc hne; omega⟩
        rw [hf, hf2, deliver_nil_append, List.append_assoc]
    · rw [if_neg hrd]
      have hnil : st'.rdHeader = [] := List.length_eq_zero_iff.mp (by omega)
      simp only [SessFr]
      refine ⟨⟨[], Or.inl ⟨by rw [← hnil]; exact hpre, trivial⟩, ?_⟩, hp1, hp2⟩
      rw [hf, hnil, deliver_nil_append]

/-- a whole call from a state between frames / inside a frame header -/
theorem readSession_fr (mode : Mode) (accept : Bytes) (X : Bytes) : ∀ (fuel : Nat) (st : St) (av p : Bytes),
    FrPre st p → p.length ≤ fsCap → p.length + av.length < fuel →
    SessFr mode X (p.length < fsCap) p av (readSession mode accept fuel st av) := by
  intro fuel
  induction fuel with
  | zero => intro st av p _ _ h; omega
  | succ fuel ih =>
    intro st av p hpre hle hfuel
    have hpost : FrPost mode X (p.length < fsCap) p av (wsRead mode accept rxBuf st av) := by
      rw [wsRead_up mode accept st av hpre.1]
      exact readFrame_spec mode X _ st av p hpre hle (by omega)
    exact readSession_of_post mode accept X fuel ih st av p av _ hpost (by omega)

/-- a whole call from any state that satisfies the invariant, frame phase -/
theorem readSession_fr_inv (mode : Mode) (accept : Bytes) (X : Bytes) (fuel : Nat) (st : St) (av p : Bytes)
    (h : WsInv mode st (.fr p)) (hfuel : av.length + fsCap ≤ fuel) :
    SessFr mode X True p av (readSession mode accept (fuel + 1) st av) := by
  have hpost := wsRead_fr_spec mode accept X st av p h
  exact readSession_of_post mode accept X fuel (readSession_fr mode accept X fuel) st av p av True hpost (by omega)

end Coap
