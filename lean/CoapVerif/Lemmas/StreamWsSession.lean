import CoapVerif.Lemmas.StreamWsFrames
/- C05, WebSocket part: one `coap_read_session` call (`readSession`: the do … while (more) loop around
   `coap_ws_read`) in the frame phase, against S. -/
namespace Coap
open Coap.M Coap.M.Ws Coap.Spec.Stream Coap.Spec.Stream.Ws

theorem deliver_nil_append (x : Option Msg) (l : List Msg) : deliver x l = deliver x [] ++ l := by
  cases x <;> rfl

/-! ### nothing is stuck: S finds no message in what the reader holds -/

theorem HdrPend_length {mode : Mode} {p : Bytes} (h : HdrPend mode p) : p.length < fsCap := by
  match p, h with
  | [], _ => simp [fsCap]
  | [_], _ => simp [fsCap]
  | _ :: b1 :: r, h =>
    have := hExtra_le b1.toNat
    have := h.2
    simp only [List.length_cons, fsCap]; omega

theorem frOf_hdrPend (mode : Mode) (p : Bytes) (h : HdrPend mode p) : frOf mode p = ([], false) := by
  match p, h with
  | [], _ => rfl
  | [_], _ => rfl
  | b0 :: b1 :: r, h => rw [frOf_cons2, if_neg h.1, if_pos h.2]

theorem frOf_dataPend (mode : Mode) (st : St) (p : Bytes) (h : DataInv mode st p) : frOf mode p = ([], false) := by
  obtain ⟨_, _, b0, b1, r, D, hp, hr, hm, hop, hsize, _, hmax, _, _, hlt, _, _⟩ := h
  rw [hp, frOf_frame mode b0 b1 r D hr hm hop (by rw [← hsize]; exact hmax), ← hsize, if_pos hlt]

theorem frOf_pend (mode : Mode) (st : St) (p : Bytes) (h : WsInv mode st (.fr p)) : frOf mode p = ([], false) := by
  rcases h with h | h
  · exact frOf_hdrPend mode p h.2
  · exact frOf_dataPend mode st p h

/-! ### `coap_ws_read` in the frame phase -/

theorem wsRead_up (mode : Mode) (accept : Bytes) (st : St) (av : Bytes) (hup : st.up = true) :
    wsRead mode accept rxBuf st av = readFrame mode rxBuf (av.length + fsCap + 2) st av := by
  simp [wsRead, hup]

/-- inside a frame payload -/
theorem readFrame_data_spec (mode : Mode) (X : Bytes) (fuel : Nat) (st : St) (av p : Bytes) (h : DataInv mode st p) :
    FrPost mode X True p av (readFrame mode rxBuf (fuel + 1) st av) := by
  obtain ⟨hup, hall, b0, b1, r, D, hp, hr, hm, hop, hsize, hpos, hmax, hkey, hofs, hlt, hrx, hpre⟩ := h
  have e : readFrame mode rxBuf (fuel + 1) st av = readData mode st av [] rxBuf := by
    simp [readFrame, hall]
  rw [e, hp]
  refine readData_post mode X st av [] D b0 b1 r hup hall ⟨hr, hm, hop, hsize, hpos, hmax, hkey⟩ ?_ hofs.symm
    (by omega) ?_ hpre
  · rw [hrx]
    by_cases hd : D = []
    · simp [hd]
    · simp only [if_neg hd, hofs, List.take_length]
  · by_cases hd : D = []
    · left; rw [hrx, if_pos hd]
    · right; exact hd

/-- `coap_ws_read` from a state that satisfies the invariant, frame phase -/
theorem wsRead_fr_spec (mode : Mode) (accept : Bytes) (X : Bytes) (st : St) (av p : Bytes) (h : WsInv mode st (.fr p)) :
    FrPost mode X True p av (wsRead mode accept rxBuf st av) := by
  rcases h with h | h
  · rw [wsRead_up mode accept st av h.1.1]
    have hl := HdrPend_length h.2
    have := readFrame_spec mode X (av.length + fsCap + 2) st av p h.1 (by omega) (by omega)
    exact FrPost_imp mode X True _ p av _ this (fun _ => hl)
  · rw [wsRead_up mode accept st av h.1]
    exact readFrame_data_spec mode X _ st av p h

end Coap
