import CoapVerif.Spec.OscoreSeq
import CoapVerif.Model.OscoreAssoc
/- Helper lemmas for the sequence theorems of C14 (Props/C14.lean): the token ↦ binding store of S
(Spec/OscoreSeq.lean) and libcoap's association list (Model/OscoreAssoc.lean). -/
namespace Coap
open Coap.Spec.Oscore

/-! ### S: the store -/

theorem sFind_token (st : Store) (t : Bytes) (e : Entry) (h : sFind st t = some e) : e.token = t := by
  unfold sFind at h
  have := List.find?_some h
  simpa using this

theorem find_filter_key {α : Type} (key : α → Bytes) (l : List α) (t t' : Bytes) :
    (l.filter (fun a => key a ≠ t')).find? (fun a => key a = t) =
      if t = t' then none else l.find? (fun a => key a = t) := by
  by_cases ht : t = t'
  · subst ht
    simp only [if_true]
    rw [List.find?_eq_none]
    intro x hx
    have := (List.mem_filter.mp hx).2
    simpa using this
  · simp only [ht, if_false]
    rw [List.find?_filter]
    congr 1
    funext a
    by_cases h : key a = t
    · have h2 : ¬ t = t' := ht
      simp [h, h2]
    · simp [h]

theorem sFind_sDel (st : Store) (t t' : Bytes) :
    sFind (sDel st t') t = if t = t' then none else sFind st t :=
  find_filter_key (fun e : Entry => e.token) st t t'

theorem sFind_sSet (st : Store) (e : Entry) (t : Bytes) :
    sFind (sSet st e) t = if e.token = t then some e else sFind st t := by
  unfold sSet
  by_cases h : e.token = t
  · simp [sFind, h]
  · have h' : ¬ t = e.token := fun x => h x.symm
    have := sFind_sDel st t e.token
    simp only [h', if_false] at this
    simp only [h, if_false, ← this]
    simp [sFind, h]

/-- a delivery leaves the store alone or removes the binding of the datagram's token -/
theorem clientRecv_store (cipher : Bytes → Bytes → Bytes) (c : Ctx) (st : Store) (r : Msg) :
    (clientRecv cipher c st r).2 = st ∨ (clientRecv cipher c st r).2 = sDel st r.token := by
  unfold clientRecv
  cases sFind st r.token with
  | none => exact Or.inl rfl
  | some e =>
    simp only
    cases unprotectResponse cipher c (some e.b) r with
    | plain => exact Or.inl rfl
    | rej => exact Or.inl rfl
    | ok m b =>
      by_cases hk : e.keep = true
      · simp [hk]
      · simp [hk]

/-- the invariant of the client's store: every binding is the one of the latest request sent with its token
(`acc`), that request is in the history, and the `keep` flag is that request's -/
def SInv (cipher : Bytes → Bytes → Bytes) (c : Ctx) (st : Store) (acc : Bytes → Option Binding) (hist : List CStep) : Prop :=
  ∀ t e, sFind st t = some e →
    acc t = some e.b ∧
    ∃ m seq pm, CStep.send m seq ∈ hist ∧ m.token = t ∧ protectRequest cipher c m seq = some (pm, e.b) ∧
      e.keep = isRegistration m.opts ∧ e.observe = hasObserve m.opts

theorem clientStep_send_none (cipher : Bytes → Bytes → Bytes) (c : Ctx) (st : Store) (m : Msg) (seq : Nat)
    (hp : protectRequest cipher c m seq = none) : clientStep cipher c st (.send m seq) = st := by
  simp [clientStep, clientSend, hp]

theorem clientStep_send_some (cipher : Bytes → Bytes → Bytes) (c : Ctx) (st : Store) (m : Msg) (seq : Nat) (pm : Msg)
    (b : Binding) (hp : protectRequest cipher c m seq = some (pm, b)) :
    clientStep cipher c st (.send m seq) = sSet st ⟨m.token, b, isRegistration m.opts, hasObserve m.opts⟩ := by
  simp [clientStep, clientSend, hp]

theorem trackStep_send_none (cipher : Bytes → Bytes → Bytes) (c : Ctx) (acc : Bytes → Option Binding) (m : Msg) (seq : Nat)
    (hp : protectRequest cipher c m seq = none) : trackStep cipher c acc (.send m seq) = acc := by
  simp [trackStep, hp]

theorem trackStep_send_some (cipher : Bytes → Bytes → Bytes) (c : Ctx) (acc : Bytes → Option Binding) (m : Msg) (seq : Nat)
    (pm : Msg) (b : Binding) (hp : protectRequest cipher c m seq = some (pm, b)) :
    trackStep cipher c acc (.send m seq) = fun t => if t = m.token then some b else acc t := by
  simp [trackStep, hp]

theorem SInv_step (cipher : Bytes → Bytes → Bytes) (c : Ctx) (st : Store) (acc : Bytes → Option Binding)
    (hist : List CStep) (s : CStep) (h : SInv cipher c st acc hist) :
    SInv cipher c (clientStep cipher c st s) (trackStep cipher c acc s) (hist ++ [s]) := by
  have weaken : ∀ t e, sFind st t = some e →
      ∃ m seq pm, CStep.send m seq ∈ hist ++ [s] ∧ m.token = t ∧ protectRequest cipher c m seq = some (pm, e.b) ∧
        e.keep = isRegistration m.opts ∧ e.observe = hasObserve m.opts := by
    intro t e he
    obtain ⟨_, m, seq, pm, hm, h1, h2, h3⟩ := h t e he
    exact ⟨m, seq, pm, List.mem_append_left _ hm, h1, h2, h3⟩
  cases s with
  | send m seq =>
    cases hp : protectRequest cipher c m seq with
    | none =>
      rw [clientStep_send_none cipher c st m seq hp, trackStep_send_none cipher c acc m seq hp]
      intro t e he
      exact ⟨(h t e he).1, weaken t e he⟩
    | some pb =>
      obtain ⟨pm, b⟩ := pb
      rw [clientStep_send_some cipher c st m seq pm b hp, trackStep_send_some cipher c acc m seq pm b hp]
      intro t e he
      rw [sFind_sSet] at he
      by_cases ht : m.token = t
      · simp only [ht, if_true] at he
        injection he with he
        subst he
        refine ⟨by simp [ht], m, seq, pm, by simp, ht, hp, rfl, rfl⟩
      · simp only [ht, if_false] at he
        have ht' : ¬ t = m.token := fun x => ht x.symm
        refine ⟨?_, weaken t e he⟩
        simp only [ht', if_false]
        exact (h t e he).1
  | recv r =>
    have e1 : clientStep cipher c st (.recv r) = (clientRecv cipher c st r).2 := rfl
    have e2 : trackStep cipher c acc (.recv r) = acc := rfl
    rw [e1, e2]
    intro t e he
    rcases clientRecv_store cipher c st r with hs | hs
    · rw [hs] at he
      exact ⟨(h t e he).1, weaken t e he⟩
    · rw [hs, sFind_sDel] at he
      by_cases ht : t = r.token
      · simp [ht] at he
      · simp only [ht, if_false] at he
        exact ⟨(h t e he).1, weaken t e he⟩

theorem SInv_run (cipher : Bytes → Bytes → Bytes) (c : Ctx) (steps : List CStep) :
    ∀ (st : Store) (acc : Bytes → Option Binding) (hist : List CStep), SInv cipher c st acc hist →
      SInv cipher c (steps.foldl (clientStep cipher c) st) (steps.foldl (trackStep cipher c) acc) (hist ++ steps) := by
  induction steps with
  | nil => intro st acc hist h; simpa using h
  | cons s rest ih =>
    intro st acc hist h
    have := ih _ _ _ (SInv_step cipher c st acc hist s h)
    simpa [List.foldl_cons, List.append_assoc] using this

theorem SInv_clientRun (cipher : Bytes → Bytes → Bytes) (c : Ctx) (steps : List CStep) :
    SInv cipher c (clientRun cipher c [] steps) (latestRequest cipher c steps) steps := by
  have h0 : SInv cipher c [] (fun _ => none) [] := by
    intro t e he
    simp [sFind] at he
  have := SInv_run cipher c steps [] (fun _ => none) [] h0
  simpa [clientRun, latestRequest] using this

theorem protectResponse_token (cipher : Bytes → Bytes → Bytes) (c : Ctx) (b : Binding) (m : Msg) (seq sepMid : Option Nat)
    (r : Msg) (h : protectResponse cipher c b m seq sepMid = some r) : r.token = m.token := by
  have hany : (m.opts.any fun o => decide (o.1 = optOscore)) = false := by
    cases h' : (m.opts.any fun o => decide (o.1 = optOscore)) with
    | false => rfl
    | true => simp [protectResponse, h'] at h
  cases seq with
  | none =>
    unfold protectResponse at h
    simp only [hany, if_false, Bool.false_eq_true] at h
    injection h with h
    subst h
    rfl
  | some n =>
    by_cases hs : n > maxSeq
    · simp [protectResponse, hany, hs] at h
    · unfold protectResponse at h
      simp only [hany, hs, decide_false, if_false, Bool.false_eq_true] at h
      injection h with h
      subst h
      rfl

theorem protectResponseFor_token (cipher : Bytes → Bytes → Bytes) (c : Ctx) (b : Binding) (o : Bool) (m : Msg) (ask : Bool)
    (seq : Nat) (sepMid : Option Nat) (r : Msg) (h : protectResponseFor cipher c b o m ask seq sepMid = some r) :
    r.token = m.token :=
  protectResponse_token cipher c b m _ sepMid r h

/-- a registration is an Observe request: a binding that is kept belongs to a request whose responses carry their own
Partial IV (D14.5) -/
theorem hasObserve_of_isRegistration (os : List (Nat × Bytes)) (h : isRegistration os = true) : hasObserve os = true := by
  unfold isRegistration at h
  unfold hasObserve
  rw [List.any_eq_true] at h ⊢
  obtain ⟨o, ho, h2⟩ := h
  refine ⟨o, ho, ?_⟩
  simp only [Bool.and_eq_true, decide_eq_true_eq] at h2
  simp [h2.1]

/-! ### M: libcoap's association list -/
open Coap.M.Oscore

theorem findAssoc_del (as : List Assoc) (t t' : Bytes) :
    findAssoc (delAssoc as t') t = if t = t' then none else findAssoc as t :=
  find_filter_key (fun a : Assoc => a.token) as t t'

theorem findAssoc_upd (as : List Assoc) (t t' : Bytes) (f : Assoc → Assoc) (hf : ∀ a, (f a).token = a.token) :
    findAssoc (updAssoc as t f) t' = if t' = t then (findAssoc as t').map f else findAssoc as t' := by
  unfold findAssoc updAssoc
  rw [List.find?_map]
  have hcomp : ((fun a : Assoc => decide (a.token = t')) ∘ fun a => if a.token = t then f a else a) =
      fun a => decide (a.token = t') := by
    funext a
    by_cases h : a.token = t
    · simp only [Function.comp, h, if_true]
      rw [hf a, h]
    · simp only [Function.comp, h, if_false]
  rw [hcomp]
  cases hfd : List.find? (fun a : Assoc => decide (a.token = t')) as with
  | none => simp
  | some a =>
    have ha : a.token = t' := by simpa using List.find?_some hfd
    by_cases ht : t' = t
    · have : a.token = t := ha.trans ht
      simp [ht, this]
    · have : ¬ a.token = t := fun h => ht (ha ▸ h)
      simp [ht, this]

theorem findAssoc_token (as : List Assoc) (t : Bytes) (a : Assoc) (h : findAssoc as t = some a) : a.token = t := by
  unfold findAssoc at h
  have := List.find?_some h
  simpa using this

/-- every association holds (aad, nonce, partial_iv) of the latest `protect` step with its token -/
def AInv (as : List Assoc) (acc : Bytes → Option (Bytes × Bytes × Bytes)) : Prop :=
  ∀ t a, findAssoc as t = some a → acc t = some (a.aad, a.nonce, a.piv)

theorem findAssoc_protect (as : List Assoc) (t aad nonce piv : Bytes) (o : Bool) (v : Nat) (t' : Bytes) :
    (t' = t → ∃ a, findAssoc (protectAssoc as t aad nonce piv o v) t' = some a ∧ a.aad = aad ∧ a.nonce = nonce ∧ a.piv = piv) ∧
    (¬ t' = t → findAssoc (protectAssoc as t aad nonce piv o v) t' = findAssoc as t') := by
  unfold protectAssoc
  cases hf : findAssoc as t with
  | none =>
    constructor
    · intro h; subst h
      exact ⟨⟨t', aad, nonce, piv, o⟩, by simp [findAssoc], rfl, rfl, rfl⟩
    · intro h
      have : ¬ t = t' := fun x => h x.symm
      simp [findAssoc, this]
  | some a0 =>
    simp only
    have hu := fun t'' => findAssoc_upd as t t''
      (fun a => { a with isObserve := o && v != 1, nonce := nonce, aad := aad, piv := piv }) (fun _ => rfl)
    constructor
    · intro h
      rw [hu, h]
      simp [hf]
    · intro h
      rw [hu]
      simp [h]

theorem AInv_step (as : List Assoc) (acc : Bytes → Option (Bytes × Bytes × Bytes)) (s : AStep) (h : AInv as acc) :
    AInv (assocStep as s) (assocTrack acc s) := by
  cases s with
  | protect t aad nonce piv o v =>
    unfold assocStep assocTrack
    intro t' a ha
    have hp := findAssoc_protect as t aad nonce piv o v t'
    by_cases ht : t' = t
    · obtain ⟨a', h1, h2, h3, h4⟩ := hp.1 ht
      rw [h1] at ha
      injection ha with ha
      subst ha
      simp [ht, h2, h3, h4]
    · rw [hp.2 ht] at ha
      simp only [ht, if_false]
      exact h t' a ha
  | decrypt t ok =>
    unfold assocStep assocTrack decryptAssoc
    intro t' a ha
    cases hf : findAssoc as t with
    | none => simp only [hf] at ha; exact h t' a ha
    | some a0 =>
      simp only [hf] at ha
      by_cases hc : (ok && !a0.isObserve) = true
      · simp only [hc, if_true] at ha
        rw [findAssoc_del] at ha
        by_cases ht : t' = t
        · simp [ht] at ha
        · simp only [ht, if_false] at ha
          exact h t' a ha
      · simp only [hc] at ha
        exact h t' a ha

theorem AInv_run (steps : List AStep) :
    ∀ (as : List Assoc) (acc : Bytes → Option (Bytes × Bytes × Bytes)), AInv as acc →
      AInv (steps.foldl assocStep as) (steps.foldl assocTrack acc) := by
  induction steps with
  | nil => intro as acc h; exact h
  | cons s rest ih => intro as acc h; exact ih _ _ (AInv_step as acc s h)

end Coap
