import CoapVerif.Model.Uri
import CoapVerif.Spec.Uri
/- Helper lemmas for C16: tables (T1) against the RFC character classes, options → string, the segment loop. -/
namespace Coap.UriL
open Coap Coap.MU Coap.Spec.Uri

/-! ### tables -/

set_option maxRecDepth 100000 in
theorem unescPathTab_eq : Generated.Uri.unescPathTab = pathPlainTab := by decide
set_option maxRecDepth 100000 in
theorem unescQueryTab_eq : Generated.Uri.unescQueryTab = queryPlainTab := by decide

theorem range_map_getD (f : Nat → Bool) (n k : Nat) (h : k < n) : ((List.range n).map f).getD k false = f k := by
  simp [List.getD, h]

theorem unescPath_eq (c : UInt8) : unescPath c = pathPlain c := by
  unfold unescPath
  rw [unescPathTab_eq, pathPlainTab, range_map_getD _ _ _ (by have := c.toNat_lt; omega)]
  simp

theorem unescQuery_eq (c : UInt8) : unescQuery c = queryPlain c := by
  unfold unescQuery
  rw [unescQueryTab_eq, queryPlainTab, range_map_getD _ _ _ (by have := c.toNat_lt; omega)]
  simp

theorem unescPath_fun : unescPath = pathPlain := funext unescPath_eq
theorem unescQuery_fun : unescQuery = queryPlain := funext unescQuery_eq

theorem hexUp_eq (n : Nat) : hexUp n = hexUpper n := rfl

/-! ### options → string -/

theorem escSeg_eq (unesc plain : UInt8 → Bool) (h : unesc = plain) (seg : Bytes) : escSeg unesc seg = pctEncode plain seg := by
  subst h
  induction seg with
  | nil => rfl
  | cons c r ih => simp [escSeg, pctEncode, ih, hexUp_eq]

theorem escSeg_length (unesc : UInt8 → Bool) (seg : Bytes) : (escSeg unesc seg).length = escLen unesc seg := by
  induction seg with
  | nil => rfl
  | cons c r ih =>
    by_cases h : unesc c = true <;> simp [escSeg, escLen, h, ih] <;> omega

theorem optVal_id (seg : Bytes) (h : seg.length < 65536) : optVal seg = seg := by
  unfold optVal
  rw [Nat.mod_eq_of_lt h, List.take_length]

theorem map_optVal (segs : List Bytes) (h : ∀ s ∈ segs, s.length < 65536) : segs.map optVal = segs := by
  induction segs with
  | nil => rfl
  | cons s r ih =>
    simp only [List.map_cons]
    rw [optVal_id s (h s (by simp)), ih (fun x hx => h x (by simp [hx]))]

/-- what the write pass emits for every option but the first -/
def tailStr (sep : UInt8) (l : List Bytes) : Bytes := (l.map (fun s => sep :: s)).flatten

theorem writePass_succ (unesc : UInt8 → Bool) (sep : UInt8) (segs : List Bytes) (n : Nat) :
    writePass unesc sep (n + 1) segs = tailStr sep (segs.map (escSeg unesc)) := by
  induction segs generalizing n with
  | nil => rfl
  | cons s r ih => simp [writePass, tailStr, ih (n + 1)]

theorem joinSep_cons (sep : UInt8) (s : Bytes) (r : List Bytes) : joinSep sep (s :: r) = s ++ tailStr sep r := by
  induction r generalizing s with
  | nil => simp [joinSep, tailStr]
  | cons t r ih => simp [joinSep, tailStr, ih t]

theorem writePass_zero (unesc : UInt8 → Bool) (sep : UInt8) (segs : List Bytes) :
    writePass unesc sep 0 segs = joinSep sep (segs.map (escSeg unesc)) := by
  cases segs with
  | nil => rfl
  | cons s r => simp [writePass, writePass_succ, joinSep_cons]

theorem tailStr_length (unesc : UInt8 → Bool) (sep : UInt8) (segs : List Bytes) :
    (tailStr sep (segs.map (escSeg unesc))).length = lenSum unesc segs := by
  induction segs with
  | nil => rfl
  | cons s r ih =>
    simp [tailStr, lenSum, escSeg_length] at ih ⊢
    omega

theorem writePass_length (unesc : UInt8 → Bool) (sep : UInt8) (segs : List Bytes) :
    (writePass unesc sep 0 segs).length = lenPass unesc segs := by
  cases segs with
  | nil => rfl
  | cons s r =>
    have := tailStr_length unesc sep r
    simp [writePass, writePass_succ, lenPass, lenSum, escSeg_length, this]

/-! ### decoding what was composed -/

theorem hexVal_hexUpper : ∀ n, n < 16 → hexDigitVal (hexUpper n) = some n := by decide

theorem pctDecode_cons_plain (c : UInt8) (r t : Bytes) (h : c ≠ 0x25) (ht : pctDecode r = some t) :
    pctDecode (c :: r) = some (c :: t) := by
  rw [pctDecode.eq_def]; simp only [h, if_false, ht]

theorem pctDecode_esc (a b : UInt8) (r t : Bytes) (x y : Nat) (hx : hexDigitVal a = some x) (hy : hexDigitVal b = some y)
    (ht : pctDecode r = some t) : pctDecode (0x25 :: a :: b :: r) = some (UInt8.ofNat (x * 16 + y) :: t) := by
  rw [pctDecode.eq_def]; simp only [if_true, hx, hy, ht]

theorem byte_of_nibbles (c : UInt8) : UInt8.ofNat (c.toNat / 16 * 16 + c.toNat % 16) = c := by
  have : c.toNat / 16 * 16 + c.toNat % 16 = c.toNat := by omega
  rw [this]; simp

theorem pctDecode_encode (plain : UInt8 → Bool) (hp : plain 0x25 = false) (seg : Bytes) :
    pctDecode (pctEncode plain seg) = some seg := by
  induction seg with
  | nil => rfl
  | cons c r ih =>
    by_cases h : plain c = true
    · have hc : c ≠ 0x25 := by intro e; rw [e, hp] at h; exact Bool.false_ne_true h
      simp only [pctEncode, h, if_true]
      exact pctDecode_cons_plain _ _ _ hc ih
    · have h1 := hexVal_hexUpper (c.toNat / 16) (by have := c.toNat_lt; omega)
      have h2 := hexVal_hexUpper (c.toNat % 16) (by omega)
      simp only [pctEncode, h, Bool.false_eq_true, if_false]
      rw [pctDecode_esc _ _ _ _ _ _ h1 h2 ih, byte_of_nibbles]

/-- the characters an encoded segment consists of never end the component and never separate segments -/
structure Safe (plain stop sep : UInt8 → Bool) (sepc : UInt8) : Prop where
  plain_ok : ∀ c, plain c = true → stop c = false ∧ sep c = false
  pct_ok : stop 0x25 = false ∧ sep 0x25 = false
  hex_ok : ∀ n, n < 16 → stop (hexUpper n) = false ∧ sep (hexUpper n) = false
  sep_stop : stop sepc = false
  sep_sep : sep sepc = true
  plain_pct : plain 0x25 = false

theorem splitAcc_enc {plain stop sep : UInt8 → Bool} {sepc : UInt8} (hs : Safe plain stop sep sepc)
    (seg rest cur : Bytes) :
    splitAcc stop sep (pctEncode plain seg ++ rest) cur = splitAcc stop sep rest (cur ++ pctEncode plain seg) := by
  induction seg generalizing cur with
  | nil => simp [pctEncode]
  | cons c r ih =>
    by_cases h : plain c = true
    · have ⟨h1, h2⟩ := hs.plain_ok c h
      simp [pctEncode, h, splitAcc, h1, h2, ih]
    · have ⟨p1, p2⟩ := hs.pct_ok
      have ⟨a1, a2⟩ := hs.hex_ok (c.toNat / 16) (by have := c.toNat_lt; omega)
      have ⟨b1, b2⟩ := hs.hex_ok (c.toNat % 16) (by omega)
      simp [pctEncode, h, splitAcc, p1, p2, a1, a2, b1, b2, ih]

theorem splitAcc_join {plain stop sep : UInt8 → Bool} {sepc : UInt8} (hs : Safe plain stop sep sepc)
    (s : Bytes) (r : List Bytes) (cur : Bytes) :
    splitAcc stop sep (pctEncode plain s ++ tailStr sepc (r.map (pctEncode plain))) cur =
      (cur ++ pctEncode plain s) :: r.map (pctEncode plain) := by
  induction r generalizing s cur with
  | nil =>
    have := splitAcc_enc hs s [] cur
    simp [tailStr, splitAcc] at this ⊢
    exact this
  | cons t r ih =>
    have := ih t []
    simp [tailStr, splitAcc_enc hs] at this
    simp [tailStr, splitAcc_enc hs, splitAcc, hs.sep_stop, hs.sep_sep, this]

theorem decodeAll_enc (plain : UInt8 → Bool) (hp : plain 0x25 = false) (segs : List Bytes) :
    decodeAll (segs.map (pctEncode plain)) = some segs := by
  induction segs with
  | nil => rfl
  | cons s r ih => simp [decodeAll, pctDecode_encode plain hp, ih]

/-- splitting and decoding the composed string gives the segments back ([] comes back as the one empty segment) -/
theorem recover {plain stop sep : UInt8 → Bool} {sepc : UInt8} (hs : Safe plain stop sep sepc) (segs : List Bytes) :
    decodeAll (rawSegs stop sep (joinSep sepc (segs.map (pctEncode plain)))) = some (if segs = [] then [[]] else segs) := by
  cases segs with
  | nil => simp [joinSep, rawSegs, splitAcc, decodeAll, pctDecode]
  | cons s r =>
    have h := splitAcc_join hs s r []
    simp only [List.map_cons, joinSep_cons, rawSegs, h, List.nil_append]
    have := decodeAll_enc plain hs.plain_pct (s :: r)
    simpa using this

theorem compose_injective {plain stop sep : UInt8 → Bool} {sepc : UInt8} (hs : Safe plain stop sep sepc) (a b : List Bytes)
    (h : joinSep sepc (a.map (pctEncode plain)) = joinSep sepc (b.map (pctEncode plain))) : norm a = norm b := by
  have ha := recover hs a
  have hb := recover hs b
  rw [h, hb] at ha
  have e := Option.some.inj ha
  by_cases h1 : a = [] <;> by_cases h2 : b = [] <;> simp [h1, h2] at e <;> simp [norm, h1, h2, e]

theorem pathSafe : Safe pathPlain pathStop pathSep 0x2f where
  plain_ok := by
    intro c h
    by_cases h1 : c = 0x3f
    · subst h1; exact absurd h (by decide)
    by_cases h2 : c = 0x23
    · subst h2; exact absurd h (by decide)
    by_cases h3 : c = 0x2f
    · subst h3; exact absurd h (by decide)
    simp [pathStop, pathSep, h1, h2, h3]
  pct_ok := by decide
  hex_ok := by decide
  sep_stop := by decide
  sep_sep := by decide
  plain_pct := by decide

theorem querySafe : Safe queryPlain queryStop querySep 0x26 where
  plain_ok := by
    intro c h
    by_cases h2 : c = 0x23
    · subst h2; exact absurd h (by decide)
    by_cases h3 : c = 0x26
    · subst h3; exact absurd h (by decide)
    simp [queryStop, querySep, h2, h3]
  pct_ok := by decide
  hex_ok := by decide
  sep_stop := by decide
  sep_sep := by decide
  plain_pct := by decide

/-! ### the segment loop -/

theorem pStop_eq : pStop = pathStop := rfl
theorem pSep_eq : pSep = pathSep := rfl
theorem qStop_eq : qStop = queryStop := rfl
theorem qSep_eq : qSep = querySep := rfl

/-- if the handler, given a segment as (pointer into the buffer, length), always succeeds with a result that
depends on the segment's bytes only, the loop is a fold over the raw segments -/
theorem segLoop_eq {σ : Type} (h : Bytes → Nat → σ → R σ) (hS : Bytes → σ → σ) (stop sep : UInt8 → Bool)
    (hh : ∀ seg rest st, h (seg ++ rest) seg.length st = R.ok (hS seg st)) (q cur : Bytes) (st : σ) :
    segLoop h stop sep q (cur ++ q) cur.length st = R.ok ((splitAcc stop sep q cur).foldl (fun s seg => hS seg s) st) := by
  induction q generalizing cur st with
  | nil =>
    have := hh cur [] st
    simp at this
    simp [segLoop, splitAcc, this]
  | cons c q' ih =>
    by_cases h1 : stop c = true
    · simp [segLoop, splitAcc, h1, hh]
    · by_cases h2 : sep c = true
      · have := ih [] (hS cur st)
        simp at this
        simp [segLoop, splitAcc, h1, h2, hh, this]
      · have := ih (cur ++ [c]) st
        simp at this
        simp [segLoop, splitAcc, h1, h2, this]

/-! ### dots() -/

/-- is the first "character" of the segment a dot, and how many bytes is it -/
def dotLen : Bytes → Option Nat
  | [] => none
  | c :: t =>
    if c = 0x25 ∧ (c :: t).length ≥ 3 then
      match t with
      | a :: b :: _ => if a = 0x32 then (if b = 0x45 ∨ b = 0x65 then some 3 else none) else none
      | _ => none
    else if c = 0x2e then some 1 else none

def dotKind (seg : Bytes) : Nat :=
  if seg = [] then 0 else
  match dotLen seg with
  | none => 0
  | some k =>
    if seg.length - k = 0 then 1 else
    match dotLen (seg.drop k) with
    | none => 0
    | some k2 => if seg.length - k - k2 = 0 then 2 else 0

theorem dotChar_eq (seg rest : Bytes) (hne : seg ≠ []) : dotChar (seg ++ rest) seg.length = R.ok (dotLen seg) := by
  cases seg with
  | nil => exact absurd rfl hne
  | cons c t =>
    by_cases hc : c = 0x25
    · subst hc
      cases t with
      | nil => simp [dotChar, rdb, dotLen]
      | cons a t1 =>
        cases t1 with
        | nil => simp [dotChar, rdb, dotLen]
        | cons b t2 =>
          by_cases ha : a = 0x32 <;> by_cases hb : b = 0x45 ∨ b = 0x65 <;> simp [dotChar, rdb, dotLen, ha, hb]
    · by_cases hd : c = 0x2e <;> simp [dotChar, rdb, dotLen, hc, hd]

theorem dotLen_le (seg : Bytes) (k : Nat) (h : dotLen seg = some k) : k ≤ seg.length ∧ 0 < k := by
  cases seg with
  | nil => simp [dotLen] at h
  | cons c t =>
    by_cases hc : c = 0x25
    · subst hc
      cases t with
      | nil => simp [dotLen] at h
      | cons a t1 =>
        cases t1 with
        | nil => simp [dotLen] at h
        | cons b t2 =>
          by_cases ha : a = 0x32 <;> by_cases hb : b = 0x45 ∨ b = 0x65 <;> simp [dotLen, ha, hb] at h
          subst h; simp
    · by_cases hd : c = 0x2e <;> simp [dotLen, hc, hd] at h
      subst h; simp

theorem dots_eq (seg rest : Bytes) : dots (seg ++ rest) seg.length = R.ok (dotKind seg) := by
  by_cases hne : seg = []
  · subst hne; simp [dots, dotKind]
  · have hl : seg.length ≠ 0 := by simpa using hne
    unfold dots dotKind
    rw [dotChar_eq seg rest hne]
    simp only [hl, hne, if_false]
    cases hk : dotLen seg with
    | none => rfl
    | some k =>
      have ⟨hle, hpos⟩ := dotLen_le seg k hk
      by_cases h0 : seg.length - k = 0
      · simp [h0]
      · simp only [h0, if_false]
        have hne2 : seg.drop k ≠ [] := by
          intro e
          have := congrArg List.length e
          simp at this; omega
        have hd : (seg ++ rest).drop k = seg.drop k ++ rest := by
          rw [List.drop_append_of_le_length hle]
        have hlen : seg.length - k = (seg.drop k).length := by simp
        rw [hd, hlen, dotChar_eq _ rest hne2]
        cases dotLen (seg.drop k) with
        | none => rfl
        | some k2 => by_cases h3 : seg.length - k - k2 = 0 <;> simp [h3]

/-! ### hex tables (T1) against RFC 3986 HEXDIG -/

def hexRow (n : Nat) : Bool :=
  match hexDigitVal (UInt8.ofNat n) with
  | some x => Generated.Uri.hexDecTab.getD n 0 == x && Generated.Uri.xdigitTab.getD n false && decide (x < 16)
  | none => !Generated.Uri.xdigitTab.getD n false

set_option maxRecDepth 100000 in
theorem hex_tab : ∀ n, n < 256 → hexRow n = true := by decide

theorem hex_some (c : UInt8) (x : Nat) (h : hexDigitVal c = some x) : hexDec c = x ∧ isXdigit c = true ∧ x < 16 := by
  have := hex_tab c.toNat c.toNat_lt
  simp only [hexRow, UInt8.ofNat_toNat, h, Bool.and_eq_true, beq_iff_eq, decide_eq_true_eq] at this
  exact ⟨this.1.1, this.1.2, this.2⟩

theorem hex_none (c : UInt8) (h : hexDigitVal c = none) : isXdigit c = false := by
  have := hex_tab c.toNat c.toNat_lt
  simp only [hexRow, UInt8.ofNat_toNat, h, Bool.not_eq_true'] at this
  exact this

set_option maxRecDepth 100000 in
theorem hex_inv2 : ∀ n, n < 256 → hexDigitVal (UInt8.ofNat n) = some 2 → n = 50 := by decide
set_option maxRecDepth 100000 in
theorem hex_inv14 : ∀ n, n < 256 → hexDigitVal (UInt8.ofNat n) = some 14 → n = 69 ∨ n = 101 := by decide

theorem hex_is2 (c : UInt8) (h : hexDigitVal c = some 2) : c = 0x32 := by
  have := hex_inv2 c.toNat c.toNat_lt (by simpa using h)
  exact UInt8.toNat_inj.mp this

theorem hex_is14 (c : UInt8) (h : hexDigitVal c = some 14) : c = 0x45 ∨ c = 0x65 := by
  rcases hex_inv14 c.toNat c.toNat_lt (by simpa using h) with h | h
  · exact Or.inl (UInt8.toNat_inj.mp h)
  · exact Or.inr (UInt8.toNat_inj.mp h)

/-- shape of a successful decoding, by the first byte -/
theorem pctDecode_cons_inv (c : UInt8) (r d : Bytes) (h : pctDecode (c :: r) = some d) :
    (c ≠ 0x25 ∧ ∃ t, pctDecode r = some t ∧ d = c :: t) ∨
    (c = 0x25 ∧ ∃ a b r' x y t, r = a :: b :: r' ∧ hexDigitVal a = some x ∧ hexDigitVal b = some y ∧
        pctDecode r' = some t ∧ d = UInt8.ofNat (x * 16 + y) :: t) := by
  rw [pctDecode.eq_def] at h
  by_cases hc : c = 0x25
  · right
    refine ⟨hc, ?_⟩
    simp only [hc, if_true] at h
    cases r with
    | nil => simp at h
    | cons a r1 =>
      cases r1 with
      | nil => simp at h
      | cons b r' =>
        simp only at h
        cases hx : hexDigitVal a with
        | none => simp [hx] at h
        | some x =>
          cases hy : hexDigitVal b with
          | none => simp [hx, hy] at h
          | some y =>
            cases ht : pctDecode r' with
            | none => simp [hx, hy, ht] at h
            | some t =>
              simp only [hx, hy, ht, Option.some.injEq] at h
              exact ⟨a, b, r', x, y, t, rfl, hx, hy, ht, h.symm⟩
  · left
    refine ⟨hc, ?_⟩
    simp only [hc, if_false] at h
    cases ht : pctDecode r with
    | none => simp [ht] at h
    | some t => simp [ht] at h; exact ⟨t, rfl, h.symm⟩

theorem ofNat_mod256 (n : Nat) : UInt8.ofNat (n % 256) = UInt8.ofNat n := by
  apply UInt8.toNat_inj.mp
  simp

theorem replacePercents_eq (seg d : Bytes) (h : pctDecode seg = some d) : replacePercents seg = d := by
  induction seg using replacePercents.induct generalizing d with
  | case1 => simp [pctDecode] at h; simp [replacePercents, h]
  | case2 a b r' ih =>
    rcases pctDecode_cons_inv _ _ _ h with ⟨hc, _⟩ | ⟨_, a', b', r'', x, y, t, hr, hx, hy, ht, hd⟩
    · exact absurd rfl hc
    · cases hr
      simp only [replacePercents, if_true]
      rw [(hex_some _ _ hx).1, (hex_some _ _ hy).1, ih t ht, ofNat_mod256, hd]
  | case3 c a b r' hc ih =>
    rcases pctDecode_cons_inv _ _ _ h with ⟨_, t, ht, hd⟩ | ⟨hc', _⟩
    · simp only [replacePercents, hc, if_false]
      rw [ih t ht, hd]
    · exact absurd hc' hc
  | case4 c r hnot ih =>
    rcases pctDecode_cons_inv _ _ _ h with ⟨hc, t, ht, hd⟩ | ⟨_, a', b', r'', x, y, t, hr, _⟩
    · rw [replacePercents]
      · rw [ih t ht, hd]
      · exact hnot
    · exact absurd hr (hnot a' b' r'')

/-! ### dots() against the decoded value -/

theorem pctDecode_nil_inv (s : Bytes) (h : pctDecode s = some []) : s = [] := by
  cases s with
  | nil => rfl
  | cons c r =>
    rcases pctDecode_cons_inv _ _ _ h with ⟨_, t, _, hd⟩ | ⟨_, _, _, _, _, _, _, _, _, _, _, hd⟩ <;> cases hd

theorem byte_2e (x y : Nat) (hx : x < 16) (hy : y < 16) (h : UInt8.ofNat (x * 16 + y) = 0x2e) : x = 2 ∧ y = 14 := by
  have := congrArg UInt8.toNat h
  simp at this
  omega

/-- a decodable segment starts with a dot character iff its decoding starts with '.' -/
theorem dotLen_decode (seg d : Bytes) (h : pctDecode seg = some d) :
    (∀ k, dotLen seg = some k → ∃ d', d = 0x2e :: d' ∧ pctDecode (seg.drop k) = some d') ∧
    (dotLen seg = none → d.head? ≠ some 0x2e) := by
  cases seg with
  | nil => simp [pctDecode] at h; subst h; simp [dotLen]
  | cons c t =>
    rcases pctDecode_cons_inv _ _ _ h with ⟨hc, t', ht, hd⟩ | ⟨hc, a, b, r', x, y, t', hr, hx, hy, ht, hd⟩
    · subst hd
      by_cases h2 : c = 0x2e
      · subst h2; simp [dotLen, ht]
      · simp [dotLen, hc, h2]
    · subst hc; subst hr
      have ⟨_, _, hx16⟩ := hex_some _ _ hx
      have ⟨_, _, hy16⟩ := hex_some _ _ hy
      have key : UInt8.ofNat (x * 16 + y) = 0x2e ↔ (a = 0x32 ∧ (b = 0x45 ∨ b = 0x65)) := by
        constructor
        · intro e
          have ⟨e1, e2⟩ := byte_2e x y hx16 hy16 e
          subst e1; subst e2
          exact ⟨hex_is2 a hx, hex_is14 b hy⟩
        · intro ⟨ha, hb⟩
          subst ha
          have hx2 : x = 2 := by
            have : hexDigitVal 0x32 = some 2 := by decide
            rw [this] at hx; exact (Option.some.inj hx).symm
          have hy14 : y = 14 := by
            rcases hb with hb | hb <;> subst hb
            · have : hexDigitVal 0x45 = some 14 := by decide
              rw [this] at hy; exact (Option.some.inj hy).symm
            · have : hexDigitVal 0x65 = some 14 := by decide
              rw [this] at hy; exact (Option.some.inj hy).symm
          rw [hx2, hy14]; rfl
      generalize UInt8.ofNat (x * 16 + y) = v at hd key
      subst hd
      by_cases ha : a = 0x32
      · by_cases hb : b = 0x45 ∨ b = 0x65
        · have e : v = 0x2e := key.mpr ⟨ha, hb⟩
          simp [dotLen, ha, hb, e, ht]
        · have ne : v ≠ 0x2e := fun e => hb (key.mp e).2
          simp [dotLen, ha, hb, ne]
      · have ne : v ≠ 0x2e := fun e => ha (key.mp e).1
        simp [dotLen, ha, ne]

theorem dotKind_decode (seg d : Bytes) (h : pctDecode seg = some d) :
    dotKind seg = if d = dot1 then 1 else if d = dot2 then 2 else 0 := by
  unfold dotKind
  by_cases hne : seg = []
  · subst hne; simp [pctDecode] at h; subst h; simp [dot1, dot2]
  · simp only [hne, if_false]
    have ⟨h1, h2⟩ := dotLen_decode seg d h
    cases hk : dotLen seg with
    | none =>
      have := h2 hk
      have n1 : d ≠ dot1 := by intro e; subst e; simp [dot1] at this
      have n2 : d ≠ dot2 := by intro e; subst e; simp [dot2] at this
      simp [n1, n2]
    | some k =>
      obtain ⟨d', hd, hdec⟩ := h1 k hk
      have ⟨hle, hpos⟩ := dotLen_le seg k hk
      by_cases h0 : seg.length - k = 0
      · have : seg.drop k = [] := by apply List.eq_nil_of_length_eq_zero; simp; omega
        rw [this] at hdec; simp [pctDecode] at hdec
        subst hdec; subst hd; simp [h0, dot1]
      · have hne2 : seg.drop k ≠ [] := by
          intro e; have := congrArg List.length e; simp at this; omega
        have hd'ne : d' ≠ [] := by
          intro e; subst e; exact hne2 (pctDecode_nil_inv _ hdec)
        have n1 : d ≠ dot1 := by subst hd; simp [dot1, hd'ne]
        simp only [h0, if_false, n1]
        have ⟨g1, g2⟩ := dotLen_decode (seg.drop k) d' hdec
        cases hk2 : dotLen (seg.drop k) with
        | none =>
          have := g2 hk2
          have n2 : d ≠ dot2 := by
            subst hd; intro e; simp [dot2] at e; subst e; simp at this
          simp [n2]
        | some k2 =>
          obtain ⟨d'', hd2, hdec2⟩ := g1 k2 hk2
          have ⟨hle2, hpos2⟩ := dotLen_le _ k2 hk2
          simp at hle2
          by_cases h3 : seg.length - k - k2 = 0
          · have : (seg.drop k).drop k2 = [] := by apply List.eq_nil_of_length_eq_zero; simp; omega
            rw [this] at hdec2; simp [pctDecode] at hdec2
            subst hdec2; subst hd2; subst hd; simp [h3, dot2]
          · have hne3 : (seg.drop k).drop k2 ≠ [] := by
              intro e; have := congrArg List.length e; simp at this; omega
            have : d'' ≠ [] := by intro e; subst e; exact hne3 (pctDecode_nil_inv _ hdec2)
            have n2 : d ≠ dot2 := by subst hd; subst hd2; simp [dot2, this]
            simp [h3, n2]

/-! ### the optlist builders -/

theorem copySeg_eq (seg rest : Bytes) : copySeg (seg ++ rest) seg.length = R.ok seg := by
  simp [copySeg]

/-- what coap_path_into_optlist does with one raw segment -/
def pathStepM (seg : Bytes) (acc : List Bytes) : List Bytes :=
  if dotKind seg = 1 then acc else if dotKind seg = 2 then acc.dropLast else acc ++ [replacePercents seg]

theorem pathHandlerOpt_eq (seg rest : Bytes) (acc : List Bytes) :
    pathHandlerOpt (seg ++ rest) seg.length acc = R.ok (pathStepM seg acc) := by
  unfold pathHandlerOpt pathStepM
  rw [dots_eq]
  by_cases h1 : dotKind seg = 1
  · simp [h1]
  · by_cases h2 : dotKind seg = 2
    · simp [h2]
    · simp [h1, h2, addOpt, copySeg_eq]

theorem addOpt_eq (seg rest : Bytes) (acc : List Bytes) :
    addOpt (seg ++ rest) seg.length acc = R.ok (acc ++ [replacePercents seg]) := by
  simp [addOpt, copySeg_eq]

theorem fold_path (raws ds : List Bytes) (acc : List Bytes) (h : decodeAll raws = some ds) :
    raws.foldl (fun s seg => pathStepM seg s) acc = ds.foldl resolveStep acc := by
  induction raws generalizing ds acc with
  | nil => simp [decodeAll] at h; subst h; rfl
  | cons r rs ih =>
    simp only [decodeAll] at h
    cases hd : pctDecode r with
    | none => simp [hd] at h
    | some d =>
      cases ht : decodeAll rs with
      | none => simp [hd, ht] at h
      | some t =>
        simp [hd, ht] at h
        subst h
        simp only [List.foldl_cons]
        have : pathStepM r acc = resolveStep acc d := by
          unfold pathStepM resolveStep
          rw [dotKind_decode r d hd, replacePercents_eq r d hd]
          by_cases e1 : d = dot1
          · simp [e1]
          · by_cases e2 : d = dot2
            · have : dot2 ≠ dot1 := by decide
              subst e2; simp [this]
            · simp [e1, e2]
        rw [this]
        exact ih t _ ht

theorem fold_query (raws ds : List Bytes) (acc : List Bytes) (h : decodeAll raws = some ds) :
    raws.foldl (fun s seg => s ++ [replacePercents seg]) acc = acc ++ ds := by
  induction raws generalizing ds acc with
  | nil => simp [decodeAll] at h; subst h; simp
  | cons r rs ih =>
    simp only [decodeAll] at h
    cases hd : pctDecode r with
    | none => simp [hd] at h
    | some d =>
      cases ht : decodeAll rs with
      | none => simp [hd, ht] at h
      | some t =>
        simp [hd, ht] at h
        subst h
        simp only [List.foldl_cons]
        rw [ih t _ ht, replacePercents_eq r d hd]
        simp

theorem pathOpts_fold (input : Bytes) :
    pathOpts input = R.ok ((rawSegs pathStop pathSep input).foldl (fun s seg => pathStepM seg s) []) := by
  have := segLoop_eq pathHandlerOpt pathStepM pStop pSep pathHandlerOpt_eq input [] []
  simpa [pathOpts, rawSegs, pStop_eq, pSep_eq] using this

theorem queryOpts_fold (input : Bytes) :
    queryOpts input = R.ok ((rawSegs queryStop querySep input).foldl (fun s seg => s ++ [replacePercents seg]) []) := by
  have := segLoop_eq addOpt (fun seg s => s ++ [replacePercents seg]) qStop qSep addOpt_eq input [] []
  simpa [queryOpts, rawSegs, qStop_eq, qSep_eq] using this

theorem pathOpts_eq (input : Bytes) (segs : List Bytes) (h : Spec.Uri.splitPath input = some segs) : pathOpts input = R.ok segs := by
  unfold Spec.Uri.splitPath at h
  cases hd : decodeAll (rawSegs pathStop pathSep input) with
  | none => simp [hd] at h
  | some ds =>
    simp [hd] at h
    rw [pathOpts_fold, fold_path _ ds [] hd, ← h]; rfl

theorem queryOpts_eq (input : Bytes) (segs : List Bytes) (h : Spec.Uri.splitQuery input = some segs) : queryOpts input = R.ok segs := by
  unfold Spec.Uri.splitQuery at h
  rw [queryOpts_fold, fold_query _ segs [] h]; simp

/-! ### dot segments at the level of S -/

theorem resolve_no_dots (segs acc : List Bytes) (ha : dot1 ∉ acc ∧ dot2 ∉ acc) :
    dot1 ∉ segs.foldl resolveStep acc ∧ dot2 ∉ segs.foldl resolveStep acc := by
  induction segs generalizing acc with
  | nil => exact ha
  | cons s r ih =>
    simp only [List.foldl_cons]
    apply ih
    unfold resolveStep
    by_cases e1 : s = dot1
    · simp [e1, ha]
    · by_cases e2 : s = dot2
      · simp only [e1, e2, if_true, if_false]
        exact ⟨fun h => ha.1 ((List.dropLast_sublist _).subset h), fun h => ha.2 ((List.dropLast_sublist _).subset h)⟩
      · simp only [e1, e2, if_false, List.mem_append, List.mem_singleton, not_or]
        exact ⟨⟨ha.1, fun e => e1 e.symm⟩, ⟨ha.2, fun e => e2 e.symm⟩⟩

theorem resolve_id (segs acc : List Bytes) (h : dot1 ∉ segs ∧ dot2 ∉ segs) : segs.foldl resolveStep acc = acc ++ segs := by
  induction segs generalizing acc with
  | nil => simp
  | cons s r ih =>
    simp only [List.mem_cons, not_or] at h
    have e1 : s ≠ dot1 := fun e => h.1.1 e.symm
    have e2 : s ≠ dot2 := fun e => h.2.1 e.symm
    simp only [List.foldl_cons, resolveStep, e1, e2, if_false]
    rw [ih _ ⟨h.1.2, h.2.2⟩]; simp

/-! ### the buffer writers: check_segment / decode_segment -/

theorem drop3 (a b c : UInt8) (t rest : Bytes) : (a :: b :: c :: t ++ rest).drop 3 = t ++ rest := rfl

theorem check_decode (fuel : Nat) (seg rest : Bytes) (n : Nat) (hf : seg.length < fuel) :
    (∀ d, pctDecode seg = some d →
        checkSegment fuel (seg ++ rest) seg.length n = R.ok (n + d.length) ∧
        decodeSegment fuel (seg ++ rest) seg.length = R.ok d) ∧
    (pctDecode seg = none → checkSegment fuel (seg ++ rest) seg.length n = R.rej) := by
  induction fuel generalizing seg n with
  | zero => omega
  | succ fuel ih =>
    cases seg with
    | nil =>
      constructor
      · intro d hd; simp [pctDecode] at hd; subst hd; simp [checkSegment, decodeSegment]
      · intro hd; simp [pctDecode] at hd
    | cons c t =>
      by_cases hc : c = 0x25
      · subst hc
        cases t with
        | nil =>
          constructor
          · intro d hd; rw [pctDecode.eq_def] at hd; simp at hd
          · intro _; simp [checkSegment, rdb]
        | cons a t1 =>
          cases t1 with
          | nil =>
            constructor
            · intro d hd; rw [pctDecode.eq_def] at hd; simp at hd
            · intro _; simp [checkSegment, rdb]
          | cons b t2 =>
            have hf2 : t2.length < fuel := by simp at hf; omega
            have ⟨ih1, ih2⟩ := ih t2 (n + 1) hf2
            have hlen : (0x25 :: a :: b :: t2).length - 3 = t2.length := by simp
            have hl3 : ¬ (0x25 :: a :: b :: t2 : Bytes).length < 3 := by simp
            have hl0 : (0x25 :: a :: b :: t2 : Bytes).length ≠ 0 := by simp
            cases hx : hexDigitVal a with
            | none =>
              have xa := hex_none a hx
              constructor
              · intro d hd; rw [pctDecode.eq_def] at hd; simp [hx] at hd
              · intro _; simp [checkSegment, rdb, xa]
            | some x =>
              have ⟨da, xa, _⟩ := hex_some a x hx
              cases hy : hexDigitVal b with
              | none =>
                have xb := hex_none b hy
                constructor
                · intro d hd; rw [pctDecode.eq_def] at hd; simp [hx, hy] at hd
                · intro _; simp [checkSegment, rdb, xa, xb]
              | some y =>
                have ⟨db, xb, _⟩ := hex_some b y hy
                have cs : checkSegment (fuel + 1) (0x25 :: a :: b :: t2 ++ rest) (0x25 :: a :: b :: t2 : Bytes).length n =
                    checkSegment fuel (t2 ++ rest) t2.length (n + 1) := by
                  rw [checkSegment]
                  simp only [hl0, hl3, if_false, rdb, hlen]
                  simp [xa, xb]
                cases ht : pctDecode t2 with
                | none =>
                  constructor
                  · intro d hd; rw [pctDecode.eq_def] at hd; simp [hx, hy, ht] at hd
                  · intro _; rw [cs]; exact ih2 ht
                | some t' =>
                  constructor
                  · intro d hd
                    rw [pctDecode_esc _ _ _ _ _ _ hx hy ht] at hd
                    have hd := (Option.some.inj hd).symm
                    subst hd
                    have ⟨c1, c2⟩ := ih1 t' ht
                    constructor
                    · rw [cs, c1]; simp; omega
                    · rw [decodeSegment]
                      simp only [hl0, hl3, if_false, rdb, hlen]
                      simp [c2, da, db, ofNat_mod256]
                  · intro hd; rw [pctDecode_esc _ _ _ _ _ _ hx hy ht] at hd; cases hd
      · have hf2 : t.length < fuel := by simp at hf; omega
        have ⟨ih1, ih2⟩ := ih t (n + 1) hf2
        have cs : checkSegment (fuel + 1) (c :: t ++ rest) (c :: t).length n =
            checkSegment fuel (t ++ rest) t.length (n + 1) := by
          rw [checkSegment]; simp [rdb, hc]
        cases ht : pctDecode t with
        | none =>
          constructor
          · intro d hd; rw [pctDecode.eq_def] at hd; simp [hc, ht] at hd
          · intro _; rw [cs]; exact ih2 ht
        | some t' =>
          constructor
          · intro d hd
            rw [pctDecode_cons_plain _ _ _ hc ht] at hd
            have hd := (Option.some.inj hd).symm
            subst hd
            have ⟨c1, c2⟩ := ih1 t' ht
            constructor
            · rw [cs, c1]; simp; omega
            · rw [decodeSegment]; simp [rdb, hc, c2]
          · intro hd; rw [pctDecode_cons_plain _ _ _ hc ht] at hd; cases hd

/-- what write_option() does with one raw segment: nothing if it is malformed or does not fit -/
def writeS (seg : Bytes) (st : Cnt) : Cnt :=
  if st.buflen - usedBy st.segs = 0 then st else
  match pctDecode seg with
  | none => st
  | some d =>
    if optHdr (st.buflen - usedBy st.segs) d.length = 0 then st
    else if st.buflen - usedBy st.segs - optHdr (st.buflen - usedBy st.segs) d.length < d.length then st
    else { st with segs := st.segs ++ [d] }

theorem writeOption_eq (seg rest : Bytes) (st : Cnt) :
    writeOption (seg ++ rest) seg.length st = R.ok (writeS seg st) := by
  unfold writeOption writeS
  by_cases h0 : st.buflen - usedBy st.segs = 0
  · simp [h0]
  · have ⟨h1, h2⟩ := check_decode (seg.length + 1) seg rest 0 (by omega)
    simp only [h0, if_false]
    cases hd : pctDecode seg with
    | none => rw [h2 hd]
    | some d =>
      have ⟨c1, c2⟩ := h1 d hd
      rw [c1]
      simp only [Nat.zero_add, c2]
      by_cases h3 : optHdr (st.buflen - usedBy st.segs) d.length = 0
      · simp [h3]
      · by_cases h4 : st.buflen - usedBy st.segs - optHdr (st.buflen - usedBy st.segs) d.length < d.length
        · simp [h3, h4]
        · simp [h3, h4]

def pathStepBuf (seg : Bytes) (st : Cnt) : Cnt :=
  if dotKind seg = 1 then st else if dotKind seg = 2 then backupSegment st else writeS seg st

theorem pathHandlerBuf_eq (seg rest : Bytes) (st : Cnt) :
    pathHandlerBuf (seg ++ rest) seg.length st = R.ok (pathStepBuf seg st) := by
  unfold pathHandlerBuf pathStepBuf
  rw [dots_eq]
  by_cases h1 : dotKind seg = 1
  · simp [h1]
  · by_cases h2 : dotKind seg = 2
    · simp [h2]
    · simp [h1, h2, writeOption_eq]

theorem splitPathBuf_fold (input : Bytes) (buflen : Nat) :
    MU.splitPath input buflen =
      R.ok ((rawSegs pathStop pathSep input).foldl (fun s seg => pathStepBuf seg s) ⟨buflen, []⟩).segs := by
  have := segLoop_eq pathHandlerBuf pathStepBuf pStop pSep pathHandlerBuf_eq input [] ⟨buflen, []⟩
  simp only [List.nil_append, List.length_nil, pStop_eq, pSep_eq] at this
  simp only [MU.splitPath, rawSegs, pStop_eq, pSep_eq, this]

theorem splitQueryBuf_fold (input : Bytes) (buflen : Nat) :
    MU.splitQuery input buflen =
      R.ok ((rawSegs queryStop querySep input).foldl (fun s seg => writeS seg s) ⟨buflen, []⟩).segs := by
  have := segLoop_eq writeOption writeS qStop qSep writeOption_eq input [] ⟨buflen, []⟩
  simp only [List.nil_append, List.length_nil, qStop_eq, qSep_eq] at this
  simp only [MU.splitQuery, rawSegs, qStop_eq, qSep_eq, this]

end Coap.UriL
