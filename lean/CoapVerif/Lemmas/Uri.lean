import CoapVerif.Model.Uri
import CoapVerif.Spec.Uri
/- Helper lemmas for C16: tables (T1) against the RFC character classes, options → string, the segment loop. -/
namespace Coap.UriL
open Coap Coap.MU Coap.Spec.Uri

/-! ### tables -/

set_option maxRecDepth 100000 in
theorem unescPathTab_eq : Generated.Uri.unescPathTab = pathPlainTab := by decide
set_option maxRecDepth 100000 in
theorem unescQueryTab_eq : Generated.Uri.unescQueryTab = queryPlainTab := by decide

theorem range_map_getD (f : Nat → Bool) (n k : Nat) (h : k < n) : ((List.range n).map f).getD k false = f k := by
  simp [List.getD, h]

theorem unescPath_eq (c : UInt8) : unescPath c = pathPlain c := by
  unfold unescPath
  rw [unescPathTab_eq, pathPlainTab, range_map_getD _ _ _ (by have := c.toNat_lt; omega)]
  simp

theorem unescQuery_eq (c : UInt8) : unescQuery c = queryPlain c := by
  unfold unescQuery
  rw [unescQueryTab_eq, queryPlainTab, range_map_getD _ _ _ (by have := c.toNat_lt; omega)]
  simp

theorem unescPath_fun : unescPath = pathPlain := funext unescPath_eq
theorem unescQuery_fun : unescQuery = queryPlain := funext unescQuery_eq

theorem hexUp_eq (n : Nat) : hexUp n = hexUpper n := rfl

/-! ### options → string -/

theorem escSeg_eq (unesc plain : UInt8 → Bool) (h : unesc = plain) (seg : Bytes) : escSeg unesc seg = pctEncode plain seg := by
  subst h
  induction seg with
  | nil => rfl
  | cons c r ih => simp [escSeg, pctEncode, ih, hexUp_eq]

theorem escSeg_length (unesc : UInt8 → Bool) (seg : Bytes) : (escSeg unesc seg).length = escLen unesc seg := by
  induction seg with
  | nil => rfl
  | cons c r ih =>
    by_cases h : unesc c = true <;> simp [escSeg, escLen, h, ih] <;> omega

theorem optVal_id (seg : Bytes) (h : seg.length < 65536) : optVal seg = seg := by
  unfold optVal
  rw [Nat.mod_eq_of_lt h, List.take_length]

theorem map_optVal (segs : List Bytes) (h : ∀ s ∈ segs, s.length < 65536) : segs.map optVal = segs := by
  induction segs with
  | nil => rfl
  | cons s r ih =>
    simp only [List.map_cons]
    rw [optVal_id s (h s (by simp)), ih (fun x hx => h x (by simp [hx]))]

/-- what the write pass emits for every option but the first -/
def tailStr (sep : UInt8) (l : List Bytes) : Bytes := (l.map (fun s => sep :: s)).flatten

theorem writePass_succ (unesc : UInt8 → Bool) (sep : UInt8) (segs : List Bytes) (n : Nat) :
    writePass unesc sep (n + 1) segs = tailStr sep (segs.map (escSeg unesc)) := by
  induction segs generalizing n with
  | nil => rfl
  | cons s r ih => simp [writePass, tailStr, ih (n + 1)]

theorem joinSep_cons (sep : UInt8) (s : Bytes) (r : List Bytes) : joinSep sep (s :: r) = s ++ tailStr sep r := by
  induction r generalizing s with
  | nil => simp [joinSep, tailStr]
  | cons t r ih => simp [joinSep, tailStr, ih t]

theorem writePass_zero (unesc : UInt8 → Bool) (sep : UInt8) (segs : List Bytes) :
    writePass unesc sep 0 segs = joinSep sep (segs.map (escSeg unesc)) := by
  cases segs with
  | nil => rfl
  | cons s r => simp [writePass, writePass_succ, joinSep_cons]

theorem tailStr_length (unesc : UInt8 → Bool) (sep : UInt8) (segs : List Bytes) :
    (tailStr sep (segs.map (escSeg unesc))).length = lenSum unesc segs := by
  induction segs with
  | nil => rfl
  | cons s r ih =>
    simp [tailStr, lenSum, escSeg_length] at ih ⊢
    omega

theorem writePass_length (unesc : UInt8 → Bool) (sep : UInt8) (segs : List Bytes) :
    (writePass unesc sep 0 segs).length = lenPass unesc segs := by
  cases segs with
  | nil => rfl
  | cons s r =>
    have := tailStr_length unesc sep r
    simp [writePass, writePass_succ, lenPass, lenSum, escSeg_length, this]

/-! ### decoding what was composed -/

theorem hexVal_hexUpper : ∀ n, n < 16 → hexDigitVal (hexUpper n) = some n := by decide

theorem pctDecode_cons_plain (c : UInt8) (r t : Bytes) (h : c ≠ 0x25) (ht : pctDecode r = some t) :
    pctDecode (c :: r) = some (c :: t) := by
  rw [pctDecode.eq_def]; simp only [h, if_false, ht]

theorem pctDecode_esc (a b : UInt8) (r t : Bytes) (x y : Nat) (hx : hexDigitVal a = some x) (hy : hexDigitVal b = some y)
    (ht : pctDecode r = some t) : pctDecode (0x25 :: a :: b :: r) = some (UInt8.ofNat (x * 16 + y) :: t) := by
  rw [pctDecode.eq_def]; simp only [if_true, hx, hy, ht]

theorem byte_of_nibbles (c : UInt8) : UInt8.ofNat (c.toNat / 16 * 16 + c.toNat % 16) = c := by
  have : c.toNat / 16 * 16 + c.toNat % 16 = c.toNat := by omega
  rw [this]; simp

theorem pctDecode_encode (plain : UInt8 → Bool) (hp : plain 0x25 = false) (seg : Bytes) :
    pctDecode (pctEncode plain seg) = some seg := by
  induction seg with
  | nil => rfl
  | cons c r ih =>
    by_cases h : plain c = true
    · have hc : c ≠ 0x25 := by intro e; rw [e, hp] at h; exact Bool.false_ne_true h
      simp only [pctEncode, h, if_true]
      exact pctDecode_cons_plain _ _ _ hc ih
    · have h1 := hexVal_hexUpper (c.toNat / 16) (by have := c.toNat_lt; omega)
      have h2 := hexVal_hexUpper (c.toNat % 16) (by omega)
      simp only [pctEncode, h, Bool.false_eq_true, if_false]
      rw [pctDecode_esc _ _ _ _ _ _ h1 h2 ih, byte_of_nibbles]

/-- the characters an encoded segment consists of never end the component and never separate segments -/
structure Safe (plain stop sep : UInt8 → Bool) (sepc : UInt8) : Prop where
  plain_ok : ∀ c, plain c = true → stop c = false ∧ sep c = false
  pct_ok : stop 0x25 = false ∧ sep 0x25 = false
  hex_ok : ∀ n, n < 16 → stop (hexUpper n) = false ∧ sep (hexUpper n) = false
  sep_stop : stop sepc = false
  sep_sep : sep sepc = true
  plain_pct : plain 0x25 = false

theorem splitAcc_enc {plain stop sep : UInt8 → Bool} {sepc : UInt8} (hs : Safe plain stop sep sepc)
    (seg rest cur : Bytes) :
    splitAcc stop sep (pctEncode plain seg ++ rest) cur = splitAcc stop sep rest (cur ++ pctEncode plain seg) := by
  induction seg generalizing cur with
  | nil => simp [pctEncode]
  | cons c r ih =>
    by_cases h : plain c = true
    · have ⟨h1, h2⟩ := hs.plain_ok c h
      simp [pctEncode, h, splitAcc, h1, h2, ih]
    · have ⟨p1, p2⟩ := hs.pct_ok
      have ⟨a1, a2⟩ := hs.hex_ok (c.toNat / 16) (by have := c.toNat_lt; omega)
      have ⟨b1, b2⟩ := hs.hex_ok (c.toNat % 16) (by omega)
      simp [pctEncode, h, splitAcc, p1, p2, a1, a2, b1, b2, ih]

theorem splitAcc_join {plain stop sep : UInt8 → Bool} {sepc : UInt8} (hs : Safe plain stop sep sepc)
    (s : Bytes) (r : List Bytes) (cur : Bytes) :
    splitAcc stop sep (pctEncode plain s ++ tailStr sepc (r.map (pctEncode plain))) cur =
      (cur ++ pctEncode plain s) :: r.map (pctEncode plain) := by
  induction r generalizing s cur with
  | nil =>
    have := splitAcc_enc hs s [] cur
    simp [tailStr, splitAcc] at this ⊢
    exact this
  | cons t r ih =>
    have := ih t []
    simp [tailStr, splitAcc_enc hs] at this
    simp [tailStr, splitAcc_enc hs, splitAcc, hs.sep_stop, hs.sep_sep, this]

theorem decodeAll_enc (plain : UInt8 → Bool) (hp : plain 0x25 = false) (segs : List Bytes) :
    decodeAll (segs.map (pctEncode plain)) = some segs := by
  induction segs with
  | nil => rfl
  | cons s r ih => simp [decodeAll, pctDecode_encode plain hp, ih]

/-- splitting and decoding the composed string gives the segments back ([] comes back as the one empty segment) -/
theorem recover {plain stop sep : UInt8 → Bool} {sepc : UInt8} (hs : Safe plain stop sep sepc) (segs : List Bytes) :
    decodeAll (rawSegs stop sep (joinSep sepc (segs.map (pctEncode plain)))) = some (if segs = [] then [[]] else segs) := by
  cases segs with
  | nil => simp [joinSep, rawSegs, splitAcc, decodeAll, pctDecode]
  | cons s r =>
    have h := splitAcc_join hs s r []
    simp only [List.map_cons, joinSep_cons, rawSegs, h, List.nil_append]
    have := decodeAll_enc plain hs.plain_pct (s :: r)
    simpa using this

theorem compose_injective {plain stop sep : UInt8 → Bool} {sepc : UInt8} (hs : Safe plain stop sep sepc) (a b : List Bytes)
    (h : joinSep sepc (a.map (pctEncode plain)) = joinSep sepc (b.map (pctEncode plain))) : norm a = norm b := by
  have ha := recover hs a
  have hb := recover hs b
  rw [h, hb] at ha
  have e := Option.some.inj ha
  by_cases h1 : a = [] <;> by_cases h2 : b = [] <;> simp [h1, h2] at e <;> simp [norm, h1, h2, e]

theorem pathSafe : Safe pathPlain pathStop pathSep 0x2f where
  plain_ok := by
    intro c h
    by_cases h1 : c = 0x3f
    · subst h1; exact absurd h (by decide)
    by_cases h2 : c = 0x23
    · subst h2; exact absurd h (by decide)
    by_cases h3 : c = 0x2f
    · subst h3; exact absurd h (by decide)
    simp [pathStop, pathSep, h1, h2, h3]
  pct_ok := by decide
  hex_ok := by decide
  sep_stop := by decide
  sep_sep := by decide
  plain_pct := by decide

theorem querySafe : Safe queryPlain queryStop querySep 0x26 where
  plain_ok := by
    intro c h
    by_cases h2 : c = 0x23
    · subst h2; exact absurd h (by decide)
    by_cases h3 : c = 0x26
    · subst h3; exact absurd h (by decide)
    simp [queryStop, querySep, h2, h3]
  pct_ok := by decide
  hex_ok := by decide
  sep_stop := by decide
  sep_sep := by decide
  plain_pct := by decide

end Coap.UriL
