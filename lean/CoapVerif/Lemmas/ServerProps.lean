import CoapVerif.Lemmas.Server
/- Helper definitions and lemmas for the clause theorems of C10 (about S). -/
namespace Coap.Server.L
open Coap Coap.Server Coap.Generated.Server

/-- `fwd` of S: a proxy resource exists and the request carries Proxy-Uri or Proxy-Scheme -/
def fwdOf (tbl : Table) (rq : Request) : Bool := tbl.prx.isSome && (hasOpt rq.msg.opts 35 || hasOpt rq.msg.opts 39)
/-- D3: some unrecognised critical option was tolerated for forwarding -/
def tolOf (cfg : Cfg) (tbl : Table) (rq : Request) : Bool := (rq.msg.opts.map (·.1)).any (S.tolerated cfg (fwdOf tbl rq))

/-- the request passes everything that precedes the proxy / Hop-Limit / resource stages -/
structure Admitted (cfg : Cfg) (tbl : Table) (rq : Request) : Prop where
  code : isRequestCode rq.msg.code = true
  verdict : rq.verdict.code ≠ 168
  opts : S.badOption cfg (fwdOf tbl rq) rq.msg.opts = false
  noOscore : hasOpt rq.msg.opts 9 = false
  type : rq.msg.type = CON ∨ rq.msg.type = NON
  token : rq.msg.token.length ≤ cfg.mts
  mcast : rq.mcast = true → rq.msg.type = NON

theorem validCode_of_request {c : Nat} (h : isRequestCode c = true) : S.validCode c = true := by
  simp [isRequestCode] at h; simp [S.validCode]; omega

theorem spec_admitted (e : S.Esc) {cfg : Cfg} {tbl : Table} {rq : Request} (h : Admitted cfg tbl rq) :
    S.serverSpec e cfg tbl rq = S.stages e cfg tbl rq (tolOf cfg tbl rq) := by
  have hna : ¬ (rq.msg.type = ACK ∨ rq.msg.type = RST) := by
    rcases h.type with t | t <;> rw [t] <;> decide
  have hmc : ¬ (rq.mcast = true ∧ rq.msg.type ≠ NON) := fun ⟨a, b⟩ => b (h.mcast a)
  have htok : ¬ rq.msg.token.length > cfg.mts := by have := h.token; omega
  have hopts := h.opts
  unfold fwdOf at hopts
  unfold S.serverSpec S.handle tolOf fwdOf
  simp only [validCode_of_request h.code, h.code, h.verdict, hopts, h.noOscore, hna, htok, hmc, not_true_eq_false,
    if_false, Bool.false_eq_true]

theorem hasOpt_clear (os : Opts) (n : Nat) : hasOpt (clearBlock2M os) n = hasOpt os n := by
  induction os with
  | nil => rfl
  | cons o r ih =>
    obtain ⟨k, v⟩ := o
    unfold clearBlock2M
    by_cases hk : k = 23
    · subst hk
      simp only [if_true]
      split <;> simp [hasOpt]
    · simp only [hk, if_false]
      simp only [hasOpt, List.any_cons] at ih ⊢
      rw [ih]

theorem firstOpt_clear (os : Opts) (n : Nat) (hn : n ≠ 23) : firstOpt (clearBlock2M os) n = firstOpt os n := by
  induction os with
  | nil => rfl
  | cons o r ih =>
    obtain ⟨k, v⟩ := o
    unfold clearBlock2M
    by_cases hk : k = 23
    · subst hk
      have : (23 == n) = false := by simp; omega
      simp only [if_true]
      split <;> simp [firstOpt, List.find?, this]
    · simp only [hk, if_false]
      simp only [firstOpt, List.find?] at ih ⊢
      split
      · rfl
      · exact ih

/-- what the property demands of every message sent in reaction to the request `rq` -/
def replyOk (rq : Request) (x : Reply) : Prop :=
  x.mid = rq.msg.mid ∧ (x.code ≠ 0 → x.token = rq.msg.token) ∧
  (x.type = ACK → rq.msg.type = CON) ∧ (x.type = RST → x.code = 0) ∧ (x.type = CON → rq.msg.type = CON)

/-- at most one message; or exactly the separate-response pair of a proxied Confirmable request (D8) -/
def countOk (rq : Request) (o : Outcome) : Prop :=
  o.replies.length ≤ 1 ∨
  ∃ x, o.replies = [S.lib ACK 0 rq.msg.mid [], x] ∧ x.type = CON ∧ ∃ c, o.call = some c ∧ c.who = .prx

def outcomeOk (rq : Request) (o : Outcome) : Prop := (∀ x ∈ o.replies, replyOk rq x) ∧ countOk rq o

theorem ok_nil (rq : Request) (b : Bool) (c : Option Call) : outcomeOk rq ⟨b, [], c⟩ := by
  constructor
  · intro x hx; simp at hx
  · left; simp

theorem ok_single (rq : Request) (x : Reply) (c : Option Call) (h : replyOk rq x) : outcomeOk rq ⟨true, [x], c⟩ := by
  constructor
  · intro y hy; simp at hy; subst hy; exact h
  · left; simp

theorem deliver_len (cfg : Cfg) (rq : Request) (fl : Option Nat) (obs : Bool) (r : Reply) :
    (S.deliver cfg rq fl obs r).length ≤ 1 := by
  rcases deliver_shape cfg rq fl obs r with h | h | h | h <;> rw [h] <;> simp

theorem stripObserve_mid (o : Bool) (x : Reply) : (stripObserve o x).mid = x.mid := by
  unfold stripObserve; split <;> rfl
theorem stripObserve_token (o : Bool) (x : Reply) : (stripObserve o x).token = x.token := by
  unfold stripObserve; split <;> rfl

/-- delivery keeps type and message id; the token stays unless the message becomes Empty -/
theorem deliver_fields (cfg : Cfg) (rq : Request) (fl : Option Nat) (obs : Bool) (r : Reply) :
    ∀ x ∈ S.deliver cfg rq fl obs r, x.type = r.type ∧ x.mid = r.mid ∧ (x.code ≠ 0 → x.token = r.token) := by
  intro x hx
  rcases deliver_shape cfg rq fl obs r with h | h | h | h <;> rw [h] at hx <;> simp at hx
  · subst hx; simp [emptied]
  · subst hx; simp [stripObserve_mid, stripObserve_token]
  · subst hx
    unfold ackStrip; split
    · simp [emptied, stripObserve_mid]
    · simp [stripObserve_mid, stripObserve_token]

theorem deliver_ok (cfg : Cfg) (rq : Request) (fl : Option Nat) (obs : Bool) (r : Reply)
    (hm : r.mid = rq.msg.mid) (ht : r.token = rq.msg.token)
    (hty : (r.type = ACK ∧ rq.msg.type = CON) ∨ r.type = NON ∨ (r.type = CON ∧ rq.msg.type = CON)) :
    ∀ x ∈ S.deliver cfg rq fl obs r, replyOk rq x := by
  intro x hx
  obtain ⟨h1, h2, h3⟩ := deliver_fields cfg rq fl obs r x hx
  refine ⟨by rw [h2, hm], fun h => by rw [h3 h, ht], ?_, ?_, ?_⟩
  · intro ha; rw [h1] at ha
    rcases hty with ⟨_, b⟩ | b | ⟨a, _⟩
    · exact b
    · rw [b] at ha; cases ha
    · rw [a] at ha; cases ha
  · intro ha; rw [h1] at ha
    rcases hty with ⟨a, _⟩ | b | ⟨a, _⟩ <;> simp_all [ACK, NON, CON, RST]
  · intro ha; rw [h1] at ha
    rcases hty with ⟨a, _⟩ | b | ⟨_, b⟩
    · rw [a] at ha; cases ha
    · rw [b] at ha; cases ha
    · exact b

theorem respType_cases (t : Nat) : (S.respType t = ACK ∧ t = CON) ∨ S.respType t = NON := by
  unfold S.respType; split
  · left; exact ⟨rfl, ‹_›⟩
  · right; rfl

theorem fail_ok (cfg : Cfg) (rq : Request) (fl : Option Nat) (code : Nat) :
    outcomeOk rq ⟨true, S.deliver cfg rq fl false (S.errReply rq.msg code), none⟩ := by
  refine ⟨deliver_ok cfg rq fl false _ rfl rfl ?_, Or.inl (deliver_len _ _ _ _ _)⟩
  rcases respType_cases rq.msg.type with h | h
  · exact Or.inl h
  · exact Or.inr (Or.inl h)

theorem isPrx_who {sel : Sel} (h : sel.isPrx = true) : sel.who = some .prx := by
  cases sel <;> simp [Sel.isPrx] at h <;> rfl

theorem finish_ok (e : S.Esc) (cfg : Cfg) (rq : Request) (os : Opts) (path : Bytes) (sel : Sel) (obs : Bool) (resp1 : Reply)
    (hm : resp1.mid = rq.msg.mid) (ht : resp1.token = rq.msg.token) (hty : resp1.type = S.respType rq.msg.type) :
    outcomeOk rq (S.finish e cfg rq os path sel obs resp1) := by
  have hresp : (S.respType rq.msg.type = ACK ∧ rq.msg.type = CON) ∨ S.respType rq.msg.type = NON ∨
      (S.respType rq.msg.type = CON ∧ rq.msg.type = CON) := by
    rcases respType_cases rq.msg.type with h | h
    · exact Or.inl h
    · exact Or.inr (Or.inl h)
  unfold S.finish
  simp only
  generalize (if rq.verdict.code = 0 then resp1.code else rq.verdict.code) = code
  cases he : (sel.isPrx && rq.msg.type == CON) with
  | false =>
    simp only [Bool.false_eq_true, if_false, false_and, List.nil_append]
    cases hw : sel.who with
    | none =>
      exact ⟨deliver_ok _ _ _ _ _ hm ht (by rw [hty]; exact hresp), Or.inl (deliver_len _ _ _ _ _)⟩
    | some who =>
      simp only
      by_cases hv : S.validCode code = true
      · simp only [hv, not_true_eq_false, if_false]
        exact ⟨deliver_ok _ _ _ _ _ hm ht (by simp only [hty]; exact hresp), Or.inl (deliver_len _ _ _ _ _)⟩
      · simp only [hv, not_false_eq_true, if_true]
        exact ok_nil _ _ _
  | true =>
    have hprx : sel.isPrx = true := by cases h : sel.isPrx <;> simp [h] at he ⊢
    have hcon : rq.msg.type = CON := by cases h : sel.isPrx <;> simp [h] at he; exact he
    have hack : replyOk rq (S.lib ACK 0 rq.msg.mid []) := by
      unfold replyOk S.lib
      refine ⟨rfl, fun h => absurd rfl h, fun _ => hcon, fun _ => rfl, fun h => ?_⟩
      simp [ACK, CON] at h
    rw [isPrx_who hprx]
    simp only [if_true, true_and]
    by_cases hv : S.validCode code = true
    · simp only [hv, not_true_eq_false, if_false]
      by_cases h0 : code = 0
      · simp only [h0, if_true]
        exact ok_single _ _ _ hack
      · simp only [h0, if_false]
        have hd := deliver_ok cfg rq (some sel.flags) obs
          { resp1 with code := code, body := .bytes rq.verdict.payload, type := CON } hm ht (Or.inr (Or.inr ⟨rfl, hcon⟩))
        have hf := deliver_fields cfg rq (some sel.flags) obs
          { resp1 with code := code, body := .bytes rq.verdict.payload, type := CON }
        have hl := deliver_len cfg rq (some sel.flags) obs
          { resp1 with code := code, body := .bytes rq.verdict.payload, type := CON }
        constructor
        · intro x hx
          simp only [List.cons_append, List.nil_append, List.mem_cons] at hx
          rcases hx with hx | hx
          · subst hx; exact hack
          · exact hd x hx
        · generalize S.deliver cfg rq (some sel.flags) obs
            { resp1 with code := code, body := .bytes rq.verdict.payload, type := CON } = d at hf hl
          match d, hf, hl with
          | [], _, _ => left; simp
          | [x], hf, _ =>
            right
            exact ⟨x, rfl, (hf x (by simp)).1, _, rfl, rfl⟩
          | _ :: _ :: _, _, hl => simp at hl
    · simp only [hv, not_false_eq_true, if_true]
      exact ok_single _ _ _ hack

theorem run_ok (e : S.Esc) (cfg : Cfg) (rq : Request) (os : Opts) (path : Bytes) (sel : Sel) :
    outcomeOk rq (S.run e cfg rq os path sel) := by
  unfold S.run
  simp only
  split
  · refine ⟨deliver_ok _ _ _ _ _ rfl rfl ?_, Or.inl (deliver_len _ _ _ _ _)⟩
    rcases respType_cases rq.msg.type with h | h
    · exact Or.inl h
    · exact Or.inr (Or.inl h)
  · split
    · exact finish_ok _ _ _ _ _ _ _ _ rfl rfl rfl
    · exact finish_ok _ _ _ _ _ _ _ _ rfl rfl rfl

theorem stages_ok (e : S.Esc) (cfg : Cfg) (tbl : Table) (rq : Request) (tol : Bool) :
    outcomeOk rq (S.stages e cfg tbl rq tol) := by
  unfold S.stages
  simp only
  cases S.pre e tbl rq tol (clearBlock2M rq.msg.opts) with
  | fail code fl => exact fail_ok _ _ _ _
  | ignore => exact ok_nil _ _ _
  | go ip os path =>
    simp only
    cases S.select tbl rq.msg.code ip path with
    | inl code => exact fail_ok _ _ _ _
    | inr sel =>
      simp only
      cases S.precond cfg rq os sel with
      | some code => exact fail_ok _ _ _ _
      | none => exact run_ok _ _ _ _ _ _

theorem rst_ok (rq : Request) : replyOk rq (S.lib RST 0 rq.msg.mid []) := by
  unfold replyOk S.lib
  refine ⟨rfl, fun h => absurd rfl h, fun h => ?_, fun _ => rfl, fun h => ?_⟩ <;> simp [ACK, CON, RST] at h

/-- every message S prescribes in reaction to a request datagram is well-formed with respect to it, and there is at
most one — or the Empty ACK + separate Confirmable response of a proxied Confirmable request -/
theorem outcome_ok (e : S.Esc) (cfg : Cfg) (tbl : Table) (rq : Request) : outcomeOk rq (S.serverSpec e cfg tbl rq) := by
  unfold S.serverSpec
  simp only
  split
  · split
    · exact ok_single _ _ _ (rst_ok rq)
    · exact ok_nil _ _ _
  · split
    · exact ok_nil _ _ _
    · split
      · exact ok_nil _ _ _
      · split
        · split
          · split
            · exact ok_nil _ _ _
            · exact ok_single _ _ _ (rst_ok rq)
          · split
            · rename_i hc
              refine ok_single _ _ _ ?_
              unfold replyOk S.errReply S.lib S.respType
              simp [hc, ACK, CON, RST]
            · exact ok_nil _ _ _
        · split
          · exact ok_nil _ _ _
          · split
            · exact ok_nil _ _ _
            · split
              · split
                · rename_i hna _ _
                  refine ok_single _ _ _ ?_
                  unfold replyOk S.errReply S.lib
                  refine ⟨rfl, fun _ => rfl, fun h => ?_, fun h => ?_, fun h => ?_⟩
                  · simp only at h
                    rcases respType_cases rq.msg.type with ⟨_, b⟩ | b
                    · exact b
                    · rw [b] at h; cases h
                  · simp only at h
                    rcases respType_cases rq.msg.type with ⟨a, _⟩ | b
                    · rw [a] at h; cases h
                    · rw [b] at h; cases h
                  · simp only at h
                    rcases respType_cases rq.msg.type with ⟨a, _⟩ | b
                    · rw [a] at h; cases h
                    · rw [b] at h; cases h
                · split
                  · exact ok_nil _ _ _
                  · exact ok_single _ _ _ (rst_ok rq)
              · unfold S.handle
                split
                · exact ok_nil _ _ _
                · exact stages_ok _ _ _ _ _


theorem precond_none_handler {cfg : Cfg} {rq : Request} {os : Opts} {sel : Sel} (h : S.precond cfg rq os sel = none) :
    handlerBit sel.mask rq.msg.code = true := by
  unfold S.precond at h
  by_cases h1 : flag sel.flags F_OSCORE_ONLY = true
  · simp [h1] at h
  · by_cases h2 : sel.exists_ = true ∧ hasOpt os 5 = true
    · simp [h1, h2] at h
    · by_cases hb : handlerBit sel.mask rq.msg.code = true
      · exact hb
      · simp [h1, h2, hb] at h

theorem finish_call (e : S.Esc) (cfg : Cfg) (rq : Request) (os : Opts) (path : Bytes) (sel : Sel) (obs : Bool) (resp1 : Reply) :
    (S.finish e cfg rq os path sel obs resp1).call =
      sel.who.map fun who => ⟨who, rq.msg.code, path, S.uriQuery e os, os, rq.msg.payload⟩ := by
  unfold S.finish
  simp only
  generalize (if rq.verdict.code = 0 then resp1.code else rq.verdict.code) = code
  cases sel.who with
  | none => rfl
  | some who =>
    simp only [Option.map]
    by_cases hv : S.validCode code = true
    · simp only [hv, not_true_eq_false, if_false]
      split <;> rfl
    · simp [hv]

def keep (o : Nat × Bytes) : Bool := o.1 != 16 && o.1 != 23

theorem setHop_keep (k : Nat) (os : Opts) : (setHop k os).filter keep = os.filter keep := by
  induction os with
  | nil => rfl
  | cons o r ih =>
    obtain ⟨n, v⟩ := o
    unfold setHop
    by_cases hn : n = 16
    · subst hn; simp [keep]
    · simp only [hn, if_false, List.filter_cons, ih]

theorem clear_keep (os : Opts) : (clearBlock2M os).filter keep = os.filter keep := by
  induction os with
  | nil => rfl
  | cons o r ih =>
    obtain ⟨n, v⟩ := o
    unfold clearBlock2M
    by_cases hn : n = 23
    · subst hn; simp only [if_true]; split <;> simp [keep]
    · simp only [hn, if_false, List.filter_cons, ih]

def viewOk (base : Opts) : Pre → Prop
  | .go _ os _ => os.filter keep = base.filter keep
  | _ => True

theorem pre_view (e : S.Esc) (tbl : Table) (rq : Request) (c : Bool) (os : Opts) : viewOk os (S.pre e tbl rq c os) := by
  unfold S.pre S.hopLimit S.pathOf
  simp only
  repeat' split
  all_goals simp [viewOk, setHop_keep]

end Coap.Server.L
