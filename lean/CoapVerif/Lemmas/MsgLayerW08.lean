import CoapVerif.Lemmas.MsgLayer
import CoapVerif.Lemmas.MsgLayerW
/-
C08 over the write-failure model (`Model/MsgLayerW.lean`): the NSTART accounting and the life of the delay queue for EVERY
event sequence and EVERY write oracle (which socket writes fail).  `Out.tx` in this model is a write ATTEMPT.

The point that is specific to write failures (and that seeded change C08-13 corrupts): a Confirmable that leaves the delay
queue in `coap_session_connected` is put on the retransmission queue by `coap_wait_ack` WHATEVER the write returned, so it
must take its NSTART slot whatever the write returned (`drainRound_con_takes_slot`); a retransmission whose write fails
keeps its slot; a first transmission in `coap_send` whose write fails is refused and takes none.

Key lemma: `drainW_is_drain` — the drain loop with its `if (bytes_written < 0) break;` is the base loop stopped early (the
`break` is the base loop running out of fuel), so every lemma about `drain` that holds for every fuel carries over.
-/
namespace Coap.MsgW
open Coap.SQ Coap.Msg

/-- one round of the base loop, unfolded -/
theorem drain_succ_round (k : Nat) (lw : LW) (s : Nat) (n : Node) (rest : List Node)
    (hdq : (lw.l.getS s).delayq = n :: rest) (hest : (lw.l.getS s).est = true)
    (hg : ¬ (n.con && decide ((lw.l.getS s).conActive ≥ (lw.l.getS s).nstart)) = true) :
    drain (k + 1) lw.l s = drain k (drainRound lw s n rest).2.l s := by
  rw [drainRound_l]
  conv => lhs; unfold drain
  simp only [hdq, hest, hg, Bool.not_true, Bool.false_eq_true, if_false]

/-- the drain loop of `coap_session_connected` with failing writes is the base loop stopped early -/
theorem drainW_is_drain : ∀ (fuel : Nat) (lw : LW) (s : Nat), ∃ k, (drainW fuel lw s).l = drain k lw.l s
  | 0, lw, s => ⟨0, rfl⟩
  | fuel + 1, lw, s => by
    unfold drainW
    dsimp only
    cases hdq : (lw.l.getS s).delayq with
    | nil => exact ⟨0, rfl⟩
    | cons n rest =>
      simp only []
      by_cases hest : (lw.l.getS s).est = true
      · by_cases hg : (n.con && decide ((lw.l.getS s).conActive ≥ (lw.l.getS s).nstart)) = true
        · simp only [hest, hg, Bool.not_true, Bool.false_eq_true, if_false, if_true]; exact ⟨0, rfl⟩
        · simp only [hest, hg, Bool.not_true, Bool.false_eq_true, if_false]
          by_cases hf : lw.wf.headD false = true
          · simp only [drainRound_res, hf, if_true]
            exact ⟨1, (drain_succ_round 0 lw s n rest hdq hest hg).symm⟩
          · simp only [drainRound_res, hf, Bool.false_eq_true, if_false]
            obtain ⟨k, hk⟩ := drainW_is_drain fuel (drainRound lw s n rest).2 s
            exact ⟨k + 1, by rw [hk, drain_succ_round k lw s n rest hdq hest hg]⟩
      · have hest' : (lw.l.getS s).est = false := by simpa using hest
        simp only [hest', Bool.not_false, if_true]; exact ⟨0, rfl⟩

/-! ### the accounting invariant `WF` (`con_active` = nodes in the send queue ≤ NSTART) through every function -/

theorem drainW_ok (fuel : Nat) (lw : LW) (s : Nat) :
    Frame s lw.l (drainW fuel lw s).l ∧ (SInv lw.l s 0 → SInv (drainW fuel lw s).l s 0) := by
  obtain ⟨k, hk⟩ := drainW_is_drain fuel lw s
  rw [hk]; exact drain_ok k lw.l s

theorem connectedW_ok (lw : LW) (s : Nat) :
    Frame s lw.l (connectedW lw s).l ∧ (SInv lw.l s 0 → SInv (connectedW lw s).l s 0) := by
  unfold connectedW
  dsimp only
  have h := drainW_ok ((lw.l.getS s).delayq.length + 1)
    { lw with l := lw.l.setS s { (lw.l.getS s) with est := true } } s
  exact ⟨(Frame.setS _ _ _).trans h.1, fun hs => h.2 (SInv.setS (fun hlt => hs hlt))⟩

theorem releaseW_ok (lw : LW) (s : Nat) :
    Frame s lw.l (releaseW lw s).l ∧ (SInv lw.l s 1 → SInv (releaseW lw s).l s 0) := by
  unfold releaseW
  dsimp only
  have hset : SInv lw.l s 1 → SInv (lw.l.setS s { (lw.l.getS s) with conActive := (lw.l.getS s).conActive - 1 }) s 0 :=
    fun h => SInv.setS (fun hlt => by have := h hlt; simp only []; omega)
  split
  · exact ⟨Frame.refl _ _, fun h hlt => by have := h hlt; omega⟩
  · split
    · have hc := connectedW_ok
        { lw with l := lw.l.setS s { (lw.l.getS s) with conActive := (lw.l.getS s).conActive - 1 } } s
      exact ⟨(Frame.setS _ _ _).trans hc.1, fun h => hc.2 (hset h)⟩
    · exact ⟨Frame.setS _ _ _, hset⟩

theorem submitW_ok (lw : LW) (s : Nat) (con : Bool) (mid r : Nat) :
    Frame s lw.l (submitW lw s con mid r).l ∧ (SInv lw.l s 0 → SInv (submitW lw s con mid r).l s 0) := by
  unfold submitW
  dsimp only
  split
  · exact ⟨Frame.emit _ _ _, fun h => h⟩
  · split
    · split
      · exact ⟨Frame.emit _ _ _, fun h => h⟩
      · refine ⟨(Frame.setS _ _ _).trans (Frame.emit _ _ _), fun h => ?_⟩
        dsimp only
        rw [SInv_emit]; exact SInv.setS (fun hlt => h hlt)
    · rename_i hg
      split
      · -- the write failed: `goto error`, nothing is queued, nothing is counted
        dsimp only
        rw [write_l]
        exact ⟨(Frame.emit _ _ _).trans (Frame.emit _ _ _), fun h => h⟩
      · cases con
        · simp only [Bool.false_eq_true, if_false]
          rw [write_l]
          exact ⟨(Frame.emit _ _ _).trans (Frame.emit _ _ _), fun h => h⟩
        · simp only [if_true]
          rw [write_l]
          refine ⟨(((Frame.emit _ _ _).trans (Frame.setS _ _ _)).trans (Frame.waitAck (s := s) _ rfl rfl)).trans
            (Frame.emit _ _ _), fun h => ?_⟩
          rw [SInv_emit]
          apply SInv.waitAck rfl
          apply SInv.setS
          intro hlt
          have := h hlt
          simp [gate] at hg
          simp only [inflight_emit]
          omega

theorem retransmitW_ok (lw : LW) (n : Node) (hc : n.con = true) :
    Frame n.sess lw.l (retransmitW lw n).l ∧ (SInv lw.l n.sess 1 → SInv (retransmitW lw n).l n.sess 0) := by
  by_cases h : n.cnt < (lw.l.getS n.sess).maxRtx
  · rw [(retransmitW_resend lw n h).1]; exact retransmit_ok lw.l n hc
  · unfold retransmitW
    dsimp only
    simp only [h, if_false, hc, if_true]
    have hr := releaseW_ok lw n.sess
    exact ⟨hr.1.trans (Frame.emit _ _ _), fun hh => (SInv_emit _ _ _ _).mpr (hr.2 hh)⟩

theorem wf_remove_releaseW {lw : LW} (h : WF lw.l) (n : Node) (rest : List Node) (hm : n ∈ lw.l.q.nodes)
    (hc : ∀ p : Node → Bool, TStable p → lw.l.q.nodes.countP p = rest.countP p + (if p n then 1 else 0)) :
    WF (releaseW { lw with l := { lw.l with q := { lw.l.q with nodes := rest } } } n.sess).l ∧ n.con = true := by
  obtain ⟨hf, hs, hcon⟩ := removed_one lw.l n rest hm hc
  have hr := releaseW_ok { lw with l := { lw.l with q := { lw.l.q with nodes := rest } } } n.sess
  exact ⟨h.of_frame (hf.trans hr.1) (hr.2 (hs 0 (h.sinv _))), hcon h.1⟩

theorem wf_dueLoopW : ∀ (fuel : Nat) (lw : LW), WF lw.l → WF (dueLoopW fuel lw).l
  | 0, lw, h => h
  | fuel + 1, lw, h => by
    unfold dueLoopW
    split
    · exact h
    · split
      · split
        · exact h
        · rename_i n rest hp
          apply wf_dueLoopW fuel
          obtain ⟨hf, hs, hcon⟩ := removed_one lw.l n rest
            (countP_popNext (fun _ => true) (fun _ _ => rfl) _ _ _ hp).1
            (fun p hp' => (countP_popNext p hp' _ _ _ hp).2)
          have hr := retransmitW_ok { lw with l := { lw.l with q := { lw.l.q with nodes := rest } } } n (hcon h.1)
          exact h.of_frame (hf.trans hr.1) (hr.2 (hs 0 (h.sinv _)))
      · exact h

theorem prepareCoreW_fst (lw : LW) : (prepareCoreW lw).1 = dueLoopW (dueFuel lw.l) lw := by
  unfold prepareCoreW
  simp only []
  split <;> rfl

theorem wf_prepareW (lw : LW) (h : WF lw.l) : WF (prepareW lw).l := by
  unfold prepareW
  dsimp only
  rw [WF_emit, prepareCoreW_fst]
  exact wf_dueLoopW _ _ h

theorem wf_afterRxW (lw : LW) (h : WF lw.l) : WF (afterRxW lw).l := by
  unfold afterRxW; rw [prepareCoreW_fst]; exact wf_dueLoopW _ _ h

theorem wf_rxAckW (lw : LW) (s mid : Nat) (h : WF lw.l) : WF (rxAckW lw s mid).l := by
  unfold rxAckW
  rcases hr : removeNode lw.l.q.nodes s mid with ⟨res, rest⟩
  simp only []
  cases res with
  | none => have := (removeNode_none _ _ _ _ hr).1; subst this; exact h
  | some n =>
    have hm := removeNode_some (fun _ => true) (fun _ _ => rfl) _ _ _ _ _ hr
    have hns := hm.2.1
    subst hns
    exact (wf_remove_releaseW h n rest hm.1 (fun p hp => (removeNode_some p hp _ _ _ _ _ hr).2.2.2)).1

theorem wf_rxRstW (lw : LW) (s mid : Nat) (h : WF lw.l) : WF (rxRstW lw s mid).l := by
  unfold rxRstW
  rcases hr : removeNode lw.l.q.nodes s mid with ⟨res, rest⟩
  simp only []
  cases res with
  | none => have := (removeNode_none _ _ _ _ hr).1; subst this; exact h
  | some n =>
    have hm := removeNode_some (fun _ => true) (fun _ _ => rfl) _ _ _ _ _ hr
    have hns := hm.2.1
    subst hns
    have := (wf_remove_releaseW h n rest hm.1 (fun p hp => (removeNode_some p hp _ _ _ _ _ hr).2.2.2)).1
    simp only []
    split
    · exact this
    · exact this

theorem wf_rxBadW (lw : LW) (s mid : Nat) (h : WF lw.l) : WF (rxBadW lw s mid).l := by
  unfold rxBadW
  rcases hr : removeNode lw.l.q.nodes s mid with ⟨res, rest⟩
  simp only []
  cases res with
  | none => have := (removeNode_none _ _ _ _ hr).1; subst this; exact h
  | some n =>
    have hm := removeNode_some (fun _ => true) (fun _ _ => rfl) _ _ _ _ _ hr
    have hns := hm.2.1
    subst hns
    exact (wf_remove_releaseW h n rest hm.1 (fun p hp => (removeNode_some p hp _ _ _ _ _ hr).2.2.2)).1

theorem wf_cancelTokenW : ∀ (fuel : Nat) (lw : LW) (s tok : Nat), WF lw.l → WF (cancelTokenW fuel lw s tok).l
  | 0, _, _, _, h => h
  | fuel + 1, lw, s, tok, h => by
    unfold cancelTokenW
    split
    · exact h
    · rename_i n rest hr
      apply wf_cancelTokenW fuel
      have hm := removeTok_some (fun _ => true) (fun _ _ => rfl) _ _ _ _ _ hr
      have hns := hm.2.1
      subst hns
      have := wf_remove_releaseW h n rest hm.1 (fun p hp => (removeTok_some p hp _ _ _ _ _ hr).2.2)
      simp only [this.2, if_true]
      exact this.1

theorem wf_rxNonW (lw : LW) (s mid tok : Nat) (h : WF lw.l) : WF (rxNonW lw s mid tok).l := by
  unfold rxNonW
  exact wf_cancelTokenW _ _ _ _ h

/-- the inductive invariant is kept by every event, whatever the write oracle says -/
theorem wf_stepW (lw : LW) (e : Ev) (h : WF lw.l) : WF (stepW lw e).l := by
  cases e with
  | setNow t => exact h
  | submit s con mid r =>
    have := submitW_ok lw s con mid r
    exact h.of_frame this.1 (this.2 (h.sinv s))
  | prepare => exact wf_prepareW lw h
  | rxAck s mid => simp only [stepW]; split; exact wf_afterRxW _ (wf_rxAckW _ _ _ h); exact h
  | rxRst s mid => simp only [stepW]; split; exact wf_afterRxW _ (wf_rxRstW _ _ _ h); exact h
  | rxNon s mid tok => simp only [stepW]; split; exact wf_afterRxW _ (wf_rxNonW _ _ _ _ h); exact h
  | rxBad s mid => simp only [stepW]; split; exact wf_afterRxW _ (wf_rxBadW _ _ _ h); exact h
  | hold s =>
    exact h.of_frame (Frame.setS _ _ _) (SInv.setS (fun hlt => h.sinv s hlt))
  | connect s =>
    have := connectedW_ok lw s
    exact h.of_frame this.1 (this.2 (h.sinv s))
  | disconnect s => simp only [stepW]; split; exact wf_disconnect _ _ h; exact h

theorem wf_runW (evs : List Ev) : ∀ (lw : LW), WF lw.l → WF (runW lw evs).l := by
  induction evs with
  | nil => intro lw h; exact h
  | cons e es ih => intro lw h; exact ih _ (wf_stepW lw e h)

/-- what seeded change C08-13 corrupts: a Confirmable that leaves the delay queue takes its NSTART slot and is put on the
retransmission queue in the SAME round, whatever the write returned (the attempt is the one output of the round) -/
theorem drainRound_con_takes_slot (lw : LW) (s : Nat) (n : Node) (rest : List Node) (hs : s < lw.l.sess.length)
    (hc : n.con = true) :
    ((drainRound lw s n rest).2.l.getS s).conActive = ((lw.l.getS s).conActive + 1) % 256 ∧
    ((drainRound lw s n rest).2.l.getS s).delayq = rest ∧
    inflight (drainRound lw s n rest).2.l s = inflight lw.l s + 1 ∧
    (drainRound lw s n rest).2.l.out = Out.tx lw.l.now s n.mid n.cnt true :: lw.l.out := by
  rw [drainRound_l]
  simp [hc, inflight_waitAck, getS_setS_same hs]

/-! ### the life of the delay queue (`DqStep`: push at the end / head leaves exactly when its write is attempted / clear) -/

theorem drainW_star (fuel : Nat) (lw : LW) (s' s : Nat) (hs : s < lw.l.sess.length) :
    Star (DqStep s) lw.l (drainW fuel lw s').l := by
  obtain ⟨k, hk⟩ := drainW_is_drain fuel lw s'
  rw [hk]; exact drain_star k lw.l s' s hs

theorem connectedW_star (lw : LW) (s' s : Nat) (hs : s < lw.l.sess.length) :
    Star (DqStep s) lw.l (connectedW lw s').l := by
  unfold connectedW
  dsimp only
  exact (DqSame.setS_keep (by exact hs) s' (by rfl)).star.trans
    (drainW_star _ { lw with l := lw.l.setS s' { (lw.l.getS s') with est := true } } s' s (by simpa using hs))

theorem releaseW_star (lw : LW) (s' s : Nat) (hs : s < lw.l.sess.length) :
    Star (DqStep s) lw.l (releaseW lw s').l := by
  unfold releaseW
  dsimp only
  split
  · exact Star.refl
  · split
    · exact (DqSame.setS_keep (by exact hs) s' (by rfl)).star.trans
        (connectedW_star { lw with l := lw.l.setS s' { (lw.l.getS s') with conActive := (lw.l.getS s').conActive - 1 } }
          s' s (by simpa using hs))
    · exact (DqSame.setS_keep (by exact hs) s' (by rfl)).star

theorem submitW_star (lw : LW) (s' : Nat) (con : Bool) (mid r : Nat) (s : Nat) (hs : s < lw.l.sess.length) :
    Star (DqStep s) lw.l (submitW lw s' con mid r).l := by
  unfold submitW
  dsimp only
  split
  · exact (DqSame.emit _ _ _).star
  · split
    · split
      · exact (DqSame.emit _ _ _).star
      · exact (Star.single (DqStep.setS_push (by exact hs) s' _ (by rfl))).trans (DqSame.emit _ _ _).star
    · split
      · dsimp only
        rw [write_l]
        exact ((DqSame.emit _ _ _).trans (DqSame.emit _ _ _)).star
      · cases con
        · simp only [Bool.false_eq_true, if_false]
          rw [write_l]
          exact ((DqSame.emit _ _ _).trans (DqSame.emit _ _ _)).star
        · simp only [if_true]
          rw [write_l]
          exact ((((DqSame.emit _ _ _).trans (DqSame.setS_keep (by exact hs) s' (by rfl))).trans
            (DqSame.waitAck _ _ _)).trans (DqSame.emit _ _ _)).star

theorem retransmitW_star (lw : LW) (n : Node) (s : Nat) (hs : s < lw.l.sess.length) :
    Star (DqStep s) lw.l (retransmitW lw n).l := by
  by_cases h : n.cnt < (lw.l.getS n.sess).maxRtx
  · rw [(retransmitW_resend lw n h).1]; exact retransmit_star lw.l n s hs
  · unfold retransmitW
    dsimp only
    simp only [h, if_false]
    split
    · exact (releaseW_star lw n.sess s hs).trans (DqSame.emit _ _ _).star
    · exact releaseW_star lw n.sess s hs

theorem dueLoopW_star : ∀ (fuel : Nat) (lw : LW) (s : Nat), s < lw.l.sess.length →
    Star (DqStep s) lw.l (dueLoopW fuel lw).l
  | 0, _, _, _ => Star.refl
  | fuel + 1, lw, s, hs => by
    unfold dueLoopW
    split
    · exact Star.refl
    · split
      · split
        · exact Star.refl
        · rename_i n rest hp
          have h1 := retransmitW_star { lw with l := { lw.l with q := { lw.l.q with nodes := rest } } } n s (by exact hs)
          refine ((DqSame.mk_q s lw.l _).star.trans h1).trans (dueLoopW_star fuel _ s ?_)
          rw [h1.len]; exact hs
      · exact Star.refl

theorem afterRxW_star (lw : LW) (s : Nat) (hs : s < lw.l.sess.length) : Star (DqStep s) lw.l (afterRxW lw).l := by
  unfold afterRxW; rw [prepareCoreW_fst]; exact dueLoopW_star _ _ _ hs

theorem prepareW_star (lw : LW) (s : Nat) (hs : s < lw.l.sess.length) : Star (DqStep s) lw.l (prepareW lw).l := by
  unfold prepareW
  dsimp only
  rw [prepareCoreW_fst]
  exact (dueLoopW_star _ lw s hs).trans (DqSame.emit _ _ _).star

theorem rxAckW_star (lw : LW) (s' mid s : Nat) (hs : s < lw.l.sess.length) :
    Star (DqStep s) lw.l (rxAckW lw s' mid).l := by
  unfold rxAckW
  rcases removeNode lw.l.q.nodes s' mid with ⟨res, rest⟩
  cases res
  · exact (DqSame.mk_q s lw.l _).star
  · exact (DqSame.mk_q s lw.l _).star.trans
      (releaseW_star { lw with l := { lw.l with q := { lw.l.q with nodes := rest } } } _ _ (by exact hs))

theorem rxRstW_star (lw : LW) (s' mid s : Nat) (hs : s < lw.l.sess.length) :
    Star (DqStep s) lw.l (rxRstW lw s' mid).l := by
  unfold rxRstW
  rcases removeNode lw.l.q.nodes s' mid with ⟨res, rest⟩
  have hr := releaseW_star { lw with l := { lw.l with q := { lw.l.q with nodes := rest } } } s' s (by exact hs)
  cases res
  · exact ((DqSame.mk_q s lw.l _).trans (DqSame.emit _ _ _)).star
  · simp only []
    split
    · exact ((DqSame.mk_q s lw.l _).star.trans hr).trans (DqSame.emit _ _ _).star
    · exact (DqSame.mk_q s lw.l _).star.trans hr

theorem rxBadW_star (lw : LW) (s' mid s : Nat) (hs : s < lw.l.sess.length) :
    Star (DqStep s) lw.l (rxBadW lw s' mid).l := by
  unfold rxBadW
  rcases removeNode lw.l.q.nodes s' mid with ⟨res, rest⟩
  have hr := releaseW_star { lw with l := { lw.l with q := { lw.l.q with nodes := rest } } } s' s (by exact hs)
  cases res
  · exact (DqSame.mk_q s lw.l _).star
  · exact ((DqSame.mk_q s lw.l _).star.trans hr).trans (DqSame.emit _ _ _).star

theorem cancelTokenW_star : ∀ (fuel : Nat) (lw : LW) (s' tok s : Nat), s < lw.l.sess.length →
    Star (DqStep s) lw.l (cancelTokenW fuel lw s' tok).l
  | 0, _, _, _, _, _ => Star.refl
  | fuel + 1, lw, s', tok, s, hs => by
    unfold cancelTokenW
    split
    · exact Star.refl
    · rename_i n rest hr
      have hrel := releaseW_star { lw with l := { lw.l with q := { lw.l.q with nodes := rest } } } s' s (by exact hs)
      cases hc : n.con
      · simp only [Bool.false_eq_true, if_false]
        exact (DqSame.mk_q s lw.l _).star.trans (cancelTokenW_star fuel
          { lw with l := { lw.l with q := { lw.l.q with nodes := rest } } } s' tok s (by exact hs))
      · simp only [if_true]
        refine ((DqSame.mk_q s lw.l _).star.trans hrel).trans (cancelTokenW_star fuel _ s' tok s ?_)
        rw [hrel.len]; exact hs

theorem rxNonW_star (lw : LW) (s' mid tok s : Nat) (hs : s < lw.l.sess.length) :
    Star (DqStep s) lw.l (rxNonW lw s' mid tok).l := by
  unfold rxNonW
  exact (cancelTokenW_star _ lw s' tok s hs).trans (DqSame.emit _ _ _).star

/-- every event moves the delay queue of every session only by `DqStep`s, whatever the write oracle says -/
theorem stepW_star (lw : LW) (e : Ev) (s : Nat) (hs : s < lw.l.sess.length) : Star (DqStep s) lw.l (stepW lw e).l := by
  cases e with
  | setNow t => exact (show DqSame s lw.l { lw.l with now := t } from ⟨rfl, rfl⟩).star
  | submit s' con mid r => exact submitW_star lw s' con mid r s hs
  | prepare => exact prepareW_star lw s hs
  | rxAck s' mid =>
    simp only [stepW]; split
    · have h1 := rxAckW_star lw s' mid s hs
      exact h1.trans (afterRxW_star _ s (by rw [h1.len]; exact hs))
    · exact Star.refl
  | rxRst s' mid =>
    simp only [stepW]; split
    · have h1 := rxRstW_star lw s' mid s hs
      exact h1.trans (afterRxW_star _ s (by rw [h1.len]; exact hs))
    · exact Star.refl
  | rxNon s' mid tok =>
    simp only [stepW]; split
    · have h1 := rxNonW_star lw s' mid tok s hs
      exact h1.trans (afterRxW_star _ s (by rw [h1.len]; exact hs))
    · exact Star.refl
  | rxBad s' mid =>
    simp only [stepW]; split
    · have h1 := rxBadW_star lw s' mid s hs
      exact h1.trans (afterRxW_star _ s (by rw [h1.len]; exact hs))
    · exact Star.refl
  | hold s' => exact (DqSame.setS_keep (by exact hs) s' (by rfl)).star
  | connect s' => exact connectedW_star lw s' s hs
  | disconnect s' =>
    simp only [stepW]; split
    · exact disconnect_star lw.l s' s hs
    · exact Star.refl

theorem runW_star (evs : List Ev) : ∀ (lw : LW) (s : Nat), s < lw.l.sess.length →
    Star (DqStep s) lw.l (runW lw evs).l := by
  induction evs with
  | nil => intro lw s _; exact Star.refl
  | cons e es ih =>
    intro lw s hs
    have h1 := stepW_star lw e s hs
    exact h1.trans (ih (stepW lw e) s (by rw [h1.len]; exact hs))

end Coap.MsgW
