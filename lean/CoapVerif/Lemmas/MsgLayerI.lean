import CoapVerif.Model.MsgLayerI
import CoapVerif.Lemmas.MsgLayer
import CoapVerif.Lemmas.MsgLayerW
import CoapVerif.Lemmas.MsgLayerWRefuse
import CoapVerif.Lemmas.TimerSimFull
/-
C06, ICMP events (`Model/MsgLayerI.lean`).

* `icmpReport_eq`: the COAP_NACK_ICMP_ISSUE path of `coap_session_disconnected_lkd` adds ONE report to the output list
  and changes nothing else.
* `step_appOut` / `afterRx_appOut`: no function of the base model reads the output list (from the `rebase` lemmas of the
  write-failure model with an oracle that never fails).
* `runI_strip`: erase the ICMP reports and the logged waits (`strip`) — a run with ICMP events IS the base model's run
  in which every ICMP event on an open socket is the I/O step that ends `coap_io_do_epoll` (`projI`): same clock, same
  send queue (deadlines, counters), same sessions (`con_active`, delay queues), same transmissions / outcome NACKs /
  handler calls / results of `coap_send`, in the same order.  Every theorem about base runs that does not look at
  logged waits or ICMP reports is thereby a theorem about runs with ICMP events.
-/
namespace Coap.MsgI
open Coap.SQ Coap.Msg Coap.MsgW

/-- outputs that are neither an ICMP report nor a logged wait -/
def keep : Out → Bool
  | .nack _ _ .icmp _ _ => false
  | .wait _ _ => false
  | _ => true

def strip (l : L) : L := { l with out := l.out.filter keep }
def bareL (l : L) : L := { l with out := [] }

theorem appOut_bareL (l : L) : appOut (bareL l) l.out = l := by
  cases l; simp [appOut, bareL]

theorem strip_eq_appOut (l : L) : strip l = appOut (bareL l) (l.out.filter keep) := by
  cases l; simp [appOut, bareL, strip]

theorem strip_appOut (l : L) (o : List Out) : strip (appOut l o) = appOut (strip l) (o.filter keep) := by
  simp [strip, appOut, List.filter_append]

theorem strip_strip (l : L) : strip (strip l) = strip l := by
  simp [strip, List.filter_filter]

theorem strip_emit_drop (l : L) (o : Out) (h : keep o = false) : strip (l.emit o) = strip l := by
  simp [strip, L.emit, h]

private def lw0 (l : L) : LW := { l := l }

private theorem noFail_lw0 (l : L) : NoFail (lw0 l) := by
  intro b hb; simp [lw0] at hb

private theorem rebase_lw0 (l : L) (o : List Out) : rebase o [] false (lw0 l) = lw0 (appOut l o) := by
  simp [rebase, lw0]

/-- no function of the base model reads the output list -/
theorem step_appOut (l : L) (o : List Out) (e : Ev) : step (appOut l o) e = appOut (step l e) o := by
  have hq : ∀ l', (stepW (lw0 l') e).dev = false := fun l' => ((stepW_quiet (lw0 l') e) (noFail_lw0 l')).2
  have h1 := (stepW_tracks (lw0 (appOut l o)) e (hq _)).2
  have h2 := (stepW_tracks (lw0 l) e (hq _)).2
  have h3 := stepW_rebase o [] false (lw0 l) e
  rw [rebase_lw0] at h3
  have h4 : (stepW (lw0 (appOut l o)) e).l = appOut (stepW (lw0 l) e).l o := by rw [h3]; rfl
  have h1' : (stepW (lw0 (appOut l o)) e).l = step (appOut l o) e := h1
  have h2' : (stepW (lw0 l) e).l = step l e := h2
  rw [← h1', h4, h2']

theorem afterRx_appOut (l : L) (o : List Out) : afterRx (appOut l o) = appOut (afterRx l) o := by
  have hq : ∀ l', (afterRxW (lw0 l')).dev = false := fun l' => ((prepareCoreW_quiet (lw0 l')) (noFail_lw0 l')).2
  have h1 := (afterRxW_tracks (lw0 (appOut l o)) (hq _)).2
  have h2 := (afterRxW_tracks (lw0 l) (hq _)).2
  have h3 := afterRxW_rebase o [] false (lw0 l)
  rw [rebase_lw0] at h3
  have h4 : (afterRxW (lw0 (appOut l o))).l = appOut (afterRxW (lw0 l)).l o := by rw [h3]; rfl
  have h1' : (afterRxW (lw0 (appOut l o))).l = afterRx (appOut l o) := h1
  have h2' : (afterRxW (lw0 l)).l = afterRx l := h2
  rw [← h1', h4, h2']

theorem strip_step (l : L) (e : Ev) : strip (step l e) = strip (step (strip l) e) := by
  conv => lhs; rw [← appOut_bareL l]
  rw [strip_eq_appOut l, step_appOut, step_appOut, strip_appOut, strip_appOut]
  simp [List.filter_filter]

theorem strip_afterRx (l : L) : strip (afterRx l) = strip (afterRx (strip l)) := by
  conv => lhs; rw [← appOut_bareL l]
  rw [strip_eq_appOut l, afterRx_appOut, afterRx_appOut, strip_appOut, strip_appOut]
  simp [List.filter_filter]

theorem strip_step_congr {l1 l2 : L} (h : strip l1 = strip l2) (e : Ev) : strip (step l1 e) = strip (step l2 e) := by
  rw [strip_step l1, strip_step l2, h]

theorem strip_prepare (l : L) : strip (prepare l) = strip (afterRx l) := by
  unfold prepare afterRx
  exact strip_emit_drop _ _ rfl

/-- the ICMP path of `coap_session_disconnected_lkd`: one report — about the first message of the session in the send
queue, else about the large-receive record, else about nothing in particular — is added; nothing else changes -/
theorem icmpReport_eq (l : L) (s : Nat) (lg : Option Nat) :
    icmpReport l s lg =
      l.emit (match l.q.nodes.find? (fun n => n.sess = s), lg with
        | some n, _ => .nack l.now s .icmp n.mid true
        | none, some mid => .nack l.now s .icmp mid true
        | none, none => .nack l.now s .icmp 0 false) := by
  unfold icmpReport
  cases l.q.nodes.find? (fun n => n.sess = s) <;> cases lg <;> rfl

theorem strip_icmpReport (l : L) (s : Nat) (lg : Option Nat) : strip (icmpReport l s lg) = strip l := by
  rw [icmpReport_eq]
  apply strip_emit_drop
  cases l.q.nodes.find? (fun n => n.sess = s) <;> cases lg <;> rfl

theorem runI_strip : ∀ (evs : List EvI) (l1 l2 : L), strip l1 = strip l2 →
    strip (runI l1 evs) = strip (run l2 (projI l1 evs)) := by
  intro evs
  induction evs with
  | nil => intro l1 l2 h; exact h
  | cons e evs ih =>
    intro l1 l2 h
    cases e with
    | base e =>
      show strip (runI (step l1 e) evs) = strip (run (step l2 e) (projI (step l1 e) evs))
      exact ih _ _ (strip_step_congr h e)
    | icmp s =>
      by_cases ho : (l1.getS s).sockOpen = true
      · have e1 : runI l1 (.icmp s :: evs) = runI (afterRx (icmpReport l1 s none)) evs := by
          simp [runI, stepI, ho]
        have e2 : projI l1 (.icmp s :: evs) = .prepare :: projI (afterRx (icmpReport l1 s none)) evs := by
          simp [projI, stepI, ho]
        rw [e1, e2]
        show strip (runI _ evs) = strip (run (prepare l2) _)
        apply ih
        rw [strip_prepare, strip_afterRx (icmpReport l1 s none), strip_icmpReport, strip_afterRx l2, h]
      · have e1 : runI l1 (.icmp s :: evs) = runI l1 evs := by simp [runI, stepI, ho]
        have e2 : projI l1 (.icmp s :: evs) = projI l1 evs := by simp [projI, ho]
        rw [e1, e2]
        exact ih _ _ h

/-- every base event of the projection is a base event of the list (the projection only adds I/O steps) -/
theorem projI_mem_base : ∀ (evs : List EvI) (l : L) (e : Ev), e ≠ .prepare → e ∈ projI l evs → EvI.base e ∈ evs := by
  intro evs
  induction evs with
  | nil => intro l e _ h; simp [projI] at h
  | cons x evs ih =>
    intro l e hne h
    cases x with
    | base e' =>
      simp only [projI, List.mem_cons] at h
      rcases h with rfl | h
      · exact List.mem_cons_self
      · exact List.mem_cons_of_mem _ (ih _ e hne h)
    | icmp s =>
      simp only [projI] at h
      split at h
      · simp only [List.mem_cons] at h
        rcases h with rfl | h
        · exact absurd rfl hne
        · exact List.mem_cons_of_mem _ (ih _ e hne h)
      · exact List.mem_cons_of_mem _ (ih _ e hne h)

/-! ### what `strip` keeps -/

theorem strip_now (l : L) : (strip l).now = l.now := rfl
theorem strip_q (l : L) : (strip l).q = l.q := rfl
theorem strip_sess (l : L) : (strip l).sess = l.sess := rfl

theorem strip_parts {a b : L} (h : strip a = strip b) :
    a.now = b.now ∧ a.q = b.q ∧ a.sess = b.sess ∧ a.out.filter keep = b.out.filter keep :=
  ⟨(congrArg L.now h : (strip a).now = (strip b).now), (congrArg L.q h : (strip a).q = (strip b).q), (congrArg L.sess h : (strip a).sess = (strip b).sess), (congrArg L.out h : (strip a).out = (strip b).out)⟩

theorem mem_keep_iff {a b : List Out} (h : a.filter keep = b.filter keep) (o : Out) (hk : keep o = true) :
    o ∈ a ↔ o ∈ b := by
  have h1 : o ∈ a.filter keep ↔ o ∈ b.filter keep := by rw [h]
  simpa [List.mem_filter, hk] using h1

theorem obsM_drop (o : Out) (h : keep o = false) : Coap.Sim.obsM o = none := by
  cases o with
  | nack t s r mid known => cases r <;> cases known <;> simp_all [keep, Coap.Sim.obsM]
  | wait t ms => rfl
  | tx t s mid cnt con => simp [keep] at h
  | rsp t s mid => simp [keep] at h
  | sub res => simp [keep] at h

theorem filterMap_obsM_keep (out : List Out) : (out.filter keep).filterMap Coap.Sim.obsM = out.filterMap Coap.Sim.obsM := by
  induction out with
  | nil => rfl
  | cons o r ih =>
    by_cases hk : keep o = true
    · simp [hk, List.filterMap_cons, ih]
    · have hk' : keep o = false := by simpa using hk
      simp [hk', obsM_drop o hk', ih]

theorem nackC_keep (s mid : Nat) (out : List Out) : Coap.Sim.nackC s mid (out.filter keep) = Coap.Sim.nackC s mid out := by
  induction out with
  | nil => rfl
  | cons o r ih =>
    by_cases hk : keep o = true
    · simp [hk, Coap.Sim.nackC, ih]
    · have hk' : keep o = false := by simpa using hk
      simp [hk', Coap.Sim.nackC, Coap.Sim.nackW, obsM_drop o hk', ih]

theorem txC_keep (s mid : Nat) (out : List Out) : Coap.Sim.txC s mid (out.filter keep) = Coap.Sim.txC s mid out := by
  induction out with
  | nil => rfl
  | cons o r ih =>
    by_cases hk : keep o = true
    · simp [hk, Coap.Sim.txC, ih]
    · have hk' : keep o = false := by simpa using hk
      cases o with
      | nack t s' r' mid' known => simp [hk', Coap.Sim.txC, ih]
      | wait t ms => simp [hk', Coap.Sim.txC, ih]
      | tx t s' mid' cnt con => simp [keep] at hk'
      | rsp t s' mid' => simp [keep] at hk'
      | sub res => simp [keep] at hk'

theorem nackC_congr {a b : List Out} (h : a.filter keep = b.filter keep) (s mid : Nat) :
    Coap.Sim.nackC s mid a = Coap.Sim.nackC s mid b := by
  rw [← nackC_keep s mid a, ← nackC_keep s mid b, h]

theorem txC_congr {a b : List Out} (h : a.filter keep = b.filter keep) (s mid : Nat) :
    Coap.Sim.txC s mid a = Coap.Sim.txC s mid b := by
  rw [← txC_keep s mid a, ← txC_keep s mid b, h]

theorem txsM_congr {a b : List Out} (h : a.filter keep = b.filter keep) : Coap.SimF.txsM a = Coap.SimF.txsM b := by
  unfold Coap.SimF.txsM
  rw [← filterMap_obsM_keep a, ← filterMap_obsM_keep b, h]

theorem nksM_congr {a b : List Out} (h : a.filter keep = b.filter keep) : Coap.SimF.nksM a = Coap.SimF.nksM b := by
  unfold Coap.SimF.nksM
  rw [← filterMap_obsM_keep a, ← filterMap_obsM_keep b, h]

/-! ### C08's invariants along runs with ICMP events -/

theorem wf_icmpReport (l : L) (s : Nat) (lg : Option Nat) (h : WF l) : WF (icmpReport l s lg) := by
  rw [icmpReport_eq]; exact h

theorem wf_stepI (l : L) (e : EvI) (h : WF l) : WF (stepI l e) := by
  cases e with
  | base e => exact wf_step l e h
  | icmp s =>
    simp only [stepI]
    split
    · exact wf_afterRx _ (wf_icmpReport l s none h)
    · exact h

theorem wf_runI (evs : List EvI) : ∀ (l : L), WF l → WF (runI l evs) := by
  induction evs with
  | nil => intro l h; exact h
  | cons e evs ih => intro l h; exact ih _ (wf_stepI l e h)

theorem stepI_len (l : L) (e : EvI) : (stepI l e).sess.length = l.sess.length := by
  cases e with
  | base e => exact step_len l e
  | icmp s =>
    simp only [stepI]
    split
    · rw [afterRx_len, icmpReport_eq]; rfl
    · rfl

theorem runI_len (evs : List EvI) : ∀ (l : L), (runI l evs).sess.length = l.sess.length := by
  induction evs with
  | nil => intro l; rfl
  | cons e evs ih => intro l; exact (ih _).trans (stepI_len l e)

theorem icmpReport_star (l : L) (s' : Nat) (lg : Option Nat) (s : Nat) : Star (DqStep s) l (icmpReport l s' lg) := by
  rw [icmpReport_eq]; exact (DqSame.emit _ _ _).star

theorem stepI_star (l : L) (e : EvI) (s : Nat) (hs : s < l.sess.length) : Star (DqStep s) l (stepI l e) := by
  cases e with
  | base e => exact step_star l e s hs
  | icmp s' =>
    simp only [stepI]
    split
    · exact (icmpReport_star l s' none s).trans
        (afterRx_star _ s (by rw [icmpReport_eq]; exact hs))
    · exact Star.refl

theorem runI_star (evs : List EvI) : ∀ (l : L) (s : Nat), s < l.sess.length → Star (DqStep s) l (runI l evs) := by
  induction evs with
  | nil => intro l s _; exact Star.refl
  | cons e evs ih =>
    intro l s hs
    exact (stepI_star l e s hs).trans (ih _ s (by rw [stepI_len]; exact hs))

end Coap.MsgI
