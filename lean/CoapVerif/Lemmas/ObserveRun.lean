import CoapVerif.Lemmas.ObserveLeF
/- Run-level (global) lemmas for C11: what one walk of the notify loop does to each entry (`Visit`), how every primitive
   acts on ONE resource and on what is written about it (`Micro`, `Trans`), and the lifting to `step` / `run`. -/
namespace Coap.Observe
open Coap.Generated

/-- the datagram `sendNote` writes -/
def noteOut (c n tok code : Nat) (obs : Option Nat) (isCon : Bool) (mid rid ver : Nat) : Out :=
  { tag := .note, c := c, n := n, token := tok, code := code, obs := obs,
    kind := if isCon then .con else .non, mid := mid, res := rid, ver := ver }

theorem sendNote_out' (st : State) (c tok code : Nat) (obs : Option Nat) (isCon : Bool) (mid rid ver : Nat) :
    (sendNote st c tok code obs isCon mid rid ver).2 = noteOut c (st.notes c).length tok code obs isCon mid rid ver := by
  unfold sendNote noteOut; split <;> rfl

/-- the NON counter after a 2.05 notification -/
def nextNonCnt (r : Res) (o : Sub) : Nat := if wantCon r o || r.fNonAlways then 0 else (o.nonCnt + 1) % 256

/-- one visit of the notify loop, seen from the entry: what becomes of it, whether `partiallydirty` is raised, what is written.
    (The session state only decides between `defer` and the sending cases.) -/
inductive Visit (d : Bool) (r : Res) (o : Sub) : Option Sub → Bool → List Out → Prop where
  | skip : r.dirty = false → o.dirty = false → Visit d r o (some o) false []
  | defer : (r.dirty = true ∨ o.dirty = true) → Visit d r o (some { o with dirty := true }) true []
  | bye (m n : Nat) : (r.dirty = true ∨ o.dirty = true) → d = true →
      Visit d r o (some { o with dirty := false, mid := m }) false [noteOut o.sess n o.token 132 none false m r.id r.ver]
  | error (m n : Nat) : (r.dirty = true ∨ o.dirty = true) → d = false → r.err = true →
      Visit d r o none false [noteOut o.sess n o.token 132 none (wantCon r o) m r.id r.ver]
  | sent (m n : Nat) : (r.dirty = true ∨ o.dirty = true) → d = false → r.err = false →
      Visit d r o (some { o with dirty := false, mid := m, nonCnt := nextNonCnt r o, lastVer := some r.ver }) false
        [noteOut o.sess n o.token 69 (some r.observe) (wantCon r o) m r.id r.ver]

theorem notifyOne_visit (d : Bool) (r : Res) (o : Sub) (st : State) :
    Visit d r o (notifyOne d r o st).sub (notifyOne d r o st).pd (notifyOne d r o st).outs := by
  unfold notifyOne
  by_cases h1 : (!r.dirty && !o.dirty) = true
  · rw [if_pos h1]
    simp at h1
    exact Visit.skip h1.1 h1.2
  · rw [if_neg h1]
    have hst : r.dirty = true ∨ o.dirty = true := by
      cases hr : r.dirty <;> cases ho : o.dirty <;> simp [hr, ho] at h1 ⊢
    by_cases h2 : backPressured st r o = true
    · rw [if_pos h2]; exact Visit.defer hst
    · rw [if_neg h2]
      dsimp only
      cases d with
      | true =>
        simp only [if_true, sendNote_out']
        exact Visit.bye _ _ hst rfl
      | false =>
        simp only [Bool.false_eq_true, if_false]
        by_cases h3 : r.err = true
        · rw [if_pos h3]
          simp only [sendNote_out']
          exact Visit.error _ _ hst rfl h3
        · rw [if_neg h3]
          simp only [sendNote_out']
          exact Visit.sent _ _ hst rfl (by simpa using h3)

/-- a whole walk over a subscriber list -/
inductive Visits (d : Bool) (r : Res) : List Sub → List Sub → Bool → List Out → Prop where
  | nil : Visits d r [] [] false []
  | cons {o : Sub} {s : Option Sub} {pd : Bool} {outs : List Out} {rest subs' : List Sub} {pd' : Bool} {outs' : List Out} :
      Visit d r o s pd outs → Visits d r rest subs' pd' outs' →
      Visits d r (o :: rest) (s.toList ++ subs') (pd || pd') (outs ++ outs')

theorem notifyLoop_visits (d : Bool) (r : Res) : ∀ (subs : List Sub) (st : State),
    Visits d r subs (notifyLoop d r subs st).subs (notifyLoop d r subs st).pd (notifyLoop d r subs st).outs
  | [], _ => Visits.nil
  | o :: rest, st => by
    unfold notifyLoop
    exact Visits.cons (notifyOne_visit d r o st) (notifyLoop_visits d r rest _)

/-! ### facts about one visit -/
theorem Visit.ident_eq {d : Bool} {r : Res} {o o' : Sub} {pd : Bool} {outs : List Out}
    (h : Visit d r o (some o') pd outs) : ident o' = ident o := by
  cases h <;> rfl

theorem Visit.out_fields {d : Bool} {r : Res} {o : Sub} {s : Option Sub} {pd : Bool} {outs : List Out}
    (h : Visit d r o s pd outs) :
    ∀ out ∈ outs, out.tag = .note ∧ out.c = o.sess ∧ out.token = o.token ∧ out.res = r.id ∧ out.ver = r.ver := by
  cases h <;> simp [noteOut]

theorem matchST_ident {c tok : Nat} {a b : Sub} (h : ident a = ident b) : matchST c tok a = matchST c tok b := by
  unfold ident at h
  unfold matchST
  simp only [Prod.mk.injEq] at h
  rw [h.1, h.2.1]

/-- is this datagram addressed to (session c, token tok)? -/
def toST (c tok : Nat) (o : Out) : Bool := o.c == c && o.token == tok

theorem Visit.filter_match {d : Bool} {r : Res} {o : Sub} {s : Option Sub} {pd : Bool} {outs : List Out} {c tok : Nat}
    (h : Visit d r o s pd outs) (hm : matchST c tok o = true) : outs.filter (toST c tok) = outs := by
  rw [List.filter_eq_self]
  intro out ho
  obtain ⟨_, h1, h2, _⟩ := h.out_fields out ho
  unfold matchST at hm
  unfold toST
  rw [h1, h2]; exact hm

theorem Visit.filter_nomatch {d : Bool} {r : Res} {o : Sub} {s : Option Sub} {pd : Bool} {outs : List Out} {c tok : Nat}
    (h : Visit d r o s pd outs) (hm : matchST c tok o = false) : outs.filter (toST c tok) = [] := by
  rw [List.filter_eq_nil_iff]
  intro out ho
  obtain ⟨_, h1, h2, _⟩ := h.out_fields out ho
  unfold matchST at hm
  unfold toST
  rw [h1, h2, hm]; simp

/-! ### facts about a walk -/
theorem Visits.out_fields {d : Bool} {r : Res} {subs subs' : List Sub} {pd : Bool} {outs : List Out}
    (h : Visits d r subs subs' pd outs) : ∀ out ∈ outs, out.tag = .note ∧ out.res = r.id ∧ out.ver = r.ver := by
  induction h with
  | nil => intro out ho; cases ho
  | cons hv _ ih =>
    intro out ho
    rcases List.mem_append.mp ho with ho | ho
    · obtain ⟨h1, _, _, h2, h3⟩ := hv.out_fields out ho
      exact ⟨h1, h2, h3⟩
    · exact ih out ho

theorem Visits.idLe {d : Bool} {r : Res} {subs subs' : List Sub} {pd : Bool} {outs : List Out}
    (h : Visits d r subs subs' pd outs) : IdLe subs' subs := by
  induction h with
  | nil => exact List.Sublist.refl _
  | @cons o s pd outs rest subs' pd' outs' hv _ ih =>
    unfold IdLe at ih ⊢
    rw [List.map_append, List.map_cons]
    refine List.Sublist.append (l₂ := [ident o]) ?_ ih
    cases s with
    | none => simp
    | some o' => simp [hv.ident_eq]

theorem Visits.nomatch {d : Bool} {r : Res} {subs subs' : List Sub} {pd : Bool} {outs : List Out} {c tok : Nat}
    (h : Visits d r subs subs' pd outs) (hn : ∀ s ∈ subs, matchST c tok s = false) :
    (∀ s ∈ subs', matchST c tok s = false) ∧ outs.filter (toST c tok) = [] := by
  induction h with
  | nil => exact ⟨(fun s hs => by cases hs), rfl⟩
  | @cons o s pd outs rest subs' pd' outs' hv _ ih =>
    have hi := ih (fun s hs => hn s (List.mem_cons_of_mem _ hs))
    have ho := hn o (List.mem_cons_self ..)
    refine ⟨?_, ?_⟩
    · intro x hx
      rcases List.mem_append.mp hx with hx | hx
      · cases s with
        | none => simp at hx
        | some o' =>
          simp at hx; subst hx
          rw [matchST_ident hv.ident_eq]; exact ho
      · exact hi.1 x hx
    · rw [List.filter_append, hv.filter_nomatch ho, hi.2]; rfl

/-- With distinct entries, the walk treats (session c, token tok) through exactly ONE visit: either nobody matches (before and
    after, nothing written to it), or the unique matching entry `o` is visited with result `s`, which is then the only
    matching entry afterwards, and what is written to (c, tok) is exactly that visit's output. -/
theorem Visits.target {d : Bool} {r : Res} {subs subs' : List Sub} {pd : Bool} {outs : List Out} (c tok : Nat)
    (h : Visits d r subs subs' pd outs) (hnd : (subs.map ident).Pairwise Distinct) :
    ((∀ s ∈ subs, matchST c tok s = false) ∧ (∀ s ∈ subs', matchST c tok s = false) ∧ outs.filter (toST c tok) = []) ∨
    (∃ o ∈ subs, matchST c tok o = true ∧ ∃ s pd1 po, Visit d r o s pd1 po ∧ (∀ o' ∈ subs', matchST c tok o' = true → s = some o') ∧
        (∀ o', s = some o' → o' ∈ subs') ∧ outs.filter (toST c tok) = po) := by
  induction h with
  | nil => exact Or.inl ⟨(fun s hs => by cases hs), (fun s hs => by cases hs), rfl⟩
  | @cons o s pd outs rest subs' pd' outs' hv hvs ih =>
    rw [List.map_cons, List.pairwise_cons] at hnd
    by_cases hm : matchST c tok o = true
    · -- the head is the entry; nobody in the rest matches
      have hrest : ∀ x ∈ rest, matchST c tok x = false := by
        intro x hx
        have hd := hnd.1 (ident x) (List.mem_map_of_mem hx)
        cases hx' : matchST c tok x with
        | false => rfl
        | true =>
          exfalso
          unfold matchST at hm hx'
          simp at hm hx'
          have := hd (by simp [ident, hm.1, hx'.1])
          simp [ident] at this
          exact this.1 (by rw [hm.2, hx'.2])
      have hn := hvs.nomatch hrest
      refine Or.inr ⟨o, List.mem_cons_self .., hm, s, pd, outs, hv, ?_, ?_, ?_⟩
      · intro o' ho' hmo'
        rcases List.mem_append.mp ho' with ho' | ho'
        · cases s with
          | none => simp at ho'
          | some o'' => simp at ho'; rw [ho']
        · rw [hn.1 o' ho'] at hmo'; cases hmo'
      · intro o' hs; subst hs; simp
      · rw [List.filter_append, hv.filter_match hm, hn.2, List.append_nil]
    · have hm' : matchST c tok o = false := by simpa using hm
      rcases ih hnd.2 with ⟨h1, h2, h3⟩ | ⟨o1, ho1, hm1, s1, pd1, po, hv1, h4, h5, h6⟩
      · refine Or.inl ⟨?_, ?_, ?_⟩
        · intro x hx
          cases hx with
          | head => exact hm'
          | tail _ hx' => exact h1 x hx'
        · intro x hx
          rcases List.mem_append.mp hx with hx | hx
          · cases s with
            | none => simp at hx
            | some o' => simp at hx; subst hx; rw [matchST_ident hv.ident_eq]; exact hm'
          · exact h2 x hx
        · rw [List.filter_append, hv.filter_nomatch hm', h3]; rfl
      · refine Or.inr ⟨o1, List.mem_cons_of_mem _ ho1, hm1, s1, pd1, po, hv1, ?_, ?_, ?_⟩
        · intro o' ho' hmo'
          rcases List.mem_append.mp ho' with ho' | ho'
          · cases s with
            | none => simp at ho'
            | some o'' =>
              simp at ho'; subst ho'
              rw [matchST_ident hv.ident_eq, hm'] at hmo'; cases hmo'
          · exact h4 o' ho' hmo'
        · intro o' hs; exact List.mem_append_right _ (h5 o' hs)
        · rw [List.filter_append, hv.filter_nomatch hm', h6]; rfl

/-! ### how one resource evolves, and what is written about it -/
/-- `A rid c tok`: a registration request of (session c, token tok) on resource rid is being handled -/
inductive Micro (A : Nat → Nat → Nat → Prop) : Res → List Out → Res → Prop where
  /-- entries removed, fail counters touched -/
  | le {y y' : Res} : ResLeF y' y → Micro A y [] y'
  | errFlag {y : Res} (b : Bool) : Micro A y [] { y with err := b }
  /-- coap_resource_notify_observers_lkd -/
  | change {y : Res} : Micro A y [] { y with dirty := true, observe := nextObserve y.observe, ver := y.ver + 1 }
  /-- successful (re-)registration: coap_add_observer + the 2.05 response carrying the counter's current value -/
  | register {y : Res} (c tok key m : Nat) (out : Out) : A y.id c tok → y.alive = true → y.err = false →
      out.tag = .resp → out.c = c → out.token = tok → out.code = 69 → out.obs = some y.observe → out.ver = y.ver →
      out.res = y.id → Micro A y [out] (addToRes y c tok key m)
  /-- any other response -/
  | resp {y : Res} (out : Out) : out.tag = .resp → (out.obs = none ∨ out.code ≠ 69) → Micro A y [out] y
  /-- coap_notify_observers(COAP_NOT_DELETING_RESOURCE) on an alive resource -/
  | notify {y : Res} {subs' : List Sub} {pd : Bool} {outs : List Out} : y.alive = true →
      Visits false y y.subs subs' pd outs → Micro A y outs { y with subs := subs', pdirty := pd, dirty := false }
  /-- coap_free_resource of a resource with something to tell: coap_notify_observers(COAP_DELETING_RESOURCE), entries freed -/
  | bye {y : Res} {subs' : List Sub} {pd : Bool} {outs : List Out} (pd' : Bool) : y.alive = true →
      Visits true y y.subs subs' pd outs → Micro A y outs { y with alive := false, subs := [], dirty := false, pdirty := pd' }
  | clean {y : Res} : (y.alive = false ∨ y.dirty = false) → Micro A y [] { y with dirty := false }
  /-- coap_free_resource -/
  | delete {y : Res} (pd : Bool) : Micro A y [] { y with alive := false, subs := [], dirty := false, pdirty := pd }

inductive Trans (A : Nat → Nat → Nat → Prop) : Res → List Out → Res → Prop where
  | refl {y : Res} : Trans A y [] y
  | step {y y1 y2 : Res} {o1 o2 : List Out} : Micro A y o1 y1 → Trans A y1 o2 y2 → Trans A y (o1 ++ o2) y2

theorem Trans.single {A : Nat → Nat → Nat → Prop} {y y' : Res} {o : List Out} (h : Micro A y o y') : Trans A y o y' := by
  have := Trans.step h (Trans.refl (A := A) (y := y'))
  simpa using this

theorem Trans.trans {A : Nat → Nat → Nat → Prop} {y y1 y2 : Res} {o1 o2 : List Out} (h1 : Trans A y o1 y1) (h2 : Trans A y1 o2 y2) :
    Trans A y (o1 ++ o2) y2 := by
  induction h1 with
  | refl => simpa using h2
  | step hm _ ih => rw [List.append_assoc]; exact Trans.step hm (ih h2)

theorem addToRes_fields (y : Res) (c tok key m : Nat) :
    (addToRes y c tok key m).id = y.id ∧ (addToRes y c tok key m).alive = y.alive ∧ (addToRes y c tok key m).fCon = y.fCon ∧
    (addToRes y c tok key m).fNonAlways = y.fNonAlways ∧ (addToRes y c tok key m).dirty = y.dirty ∧
    (addToRes y c tok key m).pdirty = y.pdirty ∧ (addToRes y c tok key m).ver = y.ver ∧
    (addToRes y c tok key m).observe = y.observe ∧ (addToRes y c tok key m).err = y.err := by
  unfold addToRes; split <;> simp

/-- identity and notification flags of a resource never change -/
theorem Micro.fixed {A : Nat → Nat → Nat → Prop} {y y' : Res} {o : List Out} (h : Micro A y o y') :
    y'.id = y.id ∧ y'.fCon = y.fCon ∧ y'.fNonAlways = y.fNonAlways := by
  cases h with
  | le h => exact ⟨h.id, h.fCon, h.fNonAlways⟩
  | register c tok key m out => have := addToRes_fields y c tok key m; exact ⟨this.1, this.2.2.1, this.2.2.2.1⟩
  | _ => exact ⟨rfl, rfl, rfl⟩

theorem Trans.fixed {A : Nat → Nat → Nat → Prop} {y y' : Res} {o : List Out} (h : Trans A y o y') :
    y'.id = y.id ∧ y'.fCon = y.fCon ∧ y'.fNonAlways = y.fNonAlways := by
  induction h with
  | refl => exact ⟨rfl, rfl, rfl⟩
  | step hm _ ih =>
    have := hm.fixed
    exact ⟨ih.1.trans this.1, ih.2.1.trans this.2.1, ih.2.2.trans this.2.2⟩

theorem Micro.mono {A B : Nat → Nat → Nat → Prop} (hAB : ∀ r c t, A r c t → B r c t) {y y' : Res} {o : List Out}
    (h : Micro A y o y') : Micro B y o y' := by
  cases h with
  | le h => exact .le h
  | errFlag b => exact .errFlag b
  | change => exact .change
  | register c tok key m out h1 h2 h3 h4 h5 h6 h7 h8 h9 h10 => exact .register c tok key m out (hAB _ _ _ h1) h2 h3 h4 h5 h6 h7 h8 h9 h10
  | resp out h1 h2 => exact .resp out h1 h2
  | notify h1 h2 => exact .notify h1 h2
  | bye pd' h1 h2 => exact .bye pd' h1 h2
  | clean h => exact .clean h
  | delete pd => exact .delete pd

/-- which of a step's datagrams are about resource `rid` (retransmissions carry no resource) -/
def fromRes (rid : Nat) (o : Out) : Bool := o.tag != .rtx && o.res == rid

/-- the resource table of `st'` arises from that of `st`, resource by resource, while `outs` is written -/
def StepRel (A : Nat → Nat → Nat → Prop) (st' st : State) (outs : List Out) : Prop :=
  All2 (fun y' y => Trans A y (outs.filter (fromRes y.id)) y') st'.res st.res

theorem All2.of_map {R : Res → Res → Prop} (f : Res → Res) : ∀ (l : List Res), (∀ y ∈ l, R (f y) y) → All2 R (l.map f) l
  | [], _ => All2.nil
  | x :: xs, h => All2.cons (h x (List.mem_cons_self ..)) (All2.of_map f xs fun y hy => h y (List.mem_cons_of_mem _ hy))

theorem All2.mono_mem {R S : Res → Res → Prop} {a b : List Res} (h : All2 R a b) (hRS : ∀ x y, y ∈ b → R x y → S x y) : All2 S a b := by
  induction h with
  | nil => exact All2.nil
  | cons h _ ih => exact All2.cons (hRS _ _ (List.mem_cons_self ..) h) (ih fun x y hy => hRS x y (List.mem_cons_of_mem _ hy))

theorem All2.trans' {R S T : Res → Res → Prop} (hRST : ∀ x y z, R x y → S y z → T x z) {a b c : List Res}
    (h1 : All2 R a b) (h2 : All2 S b c) : All2 T a c := by
  induction h1 generalizing c with
  | nil => cases h2; exact All2.nil
  | cons h t ih => cases h2 with
    | cons h' t' => exact All2.cons (hRST _ _ _ h h') (ih t')

theorem StepRel.trans {A : Nat → Nat → Nat → Prop} {st2 st1 st : State} {o1 o2 : List Out}
    (h1 : StepRel A st1 st o1) (h2 : StepRel A st2 st1 o2) : StepRel A st2 st (o1 ++ o2) := by
  unfold StepRel at *
  refine All2.trans' ?_ h2 h1
  intro x y z hxy hyz
  rw [List.filter_append]
  have : y.id = z.id := hyz.fixed.1
  rw [this] at hxy
  exact hyz.trans hxy

theorem StepRel.of_le {A : Nat → Nat → Nat → Prop} {st' st : State} {outs : List Out} (h : AllLeF st'.res st.res)
    (ho : ∀ o ∈ outs, o.tag = .rtx) : StepRel A st' st outs := by
  unfold StepRel
  refine All2.mono ?_ h
  intro x y hxy
  have : outs.filter (fromRes y.id) = [] := by
    rw [List.filter_eq_nil_iff]
    intro o hmem
    simp [fromRes, ho o hmem]
  rw [this]
  exact Trans.single (.le hxy)

theorem StepRel.of_le_nil {A : Nat → Nat → Nat → Prop} {st' st : State} (h : AllLeF st'.res st.res) : StepRel A st' st [] :=
  StepRel.of_le h (fun o ho => by cases ho)

theorem StepRel.of_eq {A : Nat → Nat → Nat → Prop} {st' st : State} (h : st'.res = st.res) : StepRel A st' st [] :=
  StepRel.of_le_nil (h ▸ AllLeF.refl _)

/-! ### the notify loop over all resources -/
theorem notifyRes_micro (A : Nat → Nat → Nat → Prop) (r : Res) (st : State) :
    Micro A r (notifyRes false r st).2.2 (notifyRes false r st).1 := by
  unfold notifyRes
  by_cases h : (r.alive && (r.dirty || r.pdirty)) = true
  · rw [if_pos h]
    simp only [Bool.and_eq_true] at h
    exact Micro.notify h.1 (notifyLoop_visits false r r.subs st)
  · rw [if_neg h]
    apply Micro.clean
    cases ha : r.alive <;> cases hd : r.dirty <;> simp [ha, hd] at h ⊢

/-- coap_free_resource: last words (deleting mode), then the resource is dead and lists nobody -/
theorem notifyRes_bye (A : Nat → Nat → Nat → Prop) (r : Res) (st : State) (pd' : Bool) :
    Trans A r (notifyRes true r st).2.2 { r with alive := false, subs := [], dirty := false, pdirty := pd' } := by
  unfold notifyRes
  by_cases h : (r.alive && (r.dirty || r.pdirty)) = true
  · rw [if_pos h]
    simp only [Bool.and_eq_true] at h
    exact Trans.single (Micro.bye pd' h.1 (notifyLoop_visits true r r.subs st))
  · rw [if_neg h]
    have h1 : Micro A r [] { r with dirty := false } := by
      apply Micro.clean
      cases ha : r.alive <;> cases hd : r.dirty <;> simp [ha, hd] at h ⊢
    have h2 : Micro A { r with dirty := false } [] { r with alive := false, subs := [], dirty := false, pdirty := pd' } :=
      Micro.delete pd'
    exact Trans.step h1 (Trans.single h2)

theorem notifyRes_outs (d : Bool) (r : Res) (st : State) :
    ∀ out ∈ (notifyRes d r st).2.2, out.tag = .note ∧ out.res = r.id ∧ out.ver = r.ver := by
  unfold notifyRes
  split
  · exact (notifyLoop_visits d r r.subs st).out_fields
  · intro out ho; cases ho

theorem filter_fromRes_self {rid : Nat} {outs : List Out} (h : ∀ out ∈ outs, out.tag = .note ∧ out.res = rid) :
    outs.filter (fromRes rid) = outs := by
  rw [List.filter_eq_self]
  intro o ho
  simp [fromRes, (h o ho).1, (h o ho).2]

theorem filter_fromRes_other {rid : Nat} {outs : List Out} (h : ∀ out ∈ outs, out.res ≠ rid) :
    outs.filter (fromRes rid) = [] := by
  rw [List.filter_eq_nil_iff]
  intro o ho
  simp [fromRes, h o ho]

theorem notifyAll_outs : ∀ (rs : List Res) (st : State), ∀ out ∈ (notifyAll rs st).2.2, out.tag = .note ∧ out.res ∈ rs.map (·.id)
  | [], _, out, h => by simp [notifyAll] at h
  | r :: rest, st, out, h => by
    unfold notifyAll at h
    dsimp only at h
    rcases List.mem_append.mp h with h | h
    · have := notifyRes_outs false r st out h
      exact ⟨this.1, by simp [this.2.1]⟩
    · have := notifyAll_outs rest _ out h
      exact ⟨this.1, List.mem_cons_of_mem _ this.2⟩

theorem notifyAll_rel (A : Nat → Nat → Nat → Prop) : ∀ (rs : List Res) (st : State), (rs.map (·.id)).Nodup →
    All2 (fun y' y => Trans A y ((notifyAll rs st).2.2.filter (fromRes y.id)) y') (notifyAll rs st).1 rs
  | [], _, _ => All2.nil
  | r :: rest, st, hn => by
    rw [List.map_cons, List.nodup_cons] at hn
    unfold notifyAll
    dsimp only
    refine All2.cons ?_ ?_
    · rw [List.filter_append, filter_fromRes_self (fun o ho => ⟨(notifyRes_outs false r st o ho).1, (notifyRes_outs false r st o ho).2.1⟩),
        filter_fromRes_other (rid := r.id) (fun o ho heq => hn.1 (heq ▸ (notifyAll_outs rest _ o ho).2)), List.append_nil]
      exact Trans.single (notifyRes_micro A r st)
    · refine All2.mono_mem (notifyAll_rel A rest _ hn.2) ?_
      intro x y hy hxy
      rw [List.filter_append, filter_fromRes_other (rid := y.id) (fun o ho heq => hn.1 (by
        rw [(notifyRes_outs false r st o ho).2.1] at heq
        rw [heq]; exact List.mem_map_of_mem hy)), List.nil_append]
      exact hxy

theorem notifyAll_res : ∀ (rs : List Res) (st : State), (notifyAll rs st).2.1.res = st.res
  | [], _ => rfl
  | r :: rest, st => by
    unfold notifyAll
    dsimp only
    rw [notifyAll_res rest, notifyRes_res]

theorem checkNotify_rel (A : Nat → Nat → Nat → Prop) (st : State) (hid : IdsNodup st) :
    StepRel A (checkNotify st).1 st (checkNotify st).2 := by
  unfold checkNotify
  split
  · exact notifyAll_rel A st.res _ hid
  · exact StepRel.of_eq rfl

theorem retransmit_outs (st : State) (q : QNode) : ∀ o ∈ (retransmit st q).2, o.tag = .rtx := by
  unfold retransmit
  split
  · intro o ho; simp at ho; rw [ho]
  · intro o ho; cases ho

theorem retransmitDue_outs : ∀ (fuel : Nat) (st : State), ∀ o ∈ (retransmitDue fuel st).2, o.tag = .rtx
  | 0, _, o, h => by simp [retransmitDue] at h
  | fuel + 1, st, o, h => by
    unfold retransmitDue at h
    split at h
    · cases h
    · split at h
      · dsimp only at h
        rcases List.mem_append.mp h with h | h
        · exact retransmit_outs _ _ o h
        · exact retransmitDue_outs fuel _ o h
      · cases h

theorem checkNotify_idsNodup (st : State) (hid : IdsNodup st) : IdsNodup (checkNotify st).1 := by
  unfold IdsNodup resIds; rw [(checkNotify_idLe st).ids]; exact hid

theorem io_rel (A : Nat → Nat → Nat → Prop) (st : State) (hid : IdsNodup st) : StepRel A (io st).1 st (io st).2 := by
  unfold io
  dsimp only
  have h1 := checkNotify_rel A st hid
  have h2 : StepRel A (reclaim (retransmitDue ((checkNotify st).1.sendq.length + 1) (checkNotify st).1).1) (checkNotify st).1
      (retransmitDue ((checkNotify st).1.sendq.length + 1) (checkNotify st).1).2 :=
    StepRel.of_le (by simp only [reclaim_res]; exact retransmitDue_leF _ _) (retransmitDue_outs _ _)
  exact h1.trans h2

/-! ### every primitive as a resource-wise map; lifting to `step` -/

theorem map_id_of {l : List Res} {f : Res → Res} (h : ∀ y ∈ l, f y = y) : l.map f = l := by
  induction l with
  | nil => rfl
  | cons x xs ih =>
    rw [List.map_cons, h x (List.mem_cons_self ..), ih (fun y hy => h y (List.mem_cons_of_mem _ hy))]

theorem findRes_none_iff {st : State} {r : Nat} (h : findRes st r = none) : ∀ y ∈ st.res, ¬(y.id = r ∧ y.alive = true) := by
  unfold findRes at h
  intro y hy
  have := List.find?_eq_none.mp h y hy
  simpa using this

theorem unique_alive {st : State} (hid : IdsNodup st) {r : Nat} {x : Res} (hx : findRes st r = some x) :
    ∀ y ∈ st.res, y.id = r → y = x := by
  intro y hy hyr
  have := findRes_mem hx
  exact eq_of_id_eq hid hy this.1 (hyr.trans this.2.1.symm)

def addR (r c tok key m : Nat) (y : Res) : Res := if y.id = r ∧ y.alive = true then addToRes y c tok key m else y
def touchR (c tok : Nat) (y : Res) : Res :=
  if y.alive = true then { y with subs := modFirst (matchST c tok) (fun s => { s with failCnt := 0 }) y.subs } else y
def delR (r c tok : Nat) (y : Res) : Res := if y.id = r ∧ y.alive = true then { y with subs := y.subs.eraseP (matchST c tok) } else y

theorem addToRes_found {y : Res} {c tok key m : Nat} (h : y.subs.any (matchST c tok) = true) : addToRes y c tok key m = y := by
  unfold addToRes; rw [if_pos h]

theorem addObserver_res (st : State) (r c tok key : Nat) (hid : IdsNodup st) :
    ∃ m, (addObserver st r c tok key).res = st.res.map (addR r c tok key m) := by
  unfold addObserver
  cases hx : findRes st r with
  | none =>
    refine ⟨0, ?_⟩
    dsimp only
    rw [map_id_of]
    intro y hy
    unfold addR
    rw [if_neg (findRes_none_iff hx y hy)]
  | some x =>
    dsimp only
    by_cases ha : x.subs.any (matchST c tok) = true
    · rw [if_pos ha]
      refine ⟨0, ?_⟩
      rw [map_id_of]
      intro y hy
      unfold addR
      split
      · rename_i h
        rw [unique_alive hid hx y hy h.1]
        exact addToRes_found ha
      · rfl
    · rw [if_neg ha]
      split
      · exact ⟨_, rfl⟩
      · exact ⟨_, rfl⟩

theorem touchObserver_res (st : State) (c tok : Nat) : (touchObserver st c tok).res = st.res.map (touchR c tok) := rfl

theorem deleteObserver_res (st : State) (r c tok : Nat) (hid : IdsNodup st) :
    (deleteObserver st r c tok).res = st.res.map (delR r c tok) := by
  unfold deleteObserver
  cases hx : findRes st r with
  | none =>
    dsimp only
    rw [map_id_of]
    intro y hy
    unfold delR
    rw [if_neg (findRes_none_iff hx y hy)]
  | some x =>
    dsimp only
    have hxm := findRes_mem hx
    by_cases ha : x.subs.any (matchST c tok) = true
    · rw [if_pos ha]
      simp only [refDec_res, modRes, mapRes]
      apply List.map_congr_left
      intro y hy
      unfold delR
      by_cases h : y.id = r
      · have := unique_alive hid hx y hy h
        rw [if_pos h, if_pos ⟨h, by rw [this]; exact hxm.2.2⟩]
      · rw [if_neg h, if_neg (fun hh => h hh.1)]
    · rw [if_neg ha]
      rw [map_id_of]
      intro y hy
      unfold delR
      split
      · rename_i h
        have := unique_alive hid hx y hy h.1
        subst this
        have : y.subs.eraseP (matchST c tok) = y.subs := by
          apply List.eraseP_of_forall_not
          intro s hs hm
          exact ha (List.any_eq_true.mpr ⟨s, hs, hm⟩)
        rw [this]
      · rfl
theorem touchR_le (c tok : Nat) (y : Res) : ResLeF (touchR c tok y) y := by
  unfold touchR
  split
  · apply resLe_subsF; unfold SubsLeF
    rw [modFirst_coreF (matchST c tok) (fun s => { s with failCnt := 0 }) (fun s => rfl) y.subs]; exact List.Sublist.refl _
  · exact ResLeF.refl y

theorem delR_le (r c tok : Nat) (y : Res) : ResLeF (delR r c tok y) y := by
  unfold delR
  split
  · exact resLe_subsF y (SubsLeF.of_sublist List.eraseP_sublist)
  · exact ResLeF.refl y

theorem touchR_fields (c tok : Nat) (y : Res) : (touchR c tok y).id = y.id ∧ (touchR c tok y).alive = y.alive := by
  unfold touchR; split <;> exact ⟨rfl, rfl⟩

theorem addR_fields (r c tok key m : Nat) (y : Res) : (addR r c tok key m y).id = y.id ∧ (addR r c tok key m y).alive = y.alive := by
  unfold addR; split
  · have := addToRes_fields y c tok key m; exact ⟨this.1, this.2.1⟩
  · exact ⟨rfl, rfl⟩

/-- registration answered with an error: the entry just added (or found) is deleted again — all that is left is a sub-list -/
theorem add_touch_del_le (r c tok key m : Nat) (y : Res) : ResLeF (delR r c tok (touchR c tok (addR r c tok key m y))) y := by
  by_cases h : y.id = r ∧ y.alive = true
  · by_cases ha : y.subs.any (matchST c tok) = true
    · have : addR r c tok key m y = y := by unfold addR; rw [if_pos h]; exact addToRes_found ha
      rw [this]
      exact (delR_le ..).trans (touchR_le ..)
    · -- new head entry, touched, erased
      have h1 : addR r c tok key m y = addToRes y c tok key m := by unfold addR; rw [if_pos h]
      rw [h1]
      have hf := addToRes_fields y c tok key m
      unfold touchR
      rw [if_pos (by rw [hf.2.1]; exact h.2)]
      unfold delR
      dsimp only
      rw [if_pos (by rw [hf.1, hf.2.1]; exact h)]
      unfold addToRes
      rw [if_neg ha]
      dsimp only
      have hm : matchST c tok { sess := c, token := tok, key := key, nonCnt := 0, failCnt := 0, dirty := false, mid := m, lastVer := none } = true := by
        simp [matchST]
      unfold modFirst
      rw [if_pos hm]
      rw [List.eraseP_cons_of_pos (by simp [matchST])]
      refine ⟨rfl, rfl, rfl, rfl, rfl, rfl, rfl, rfl, rfl, ?_⟩
      apply SubsLeF.of_sublist
      split
      · exact List.eraseP_sublist
      · exact List.Sublist.refl _
  · have h1 : addR r c tok key m y = y := by unfold addR; rw [if_neg h]
    rw [h1]
    exact (delR_le ..).trans (touchR_le ..)

theorem filter_single_fromRes (rid : Nat) (out : Out) (h1 : out.tag ≠ .rtx) :
    [out].filter (fromRes rid) = if out.res = rid then [out] else [] := by
  unfold fromRes
  by_cases h : out.res = rid <;> simp [h, h1]

/-- a response that is not a successful registration, while entries at most disappear -/
theorem StepRel.resp_le {A : Nat → Nat → Nat → Prop} {st' st : State} {out : Out} (h : AllLeF st'.res st.res)
    (ht : out.tag = .resp) (ho : out.obs = none ∨ out.code ≠ 69) : StepRel A st' st [out] := by
  unfold StepRel
  refine All2.mono ?_ h
  intro x y hxy
  rw [filter_single_fromRes _ _ (by rw [ht]; decide)]
  split
  · exact Trans.step (.resp out ht ho) (Trans.single (.le hxy))
  · exact Trans.single (.le hxy)

theorem change_rel (A : Nat → Nat → Nat → Prop) (st : State) (r : Nat) : StepRel A (change st r) st [] := by
  unfold change
  split
  · exact StepRel.of_eq rfl
  · split
    · exact StepRel.of_eq rfl
    · unfold StepRel
      show All2 _ (modRes st r _).res st.res
      unfold modRes mapRes
      apply All2.of_map
      intro y _
      rw [List.filter_nil]
      split
      · exact Trans.single .change
      · exact Trans.refl

theorem errFlag_rel (A : Nat → Nat → Nat → Prop) (st : State) (r : Nat) (b : Bool) :
    StepRel A (modRes st r fun y => { y with err := b }) st [] := by
  unfold StepRel modRes mapRes
  apply All2.of_map
  intro y _
  rw [List.filter_nil]
  split
  · exact Trans.single (.errFlag b)
  · exact Trans.refl

theorem del_eq (d : Bool) (x1 : Res) (st : State) (pd : Bool) :
    { (notifyRes d x1 st).1 with alive := false, subs := [], dirty := false, pdirty := pd } =
    { x1 with alive := false, subs := [], dirty := false, pdirty := pd } := by
  unfold notifyRes; split <;> rfl

theorem change_idsNodup (st : State) (r : Nat) (hid : IdsNodup st) : IdsNodup (change st r) := by
  unfold IdsNodup resIds; rw [(change_idLe st r).ids]; exact hid

theorem deleteResource_rel (A : Nat → Nat → Nat → Prop) (st : State) (r : Nat) (hid : IdsNodup st) :
    StepRel A (deleteResource st r).1 st (deleteResource st r).2 := by
  unfold deleteResource
  split
  · exact StepRel.of_eq rfl
  · dsimp only
    cases hx1 : findRes (change st r) r with
    | none => exact change_rel A st r
    | some x1 =>
      dsimp only
      have hc := change_rel A st r
      refine (hc.trans (st2 := _) (o2 := (notifyRes true x1 (change st r)).2.2) ?_)
      have hid1 := change_idsNodup st r hid
      have hxm := findRes_mem hx1
      unfold StepRel
      show All2 _ (modRes _ r _).res _
      unfold modRes mapRes
      dsimp only
      rw [releaseAll_res, notifyRes_res]
      apply All2.of_map
      intro y hy
      by_cases h : y.id = r
      · have hyx := unique_alive hid1 hx1 y hy h
        subst hyx
        rw [if_pos h, filter_fromRes_self (fun o ho => ⟨(notifyRes_outs true y _ o ho).1, (notifyRes_outs true y _ o ho).2.1⟩)]
        exact notifyRes_bye A y (change st r) _
      · rw [if_neg h, filter_fromRes_other (fun o ho heq => h (by rw [← heq, (notifyRes_outs true x1 _ o ho).2.1]; exact hxm.2.1))]
        exact Trans.refl
theorem Trans.mono {A B : Nat → Nat → Nat → Prop} (hAB : ∀ r c t, A r c t → B r c t) {y y' : Res} {o : List Out}
    (h : Trans A y o y') : Trans B y o y' := by
  induction h with
  | refl => exact Trans.refl
  | step hm _ ih => exact Trans.step (hm.mono hAB) ih

theorem StepRel.mono {A B : Nat → Nat → Nat → Prop} (hAB : ∀ r c t, A r c t → B r c t) {st' st : State} {outs : List Out}
    (h : StepRel A st' st outs) : StepRel B st' st outs :=
  All2.mono (fun h' => h'.mono hAB) h

theorem request_rel_other (A : Nat → Nat → Nat → Prop) (st : State) (o : Option Nat) (c r tok key : Nat) (con : Bool) (mid : Nat)
    (ho : o ≠ some 0) : StepRel A (request st o c r tok key con mid).1 st (request st o c r tok key con mid).2 := by
  unfold request
  dsimp only
  split
  · exact StepRel.resp_le (AllLeF.refl _) rfl (Or.inl rfl)
  · have h1 : AllLeF (match o with
               | some 0 => touchObserver (addObserver (rxSession st c) r c tok key) c tok
               | some 1 => deleteObserverRequest (rxSession st c) r c tok key
               | _ => rxSession st c).res st.res := by
      split
      · exact absurd rfl ho
      · exact deleteObserverRequest_leF ..
      · exact AllLeF.refl _
    split
    · refine StepRel.resp_le ?_ rfl (Or.inl rfl)
      split
      · exact (deleteObserver_leF ..).trans h1
      · exact h1
    · refine StepRel.resp_le h1 rfl (Or.inl ?_)
      simp

theorem touchObserver_ids (st : State) (c tok : Nat) : resIds (touchObserver st c tok) = resIds st :=
  (touchObserver_leF ..).le.idLe.ids

theorem request_rel_reg (st : State) (c r tok key : Nat) (con : Bool) (mid : Nat) (hid : IdsNodup st) :
    StepRel (fun rid c' tok' => rid = r ∧ c' = c ∧ tok' = tok) (request st (some 0) c r tok key con mid).1 st
      (request st (some 0) c r tok key con mid).2 := by
  unfold request
  dsimp only
  cases hx : findRes (rxSession st c) r with
  | none => exact StepRel.resp_le (AllLeF.refl _) rfl (Or.inl rfl)
  | some x =>
    dsimp only
    have hx' : findRes st r = some x := hx
    have hxm := findRes_mem hx'
    obtain ⟨m, hadd⟩ := addObserver_res (rxSession st c) r c tok key hid
    have hres1 : (touchObserver (addObserver (rxSession st c) r c tok key) c tok).res =
        st.res.map (fun y => touchR c tok (addR r c tok key m y)) := by
      rw [touchObserver_res, hadd, List.map_map]; rfl
    by_cases he : x.err = true
    · rw [if_pos he]
      refine StepRel.resp_le ?_ rfl (Or.inl rfl)
      simp only [Option.isSome_some, if_true, txStamp_res]
      have hid1 : IdsNodup (touchObserver (addObserver (rxSession st c) r c tok key) c tok) := by
        unfold IdsNodup; rw [touchObserver_ids, addObserver_ids]; exact hid
      rw [deleteObserver_res _ r c tok hid1, hres1, List.map_map]
      exact AllLeF.map (f := (delR r c tok) ∘ fun y => touchR c tok (addR r c tok key m y)) (fun y => add_touch_del_le r c tok key m y) st.res
    · rw [if_neg he]
      unfold StepRel
      simp only [txStamp_res, hres1]
      apply All2.of_map
      intro y hy
      rw [filter_single_fromRes _ _ (by simp)]
      dsimp only
      by_cases h : y.id = r
      · have hyx := unique_alive hid hx' y hy h
        subst hyx
        rw [if_pos h.symm]
        have h1 : addR r c tok key m y = addToRes y c tok key m := by unfold addR; rw [if_pos ⟨h, hxm.2.2⟩]
        rw [h1]
        refine Trans.step (.register c tok key m _ ⟨h, rfl, rfl⟩ hxm.2.2 (by simpa using he) rfl rfl rfl rfl ?_ rfl h.symm)
          (Trans.single (.le (touchR_le ..)))
        simp
      · rw [if_neg (fun hh => h hh.symm)]
        have h1 : addR r c tok key m y = y := by unfold addR; rw [if_neg (fun hh => h hh.1)]
        rw [h1]
        exact Trans.single (.le (touchR_le ..))

/-- `A` for one event: only `reg c r tok …` registers (c, tok) on r -/
def RegEv (e : Event) (rid c tok : Nat) : Prop := ∃ key con mid, e = .reg c rid tok key con mid

theorem request_idsNodup (st : State) (o : Option Nat) (c r tok key : Nat) (con : Bool) (mid : Nat) (hid : IdsNodup st) :
    IdsNodup (request st o c r tok key con mid).1 := by
  unfold IdsNodup; rw [request_ids]; exact hid

theorem rxThenIo_rel (A : Nat → Nat → Nat → Prop) (st : State) (p : State × List Out) (hid : IdsNodup p.1)
    (h : StepRel A p.1 st p.2) : StepRel A (rxThenIo p).1 st (rxThenIo p).2 := by
  unfold rxThenIo
  exact h.trans (io_rel A p.1 hid)

/-- every event: the resource table evolves resource by resource through the micro steps, writing exactly the step's output -/
theorem step_rel (st : State) (e : Event) (hid : IdsNodup st) : StepRel (RegEv e) (step st e).1 st (step st e).2 := by
  cases e with
  | reg c r tok key con mid =>
    refine rxThenIo_rel _ st _ (request_idsNodup st _ c r tok key con mid hid) ?_
    refine StepRel.mono ?_ (request_rel_reg st c r tok key con mid hid)
    rintro rid c' tok' ⟨rfl, rfl, rfl⟩
    exact ⟨key, con, mid, rfl⟩
  | can c r tok key con mid =>
    exact rxThenIo_rel _ st _ (request_idsNodup st _ c r tok key con mid hid) (request_rel_other _ st _ c r tok key con mid (by decide))
  | get c r tok key con mid =>
    exact rxThenIo_rel _ st _ (request_idsNodup st _ c r tok key con mid hid) (request_rel_other _ st _ c r tok key con mid (by decide))
  | chg r => exact change_rel _ st r
  | adv ms => exact io_rel _ _ hid
  | ack c n =>
    unfold step; dsimp only
    split
    · split
      · refine rxThenIo_rel _ st _ ?_ (StepRel.of_le_nil (handleAck_leF ..))
        unfold IdsNodup resIds; dsimp only; rw [(handleAck_leF ..).le.idLe.ids]; exact hid
      · exact StepRel.of_eq rfl
    · exact StepRel.of_eq rfl
  | rst c n =>
    unfold step; dsimp only
    split
    · refine rxThenIo_rel _ st _ ?_ (StepRel.of_le_nil (handleRst_leF ..))
      unfold IdsNodup resIds; dsimp only; rw [(handleRst_leF ..).le.idLe.ids]; exact hid
    · exact StepRel.of_eq rfl
  | err r b => exact errFlag_rel _ st r b
  | lost c => exact StepRel.of_le_nil (sessionLost_leF ..)
  | del r => exact deleteResource_rel _ st r hid

end Coap.Observe
