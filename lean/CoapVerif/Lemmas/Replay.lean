/- Helper lemmas for C15: bit lemmas, closed form of validate, and the view-level transition system vrecv with
   recv_view: the verdict and the new (initial_state, last_seq, sliding_window) computed by M depend on the view only. -/
import CoapVerif.Model.ReplayAbs
namespace Coap.Replay

theorem testBit_one (j : Nat) : Nat.testBit 1 j = decide (j = 0) := by
  have h := @Nat.testBit_two_pow 0 j
  simp only [Nat.pow_zero] at h
  rw [h]
  by_cases hj : j = 0
  · simp [hj]
  · have : ¬ (0 = j) := fun h => hj h.symm
    simp [hj, this]

theorem and_two_pow_eq_zero (w s : Nat) (h : w.testBit s = false) : w &&& 2 ^ s = 0 := by
  apply Nat.eq_of_testBit_eq
  intro i
  rw [Nat.testBit_and, Nat.testBit_two_pow, Nat.zero_testBit]
  by_cases hi : s = i
  · subst hi; simp [h]
  · simp [hi]

theorem and_two_pow_ne_zero (w s : Nat) (h : w.testBit s = true) : w &&& 2 ^ s ≠ 0 := by
  intro hz
  have : (w &&& 2 ^ s).testBit s = true := by
    rw [Nat.testBit_and, Nat.testBit_two_pow_self, h]; rfl
  rw [hz, Nat.zero_testBit] at this
  exact Bool.noConfusion this

theorem shl64_lt {x s : Nat} (h : s ≤ 63) : shl64 x s = some ((x <<< s) % 2 ^ 64) := by
  unfold shl64
  have : ¬ s ≥ 64 := by omega
  simp [this]

theorem two_pow_lt64 {s : Nat} (h : s ≤ 63) : 2 ^ s < 2 ^ 64 :=
  Nat.pow_lt_pow_right (by omega) (by omega)

theorem shl64_one {s : Nat} (h : s ≤ 63) : shl64 1 s = some (2 ^ s) := by
  rw [shl64_lt h, Nat.one_shiftLeft, Nat.mod_eq_of_lt (two_pow_lt64 h)]

/-- `validate` with the scratch fields already saved. -/
def saved (r : Recip) : Recip := { r with rbLast := r.last, rbWin := r.win, rbInit := r.init }

/-- closed form of `validate` -/
def validateC (cfg : Cfg) (r : Recip) (piv : Nat) : VRes :=
  if piv ≥ SEQ_MAX then .rej r
  else if r.init then .ok { saved r with init := false, win := 1, last := piv }
  else if piv > r.last then
    .ok { saved r with win := (if piv - r.last > 63 then 1 else ((r.win <<< (piv - r.last)) % 2 ^ 64) ||| 1), last := piv }
  else if piv = r.last then .rej (saved r)
  else if r.last - piv > cfg.window ∨ r.last - piv > 63 then .rej (saved r)
  else if r.win.testBit (r.last - piv) then .rej (saved r)
  else .ok { saved r with win := r.win ||| 2 ^ (r.last - piv) }

theorem validate_eq (cfg : Cfg) (r : Recip) (piv : Nat) : validate cfg r piv = validateC cfg r piv := by
  unfold validate validateC saved
  by_cases h1 : piv ≥ SEQ_MAX
  · simp [h1]
  · simp only [h1, if_false]
    by_cases h2 : r.init = true
    · simp [h2]
    · simp only [h2, if_false]
      by_cases h3 : piv > r.last
      · simp only [h3, if_true]
        by_cases h4 : piv - r.last > 63
        · simp [h4]
        · have h5 : piv - r.last ≤ 63 := by omega
          simp only [h4, if_false, shl64_lt h5]
      · simp only [h3, if_false]
        by_cases h4 : piv = r.last
        · simp [h4]
        · simp only [h4, if_false]
          by_cases h5 : r.last - piv > cfg.window ∨ r.last - piv > 63
          · simp [h5]
          · simp only [h5, if_false]
            have h6 : r.last - piv ≤ 63 := by omega
            simp only [shl64_one h6]
            by_cases hb : r.win.testBit (r.last - piv) = true
            · simp [hb, and_two_pow_ne_zero _ _ hb]
            · have hb' : r.win.testBit (r.last - piv) = false := by simpa using hb
              simp [hb', and_two_pow_eq_zero _ _ hb']

/-- `oscore_validate_sender_seq` on the view: `some v'` = returned 1 with the new view, `none` = returned 0. -/
def vvalidate (cfg : Cfg) (v : View) (piv : Nat) : Option View :=
  if piv ≥ SEQ_MAX then none
  else if v.init then some ⟨false, piv, 1⟩
  else if piv > v.last then
    some ⟨false, piv, if piv - v.last > 63 then 1 else ((v.win <<< (piv - v.last)) % 2 ^ 64) ||| 1⟩
  else if piv = v.last then none
  else if v.last - piv > cfg.window ∨ v.last - piv > 63 then none
  else if v.win.testBit (v.last - piv) then none
  else some ⟨false, v.last, v.win ||| 2 ^ (v.last - piv)⟩

/-- the request path on the view -/
def vrecv (cfg : Cfg) (v : View) (ev : Ev) : View × Verdict :=
  if !v.init || !cfg.b12 then
    match vvalidate cfg v ev.piv with
    | none => (v, .rej401)
    | some v1 => if !ev.authentic then (v, .rej400) else (v1, .acc)
  else if !ev.authentic then (v, .rej400)
  else
    match ev.echo with
    | .good =>
      match vvalidate cfg v ev.piv with
      | some v2 => (v2, .acc)
      | none => (v, .rej401)
    | .bad => (v, .drop)
    | .none => (v, .chal)

theorem vvalidate_init_false {cfg : Cfg} {v v' : View} {p : Nat} (h : vvalidate cfg v p = some v') : v'.init = false := by
  unfold vvalidate at h
  split at h
  · cases h
  · split at h
    · cases h; rfl
    · split at h
      · cases h; rfl
      · split at h
        · cases h
        · split at h
          · cases h
          · split at h
            · cases h
            · cases h; rfl

theorem validate_none {cfg : Cfg} {r : Recip} {p : Nat} (h : vvalidate cfg r.view p = none) :
    validate cfg r p = .rej r ∨ validate cfg r p = .rej (saved r) := by
  rw [validate_eq]
  unfold validateC
  by_cases h1 : p ≥ SEQ_MAX
  · left; rw [if_pos h1]
  · rw [if_neg h1]
    by_cases h2 : r.init = true
    · simp [vvalidate, Recip.view, h1, h2] at h
    · rw [if_neg h2]
      by_cases h3 : p > r.last
      · simp [vvalidate, Recip.view, h1, h2, h3] at h
      · rw [if_neg h3]
        by_cases h4 : p = r.last
        · right; rw [if_pos h4]
        · rw [if_neg h4]
          by_cases h5 : r.last - p > cfg.window ∨ r.last - p > 63
          · right; rw [if_pos h5]
          · rw [if_neg h5]
            by_cases h6 : r.win.testBit (r.last - p) = true
            · right; rw [if_pos h6]
            · simp [vvalidate, Recip.view, h1, h2, h3, h4, h5, h6] at h

theorem validate_some {cfg : Cfg} {r : Recip} {p : Nat} {v : View} (h : vvalidate cfg r.view p = some v) :
    validate cfg r p = .ok { saved r with init := false, last := v.last, win := v.win } := by
  rw [validate_eq]
  unfold validateC
  by_cases h1 : p ≥ SEQ_MAX
  · simp [vvalidate, h1] at h
  · rw [if_neg h1]
    by_cases h2 : r.init = true
    · rw [if_pos h2]
      simp [vvalidate, Recip.view, h1, h2] at h
      subst h; rfl
    · rw [if_neg h2]
      have hi : r.init = false := by simpa using h2
      by_cases h3 : p > r.last
      · rw [if_pos h3]
        simp [vvalidate, Recip.view, h1, hi, h3] at h
        subst h
        simp [saved, hi]
      · rw [if_neg h3]
        by_cases h4 : p = r.last
        · simp [vvalidate, Recip.view, h1, hi, h3, h4] at h
        · rw [if_neg h4]
          by_cases h5 : r.last - p > cfg.window ∨ r.last - p > 63
          · simp [vvalidate, Recip.view, h1, hi, h3, h4, h5] at h
          · rw [if_neg h5]
            by_cases h6 : r.win.testBit (r.last - p) = true
            · simp [vvalidate, Recip.view, h1, hi, h3, h4, h5, h6] at h
            · rw [if_neg h6]
              simp [vvalidate, Recip.view, h1, hi, h3, h4, h5, h6] at h
              subst h
              simp [saved, hi]


theorem saved_view (r : Recip) : (saved r).view = r.view := rfl

/-- The verdict and the new view computed by `recv` depend on the view only, and are given by `vrecv`. -/
theorem recv_view (cfg : Cfg) (r : Recip) (ev : Ev) :
    ((recv cfg r ev).1.view, (recv cfg r ev).2) = vrecv cfg r.view ev := by
  unfold recv vrecv
  have hvi : r.view.init = r.init := rfl
  rw [hvi]
  by_cases hval : (!r.init || !cfg.b12) = true
  · simp only [hval, if_true]
    cases hv : vvalidate cfg r.view ev.piv with
    | none =>
      rcases validate_none hv with h | h <;> rw [h] <;> rfl
    | some v =>
      rw [validate_some hv]
      by_cases ha : ev.authentic = true
      · have hi := vvalidate_init_false hv
        simp [ha, Recip.view]
        cases v; simp_all
      · have ha' : ev.authentic = false := by simpa using ha
        simp [ha', rollback, saved, Recip.view]
  · have hval' : (!r.init || !cfg.b12) = false := by simpa using hval
    have hinit : r.init = true := by
      cases hi : r.init <;> simp [hi] at hval' ⊢
    have hb : cfg.b12 = true := by
      cases hb : cfg.b12 <;> simp [hb] at hval' ⊢
    simp only [hval', Bool.false_eq_true, if_false]
    by_cases ha : ev.authentic = true
    · simp only [ha, Bool.not_true, Bool.false_eq_true, if_false, hb, hinit, Bool.and_self, if_true]
      cases he : ev.echo with
      | none => rfl
      | bad => rfl
      | good =>
        simp only []
        cases hv : vvalidate cfg r.view ev.piv with
        | none =>
          rcases validate_none hv with h | h <;> rw [h] <;> rfl
        | some v =>
          rw [validate_some hv]
          have hi := vvalidate_init_false hv
          simp [Recip.view]
          cases v; simp_all
    · have ha' : ev.authentic = false := by simpa using ha
      simp [ha']

theorem testBit_shl_or_one (w s j : Nat) (hj : j < 64) :
    (((w <<< s) % 2 ^ 64) ||| 1).testBit j = (decide (j = 0) || (decide (j ≥ s) && w.testBit (j - s))) := by
  rw [Nat.testBit_or, Nat.testBit_mod_two_pow, Nat.testBit_shiftLeft, testBit_one]
  simp [hj, Bool.or_comm]

/-- What the replay state knows about the set `A` of Partial IVs accepted so far: before the first acceptance
nothing was accepted; afterwards `last` is the highest accepted PIV and bit `k` (k < 64) of the window is set exactly
when `last - k` was accepted. -/
structure Good (v : View) (A : List Nat) : Prop where
  fresh : v.init = true → A = []
  le : v.init = false → ∀ p ∈ A, p ≤ v.last
  bit : v.init = false → ∀ p ∈ A, v.last - p < 64 → v.win.testBit (v.last - p) = true
  top : v.init = false → v.last ∈ A
  conv : v.init = false → ∀ k, k < 64 → v.win.testBit k = true → k ≤ v.last ∧ v.last - k ∈ A

theorem good_fresh : Good Recip.fresh.view [] :=
  ⟨fun _ => rfl, fun h => (by cases h), fun h => (by cases h), fun h => (by cases h), fun h => (by cases h)⟩

theorem vvalidate_good {cfg : Cfg} {v v' : View} {A : List Nat} {p : Nat} (g : Good v A)
    (h : vvalidate cfg v p = some v') : p ∉ A ∧ Good v' (p :: A) := by
  unfold vvalidate at h
  by_cases h1 : p ≥ SEQ_MAX
  · rw [if_pos h1] at h; cases h
  rw [if_neg h1] at h
  by_cases h2 : v.init = true
  · rw [if_pos h2] at h
    cases h
    have hA := g.fresh h2
    subst hA
    refine ⟨by simp, ⟨fun h => (by cases h), ?_, ?_, ?_, ?_⟩⟩
    · intro _ q hq; simp at hq; simp [hq]
    · intro _ q hq _; simp at hq; subst hq; simp [Nat.testBit_one_zero]
    · intro _; simp
    · intro _ k _ hk
      dsimp only at hk ⊢
      rw [testBit_one] at hk
      have : k = 0 := by simpa using hk
      subst this; simp
  rw [if_neg h2] at h
  have hi : v.init = false := by simpa using h2
  by_cases h3 : p > v.last
  · rw [if_pos h3] at h
    cases h
    have hnot : p ∉ A := fun hp => by have := g.le hi p hp; omega
    refine ⟨hnot, ⟨fun h => (by cases h), ?_, ?_, ?_, ?_⟩⟩
    · intro _ q hq
      dsimp only
      rcases List.mem_cons.mp hq with rfl | hq
      · exact Nat.le_refl _
      · have := g.le hi q hq; omega
    · intro _ q hq hlt
      dsimp only at hlt ⊢
      rcases List.mem_cons.mp hq with rfl | hq
      · rw [Nat.sub_self]
        by_cases h4 : q - v.last > 63
        · rw [if_pos h4]; exact Nat.testBit_one_zero
        · rw [if_neg h4, testBit_shl_or_one _ _ _ (by omega)]; simp
      · have hle := g.le hi q hq
        have h4 : ¬ p - v.last > 63 := by omega
        rw [if_neg h4, testBit_shl_or_one _ _ _ hlt]
        have hb := g.bit hi q hq (by omega)
        have e : p - q - (p - v.last) = v.last - q := by omega
        have hge : p - q ≥ p - v.last := by omega
        simp [e, hb, hge]
    · intro _; simp
    · intro _ k hk hb
      dsimp only at hb ⊢
      by_cases h4 : p - v.last > 63
      · rw [if_pos h4, testBit_one] at hb
        have : k = 0 := by simpa using hb
        subst this; simp
      · rw [if_neg h4, testBit_shl_or_one _ _ _ hk] at hb
        by_cases hk0 : k = 0
        · subst hk0; simp
        · simp only [hk0, decide_false, Bool.false_or, Bool.and_eq_true, decide_eq_true_eq] at hb
          have := g.conv hi (k - (p - v.last)) (by omega) hb.2
          refine ⟨by omega, ?_⟩
          have e : p - k = v.last - (k - (p - v.last)) := by omega
          rw [e]
          exact List.mem_cons_of_mem _ this.2
  rw [if_neg h3] at h
  by_cases h4 : p = v.last
  · rw [if_pos h4] at h; cases h
  rw [if_neg h4] at h
  by_cases h5 : v.last - p > cfg.window ∨ v.last - p > 63
  · rw [if_pos h5] at h; cases h
  rw [if_neg h5] at h
  by_cases h6 : v.win.testBit (v.last - p) = true
  · rw [if_pos h6] at h; cases h
  rw [if_neg h6] at h
  cases h
  have hnot : p ∉ A := fun hp => h6 (g.bit hi p hp (by omega))
  refine ⟨hnot, ⟨fun h => (by cases h), ?_, ?_, ?_, ?_⟩⟩
  · intro _ q hq
    dsimp only
    rcases List.mem_cons.mp hq with rfl | hq
    · omega
    · exact g.le hi q hq
  · intro _ q hq hlt
    dsimp only at hlt ⊢
    rw [Nat.testBit_or]
    rcases List.mem_cons.mp hq with rfl | hq
    · simp [Nat.testBit_two_pow_self]
    · simp [g.bit hi q hq hlt]
  · intro _; exact List.mem_cons_of_mem _ (g.top hi)
  · intro _ k hk hb
    dsimp only at hb ⊢
    rw [Nat.testBit_or, Nat.testBit_two_pow] at hb
    by_cases hw : v.win.testBit k = true
    · have := g.conv hi k hk hw
      exact ⟨this.1, List.mem_cons_of_mem _ this.2⟩
    · have hw' : v.win.testBit k = false := by simpa using hw
      simp [hw'] at hb
      subst hb
      refine ⟨by omega, ?_⟩
      have e : v.last - (v.last - p) = p := by omega
      rw [e]; simp


theorem recv_fst_view (cfg : Cfg) (r : Recip) (ev : Ev) : (recv cfg r ev).1.view = (vrecv cfg r.view ev).1 :=
  congrArg Prod.fst (recv_view cfg r ev)

theorem recv_snd (cfg : Cfg) (r : Recip) (ev : Ev) : (recv cfg r ev).2 = (vrecv cfg r.view ev).2 :=
  congrArg Prod.snd (recv_view cfg r ev)

/-- one step on the view: either the request is accepted, its PIV was not accepted before and the invariant holds
for the enlarged set, or the view is unchanged -/
theorem vrecv_cases (cfg : Cfg) (v : View) (ev : Ev) :
    (∃ v', vvalidate cfg v ev.piv = some v' ∧ ev.authentic = true ∧ vrecv cfg v ev = (v', .acc)) ∨
    ((vrecv cfg v ev).1 = v ∧ (vrecv cfg v ev).2 ≠ .acc ∧ (vrecv cfg v ev).2 ≠ .ub) := by
  unfold vrecv
  by_cases hval : (!v.init || !cfg.b12) = true
  · rw [if_pos hval]
    cases hv : vvalidate cfg v ev.piv with
    | none => right; simp
    | some v' =>
      by_cases ha : ev.authentic = true
      · left; exact ⟨v', rfl, ha, by simp [ha]⟩
      · right; simp [ha]
  · rw [if_neg hval]
    by_cases ha : ev.authentic = true
    · have : (!ev.authentic) = false := by simp [ha]
      rw [this]
      simp only [Bool.false_eq_true, if_false]
      cases he : ev.echo with
      | none => right; simp
      | bad => right; simp
      | good =>
        cases hv : vvalidate cfg v ev.piv with
        | none => right; simp
        | some v' => left; exact ⟨v', rfl, ha, rfl⟩
    · right; simp [ha]

theorem recv_good {cfg : Cfg} {r : Recip} {A : List Nat} (ev : Ev) (g : Good r.view A) :
    ((recv cfg r ev).2 = .acc ∧ ev.authentic = true ∧ ev.piv ∉ A ∧ Good (recv cfg r ev).1.view (ev.piv :: A)) ∨
    ((recv cfg r ev).2 ≠ .acc ∧ (recv cfg r ev).2 ≠ .ub ∧ (recv cfg r ev).1.view = r.view) := by
  rw [recv_fst_view, recv_snd]
  rcases vrecv_cases cfg r.view ev with ⟨v', hv, ha, he⟩ | ⟨h1, h2, h3⟩
  · left
    rw [he]
    have := vvalidate_good g hv
    exact ⟨rfl, ha, this.1, this.2⟩
  · right; exact ⟨h2, h3, h1⟩

/-- Partial IVs of the requests accepted in a history, in order. -/
def accepted (cfg : Cfg) : Recip → List Ev → List Nat
  | _, [] => []
  | r, ev :: evs => (if (recv cfg r ev).2 = .acc then [ev.piv] else []) ++ accepted cfg (recv cfg r ev).1 evs

/-- The recipient context after a history. -/
def final (cfg : Cfg) : Recip → List Ev → Recip
  | r, [] => r
  | r, ev :: evs => final cfg (recv cfg r ev).1 evs

/-- The verdicts of a history. -/
def verdicts (cfg : Cfg) : Recip → List Ev → List Verdict
  | _, [] => []
  | r, ev :: evs => (recv cfg r ev).2 :: verdicts cfg (recv cfg r ev).1 evs

theorem accepted_nodup_aux (cfg : Cfg) (evs : List Ev) : ∀ (r : Recip) (A : List Nat), Good r.view A →
    (accepted cfg r evs).Nodup ∧ (∀ p ∈ accepted cfg r evs, p ∉ A) ∧
      Good (final cfg r evs).view ((accepted cfg r evs).reverse ++ A) := by
  induction evs with
  | nil => intro r A g; simp [accepted, final, g]
  | cons ev evs ih =>
    intro r A g
    rcases recv_good (cfg := cfg) ev g with ⟨hacc, _, hnot, g'⟩ | ⟨hacc, _, hview⟩
    · have := ih (recv cfg r ev).1 (ev.piv :: A) g'
      obtain ⟨nd, dis, gf⟩ := this
      simp only [accepted, final, hacc, if_true]
      refine ⟨?_, ?_, ?_⟩
      · simp only [List.singleton_append, List.nodup_cons]
        exact ⟨fun hm => (dis _ hm) (List.mem_cons_self), nd⟩
      · intro p hp
        simp only [List.singleton_append, List.mem_cons] at hp
        rcases hp with rfl | hp
        · exact hnot
        · exact fun hA => dis p hp (List.mem_cons_of_mem _ hA)
      · simpa using gf
    · have g' : Good (recv cfg r ev).1.view A := by rw [hview]; exact g
      obtain ⟨nd, dis, gf⟩ := ih (recv cfg r ev).1 A g'
      simp only [accepted, final, hacc, if_false, List.nil_append]
      exact ⟨nd, dis, gf⟩

theorem vvalidate_live {cfg : Cfg} {v : View} {A : List Nat} {p : Nat} (g : Good v A) (hp : p < SEQ_MAX)
    (hn : p ∉ A) (hw : ∀ q ∈ A, q < p + min cfg.window 64) : ∃ v', vvalidate cfg v p = some v' := by
  unfold vvalidate
  have h1 : ¬ p ≥ SEQ_MAX := by omega
  rw [if_neg h1]
  by_cases h2 : v.init = true
  · rw [if_pos h2]; exact ⟨_, rfl⟩
  rw [if_neg h2]
  have hi : v.init = false := by simpa using h2
  by_cases h3 : p > v.last
  · rw [if_pos h3]; exact ⟨_, rfl⟩
  rw [if_neg h3]
  have htop := g.top hi
  have hlt := hw _ htop
  have h4 : ¬ p = v.last := fun h => hn (h ▸ htop)
  rw [if_neg h4]
  have h5 : ¬ (v.last - p > cfg.window ∨ v.last - p > 63) := by omega
  rw [if_neg h5]
  have h6 : ¬ v.win.testBit (v.last - p) = true := by
    intro hb
    have := (g.conv hi (v.last - p) (by omega) hb).2
    have e : v.last - (v.last - p) = p := by omega
    rw [e] at this
    exact hn this
  rw [if_neg h6]; exact ⟨_, rfl⟩

theorem vrecv_acc {cfg : Cfg} {v v' : View} {ev : Ev} (ha : ev.authentic = true)
    (hv : vvalidate cfg v ev.piv = some v') (hs : (!v.init || !cfg.b12) = true ∨ ev.echo = .good) :
    (vrecv cfg v ev).2 = .acc := by
  unfold vrecv
  by_cases hval : (!v.init || !cfg.b12) = true
  · rw [if_pos hval, hv]; simp [ha]
  · rw [if_neg hval]
    rcases hs with hs | hs
    · exact absurd hs hval
    · simp [ha, hs, hv]


/-! ### Sender side -/

theorem effFreq_pos (f : Nat) : 0 < effFreq f := by
  unfold effFreq; split <;> omega

theorem effFreq_lt (f : Nat) : effFreq f < 2 ^ 32 := by
  unfold effFreq; split <;> omega

theorem restart_eff (f start : Nat) : restart f start = { seq := start, next := start - start % effFreq f } := by
  unfold restart effFreq
  by_cases h : f % 2 ^ 32 = 0
  · simp [h]
  · have : f % 2 ^ 32 > 0 := by omega
    simp [h, this]

/-- Invariant of the sending process and its persistent store after `n` operations: every PIV used so far (`U`) is
below both the current sequence number and the stored value; while sequence numbers are not exhausted the sequence
number has not passed the stored value and the watermark is within one period of it. -/
structure SGood (y : SSys) (U : List Nat) (n : Nat) : Prop where
  used_seq : ∀ p ∈ U, p < y.s.seq
  used_st : ∀ p ∈ U, p < y.stored
  alive : y.s.seq + 1 ≤ SEQ_MAX → y.s.seq ≤ y.stored ∧ y.s.next ≤ y.stored ∧ y.s.seq < y.s.next + effFreq y.f
  st_le : y.stored ≤ SEQ_MAX + 2 ^ 32
  seq_le : y.s.seq ≤ SEQ_MAX + 2 ^ 32 + n

def emitted : SObs → List Nat
  | .sent o => (match o.piv with | some p => [p] | none => [])
  | .resumed _ => []

theorem pivs_cons (o : SObs) (r : List SObs) : pivs (o :: r) = emitted o ++ pivs r := by
  cases o <;> rfl

theorem sgood_start (f start : Nat) (h : start ≤ SEQ_MAX + 2 ^ 32) : SGood (SSys.start f start) [] 0 := by
  unfold SSys.start
  rw [restart_eff]
  refine ⟨by simp, by simp, ?_, h, by simpa using h⟩
  intro _
  dsimp only
  have := Nat.mod_lt start (effFreq_pos f)
  omega

theorem sstep_good {y : SSys} {U : List Nat} {n : Nat} (g : SGood y U n) (hn : n < 2 ^ 63) (op : SOp) :
    SGood (sstep y op).1 (emitted (sstep y op).2 ++ U) (n + 1) ∧
      ∀ p ∈ emitted (sstep y op).2, ∀ u ∈ U, u < p := by
  have hsm : SEQ_MAX = 1099511627775 := rfl
  cases op with
  | crash f' =>
    simp only [sstep, emitted, List.nil_append]
    rw [restart_eff]
    refine ⟨⟨?_, g.used_st, ?_, g.st_le, ?_⟩, by simp⟩
    · exact g.used_st
    · intro _
      dsimp only
      have := Nat.mod_lt y.stored (effFreq_pos f')
      omega
    · dsimp only; have := g.st_le; omega
  | protect =>
    have hseq := g.seq_le
    have hwrap : (y.s.seq + 1) % 2 ^ 64 = y.s.seq + 1 := Nat.mod_eq_of_lt (by omega)
    simp only [sstep, protect, hwrap]
    by_cases h1 : y.s.seq + 1 > SEQ_MAX
    · simp only [h1, if_true, emitted, List.nil_append]
      refine ⟨⟨?_, g.used_st, ?_, g.st_le, ?_⟩, by simp⟩
      · intro p hp; have := g.used_seq p hp; dsimp only; omega
      · intro h; dsimp only at h; omega
      · dsimp only; omega
    · simp only [h1, if_false]
      have hal := g.alive (by omega)
      have hf := effFreq_lt y.f
      have hfp := effFreq_pos y.f
      have hst := g.st_le
      by_cases h2 : y.s.seq + 1 > y.s.next
      · have hnw : (y.s.next + effFreq y.f) % 2 ^ 64 = y.s.next + effFreq y.f := Nat.mod_eq_of_lt (by omega)
        simp only [h2, if_true, emitted, hnw, List.singleton_append]
        refine ⟨⟨?_, ?_, ?_, ?_, ?_⟩, ?_⟩
        · intro p hp
          dsimp only
          rcases List.mem_cons.mp hp with rfl | hp
          · omega
          · have := g.used_seq p hp; omega
        · intro p hp
          dsimp only
          rcases List.mem_cons.mp hp with rfl | hp
          · omega
          · have := g.used_seq p hp; omega
        · intro _; dsimp only; omega
        · dsimp only; omega
        · dsimp only; omega
        · intro p hp u hu
          have : p = y.s.seq := by simpa using hp
          subst this
          exact g.used_seq u hu
      · simp only [h2, if_false, emitted, List.singleton_append]
        refine ⟨⟨?_, ?_, ?_, ?_, ?_⟩, ?_⟩
        · intro p hp
          dsimp only
          rcases List.mem_cons.mp hp with rfl | hp
          · omega
          · have := g.used_seq p hp; omega
        · intro p hp
          dsimp only
          rcases List.mem_cons.mp hp with rfl | hp
          · omega
          · exact g.used_st p hp
        · intro _; dsimp only; omega
        · exact hst
        · dsimp only; omega
        · intro p hp u hu
          have : p = y.s.seq := by simpa using hp
          subst this
          exact g.used_seq u hu

theorem srun_increasing (ops : List SOp) : ∀ (y : SSys) (U : List Nat) (n : Nat), SGood y U n →
    n + ops.length < 2 ^ 63 →
    (∀ p ∈ pivs (srun y ops), ∀ u ∈ U, u < p) ∧ (pivs (srun y ops)).Pairwise (· < ·) := by
  induction ops with
  | nil => intro _ _ _ _ _; simp [srun, pivs]
  | cons op ops ih =>
    intro y U n g hn
    simp only [List.length_cons] at hn
    obtain ⟨g', hnew⟩ := sstep_good g (by omega) op
    obtain ⟨hfut, hpw⟩ := ih _ _ _ g' (by omega)
    simp only [srun, pivs_cons]
    refine ⟨?_, ?_⟩
    · intro p hp u hu
      rcases List.mem_append.mp hp with hp | hp
      · exact hnew p hp u hu
      · exact hfut p hp u (List.mem_append_right _ hu)
    · rw [List.pairwise_append]
      refine ⟨?_, hpw, ?_⟩
      · cases hso : (sstep y op).2 with
        | resumed _ => simp [emitted]
        | sent o => cases hp : o.piv <;> simp [emitted, hp]
      · intro a ha b hb
        exact hfut b hb a (List.mem_append_left _ ha)



/-! ### Conformance of M to the specification monitor S -/
section Conformance
open Coap.ReplaySpec (St Req Out allowed next conforms inWindow maxOf)

theorem le_maxOf {A : List Nat} {q : Nat} (h : q ∈ A) : q ≤ maxOf A := by
  induction A with
  | nil => cases h
  | cons a r ih =>
    simp only [maxOf]
    rcases List.mem_cons.mp h with rfl | h
    · exact Nat.le_max_left _ _
    · exact Nat.le_trans (ih h) (Nat.le_max_right _ _)

theorem inWindow_all {w : Nat} {A : List Nat} {p : Nat} (h : inWindow w A p = true) : ∀ q ∈ A, q < p + min w 64 := by
  intro q hq
  unfold inWindow at h
  cases A with
  | nil => cases hq
  | cons a r =>
    simp only [List.isEmpty_cons, Bool.false_or, decide_eq_true_eq] at h
    exact Nat.lt_of_le_of_lt (le_maxOf hq) h

theorem vvalidate_none_init {cfg : Cfg} {v : View} {p : Nat} (hi : v.init = true) (h : vvalidate cfg v p = none) :
    p ≥ SEQ_MAX := by
  unfold vvalidate at h
  by_cases h1 : p ≥ SEQ_MAX
  · exact h1
  · rw [if_neg h1, if_pos hi] at h; cases h

/-- One step of M is allowed by the specification monitor, and the monitor state stays related to M's state:
its accepted set is described by the window (`Good`), `synced` is "validation is armed". -/
theorem vrecv_conforms {cfg : Cfg} {v : View} {A : List Nat} (ev : Ev) (g : Good v A) :
    outOf (vrecv cfg v ev).2 ∈ allowed cfg.window ⟨A, !v.init || !cfg.b12⟩ (reqOf ev) ∧
    Good (vrecv cfg v ev).1 (next ⟨A, !v.init || !cfg.b12⟩ (reqOf ev) (outOf (vrecv cfg v ev).2)).accepted ∧
    (next ⟨A, !v.init || !cfg.b12⟩ (reqOf ev) (outOf (vrecv cfg v ev).2)).synced =
      (!(vrecv cfg v ev).1.init || !cfg.b12) := by
  have hlim : ReplaySpec.SEQ_LIMIT = SEQ_MAX := by decide
  unfold vrecv
  by_cases hval : (!v.init || !cfg.b12) = true
  · rw [if_pos hval, hval]
    cases hv : vvalidate cfg v ev.piv with
    | none =>
      refine ⟨?_, by simpa [outOf, next] using g, by simp [outOf, next, hval]⟩
      simp only [outOf, allowed, reqOf]
      by_cases ha : ev.authentic = true
      · simp only [ha, Bool.not_true, Bool.false_eq_true, if_false]
        by_cases hc : ev.piv ∈ A
        · simp [hc]
        · by_cases hl : ev.piv ≥ ReplaySpec.SEQ_LIMIT
          · simp [hc, hl]
          · by_cases hw : inWindow cfg.window A ev.piv = true
            · exfalso
              obtain ⟨v', hv'⟩ := vvalidate_live (cfg := cfg) g (by omega) hc (inWindow_all hw)
              rw [hv] at hv'; cases hv'
            · simp [hc, hl, hw]
      · simp [ha]
    | some v' =>
      by_cases ha : ev.authentic = true
      · have hg := vvalidate_good g hv
        have hi := vvalidate_init_false hv
        simp only [ha, Bool.not_true, Bool.false_eq_true, if_false, outOf, next, reqOf]
        refine ⟨?_, hg.2, by simp [hi]⟩
        simp only [allowed, ha, Bool.not_true, Bool.false_eq_true, if_false]
        have hc : A.contains ev.piv = false := by simpa using hg.1
        simp only [hc, Bool.false_eq_true, if_false]
        split
        · simp
        · split <;> simp
      · have ha' : ev.authentic = false := by simpa using ha
        simp only [ha', Bool.not_false, if_true, outOf, next]
        refine ⟨by simp [allowed, reqOf, ha'], g, by simp [hval]⟩
  · rw [if_neg hval]
    have hval' : (!v.init || !cfg.b12) = false := by simpa using hval
    have hinit : v.init = true := by
      cases hi : v.init <;> simp [hi] at hval' ⊢
    rw [hval']
    by_cases ha : ev.authentic = true
    · simp only [ha, Bool.not_true, Bool.false_eq_true, if_false]
      cases he : ev.echo with
      | none => exact ⟨by simp [outOf, allowed, reqOf, ha, he], by simpa [outOf, next] using g, by simp [outOf, next, hval']⟩
      | bad => exact ⟨by simp [outOf, allowed, reqOf, ha, he], by simpa [outOf, next] using g, by simp [outOf, next, hval']⟩
      | good =>
        simp only []
        cases hv : vvalidate cfg v ev.piv with
        | none =>
          have := vvalidate_none_init hinit hv
          refine ⟨?_, by simpa [outOf, next] using g, by simp [outOf, next, hval']⟩
          have hl : ev.piv ≥ ReplaySpec.SEQ_LIMIT := by omega
          simp [outOf, allowed, reqOf, ha, he, hl]
        | some v' =>
          have hg := vvalidate_good g hv
          have hi := vvalidate_init_false hv
          refine ⟨?_, by simpa [outOf, next, reqOf] using hg.2, by simp [outOf, next, hi]⟩
          simp only [outOf, allowed, reqOf, ha, he, Bool.not_true, Bool.false_eq_true, if_false, Bool.not_false, if_true]
          split <;> simp
    · have ha' : ev.authentic = false := by simpa using ha
      simp only [ha', Bool.not_false, if_true, outOf, next]
      exact ⟨by simp [allowed, reqOf, ha'], g, by simp [hval']⟩


theorem strace_conforms (cfg : Cfg) (evs : List Ev) : ∀ (r : Recip) (A : List Nat), Good r.view A →
    conforms cfg.window ⟨A, !r.init || !cfg.b12⟩ (strace cfg r evs) := by
  induction evs with
  | nil => intro _ _ _; trivial
  | cons ev evs ih =>
    intro r A g
    obtain ⟨h1, h2, h3⟩ := vrecv_conforms (cfg := cfg) ev g
    have hv : r.view.init = r.init := rfl
    rw [hv] at h1 h2 h3
    rw [← recv_snd] at h1 h2 h3
    rw [← recv_fst_view] at h2 h3
    simp only [strace, conforms]
    refine ⟨h1, ?_⟩
    have := ih (recv cfg r ev).1 _ h2
    have hv' : (recv cfg r ev).1.view.init = (recv cfg r ev).1.init := rfl
    rw [hv'] at h3
    rw [← h3] at this
    exact this

/-- PIVs of the requests a trace reports as accepted. -/
def tracc : List (Req × Out) → List Nat
  | [] => []
  | (q, o) :: t => (if o = .accept then [q.piv] else []) ++ tracc t

theorem tracc_strace (cfg : Cfg) (evs : List Ev) : ∀ r : Recip, tracc (strace cfg r evs) = accepted cfg r evs := by
  induction evs with
  | nil => intro _; rfl
  | cons ev evs ih =>
    intro r
    simp only [strace, tracc, accepted, ih]
    cases h : (recv cfg r ev).2 <;> simp [outOf, reqOf]

theorem spec_nodup_aux (w : Nat) (t : List (Req × Out)) : ∀ s : St, (s.synced = false → s.accepted = []) →
    conforms w s t → (tracc t).Nodup ∧ ∀ p ∈ tracc t, p ∉ s.accepted := by
  induction t with
  | nil => intro _ _ _; simp [tracc]
  | cons x t ih =>
    intro s hs hc
    obtain ⟨q, o⟩ := x
    simp only [conforms] at hc
    obtain ⟨hal, hc⟩ := hc
    by_cases ho : o = .accept
    · subst ho
      have hnot : q.piv ∉ s.accepted := by
        intro hm
        unfold allowed at hal
        by_cases ha : q.authentic = true
        · simp only [ha, Bool.not_true, Bool.false_eq_true, if_false] at hal
          cases hsy : s.synced with
          | false => rw [hs hsy] at hm; cases hm
          | true =>
            simp [hsy, hm] at hal
        · simp [ha] at hal
      obtain ⟨nd, dis⟩ := ih (next s q .accept) (by simp [next]) hc
      simp only [tracc, if_true, List.singleton_append, List.nodup_cons]
      refine ⟨⟨fun hm => dis _ hm (by simp [next]), nd⟩, ?_⟩
      intro p hp
      rcases List.mem_cons.mp hp with rfl | hp
      · exact hnot
      · exact fun hA => dis p hp (by simp [next, hA])
    · have hn : next s q o = s := by cases o <;> simp_all [next]
      rw [hn] at hc
      simp only [tracc, ho, if_false, List.nil_append]
      exact ih s hs hc


end Conformance

end Coap.Replay
