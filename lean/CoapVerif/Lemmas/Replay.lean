/- Helper lemmas for C15: bit lemmas, closed form of validate, and the view-level transition system vrecv with
   recv_view: the verdict and the new (initial_state, last_seq, sliding_window) computed by M depend on the view only. -/
import CoapVerif.Model.ReplayAbs
namespace Coap.Replay

theorem testBit_one (j : Nat) : Nat.testBit 1 j = decide (j = 0) := by
  have h := @Nat.testBit_two_pow 0 j
  simp only [Nat.pow_zero] at h
  rw [h]
  by_cases hj : j = 0
  · simp [hj]
  · have : ¬ (0 = j) := fun h => hj h.symm
    simp [hj, this]

theorem and_two_pow_eq_zero (w s : Nat) (h : w.testBit s = false) : w &&& 2 ^ s = 0 := by
  apply Nat.eq_of_testBit_eq
  intro i
  rw [Nat.testBit_and, Nat.testBit_two_pow, Nat.zero_testBit]
  by_cases hi : s = i
  · subst hi; simp [h]
  · simp [hi]

theorem and_two_pow_ne_zero (w s : Nat) (h : w.testBit s = true) : w &&& 2 ^ s ≠ 0 := by
  intro hz
  have : (w &&& 2 ^ s).testBit s = true := by
    rw [Nat.testBit_and, Nat.testBit_two_pow_self, h]; rfl
  rw [hz, Nat.zero_testBit] at this
  exact Bool.noConfusion this

theorem shl64_lt {x s : Nat} (h : s ≤ 63) : shl64 x s = some ((x <<< s) % 2 ^ 64) := by
  unfold shl64
  have : ¬ s ≥ 64 := by omega
  simp [this]

theorem two_pow_lt64 {s : Nat} (h : s ≤ 63) : 2 ^ s < 2 ^ 64 :=
  Nat.pow_lt_pow_right (by omega) (by omega)

theorem shl64_one {s : Nat} (h : s ≤ 63) : shl64 1 s = some (2 ^ s) := by
  rw [shl64_lt h, Nat.one_shiftLeft, Nat.mod_eq_of_lt (two_pow_lt64 h)]

/-- `validate` with the scratch fields already saved. -/
def saved (r : Recip) : Recip := { r with rbLast := r.last, rbWin := r.win, rbInit := r.init }

/-- closed form of `validate` -/
def validateC (cfg : Cfg) (r : Recip) (piv : Nat) : VRes :=
  if piv ≥ SEQ_MAX then .rej r
  else if r.init then .ok { saved r with init := false, win := 1, last := piv }
  else if piv > r.last then
    .ok { saved r with win := (if piv - r.last > 63 then 1 else ((r.win <<< (piv - r.last)) % 2 ^ 64) ||| 1), last := piv }
  else if piv = r.last then .rej (saved r)
  else if r.last - piv > cfg.window ∨ r.last - piv > 63 then .rej (saved r)
  else if r.win.testBit (r.last - piv) then .rej (saved r)
  else .ok { saved r with win := r.win ||| 2 ^ (r.last - piv) }

theorem validate_eq (cfg : Cfg) (r : Recip) (piv : Nat) : validate cfg r piv = validateC cfg r piv := by
  unfold validate validateC saved
  by_cases h1 : piv ≥ SEQ_MAX
  · simp [h1]
  · simp only [h1, if_false]
    by_cases h2 : r.init = true
    · simp [h2]
    · simp only [h2, if_false]
      by_cases h3 : piv > r.last
      · simp only [h3, if_true]
        by_cases h4 : piv - r.last > 63
        · simp [h4]
        · have h5 : piv - r.last ≤ 63 := by omega
          simp only [h4, if_false, shl64_lt h5]
      · simp only [h3, if_false]
        by_cases h4 : piv = r.last
        · simp [h4]
        · simp only [h4, if_false]
          by_cases h5 : r.last - piv > cfg.window ∨ r.last - piv > 63
          · simp [h5]
          · simp only [h5, if_false]
            have h6 : r.last - piv ≤ 63 := by omega
            simp only [shl64_one h6]
            by_cases hb : r.win.testBit (r.last - piv) = true
            · simp [hb, and_two_pow_ne_zero _ _ hb]
            · have hb' : r.win.testBit (r.last - piv) = false := by simpa using hb
              simp [hb', and_two_pow_eq_zero _ _ hb']

/-- `oscore_validate_sender_seq` on the view: `some v'` = returned 1 with the new view, `none` = returned 0. -/
def vvalidate (cfg : Cfg) (v : View) (piv : Nat) : Option View :=
  if piv ≥ SEQ_MAX then none
  else if v.init then some ⟨false, piv, 1⟩
  else if piv > v.last then
    some ⟨false, piv, if piv - v.last > 63 then 1 else ((v.win <<< (piv - v.last)) % 2 ^ 64) ||| 1⟩
  else if piv = v.last then none
  else if v.last - piv > cfg.window ∨ v.last - piv > 63 then none
  else if v.win.testBit (v.last - piv) then none
  else some ⟨false, v.last, v.win ||| 2 ^ (v.last - piv)⟩

/-- the request path on the view -/
def vrecv (cfg : Cfg) (v : View) (ev : Ev) : View × Verdict :=
  if !v.init || !cfg.b12 then
    match vvalidate cfg v ev.piv with
    | none => (v, .rej401)
    | some v1 => if !ev.authentic then (v, .rej400) else (v1, .acc)
  else if !ev.authentic then (v, .rej400)
  else
    match ev.echo with
    | .good =>
      match vvalidate cfg v ev.piv with
      | some v2 => ({ v2 with win := 2 ^ 64 - 1 }, .acc)
      | none => (v, .rej401)
    | .bad => (v, .drop)
    | .none => (v, .chal)

theorem vvalidate_init_false {cfg : Cfg} {v v' : View} {p : Nat} (h : vvalidate cfg v p = some v') : v'.init = false := by
  unfold vvalidate at h
  split at h
  · cases h
  · split at h
    · cases h; rfl
    · split at h
      · cases h; rfl
      · split at h
        · cases h
        · split at h
          · cases h
          · split at h
            · cases h
            · cases h; rfl

theorem validate_none {cfg : Cfg} {r : Recip} {p : Nat} (h : vvalidate cfg r.view p = none) :
    validate cfg r p = .rej r ∨ validate cfg r p = .rej (saved r) := by
  rw [validate_eq]
  unfold validateC
  by_cases h1 : p ≥ SEQ_MAX
  · left; rw [if_pos h1]
  · rw [if_neg h1]
    by_cases h2 : r.init = true
    · simp [vvalidate, Recip.view, h1, h2] at h
    · rw [if_neg h2]
      by_cases h3 : p > r.last
      · simp [vvalidate, Recip.view, h1, h2, h3] at h
      · rw [if_neg h3]
        by_cases h4 : p = r.last
        · right; rw [if_pos h4]
        · rw [if_neg h4]
          by_cases h5 : r.last - p > cfg.window ∨ r.last - p > 63
          · right; rw [if_pos h5]
          · rw [if_neg h5]
            by_cases h6 : r.win.testBit (r.last - p) = true
            · right; rw [if_pos h6]
            · simp [vvalidate, Recip.view, h1, h2, h3, h4, h5, h6] at h

theorem validate_some {cfg : Cfg} {r : Recip} {p : Nat} {v : View} (h : vvalidate cfg r.view p = some v) :
    validate cfg r p = .ok { saved r with init := false, last := v.last, win := v.win } := by
  rw [validate_eq]
  unfold validateC
  by_cases h1 : p ≥ SEQ_MAX
  · simp [vvalidate, h1] at h
  · rw [if_neg h1]
    by_cases h2 : r.init = true
    · rw [if_pos h2]
      simp [vvalidate, Recip.view, h1, h2] at h
      subst h; rfl
    · rw [if_neg h2]
      have hi : r.init = false := by simpa using h2
      by_cases h3 : p > r.last
      · rw [if_pos h3]
        simp [vvalidate, Recip.view, h1, hi, h3] at h
        subst h
        simp [saved, hi]
      · rw [if_neg h3]
        by_cases h4 : p = r.last
        · simp [vvalidate, Recip.view, h1, hi, h3, h4] at h
        · rw [if_neg h4]
          by_cases h5 : r.last - p > cfg.window ∨ r.last - p > 63
          · simp [vvalidate, Recip.view, h1, hi, h3, h4, h5] at h
          · rw [if_neg h5]
            by_cases h6 : r.win.testBit (r.last - p) = true
            · simp [vvalidate, Recip.view, h1, hi, h3, h4, h5, h6] at h
            · rw [if_neg h6]
              simp [vvalidate, Recip.view, h1, hi, h3, h4, h5, h6] at h
              subst h
              simp [saved, hi]


theorem saved_view (r : Recip) : (saved r).view = r.view := rfl

/-- The verdict and the new view computed by `recv` depend on the view only, and are given by `vrecv`. -/
theorem recv_view (cfg : Cfg) (r : Recip) (ev : Ev) :
    ((recv cfg r ev).1.view, (recv cfg r ev).2) = vrecv cfg r.view ev := by
  unfold recv vrecv
  have hvi : r.view.init = r.init := rfl
  rw [hvi]
  by_cases hval : (!r.init || !cfg.b12) = true
  · simp only [hval, if_true]
    cases hv : vvalidate cfg r.view ev.piv with
    | none =>
      rcases validate_none hv with h | h <;> rw [h] <;> rfl
    | some v =>
      rw [validate_some hv]
      by_cases ha : ev.authentic = true
      · have hi := vvalidate_init_false hv
        simp [ha, Recip.view]
        cases v; simp_all
      · have ha' : ev.authentic = false := by simpa using ha
        simp [ha', rollback, saved, Recip.view]
  · have hval' : (!r.init || !cfg.b12) = false := by simpa using hval
    have hinit : r.init = true := by
      cases hi : r.init <;> simp [hi] at hval' ⊢
    have hb : cfg.b12 = true := by
      cases hb : cfg.b12 <;> simp [hb] at hval' ⊢
    simp only [hval', Bool.false_eq_true, if_false]
    by_cases ha : ev.authentic = true
    · simp only [ha, Bool.not_true, Bool.false_eq_true, if_false, hb, hinit, Bool.and_self, if_true]
      cases he : ev.echo with
      | none => rfl
      | bad => rfl
      | good =>
        simp only []
        cases hv : vvalidate cfg r.view ev.piv with
        | none =>
          rcases validate_none hv with h | h <;> rw [h] <;> rfl
        | some v =>
          rw [validate_some hv]
          have hi := vvalidate_init_false hv
          simp [Recip.view]
          cases v; simp_all
    · have ha' : ev.authentic = false := by simpa using ha
      simp [ha']

theorem testBit_shl_or_one (w s j : Nat) (hj : j < 64) :
    (((w <<< s) % 2 ^ 64) ||| 1).testBit j = (decide (j = 0) || (decide (j ≥ s) && w.testBit (j - s))) := by
  rw [Nat.testBit_or, Nat.testBit_mod_two_pow, Nat.testBit_shiftLeft, testBit_one]
  simp [hj, Bool.or_comm]

/-- What the replay state knows about the set `A` of Partial IVs accepted so far: before the first acceptance
nothing was accepted; afterwards `last` is the highest accepted PIV and bit `k` (k < 64) of the window is set exactly
when `last - k` was accepted. -/
structure Good (v : View) (A : List Nat) (F : Nat) : Prop where
  fresh : v.init = true → A = []
  le : v.init = false → ∀ p ∈ A, p ≤ v.last
  bit : v.init = false → ∀ p ∈ A, v.last - p < 64 → v.win.testBit (v.last - p) = true
  top : v.init = false → v.last ∈ A
  conv : v.init = false → ∀ k, k < 64 → v.win.testBit k = true → (k ≤ v.last ∧ v.last - k ∈ A) ∨ v.last < F + k
  lt : v.init = false → v.last < SEQ_MAX
  /-- everything below the floor is blocked: its bit is set while it is inside the bitmap -/
  blocked : v.init = false → ∀ p, p < F → v.last - p < 64 → v.win.testBit (v.last - p) = true
  floor_le : v.init = false → F ≤ v.last

theorem good_fresh (F : Nat) : Good Recip.fresh.view [] F :=
  ⟨fun _ => rfl, fun h => (by cases h), fun h => (by cases h), fun h => (by cases h), fun h => (by cases h),
    fun h => (by cases h), fun h => (by cases h), fun h => (by cases h)⟩

theorem vvalidate_good {cfg : Cfg} {v v' : View} {A : List Nat} {F p : Nat} (g : Good v A F)
    (h : vvalidate cfg v p = some v') : p ∉ A ∧ Good v' (p :: A) (if v.init then 0 else F) ∧ (v.init = false → F ≤ p) := by
  unfold vvalidate at h
  by_cases h1 : p ≥ SEQ_MAX
  · rw [if_pos h1] at h; cases h
  rw [if_neg h1] at h
  by_cases h2 : v.init = true
  · rw [if_pos h2] at h
    cases h
    have hA := g.fresh h2
    subst hA
    rw [if_pos h2]
    refine ⟨by simp, ⟨fun h => (by cases h), ?_, ?_, ?_, ?_, ?_, ?_, ?_⟩, fun h => by rw [h2] at h; cases h⟩
    · intro _ q hq; simp at hq; simp [hq]
    · intro _ q hq _; simp at hq; subst hq; simp [Nat.testBit_one_zero]
    · intro _; simp
    · intro _ k _ hk
      dsimp only at hk ⊢
      rw [testBit_one] at hk
      have : k = 0 := by simpa using hk
      subst this; exact Or.inl (by simp)
    · intro _; dsimp only; omega
    · intro _ q hq _; exact absurd hq (Nat.not_lt_zero _)
    · intro _; exact Nat.zero_le _
  rw [if_neg h2] at h
  have hi : v.init = false := by simpa using h2
  have hfl := g.floor_le hi
  rw [if_neg h2]
  by_cases h3 : p > v.last
  · rw [if_pos h3] at h
    cases h
    have hnot : p ∉ A := fun hp => by have := g.le hi p hp; omega
    refine ⟨hnot, ⟨fun h => (by cases h), ?_, ?_, ?_, ?_, ?_, ?_, ?_⟩, fun _ => by omega⟩
    · intro _ q hq
      dsimp only
      rcases List.mem_cons.mp hq with rfl | hq
      · exact Nat.le_refl _
      · have := g.le hi q hq; omega
    · intro _ q hq hlt
      dsimp only at hlt ⊢
      rcases List.mem_cons.mp hq with rfl | hq
      · rw [Nat.sub_self]
        by_cases h4 : q - v.last > 63
        · rw [if_pos h4]; exact Nat.testBit_one_zero
        · rw [if_neg h4, testBit_shl_or_one _ _ _ (by omega)]; simp
      · have hle := g.le hi q hq
        have h4 : ¬ p - v.last > 63 := by omega
        rw [if_neg h4, testBit_shl_or_one _ _ _ hlt]
        have hb := g.bit hi q hq (by omega)
        have e : p - q - (p - v.last) = v.last - q := by omega
        have hge : p - q ≥ p - v.last := by omega
        simp [e, hb, hge]
    · intro _; simp
    · intro _ k hk hb
      dsimp only at hb ⊢
      by_cases h4 : p - v.last > 63
      · rw [if_pos h4, testBit_one] at hb
        have : k = 0 := by simpa using hb
        subst this; exact Or.inl (by simp)
      · rw [if_neg h4, testBit_shl_or_one _ _ _ hk] at hb
        by_cases hk0 : k = 0
        · subst hk0; exact Or.inl (by simp)
        · simp only [hk0, decide_false, Bool.false_or, Bool.and_eq_true, decide_eq_true_eq] at hb
          rcases g.conv hi (k - (p - v.last)) (by omega) hb.2 with this | this
          · left
            refine ⟨by omega, ?_⟩
            have e : p - k = v.last - (k - (p - v.last)) := by omega
            rw [e]
            exact List.mem_cons_of_mem _ this.2
          · right; omega
    · intro _; dsimp only; omega
    · intro _ q hq hlt
      dsimp only at hlt ⊢
      have h4 : ¬ p - v.last > 63 := by omega
      rw [if_neg h4, testBit_shl_or_one _ _ _ hlt]
      have hb := g.blocked hi q hq (by omega)
      have e : p - q - (p - v.last) = v.last - q := by omega
      have hge : p - q ≥ p - v.last := by omega
      simp [e, hb, hge]
    · intro _; dsimp only; omega
  rw [if_neg h3] at h
  by_cases h4 : p = v.last
  · rw [if_pos h4] at h; cases h
  rw [if_neg h4] at h
  by_cases h5 : v.last - p > cfg.window ∨ v.last - p > 63
  · rw [if_pos h5] at h; cases h
  rw [if_neg h5] at h
  by_cases h6 : v.win.testBit (v.last - p) = true
  · rw [if_pos h6] at h; cases h
  rw [if_neg h6] at h
  cases h
  have hnot : p ∉ A := fun hp => h6 (g.bit hi p hp (by omega))
  have hFp : F ≤ p := by
    rcases Nat.lt_or_ge p F with hlt | hge
    · exact absurd (g.blocked hi p hlt (by omega)) h6
    · exact hge
  refine ⟨hnot, ⟨fun h => (by cases h), ?_, ?_, ?_, ?_, ?_, ?_, ?_⟩, fun _ => hFp⟩
  · intro _ q hq
    dsimp only
    rcases List.mem_cons.mp hq with rfl | hq
    · omega
    · exact g.le hi q hq
  · intro _ q hq hlt
    dsimp only at hlt ⊢
    rw [Nat.testBit_or]
    rcases List.mem_cons.mp hq with rfl | hq
    · simp [Nat.testBit_two_pow_self]
    · simp [g.bit hi q hq hlt]
  · intro _; exact List.mem_cons_of_mem _ (g.top hi)
  · intro _ k hk hb
    dsimp only at hb ⊢
    rw [Nat.testBit_or, Nat.testBit_two_pow] at hb
    by_cases hw : v.win.testBit k = true
    · rcases g.conv hi k hk hw with this | this
      · exact Or.inl ⟨this.1, List.mem_cons_of_mem _ this.2⟩
      · exact Or.inr this
    · have hw' : v.win.testBit k = false := by simpa using hw
      simp [hw'] at hb
      subst hb
      left
      refine ⟨by omega, ?_⟩
      have e : v.last - (v.last - p) = p := by omega
      rw [e]; simp
  · intro _; exact g.lt hi
  · intro _ q hq hlt
    dsimp only at hlt ⊢
    rw [Nat.testBit_or]
    simp [g.blocked hi q hq hlt]
  · intro _; exact hfl

/-- Appendix B.1.2: the window after the request that carried the Echo value — its Partial IV is the floor. -/
theorem good_floor {p : Nat} (hp : p < SEQ_MAX) : Good ⟨false, p, 2 ^ 64 - 1⟩ [p] p := by
  refine ⟨fun h => (by cases h), ?_, ?_, ?_, ?_, ?_, ?_, ?_⟩
  · intro _ q hq; simp at hq; simp [hq]
  · intro _ q hq hlt
    dsimp only at hlt ⊢
    rw [Nat.testBit_two_pow_sub_one]; simpa using hlt
  · intro _; simp
  · intro _ k _ _
    dsimp only
    by_cases hk : k = 0
    · subst hk; exact Or.inl (by simp)
    · right; omega
  · intro _; exact hp
  · intro _ q _ hlt
    dsimp only at hlt ⊢
    rw [Nat.testBit_two_pow_sub_one]; simpa using hlt
  · intro _; exact Nat.le_refl _

theorem vvalidate_init {cfg : Cfg} {v v' : View} {p : Nat} (hi : v.init = true) (h : vvalidate cfg v p = some v') :
    v' = ⟨false, p, 1⟩ ∧ p < SEQ_MAX := by
  unfold vvalidate at h
  by_cases h1 : p ≥ SEQ_MAX
  · rw [if_pos h1] at h; cases h
  · rw [if_neg h1, if_pos hi] at h; cases h; exact ⟨rfl, by omega⟩

theorem recv_fst_view (cfg : Cfg) (r : Recip) (ev : Ev) : (recv cfg r ev).1.view = (vrecv cfg r.view ev).1 :=
  congrArg Prod.fst (recv_view cfg r ev)

theorem recv_snd (cfg : Cfg) (r : Recip) (ev : Ev) : (recv cfg r ev).2 = (vrecv cfg r.view ev).2 :=
  congrArg Prod.snd (recv_view cfg r ev)

/-- the floor of the window (ghost) after a request with Partial IV `p` has been accepted in view `v`: the request that
completes the Appendix B.1.2 exchange sets it, without B.1.2 the first request leaves none, later it never moves -/
def vfloor (cfg : Cfg) (v : View) (F p : Nat) : Nat := if v.init then (if cfg.b12 then p else 0) else F

/-- one step on the view: either the request is accepted (plainly, or as the request that completes the Appendix B.1.2
exchange: then every lower Partial IV is blocked), or the view is unchanged -/
theorem vrecv_cases (cfg : Cfg) (v : View) (ev : Ev) :
    (∃ v', vvalidate cfg v ev.piv = some v' ∧ ev.authentic = true ∧
      ((vrecv cfg v ev = (v', .acc) ∧ (v.init = true → cfg.b12 = false)) ∨
       (v.init = true ∧ cfg.b12 = true ∧ ev.echo = .good ∧ vrecv cfg v ev = ({ v' with win := 2 ^ 64 - 1 }, .acc)))) ∨
    ((vrecv cfg v ev).1 = v ∧ (vrecv cfg v ev).2 ≠ .acc ∧ (vrecv cfg v ev).2 ≠ .ub) := by
  unfold vrecv
  by_cases hval : (!v.init || !cfg.b12) = true
  · rw [if_pos hval]
    cases hv : vvalidate cfg v ev.piv with
    | none => right; simp
    | some v' =>
      by_cases ha : ev.authentic = true
      · left
        refine ⟨v', rfl, ha, Or.inl ⟨by simp [ha], fun hi => ?_⟩⟩
        cases hb : cfg.b12 <;> simp [hi, hb] at hval ⊢
      · right; simp [ha]
  · rw [if_neg hval]
    have hval' : (!v.init || !cfg.b12) = false := by simpa using hval
    have hinit : v.init = true := by
      cases hi : v.init <;> simp [hi] at hval' ⊢
    have hb : cfg.b12 = true := by
      cases hb : cfg.b12 <;> simp [hb] at hval' ⊢
    by_cases ha : ev.authentic = true
    · have : (!ev.authentic) = false := by simp [ha]
      rw [this]
      simp only [Bool.false_eq_true, if_false]
      cases he : ev.echo with
      | none => right; simp
      | bad => right; simp
      | good =>
        cases hv : vvalidate cfg v ev.piv with
        | none => right; simp
        | some v' => left; exact ⟨v', rfl, ha, Or.inr ⟨hinit, hb, rfl, rfl⟩⟩
    · right; simp [ha]

theorem recv_good {cfg : Cfg} {r : Recip} {A : List Nat} {F : Nat} (ev : Ev) (g : Good r.view A F) :
    ((recv cfg r ev).2 = .acc ∧ ev.authentic = true ∧ ev.piv ∉ A ∧
        Good (recv cfg r ev).1.view (ev.piv :: A) (vfloor cfg r.view F ev.piv) ∧ (r.init = false → F ≤ ev.piv) ∧
        (r.init = true → cfg.b12 = true → ev.echo = .good) ∧ (recv cfg r ev).1.view.init = false) ∨
    ((recv cfg r ev).2 ≠ .acc ∧ (recv cfg r ev).2 ≠ .ub ∧ (recv cfg r ev).1.view = r.view) := by
  rw [recv_fst_view, recv_snd]
  rcases vrecv_cases cfg r.view ev with ⟨v', hv, ha, ⟨he, hb⟩ | ⟨hi, hb, hecho, he⟩⟩ | ⟨h1, h2, h3⟩
  · left
    rw [he]
    have := vvalidate_good g hv
    refine ⟨rfl, ha, this.1, ?_, this.2.2, fun hi hb' => (by rw [hb hi] at hb'; cases hb'), vvalidate_init_false hv⟩
    have hfl : vfloor cfg r.view F ev.piv = (if r.view.init then 0 else F) := by
      unfold vfloor
      cases hi : r.view.init with
      | false => rfl
      | true => simp [hb hi]
    rw [hfl]; exact this.2.1
  · left
    rw [he]
    obtain ⟨hv', hlt⟩ := vvalidate_init hi hv
    have hA := g.fresh hi
    subst hA
    subst hv'
    refine ⟨rfl, ha, by simp, ?_, fun h => ?_, fun _ _ => hecho, rfl⟩
    · have hfl : vfloor cfg r.view F ev.piv = ev.piv := by simp [vfloor, hi, hb]
      rw [hfl]; exact good_floor hlt
    · have : r.view.init = false := h
      rw [hi] at this; cases this
  · right; exact ⟨h2, h3, h1⟩

theorem vvalidate_live {cfg : Cfg} {v : View} {A : List Nat} {F p : Nat} (g : Good v A F) (hp : p < SEQ_MAX)
    (hn : p ∉ A) (hw : ∀ q ∈ A, q < p + min cfg.window 64) (hF : v.init = false → F ≤ p) :
    ∃ v', vvalidate cfg v p = some v' := by
  unfold vvalidate
  have h1 : ¬ p ≥ SEQ_MAX := by omega
  rw [if_neg h1]
  by_cases h2 : v.init = true
  · rw [if_pos h2]; exact ⟨_, rfl⟩
  rw [if_neg h2]
  have hi : v.init = false := by simpa using h2
  by_cases h3 : p > v.last
  · rw [if_pos h3]; exact ⟨_, rfl⟩
  rw [if_neg h3]
  have htop := g.top hi
  have hlt := hw _ htop
  have h4 : ¬ p = v.last := fun h => hn (h ▸ htop)
  rw [if_neg h4]
  have h5 : ¬ (v.last - p > cfg.window ∨ v.last - p > 63) := by omega
  rw [if_neg h5]
  have h6 : ¬ v.win.testBit (v.last - p) = true := by
    intro hb
    have hF' := hF hi
    rcases g.conv hi (v.last - p) (by omega) hb with this | this
    · have this := this.2
      have e : v.last - (v.last - p) = p := by omega
      rw [e] at this
      exact hn this
    · omega
  rw [if_neg h6]; exact ⟨_, rfl⟩

theorem vrecv_acc {cfg : Cfg} {v v' : View} {ev : Ev} (ha : ev.authentic = true)
    (hv : vvalidate cfg v ev.piv = some v') (hs : (!v.init || !cfg.b12) = true ∨ ev.echo = .good) :
    (vrecv cfg v ev).2 = .acc := by
  unfold vrecv
  by_cases hval : (!v.init || !cfg.b12) = true
  · rw [if_pos hval, hv]; simp [ha]
  · rw [if_neg hval]
    rcases hs with hs | hs
    · exact absurd hs hval
    · simp [ha, hs, hv]


/-! ### The response path on the view, and messages (requests and responses on one recipient context) -/

/-- After the first acceptance `last_seq` is below `OSCORE_SEQ_MAX`: an invariant of every reachable state
(`Good.lt`, `reachable_sane`); an unreachable state without it can take the `SEQ_MAX` exit of the response path after
`oscore_validate_sender_seq` has already recorded the Partial IV. -/
def Sane (v : View) : Prop := v.init = false → v.last < SEQ_MAX

/-- the response path on the view -/
def vrecvRsp (cfg : Cfg) (v : View) (x : Rsp) : View × Verdict :=
  match x.piv with
  | none => if !x.authentic then (v, .drop) else (v, .acc)
  | some p =>
    if v.init then
      if v.last ≥ SEQ_MAX then (v, .drop)
      else if !x.authentic then (v, .drop)
      else (⟨true, if p > v.last then p else v.last, v.win⟩, .acc)
    else
      match vvalidate cfg v p with
      | none => (v, .drop)
      | some v1 =>
        if v1.last ≥ SEQ_MAX then (v1, .drop)
        else if !x.authentic then (v, .drop)
        else (⟨false, if p > v1.last then p else v1.last, v1.win⟩, .acc)

/-- The verdict and the new view computed by `recvRsp` depend on the view only, and are given by `vrecvRsp`. -/
theorem recvRsp_view (cfg : Cfg) (r : Recip) (x : Rsp) :
    ((recvRsp cfg r x).1.view, (recvRsp cfg r x).2) = vrecvRsp cfg r.view x := by
  unfold recvRsp vrecvRsp
  cases hp : x.piv with
  | none =>
    by_cases ha : x.authentic = true <;> simp [ha]
  | some p =>
    simp only []
    have hvi : r.view.init = r.init := rfl
    have hvl : r.view.last = r.last := rfl
    rw [hvi]
    cases hi : r.init with
    | true =>
      simp only [Bool.not_true, Bool.false_eq_true, if_false, if_true]
      rw [hvl]
      by_cases h1 : r.last ≥ SEQ_MAX
      · simp [h1]
      · simp only [h1, if_false]
        by_cases ha : x.authentic = true
        · by_cases h2 : p > r.last <;> simp [ha, h2, Recip.view, hi]
        · have ha' : x.authentic = false := by simpa using ha
          by_cases h2 : p > r.last <;> simp [ha', h2, Recip.view]
    | false =>
      simp only [Bool.not_false, if_true, Bool.false_eq_true, if_false]
      cases hv : vvalidate cfg r.view p with
      | none =>
        rcases validate_none hv with h | h <;> rw [h] <;> rfl
      | some v1 =>
        rw [validate_some hv]
        simp only []
        by_cases h1 : v1.last ≥ SEQ_MAX
        · simp only [h1, if_true]
          have := vvalidate_init_false hv
          cases v1; simp_all [Recip.view]
        · simp only [h1, if_false]
          by_cases ha : x.authentic = true
          · by_cases h2 : p > v1.last <;> simp [ha, h2, Recip.view]
          · have ha' : x.authentic = false := by simpa using ha
            by_cases h2 : p > v1.last <;> simp [ha', h2, Recip.view, rollback, saved]

theorem recvRsp_fst_view (cfg : Cfg) (r : Recip) (x : Rsp) : (recvRsp cfg r x).1.view = (vrecvRsp cfg r.view x).1 :=
  congrArg Prod.fst (recvRsp_view cfg r x)

theorem recvRsp_snd (cfg : Cfg) (r : Recip) (x : Rsp) : (recvRsp cfg r x).2 = (vrecvRsp cfg r.view x).2 :=
  congrArg Prod.snd (recvRsp_view cfg r x)

/-- one message on the view -/
def vstep (cfg : Cfg) (v : View) : Msg → View × Verdict
  | .req e => vrecv cfg v e
  | .rsp x => vrecvRsp cfg v x

theorem step_view (cfg : Cfg) (r : Recip) (m : Msg) :
    ((step cfg r m).1.view, (step cfg r m).2) = vstep cfg r.view m := by
  cases m with
  | req e => exact recv_view cfg r e
  | rsp x => exact recvRsp_view cfg r x

theorem step_fst_view (cfg : Cfg) (r : Recip) (m : Msg) : (step cfg r m).1.view = (vstep cfg r.view m).1 :=
  congrArg Prod.fst (step_view cfg r m)

theorem step_snd (cfg : Cfg) (r : Recip) (m : Msg) : (step cfg r m).2 = (vstep cfg r.view m).2 :=
  congrArg Prod.snd (step_view cfg r m)

theorem vvalidate_last_lt {cfg : Cfg} {v v' : View} {p : Nat} (h : vvalidate cfg v p = some v') (hs : Sane v) :
    v'.last < SEQ_MAX := by
  unfold vvalidate at h
  by_cases h1 : p ≥ SEQ_MAX
  · rw [if_pos h1] at h; cases h
  rw [if_neg h1] at h
  by_cases h2 : v.init = true
  · rw [if_pos h2] at h; cases h; dsimp only; omega
  rw [if_neg h2] at h
  have hi : v.init = false := by simpa using h2
  by_cases h3 : p > v.last
  · rw [if_pos h3] at h; cases h; dsimp only; omega
  rw [if_neg h3] at h
  by_cases h4 : p = v.last
  · rw [if_pos h4] at h; cases h
  rw [if_neg h4] at h
  by_cases h5 : v.last - p > cfg.window ∨ v.last - p > 63
  · rw [if_pos h5] at h; cases h
  rw [if_neg h5] at h
  by_cases h6 : v.win.testBit (v.last - p) = true
  · rw [if_pos h6] at h; cases h
  rw [if_neg h6] at h
  cases h
  exact hs hi

/-- The response path never reaches a shift by ≥ 64 and never accepts a response that does not verify (any state). -/
theorem vrecvRsp_not_ub (cfg : Cfg) (v : View) (x : Rsp) : (vrecvRsp cfg v x).2 ≠ .ub := by
  unfold vrecvRsp
  repeat' split
  all_goals (intro h; cases h)

theorem vrecvRsp_forged_not_acc (cfg : Cfg) (v : View) (x : Rsp) (h : x.authentic = false) :
    (vrecvRsp cfg v x).2 ≠ .acc := by
  unfold vrecvRsp
  cases hp : x.piv with
  | none => simp [h]
  | some p =>
    simp only []
    by_cases hi : v.init = true
    · rw [if_pos hi]
      by_cases h1 : v.last ≥ SEQ_MAX
      · rw [if_pos h1]; intro h; cases h
      · rw [if_neg h1]; simp [h]
    · rw [if_neg hi]
      cases hv : vvalidate cfg v p with
      | none => intro h; cases h
      | some v1 =>
        simp only []
        by_cases h1 : v1.last ≥ SEQ_MAX
        · rw [if_pos h1]; intro h; cases h
        · rw [if_neg h1]; simp [h]

/-- A response that does not verify leaves the view as it was (any sane state, any claimed Partial IV). -/
theorem vrecvRsp_forged {cfg : Cfg} {v : View} {x : Rsp} (h : x.authentic = false) (hs : Sane v) :
    vrecvRsp cfg v x = (v, .drop) := by
  unfold vrecvRsp
  cases hp : x.piv with
  | none => simp [h]
  | some p =>
    simp only []
    by_cases hi : v.init = true
    · rw [if_pos hi]
      by_cases h1 : v.last ≥ SEQ_MAX
      · rw [if_pos h1]
      · rw [if_neg h1]; simp [h]
    · rw [if_neg hi]
      cases hv : vvalidate cfg v p with
      | none => rfl
      | some v1 =>
        have := vvalidate_last_lt hv hs
        have h1 : ¬ v1.last ≥ SEQ_MAX := by omega
        simp only [h1, if_false]
        simp [h]

/-- One response in a state consistent with the set `A` of recorded Partial IVs: either it is validated and accepted
(then its PIV was not recorded before and is now), or nothing is recorded and `A` still describes the window. -/
theorem vrecvRsp_good {cfg : Cfg} {v : View} {A : List Nat} {F : Nat} (x : Rsp) (g : Good v A F) :
    (∃ p v', x.piv = some p ∧ v.init = false ∧ x.authentic = true ∧ vvalidate cfg v p = some v' ∧
        vrecvRsp cfg v x = (v', .acc) ∧ p ∉ A ∧ Good v' (p :: A) F) ∨
    ((x.piv = none ∨ v.init = true ∨ (vrecvRsp cfg v x).2 ≠ .acc) ∧ Good (vrecvRsp cfg v x).1 A F) := by
  cases hp : x.piv with
  | none =>
    right
    refine ⟨Or.inl rfl, ?_⟩
    unfold vrecvRsp
    rw [hp]
    by_cases ha : x.authentic = true <;> simp [ha, g]
  | some p =>
    by_cases hi : v.init = true
    · right
      refine ⟨Or.inr (Or.inl hi), ?_⟩
      have hA := g.fresh hi
      unfold vrecvRsp
      rw [hp]
      simp only [hi, if_true]
      by_cases h1 : v.last ≥ SEQ_MAX
      · rw [if_pos h1]; exact g
      · rw [if_neg h1]
        by_cases ha : x.authentic = true
        · simp only [ha, Bool.not_true, Bool.false_eq_true, if_false]
          exact ⟨fun _ => hA, fun h => (by cases h), fun h => (by cases h), fun h => (by cases h),
            fun h => (by cases h), fun h => (by cases h), fun h => (by cases h), fun h => (by cases h)⟩
        · simp [ha, g]
    · have hi' : v.init = false := by simpa using hi
      cases hv : vvalidate cfg v p with
      | none =>
        right
        unfold vrecvRsp
        rw [hp]
        simp only [hi, if_false, hv]
        exact ⟨Or.inr (Or.inr (by intro h; cases h)), g⟩
      | some v1 =>
        have hg := vvalidate_good g hv
        have hi1 := vvalidate_init_false hv
        have hg2 : Good v1 (p :: A) F := by have := hg.2.1; rwa [if_neg hi] at this
        have hlt := hg2.lt hi1
        have hle : p ≤ v1.last := hg2.le hi1 p List.mem_cons_self
        have h1 : ¬ v1.last ≥ SEQ_MAX := by omega
        have h2 : ¬ p > v1.last := by omega
        by_cases ha : x.authentic = true
        · left
          refine ⟨p, v1, rfl, hi', ha, hv, ?_, hg.1, hg2⟩
          unfold vrecvRsp
          rw [hp]
          simp only [hi, if_false, hv, h1, ha, Bool.not_true, Bool.false_eq_true, h2]
          cases v1; simp_all
        · right
          have ha' : x.authentic = false := by simpa using ha
          have hs : Sane v := g.lt
          rw [vrecvRsp_forged ha' hs]
          exact ⟨Or.inr (Or.inr (by intro h; cases h)), g⟩

/-! ### Histories of messages -/

/-- The Partial IV this message records in the replay window of state `r` (a request that is accepted; a response
carrying its own Partial IV that is accepted after validation, i.e. once the window is initialised). -/
def taken (cfg : Cfg) (r : Recip) : Msg → List Nat
  | .req e => if (recv cfg r e).2 = .acc then [e.piv] else []
  | .rsp x =>
    match x.piv with
    | some p => if (recvRsp cfg r x).2 = .acc ∧ r.init = false then [p] else []
    | none => []

/-- The Partial IV of this message if it is a request that is accepted. -/
def acceptedBy (cfg : Cfg) (r : Recip) : Msg → List Nat
  | .req e => if (recv cfg r e).2 = .acc then [e.piv] else []
  | .rsp _ => []

/-- Partial IVs of the *requests* accepted in a history of requests and responses, in order. -/
def accepted (cfg : Cfg) : Recip → List Msg → List Nat
  | _, [] => []
  | r, m :: ms => acceptedBy cfg r m ++ accepted cfg (step cfg r m).1 ms

/-- Partial IVs recorded in the window in a history (accepted requests and validated accepted responses), in order. -/
def recorded (cfg : Cfg) : Recip → List Msg → List Nat
  | _, [] => []
  | r, m :: ms => taken cfg r m ++ recorded cfg (step cfg r m).1 ms

/-- The recipient context after a history. -/
def final (cfg : Cfg) : Recip → List Msg → Recip
  | r, [] => r
  | r, m :: ms => final cfg (step cfg r m).1 ms

/-- The verdicts of a history. -/
def verdicts (cfg : Cfg) : Recip → List Msg → List Verdict
  | _, [] => []
  | r, m :: ms => (step cfg r m).2 :: verdicts cfg (step cfg r m).1 ms

theorem acceptedBy_sublist (cfg : Cfg) (r : Recip) (m : Msg) : (acceptedBy cfg r m).Sublist (taken cfg r m) := by
  cases m with
  | req e => exact List.Sublist.refl _
  | rsp x => exact List.nil_sublist _

theorem accepted_sublist (cfg : Cfg) (ms : List Msg) : ∀ r : Recip, (accepted cfg r ms).Sublist (recorded cfg r ms) := by
  induction ms with
  | nil => intro _; exact List.Sublist.refl _
  | cons m ms ih =>
    intro r
    simp only [accepted, recorded]
    exact List.Sublist.append (acceptedBy_sublist cfg r m) (ih _)

/-- the floor of the window (ghost: the Partial IV of the request that completed the Appendix B.1.2 exchange, below
which everything is refused) after one message / after a history -/
def floorStep (cfg : Cfg) (r : Recip) (m : Msg) (F : Nat) : Nat :=
  match m with
  | .req e => if (recv cfg r e).2 = .acc then vfloor cfg r.view F e.piv else F
  | .rsp _ => F

def floorOf (cfg : Cfg) : Recip → List Msg → Nat → Nat
  | _, [], F => F
  | r, m :: ms, F => floorOf cfg (step cfg r m).1 ms (floorStep cfg r m F)

/-- One message in a state consistent with `A`: no undefined shift, what it records was not recorded before, and the
new state is consistent with the enlarged set. -/
theorem step_good {cfg : Cfg} {r : Recip} {A : List Nat} {F : Nat} (m : Msg) (g : Good r.view A F) :
    (∀ p ∈ taken cfg r m, p ∉ A) ∧ Good (step cfg r m).1.view ((taken cfg r m).reverse ++ A) (floorStep cfg r m F) := by
  cases m with
  | req e =>
    simp only [step, taken, floorStep]
    rcases recv_good (cfg := cfg) e g with ⟨hacc, _, hnot, g', _, _, _⟩ | ⟨hacc, _, hview⟩
    · simp only [hacc, if_true, List.mem_singleton, forall_eq, List.reverse_singleton, List.singleton_append]
      exact ⟨hnot, g'⟩
    · simp only [hacc, if_false, List.reverse_nil, List.nil_append]
      rw [hview]
      exact ⟨by simp, g⟩
  | rsp x =>
    simp only [step, floorStep]
    rw [recvRsp_fst_view]
    rcases vrecvRsp_good (cfg := cfg) x g with ⟨p, v', hp, hi, _, _, he, hnot, g'⟩ | ⟨hno, g'⟩
    · have hi' : r.init = false := hi
      have hacc : (recvRsp cfg r x).2 = .acc := by rw [recvRsp_snd, he]
      simp only [taken, hp, hacc, hi', and_self, if_true, List.mem_singleton, forall_eq, List.reverse_singleton,
        List.singleton_append]
      rw [he]
      exact ⟨hnot, g'⟩
    · have ht : taken cfg r (.rsp x) = [] := by
        cases hp : x.piv with
        | none => simp [taken, hp]
        | some p =>
          rcases hno with h | h | h
          · rw [hp] at h; cases h
          · have h' : r.init = true := h
            simp [taken, hp, h']
          · rw [← recvRsp_snd] at h
            simp [taken, hp, h]
      rw [ht]
      exact ⟨by simp, by simpa using g'⟩

theorem recorded_nodup_aux (cfg : Cfg) (ms : List Msg) : ∀ (r : Recip) (A : List Nat) (F : Nat), Good r.view A F →
    (recorded cfg r ms).Nodup ∧ (∀ p ∈ recorded cfg r ms, p ∉ A) ∧
      Good (final cfg r ms).view ((recorded cfg r ms).reverse ++ A) (floorOf cfg r ms F) := by
  induction ms with
  | nil => intro r A F g; simp [recorded, final, floorOf, g]
  | cons m ms ih =>
    intro r A F g
    obtain ⟨hnot, g'⟩ := step_good (cfg := cfg) m g
    obtain ⟨nd, dis, gf⟩ := ih (step cfg r m).1 _ _ g'
    have hlen : ∀ p ∈ taken cfg r m, taken cfg r m = [p] := by
      intro p hp
      cases m with
      | req e =>
        simp only [taken] at hp ⊢
        split at hp
        · simp only [List.mem_singleton] at hp; subst hp; simp [*]
        · cases hp
      | rsp x =>
        simp only [taken] at hp ⊢
        split at hp
        · split at hp
          · simp only [List.mem_singleton] at hp; subst hp; simp [*]
          · cases hp
        · cases hp
    simp only [recorded, final, floorOf]
    refine ⟨?_, ?_, ?_⟩
    · rw [List.nodup_append]
      refine ⟨?_, nd, ?_⟩
      · cases ht : taken cfg r m with
        | nil => simp
        | cons a t =>
          have := hlen a (by rw [ht]; exact List.mem_cons_self)
          rw [ht] at this
          rw [this]; simp
      · intro a ha b hb hab
        subst hab
        exact dis a hb (List.mem_append_left _ (List.mem_reverse.mpr ha))
    · intro p hp
      rcases List.mem_append.mp hp with hp | hp
      · exact hnot p hp
      · exact fun hA => dis p hp (List.mem_append_right _ hA)
    · simpa [List.reverse_append, List.append_assoc] using gf


/-! ### Sender side -/

theorem effFreq_pos (f : Nat) : 0 < effFreq f := by
  unfold effFreq; split <;> omega

theorem effFreq_lt (f : Nat) : effFreq f < 2 ^ 32 := by
  unfold effFreq; split <;> omega

theorem restart_eff (f start : Nat) : restart f start = { seq := start, next := start - start % effFreq f } := by
  unfold restart effFreq
  by_cases h : f % 2 ^ 32 = 0
  · simp [h]
  · have : f % 2 ^ 32 > 0 := by omega
    simp [h, this]

/-- Invariant of the sending process and its persistent store after `n` operations: every PIV used so far (`U`) is
below both the current sequence number and the stored value; while sequence numbers are not exhausted the sequence
number has not passed the stored value and the watermark is within one period of it. -/
structure SGood (y : SSys) (U : List Nat) (n : Nat) : Prop where
  used_seq : ∀ p ∈ U, p < y.s.seq
  used_st : ∀ p ∈ U, p < y.stored
  alive : y.s.seq + 1 ≤ SEQ_MAX → y.s.seq ≤ y.stored ∧ y.s.next ≤ y.stored ∧ y.s.seq < y.s.next + effFreq y.f
  st_le : y.stored ≤ SEQ_MAX + 2 ^ 32
  seq_le : y.s.seq ≤ SEQ_MAX + 2 ^ 32 + n

def emitted : SObs → List Nat
  | .sent o => (match o.piv with | some p => [p] | none => [])
  | .resumed _ => []

theorem pivs_cons (o : SObs) (r : List SObs) : pivs (o :: r) = emitted o ++ pivs r := by
  cases o <;> rfl

theorem sgood_start (f start : Nat) (h : start ≤ SEQ_MAX + 2 ^ 32) : SGood (SSys.start f start) [] 0 := by
  unfold SSys.start
  rw [restart_eff]
  refine ⟨by simp, by simp, ?_, h, by simpa using h⟩
  intro _
  dsimp only
  have := Nat.mod_lt start (effFreq_pos f)
  omega

theorem sstep_good {y : SSys} {U : List Nat} {n : Nat} (g : SGood y U n) (hn : n < 2 ^ 63) (op : SOp) :
    SGood (sstep y op).1 (emitted (sstep y op).2 ++ U) (n + 1) ∧
      ∀ p ∈ emitted (sstep y op).2, ∀ u ∈ U, u < p := by
  have hsm : SEQ_MAX = 1099511627775 := rfl
  cases op with
  | crash f' =>
    simp only [sstep, emitted, List.nil_append]
    rw [restart_eff]
    refine ⟨⟨?_, g.used_st, ?_, g.st_le, ?_⟩, by simp⟩
    · exact g.used_st
    · intro _
      dsimp only
      have := Nat.mod_lt y.stored (effFreq_pos f')
      omega
    · dsimp only; have := g.st_le; omega
  | protect =>
    have hseq := g.seq_le
    have hwrap : (y.s.seq + 1) % 2 ^ 64 = y.s.seq + 1 := Nat.mod_eq_of_lt (by omega)
    simp only [sstep, protect, hwrap]
    by_cases h1 : y.s.seq + 1 > SEQ_MAX
    · simp only [h1, if_true, emitted, List.nil_append]
      refine ⟨⟨?_, g.used_st, ?_, g.st_le, ?_⟩, by simp⟩
      · intro p hp; have := g.used_seq p hp; dsimp only; omega
      · intro h; dsimp only at h; omega
      · dsimp only; omega
    · simp only [h1, if_false]
      have hal := g.alive (by omega)
      have hf := effFreq_lt y.f
      have hfp := effFreq_pos y.f
      have hst := g.st_le
      by_cases h2 : y.s.seq + 1 > y.s.next
      · have hnw : (y.s.next + effFreq y.f) % 2 ^ 64 = y.s.next + effFreq y.f := Nat.mod_eq_of_lt (by omega)
        simp only [h2, if_true, emitted, hnw, List.singleton_append]
        refine ⟨⟨?_, ?_, ?_, ?_, ?_⟩, ?_⟩
        · intro p hp
          dsimp only
          rcases List.mem_cons.mp hp with rfl | hp
          · omega
          · have := g.used_seq p hp; omega
        · intro p hp
          dsimp only
          rcases List.mem_cons.mp hp with rfl | hp
          · omega
          · have := g.used_seq p hp; omega
        · intro _; dsimp only; omega
        · dsimp only; omega
        · dsimp only; omega
        · intro p hp u hu
          have : p = y.s.seq := by simpa using hp
          subst this
          exact g.used_seq u hu
      · simp only [h2, if_false, emitted, List.singleton_append]
        refine ⟨⟨?_, ?_, ?_, ?_, ?_⟩, ?_⟩
        · intro p hp
          dsimp only
          rcases List.mem_cons.mp hp with rfl | hp
          · omega
          · have := g.used_seq p hp; omega
        · intro p hp
          dsimp only
          rcases List.mem_cons.mp hp with rfl | hp
          · omega
          · exact g.used_st p hp
        · intro _; dsimp only; omega
        · exact hst
        · dsimp only; omega
        · intro p hp u hu
          have : p = y.s.seq := by simpa using hp
          subst this
          exact g.used_seq u hu

theorem srun_increasing (ops : List SOp) : ∀ (y : SSys) (U : List Nat) (n : Nat), SGood y U n →
    n + ops.length < 2 ^ 63 →
    (∀ p ∈ pivs (srun y ops), ∀ u ∈ U, u < p) ∧ (pivs (srun y ops)).Pairwise (· < ·) := by
  induction ops with
  | nil => intro _ _ _ _ _; simp [srun, pivs]
  | cons op ops ih =>
    intro y U n g hn
    simp only [List.length_cons] at hn
    obtain ⟨g', hnew⟩ := sstep_good g (by omega) op
    obtain ⟨hfut, hpw⟩ := ih _ _ _ g' (by omega)
    simp only [srun, pivs_cons]
    refine ⟨?_, ?_⟩
    · intro p hp u hu
      rcases List.mem_append.mp hp with hp | hp
      · exact hnew p hp u hu
      · exact hfut p hp u (List.mem_append_right _ hu)
    · rw [List.pairwise_append]
      refine ⟨?_, hpw, ?_⟩
      · cases hso : (sstep y op).2 with
        | resumed _ => simp [emitted]
        | sent o => cases hp : o.piv <;> simp [emitted, hp]
      · intro a ha b hb
        exact hfut b hb a (List.mem_append_left _ ha)



/-! ### Conformance of M to the specification monitor S -/
section Conformance
open Coap.ReplaySpec (St Out allowed allowedReq allowedRsp next conforms inWindow maxOf)

theorem le_maxOf {A : List Nat} {q : Nat} (h : q ∈ A) : q ≤ maxOf A := by
  induction A with
  | nil => cases h
  | cons a r ih =>
    simp only [maxOf]
    rcases List.mem_cons.mp h with rfl | h
    · exact Nat.le_max_left _ _
    · exact Nat.le_trans (ih h) (Nat.le_max_right _ _)

theorem inWindow_all {w : Nat} {A : List Nat} {p : Nat} (h : inWindow w A p = true) : ∀ q ∈ A, q < p + min w 64 := by
  intro q hq
  unfold inWindow at h
  cases A with
  | nil => cases hq
  | cons a r =>
    simp only [List.isEmpty_cons, Bool.false_or, decide_eq_true_eq] at h
    exact Nat.lt_of_le_of_lt (le_maxOf hq) h

theorem vvalidate_none_init {cfg : Cfg} {v : View} {p : Nat} (hi : v.init = true) (h : vvalidate cfg v p = none) :
    p ≥ SEQ_MAX := by
  unfold vvalidate at h
  by_cases h1 : p ≥ SEQ_MAX
  · exact h1
  · rw [if_neg h1, if_pos hi] at h; cases h

/-- How the monitor's state is related to M's state: the window describes a set `A` of recorded Partial IVs (`Good`),
every recorded PIV was accepted in a request or in a response, every accepted request is recorded, `synced` is
"validation is armed", and before the first acceptance `last_seq` is 0 or the PIV of an accepted response. -/
structure Rel (cfg : Cfg) (v : View) (A : List Nat) (s : St) : Prop where
  good : Good v A s.floor
  fl0 : v.init = true → s.floor = 0
  sub : ∀ p ∈ A, p ∈ s.accepted ∨ p ∈ s.seen
  acc : ∀ p ∈ s.accepted, p ∈ A
  synced : s.synced = (!v.init || !cfg.b12)
  lastInit : v.init = true → v.last = 0 ∨ v.last ∈ s.all

theorem rel_start (cfg : Cfg) : Rel cfg Recip.fresh.view [] (St.start cfg.b12) :=
  ⟨good_fresh _, fun _ => rfl, fun _ h => (by cases h), fun _ h => (by cases h), rfl, fun _ => Or.inl rfl⟩

theorem mem_all {s : St} {p : Nat} : p ∈ s.all ↔ p ∈ s.accepted ∨ p ∈ s.seen := by
  unfold St.all; exact List.mem_append

theorem next_not_accept (s : St) (m : ReplaySpec.Msg) (o : Out) (h : o ≠ .accept) : next s m o = s := by
  cases o <;> simp_all [next]

theorem outOf_accept {v : Verdict} : outOf v = .accept ↔ v = .acc := by
  cases v <;> simp [outOf]

/-- A step that does not accept and leaves the view alone keeps the relation. -/
theorem rel_keep {cfg : Cfg} {v v' : View} {A : List Nat} {s : St} (R : Rel cfg v A s) (m : ReplaySpec.Msg)
    (vd : Verdict) (hv : v' = v) (hn : vd ≠ .acc) : ∃ A', Rel cfg v' A' (next s m (outOf vd)) := by
  have : outOf vd ≠ .accept := fun h => hn (outOf_accept.mp h)
  rw [next_not_accept _ _ _ this, hv]
  exact ⟨A, R⟩

/-- If nothing recorded and nothing seen forbids it, `oscore_validate_sender_seq` succeeds. -/
theorem rel_live {cfg : Cfg} {v : View} {A : List Nat} {s : St} (R : Rel cfg v A s) {p : Nat}
    (hc : p ∉ s.accepted) (hs : p ∉ s.seen) (hl : ¬ p ≥ ReplaySpec.SEQ_LIMIT)
    (hw : inWindow cfg.window s.all p = true) (hF : s.floor ≤ p) : ∃ v', vvalidate cfg v p = some v' := by
  have hlim : ReplaySpec.SEQ_LIMIT = SEQ_MAX := by decide
  have hnA : p ∉ A := fun h => by
    rcases R.sub _ h with h | h
    · exact hc h
    · exact hs h
  have hall : ∀ q ∈ A, q < p + min cfg.window 64 := fun q hq =>
    inWindow_all hw q (mem_all.mpr (R.sub q hq))
  exact vvalidate_live R.good (by omega) hnA hall (fun _ => hF)

/-- The relation after an accepted, validated message with Partial IV `p`. -/
theorem rel_acc_req {cfg : Cfg} {v v' : View} {A : List Nat} {s : St} (R : Rel cfg v A s) {p : Nat}
    (hv : vvalidate cfg v p = some v') :
    Rel cfg v' (p :: A) { s with accepted := p :: s.accepted, synced := true } := by
  have hg := vvalidate_good R.good hv
  have hi := vvalidate_init_false hv
  have hg2 : Good v' (p :: A) s.floor := by
    have := hg.2.1
    cases hvi : v.init with
    | false => simpa [hvi] using this
    | true => rw [R.fl0 hvi]; simpa [hvi] using this
  refine ⟨hg2, fun h => (by rw [hi] at h; cases h), ?_, ?_, by simp [hi], fun h => by rw [hi] at h; cases h⟩
  · intro q hq
    rcases List.mem_cons.mp hq with rfl | hq
    · exact Or.inl List.mem_cons_self
    · rcases R.sub q hq with h | h
      · exact Or.inl (List.mem_cons_of_mem _ h)
      · exact Or.inr h
  · intro q hq
    rcases List.mem_cons.mp hq with rfl | hq
    · exact List.mem_cons_self
    · exact List.mem_cons_of_mem _ (R.acc q hq)

/-- One request of M is allowed by the specification monitor, and the relation is kept. -/
theorem vrecv_conforms {cfg : Cfg} {v : View} {A : List Nat} {s : St} (ev : Ev) (R : Rel cfg v A s) :
    outOf (vrecv cfg v ev).2 ∈ allowedReq cfg.window s (reqOf ev) ∧
    ∃ A', Rel cfg (vrecv cfg v ev).1 A' (next s (.req (reqOf ev)) (outOf (vrecv cfg v ev).2)) := by
  have hlim : ReplaySpec.SEQ_LIMIT = SEQ_MAX := by decide
  unfold vrecv
  by_cases hval : (!v.init || !cfg.b12) = true
  · have hsy : s.synced = true := by rw [R.synced]; exact hval
    rw [if_pos hval]
    cases hv : vvalidate cfg v ev.piv with
    | none =>
      refine ⟨?_, rel_keep R _ .rej401 rfl (by intro h; cases h)⟩
      simp only [outOf, allowedReq, reqOf]
      by_cases ha : ev.authentic = true
      · simp only [ha, hsy, Bool.not_true, Bool.false_eq_true, if_false]
        by_cases hc : ev.piv ∈ s.accepted
        · simp [hc]
        · by_cases hf : ev.piv < s.floor
          · simp [hc, hf]
          · by_cases hl : ev.piv ≥ ReplaySpec.SEQ_LIMIT
            · simp [hc, hf, hl]
            · by_cases hs : ev.piv ∈ s.seen
              · simp [hc, hf, hl, hs]
              · by_cases hw : inWindow cfg.window s.all ev.piv = true
                · exfalso
                  obtain ⟨v', hv'⟩ := rel_live R hc hs hl hw (by omega)
                  rw [hv] at hv'; cases hv'
                · simp [hc, hf, hl, hs, hw]
      · simp [ha]
    | some v' =>
      by_cases ha : ev.authentic = true
      · have hg := vvalidate_good R.good hv
        simp only [ha, Bool.not_true, Bool.false_eq_true, if_false, outOf, next, reqOf, hsy, if_true]
        refine ⟨?_, _, rel_acc_req R hv⟩
        simp only [allowedReq, ha, hsy, Bool.not_true, Bool.false_eq_true, if_false]
        have hc : s.accepted.contains ev.piv = false := by
          have : ev.piv ∉ s.accepted := fun h => hg.1 (R.acc _ h)
          simpa using this
        have hf : ¬ ev.piv < s.floor := by
          cases hvi : v.init with
          | false => have := hg.2.2 hvi; omega
          | true => have := R.fl0 hvi; omega
        simp only [hc, Bool.false_eq_true, if_false, hf]
        repeat' split
        all_goals simp
      · have ha' : ev.authentic = false := by simpa using ha
        simp only [ha', Bool.not_false, if_true]
        exact ⟨by simp [outOf, allowedReq, reqOf, ha'], rel_keep R _ .rej400 rfl (by intro h; cases h)⟩
  · rw [if_neg hval]
    have hval' : (!v.init || !cfg.b12) = false := by simpa using hval
    have hsy : s.synced = false := by rw [R.synced]; exact hval'
    have hinit : v.init = true := by
      cases hi : v.init <;> simp [hi] at hval' ⊢
    by_cases ha : ev.authentic = true
    · simp only [ha, Bool.not_true, Bool.false_eq_true, if_false]
      cases he : ev.echo with
      | none =>
        exact ⟨by simp [outOf, allowedReq, reqOf, ha, he, hsy], rel_keep R _ .chal rfl (by intro h; cases h)⟩
      | bad =>
        exact ⟨by simp [outOf, allowedReq, reqOf, ha, he, hsy], rel_keep R _ .drop rfl (by intro h; cases h)⟩
      | good =>
        simp only []
        cases hv : vvalidate cfg v ev.piv with
        | none =>
          have := vvalidate_none_init hinit hv
          have hl : ev.piv ≥ ReplaySpec.SEQ_LIMIT := by omega
          exact ⟨by simp [outOf, allowedReq, reqOf, ha, he, hl, hsy], rel_keep R _ .rej401 rfl (by intro h; cases h)⟩
        | some v' =>
          obtain ⟨hv', hlt⟩ := vvalidate_init hinit hv
          subst hv'
          have hA := R.good.fresh hinit
          subst hA
          refine ⟨?_, [ev.piv], ?_⟩
          · simp only [outOf, allowedReq, reqOf, ha, he, hsy, Bool.not_true, Bool.false_eq_true, if_false, Bool.not_false,
              if_true]
            split <;> simp
          · simp only [outOf, next, reqOf, hsy, Bool.false_eq_true, if_false]
            refine ⟨good_floor hlt, fun h => (by cases h), ?_, ?_, by simp, fun h => (by cases h)⟩
            · intro q hq; exact Or.inl (by simp at hq; simp [hq])
            · intro q hq
              rcases List.mem_cons.mp hq with rfl | hq
              · exact List.mem_cons_self
              · exact absurd (R.acc q hq) (by simp)
    · have ha' : ev.authentic = false := by simpa using ha
      simp only [ha', Bool.not_false, if_true]
      exact ⟨by simp [outOf, allowedReq, reqOf, ha'], rel_keep R _ .rej400 rfl (by intro h; cases h)⟩

/-- One response of M is allowed by the specification monitor, and the relation is kept. -/
theorem vrecvRsp_conforms {cfg : Cfg} {v : View} {A : List Nat} {s : St} (x : Rsp) (R : Rel cfg v A s) :
    outOf (vrecvRsp cfg v x).2 ∈ allowedRsp cfg.window s (rspOf x) ∧
    ∃ A', Rel cfg (vrecvRsp cfg v x).1 A' (next s (.rsp (rspOf x)) (outOf (vrecvRsp cfg v x).2)) := by
  have hlim : ReplaySpec.SEQ_LIMIT = SEQ_MAX := by decide
  by_cases ha : x.authentic = true
  · cases hp : x.piv with
    | none =>
      have he : vrecvRsp cfg v x = (v, .acc) := by unfold vrecvRsp; simp [hp, ha]
      rw [he]
      refine ⟨by simp [outOf, allowedRsp, rspOf, ha, hp], A, ?_⟩
      have : next s (.rsp (rspOf x)) (outOf .acc) = s := by simp [outOf, next, rspOf, hp]
      rw [this]; exact R
    | some p =>
      -- `accept` is always allowed for an authentic response; `reject` needs a reason
      have hacc : Out.accept ∈ allowedRsp cfg.window s (rspOf x) := by
        simp only [allowedRsp, rspOf, ha, hp, Bool.not_true, Bool.false_eq_true, if_false]
        repeat' split
        all_goals simp
      by_cases hi : v.init = true
      · -- not validated: accepted unless last_seq has reached SEQ_MAX
        by_cases h1 : v.last ≥ SEQ_MAX
        · have he : vrecvRsp cfg v x = (v, .drop) := by unfold vrecvRsp; simp [hp, hi, h1]
          rw [he]
          refine ⟨?_, rel_keep R _ .drop rfl (by intro h; cases h)⟩
          have hm : v.last ∈ s.all := by
            rcases R.lastInit hi with h | h
            · have hsm : SEQ_MAX = 1099511627775 := rfl
              omega
            · exact h
          have hmax : maxOf s.all ≥ ReplaySpec.SEQ_LIMIT := by
            have := le_maxOf hm; omega
          simp only [outOf, allowedRsp, rspOf, ha, hp, Bool.not_true, Bool.false_eq_true, if_false]
          split
          · simp
          · simp [hmax]
        · have he : vrecvRsp cfg v x = (⟨true, if p > v.last then p else v.last, v.win⟩, .acc) := by
            unfold vrecvRsp; simp [hp, hi, h1, ha]
          rw [he]
          refine ⟨hacc, A, ?_⟩
          have hn : next s (.rsp (rspOf x)) (outOf .acc) = { s with seen := p :: s.seen } := by
            simp [outOf, next, rspOf, hp]
          rw [hn]
          have hA := R.good.fresh hi
          refine ⟨⟨fun _ => hA, fun h => (by cases h), fun h => (by cases h), fun h => (by cases h),
            fun h => (by cases h), fun h => (by cases h), fun h => (by cases h), fun h => (by cases h)⟩, fun _ => R.fl0 hi, ?_, ?_, ?_, ?_⟩
          · intro q hq; rw [hA] at hq; cases hq
          · exact R.acc
          · rw [R.synced, hi]
          · intro _
            dsimp only
            by_cases h2 : p > v.last
            · rw [if_pos h2]; right; unfold St.all; simp
            · rw [if_neg h2]
              rcases R.lastInit hi with h | h
              · exact Or.inl h
              · right
                rcases mem_all.mp h with h | h
                · exact mem_all.mpr (Or.inl h)
                · exact mem_all.mpr (Or.inr (List.mem_cons_of_mem _ h))
      · have hi' : v.init = false := by simpa using hi
        cases hv : vvalidate cfg v p with
        | none =>
          have he : vrecvRsp cfg v x = (v, .drop) := by unfold vrecvRsp; simp [hp, hi', hv]
          rw [he]
          refine ⟨?_, rel_keep R _ .drop rfl (by intro h; cases h)⟩
          simp only [outOf, allowedRsp, rspOf, ha, hp, Bool.not_true, Bool.false_eq_true, if_false]
          by_cases hc : p ∈ s.all
          · simp [hc]
          · by_cases hl : p ≥ ReplaySpec.SEQ_LIMIT ∨ maxOf s.all ≥ ReplaySpec.SEQ_LIMIT ∨ p < s.floor
            · simp [hc, hl]
            · by_cases hw : inWindow cfg.window s.all p = true
              · exfalso
                have hc' := fun h => hc (mem_all.mpr h)
                obtain ⟨v', hv'⟩ := rel_live R (fun h => hc' (Or.inl h)) (fun h => hc' (Or.inr h))
                  (fun h => hl (Or.inl h)) hw (by omega)
                rw [hv] at hv'; cases hv'
              · simp [hc, hl, hw]
        | some v1 =>
          rcases vrecvRsp_good (cfg := cfg) x R.good with ⟨p', v', hp', _, _, hv', he, hnot, g'⟩ | ⟨hno, _⟩
          · rw [hp] at hp'; cases hp'
            rw [hv] at hv'; cases hv'
            rw [he]
            refine ⟨hacc, p :: A, ?_⟩
            have hn : next s (.rsp (rspOf x)) (outOf .acc) = { s with seen := p :: s.seen } := by
              simp [outOf, next, rspOf, hp]
            rw [hn]
            have hi1 := vvalidate_init_false hv
            refine ⟨g', fun h => (by rw [hi1] at h; cases h), ?_, ?_, ?_, fun h => by rw [hi1] at h; cases h⟩
            · intro q hq
              rcases List.mem_cons.mp hq with rfl | hq
              · exact Or.inr List.mem_cons_self
              · rcases R.sub q hq with h | h
                · exact Or.inl h
                · exact Or.inr (List.mem_cons_of_mem _ h)
            · intro q hq; exact List.mem_cons_of_mem _ (R.acc q hq)
            · rw [R.synced, hi', hi1]
          · exfalso
            rcases hno with h | h | h
            · rw [hp] at h; cases h
            · exact hi h
            · -- validated, authentic and `vvalidate` succeeded: it is accepted
              have hg := vvalidate_good R.good hv
              have hi1 := vvalidate_init_false hv
              have hlt := hg.2.1.lt hi1
              have h1 : ¬ v1.last ≥ SEQ_MAX := by omega
              apply h
              unfold vrecvRsp
              simp [hp, hi', hv, h1, ha]
  · have ha' : x.authentic = false := by simpa using ha
    have he := vrecvRsp_forged (cfg := cfg) ha' (R.good.lt : Sane v)
    rw [he]
    exact ⟨by simp [outOf, allowedRsp, rspOf, ha'], rel_keep R _ .drop rfl (by intro h; cases h)⟩

theorem vstep_conforms {cfg : Cfg} {v : View} {A : List Nat} {s : St} (m : Msg) (R : Rel cfg v A s) :
    outOf (vstep cfg v m).2 ∈ allowed cfg.window s (msgOf m) ∧
    ∃ A', Rel cfg (vstep cfg v m).1 A' (next s (msgOf m) (outOf (vstep cfg v m).2)) := by
  cases m with
  | req e => exact vrecv_conforms e R
  | rsp x => exact vrecvRsp_conforms x R

theorem strace_conforms (cfg : Cfg) (ms : List Msg) : ∀ (r : Recip) (A : List Nat) (s : St), Rel cfg r.view A s →
    conforms cfg.window s (strace cfg r ms) := by
  induction ms with
  | nil => intro _ _ _ _; trivial
  | cons m ms ih =>
    intro r A s R
    obtain ⟨h1, A', h2⟩ := vstep_conforms (cfg := cfg) m R
    rw [← step_snd] at h1 h2
    rw [← step_fst_view] at h2
    simp only [strace, conforms]
    exact ⟨h1, ih _ A' _ h2⟩

/-- PIVs of the requests a trace reports as accepted. -/
def tracc : List (ReplaySpec.Msg × Out) → List Nat
  | [] => []
  | (.req q, o) :: t => (if o = .accept then [q.piv] else []) ++ tracc t
  | (.rsp _, _) :: t => tracc t

theorem tracc_strace (cfg : Cfg) (ms : List Msg) : ∀ r : Recip, tracc (strace cfg r ms) = accepted cfg r ms := by
  induction ms with
  | nil => intro _; rfl
  | cons m ms ih =>
    intro r
    cases m with
    | req e =>
      simp only [strace, msgOf, tracc, accepted, acceptedBy, ih, step]
      cases h : (recv cfg r e).2 <;> simp [outOf, reqOf]
    | rsp x =>
      simp only [strace, msgOf, tracc, accepted, acceptedBy, ih, List.nil_append]

theorem spec_nodup_aux (w : Nat) (t : List (ReplaySpec.Msg × Out)) : ∀ s : St, (s.synced = false → s.accepted = []) →
    conforms w s t → (tracc t).Nodup ∧ ∀ p ∈ tracc t, p ∉ s.accepted := by
  induction t with
  | nil => intro _ _ _; simp [tracc]
  | cons x t ih =>
    intro s hs hc
    obtain ⟨m, o⟩ := x
    simp only [conforms] at hc
    obtain ⟨hal, hc⟩ := hc
    cases m with
    | rsp x =>
      have hacc : (next s (.rsp x) o).accepted = s.accepted ∧ (next s (.rsp x) o).synced = s.synced := by
        cases o <;> (try exact ⟨rfl, rfl⟩)
        obtain ⟨a, p⟩ := x
        cases p <;> exact ⟨rfl, rfl⟩
      have := ih (next s (.rsp x) o) (by rw [hacc.1, hacc.2]; exact hs) hc
      rw [hacc.1] at this
      simpa [tracc] using this
    | req q =>
      by_cases ho : o = .accept
      · subst ho
        have hnot : q.piv ∉ s.accepted := by
          intro hm
          simp only [allowed] at hal
          unfold allowedReq at hal
          by_cases ha : q.authentic = true
          · simp only [ha, Bool.not_true, Bool.false_eq_true, if_false] at hal
            cases hsy : s.synced with
            | false => rw [hs hsy] at hm; cases hm
            | true =>
              simp [hsy, hm] at hal
          · simp [ha] at hal
        obtain ⟨nd, dis⟩ := ih (next s (.req q) .accept) (by simp [next]) hc
        simp only [tracc, if_true, List.singleton_append, List.nodup_cons]
        refine ⟨⟨fun hm => dis _ hm (by simp [next]), nd⟩, ?_⟩
        intro p hp
        rcases List.mem_cons.mp hp with rfl | hp
        · exact hnot
        · exact fun hA => dis p hp (by simp [next, hA])
      · have hn : next s (.req q) o = s := next_not_accept _ _ _ ho
        rw [hn] at hc
        simp only [tracc, ho, if_false, List.nil_append]
        exact ih s hs hc

end Conformance

/-! ### Histories of datagrams (ciphertext length, `stepD`) -/


/-- the messages of a datagram history that get past the `pdu->data == NULL` exit -/
def payloads : List Dgram → List Msg
  | [] => []
  | d :: ds => if d.clen = 0 then payloads ds else d.msg :: payloads ds

def finalD (cfg : Cfg) : Recip → List Dgram → Recip
  | r, [] => r
  | r, d :: ds => finalD cfg (stepD cfg r d).1 ds

/-- Partial IVs of the requests accepted in a history of datagrams. -/
def acceptedD (cfg : Cfg) : Recip → List Dgram → List Nat
  | _, [] => []
  | r, d :: ds =>
    (match d.msg with
      | .req e => if (stepD cfg r d).2 = .acc then [e.piv] else []
      | .rsp _ => []) ++ acceptedD cfg (stepD cfg r d).1 ds

theorem finalD_eq (cfg : Cfg) (ds : List Dgram) : ∀ r, finalD cfg r ds = final cfg r (payloads ds) := by
  induction ds with
  | nil => intro r; rfl
  | cons d ds ih =>
    intro r
    by_cases h : d.clen = 0
    · simp [finalD, payloads, stepD, h, ih]
    · simp [finalD, payloads, stepD, h, ih, final]

theorem acceptedD_eq (cfg : Cfg) (ds : List Dgram) : ∀ r, acceptedD cfg r ds = accepted cfg r (payloads ds) := by
  induction ds with
  | nil => intro r; rfl
  | cons d ds ih =>
    intro r
    by_cases h : d.clen = 0
    · cases hm : d.msg <;> simp [acceptedD, payloads, stepD, h, ih, hm]
    · cases hm : d.msg <;> simp [acceptedD, payloads, stepD, h, ih, hm, accepted, acceptedBy, step]


/-! ### Sender side of an endpoint: nonces -/

theorem recv_chal_decrypted {cfg : Cfg} {r : Recip} {ev : Ev} (h : (recv cfg r ev).2 = .chal) :
    decrypted cfg r ev = true := by
  unfold recv at h
  unfold decrypted
  dsimp only at h ⊢
  cases hv : (if (!r.init || !cfg.b12) = true then validate cfg r ev.piv else VRes.ok r) with
  | ub => rw [hv] at h; cases h
  | rej r1 => rw [hv] at h; cases h
  | ok r1 =>
    rw [hv] at h
    dsimp only at h ⊢
    cases ha : ev.authentic with
    | true => rfl
    | false => simp [ha] at h

/-! ### Restarts: lives of a recipient context with Appendix B.1.2 -/

theorem vrecvRsp_init (cfg : Cfg) (v : View) (x : Rsp) : (vrecvRsp cfg v x).1.init = v.init := by
  unfold vrecvRsp
  cases hp : x.piv with
  | none => dsimp only; split <;> rfl
  | some p =>
    dsimp only
    cases hi : v.init with
    | true =>
      simp only [if_true]
      split
      · exact hi
      · split
        · exact hi
        · rfl
    | false =>
      simp only [Bool.false_eq_true, if_false]
      cases hv : vvalidate cfg v p with
      | none => exact hi
      | some v1 =>
        dsimp only
        split
        · exact vvalidate_init_false hv
        · split
          · exact hi
          · rfl

/-- With Appendix B.1.2, in a state consistent with the floor `F`: every request accepted in a history lies at or above
the floor once the window is initialised; before that, at or above the Partial IV of a request of that history that
carried the recipient's current Echo value (the one that completed the exchange). -/
theorem accepted_above_floor (cfg : Cfg) (hb : cfg.b12 = true) (ms : List Msg) : ∀ (r : Recip) (A : List Nat) (F : Nat),
    Good r.view A F → ∀ p ∈ accepted cfg r ms,
      (r.init = false → F ≤ p) ∧ (r.init = true → ∃ ev, Msg.req ev ∈ ms ∧ ev.echo = .good ∧ ev.piv ≤ p) := by
  induction ms with
  | nil => intro _ _ _ _ p hp; simp [accepted] at hp
  | cons m ms ih =>
    intro r A F g p hp
    simp only [accepted] at hp
    cases m with
    | req e =>
      simp only [acceptedBy, step] at hp
      rcases recv_good (cfg := cfg) e g with ⟨hacc, _, _, g', hF, hE, hinit⟩ | ⟨hacc, _, hview⟩
      · simp only [hacc, if_true, List.singleton_append, List.mem_cons] at hp
        rcases hp with rfl | hp
        · exact ⟨hF, fun hi => ⟨e, List.mem_cons_self, hE hi hb, Nat.le_refl _⟩⟩
        · have h1 := (ih _ _ _ g' p hp).1 hinit
          constructor
          · intro hi
            have hv : r.view.init = false := hi
            simpa [vfloor, hv] using h1
          · intro hi
            have hv : r.view.init = true := hi
            refine ⟨e, List.mem_cons_self, hE hi hb, ?_⟩
            simpa [vfloor, hv, hb] using h1
      · simp only [hacc, if_false, List.nil_append] at hp
        have g' : Good (recv cfg r e).1.view A F := by rw [hview]; exact g
        have hi' : (recv cfg r e).1.init = r.init := congrArg View.init hview
        obtain ⟨h1, h2⟩ := ih _ _ _ g' p hp
        rw [hi'] at h1 h2
        exact ⟨h1, fun hi => by
          obtain ⟨ev, hm, he, hle⟩ := h2 hi
          exact ⟨ev, List.mem_cons_of_mem _ hm, he, hle⟩⟩
    | rsp x =>
      simp only [acceptedBy, step, List.nil_append] at hp
      have g' := (step_good (cfg := cfg) (.rsp x) g).2
      simp only [step, floorStep] at g'
      have hi' : (recvRsp cfg r x).1.init = r.init := by
        have := recvRsp_fst_view cfg r x
        have h2 : (recvRsp cfg r x).1.view.init = (vrecvRsp cfg r.view x).1.init := by rw [this]
        rw [vrecvRsp_init] at h2
        exact h2
      obtain ⟨h1, h2⟩ := ih _ _ _ g' p hp
      rw [hi'] at h1 h2
      exact ⟨h1, fun hi => by
        obtain ⟨ev, hm, he, hle⟩ := h2 hi
        exact ⟨ev, List.mem_cons_of_mem _ hm, he, hle⟩⟩

/-- the requests accepted over several lives of a recipient context: every life starts from a fresh context -/
def acceptedLives (cfg : Cfg) : List (List Msg) → List Nat
  | [] => []
  | l :: ls => accepted cfg Recip.fresh l ++ acceptedLives cfg ls

/-- the Echo exchange is fresh: a request that carries the current Echo value of a life was protected by the peer after
that life began, so (sender sequence numbers increase) its Partial IV is above everything accepted in earlier lives -/
def EchoFresh (cfg : Cfg) : List Nat → List (List Msg) → Prop
  | _, [] => True
  | old, l :: ls => (∀ ev, Msg.req ev ∈ l → ev.echo = .good → ∀ q ∈ old, q < ev.piv) ∧
      EchoFresh cfg (old ++ accepted cfg Recip.fresh l) ls

theorem acceptedLives_nodup (cfg : Cfg) (hb : cfg.b12 = true) (ls : List (List Msg)) : ∀ old : List Nat,
    EchoFresh cfg old ls → (acceptedLives cfg ls).Nodup ∧ ∀ p ∈ acceptedLives cfg ls, p ∉ old := by
  induction ls with
  | nil => intro _ _; simp [acceptedLives]
  | cons l ls ih =>
    intro old hf
    obtain ⟨hl, hrest⟩ := hf
    obtain ⟨nd, dis⟩ := ih _ hrest
    have hnd1 : (accepted cfg Recip.fresh l).Nodup :=
      (recorded_nodup_aux cfg l Recip.fresh [] 0 (good_fresh 0)).1.sublist (accepted_sublist cfg l _)
    have habove : ∀ p ∈ accepted cfg Recip.fresh l, p ∉ old := by
      intro p hp hold
      obtain ⟨ev, hm, he, hle⟩ := (accepted_above_floor cfg hb l Recip.fresh [] 0 (good_fresh 0) p hp).2 rfl
      have := hl ev hm he p hold
      omega
    simp only [acceptedLives]
    refine ⟨?_, ?_⟩
    · rw [List.nodup_append]
      exact ⟨hnd1, nd, fun a ha b hb' hab => dis b hb' (by rw [← hab]; exact List.mem_append_right _ ha)⟩
    · intro p hp
      rcases List.mem_append.mp hp with hp | hp
      · exact habove p hp
      · exact fun hold => dis p hp (List.mem_append_left _ hold)


end Coap.Replay
