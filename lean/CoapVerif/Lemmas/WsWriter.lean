import CoapVerif.Model.WsWriter
import CoapVerif.Spec.WsFrame
import CoapVerif.Lemmas.StreamWsFeed
/- C01, WebSocket write side: what `coap_ws_write` hands to the lower layer is one RFC 6455 frame
   (`Spec.WsFrame.decode`), and the receiver specification of C05 (`Spec.Stream.Ws.frames`) reads it back. -/
namespace Coap
open Coap.M.WsW Coap.Spec.Stream Coap.Spec.Stream.Ws

namespace WsW

/-! ### masking -/

theorem xor_cancel (b k : UInt8) : (b ^^^ k) ^^^ k = b := by
  rw [UInt8.xor_assoc, UInt8.xor_self, UInt8.xor_zero]

theorem unmask_maskData (key : Bytes) : ∀ (d : Bytes) (i : Nat), unmask key i (maskData key i d) = d := by
  intro d
  induction d with
  | nil => intro i; rfl
  | cons b r ih => intro i; simp only [maskData, unmask, ih, xor_cancel]

theorem maskData_length (key : Bytes) : ∀ (d : Bytes) (i : Nat), (maskData key i d).length = d.length := by
  intro d
  induction d with
  | nil => intro i; rfl
  | cons b r ih => intro i; simp only [maskData, List.length_cons, ih]

/-- octet `j` of the masked payload is octet `j` of the payload XOR key[(i + j) mod 4] -/
theorem maskData_get (key : Bytes) : ∀ (d : Bytes) (i j : Nat),
    (maskData key i d)[j]? = d[j]?.map (· ^^^ key.getD ((i + j) % 4) 0) := by
  intro d
  induction d with
  | nil => intro i j; rfl
  | cons b r ih =>
    intro i j
    cases j with
    | zero => simp [maskData]
    | succ j =>
      simp only [maskData, List.getElem?_cons_succ, ih]
      rw [show i + 1 + j = i + (j + 1) by omega]

/-! ### the length field -/

theorem u8_toNat (n : Nat) : (u8 n).toNat = n % 256 := by
  unfold u8; rw [UInt8.toNat_ofNat']

theorem be2 (a b : UInt8) : be [a, b] = a.toNat * 256 + b.toNat := by
  simp [be]

theorem be8 (a b c d e f g h : UInt8) : be [a, b, c, d, e, f, g, h] =
    ((((((a.toNat * 256 + b.toNat) * 256 + c.toNat) * 256 + d.toNat) * 256 + e.toNat) * 256 + f.toNat) * 256 +
      g.toNat) * 256 + h.toNat := by
  simp [be]

/-- the three forms: (7-bit value, extension bytes) with the number the extension bytes denote -/
theorem lenField_cases (n : Nat) (h : n < 2 ^ 64) :
    (n ≤ 125 ∧ ((lenField n).1).toNat = n ∧ (lenField n).2 = []) ∨
    (125 < n ∧ n ≤ 65535 ∧ ((lenField n).1).toNat = 126 ∧ ((lenField n).2).length = 2 ∧ be (lenField n).2 = n) ∨
    (65535 < n ∧ ((lenField n).1).toNat = 127 ∧ ((lenField n).2).length = 8 ∧ be (lenField n).2 = n) := by
  by_cases h1 : n ≤ 125
  · left
    refine ⟨h1, ?_, ?_⟩
    · simp only [lenField, if_pos h1]; rw [u8_toNat]; omega
    · simp only [lenField, if_pos h1]
  · by_cases h2 : n ≤ 0xffff
    · right; left
      refine ⟨by omega, by omega, ?_, ?_, ?_⟩
      · simp only [lenField, if_neg h1, if_pos h2]; rfl
      · simp only [lenField, if_neg h1, if_pos h2]; rfl
      · simp only [lenField, if_neg h1, if_pos h2]
        rw [be2, u8_toNat, u8_toNat]; omega
    · right; right
      refine ⟨by omega, ?_, ?_, ?_⟩
      · simp only [lenField, if_neg h1, if_neg h2]; rfl
      · simp only [lenField, if_neg h1, if_neg h2]; rfl
      · simp only [lenField, if_neg h1, if_neg h2]
        rw [be8]
        simp only [u8_toNat]
        omega

theorem or80 (l : UInt8) (h : l.toNat < 128) : (l ||| 0x80).toNat = l.toNat + 128 := by
  rw [UInt8.toNat_or]
  have : ∀ n : Nat, n < 128 → n ||| 128 = n + 128 := by decide
  exact this _ h

/-- the second header byte -/
def b1Of (role : Role) (n : Nat) : UInt8 :=
  match role with
  | .client => (lenField n).1 ||| 0x80
  | .server => (lenField n).1

theorem lenField_lt (n : Nat) (h : n < 2 ^ 64) : ((lenField n).1).toNat < 128 := by
  rcases lenField_cases n h with ⟨h1, h2, _⟩ | ⟨_, _, h2, _⟩ | ⟨_, h2, _⟩ <;> omega

theorem b1Of_toNat (role : Role) (n : Nat) (h : n < 2 ^ 64) :
    (b1Of role n).toNat = ((lenField n).1).toNat + (if role = .client then 128 else 0) := by
  cases role
  · simp only [b1Of, if_true]; exact or80 _ (lenField_lt n h)
  · simp [b1Of]

/-- the key bytes that go into the header -/
def keyOf (role : Role) (key : Bytes) : Bytes :=
  match role with
  | .client => key
  | .server => []

/-- the payload bytes as they go onto the wire -/
def bodyOf (role : Role) (key data : Bytes) : Bytes := bodyBytes role key 0 data

theorem frame_shape (role : Role) (key data rest : Bytes) :
    frame role key data ++ rest =
      (0x82 : UInt8) :: b1Of role data.length :: ((lenField data.length).2 ++ (keyOf role key ++ (bodyOf role key data ++ rest))) := by
  cases role <;> simp [frame, header, b1Of, keyOf, bodyOf] <;> rfl

theorem bodyOf_length (role : Role) (key data : Bytes) : (bodyOf role key data).length = data.length := by
  cases role
  · exact maskData_length key data 0
  · rfl

/-! ### one frame under the RFC 6455 grammar -/

theorem len2 (l : Bytes) (h : l.length = 2) : ∃ a b, l = [a, b] := by
  match l, h with
  | [a, b], _ => exact ⟨a, b, rfl⟩

theorem len4 (l : Bytes) (h : l.length = 4) : ∃ a b c d, l = [a, b, c, d] := by
  match l, h with
  | [a, b, c, d], _ => exact ⟨a, b, c, d, rfl⟩

theorem len8 (l : Bytes) (h : l.length = 8) : ∃ a b c d e f g i, l = [a, b, c, d, e, f, g, i] := by
  match l, h with
  | [a, b, c, d, e, f, g, i], _ => exact ⟨a, b, c, d, e, f, g, i, rfl⟩

theorem take_len (body rest : Bytes) : (body ++ rest).take body.length = body := List.take_left' rfl
theorem drop_len (body rest : Bytes) : (body ++ rest).drop body.length = rest := List.drop_left' rfl

open Coap.Spec.WsFrame in
/-- a header in one of the three minimal length forms, the key iff MASK, `body`, then `rest`: one frame -/
theorem decode_build (b0 b1 : UInt8) (ext kk body rest : Bytes)
    (hcase : (b1.toNat % 128 ≠ 126 ∧ b1.toNat % 128 ≠ 127 ∧ ext = [] ∧ b1.toNat % 128 = body.length) ∨
             (b1.toNat % 128 = 126 ∧ ext.length = 2 ∧ be ext = body.length ∧ 125 < body.length) ∨
             (b1.toNat % 128 = 127 ∧ ext.length = 8 ∧ be ext = body.length ∧ 65535 < body.length ∧ body.length < 2 ^ 63))
    (hk : kk.length = if b1.toNat / 128 = 1 then 4 else 0) :
    decode (b0 :: b1 :: (ext ++ (kk ++ (body ++ rest)))) =
      some (⟨b0.toNat / 128 = 1, b0.toNat / 16 % 8, b0.toNat % 16, b1.toNat / 128 = 1, kk,
             if b1.toNat / 128 = 1 then unmask kk 0 body else body⟩, rest) := by
  by_cases hm : b1.toNat / 128 = 1
  · rw [if_pos hm] at hk
    obtain ⟨k0, k1, k2, k3, rfl⟩ := len4 kk hk
    rcases hcase with ⟨e1, e2, rfl, hb⟩ | ⟨e, hx, hbe, hmin⟩ | ⟨e, hx, hbe, hmin, hmax⟩
    · rw [hb] at e1 e2
      simp [decode, e1, e2, hm, hb, take_len, drop_len]
    · obtain ⟨x0, x1, rfl⟩ := len2 ext hx
      simp [decode, e, hm, hbe, take_len, drop_len]
      omega
    · obtain ⟨x0, x1, x2, x3, x4, x5, x6, x7, rfl⟩ := len8 ext hx
      simp [decode, e, hm, hbe, take_len, drop_len]
      omega
  · rw [if_neg hm] at hk
    have := List.eq_nil_of_length_eq_zero hk
    subst this
    rcases hcase with ⟨e1, e2, rfl, hb⟩ | ⟨e, hx, hbe, hmin⟩ | ⟨e, hx, hbe, hmin, hmax⟩
    · rw [hb] at e1 e2
      simp [decode, e1, e2, hm, hb, take_len, drop_len]
    · obtain ⟨x0, x1, rfl⟩ := len2 ext hx
      simp [decode, e, hm, hbe, take_len, drop_len]
      omega
    · obtain ⟨x0, x1, x2, x3, x4, x5, x6, x7, rfl⟩ := len8 ext hx
      simp [decode, e, hm, hbe, take_len, drop_len]
      omega

theorem b1Of_mod (role : Role) (n : Nat) (h : n < 2 ^ 64) : (b1Of role n).toNat % 128 = ((lenField n).1).toNat := by
  have h1 := b1Of_toNat role n h
  have h2 := lenField_lt n h
  cases role <;> simp at h1 <;> omega

theorem b1Of_div (role : Role) (n : Nat) (h : n < 2 ^ 64) : (b1Of role n).toNat / 128 = 1 ↔ role = .client := by
  have h1 := b1Of_toNat role n h
  have h2 := lenField_lt n h
  cases role <;> simp at h1 ⊢ <;> omega

theorem keyOf_length (role : Role) (key : Bytes) (n : Nat) (hk : key.length = 4) (h : n < 2 ^ 64) :
    (keyOf role key).length = if (b1Of role n).toNat / 128 = 1 then 4 else 0 := by
  have := b1Of_div role n h
  cases role
  · rw [if_pos (this.2 rfl)]; exact hk
  · rw [if_neg (fun hh => by cases this.1 hh)]; rfl

theorem unmask_bodyOf (role : Role) (key data : Bytes) :
    (if role = .client then unmask (keyOf role key) 0 (bodyOf role key data) else bodyOf role key data) = data := by
  cases role
  · simp only [if_true, keyOf, bodyOf]; exact unmask_maskData key data 0
  · simp [bodyOf, bodyBytes]

open Coap.Spec.WsFrame in
/-- what coap_ws_write hands to the lower layer is ONE frame: FIN, no RSV bit, binary, MASK iff client, the
minimal length form (the decoder refuses any other), and the application data is the payload -/
theorem decode_frame (role : Role) (key data rest : Bytes) (hk : key.length = 4) (hn : data.length < 2 ^ 63) :
    decode (frame role key data ++ rest) =
      some (⟨true, 0, 2, role = .client, keyOf role key, data⟩, rest) := by
  have h64 : data.length < 2 ^ 64 := by omega
  have hbl := bodyOf_length role key data
  have hmod := b1Of_mod role data.length h64
  have hcase : ((b1Of role data.length).toNat % 128 ≠ 126 ∧ (b1Of role data.length).toNat % 128 ≠ 127 ∧
        (lenField data.length).2 = [] ∧ (b1Of role data.length).toNat % 128 = (bodyOf role key data).length) ∨
      ((b1Of role data.length).toNat % 128 = 126 ∧ ((lenField data.length).2).length = 2 ∧
        be (lenField data.length).2 = (bodyOf role key data).length ∧ 125 < (bodyOf role key data).length) ∨
      ((b1Of role data.length).toNat % 128 = 127 ∧ ((lenField data.length).2).length = 8 ∧
        be (lenField data.length).2 = (bodyOf role key data).length ∧ 65535 < (bodyOf role key data).length ∧
        (bodyOf role key data).length < 2 ^ 63) := by
    rw [hmod, hbl]
    rcases lenField_cases data.length h64 with ⟨h1, h2, h3⟩ | ⟨h0, h1, h2, h3, h4⟩ | ⟨h1, h2, h3, h4⟩
    · left; exact ⟨by omega, by omega, h3, h2⟩
    · right; left; exact ⟨h2, h3, h4, h0⟩
    · right; right; exact ⟨h2, h3, h4, h1, hn⟩
  rw [frame_shape, decode_build _ _ _ _ _ _ hcase (keyOf_length role key data.length hk h64)]
  have hd := b1Of_div role data.length h64
  have hdd : decide ((b1Of role data.length).toNat / 128 = 1) = decide (role = .client) := by
    cases role <;> simp [hd]
  have hif : (if (b1Of role data.length).toNat / 128 = 1 then unmask (keyOf role key) 0 (bodyOf role key data)
      else bodyOf role key data) = data := by
    cases role
    · rw [if_pos (hd.2 rfl)]; exact unmask_maskData key data 0
    · rw [if_neg (fun hh => by cases hd.1 hh)]; rfl
  rw [hif, hdd]
  rfl

def readerMode : Role → Mode
  | .client => .server
  | .server => .client

/-- the receiver specification of C05 on a written frame followed by `rest`: the payload as one message (an empty
payload: no message), then whatever `rest` holds -/
theorem frOf_written (role : Role) (key data rest : Bytes) (hk : key.length = 4) (hn : data.length ≤ maxFrame) :
    frOf (readerMode role) (frame role key data ++ rest) =
      ((if data.length = 0 then (frOf (readerMode role) rest).1
        else deliver (Spec.decode .ws data) (frOf (readerMode role) rest).1), (frOf (readerMode role) rest).2) := by
  have h64 : data.length < 2 ^ 64 := by unfold maxFrame at hn; omega
  have hbl := bodyOf_length role key data
  have hmod := b1Of_mod role data.length h64
  have hd := b1Of_div role data.length h64
  have hkl := keyOf_length role key data.length hk h64
  have hext : hExt (b1Of role data.length).toNat = ((lenField data.length).2).length ∧
      hSize (b1Of role data.length).toNat ((lenField data.length).2 ++ keyOf role key) = data.length := by
    unfold hSize hExt
    rw [hmod]
    rcases lenField_cases data.length h64 with ⟨h1, h2, h3⟩ | ⟨h0, h1, h2, h3, h4⟩ | ⟨h1, h2, h3, h4⟩
    · have e1 : ¬ ((lenField data.length).1).toNat = 127 := by omega
      have e2 : ¬ ((lenField data.length).1).toNat = 126 := by omega
      rw [h2] at e1 e2
      simp [e1, e2, h3, h2]
    · simp [h2, h3, h4, List.take_left' h3]
    · simp [h2, h3, h4, List.take_left' h3]
  have hr : ((lenField data.length).2 ++ keyOf role key).length = hExtra (b1Of role data.length).toNat := by
    unfold hExtra
    rw [List.length_append, hext.1, hkl]
  have hm : ¬ (readerMode role = .server ∧ ¬ (b1Of role data.length).toNat / 128 = 1) := by
    cases role
    · intro h; exact h.2 (hd.2 rfl)
    · intro h; cases h.1
  have hop : (0x82 : UInt8).toNat % 16 = 2 := by decide
  rw [frame_shape, ← List.append_assoc, frOf_frame _ _ _ _ _ hr hm hop (by rw [hext.2]; exact hn), hext.2]
  have hnl : ¬ (bodyOf role key data ++ rest).length < data.length := by rw [List.length_append, hbl]; omega
  rw [if_neg hnl]
  have ht : (bodyOf role key data ++ rest).take data.length = bodyOf role key data := List.take_left' hbl
  have hdr : (bodyOf role key data ++ rest).drop data.length = rest := List.drop_left' hbl
  rw [ht, hdr]
  have hpl : (if readerMode role = .server then
      unmask (((lenField data.length).2 ++ keyOf role key).drop (hExt (b1Of role data.length).toNat) |>.take 4) 0
        (bodyOf role key data) else bodyOf role key data) = data := by
    cases role
    · have : (((lenField data.length).2 ++ keyOf .client key).drop (hExt (b1Of .client data.length).toNat)).take 4 = key := by
        rw [hext.1, List.drop_left' rfl]; simp [keyOf, ← hk]
      simp only [readerMode, if_true, this, bodyOf]; exact unmask_maskData key data 0
    · simp [readerMode, bodyOf, bodyBytes]
  rw [hpl]

/-! ### several messages back to back -/

/-- the frame S's grammar sees for one written message -/
def frameOf (role : Role) (m : Bytes × Bytes) : Spec.WsFrame.Frame := ⟨true, 0, 2, role = .client, keyOf role m.1, m.2⟩

theorem frame_ne_nil (role : Role) (key data rest : Bytes) : frame role key data ++ rest ≠ [] := by
  rw [frame_shape]; exact List.cons_ne_nil _ _

open Coap.Spec.WsFrame in
theorem decodeAll_writeAll (role : Role) : ∀ (msgs : List (Bytes × Bytes)) (fuel : Nat), msgs.length < fuel →
    (∀ m ∈ msgs, m.1.length = 4) → (∀ m ∈ msgs, m.2.length < 2 ^ 63) →
    decodeAll fuel (writeAll role msgs) = some (msgs.map (frameOf role)) := by
  intro msgs
  induction msgs with
  | nil =>
    intro fuel hf _ _
    obtain ⟨f, rfl⟩ : ∃ k, fuel = k + 1 := ⟨fuel - 1, by simp at hf; omega⟩
    rfl
  | cons m ms ih =>
    intro fuel hf hk hn
    obtain ⟨f, rfl⟩ : ∃ k, fuel = k + 1 := ⟨fuel - 1, by simp at hf; omega⟩
    obtain ⟨key, data⟩ := m
    have hne := frame_ne_nil role key data (writeAll role ms)
    have hd := decode_frame role key data (writeAll role ms) (hk _ (List.mem_cons_self ..)) (hn _ (List.mem_cons_self ..))
    have ih' := ih f (by simp at hf; omega) (fun m hm => hk m (List.mem_cons_of_mem _ hm))
      (fun m hm => hn m (List.mem_cons_of_mem _ hm))
    simp only [writeAll]
    generalize frame role key data ++ writeAll role ms = bs at hne hd
    match bs, hne with
    | b :: r, _ =>
      simp only [decodeAll, hd, ih', Option.map_some, List.map_cons, frameOf]

/-- the messages the receiver specification of C05 delivers for the written payloads: an empty payload carries no
message, a payload that is not a CoAP message is dropped (C05 D15) -/
def delivered : List (Bytes × Bytes) → List Msg
  | [] => []
  | m :: ms => if m.2.length = 0 then delivered ms else deliver (Spec.decode .ws m.2) (delivered ms)

theorem frOf_writeAll (role : Role) (rest : Bytes) : ∀ (msgs : List (Bytes × Bytes)),
    (∀ m ∈ msgs, m.1.length = 4) → (∀ m ∈ msgs, m.2.length ≤ maxFrame) →
    frOf (readerMode role) (writeAll role msgs ++ rest) =
      (delivered msgs ++ (frOf (readerMode role) rest).1, (frOf (readerMode role) rest).2) := by
  intro msgs
  induction msgs with
  | nil => intro _ _; rfl
  | cons m ms ih =>
    intro hk hn
    obtain ⟨key, data⟩ := m
    have ih' := ih (fun m hm => hk m (List.mem_cons_of_mem _ hm)) (fun m hm => hn m (List.mem_cons_of_mem _ hm))
    simp only [writeAll, List.append_assoc]
    rw [frOf_written role key data _ (hk _ (List.mem_cons_self ..)) (hn _ (List.mem_cons_self ..)), ih']
    simp only [delivered]
    by_cases h0 : data.length = 0
    · simp only [h0, if_true]
    · simp only [h0, if_false]
      cases Spec.decode .ws data <;> rfl

/-- M's reader (coap_ws_read / coap_read_session, role opposite to the writer's, handshake done) fed the written
bytes in ANY chunks -/
theorem feed_writeAll (role : Role) (accept : Bytes) (msgs : List (Bytes × Bytes)) (chunks : List Bytes)
    (hk : ∀ m ∈ msgs, m.1.length = 4) (hn : ∀ m ∈ msgs, m.2.length ≤ maxFrame)
    (hc : chunks.flatten = writeAll role msgs) :
    wsObs (Coap.M.Ws.feed (readerMode role) accept { up := true } chunks) = (delivered msgs, .open true) := by
  have hinv : WsInv (readerMode role) { up := true } (.fr []) := Or.inl ⟨⟨rfl, rfl, rfl, rfl⟩, trivial⟩
  have := wsObs_of_post (readerMode role) _ _ (feed_spec (readerMode role) accept chunks { up := true } (.fr []) hinv)
  rw [this]
  have hf := frOf_writeAll role [] msgs hk hn
  rw [List.append_nil] at hf
  simp only [specFrom, frRes, List.nil_append, hc]
  unfold frOf at hf
  rw [hf]
  simp [specObs]
  exact ⟨rfl, rfl⟩

/-! ### coap_ws_write / coap_ws_close as a whole -/

theorem frame_length (role : Role) (key data : Bytes) :
    (frame role key data).length = (header role key data.length).length + data.length := by
  unfold frame
  rw [List.length_append]
  cases role
  · simp only [bodyBytes, maskData_length]
  · rfl

theorem maskData_drop (key : Bytes) : ∀ (d : Bytes) (i j : Nat),
    (maskData key i d).drop j = maskData key (i + j) (d.drop j) := by
  intro d
  induction d with
  | nil => intro i j; simp [maskData]
  | cons b r ih =>
    intro i j
    cases j with
    | zero => simp
    | succ j =>
      simp only [maskData, List.drop_succ_cons]
      rw [ih (i + 1) j, show i + 1 + j = i + (j + 1) by omega]

/-- length of the frame header / of the frame -/
def hLen (role : Role) (key data : Bytes) : Nat := (header role key data.length).length
def fLen (role : Role) (key data : Bytes) : Nat := (frame role key data).length

theorem fLen_eq (role : Role) (key data : Bytes) : fLen role key data = hLen role key data + data.length :=
  frame_length role key data

theorem hLen_ge (role : Role) (key data : Bytes) : 2 ≤ hLen role key data := by
  unfold hLen header; cases role <;> simp <;> omega

theorem frame_eq (role : Role) (key data : Bytes) :
    frame role key data = header role key data.length ++ bodyOf role key data := by
  cases role <;> rfl

/-- `&tx_header[tx_hdr_len - 4]` is the key -/
theorem header_key (key : Bytes) (n : Nat) (hk : key.length = 4) :
    (header .client key n).drop ((header .client key n).length - 4) = key := by
  have : (header .client key n).length - 4 = ((0x80 ||| 0x02 : UInt8) :: ((lenField n).1 ||| 0x80) :: (lenField n).2).length := by
    simp [header, hk]
  rw [this]
  exact List.drop_left' rfl

/-- the writer state when `n` bytes of the frame for (`key`, `data`) have been taken by the lower layer: `n = 0` -
nothing of a frame is part way (a new frame will be started); `0 < n` - the stored header is this frame's and the
counters say where in the frame the writer is -/
def Rep (st : St) (key data : Bytes) (n : Nat) : Prop :=
  st.up = true ∧ st.sentClose = false ∧ n ≤ fLen st.role key data ∧
  (n = 0 → st.txHdrOfs = 0 ∨ (st.txHdrOfs = st.txHdr.length ∧ st.txDataLeft = 0)) ∧
  (0 < n → st.txHdr = header st.role key data.length ∧ st.txHdrOfs = min n (hLen st.role key data) ∧
     st.txDataOfs = n - hLen st.role key data ∧ st.txDataLeft = data.length - (n - hLen st.role key data))

/-- the bytes a call offers, in the state that has `n` bytes of the frame out -/
theorem offered_eq (role : Role) (key data : Bytes) (n : Nat) (hk : key.length = 4) :
    (header role key data.length).drop (min n (hLen role key data)) ++
      bodyBytes role ((header role key data.length).drop ((header role key data.length).length - 4))
                      (n - hLen role key data) (data.drop (n - hLen role key data)) = (frame role key data).drop n := by
  rw [frame_eq, List.drop_append]
  have hb : bodyBytes role ((header role key data.length).drop ((header role key data.length).length - 4))
                      (n - hLen role key data) (data.drop (n - hLen role key data)) =
      (bodyOf role key data).drop (n - hLen role key data) := by
    cases role
    · simp only [bodyOf, bodyBytes]; rw [header_key key _ hk, maskData_drop, Nat.zero_add]
    · rfl
  rw [hb]
  unfold hLen
  by_cases h : n ≤ (header role key data.length).length
  · rw [Nat.min_eq_left h]
  · have e1 : (header role key data.length).drop (header role key data.length).length = [] :=
      List.drop_of_length_le (Nat.le_refl _)
    have e2 : (header role key data.length).drop n = [] := List.drop_of_length_le (by omega)
    rw [Nat.min_eq_right (by omega), e1, e2]

/-- ONE call of coap_ws_write in the state that has `n` bytes of the frame for (`key`, `data`) out, handed the data
not yet taken, the lower layer accepting `k = lw(offered)` bytes: it offers exactly the rest of the frame, the wire gets
its first `k` bytes, the state is the one for `n + k`, and the return value is the number of PAYLOAD bytes among them -/
theorem wsWrite_step (st : St) (key data : Bytes) (n : Nat) (lw : Nat → Int) (hk : key.length = 4)
    (hrep : Rep st key data n) (hn : n < fLen st.role key data)
    (hlw : lw (fLen st.role key data - n) ≤ ((fLen st.role key data - n : Nat) : Int)) :
    (wsWrite st key (data.drop (n - hLen st.role key data)) lw).2.2 =
        ((frame st.role key data).drop n).take (lw (fLen st.role key data - n)).toNat ∧
    Rep (wsWrite st key (data.drop (n - hLen st.role key data)) lw).2.1 key data
        (n + (lw (fLen st.role key data - n)).toNat) ∧
    (wsWrite st key (data.drop (n - hLen st.role key data)) lw).2.1.role = st.role ∧
    (lw (fLen st.role key data - n) < 0 →
      (wsWrite st key (data.drop (n - hLen st.role key data)) lw).1 = lw (fLen st.role key data - n)) ∧
    (0 ≤ lw (fLen st.role key data - n) →
      (wsWrite st key (data.drop (n - hLen st.role key data)) lw).1 =
        (((n + (lw (fLen st.role key data - n)).toNat - hLen st.role key data) - (n - hLen st.role key data) : Nat) : Int)) := by
  obtain ⟨hup, hsc, hle, h0, hpos⟩ := hrep
  have hF := fLen_eq st.role key data
  have hH := hLen_ge st.role key data
  have hoff := offered_eq st.role key data n hk
  have hdl : ((frame st.role key data).drop n).length = fLen st.role key data - n := by
    rw [List.length_drop]; rfl
  by_cases hz : n = 0
  · subst hz
    have hfresh : (decide (st.txHdrOfs = 0) || (decide (st.txHdrOfs = st.txHdr.length) && decide (st.txDataLeft = 0))) = true := by
      rcases h0 rfl with h | ⟨h1, h2⟩
      · simp [h]
      · simp [h1, h2]
    simp only [Nat.zero_sub, List.drop_zero, Nat.zero_min] at hoff ⊢
    unfold wsWrite
    simp only [hup, hsc, hfresh, Bool.not_true, Bool.false_eq_true, if_false, if_true, Bool.false_and, List.drop_zero]
    rw [hoff]
    have hfl : (frame st.role key data).length = fLen st.role key data := rfl
    have hhl : (header st.role key data.length).length = hLen st.role key data := rfl
    rw [hfl, hhl]
    simp only [Nat.sub_zero] at hlw ⊢
    generalize lw (fLen st.role key data) = ret at hlw ⊢
    by_cases hr : ret ≤ 0
    · have ht : ret.toNat = 0 := by omega
      simp only [hr, if_true, ht, List.take_zero, Nat.add_zero, Nat.zero_sub]
      refine ⟨trivial, ?_, trivial, fun _ => trivial, fun h => ?_⟩
      · exact ⟨rfl, rfl, Nat.zero_le _, fun _ => Or.inl rfl, fun h => absurd h (Nat.lt_irrefl 0)⟩
      · omega
    · simp only [hr, if_false]
      by_cases hh : ret.toNat < hLen st.role key data
      · simp only [hh, if_true]
        refine ⟨trivial, ?_, trivial, fun h => by omega, fun _ => ?_⟩
        · refine ⟨rfl, rfl, ?_, fun h => by omega, fun _ => ⟨rfl, ?_, ?_, ?_⟩⟩ <;> simp only [] <;> omega
        · omega
      · simp only [hh, if_false]
        refine ⟨trivial, ?_, trivial, fun h => by omega, fun _ => ?_⟩
        · refine ⟨rfl, rfl, ?_, fun h => by omega, fun _ => ⟨rfl, ?_, ?_, ?_⟩⟩ <;> simp only [] <;> omega
        · omega
  · obtain ⟨e1, e2, e3, e4⟩ := hpos (by omega)
    have hhl : (header st.role key data.length).length = hLen st.role key data := rfl
    have hfresh : (decide (st.txHdrOfs = 0) || (decide (st.txHdrOfs = st.txHdr.length) && decide (st.txDataLeft = 0))) = false := by
      rw [e1, e2, e4, hhl]
      simp only [Bool.or_eq_false_iff, decide_eq_false_iff_not, Bool.and_eq_false_iff]
      omega
    have hlen : ¬ (data.drop (n - hLen st.role key data)).length > st.txDataLeft := by
      rw [List.length_drop, e4]; omega
    unfold wsWrite
    simp only [hup, hsc, hfresh, hlen, Bool.not_true, Bool.not_false, Bool.false_eq_true, if_false, Bool.true_and,
      decide_false]
    rw [e1, e2, e3, e4, hoff, hdl, List.length_drop, hhl]
    generalize lw (fLen st.role key data - n) = ret at hlw ⊢
    by_cases hr : ret ≤ 0
    · have ht : ret.toNat = 0 := by omega
      simp only [hr, if_true, ht, List.take_zero, Nat.add_zero]
      refine ⟨trivial, ?_, trivial, fun _ => trivial, fun h => ?_⟩
      · exact ⟨hup, hsc, hle, fun h => absurd h hz, fun _ => ⟨e1, e2, e3, e4⟩⟩
      · omega
    · simp only [hr, if_false]
      by_cases hh : ret.toNat < hLen st.role key data - min n (hLen st.role key data)
      · simp only [hh, if_true]
        refine ⟨trivial, ?_, trivial, fun h => by omega, fun _ => ?_⟩
        · refine ⟨rfl, rfl, ?_, fun h => by omega, fun _ => ⟨rfl, ?_, ?_, ?_⟩⟩ <;> simp only [] <;> omega
        · omega
      · simp only [hh, if_false]
        refine ⟨trivial, ?_, trivial, fun h => by omega, fun _ => ?_⟩
        · refine ⟨rfl, rfl, ?_, fun h => by omega, fun _ => ⟨rfl, ?_, ?_, ?_⟩⟩ <;> simp only [] <;> omega
        · omega

/-- the lower layer never takes more than it is offered -/
def Sane (lw : Nat → Int) : Prop := ∀ m, lw m ≤ (m : Int)

theorem take_take_drop (l : Bytes) (n k : Nat) : l.take n ++ (l.drop n).take k = l.take (n + k) := by
  rw [List.take_add]

/-- the caller's loop from the state with `n` bytes of the frame out: nothing is lost, nothing is sent twice - the
wire holds a longer prefix of the SAME frame, the state is the one for that prefix, and when the loop reports that
everything was taken the frame is complete -/
theorem sendAll_spec (role : Role) (key data : Bytes) (hk : key.length = 4) (hd : 0 < data.length) :
    ∀ (lws : List (Nat → Int)) (st : St) (n : Nat), st.role = role → Rep st key data n → n < fLen role key data →
      (∀ lw ∈ lws, Sane lw) →
      ∃ m, n ≤ m ∧
        (frame role key data).take n ++ (sendAll key lws st (data.drop (n - hLen role key data))).2.2 =
          (frame role key data).take m ∧
        Rep (sendAll key lws st (data.drop (n - hLen role key data))).2.1 key data m ∧
        (sendAll key lws st (data.drop (n - hLen role key data))).2.1.role = role ∧
        ((sendAll key lws st (data.drop (n - hLen role key data))).1 = true → m = fLen role key data) := by
  intro lws
  induction lws with
  | nil =>
    intro st n hrole hrep hn _
    exact ⟨n, Nat.le_refl _, by simp [sendAll], hrep, hrole, fun h => by simp [sendAll] at h⟩
  | cons lw lws ih =>
    intro st n hrole hrep hn hs
    subst hrole
    have hlw : lw (fLen st.role key data - n) ≤ ((fLen st.role key data - n : Nat) : Int) :=
      hs lw (List.mem_cons_self ..) _
    obtain ⟨hw, hrep', hrole', hneg, hnn⟩ := wsWrite_step st key data n lw hk hrep hn hlw
    have hF := fLen_eq st.role key data
    have hm1 := hrep'.2.2.1
    rw [hrole'] at hm1
    simp only [sendAll]
    generalize hr : wsWrite st key (data.drop (n - hLen st.role key data)) lw = r at hw hrep' hrole' hneg hnn
    generalize hkk : (lw (fLen st.role key data - n)).toNat = k at hw hrep' hneg hnn hm1
    by_cases h1 : r.1 < 0
    · simp only [h1, if_true]
      exact ⟨n + k, by omega, by rw [hw, take_take_drop], hrep', hrole', fun h => by cases h⟩
    · simp only [h1, if_false]
      have hret := hnn (by
        rcases Int.lt_or_le (lw (fLen st.role key data - n)) 0 with h | h
        · rw [hneg h] at h1; exact absurd h h1
        · exact h)
      have hlen : (data.drop (n - hLen st.role key data)).length = data.length - (n - hLen st.role key data) :=
        List.length_drop
      by_cases h2 : r.1.toNat ≥ (data.drop (n - hLen st.role key data)).length
      · simp only [h2, if_true]
        refine ⟨n + k, by omega, by rw [hw, take_take_drop], hrep', hrole', fun _ => ?_⟩
        rw [hlen, hret] at h2
        simp only [Int.toNat_natCast] at h2
        omega
      · simp only [h2, if_false]
        rw [hlen, hret] at h2
        rw [hret]
        simp only [Int.toNat_natCast] at h2 ⊢
        have hdrop : (data.drop (n - hLen st.role key data)).drop (n + k - hLen st.role key data - (n - hLen st.role key data)) =
            data.drop (n + k - hLen st.role key data) := by
          rw [List.drop_drop]; congr 1; omega
        rw [hdrop]
        obtain ⟨m, hm, hwire, hrepm, hrolem, hdone⟩ := ih r.2.1 (n + k) hrole' hrep'
          (by omega) (fun lw' h' => hs lw' (List.mem_cons_of_mem _ h'))
        refine ⟨m, by omega, ?_, hrepm, hrolem, hdone⟩
        rw [← List.append_assoc, hw, take_take_drop, hwire]


/-- nothing of a frame is part way to the lower layer: the next coap_ws_write starts a new frame -/
def Idle (st : St) : Prop :=
  st.up = true ∧ st.sentClose = false ∧ (st.txHdrOfs = 0 ∨ (st.txHdrOfs = st.txHdr.length ∧ st.txDataLeft = 0))

theorem Rep_zero (st : St) (key data : Bytes) (h : Idle st) : Rep st key data 0 :=
  ⟨h.1, h.2.1, Nat.zero_le _, fun _ => h.2.2, fun h0 => absurd h0 (Nat.lt_irrefl 0)⟩

theorem Idle_of_Rep_full (st : St) (key data : Bytes) (h : Rep st key data (fLen st.role key data)) : Idle st := by
  obtain ⟨hup, hsc, _, _, hpos⟩ := h
  have hF := fLen_eq st.role key data
  have hH := hLen_ge st.role key data
  obtain ⟨e1, e2, _, e4⟩ := hpos (by omega)
  refine ⟨hup, hsc, Or.inr ⟨?_, ?_⟩⟩
  · rw [e2, e1]; unfold hLen at hF hH ⊢; omega
  · rw [e4]; omega

/-- a message sent from an idle writer through ANY sequence of partial writes: when the caller's loop reports that
everything was taken, the wire got exactly ONE frame for it and the writer is idle again; in any case the wire got a
prefix of that frame -/
theorem sendAll_idle (st : St) (key data : Bytes) (lws : List (Nat → Int)) (hk : key.length = 4) (hd : 0 < data.length)
    (hidle : Idle st) (hs : ∀ lw ∈ lws, Sane lw) :
    (∃ m, (sendAll key lws st data).2.2 = (frame st.role key data).take m) ∧
    (sendAll key lws st data).2.1.role = st.role ∧
    ((sendAll key lws st data).1 = true →
      (sendAll key lws st data).2.2 = frame st.role key data ∧ Idle (sendAll key lws st data).2.1) := by
  have hF := fLen_eq st.role key data
  have hH := hLen_ge st.role key data
  obtain ⟨m, _, hw, hrep, hrole, hdone⟩ := sendAll_spec st.role key data hk hd lws st 0 rfl (Rep_zero st key data hidle)
    (by omega) hs
  simp only [Nat.zero_sub, List.drop_zero, List.take_zero, List.nil_append] at hw hrep hrole hdone
  refine ⟨⟨m, hw⟩, hrole, fun h => ?_⟩
  have hm := hdone h
  subst hm
  constructor
  · rw [hw]; exact List.take_length
  · rw [← hrole] at hrep; exact Idle_of_Rep_full _ key data hrep

/-- several messages one after the other, ANY partial-write pattern for each: the wire always holds a prefix of
the frames of the messages in order (never a frame started inside another), and when every message was reported
sent it holds exactly those frames -/
theorem sendMsgs_spec : ∀ (ms : List (Bytes × Bytes × List (Nat → Int))) (st : St), Idle st →
    (∀ m ∈ ms, m.1.length = 4 ∧ 0 < m.2.1.length ∧ ∀ lw ∈ m.2.2, Sane lw) →
    (∃ k, (sendMsgs ms st).2.2 = (writeAll st.role (ms.map fun m => (m.1, m.2.1))).take k) ∧
    ((sendMsgs ms st).1 = true →
      (sendMsgs ms st).2.2 = writeAll st.role (ms.map fun m => (m.1, m.2.1)) ∧ Idle (sendMsgs ms st).2.1) := by
  intro ms
  induction ms with
  | nil => intro st hi _; exact ⟨⟨0, rfl⟩, fun _ => ⟨rfl, hi⟩⟩
  | cons m rest ih =>
    intro st hi hall
    obtain ⟨hk, hd, hs⟩ := hall m (List.mem_cons_self ..)
    obtain ⟨⟨j, hpre⟩, hrole, hdone⟩ := sendAll_idle st m.1 m.2.1 m.2.2 hk hd hi hs
    simp only [sendMsgs, List.map_cons, writeAll]
    by_cases hq : (sendAll m.1 m.2.2 st m.2.1).1 = true
    · obtain ⟨hw, hidle'⟩ := hdone hq
      obtain ⟨⟨k, hk'⟩, hfull⟩ := ih _ hidle' (fun x hx => hall x (List.mem_cons_of_mem _ hx))
      rw [hrole] at hk' hfull
      simp only [hq, if_true]
      constructor
      · refine ⟨(frame st.role m.1 m.2.1).length + k, ?_⟩
        rw [hw, hk', List.take_append]
        rw [List.take_of_length_le (Nat.le_add_right _ k), Nat.add_sub_cancel_left]
      · intro h
        obtain ⟨h1, h2⟩ := hfull h
        exact ⟨by rw [hw, h1], h2⟩
    · simp only [hq, Bool.false_eq_true, if_false]
      refine ⟨⟨min j (frame st.role m.1 m.2.1).length, ?_⟩, fun h => by cases h⟩
      rw [hpre, List.take_append_of_le_length (Nat.min_le_right _ _)]
      by_cases hj : j ≤ (frame st.role m.1 m.2.1).length
      · rw [Nat.min_eq_left hj]
      · rw [Nat.min_eq_right (by omega), List.take_of_length_le (by omega), List.take_of_length_le (Nat.le_refl _)]

theorem sane_lwAll : Sane lwAll := fun m => Int.le_refl _

/-- not up, or Close already sent: nothing is written, 0 is returned -/
theorem wsWrite_down (st : St) (key data : Bytes) (lw : Nat → Int) (h : st.up = false ∨ st.sentClose = true) :
    wsWrite st key data lw = (0, st, []) := by
  unfold wsWrite
  rcases h with h | h
  · simp [h]
  · by_cases hup : st.up = true <;> simp [hup, h]

open Coap.Spec.WsFrame in
/-- the Close frame of coap_ws_close is one RFC 6455 frame: FIN, opcode 8, MASK iff client, two bytes of
application data = the status code, high byte first -/
theorem decode_closeFrame (role : Role) (key rest : Bytes) (reason : Nat) (hk : key.length = 4) :
    decode (closeFrame role key reason ++ rest) =
      some (⟨true, 0, 8, role = .client, keyOf role key, [u8 (reason / 2 ^ 8), u8 reason]⟩, rest) := by
  cases role
  · have hs : closeFrame .client key reason ++ rest =
        (0x88 : UInt8) :: (0x82 : UInt8) :: ([] ++ (key ++ (maskData key 0 [u8 (reason / 2 ^ 8), u8 reason] ++ rest))) := by
      simp [closeFrame]; exact ⟨by decide, by decide⟩
    rw [hs, decode_build _ _ _ _ _ _ (Or.inl ⟨by decide, by decide, rfl, by simp [maskData]⟩) (by simpa using hk)]
    have : unmask key 0 (maskData key 0 [u8 (reason / 2 ^ 8), u8 reason]) = [u8 (reason / 2 ^ 8), u8 reason] :=
      unmask_maskData key _ 0
    simp [this, keyOf]
  · have hs : closeFrame .server key reason ++ rest =
        (0x88 : UInt8) :: (0x02 : UInt8) :: ([] ++ ([] ++ ([u8 (reason / 2 ^ 8), u8 reason] ++ rest))) := by
      simp [closeFrame]; rfl
    rw [hs, decode_build _ _ _ _ _ _ (Or.inl ⟨by decide, by decide, rfl, by simp⟩) (by simp)]
    simp [keyOf]

end WsW
end Coap
