import CoapVerif.Model.AllocBlock
/-
C18 — helper lemmas for the Block-layer containers (Model/AllocBlock.lean): the OWNERSHIP invariant `Own o L h`
("the heap is sound, and what is live is exactly the objects `o` the container owns plus the objects `L` that were live
before"), how every allocator primitive moves it, and the bounds invariant of the lg_crcv's list of Observe tokens.
-/
namespace Coap.AllocBlock
open Coap Coap.AllocOracle

/-- the heap has seen no invalid free (`ok`), hands out fresh serials, and its live objects are exactly the pairwise distinct
objects `o` of the container plus the objects `L` of everybody else -/
structure Own (o L : List Nat) (h : Heap) : Prop where
  ok : h.ok = true
  nodup : h.live.Nodup
  fresh : ∀ i ∈ h.live, i < h.next
  onodup : o.Nodup
  mem : ∀ i, i ∈ h.live ↔ i ∈ o ∨ i ∈ L
  disj : ∀ i ∈ o, i ∉ L

theorem Own.perm {o o' L : List Nat} {h : Heap} (hO : Own o L h) (hp : o'.Perm o) : Own o' L h :=
  { ok := hO.ok, nodup := hO.nodup, fresh := hO.fresh, onodup := hp.nodup_iff.mpr hO.onodup,
    mem := fun i => by rw [hO.mem i, hp.mem_iff],
    disj := fun i hi => hO.disj i (hp.mem_iff.mp hi) }

theorem Own.init (h : Heap) (hok : h.ok = true) (hn : h.live.Nodup) (hf : ∀ i ∈ h.live, i < h.next) : Own [] h.live h :=
  { ok := hok, nodup := hn, fresh := hf, onodup := List.nodup_nil, mem := fun i => by simp, disj := fun i hi => by simp at hi }

theorem Own.init_empty (orc : Oracle) : Own [] [] ({ orc := orc } : Heap) :=
  { ok := rfl, nodup := List.nodup_nil, fresh := (fun i hi => nomatch hi), onodup := List.nodup_nil,
    mem := fun i => by simp, disj := (fun i hi => nomatch hi) }

theorem alloc_some_eq (h : Heap) (i : Nat) (e : h.alloc.1 = some i) :
    i = h.next ∧ h.alloc.2.live = i :: h.live ∧ h.alloc.2.next = h.next + 1 ∧ h.alloc.2.ok = h.ok := by
  unfold Heap.alloc at *
  split at e <;> simp_all

theorem alloc_none_eq (h : Heap) (e : h.alloc.1 = none) :
    h.alloc.2.live = h.live ∧ h.alloc.2.next = h.next ∧ h.alloc.2.ok = h.ok := by
  unfold Heap.alloc at *
  split at e <;> simp_all

theorem Own.alloc_none {o L : List Nat} {h : Heap} (hO : Own o L h) (e : h.alloc.1 = none) : Own o L h.alloc.2 := by
  obtain ⟨e1, e2, e3⟩ := alloc_none_eq h e
  exact { ok := by rw [e3]; exact hO.ok, nodup := by rw [e1]; exact hO.nodup,
          fresh := by rw [e1, e2]; exact hO.fresh, onodup := hO.onodup,
          mem := by rw [e1]; exact hO.mem, disj := hO.disj }

theorem Own.alloc_some {o L : List Nat} {h : Heap} {i : Nat} (hO : Own o L h) (e : h.alloc.1 = some i) :
    Own (i :: o) L h.alloc.2 := by
  obtain ⟨e0, e1, e2, e3⟩ := alloc_some_eq h i e
  have hni : i ∉ h.live := fun hi => by have := hO.fresh i hi; omega
  have hno : i ∉ o := fun hi => hni ((hO.mem i).mpr (Or.inl hi))
  have hnL : i ∉ L := fun hi => hni ((hO.mem i).mpr (Or.inr hi))
  refine { ok := by rw [e3]; exact hO.ok, nodup := by rw [e1]; exact List.nodup_cons.mpr ⟨hni, hO.nodup⟩,
           fresh := ?_, onodup := List.nodup_cons.mpr ⟨hno, hO.onodup⟩, mem := ?_, disj := ?_ }
  · rw [e1, e2]
    intro j hj
    rcases List.mem_cons.mp hj with hj | hj
    · omega
    · have := hO.fresh j hj; omega
  · intro j
    rw [e1]
    simp only [List.mem_cons]
    rw [hO.mem j]
    exact ⟨fun hh => hh.elim (fun a => Or.inl (Or.inl a)) (fun a => a.elim (fun b => Or.inl (Or.inr b)) Or.inr),
           fun hh => hh.elim (fun a => a.elim Or.inl (fun b => Or.inr (Or.inl b))) (fun a => Or.inr (Or.inr a))⟩
  · intro j hj
    rcases List.mem_cons.mp hj with hj | hj
    · rw [hj]; exact hnL
    · exact hO.disj j hj

/-- `coap_free_type` of the object at the head of the owner's list -/
theorem Own.free_head {o L : List Nat} {h : Heap} {i : Nat} (hO : Own (i :: o) L h) : Own o L (h.free i) := by
  have hil : i ∈ h.live := (hO.mem i).mpr (Or.inl (List.mem_cons_self))
  have hnd := List.nodup_cons.mp hO.onodup
  refine { ok := ?_, nodup := ?_, fresh := ?_, onodup := hnd.2, mem := ?_, disj := ?_ }
  · simp [Heap.free, hO.ok, hil]
  · simpa [Heap.free] using hO.nodup.erase i
  · intro j hj
    have : j ∈ h.live := List.mem_of_mem_erase (by simpa [Heap.free] using hj)
    simpa [Heap.free] using hO.fresh j this
  · intro j
    have : (h.free i).live = h.live.erase i := rfl
    rw [this, hO.nodup.mem_erase_iff, hO.mem j]
    simp only [List.mem_cons]
    constructor
    · rintro ⟨hne, (hj | hj) | hj⟩
      · exact absurd hj hne
      · exact Or.inl hj
      · exact Or.inr hj
    · rintro (hj | hj)
      · exact ⟨fun e => hnd.1 (e ▸ hj), Or.inl (Or.inr hj)⟩
      · exact ⟨fun e => hO.disj i List.mem_cons_self (e ▸ hj), Or.inr hj⟩
  · intro j hj
    exact hO.disj j (List.mem_cons_of_mem _ hj)

theorem Own.freeOpt_head {x : Option Nat} {o L : List Nat} {h : Heap} (hO : Own (x.toList ++ o) L h) :
    Own o L (freeOpt x h) := by
  cases x with
  | none => simpa [freeOpt] using hO
  | some i => exact Own.free_head (by simpa using hO)

theorem realloc_some_eq (h : Heap) (i j : Nat) (e : (h.realloc i).1 = some j) :
    (h.realloc i).2 = (h.free i).alloc.2 ∧ (h.free i).alloc.1 = some j := by
  unfold Heap.realloc at *
  split at e
  · rename_i hh
    simp at e
    subst e
    simp [Heap.alloc, Heap.free, hh]
  · simp at e

theorem realloc_none_eq (h : Heap) (i : Nat) (e : (h.realloc i).1 = none) :
    (h.realloc i).2.live = h.live ∧ (h.realloc i).2.next = h.next ∧ (h.realloc i).2.ok = h.ok := by
  unfold Heap.realloc at *
  split at e <;> simp_all

theorem Own.realloc_none {o L : List Nat} {h : Heap} {i : Nat} (hO : Own o L h) (e : (h.realloc i).1 = none) :
    Own o L (h.realloc i).2 := by
  obtain ⟨e1, e2, e3⟩ := realloc_none_eq h i e
  exact { ok := by rw [e3]; exact hO.ok, nodup := by rw [e1]; exact hO.nodup,
          fresh := by rw [e1, e2]; exact hO.fresh, onodup := hO.onodup,
          mem := by rw [e1]; exact hO.mem, disj := hO.disj }

/-- `coap_realloc_type` of the object at the head of the owner's list: it is replaced by the new one -/
theorem Own.realloc_some {o L : List Nat} {h : Heap} {i j : Nat} (hO : Own (i :: o) L h) (e : (h.realloc i).1 = some j) :
    Own (j :: o) L (h.realloc i).2 := by
  obtain ⟨e1, e2⟩ := realloc_some_eq h i j e
  rw [e1]
  exact (Own.free_head hO).alloc_some e2


/-! ## server: the lg_srcv owns itself, the body under reassembly and the token of an early final block -/

def ownedS (lg : ASrcv) : List Nat := lg.uriPath.toList ++ ((ser lg.lastTok).toList ++ ((ser lg.body).toList ++ [lg.id]))

def ownedSt : Option ASrcv → List Nat
  | none => []
  | some lg => ownedS lg

theorem perm_swap (a b c : List Nat) : (a ++ (b ++ c)).Perm (b ++ (a ++ c)) := by
  rw [← List.append_assoc, ← List.append_assoc]
  exact List.Perm.append_right c List.perm_append_comm

theorem perm_pull (x t b z : List Nat) : (x ++ (t ++ (b ++ z))).Perm (b ++ (x ++ (t ++ z))) :=
  (List.Perm.append_left x (perm_swap t b z)).trans (perm_swap x b _)

theorem freeSrcv_own {lg : ASrcv} {L : List Nat} {h : Heap} (hO : Own (ownedS lg) L h) : Own [] L (freeSrcv lg h) := by
  unfold freeSrcv
  exact Own.free_head (Own.freeOpt_head (Own.freeOpt_head (Own.freeOpt_head hO)))

theorem sepResponse_own {o L : List Nat} {h : Heap} (hO : Own o L h) : Own o L (sepResponse h) := by
  unfold sepResponse
  rcases hA : h.alloc with ⟨_ | p, h1⟩
  · have := hO.alloc_none (by rw [hA]); rw [hA] at this; simpa using this
  · have h1O := hO.alloc_some (i := p) (by rw [hA]); rw [hA] at h1O
    simp only
    rcases hB : h1.alloc with ⟨_ | b, h2⟩
    · have := h1O.alloc_none (by rw [hB]); rw [hB] at this
      exact Own.free_head this
    · have h2O := h1O.alloc_some (i := b) (by rw [hB]); rw [hB] at h2O
      exact Own.free_head (Own.free_head h2O)

/-- coap_block_build_body: the body it returns replaces the one it was given (NULL: that one has been released) -/
theorem buildBody_own {body : Option (Nat × Nat)} {len off tot : Nat} {o L : List Nat} {h : Heap}
    (hO : Own ((ser body).toList ++ o) L h) :
    Own ((ser (buildBody body len off tot h).1).toList ++ o) L (buildBody body len off tot h).2 := by
  unfold buildBody
  -- first part: the body there is, or a new one
  have key : ∀ (r : Option (Nat × Nat) × Heap), Own ((ser r.1).toList ++ o) L r.2 →
      Own ((ser (match r.1 with
        | none => ((none : Option (Nat × Nat)), r.2)
        | some (i, blen) =>
          if off + len ≤ tot ∧ blen ≥ tot then (some (i, blen), r.2)
          else match r.2.realloc i with
            | (some j, h2) => (some (j, if off + len < blen then blen else off + len), h2)
            | (none, h2) => (none, h2.free i)).1).toList ++ o) L
        (match r.1 with
        | none => ((none : Option (Nat × Nat)), r.2)
        | some (i, blen) =>
          if off + len ≤ tot ∧ blen ≥ tot then (some (i, blen), r.2)
          else match r.2.realloc i with
            | (some j, h2) => (some (j, if off + len < blen then blen else off + len), h2)
            | (none, h2) => (none, h2.free i)).2 := by
    intro r hr
    rcases r with ⟨_ | ⟨i, blen⟩, hh⟩
    · simpa using hr
    · simp only
      split
      · simpa using hr
      · have hr' : Own (i :: o) L hh := by simpa [ser] using hr
        rcases hR : hh.realloc i with ⟨_ | j, h2⟩
        · have := hr'.realloc_none (by rw [hR]); rw [hR] at this
          simpa [ser] using Own.free_head this
        · have := hr'.realloc_some (j := j) (by rw [hR]); rw [hR] at this
          simpa [ser] using this
  apply key
  cases body with
  | some b => simpa using hO
  | none =>
    simp only
    split
    · rcases hA : h.alloc with ⟨_ | i, h1⟩
      · have := hO.alloc_none (by rw [hA]); rw [hA] at this; simpa [ser] using this
      · have := hO.alloc_some (i := i) (by rw [hA]); rw [hA] at this; simpa [ser] using this
    · simpa using hO

theorem srcvDecide_own {lg : ASrcv} {m chunk tokLen : Nat} {L : List Nat} {h : Heap} (hO : Own (ownedS lg) L h) :
    Own (ownedSt (srcvDecide lg m chunk tokLen h).2.1) L (srcvDecide lg m chunk tokLen h).2.2 := by
  unfold srcvDecide
  simp only
  split
  · split
    · exact hO
    · exact freeSrcv_own (sepResponse_own hO)
  · split
    · have h1 : Own (lg.uriPath.toList ++ ((ser lg.body).toList ++ [lg.id])) L (freeOpt (ser lg.lastTok) h) :=
        Own.freeOpt_head (hO.perm (perm_swap _ _ _))
      rcases hA : (freeOpt (ser lg.lastTok) h).alloc with ⟨_ | t, h2⟩
      · have := h1.alloc_none (by rw [hA]); rw [hA] at this
        exact freeSrcv_own (lg := { lg with noMoreSeen := true, lastTok := none }) (by simpa [ownedS, ser] using this)
      · have := h1.alloc_some (i := t) (by rw [hA]); rw [hA] at this
        have h3 : Own (lg.uriPath.toList ++ ([t] ++ ((ser lg.body).toList ++ [lg.id]))) L h2 :=
          Own.perm (o := [t] ++ (lg.uriPath.toList ++ ((ser lg.body).toList ++ [lg.id]))) (by simpa using this) (perm_swap _ _ _)
        simpa [ownedSt, ownedS, ser] using h3
    · exact freeSrcv_own hO

theorem srcvLocate_own {st : Option ASrcv} {szx : Nat} {size1 : Option Nat} {unk : Bool} {L : List Nat} {h : Heap}
    (hO : Own (ownedSt st) L h) : Own (ownedSt (srcvLocate st szx size1 unk h).1) L (srcvLocate st szx size1 unk h).2 := by
  unfold srcvLocate
  cases st with
  | some lg => exact hO
  | none =>
    simp only
    rcases hA : h.alloc with ⟨_ | i, h1⟩
    · have := hO.alloc_none (by rw [hA]); rw [hA] at this; simpa [ownedSt] using this
    · have h1O := hO.alloc_some (i := i) (by rw [hA]); rw [hA] at h1O
      simp only
      cases unk with
      | false => simpa [ownedSt, ownedS, ser] using h1O
      | true =>
        simp only [if_true]
        rcases hB : h1.alloc with ⟨_ | p, h2⟩
        · have := h1O.alloc_none (by rw [hB]); rw [hB] at this
          simpa [ownedSt] using Own.free_head this
        · have := h1O.alloc_some (i := p) (by rw [hB]); rw [hB] at this
          simpa [ownedSt, ownedS, ser] using this

theorem srcvUpdate_own {lg : ASrcv} {rec' : Block.Ranges} {len offset m chunk tokLen : Nat} {L : List Nat} {h : Heap}
    (hO : Own (ownedS lg) L h) :
    Own (ownedSt (srcvUpdate lg rec' len offset m chunk tokLen h).2.1) L (srcvUpdate lg rec' len offset m chunk tokLen h).2.2 := by
  unfold srcvUpdate
  simp only
  have hb : Own ((ser lg.body).toList ++ (lg.uriPath.toList ++ ((ser lg.lastTok).toList ++ [lg.id]))) L h :=
    hO.perm (perm_pull _ _ _ _).symm
  have hB := buildBody_own (len := len) (off := offset)
    (tot := if lg.totalLen < offset + len then offset + len else lg.totalLen) hb
  rcases hR : buildBody lg.body len offset (if lg.totalLen < offset + len then offset + len else lg.totalLen) h with ⟨_ | b, h2⟩
  · rw [hR] at hB
    exact freeSrcv_own (lg := { lg with recv := rec', totalLen := _, body := none }) (by simpa [ownedS, ser] using hB)
  · rw [hR] at hB
    exact srcvDecide_own (lg := { lg with recv := rec', totalLen := _, body := some b })
      ((show Own ((ser (some b)).toList ++ (lg.uriPath.toList ++ ((ser lg.lastTok).toList ++ [lg.id]))) L h2 from hB).perm
        (perm_pull _ _ _ _))

theorem srcvStore_own {cap : Nat} {lg : ASrcv} {num m len chunk tokLen : Nat} {L : List Nat} {h : Heap}
    (hO : Own (ownedS lg) L h) :
    Own (ownedSt (srcvStore cap lg num m len chunk tokLen h).2.1) L (srcvStore cap lg num m len chunk tokLen h).2.2 := by
  unfold srcvStore
  simp only
  split
  · exact freeSrcv_own hO
  · split
    · exact freeSrcv_own hO
    · split
      · exact srcvUpdate_own hO
      · exact srcvDecide_own (lg := { lg with recv := _ }) hO

theorem srcvStep_own {cap : Nat} {st : Option ASrcv} {num m szx plen tokLen : Nat} {size1 : Option Nat} {unk : Bool}
    {L : List Nat} {h : Heap} (hO : Own (ownedSt st) L h) :
    Own (ownedSt (srcvStep cap st num m szx plen tokLen size1 unk h).2.1) L
      (srcvStep cap st num m szx plen tokLen size1 unk h).2.2 := by
  unfold srcvStep
  simp only
  split
  · exact hO
  split
  · exact hO
  have hL := srcvLocate_own (szx := szx) (size1 := size1) (unk := unk) hO
  rcases hl : srcvLocate st szx size1 unk h with ⟨_ | lg, h1⟩
  · rw [hl] at hL; simpa [ownedSt] using hL
  · rw [hl] at hL
    simp only
    split
    · exact hL
    · exact srcvStore_own hL

theorem srcvEv_own {cfg : SCfg} {st : Option ASrcv} {e : SEv} {L : List Nat} {h : Heap} (hO : Own (ownedSt st) L h) :
    Own (ownedSt (srcvEv cfg st h e).2.1) L (srcvEv cfg st h e).2.2 := by
  cases e with
  | block num m plen => exact srcvStep_own hO
  | drop =>
    cases st with
    | none => exact hO
    | some lg => exact freeSrcv_own hO

theorem srcvRun_own (cfg : SCfg) (evs : List SEv) : ∀ (st : Option ASrcv) (L : List Nat) (h : Heap), Own (ownedSt st) L h →
    Own (ownedSt (srcvRun cfg st h evs).2.1) L (srcvRun cfg st h evs).2.2 := by
  induction evs with
  | nil => intro st L h hO; exact hO
  | cons e r ih =>
    intro st L h hO
    have h1 := srcvEv_own (cfg := cfg) (e := e) hO
    have := ih _ L _ h1
    simpa [srcvRun] using this

theorem srcvCleanup_own {st : Option ASrcv} {L : List Nat} {h : Heap} (hO : Own (ownedSt st) L h) :
    Own [] L (srcvCleanup st h) := by
  cases st with
  | none => exact hO
  | some lg => exact freeSrcv_own hO

/-! ## client: obs_token_cnt never exceeds the list (ALL call sequences, ALL oracles) -/

/-- what `coap_block_delete_lg_crcv` and the Observe-cancel look-up rely on: the count is within the allocated list, and a
NULL list has no entries -/
structure CBound (c : Crcv) : Prop where
  le : c.cnt ≤ c.tab.length
  nul : c.tabId = none → c.tab = []

theorem freeEntries_some : ∀ (n : Nat) (tab : List (Option (Nat × Nat))) (h : Heap), n ≤ tab.length →
    ∃ h', freeEntries n tab h = some h' := by
  intro n
  induction n with
  | zero => intro tab h _; exact ⟨h, by simp [freeEntries]⟩
  | succ n ih =>
    intro tab h hl
    cases tab with
    | nil => simp at hl
    | cons e r =>
      have := ih r (freeOpt (ser e) h) (by simpa using hl)
      simpa [freeEntries] using this

theorem deleteCrcv_some {c : Crcv} (hb : CBound c) (h : Heap) : ∃ h', deleteCrcv c h = some h' := by
  unfold deleteCrcv
  obtain ⟨h1, e⟩ := freeEntries_some c.cnt c.tab (freeOpt c.appTok (freeOpt c.bufId h)) hb.le
  rw [e]
  exact ⟨_, rfl⟩

theorem storeToken_bound {c : Crcv} {bn tokLen : Nat} {h : Heap} (hl : bn < c.tab.length) (hn : c.tabId ≠ none) :
    ∃ r, storeToken c bn tokLen h = some r ∧ CBound r.1 := by
  unfold storeToken
  have : c.tab[bn]? = some c.tab[bn] := List.getElem?_eq_getElem hl
  rw [this]
  simp only
  rcases (freeOpt (ser c.tab[bn]) h).alloc with ⟨_ | t, h2⟩
  · exact ⟨_, rfl, ⟨by simp; omega, fun e => absurd e hn⟩⟩
  · exact ⟨_, rfl, ⟨by simp; omega, fun e => absurd e hn⟩⟩

theorem trackEstablish_bound {c : Crcv} {bn tokLen : Nat} {h : Heap} (hb : CBound c) :
    ∃ r, trackEstablish c bn tokLen h = some r ∧ CBound r.1 := by
  unfold trackEstablish
  split
  · rename_i hle
    rcases reallocOpt c.tabId h with ⟨_ | t, h1⟩
    · exact ⟨_, rfl, hb⟩
    · simp only
      apply storeToken_bound
      · have := hb.le
        simp [List.length_take]
        omega
      · simp
  · rename_i hgt
    apply storeToken_bound
    · have := hb.le; omega
    · intro e
      have := hb.nul e
      have := hb.le
      simp_all

theorem track_bound {act : Option Nat} {c : Crcv} {bn tokLen : Nat} {h : Heap} (hb : CBound c) :
    ∃ r, track act c bn tokLen h = some r ∧ CBound r.2.1 := by
  unfold track
  cases act with
  | none => exact ⟨_, rfl, hb⟩
  | some a =>
    simp only
    split
    · obtain ⟨r, e, hr⟩ := trackEstablish_bound (bn := bn) (tokLen := tokLen) (h := h) hb
      rw [e]
      exact ⟨_, rfl, hr⟩
    · split
      · split
        · rename_i hlt
          have hl : bn < c.tab.length := by have := hb.le; omega
          rw [List.getElem?_eq_getElem hl]
          exact ⟨_, rfl, hb⟩
        · exact ⟨_, rfl, hb⟩
      · exact ⟨_, rfl, hb⟩

theorem newCrcv_bound {fetch : Bool} {act : Option Nat} {tokLen : Nat} {h : Heap} :
    ∃ r, newCrcv fetch act tokLen h = some r ∧ ∀ c, r.1 = some c → CBound c := by
  unfold newCrcv
  rcases h.alloc with ⟨_ | id, h1⟩
  · exact ⟨_, rfl, fun c e => by simp at e⟩
  · simp only
    rcases h1.alloc with ⟨_ | b, h2⟩
    · obtain ⟨h', e⟩ := deleteCrcv_some (c := { id := id }) ⟨by simp, fun _ => rfl⟩ h2
      simp only [e]
      exact ⟨_, rfl, fun c e => by simp at e⟩
    · simp only
      rcases h2.alloc with ⟨_ | a, h3⟩
      · obtain ⟨h', e⟩ := deleteCrcv_some (c := { id := id, bufId := some b }) ⟨by simp, fun _ => rfl⟩ h3
        simp only [e]
        exact ⟨_, rfl, fun c e => by simp at e⟩
      · simp only
        have hb0 : CBound { id := id, bufId := some b, appTok := some a } := ⟨by simp, fun _ => rfl⟩
        split
        · obtain ⟨r, e, hr⟩ := track_bound (act := act) (bn := 0) (tokLen := tokLen) (h := h3) hb0
          rw [e]
          exact ⟨_, rfl, fun c ec => by simp at ec; rw [← ec]; exact hr⟩
        · exact ⟨_, rfl, fun c ec => by simp at ec; rw [← ec]; exact hb0⟩

def BoundSt (st : Option Crcv) : Prop := ∀ c, st = some c → CBound c

theorem crcvStep_bound {st : Option Crcv} {h : Heap} {e : CEv} (hb : BoundSt st) :
    (crcvStep st h e).1 ≠ .invalid ∧ BoundSt (crcvStep st h e).2.1 := by
  cases e with
  | new fetch act tl =>
    cases st with
    | some c => exact ⟨by simp [crcvStep], hb⟩
    | none =>
      obtain ⟨r, er, hr⟩ := newCrcv_bound (fetch := fetch) (act := act) (tokLen := tl) (h := h)
      simp only [crcvStep, er]
      exact ⟨by simp, hr⟩
  | track act bn tl =>
    cases st with
    | none => exact ⟨by simp [crcvStep], hb⟩
    | some c =>
      obtain ⟨r, er, hr⟩ := track_bound (act := act) (bn := bn) (tokLen := tl) (h := h) (hb c rfl)
      simp only [crcvStep, er]
      refine ⟨?_, fun c' ec => by simp at ec; rw [← ec]; exact hr⟩
      rcases r.1 with _ | ⟨_, l⟩ <;> simp
  | del =>
    cases st with
    | none => exact ⟨by simp [crcvStep], hb⟩
    | some c =>
      obtain ⟨h', eh⟩ := deleteCrcv_some (hb c rfl) h
      simp only [crcvStep, eh]
      exact ⟨by simp, fun c' ec => by simp at ec⟩

theorem crcvRun_bound (evs : List CEv) : ∀ (st : Option Crcv) (h : Heap), BoundSt st →
    (∀ o ∈ (crcvRun st h evs).1, o ≠ .invalid) ∧ BoundSt (crcvRun st h evs).2.1 := by
  induction evs with
  | nil => intro st h hb; exact ⟨by simp [crcvRun], hb⟩
  | cons e r ih =>
    intro st h hb
    obtain ⟨h1, h2⟩ := crcvStep_bound (h := h) (e := e) hb
    obtain ⟨h3, h4⟩ := ih _ (crcvStep st h e).2.2 h2
    simp only [crcvRun]
    refine ⟨?_, h4⟩
    intro o ho
    rcases List.mem_cons.mp ho with ho | ho
    · rw [ho]; exact h1
    · exact h3 o ho

/-! ## client: who owns what in the lg_crcv (call sequences the callers can produce, ALL oracles) -/

/-- serials of the tokens in the list -/
def fm (tab : List (Option (Nat × Nat))) : List Nat := tab.filterMap ser

def ownedC (c : Crcv) : List Nat :=
  fm c.tab ++ (c.tabId.toList ++ (c.bufId.toList ++ (c.appTok.toList ++ [c.id])))

def ownedCt : Option Crcv → List Nat
  | none => []
  | some c => ownedC c

theorem fm_cons (e : Option (Nat × Nat)) (r : List (Option (Nat × Nat))) : fm (e :: r) = (ser e).toList ++ fm r := by
  rcases e with _ | ⟨a, b⟩ <;> simp [fm, ser, List.filterMap_cons]

theorem fm_replicate_none (k : Nat) : fm (List.replicate k none) = [] := by
  induction k with
  | zero => rfl
  | succ k ih => rw [List.replicate_succ, fm_cons, ih]; rfl

theorem fm_append (a b : List (Option (Nat × Nat))) : fm (a ++ b) = fm a ++ fm b := by
  simp [fm, List.filterMap_append]

/-- taking entry `bn` out of the list -/
theorem fm_set_none : ∀ (tab : List (Option (Nat × Nat))) (bn : Nat) (hl : bn < tab.length),
    (fm tab).Perm ((ser tab[bn]).toList ++ fm (tab.set bn none)) := by
  intro tab
  induction tab with
  | nil => intro bn hl; simp at hl
  | cons e r ih =>
    intro bn hl
    cases bn with
    | zero => simp [fm_cons, ser]
    | succ n =>
      have := ih n (by simpa using hl)
      simp only [List.set_cons_succ, fm_cons, List.getElem_cons_succ]
      exact (List.Perm.append_left _ this).trans (perm_swap _ _ _)

/-- putting a token into the (empty) entry `bn` -/
theorem fm_set_some : ∀ (tab : List (Option (Nat × Nat))) (bn : Nat) (_ : bn < tab.length) (t l : Nat),
    (fm (tab.set bn (some (t, l)))).Perm (t :: fm (tab.set bn none)) := by
  intro tab
  induction tab with
  | nil => intro bn hl; simp at hl
  | cons e r ih =>
    intro bn hl t l
    cases bn with
    | zero => simp [fm_cons, ser]
    | succ n =>
      have := ih n (by simpa using hl) t l
      simp only [List.set_cons_succ, fm_cons]
      exact (List.Perm.append_left _ this).trans (List.perm_middle)

theorem freeEntries_own : ∀ (tab : List (Option (Nat × Nat))) (o L : List Nat) (h : Heap), Own (fm tab ++ o) L h →
    ∃ h', freeEntries tab.length tab h = some h' ∧ Own o L h' := by
  intro tab
  induction tab with
  | nil => intro o L h hO; exact ⟨h, rfl, by simpa [fm] using hO⟩
  | cons e r ih =>
    intro o L h hO
    have h1 : Own (fm r ++ o) L (freeOpt (ser e) h) := by
      apply Own.freeOpt_head
      simpa [fm_cons, List.append_assoc] using hO
    obtain ⟨h', e1, e2⟩ := ih o L _ h1
    exact ⟨h', by simpa [freeEntries] using e1, e2⟩

theorem deleteCrcv_own {c : Crcv} {L : List Nat} {h : Heap} (hO : Own (ownedC c) L h) (hl : c.tab.length = c.cnt) :
    ∃ h', deleteCrcv c h = some h' ∧ Own [] L h' := by
  unfold deleteCrcv
  -- the order of release: request copy, application token, the tokens, the list, the lg_crcv
  have h0 : Own (c.bufId.toList ++ (c.appTok.toList ++ (fm c.tab ++ (c.tabId.toList ++ [c.id])))) L h := by
    apply hO.perm
    unfold ownedC
    exact ((perm_pull (fm c.tab) c.tabId.toList c.bufId.toList (c.appTok.toList ++ [c.id])).trans
      (List.Perm.append_left c.bufId.toList (perm_pull (fm c.tab) c.tabId.toList c.appTok.toList [c.id]))).symm
  have h1 := Own.freeOpt_head (Own.freeOpt_head h0)
  obtain ⟨h', e1, e2⟩ := freeEntries_own c.tab _ L _ h1
  rw [← hl, e1]
  exact ⟨_, rfl, Own.free_head (Own.freeOpt_head e2)⟩

/-- the lg_crcv owns exactly its objects, the list is as long as the count says, the count is at most `hi` -/
structure CInv (hi : Nat) (c : Crcv) (L : List Nat) (h : Heap) : Prop where
  own : Own (ownedC c) L h
  len : c.tab.length = c.cnt
  le : c.cnt ≤ hi

theorem storeToken_own {c : Crcv} {bn tokLen : Nat} {L : List Nat} {h : Heap} (hO : Own (ownedC c) L h)
    (hl : bn < c.tab.length) :
    ∃ r, storeToken c bn tokLen h = some r ∧ Own (ownedC r.1) L r.2 ∧ r.1.tab.length = c.tab.length ∧ r.1.cnt = bn + 1 := by
  unfold storeToken
  rw [List.getElem?_eq_getElem hl]
  simp only
  -- the old token of this block is released
  have h1 : Own (fm (c.tab.set bn none) ++ (c.tabId.toList ++ (c.bufId.toList ++ (c.appTok.toList ++ [c.id])))) L
      (freeOpt (ser c.tab[bn]) h) := by
    apply Own.freeOpt_head
    apply hO.perm
    unfold ownedC
    rw [← List.append_assoc]
    exact List.Perm.append_right _ (fm_set_none c.tab bn hl).symm
  rcases hA : (freeOpt (ser c.tab[bn]) h).alloc with ⟨_ | t, h2⟩
  · have := h1.alloc_none (by rw [hA]); rw [hA] at this
    exact ⟨_, rfl, by simpa [ownedC] using this, by simp, rfl⟩
  · have := h1.alloc_some (i := t) (by rw [hA]); rw [hA] at this
    refine ⟨_, rfl, ?_, by simp, rfl⟩
    apply this.perm
    simp only [ownedC]
    rw [← List.cons_append]
    exact List.Perm.append_right _ (fm_set_some c.tab bn hl t tokLen)

theorem trackEstablish_own {hi : Nat} {c : Crcv} {bn tokLen : Nat} {L : List Nat} {h : Heap} (hI : CInv hi c L h)
    (hf : hi ≤ bn + 1) : ∃ r, trackEstablish c bn tokLen h = some r ∧ CInv (bn + 1) r.1 L r.2 := by
  unfold trackEstablish
  have hlen := hI.len
  have hle := hI.le
  split
  · rename_i hcb
    -- the list grows
    have hgrow : ∀ (t : Nat) (h1 : Heap),
        Own (fm c.tab ++ (t :: (c.bufId.toList ++ (c.appTok.toList ++ [c.id])))) L h1 →
        ∃ r, storeToken { c with tabId := some t, tab := c.tab.take c.cnt ++ List.replicate (bn + 1 - c.cnt) none } bn tokLen h1 = some r ∧
          CInv (bn + 1) r.1 L r.2 := by
      intro t h1 hO1
      have htk : c.tab.take c.cnt = c.tab := List.take_of_length_le (by omega)
      have hO2 : Own (ownedC { c with tabId := some t, tab := c.tab.take c.cnt ++ List.replicate (bn + 1 - c.cnt) none }) L h1 := by
        simpa [ownedC, htk, fm_append, fm_replicate_none] using hO1
      obtain ⟨r, e, hr1, hr2, hr3⟩ := storeToken_own (bn := bn) (tokLen := tokLen) hO2 (by simp [htk]; omega)
      refine ⟨r, e, hr1, ?_, by omega⟩
      rw [hr2, hr3]
      simp [htk]
      omega
    cases hT : c.tabId with
    | none =>
      have hO0 : Own (fm c.tab ++ (c.bufId.toList ++ (c.appTok.toList ++ [c.id]))) L h := by
        simpa [ownedC, hT] using hI.own
      simp only [reallocOpt]
      rcases hA : h.alloc with ⟨_ | t, h1⟩
      · have := hO0.alloc_none (by rw [hA]); rw [hA] at this
        exact ⟨_, rfl, ⟨by simpa [ownedC, hT] using this, hlen, Nat.le_trans hle hf⟩⟩
      · have := hO0.alloc_some (i := t) (by rw [hA]); rw [hA] at this
        exact hgrow t h1 (this.perm List.perm_middle)
    | some t0 =>
      have hO0 : Own (t0 :: (fm c.tab ++ (c.bufId.toList ++ (c.appTok.toList ++ [c.id])))) L h := by
        apply hI.own.perm
        simp only [ownedC, hT, Option.toList_some, List.singleton_append]
        exact List.perm_middle.symm
      simp only [reallocOpt]
      rcases hA : h.realloc t0 with ⟨_ | t, h1⟩
      · have := hO0.realloc_none (by rw [hA]); rw [hA] at this
        refine ⟨_, rfl, ⟨?_, hlen, Nat.le_trans hle hf⟩⟩
        apply this.perm
        simp only [ownedC, hT, Option.toList_some, List.singleton_append]
        exact List.perm_middle
      · have := hO0.realloc_some (j := t) (by rw [hA]); rw [hA] at this
        exact hgrow t h1 (this.perm List.perm_middle)
  · rename_i hcb
    obtain ⟨r, e, hr1, hr2, hr3⟩ := storeToken_own (bn := bn) (tokLen := tokLen) hI.own (by omega)
    exact ⟨r, e, hr1, by omega, by omega⟩

theorem track_own {hi : Nat} {act : Option Nat} {c : Crcv} {bn tokLen : Nat} {L : List Nat} {h : Heap} (hI : CInv hi c L h)
    (hf : act = some 0 → hi ≤ bn + 1) :
    ∃ r, track act c bn tokLen h = some r ∧ CInv (if act = some 0 then bn + 1 else hi) r.2.1 L r.2.2 := by
  unfold track
  cases act with
  | none => exact ⟨_, rfl, by simpa using hI⟩
  | some a =>
    simp only
    split
    · rename_i ha
      subst ha
      obtain ⟨r, e, hr⟩ := trackEstablish_own (bn := bn) (tokLen := tokLen) hI (hf rfl)
      rw [e]
      exact ⟨_, rfl, by simpa using hr⟩
    · rename_i ha
      have hne : ¬ (some a = some 0) := by simpa using ha
      simp only [hne, if_false]
      split
      · split
        · rename_i hlt
          have hl : bn < c.tab.length := by have := hI.len; omega
          rw [List.getElem?_eq_getElem hl]
          exact ⟨_, rfl, hI⟩
        · exact ⟨_, rfl, hI⟩
      · exact ⟨_, rfl, hI⟩

theorem CInv.mono {hi hi' : Nat} {c : Crcv} {L : List Nat} {h : Heap} (hI : CInv hi c L h) (hh : hi ≤ hi') : CInv hi' c L h :=
  ⟨hI.own, hI.len, Nat.le_trans hI.le hh⟩

theorem newCrcv_own {fetch : Bool} {act : Option Nat} {tokLen : Nat} {L : List Nat} {h : Heap} (hO : Own [] L h) :
    ∃ r, newCrcv fetch act tokLen h = some r ∧
      (match r.1 with | none => Own [] L r.2 | some c => CInv 1 c L r.2) := by
  unfold newCrcv
  rcases hA : h.alloc with ⟨_ | id, h1⟩
  · have := hO.alloc_none (by rw [hA]); rw [hA] at this
    exact ⟨_, rfl, this⟩
  · have h1O := hO.alloc_some (i := id) (by rw [hA]); rw [hA] at h1O
    simp only
    rcases hB : h1.alloc with ⟨_ | b, h2⟩
    · have := h1O.alloc_none (by rw [hB]); rw [hB] at this
      obtain ⟨h', e, hd⟩ := deleteCrcv_own (c := { id := id }) (L := L) (h := h2) (by simpa [ownedC, fm] using this) rfl
      simp only [e]
      exact ⟨_, rfl, hd⟩
    · have h2O := h1O.alloc_some (i := b) (by rw [hB]); rw [hB] at h2O
      simp only
      rcases hC : h2.alloc with ⟨_ | a, h3⟩
      · have := h2O.alloc_none (by rw [hC]); rw [hC] at this
        obtain ⟨h', e, hd⟩ := deleteCrcv_own (c := { id := id, bufId := some b }) (L := L) (h := h3)
          (by simpa [ownedC, fm] using this) rfl
        simp only [e]
        exact ⟨_, rfl, hd⟩
      · have h3O := h2O.alloc_some (i := a) (by rw [hC]); rw [hC] at h3O
        simp only
        have hI0 : CInv 0 { id := id, bufId := some b, appTok := some a } L h3 :=
          ⟨by apply h3O.perm; simp only [ownedC, fm]; simp; exact List.Perm.swap a b [id], rfl, Nat.le_refl _⟩
        split
        · obtain ⟨r, e, hr⟩ := track_own (act := act) (bn := 0) (tokLen := tokLen) hI0 (fun _ => by omega)
          rw [e]
          refine ⟨_, rfl, ?_⟩
          split at hr
          · simpa using hr
          · exact hr.mono (by omega)
        · exact ⟨_, rfl, hI0.mono (by omega)⟩

def SInvC (hi : Nat) (st : Option Crcv) (L : List Nat) (h : Heap) : Prop :=
  match st with
  | none => Own [] L h
  | some c => CInv hi c L h

theorem crcvStep_own {hi : Nat} {st : Option Crcv} {L : List Nat} {h : Heap} {e : CEv} (hI : SInvC hi st L h)
    (hf : evOk hi e = true) : SInvC (nextHi hi e) (crcvStep st h e).2.1 L (crcvStep st h e).2.2 := by
  cases e with
  | new fetch act tl =>
    cases st with
    | some c => exact CInv.mono (hi' := max hi 1) hI (Nat.le_max_left _ _)
    | none =>
      obtain ⟨r, er, hr⟩ := newCrcv_own (fetch := fetch) (act := act) (tokLen := tl) (show Own [] L h from hI)
      simp only [crcvStep, er, nextHi]
      rcases r with ⟨_ | c, h1⟩
      · exact hr
      · exact CInv.mono (hi' := max hi 1) hr (Nat.le_max_right _ _)
  | track act bn tl =>
    cases st with
    | none => exact (show Own [] L h from hI)
    | some c =>
      have hf' : act = some 0 → hi ≤ bn + 1 := by
        intro ha
        simpa [evOk, ha] using hf
      obtain ⟨r, er, hr⟩ := track_own (act := act) (bn := bn) (tokLen := tl) (show CInv hi c L h from hI) hf'
      simp only [crcvStep, er, nextHi]
      exact hr
  | del =>
    cases st with
    | none => exact (show Own [] L h from hI)
    | some c =>
      have hc : CInv hi c L h := hI
      obtain ⟨h', eh, hd⟩ := deleteCrcv_own hc.own hc.len
      simp only [crcvStep, eh]
      exact hd

theorem crcvRun_own (evs : List CEv) : ∀ (hi : Nat) (st : Option Crcv) (L : List Nat) (h : Heap), SInvC hi st L h →
    feasible hi evs = true → ∃ hi', SInvC hi' (crcvRun st h evs).2.1 L (crcvRun st h evs).2.2 := by
  induction evs with
  | nil => intro hi st L h hI _; exact ⟨hi, hI⟩
  | cons e r ih =>
    intro hi st L h hI hf
    simp only [feasible, Bool.and_eq_true] at hf
    have h1 := crcvStep_own (e := e) hI hf.1
    obtain ⟨hi', h2⟩ := ih _ _ L _ h1 hf.2
    exact ⟨hi', by simpa [crcvRun] using h2⟩

theorem crcvCleanup_own {hi : Nat} {st : Option Crcv} {L : List Nat} {h : Heap} (hI : SInvC hi st L h) :
    ∃ h', crcvCleanup st h = some h' ∧ Own [] L h' := by
  cases st with
  | none => exact ⟨h, rfl, hI⟩
  | some c =>
    have hc : CInv hi c L h := hI
    exact deleteCrcv_own hc.own hc.len

end Coap.AllocBlock
