import CoapVerif.Lemmas.Parse
import CoapVerif.Model.StreamReader
namespace Coap
/- Helper lemmas for C05: the header arithmetic of the TCP stream reader (M) against the framing of the specification (S). -/
open Coap.M Coap.M.Stream Coap.Spec.Stream

theorem nib_cases' (n : Nat) (h : n < 16) : (n < 13 ∧ ¬ n = 13 ∧ ¬ n = 14) ∨ n = 13 ∨ n = 14 ∨ n = 15 := by omega

theorem fixedLen_eq (b0 : UInt8) : fixedLen b0 = headerSize .tcp b0.toNat := by
  have := byte_lt b0
  rcases nib_cases (b0.toNat / 16) (by omega) with h | h | h | h
  all_goals simp [fixedLen, extLenBytes, headerSize, h]

theorem fixedLen_ge (b0 : UInt8) : 2 ≤ fixedLen b0 := by simp only [fixedLen]; omega

theorem fixedLen_le (b0 : UInt8) : fixedLen b0 ≤ 6 := by
  simp only [fixedLen, extLenBytes]; split <;> (try split) <;> (try split) <;> omega

theorem tokExtBytes_le (t : Nat) : tokExtBytes t ≤ 2 := by
  simp only [tokExtBytes]; split <;> (try split) <;> omega

theorem hdrLen_le (b0 : UInt8) : hdrLen b0 ≤ 8 := by
  have := fixedLen_le b0; have := tokExtBytes_le (b0.toNat % 16); simp only [hdrLen]; omega

theorem fixedLen_le_hdrLen (b0 : UInt8) : fixedLen b0 ≤ hdrLen b0 := by simp [hdrLen]

theorem tokExt_eq (b0 : UInt8) :
    (if b0.toNat % 16 = 13 then 1 else if b0.toNat % 16 = 14 then 2 else 0) = tokExtBytes (b0.toNat % 16) := rfl

/-- `coap_pdu_parse_size` on the complete header computes the declared length of the specification -/
theorem parseSize_eq_declared (b0 : UInt8) (r : Bytes) (hl : hdrLen b0 ≤ (b0 :: r).length) :
    parseSizeTcp (b0 :: r) = R.ok (declared ((b0 :: r).take (hdrLen b0))) := by
  have hb := byte_lt b0
  rcases nib_cases (b0.toNat / 16) (by omega) with hL | hL | hL | hL <;>
  rcases nib_cases' (b0.toNat % 16) (by omega) with ⟨hT, hT1, hT2⟩ | hT | hT | hT <;>
  rcases r with _ | ⟨a1, _ | ⟨a2, _ | ⟨a3, _ | ⟨a4, _ | ⟨a5, _ | ⟨a6, _ | ⟨a7, r⟩⟩⟩⟩⟩⟩⟩ <;>
  simp [hdrLen, fixedLen, extLenBytes, tokExtBytes, *] at hl <;>
  simp [hdrLen, fixedLen, extLenBytes, tokExtBytes, parseSizeTcp, tcpLenField, tcpTokField, rd, declared, Spec.tcpLen,
    tokFieldLen, Spec.tokenField, Spec.ext, *] <;>
  first
  | (have := byte_lt a2; omega)
  | (have := byte_lt a3; omega)
  | (have := byte_lt a4; omega)
  | (have := byte_lt a5; omega)
  | (have := byte_lt a6; omega)

/-- the token-length extension bytes are part of what the header declares -/
theorem tokExt_lt_declared (b0 : UInt8) (r : Bytes) (hl : hdrLen b0 ≤ (b0 :: r).length) :
    tokExtBytes (b0.toNat % 16) = 0 ∨ tokExtBytes (b0.toNat % 16) < declared ((b0 :: r).take (hdrLen b0)) := by
  have hb := byte_lt b0
  rcases nib_cases (b0.toNat / 16) (by omega) with hL | hL | hL | hL <;>
  rcases nib_cases' (b0.toNat % 16) (by omega) with ⟨hT, hT1, hT2⟩ | hT | hT | hT <;>
  rcases r with _ | ⟨a1, _ | ⟨a2, _ | ⟨a3, _ | ⟨a4, _ | ⟨a5, _ | ⟨a6, _ | ⟨a7, r⟩⟩⟩⟩⟩⟩⟩ <;>
  simp [hdrLen, fixedLen, extLenBytes, tokExtBytes, *] at hl <;>
  simp [hdrLen, fixedLen, extLenBytes, tokExtBytes, declared, Spec.tcpLen,
    tokFieldLen, Spec.tokenField, Spec.ext, *] <;> omega

theorem parsePdu_eq_decode (b0 : UInt8) (r : Bytes) (hl : hdrLen b0 ≤ (b0 :: r).length)
    (ht : (b0 :: r).length = fixedLen b0 + declared ((b0 :: r).take (hdrLen b0))) :
    (parsePdu (headerSize .tcp b0.toNat) (b0 :: r)).toOption = Spec.decode .tcp (b0 :: r) := by
  rw [← parse_tcp_eq]
  congr 1
  have h1 := parseSize_eq_declared b0 r hl
  have h2 : hdrLen b0 = headerSize .tcp b0.toNat + tokExtBytes (b0.toNat % 16) := by
    rw [← fixedLen_eq]; rfl
  rw [fixedLen_eq] at ht
  have h3 : ¬ ((b0 :: r).length < headerSize .tcp b0.toNat +
      (if b0.toNat % 16 = 13 then 1 else if b0.toNat % 16 = 14 then 2 else 0)) := by
    rw [tokExt_eq]; omega
  have h4 : ¬ ((b0 :: r).length ≠ headerSize .tcp b0.toNat + declared ((b0 :: r).take (hdrLen b0))) := by omega
  have h5 : ¬ ((b0 :: r).length = 0) := by simp
  simp only [M.parse, parsePdu, rd_cons_zero, R.bind_ok, h1, if_neg h5, if_neg h3, if_neg h4]
end Coap
