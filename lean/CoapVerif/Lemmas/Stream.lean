import CoapVerif.Lemmas.Parse
import CoapVerif.Model.StreamReader
namespace Coap
end Coap
