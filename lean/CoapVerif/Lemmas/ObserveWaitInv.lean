import CoapVerif.Lemmas.ObserveWait
/-
C06 section (12), the two invariants of `Coap.Observe` runs the `obs_*_partial` theorems used to assume:

  * the send queue is always in deadline order (`coap_insert_node` inserts in order; ACK / RST / cancel / session loss only remove);
  * after `coap_io_prepare_io_lkd` (`io`) nothing in it is due — although the due loop `retransmitDue` only has fuel
    `length + 1`: every node that is due is popped once, what `coap_retransmit` re-inserts is armed strictly later
    (`now + 2000·2^(cnt+1)`), what `coap_check_notify` inserts is armed for `now + 2000`, everything else only removes;
  * and between events nothing is due either (every event that moves the clock or queues something ends in `io`).

`Evolves now a b`: queue `b` comes from queue `a` by removals and ordered insertions of nodes that are not due at `now`.
Core Lean only.
-/
namespace Coap.ObsWait
open Coap.Observe Coap.Generated

/-- deadline order -/
abbrev SortedQ (l : List QNode) : Prop := l.Pairwise (fun a b => a.due ≤ b.due)

/-- number of nodes that are due -/
def dueCnt (now : Nat) (l : List QNode) : Nat := (l.filter (fun q => decide (q.due ≤ now))).length

/-! ### `coap_insert_node` -/

theorem mem_insertNode (n : QNode) : ∀ (l : List QNode) (q : QNode), q ∈ insertNode n l ↔ q = n ∨ q ∈ l
  | [], q => by simp [insertNode]
  | x :: xs, q => by
    unfold insertNode
    split
    · simp
    · simp only [List.mem_cons, mem_insertNode n xs q]
      constructor
      · rintro (h | h | h)
        · exact Or.inr (Or.inl h)
        · exact Or.inl h
        · exact Or.inr (Or.inr h)
      · rintro (h | h | h)
        · exact Or.inr (Or.inl h)
        · exact Or.inl h
        · exact Or.inr (Or.inr h)

theorem insertNode_sorted (n : QNode) : ∀ (l : List QNode), SortedQ l → SortedQ (insertNode n l)
  | [], _ => by simp [insertNode, SortedQ]
  | x :: xs, h => by
    have hx := List.pairwise_cons.mp h
    unfold insertNode
    split
    · rename_i hlt
      refine List.pairwise_cons.mpr ⟨?_, h⟩
      intro q hq
      rcases List.mem_cons.mp hq with rfl | hq
      · omega
      · have := hx.1 q hq; omega
    · rename_i hge
      refine List.pairwise_cons.mpr ⟨?_, insertNode_sorted n xs hx.2⟩
      intro q hq
      rcases (mem_insertNode n xs q).mp hq with rfl | hq
      · omega
      · exact hx.1 q hq

theorem dueCnt_insertNode (now : Nat) (n : QNode) (hn : now < n.due) : ∀ (l : List QNode),
    dueCnt now (insertNode n l) = dueCnt now l
  | [] => by
    have : ¬ n.due ≤ now := by omega
    simp [insertNode, dueCnt, this]
  | x :: xs => by
    have hnd : ¬ n.due ≤ now := by omega
    have ih := dueCnt_insertNode now n hn xs
    unfold insertNode
    split
    · simp [dueCnt, List.filter_cons, hnd]
    · unfold dueCnt at ih ⊢
      simp only [List.filter_cons]
      split
      · simp only [List.length_cons, ih]
      · exact ih

/-! ### how a queue evolves while the clock stands still -/

structure Evolves (now : Nat) (a b : List QNode) : Prop where
  sorted : SortedQ a → SortedQ b
  mem : ∀ q ∈ b, q ∈ a ∨ now < q.due
  cnt : dueCnt now b ≤ dueCnt now a

theorem Evolves.refl (now : Nat) (a : List QNode) : Evolves now a a :=
  ⟨id, fun _ h => Or.inl h, Nat.le_refl _⟩

theorem Evolves.trans {now : Nat} {a b c : List QNode} (h1 : Evolves now a b) (h2 : Evolves now b c) : Evolves now a c :=
  ⟨fun h => h2.sorted (h1.sorted h), fun q hq => by
    rcases h2.mem q hq with h | h
    · exact h1.mem q h
    · exact Or.inr h, Nat.le_trans h2.cnt h1.cnt⟩

theorem Evolves.of_sublist {now : Nat} {a b : List QNode} (h : b.Sublist a) : Evolves now a b :=
  ⟨fun hs => List.Pairwise.sublist h hs, fun _ hq => Or.inl (h.subset hq), (h.filter _).length_le⟩

theorem Evolves.of_insert {now : Nat} (a : List QNode) (n : QNode) (hn : now < n.due) : Evolves now a (insertNode n a) :=
  ⟨insertNode_sorted n a, fun q hq => by
    rcases (mem_insertNode n a q).mp hq with rfl | h
    · exact Or.inr hn
    · exact Or.inl h, Nat.le_of_eq (dueCnt_insertNode now n hn a)⟩

/-- the clock stands still and the queue evolves -/
structure Ev (st st' : State) : Prop where
  now : st'.now = st.now
  q : Evolves st.now st.sendq st'.sendq

theorem Ev.refl (st : State) : Ev st st := ⟨rfl, Evolves.refl _ _⟩
theorem Ev.trans {a b c : State} (h1 : Ev a b) (h2 : Ev b c) : Ev a c :=
  ⟨by rw [h2.now, h1.now], Evolves.trans h1.q (by rw [← h1.now]; exact h2.q)⟩
theorem Ev.of_eq {st st' : State} (hn : st'.now = st.now) (hq : st'.sendq = st.sendq) : Ev st st' :=
  ⟨hn, by rw [hq]; exact Evolves.refl _ _⟩

/-! ### frame: what does not touch the queue or the clock -/

theorem ev_modSess (st : State) (c : Nat) (f : Sess → Sess) : Ev st (modSess st c f) := Ev.of_eq rfl rfl
theorem ev_mapRes (st : State) (f : Res → Res) : Ev st (mapRes st f) := Ev.of_eq rfl rfl
theorem ev_modRes (st : State) (r : Nat) (f : Res → Res) : Ev st (modRes st r f) := Ev.of_eq rfl rfl
theorem ev_refDec (st : State) (c : Nat) : Ev st (refDec st c) := Ev.of_eq rfl rfl
theorem ev_refInc (st : State) (c : Nat) : Ev st (refInc st c) := Ev.of_eq rfl rfl
theorem ev_conDec (st : State) (c : Nat) : Ev st (conDec st c) := Ev.of_eq rfl rfl
theorem ev_txStamp (st : State) (c : Nat) : Ev st (txStamp st c) := Ev.of_eq rfl rfl
theorem ev_rxSession (st : State) (c : Nat) : Ev st (rxSession st c) := Ev.of_eq rfl rfl
theorem ev_newMid (st : State) (c : Nat) : Ev st (newMid st c).2 := Ev.of_eq rfl rfl
theorem ev_addNote (st : State) (c : Nat) (n : Note) : Ev st (addNote st c n) := Ev.of_eq rfl rfl
theorem ev_touchObserver (st : State) (c tok : Nat) : Ev st (touchObserver st c tok) := Ev.of_eq rfl rfl
theorem ev_reclaim (st : State) : Ev st (reclaim st) := Ev.of_eq rfl rfl
theorem ev_pending (st : State) (b : Bool) : Ev st { st with pending := b } := Ev.of_eq rfl rfl
theorem ev_setRes (st : State) (rs : List Res) : Ev st { st with res := rs } := Ev.of_eq rfl rfl

theorem ev_deleteObserver (st : State) (r c tok : Nat) : Ev st (deleteObserver st r c tok) := by
  unfold deleteObserver
  split
  · exact Ev.refl _
  · split
    · exact Ev.of_eq rfl rfl
    · exact Ev.refl _

theorem ev_addObserver (st : State) (r c tok key : Nat) : Ev st (addObserver st r c tok key) := by
  unfold addObserver
  split
  · exact Ev.refl _
  · split
    · exact Ev.refl _
    · split <;> exact Ev.of_eq rfl rfl

theorem ev_deleteObserverRequest (st : State) (r c tok key : Nat) : Ev st (deleteObserverRequest st r c tok key) := by
  unfold deleteObserverRequest
  split
  · exact Ev.refl _
  · split
    · exact ev_deleteObserver _ _ _ _
    · split
      · exact ev_deleteObserver _ _ _ _
      · exact Ev.refl _

theorem ev_releaseAll : ∀ (l : List Sub) (st : State), Ev st (releaseAll st l)
  | [], st => Ev.refl st
  | s :: rest, st => Ev.trans (ev_refDec st s.sess) (ev_releaseAll rest _)

theorem ev_change (st : State) (r : Nat) : Ev st (change st r) := by
  unfold change
  split
  · exact Ev.refl _
  · split
    · exact Ev.refl _
    · exact Ev.of_eq rfl rfl

/-! ### removals -/

theorem ev_filter (st : State) (p : QNode → Bool) : Ev st { st with sendq := st.sendq.filter p } :=
  ⟨rfl, Evolves.of_sublist List.filter_sublist⟩

theorem ev_eraseP (st : State) (p : QNode → Bool) : Ev st { st with sendq := st.sendq.eraseP p } :=
  ⟨rfl, Evolves.of_sublist List.eraseP_sublist⟩

theorem ev_cancelAllMessages (st : State) (c tok : Nat) : Ev st (cancelAllMessages st c tok) := by
  unfold cancelAllMessages
  exact Ev.trans (ev_filter st _) (ev_modSess _ _ _)

theorem foldl_ev {α : Type} (f : State → α → State) (hf : ∀ s x, Ev s (f s x)) : ∀ (l : List α) (st : State),
    Ev st (l.foldl f st)
  | [], st => Ev.refl st
  | x :: xs, st => Ev.trans (hf st x) (foldl_ev f hf xs _)

theorem ev_cancelSent (st : State) (c tok : Nat) : Ev st (cancelSent st c tok) := by
  unfold cancelSent
  apply foldl_ev
  intro s rid
  split
  · exact Ev.trans (ev_cancelAllMessages s c tok) (ev_deleteObserver _ _ _ _)
  · exact Ev.refl _

theorem ev_removeFailedOne (st : State) (x : Res) (c tok : Nat) : Ev st (removeFailedOne st x c tok) := by
  unfold removeFailedOne
  split
  · exact Ev.refl _
  · split
    · exact Ev.trans (ev_cancelAllMessages st c tok) (ev_deleteObserver _ _ _ _)
    · exact ev_modRes _ _ _

theorem ev_handleFailedNotify (st : State) (c tok : Nat) : Ev st (handleFailedNotify st c tok) := by
  unfold handleFailedNotify
  apply foldl_ev
  intro s rid
  split
  · exact ev_removeFailedOne _ _ _ _
  · exact Ev.refl _

theorem ev_handleAck (st : State) (c mid : Nat) : Ev st (handleAck st c mid) := by
  unfold handleAck
  simp only []
  split
  · exact ev_rxSession _ _
  · refine Ev.trans (ev_rxSession st c) ?_
    refine Ev.trans (ev_eraseP (rxSession st c) (matchQ c mid)) ?_
    refine Ev.trans (ev_conDec _ c) ?_
    split
    · exact Ev.trans (ev_touchObserver _ _ _) (ev_refDec _ _)
    · exact ev_refDec _ _

theorem ev_handleRst (st : State) (c mid : Nat) : Ev st (handleRst st c mid) := by
  unfold handleRst
  simp only []
  split
  · refine Ev.trans (ev_rxSession st c) ?_
    refine Ev.trans (ev_eraseP (rxSession st c) (matchQ c mid)) ?_
    refine Ev.trans (ev_conDec _ c) ?_
    exact Ev.trans (ev_cancelSent _ _ _) (ev_refDec _ _)
  · split
    · exact Ev.trans (ev_rxSession st c) (ev_deleteObserver _ _ _ _)
    · exact ev_rxSession _ _

theorem ev_sessionLost (st : State) (c : Nat) : Ev st (sessionLost st c) := by
  unfold sessionLost
  split
  · exact Ev.refl _
  · exact Ev.trans (ev_mapRes st _) (Ev.trans (ev_filter _ _) (ev_modSess _ _ _))

/-! ### insertions: a Confirmable notification, a retransmission -/

theorem obsAck_pos : 0 < obsAckTimeoutTicks := by decide

theorem ev_sendNote (st : State) (c tok code : Nat) (obs : Option Nat) (isCon : Bool) (mid rid ver : Nat) :
    Ev st (sendNote st c tok code obs isCon mid rid ver).1 := by
  unfold sendNote
  cases isCon
  · exact Ev.trans (ev_txStamp st c) (ev_addNote _ _ _)
  · simp only [if_true]
    refine ⟨rfl, ?_⟩
    exact Evolves.of_insert _ _ (by have := obsAck_pos; simp only []; omega)

theorem ev_notifyOne (deleting : Bool) (r : Res) (o : Sub) (st : State) : Ev st (notifyOne deleting r o st).st := by
  unfold notifyOne
  split
  · exact ev_pending _ _
  · split
    · exact ev_pending _ _
    · simp only []
      split
      · exact Ev.trans (ev_newMid st o.sess) (ev_sendNote _ _ _ _ _ _ _ _ _)
      · split
        · exact Ev.trans (ev_newMid st o.sess) (Ev.trans (ev_refDec _ _) (ev_sendNote _ _ _ _ _ _ _ _ _))
        · exact Ev.trans (ev_newMid st o.sess) (ev_sendNote _ _ _ _ _ _ _ _ _)

theorem ev_notifyLoop (deleting : Bool) (r : Res) : ∀ (subs : List Sub) (st : State),
    Ev st (notifyLoop deleting r subs st).st
  | [], st => Ev.refl st
  | o :: rest, st => by
    unfold notifyLoop
    exact Ev.trans (ev_notifyOne deleting r o st) (ev_notifyLoop deleting r rest _)

theorem ev_notifyRes (deleting : Bool) (r : Res) (st : State) : Ev st (notifyRes deleting r st).2.1 := by
  unfold notifyRes
  split
  · exact ev_notifyLoop _ _ _ _
  · exact Ev.refl _

theorem ev_notifyAll : ∀ (rs : List Res) (st : State), Ev st (notifyAll rs st).2.1
  | [], st => Ev.refl st
  | r :: rest, st => by
    rcases h1 : notifyRes false r st with ⟨r', st1, o1⟩
    rcases h2 : notifyAll rest st1 with ⟨rs, st2, o2⟩
    have e1 := ev_notifyRes false r st
    have e2 := ev_notifyAll rest st1
    rw [h1] at e1
    rw [h2] at e2
    simp only [notifyAll, h1, h2]
    exact Ev.trans e1 e2

theorem ev_checkNotify (st : State) : Ev st (checkNotify st).1 := by
  unfold checkNotify
  split
  · rcases h : notifyAll st.res { st with pending := false } with ⟨rs, st1, outs⟩
    have e := ev_notifyAll st.res { st with pending := false }
    rw [h] at e
    exact Ev.trans (ev_pending st false) (Ev.trans e (ev_setRes _ _))
  · exact Ev.refl _

/-- the node `coap_retransmit` puts back: one more retransmission, armed for `now + ACK_TIMEOUT·2^(cnt+1)` -/
def reArm (st : State) (q : QNode) : QNode :=
  { q with cnt := q.cnt + 1, due := st.now + obsAckTimeoutTicks * 2 ^ (q.cnt + 1) }

theorem ev_reinsert (st : State) (q : QNode) : Ev st { st with sendq := insertNode (reArm st q) st.sendq } := by
  refine ⟨rfl, ?_⟩
  apply Evolves.of_insert
  have := Nat.mul_pos obsAck_pos (Nat.two_pow_pos (q.cnt + 1))
  simp only [reArm]
  omega

theorem ev_retransmit (st : State) (q : QNode) : Ev st (retransmit st q).1 := by
  unfold retransmit
  simp only []
  split
  · have e0 := ev_reinsert st q
    exact Ev.trans e0 (Ev.trans (ev_conDec _ q.sess) (Ev.trans (ev_modSess _ q.sess _) (ev_txStamp _ q.sess)))
  · exact Ev.trans (ev_handleFailedNotify st q.sess q.token) (Ev.trans (ev_conDec _ q.sess) (ev_refDec _ q.sess))

/-! ### the due loop has fuel for every due node -/

theorem dueCnt_cons_due (now : Nat) (q : QNode) (qs : List QNode) (h : q.due ≤ now) :
    dueCnt now (q :: qs) = dueCnt now qs + 1 := by
  simp [dueCnt, h]

/-- the head of the queue the loop leaves is not due, provided the fuel exceeds the number of due nodes -/
theorem retransmitDue_spec : ∀ (fuel : Nat) (st : State), dueCnt st.now st.sendq < fuel →
    Ev st (retransmitDue fuel st).1 ∧
    ∀ q qs, (retransmitDue fuel st).1.sendq = q :: qs → (retransmitDue fuel st).1.now < q.due
  | 0, st, h => by omega
  | fuel + 1, st, h => by
    unfold retransmitDue
    cases hq : st.sendq with
    | nil => exact ⟨Ev.refl _, fun q qs h' => by simp [hq] at h'⟩
    | cons q qs =>
      simp only []
      by_cases hdue : q.due ≤ st.now
      · simp only [hdue, if_true]
        rcases h1 : retransmit { st with sendq := qs } q with ⟨st1, o1⟩
        have e1 : Ev { st with sendq := qs } st1 := by
          have := ev_retransmit { st with sendq := qs } q
          rw [h1] at this; exact this
        have hc : dueCnt st1.now st1.sendq < fuel := by
          have := e1.q.cnt
          rw [e1.now]
          simp only [] at this ⊢
          rw [hq, dueCnt_cons_due _ _ _ hdue] at h
          omega
        obtain ⟨e2, hhead⟩ := retransmitDue_spec fuel st1 hc
        rcases h2 : retransmitDue fuel st1 with ⟨st2, o2⟩
        rw [h2] at e2 hhead
        simp only []
        refine ⟨?_, hhead⟩
        have e0 : Ev st { st with sendq := qs } :=
          ⟨rfl, by rw [hq]; exact Evolves.of_sublist (List.sublist_cons_self q qs)⟩
        exact Ev.trans e0 (Ev.trans e1 e2)
      · simp only [hdue, if_false]
        refine ⟨Ev.refl _, ?_⟩
        intro q' qs' h'
        rw [hq] at h'
        cases h'
        omega

theorem dueCnt_le_length (now : Nat) (l : List QNode) : dueCnt now l ≤ l.length :=
  List.length_filter_le _ _

theorem sorted_head_not_due {now : Nat} {l : List QNode} (hs : SortedQ l)
    (hh : ∀ q qs, l = q :: qs → now < q.due) : ∀ q ∈ l, now < q.due := by
  intro q hq
  cases l with
  | nil => cases hq
  | cons x xs =>
    have hx := hh x xs rfl
    rcases List.mem_cons.mp hq with rfl | hm
    · exact hx
    · have := (List.pairwise_cons.mp hs).1 q hm
      omega

/-- **io_spec**: `coap_io_prepare_io_lkd` leaves the clock alone, evolves the queue, and — from a queue in deadline order —
leaves nothing due -/
theorem io_spec (st : State) : Ev st (io st).1 ∧
    (SortedQ st.sendq → SortedQ (io st).1.sendq ∧ ∀ q ∈ (io st).1.sendq, (io st).1.now < q.due) := by
  rcases h1 : checkNotify st with ⟨st1, o1⟩
  rcases h2 : retransmitDue (st1.sendq.length + 1) st1 with ⟨st2, o2⟩
  have hio : (io st).1 = reclaim st2 := by simp only [io, h1, h2]
  have e1 : Ev st st1 := by have := ev_checkNotify st; rw [h1] at this; exact this
  have hsp := retransmitDue_spec (st1.sendq.length + 1) st1 (by
    have := dueCnt_le_length st1.now st1.sendq; omega)
  rw [h2] at hsp
  have e : Ev st (reclaim st2) := Ev.trans e1 (Ev.trans hsp.1 (ev_reclaim st2))
  rw [hio]
  refine ⟨e, fun hs => ?_⟩
  have hs2 : SortedQ (reclaim st2).sendq := e.q.sorted hs
  exact ⟨hs2, sorted_head_not_due hs2 (fun q qs hq => hsp.2 q qs hq)⟩

/-! ### the invariant of runs -/

/-- deadline order, nothing due -/
structure QInv (st : State) : Prop where
  sorted : SortedQ st.sendq
  fresh : ∀ q ∈ st.sendq, st.now < q.due

theorem QInv.of_ev {st st' : State} (h : QInv st) (e : Ev st st') : QInv st' :=
  ⟨e.q.sorted h.sorted, fun q hq => by
    rw [e.now]
    rcases e.q.mem q hq with hm | hlt
    · exact h.fresh q hm
    · exact hlt⟩

theorem qinv_io (st : State) (hs : SortedQ st.sendq) : QInv (io st).1 :=
  ⟨((io_spec st).2 hs).1, ((io_spec st).2 hs).2⟩

theorem qinv_rxThenIo (p : State × List Out) (hs : SortedQ p.1.sendq) : QInv (rxThenIo p).1 := by
  rcases p with ⟨st1, o1⟩
  rcases h : io st1 with ⟨st2, o2⟩
  have := qinv_io st1 hs
  rw [h] at this
  simp only [rxThenIo, h]
  exact this

theorem ev_request (st : State) (obsOpt : Option Nat) (c r tok key : Nat) (con : Bool) (mid : Nat) :
    Ev st (request st obsOpt c r tok key con mid).1 := by
  have h0 := ev_rxSession st c
  unfold request
  simp only []
  split
  · exact Ev.trans h0 (ev_txStamp _ _)
  · rcases obsOpt with _ | _ | _ | n
    · simp only [Option.isSome]
      split
      · exact Ev.trans h0 (ev_txStamp _ _)
      · exact Ev.trans h0 (ev_txStamp _ _)
    · simp only [Option.isSome]
      have e1 := Ev.trans h0 (Ev.trans (ev_addObserver (rxSession st c) r c tok key) (ev_touchObserver _ c tok))
      split
      · exact Ev.trans e1 (Ev.trans (ev_deleteObserver _ r c tok) (ev_txStamp _ _))
      · exact Ev.trans e1 (ev_txStamp _ _)
    · simp only [Option.isSome]
      have e1 := Ev.trans h0 (ev_deleteObserverRequest (rxSession st c) r c tok key)
      split
      · exact Ev.trans e1 (Ev.trans (ev_deleteObserver _ r c tok) (ev_txStamp _ _))
      · exact Ev.trans e1 (ev_txStamp _ _)
    · simp only [Option.isSome]
      split
      · exact Ev.trans h0 (Ev.trans (ev_deleteObserver _ r c tok) (ev_txStamp _ _))
      · exact Ev.trans h0 (ev_txStamp _ _)

theorem ev_deleteResource (st : State) (r : Nat) : Ev st (deleteResource st r).1 := by
  unfold deleteResource
  simp only []
  split
  · exact Ev.refl _
  · split
    · exact ev_change st r
    · rename_i x1 hx1
      rcases h : notifyRes true x1 (change st r) with ⟨x2, st2, outs⟩
      have e := ev_notifyRes true x1 (change st r)
      rw [h] at e
      simp only []
      exact Ev.trans (ev_change st r) (Ev.trans e (Ev.trans (ev_releaseAll _ _) (ev_modRes _ _ _)))

/-- **step_qinv**: every event keeps the send queue in deadline order with nothing due -/
theorem step_qinv (st : State) (e : Event) (h : QInv st) : QInv (step st e).1 := by
  cases e with
  | reg c r tok key con mid =>
    exact qinv_rxThenIo _ (h.of_ev (ev_request st _ c r tok key con mid)).sorted
  | can c r tok key con mid =>
    exact qinv_rxThenIo _ (h.of_ev (ev_request st _ c r tok key con mid)).sorted
  | get c r tok key con mid =>
    exact qinv_rxThenIo _ (h.of_ev (ev_request st _ c r tok key con mid)).sorted
  | chg r => exact h.of_ev (ev_change st r)
  | adv ms => exact qinv_io _ h.sorted
  | ack c n =>
    simp only [step]
    split
    · split
      · exact qinv_rxThenIo _ (h.of_ev (ev_handleAck st c _)).sorted
      · exact h
    · exact h
  | rst c n =>
    simp only [step]
    split
    · exact qinv_rxThenIo _ (h.of_ev (ev_handleRst st c _)).sorted
    · exact h
  | err r b => exact h.of_ev (ev_modRes st r _)
  | lost c => exact h.of_ev (ev_sessionLost st c)
  | del r => exact h.of_ev (ev_deleteResource st r)

theorem run_qinv : ∀ (evs : List Event) (st : State), QInv st → QInv (run st evs).1
  | [], st, h => h
  | e :: es, st, h => by
    rcases h1 : step st e with ⟨st1, o1⟩
    rcases h2 : run st1 es with ⟨st2, o2⟩
    have q1 := step_qinv st e h
    rw [h1] at q1
    have q2 := run_qinv es st1 q1
    rw [h2] at q2
    simp only [run, h1, h2]
    exact q2

theorem qinv_init (res : List Res) (stTicks : Nat) : QInv (init res stTicks) :=
  ⟨List.Pairwise.nil, fun q hq => by cases hq⟩

/-- deadline order alone is kept by every event from EVERY state (no matter what is due) -/
theorem step_sorted (st : State) (e : Event) (h : SortedQ st.sendq) : SortedQ (step st e).1.sendq := by
  cases e with
  | reg c r tok key con mid =>
    exact (qinv_rxThenIo _ ((ev_request st _ c r tok key con mid).q.sorted h)).sorted
  | can c r tok key con mid =>
    exact (qinv_rxThenIo _ ((ev_request st _ c r tok key con mid).q.sorted h)).sorted
  | get c r tok key con mid =>
    exact (qinv_rxThenIo _ ((ev_request st _ c r tok key con mid).q.sorted h)).sorted
  | chg r => exact (ev_change st r).q.sorted h
  | adv ms => exact (qinv_io { st with now := st.now + ms } h).sorted
  | ack c n =>
    simp only [step]
    split
    · split
      · exact (qinv_rxThenIo _ ((ev_handleAck st c _).q.sorted h)).sorted
      · exact h
    · exact h
  | rst c n =>
    simp only [step]
    split
    · exact (qinv_rxThenIo _ ((ev_handleRst st c _).q.sorted h)).sorted
    · exact h
  | err r b => exact (ev_modRes st r _).q.sorted h
  | lost c => exact (ev_sessionLost st c).q.sorted h
  | del r => exact (ev_deleteResource st r).q.sorted h

end Coap.ObsWait
