import CoapVerif.Lemmas.ObserveBase
/-
C11, clause "after deregistration no further notification is sent to that observer" — RUN-LEVEL, for ALL states and
ALL event sequences of M (Model/Observe.lean).

DEFINITIONS  `Absent st r c tok`  (session c, token tok) is listed on no alive resource with id r
             `isRegOf e c r tok`  e is a registration request `.reg c r tok _ _ _`
             `NoteTo out r c tok` out is a notification (`Out.tag = .note`, ANY code) to (c, tok) about r

 (A) ENGINE  `step_absent`, `no_notification_while_absent`: while (c, tok) is not listed on r and no `.reg c r tok …`
             occurs, no output is a notification to (c, tok) about r, and it stays unlisted.  No hypothesis on the state.
             Readings: `never_registered_never_notified`, `no_notification_until_reregistration`.
 (B) every cause of deregistration ESTABLISHES `Absent` (hypotheses: only the run invariants `IdsNodup`, `NoDupSt`,
     `FailZero` — `invariants_of_init` gives them for every reachable state):
       B1  Observe = 1 request              `absent_after_cancel_request`, `absent_after_cancel_request_by_key`
       B2  error response to the request    `absent_after_error_response_request`, `absent_after_error_response_output`
       B3  session loss                     `absent_after_session_loss`
       B4  resource deletion                `absent_after_resource_deletion` (+ `goodbye_on_resource_deletion`, `step_dead`)
       B5  Reset                            `absent_after_reset_partial`  (open finding rst_of_superseded_notification_ignored)
       B6  failed Confirmable notification  `absent_after_failed_notify`, `absent_after_failed_notify_io` (`step_failZero`)
       B7  error response while notifying   `absent_after_error_notification`
 (C) cause followed by ANY continuation without a new registration: `no_notification_after_…_run`,
     headline without invariant hypotheses: `no_notification_after_cancel_request_init`.
 (D) `section Examples`: a concrete non-trivial instance of every theorem (hypotheses discharged by `decide`).

OUT OF SCOPE: retransmissions of an EARLIER Confirmable notification carry `Out.tag = .rtx`; they are not new
notifications.  libcoap's coap_delete_observer does not cancel them (only the Reset / failed-notify paths call
coap_cancel_all_messages, and session loss purges the session's queue), so after an Observe = 1 request or an error
response the peer may still see retransmissions of a notification that was sent BEFORE the deregistration.
-/
namespace Coap.Observe
open Coap.Generated

/-! ### definitions -/

/-- (session c, token tok) is not listed on any alive resource with id r -/
def Absent (st : State) (r c tok : Nat) : Prop :=
  ∀ y ∈ st.res, y.id = r → y.alive = true → ∀ s ∈ y.subs, matchST c tok s = false

def isRegOfB (e : Event) (c r tok : Nat) : Bool :=
  match e with
  | .reg c' r' tok' _ _ _ => c' == c && r' == r && tok' == tok
  | _ => false

/-- the event is a registration request (Observe = 0) of session c on resource r with token tok -/
def isRegOf (e : Event) (c r tok : Nat) : Prop := isRegOfB e c r tok = true

instance (e : Event) (c r tok : Nat) : Decidable (isRegOf e c r tok) :=
  inferInstanceAs (Decidable (isRegOfB e c r tok = true))

theorem isRegOf_iff (e : Event) (c r tok : Nat) : isRegOf e c r tok ↔ ∃ key con mid, e = .reg c r tok key con mid := by
  unfold isRegOf isRegOfB
  cases e <;> simp
  rename_i c' r' tok' key con mid
  constructor
  · rintro ⟨⟨h1, h2⟩, h3⟩; exact ⟨h1, h2, h3⟩
  · rintro ⟨h1, h2, h3⟩; exact ⟨⟨h1, h2⟩, h3⟩

/-- the datagram is a notification (any code) to (session c, token tok) about resource r -/
def NoteTo (o : Out) (r c tok : Nat) : Prop := o.tag = .note ∧ o.c = c ∧ o.token = tok ∧ o.res = r

instance (o : Out) (r c tok : Nat) : Decidable (NoteTo o r c tok) :=
  inferInstanceAs (Decidable (o.tag = .note ∧ o.c = c ∧ o.token = tok ∧ o.res = r))

/-! ### the order along which `Absent` is antitone -/

/-- same id, not revived, the entries' identities are a sub-list -/
structure ResSubLe (r' r : Res) : Prop where
  id : r'.id = r.id
  alive : r'.alive = true → r.alive = true
  subs : IdLe r'.subs r.subs

theorem ResSubLe.refl (r : Res) : ResSubLe r r := ⟨rfl, fun h => h, IdLe.refl _⟩
theorem ResSubLe.trans {a b c : Res} (h1 : ResSubLe a b) (h2 : ResSubLe b c) : ResSubLe a c :=
  ⟨h1.id.trans h2.id, fun h => h2.alive (h1.alive h), h1.subs.trans h2.subs⟩
theorem ResLe.subLe {a b : Res} (h : ResLe a b) : ResSubLe a b := ⟨h.id, fun ha => h.alive ▸ ha, h.subs.idLe⟩

abbrev AllSubLe := All2 ResSubLe
theorem AllSubLe.refl (a : List Res) : AllSubLe a a := All2.refl ResSubLe.refl a
theorem AllSubLe.trans {a b c : List Res} (h1 : AllSubLe a b) (h2 : AllSubLe b c) : AllSubLe a c :=
  All2.trans (R := ResSubLe) (fun _ _ _ h h' => ResSubLe.trans h h') h1 h2
theorem AllLe.subLe {a b : List Res} (h : AllLe a b) : AllSubLe a b := All2.mono (fun h => ResLe.subLe h) h

theorem matchST_congr_ident {s s' : Sub} (h : ident s' = ident s) (c tok : Nat) : matchST c tok s' = matchST c tok s := by
  unfold ident at h
  unfold matchST
  simp only [Prod.mk.injEq] at h
  rw [h.1, h.2.1]

theorem mem_of_idLe {a b : List Sub} (h : IdLe a b) {s : Sub} (hs : s ∈ a) : ∃ s' ∈ b, ident s' = ident s := by
  have := h.subset (List.mem_map_of_mem (f := ident) hs)
  obtain ⟨s', h1, h2⟩ := List.mem_map.mp this
  exact ⟨s', h1, h2⟩

theorem absent_of_subLe {st' st : State} (h : AllSubLe st'.res st.res) {r c tok : Nat} (ha : Absent st r c tok) :
    Absent st' r c tok := by
  unfold Absent
  refine All2.forall (P := fun y => y.id = r → y.alive = true → ∀ s ∈ y.subs, matchST c tok s = false) ?_ h ha
  intro x y hxy hy hid hal s hs
  obtain ⟨s', hs', he⟩ := mem_of_idLe hxy.subs hs
  rw [← matchST_congr_ident he]
  exact hy (hxy.id ▸ hid) (hxy.alive hal) s' hs'

theorem absent_of_le {st' st : State} (h : AllLe st'.res st.res) {r c tok : Nat} (ha : Absent st r c tok) :
    Absent st' r c tok := absent_of_subLe h.subLe ha

theorem absent_of_res_eq {st' st : State} (h : st'.res = st.res) {r c tok : Nat} (ha : Absent st r c tok) :
    Absent st' r c tok := by
  unfold Absent; rw [h]; exact ha

/-! ### the three places where the table is not `AllLe`: notify, change, resource deletion -/

theorem notifyRes_subLe (d : Bool) (r : Res) (st : State) : ResSubLe (notifyRes d r st).1 r := by
  unfold notifyRes
  split
  · exact ⟨rfl, fun h => h, notifyLoop_idLe ..⟩
  · exact ⟨rfl, fun h => h, IdLe.refl _⟩

theorem notifyAll_subLe : ∀ (rs : List Res) (st : State), AllSubLe (notifyAll rs st).1 rs
  | [], _ => All2.nil
  | r :: rest, st => by
    unfold notifyAll
    exact All2.cons (notifyRes_subLe false r st) (notifyAll_subLe rest _)

theorem checkNotify_subLe (st : State) : AllSubLe (checkNotify st).1.res st.res := by
  unfold checkNotify
  split
  · exact notifyAll_subLe ..
  · exact AllSubLe.refl _

theorem io_subLe (st : State) : AllSubLe (io st).1.res st.res := by
  unfold io
  simp only [reclaim_res]
  exact (retransmitDue_le _ _).subLe.trans (checkNotify_subLe st)

theorem map_subLe (l : List Res) (f : Res → Res) (hf : ∀ x, ResSubLe (f x) x) : AllSubLe (l.map f) l := by
  induction l with
  | nil => exact All2.nil
  | cons x xs ih => exact All2.cons (hf x) ih

theorem change_subLe (st : State) (r : Nat) : AllSubLe (change st r).res st.res := by
  unfold change
  split
  · exact AllSubLe.refl _
  · split
    · exact AllSubLe.refl _
    · show AllSubLe (modRes st r _).res st.res
      unfold modRes mapRes
      dsimp only
      apply map_subLe; intro x; split
      · exact ⟨rfl, fun h => h, IdLe.refl _⟩
      · exact ResSubLe.refl x

theorem deleteResource_subLe (st : State) (r : Nat) : AllSubLe (deleteResource st r).1.res st.res := by
  unfold deleteResource
  split
  · exact AllSubLe.refl _
  · dsimp only
    split
    · exact change_subLe st r
    · refine AllSubLe.trans ?_ (change_subLe st r)
      show AllSubLe (modRes _ r _).res _
      unfold modRes mapRes
      dsimp only
      rw [releaseAll_res, notifyRes_res]
      apply map_subLe
      intro x; split
      · exact ⟨rfl, fun h => by simp at h, by unfold IdLe; simp⟩
      · exact ResSubLe.refl x

/-! ### where notifications come from -/

theorem sendNote_snd_eq (st : State) (c tok code : Nat) (obs : Option Nat) (isCon : Bool) (mid rid ver : Nat) :
    (sendNote st c tok code obs isCon mid rid ver).2 =
      { tag := .note, c := c, n := (st.notes c).length, token := tok, code := code, obs := obs,
        kind := if isCon then .con else .non, mid := mid, res := rid, ver := ver } := by
  unfold sendNote; split <;> rfl

theorem notifyOne_from (d : Bool) (r : Res) (o : Sub) (st : State) :
    ∀ out ∈ (notifyOne d r o st).outs, out.res = r.id ∧ out.c = o.sess ∧ out.token = o.token := by
  intro out h
  unfold notifyOne at h
  split at h
  · simp at h
  · split at h
    · simp at h
    · dsimp only at h
      split at h
      · simp [sendNote_snd_eq] at h; rw [h]; exact ⟨rfl, rfl, rfl⟩
      · split at h
        · simp [sendNote_snd_eq] at h; rw [h]; exact ⟨rfl, rfl, rfl⟩
        · simp [sendNote_snd_eq] at h; rw [h]; exact ⟨rfl, rfl, rfl⟩

theorem notifyLoop_from (d : Bool) (r : Res) : ∀ (subs : List Sub) (st : State),
    ∀ out ∈ (notifyLoop d r subs st).outs, out.res = r.id ∧ ∃ o ∈ subs, out.c = o.sess ∧ out.token = o.token
  | [], _, out, h => by simp [notifyLoop] at h
  | a :: rest, st, out, h => by
    unfold notifyLoop at h
    dsimp only at h
    rcases List.mem_append.mp h with h | h
    · obtain ⟨h1, h2, h3⟩ := notifyOne_from d r a st out h
      exact ⟨h1, a, List.mem_cons_self .., h2, h3⟩
    · obtain ⟨h1, o, ho, hh⟩ := notifyLoop_from d r rest _ out h
      exact ⟨h1, o, List.mem_cons_of_mem _ ho, hh⟩

/-- the datagram is addressed to an entry of resource y -/
def FromRes (y : Res) (out : Out) : Prop :=
  y.alive = true ∧ out.res = y.id ∧ ∃ o ∈ y.subs, out.c = o.sess ∧ out.token = o.token

theorem notifyRes_fromRes (d : Bool) (r : Res) (st : State) : ∀ out ∈ (notifyRes d r st).2.2, FromRes r out := by
  intro out h
  unfold notifyRes at h
  split at h
  · rename_i hc
    simp only [Bool.and_eq_true] at hc
    obtain ⟨h1, h2⟩ := notifyLoop_from d r r.subs st out h
    exact ⟨hc.1, h1, h2⟩
  · simp at h

/-- the datagram is addressed to an entry of an alive resource of the table -/
def Listed (l : List Res) (out : Out) : Prop := ∃ y ∈ l, FromRes y out

theorem notifyAll_listed : ∀ (rs : List Res) (st : State), ∀ out ∈ (notifyAll rs st).2.2, Listed rs out
  | [], _, out, h => by simp [notifyAll] at h
  | r :: rest, st, out, h => by
    unfold notifyAll at h
    dsimp only at h
    rcases List.mem_append.mp h with h | h
    · exact ⟨r, List.mem_cons_self .., notifyRes_fromRes false r st out h⟩
    · obtain ⟨y, hy, hh⟩ := notifyAll_listed rest _ out h
      exact ⟨y, List.mem_cons_of_mem _ hy, hh⟩

theorem checkNotify_listed (st : State) : ∀ out ∈ (checkNotify st).2, Listed st.res out := by
  intro out h
  unfold checkNotify at h
  split at h
  · exact notifyAll_listed _ _ out h
  · simp at h

theorem retransmit_tag_rtx (st : State) (q : QNode) : ∀ out ∈ (retransmit st q).2, out.tag = .rtx := by
  intro out h
  unfold retransmit at h
  split at h
  · simp at h; rw [h]
  · simp at h

theorem retransmitDue_tag_rtx : ∀ (fuel : Nat) (st : State), ∀ out ∈ (retransmitDue fuel st).2, out.tag = .rtx
  | 0, _, out, h => by simp [retransmitDue] at h
  | fuel + 1, st, out, h => by
    unfold retransmitDue at h
    split at h
    · simp at h
    · split at h
      · dsimp only at h
        rcases List.mem_append.mp h with h | h
        · exact retransmit_tag_rtx _ _ out h
        · exact retransmitDue_tag_rtx fuel _ out h
      · simp at h

theorem io_listed (st : State) : ∀ out ∈ (io st).2, Listed st.res out ∨ out.tag = .rtx := by
  intro out h
  unfold io at h
  dsimp only at h
  rcases List.mem_append.mp h with h | h
  · exact Or.inl (checkNotify_listed st out h)
  · exact Or.inr (retransmitDue_tag_rtx _ _ out h)

theorem not_noteTo_of_listed {st : State} {r c tok : Nat} (ha : Absent st r c tok) {out : Out} (h : Listed st.res out) :
    ¬ NoteTo out r c tok := by
  intro hn
  obtain ⟨y, hy, hal, hres, o, ho, hc, ht⟩ := h
  obtain ⟨_, h2, h3, h4⟩ := hn
  have := ha y hy (by rw [← hres, h4]) hal o ho
  unfold matchST at this
  simp [← hc, ← ht, h2, h3] at this

theorem not_noteTo_of_tag {out : Out} {r c tok : Nat} (h : out.tag ≠ .note) : ¬ NoteTo out r c tok :=
  fun hn => h hn.1

/-- the property carried through a step -/
def Quiet (p : State × List Out) (r c tok : Nat) : Prop := Absent p.1 r c tok ∧ ∀ out ∈ p.2, ¬ NoteTo out r c tok

theorem io_absent (st : State) (r c tok : Nat) (ha : Absent st r c tok) : Quiet (io st) r c tok := by
  refine ⟨absent_of_subLe (io_subLe st) ha, ?_⟩
  intro out h
  rcases io_listed st out h with h | h
  · exact not_noteTo_of_listed ha h
  · exact not_noteTo_of_tag (by rw [h]; decide)

theorem rxThenIo_absent (p : State × List Out) (r c tok : Nat) (h : Quiet p r c tok) : Quiet (rxThenIo p) r c tok := by
  unfold rxThenIo
  obtain ⟨h1, h2⟩ := io_absent p.1 r c tok h.1
  refine ⟨h1, ?_⟩
  intro out ho
  rcases List.mem_append.mp ho with ho | ho
  · exact h.2 out ho
  · exact h2 out ho

/-! ### a registration of somebody else -/

theorem addToRes_alive (y : Res) (c tok key m : Nat) : (addToRes y c tok key m).alive = y.alive := by
  unfold addToRes; split <;> rfl

theorem addToRes_absent (z : Res) (c' tok' key m c tok : Nat) (hz : ∀ s ∈ z.subs, matchST c tok s = false)
    (hne : ¬ (c' = c ∧ tok' = tok)) : ∀ s ∈ (addToRes z c' tok' key m).subs, matchST c tok s = false := by
  unfold addToRes
  split
  · exact hz
  · dsimp only
    intro s hs
    cases hs with
    | head =>
      unfold matchST
      simp only [Bool.and_eq_false_iff, beq_eq_false_iff_ne, ne_eq]
      by_cases h1 : c' = c
      · exact Or.inr fun h2 => hne ⟨h1, h2⟩
      · exact Or.inl h1
    | tail _ hs' =>
      apply hz
      split at hs'
      · exact List.mem_of_mem_eraseP hs'
      · exact hs'

theorem addObserver_absent (st : State) (r' c' tok' key : Nat) (r c tok : Nat) (ha : Absent st r c tok)
    (hne : ¬ (c' = c ∧ r' = r ∧ tok' = tok)) : Absent (addObserver st r' c' tok' key) r c tok := by
  unfold addObserver
  split
  · exact ha
  · split
    · exact ha
    · dsimp only
      have key : ∀ (st1 : State), st1.res = st.res → ∀ m,
          Absent (refInc (mapRes (newMid st1 c').2 fun y => if y.id = r' ∧ y.alive = true then addToRes y c' tok' key m else y) c') r c tok := by
        intro st1 h1 m y hy hid hal s hs
        simp only [refInc_res, mapRes, newMid_res, h1] at hy
        obtain ⟨z, hz, rfl⟩ := List.mem_map.mp hy
        by_cases hc : z.id = r' ∧ z.alive = true
        · rw [if_pos hc] at hid hal hs
          rw [addToRes_id] at hid
          rw [addToRes_alive] at hal
          exact addToRes_absent z c' tok' key m c tok (ha z hz hid hal) (fun h => hne ⟨h.1, hc.1.symm.trans hid, h.2⟩) s hs
        · rw [if_neg hc] at hid hal hs
          exact ha z hz hid hal s hs
      split
      · exact key _ (refDec_res st c') _
      · exact key _ rfl _

/-! ### requests -/

theorem request_tag_resp (st : State) (o : Option Nat) (c r tok key : Nat) (con : Bool) (mid : Nat) :
    ∀ out ∈ (request st o c r tok key con mid).2, out.tag = .resp := by
  intro out h
  unfold request at h
  dsimp only at h
  split at h
  · simp at h; rw [h]
  · split at h <;> (simp at h; rw [h])

theorem request_state_absent (st : State) (o : Option Nat) (c' r' tok' key : Nat) (con : Bool) (mid : Nat) (r c tok : Nat)
    (ha : Absent st r c tok) (hne : o = some 0 → ¬ (c' = c ∧ r' = r ∧ tok' = tok)) :
    Absent (request st o c' r' tok' key con mid).1 r c tok := by
  unfold request
  dsimp only
  have h0 : Absent (rxSession st c') r c tok := ha
  split
  · exact h0
  · have h1 : Absent (match (generalizing := false) o with
               | some 0 => touchObserver (addObserver (rxSession st c') r' c' tok' key) c' tok'
               | some 1 => deleteObserverRequest (rxSession st c') r' c' tok' key
               | _ => rxSession st c') r c tok := by
      split
      · exact absent_of_le (touchObserver_le ..) (addObserver_absent _ _ _ _ _ _ _ _ h0 (hne rfl))
      · exact absent_of_le (deleteObserverRequest_le ..) h0
      · exact h0
    split
    · split
      · show Absent (deleteObserver _ _ _ _) r c tok
        exact absent_of_le (deleteObserver_le ..) h1
      · exact h1
    · exact h1

theorem request_absent (st : State) (o : Option Nat) (c' r' tok' key : Nat) (con : Bool) (mid : Nat) (r c tok : Nat)
    (ha : Absent st r c tok) (hne : o = some 0 → ¬ (c' = c ∧ r' = r ∧ tok' = tok)) :
    Quiet (request st o c' r' tok' key con mid) r c tok :=
  ⟨request_state_absent st o c' r' tok' key con mid r c tok ha hne,
   fun out h => not_noteTo_of_tag (by rw [request_tag_resp _ _ _ _ _ _ _ _ out h]; decide)⟩

theorem quiet_nil {st : State} {r c tok : Nat} (h : Absent st r c tok) : Quiet (st, []) r c tok :=
  ⟨h, fun _ h => by cases h⟩

/-! ### resource deletion: the 4.04 goodbyes go to entries of the resource as it is -/

theorem deleteResource_listed (st : State) (r : Nat) : ∀ out ∈ (deleteResource st r).2, Listed (change st r).res out := by
  intro out h
  unfold deleteResource at h
  split at h
  · simp at h
  · dsimp only at h
    split at h
    · simp at h
    · rename_i x1 hx1
      exact ⟨x1, (findRes_mem hx1).1, notifyRes_fromRes true x1 _ out h⟩

theorem deleteResource_absent (st : State) (r' : Nat) (r c tok : Nat) (ha : Absent st r c tok) :
    Quiet (deleteResource st r') r c tok := by
  refine ⟨absent_of_subLe (deleteResource_subLe st r') ha, ?_⟩
  intro out h
  have h1 : Absent (change st r') r c tok := absent_of_subLe (change_subLe st r') ha
  exact not_noteTo_of_listed h1 (deleteResource_listed st r' out h)

/-! ### (A) one step, a whole run -/

/-- ENGINE, one event: an observer that is not listed stays unlisted and is sent no notification, unless the event is its
    own registration request. -/
theorem step_absent (st : State) (e : Event) (r c tok : Nat) (h : Absent st r c tok) (hne : ¬ isRegOf e c r tok) :
    Absent (step st e).1 r c tok ∧ ∀ out ∈ (step st e).2, ¬ NoteTo out r c tok := by
  show Quiet (step st e) r c tok
  cases e with
  | reg c' r' tok' key con mid =>
    refine rxThenIo_absent _ r c tok (request_absent st _ c' r' tok' key con mid r c tok h ?_)
    intro _ hh
    apply hne
    unfold isRegOf isRegOfB
    simp [hh.1, hh.2.1, hh.2.2]
  | can c' r' tok' key con mid =>
    exact rxThenIo_absent _ r c tok (request_absent st _ c' r' tok' key con mid r c tok h (fun hh => by cases hh))
  | get c' r' tok' key con mid =>
    exact rxThenIo_absent _ r c tok (request_absent st _ c' r' tok' key con mid r c tok h (fun hh => by cases hh))
  | chg r' => exact quiet_nil (absent_of_subLe (change_subLe st r') h)
  | adv ms => exact io_absent _ r c tok h
  | ack c' n =>
    unfold step; dsimp only
    split
    · split
      · exact rxThenIo_absent _ r c tok (quiet_nil (absent_of_le (handleAck_le ..) h))
      · exact quiet_nil h
    · exact quiet_nil h
  | rst c' n =>
    unfold step; dsimp only
    split
    · exact rxThenIo_absent _ r c tok (quiet_nil (absent_of_le (handleRst_le ..) h))
    · exact quiet_nil h
  | err r' b =>
    refine quiet_nil (absent_of_subLe ?_ h)
    show AllSubLe (modRes st r' _).res st.res
    unfold modRes mapRes
    apply map_subLe; intro x; split
    · exact ⟨rfl, fun h => h, IdLe.refl _⟩
    · exact ResSubLe.refl x
  | lost c' => exact quiet_nil (absent_of_le (sessionLost_le ..) h)
  | del r' => exact deleteResource_absent st r' r c tok h

/-- ENGINE, whole run: from a state in which (c, tok) is not listed on r, no output of ANY event sequence without a
    registration request `.reg c r tok …` is a notification to (c, tok) about r — and the observer is still unlisted at
    the end. -/
theorem no_notification_while_absent (st : State) (evs : List Event) (r c tok : Nat) (h : Absent st r c tok)
    (hne : ∀ e ∈ evs, ¬ isRegOf e c r tok) :
    Absent (run st evs).1 r c tok ∧ ∀ out ∈ (run st evs).2, ¬ NoteTo out r c tok := by
  induction evs generalizing st with
  | nil => exact ⟨h, fun _ h => by cases h⟩
  | cons e es ih =>
    rw [run_cons]
    obtain ⟨h1, h2⟩ := step_absent st e r c tok h (hne e (List.mem_cons_self ..))
    obtain ⟨h3, h4⟩ := ih (step st e).1 h1 (fun e' he' => hne e' (List.mem_cons_of_mem _ he'))
    refine ⟨h3, ?_⟩
    intro out ho
    rcases List.mem_append.mp ho with ho | ho
    · exact h2 out ho
    · exact h4 out ho

/-! ### (B) every cause of deregistration establishes `Absent` -/

theorem absent_of_findRes_none {st : State} {r : Nat} (h : findRes st r = none) (c tok : Nat) : Absent st r c tok := by
  intro y hy hid hal
  unfold findRes at h
  have := List.find?_eq_none.mp h y hy
  simp [hid, hal] at this

theorem absent_of_found {st : State} (hid : IdsNodup st) {r : Nat} {x : Res} (hx : findRes st r = some x) {c tok : Nat}
    (hn : ∀ s ∈ x.subs, matchST c tok s = false) : Absent st r c tok := by
  intro y hy hyid hal
  have := findRes_of_mem hid hy hal
  rw [hyid, hx] at this
  cases this
  exact hn

theorem not_any_matches {l : List Sub} {p : Sub → Bool} (h : ¬ l.any p = true) : ∀ s ∈ l, p s = false := by
  intro s hs
  by_cases hx : p s = true
  · exact absurd (List.any_eq_true.mpr ⟨s, hs, hx⟩) h
  · simpa using hx

/-- coap_delete_observer on a duplicate-free list: the first match is the only one -/
theorem erase_absent (c tok : Nat) : ∀ (l : List Sub), (l.map ident).Pairwise Distinct →
    ∀ s ∈ l.eraseP (matchST c tok), matchST c tok s = false
  | [], _, s, h => by simp at h
  | a :: t, hp, s, hs => by
    rw [List.map_cons, List.pairwise_cons] at hp
    by_cases hm : matchST c tok a = true
    · rw [List.eraseP_cons_of_pos hm] at hs
      have hd := hp.1 (ident s) (List.mem_map_of_mem hs)
      unfold matchST at hm ⊢
      simp at hm ⊢
      intro hc ht
      have := hd (by simp [ident, hm.1, hc])
      simp [ident] at this
      exact this.1 (by rw [hm.2, ht])
    · rw [List.eraseP_cons_of_neg hm] at hs
      cases hs with
      | head => simpa using hm
      | tail _ hs' => exact erase_absent c tok t hp.2 s hs'

/-- coap_delete_observer(resource r, session c, token tok): afterwards (c, tok) is not listed on r -/
theorem deleteObserver_absent (st : State) (r c tok : Nat) (hid : IdsNodup st) (hnd : NoDupSt st) :
    Absent (deleteObserver st r c tok) r c tok := by
  unfold deleteObserver
  split
  · rename_i h; exact absent_of_findRes_none h c tok
  · rename_i x hx
    split
    · intro y hy hyid hal s hs
      simp only [refDec_res, modRes, mapRes] at hy
      obtain ⟨z, hz, rfl⟩ := List.mem_map.mp hy
      by_cases hc : z.id = r
      · rw [if_pos hc] at hs
        exact erase_absent c tok z.subs (hnd z hz) s hs
      · rw [if_neg hc] at hyid; exact absurd hyid hc
    · rename_i hany
      exact absent_of_found hid hx (not_any_matches hany)

theorem deleteObserverRequest_absent (st : State) (r c tok key : Nat) (hid : IdsNodup st) (hnd : NoDupSt st) :
    Absent (deleteObserverRequest st r c tok key) r c tok := by
  unfold deleteObserverRequest
  split
  · rename_i h; exact absent_of_findRes_none h c tok
  · rename_i x hx
    split
    · exact deleteObserver_absent st r c tok hid hnd
    · rename_i hany
      have ha : Absent st r c tok := absent_of_found hid hx (not_any_matches hany)
      split
      · exact absent_of_le (deleteObserver_le ..) ha
      · exact ha

theorem request_cancel_absent (st : State) (c r tok key : Nat) (con : Bool) (mid : Nat) (hid : IdsNodup st) (hnd : NoDupSt st) :
    Absent (request st (some 1) c r tok key con mid).1 r c tok := by
  unfold request
  dsimp only
  split
  · rename_i h
    exact absent_of_findRes_none (st := rxSession st c) h c tok
  · have h1 : Absent (deleteObserverRequest (rxSession st c) r c tok key) r c tok :=
      deleteObserverRequest_absent (rxSession st c) r c tok key hid hnd
    split
    · show Absent (deleteObserver _ _ _ _) r c tok
      exact absent_of_le (deleteObserver_le ..) h1
    · exact h1

/-- B1. Observe = 1 request (coap_delete_observer_request): after the step (c, tok) is not listed on r, and the step itself
    writes no notification to it. -/
theorem absent_after_cancel_request (st : State) (c r tok key : Nat) (con : Bool) (mid : Nat)
    (hid : IdsNodup st) (hnd : NoDupSt st) :
    Absent (step st (.can c r tok key con mid)).1 r c tok ∧
    ∀ out ∈ (step st (.can c r tok key con mid)).2, ¬ NoteTo out r c tok :=
  rxThenIo_absent _ r c tok
    ⟨request_cancel_absent st c r tok key con mid hid hnd,
     fun out h => not_noteTo_of_tag (by rw [request_tag_resp _ _ _ _ _ _ _ _ out h]; decide)⟩

theorem request_error_absent (st : State) (c r tok key : Nat) (con : Bool) (mid : Nat) (x : Res)
    (hid : IdsNodup st) (hnd : NoDupSt st) (hx : findRes st r = some x) (herr : x.err = true) :
    Absent (request st (some 0) c r tok key con mid).1 r c tok := by
  have hx' : findRes (rxSession st c) r = some x := hx
  unfold request
  dsimp only
  rw [hx']
  simp only [herr, if_true, Option.isSome_some]
  show Absent (deleteObserver _ _ _ _) r c tok
  apply deleteObserver_absent
  · show (resIds _).Nodup
    have : resIds (touchObserver (addObserver (rxSession st c) r c tok key) c tok) = resIds st :=
      ((touchObserver_le ..).idLe.ids).trans (addObserver_ids ..)
    rw [this]
    exact hid
  · exact noDupSt_of_le (touchObserver_le ..).idLe (addObserver_noDup _ r c tok key hnd)

/-- B2. error response to a (re-)registration request (handle_request: response class > 2 ⇒ coap_delete_observer):
    the observer that has just been added / refreshed is removed again. -/
theorem absent_after_error_response_request (st : State) (c r tok key : Nat) (con : Bool) (mid : Nat) (x : Res)
    (hid : IdsNodup st) (hnd : NoDupSt st) (hx : findRes st r = some x) (herr : x.err = true) :
    Absent (step st (.reg c r tok key con mid)).1 r c tok ∧
    ∀ out ∈ (step st (.reg c r tok key con mid)).2, ¬ NoteTo out r c tok :=
  rxThenIo_absent _ r c tok
    ⟨request_error_absent st c r tok key con mid x hid hnd hx herr,
     fun out h => not_noteTo_of_tag (by rw [request_tag_resp _ _ _ _ _ _ _ _ out h]; decide)⟩

/-- B3. session loss (coap_session_disconnected_lkd): no entry of session c is left on any resource. -/
theorem absent_after_session_loss (st : State) (c : Nat) (s0 : Sess) (h : st.sess c = some s0) :
    ∀ r tok, Absent (step st (.lost c)).1 r c tok := by
  intro r tok y hy _ _ s hs
  show matchST c tok s = false
  change y ∈ (sessionLost st c).res at hy
  unfold sessionLost at hy
  rw [h] at hy
  simp only [modSess_res, mapRes] at hy
  obtain ⟨z, _, rfl⟩ := List.mem_map.mp hy
  simp at hs
  unfold matchST
  simp [hs.2]

/-- a resource that is not alive lists nobody as far as `Absent` is concerned -/
def Dead (st : State) (r : Nat) : Prop := ∀ y ∈ st.res, y.id = r → y.alive = false

theorem absent_of_dead {st : State} {r : Nat} (h : Dead st r) (c tok : Nat) : Absent st r c tok := by
  intro y hy hid hal
  rw [h y hy hid] at hal
  cases hal

theorem dead_of_findRes_none {st : State} {r : Nat} (h : findRes st r = none) : Dead st r := by
  intro y hy hid
  unfold findRes at h
  have := List.find?_eq_none.mp h y hy
  simpa [hid] using this

theorem deleteResource_dead (st : State) (r : Nat) : Dead (deleteResource st r).1 r := by
  unfold deleteResource
  split
  · rename_i h; exact dead_of_findRes_none h
  · dsimp only
    split
    · rename_i h; exact dead_of_findRes_none h
    · intro y hy hyid
      simp only [modRes, mapRes] at hy
      obtain ⟨z, _, rfl⟩ := List.mem_map.mp hy
      by_cases hc : z.id = r
      · rw [if_pos hc]
      · rw [if_neg hc] at hyid; exact absurd hyid hc

/-- B4. resource deletion (coap_delete_resource): afterwards no alive resource has id r — NO hypothesis needed. -/
theorem absent_after_resource_deletion (st : State) (r : Nat) : ∀ c tok, Absent (step st (.del r)).1 r c tok :=
  fun c tok => absent_of_dead (deleteResource_dead st r) c tok

/-! ### B5. Reset in reply to a notification -/

theorem idsNodup_of_le {st' st : State} (h : AllLe st'.res st.res) (hs : IdsNodup st) : IdsNodup st' := by
  unfold IdsNodup resIds; rw [h.idLe.ids]; exact hs

theorem absent_of_not_id {st : State} {r : Nat} (h : r ∉ resIds st) (c tok : Nat) : Absent st r c tok := by
  intro y hy hid
  exact absurd (hid ▸ List.mem_map_of_mem (f := (·.id)) hy) h

/-- RESOURCES_ITER { … coap_delete_observer(r, session, token) }: every iteration only shrinks the table, the iteration
    for resource id `rid` removes (c, tok) from it, later iterations keep it removed.  `Inv` is any further invariant the
    iteration body needs and preserves. -/
theorem foldl_absent (Inv : State → Prop) (f : State → Nat → State) (c tok : Nat)
    (hle : ∀ s rid, AllLe (f s rid).res s.res)
    (hinv : ∀ s rid, Inv s → Inv (f s rid))
    (hab : ∀ s rid, IdsNodup s → NoDupSt s → Inv s → Absent (f s rid) rid c tok) :
    ∀ (l : List Nat) (s : State), IdsNodup s → NoDupSt s → Inv s → ∀ r', (r' ∈ l ∨ Absent s r' c tok) →
      Absent (l.foldl f s) r' c tok
  | [], s, _, _, _, r', h => by
    cases h with
    | inl h => cases h
    | inr h => exact h
  | rid :: rest, s, hid, hnd, hi, r', h => by
    simp only [List.foldl_cons]
    have hid' := idsNodup_of_le (hle s rid) hid
    have hnd' := noDupSt_of_le (hle s rid).idLe hnd
    apply foldl_absent Inv f c tok hle hinv hab rest (f s rid) hid' hnd' (hinv s rid hi) r'
    rcases h with h | h
    · cases h with
      | head => exact Or.inr (hab s rid hid hnd hi)
      | tail _ h' => exact Or.inl h'
    · exact Or.inr (absent_of_le (hle s rid) h)

/-- coap_cancel(context, sent): (c, tok) is removed from EVERY resource -/
theorem cancelSent_absent (st : State) (c tok : Nat) (hid : IdsNodup st) (hnd : NoDupSt st) :
    ∀ r', Absent (cancelSent st c tok) r' c tok := by
  intro r'
  unfold cancelSent
  refine foldl_absent (fun _ => True) _ c tok ?_ ?_ ?_ _ st hid hnd trivial r' ?_
  · intro s rid; split
    · exact (deleteObserver_le ..).trans (by simp only [cancelAllMessages_res]; exact AllLe.refl _)
    · exact AllLe.refl _
  · intros; trivial
  · intro s rid hid' hnd' _
    split
    · exact deleteObserver_absent (cancelAllMessages s c tok) rid c tok hid' hnd'
    · rename_i h; exact absent_of_findRes_none h c tok
  · by_cases hm : r' ∈ st.res.map (·.id)
    · exact Or.inl hm
    · exact Or.inr (absent_of_not_id hm c tok)

/-- Reset naming a Confirmable notification that is still being retransmitted: its token leaves EVERY resource. -/
theorem handleRst_absent_queued (st : State) (c mid : Nat) (q : QNode) (hid : IdsNodup st) (hnd : NoDupSt st)
    (hq : (rxSession st c).sendq.find? (matchQ c mid) = some q) :
    ∀ r', Absent (handleRst st c mid) r' c q.token := by
  intro r'
  unfold handleRst
  dsimp only
  rw [hq]
  dsimp only
  show Absent (cancelSent _ c q.token) r' c q.token
  refine cancelSent_absent _ c q.token ?_ ?_ r'
  · exact hid
  · exact hnd

/-- Reset naming the LATEST notification of an entry (no queued Confirmable with that mid): that entry is removed. -/
theorem handleRst_absent_latest (st : State) (c mid rid tok : Nat) (hid : IdsNodup st) (hnd : NoDupSt st)
    (hq : (rxSession st c).sendq.find? (matchQ c mid) = none)
    (hm : findByMid (rxSession st c).res c mid = some (rid, tok)) :
    Absent (handleRst st c mid) rid c tok := by
  unfold handleRst
  dsimp only
  rw [hq]
  dsimp only
  rw [hm]
  exact deleteObserver_absent (rxSession st c) rid c tok hid hnd

theorem step_rst_eq (st : State) (c n : Nat) (nt : Note) (hl : lookupNote st c n = some nt) :
    step st (.rst c n) = rxThenIo (handleRst st c nt.mid, []) := by
  simp only [step, hl]

/-- B5. Reset in reply to a notification — `_partial`: the Reset is attributed to an observer only when it names
    (i) a Confirmable notification still in the send queue (then the token of that notification is removed from EVERY
    resource), or (ii) the LATEST notification sent to an entry (`obs->pdu->mid`).
    FULL STATEMENT (false for the pinned libcoap, open finding `rst_of_superseded_notification_ignored`, witness in
    Props/C11.lean `supersededWitness`): "for e = .rst c n where the n-th server-initiated datagram to c was ANY notification
    sent to entry (c, tok) of resource r under its current registration, Absent (step st e).1 r c tok".  Missing: libcoap
    keeps no record of the message ids of earlier Non-confirmable notifications, so such a Reset changes nothing. -/
theorem absent_after_reset_partial (st : State) (c n : Nat) (nt : Note) (hid : IdsNodup st) (hnd : NoDupSt st)
    (hl : lookupNote st c n = some nt) :
    (∀ q, (rxSession st c).sendq.find? (matchQ c nt.mid) = some q →
        ∀ r', Absent (step st (.rst c n)).1 r' c q.token ∧ ∀ out ∈ (step st (.rst c n)).2, ¬ NoteTo out r' c q.token) ∧
    (∀ rid tok, (rxSession st c).sendq.find? (matchQ c nt.mid) = none →
        findByMid (rxSession st c).res c nt.mid = some (rid, tok) →
        Absent (step st (.rst c n)).1 rid c tok ∧ ∀ out ∈ (step st (.rst c n)).2, ¬ NoteTo out rid c tok) := by
  rw [step_rst_eq st c n nt hl]
  constructor
  · intro q hq r'
    exact rxThenIo_absent _ r' c q.token (quiet_nil (handleRst_absent_queued st c nt.mid q hid hnd hq r'))
  · intro rid tok hq hm
    exact rxThenIo_absent _ rid c tok (quiet_nil (handleRst_absent_latest st c nt.mid rid tok hid hnd hq hm))

/-! ### B6. failed Confirmable notification (retransmission give-up)
`COAP_OBS_MAX_FAIL = 1` in the pinned build (Generated/ObsConst.lean): the first failure removes the observer.  In M this
shows as the invariant "every entry has fail_cnt = 0" (`FailZero`), under which the increment branch of
coap_remove_failed_observers is unreachable. -/

def FZ (y : Res) : Prop := ∀ s ∈ y.subs, s.failCnt = 0
def FailZero (st : State) : Prop := ∀ y ∈ st.res, FZ y

theorem failZero_mapRes (st : State) (f : Res → Res) (hf : ∀ x, FZ x → FZ (f x)) (h : FailZero st) : FailZero (mapRes st f) := by
  intro y hy
  simp only [mapRes] at hy
  obtain ⟨z, hz, rfl⟩ := List.mem_map.mp hy
  exact hf z (h z hz)

theorem failZero_modRes (st : State) (r : Nat) (f : Res → Res) (hf : ∀ x, FZ x → FZ (f x)) (h : FailZero st) :
    FailZero (modRes st r f) := by
  apply failZero_mapRes _ _ _ h
  intro x hx; split
  · exact hf x hx
  · exact hx

theorem failZero_of_res_eq {st' st : State} (he : st'.res = st.res) (h : FailZero st) : FailZero st' := by
  unfold FailZero; rw [he]; exact h

theorem modFirst_all (P : Sub → Prop) (p : Sub → Bool) (f : Sub → Sub) (hf : ∀ s, P s → P (f s)) :
    ∀ l : List Sub, (∀ s ∈ l, P s) → ∀ s ∈ modFirst p f l, P s
  | [], _, s, hs => by simp [modFirst] at hs
  | a :: t, h, s, hs => by
    unfold modFirst at hs
    split at hs
    · cases hs with
      | head => exact hf a (h a (List.mem_cons_self ..))
      | tail _ hs' => exact h s (List.mem_cons_of_mem _ hs')
    · cases hs with
      | head => exact h a (List.mem_cons_self ..)
      | tail _ hs' => exact modFirst_all P p f hf t (fun s hs => h s (List.mem_cons_of_mem _ hs)) s hs'

theorem deleteObserver_fz (st : State) (r c tok : Nat) (h : FailZero st) : FailZero (deleteObserver st r c tok) := by
  unfold deleteObserver
  split
  · exact h
  · split
    · show FailZero (modRes st r _)
      apply failZero_modRes _ _ _ _ h
      intro x hx s hs
      exact hx s (List.mem_of_mem_eraseP hs)
    · exact h

theorem touchObserver_fz (st : State) (c tok : Nat) (h : FailZero st) : FailZero (touchObserver st c tok) := by
  unfold touchObserver
  apply failZero_mapRes _ _ _ h
  intro x hx; split
  · exact modFirst_all (fun s => s.failCnt = 0) _ _ (fun _ _ => rfl) x.subs hx
  · exact hx

theorem addToRes_fz (y : Res) (c tok key m : Nat) (h : FZ y) : FZ (addToRes y c tok key m) := by
  unfold addToRes
  split
  · exact h
  · intro s hs
    dsimp only at hs
    cases hs with
    | head => rfl
    | tail _ hs' =>
      apply h
      split at hs'
      · exact List.mem_of_mem_eraseP hs'
      · exact hs'

theorem addObserver_fz (st : State) (r c tok key : Nat) (h : FailZero st) : FailZero (addObserver st r c tok key) := by
  unfold addObserver
  split
  · exact h
  · split
    · exact h
    · dsimp only
      have key : ∀ (st1 : State), st1.res = st.res → ∀ m,
          FailZero (refInc (mapRes (newMid st1 c).2 fun y => if y.id = r ∧ y.alive = true then addToRes y c tok key m else y) c) := by
        intro st1 h1 m
        show FailZero (mapRes (newMid st1 c).2 _)
        apply failZero_mapRes
        · intro x hx; split
          · exact addToRes_fz x c tok key m hx
          · exact hx
        · exact failZero_of_res_eq (st := st) (by rw [newMid_res, h1]) h
      split
      · exact key _ (refDec_res st c) _
      · exact key _ rfl _

theorem deleteObserverRequest_fz (st : State) (r c tok key : Nat) (h : FailZero st) :
    FailZero (deleteObserverRequest st r c tok key) := by
  unfold deleteObserverRequest
  split
  · exact h
  · split
    · exact deleteObserver_fz _ _ _ _ h
    · split
      · exact deleteObserver_fz _ _ _ _ h
      · exact h

theorem request_fz (st : State) (o : Option Nat) (c r tok key : Nat) (con : Bool) (mid : Nat) (h : FailZero st) :
    FailZero (request st o c r tok key con mid).1 := by
  unfold request
  dsimp only
  have h0 : FailZero (rxSession st c) := h
  split
  · exact h0
  · have h1 : FailZero (match o with
               | some 0 => touchObserver (addObserver (rxSession st c) r c tok key) c tok
               | some 1 => deleteObserverRequest (rxSession st c) r c tok key
               | _ => rxSession st c) := by
      split
      · exact touchObserver_fz _ _ _ (addObserver_fz _ _ _ _ _ h0)
      · exact deleteObserverRequest_fz _ _ _ _ _ h0
      · exact h0
    split
    · split
      · show FailZero (deleteObserver _ _ _ _)
        exact deleteObserver_fz _ _ _ _ h1
      · exact h1
    · exact h1

theorem notifyOne_fz (d : Bool) (r : Res) (o : Sub) (st : State) (ho : o.failCnt = 0) :
    ∀ s ∈ (notifyOne d r o st).sub.toList, s.failCnt = 0 := by
  intro s hs
  unfold notifyOne at hs
  split at hs
  · simp at hs; rw [hs]; exact ho
  · split at hs
    · simp at hs; rw [hs]; exact ho
    · dsimp only at hs
      split at hs
      · simp at hs; rw [hs]; exact ho
      · split at hs
        · simp at hs
        · simp at hs; rw [hs]; exact ho

theorem notifyLoop_fz (d : Bool) (r : Res) : ∀ (subs : List Sub) (st : State), (∀ s ∈ subs, s.failCnt = 0) →
    ∀ s ∈ (notifyLoop d r subs st).subs, s.failCnt = 0
  | [], _, _, s, hs => by simp [notifyLoop] at hs
  | a :: rest, st, h, s, hs => by
    unfold notifyLoop at hs
    dsimp only at hs
    rcases List.mem_append.mp hs with hs | hs
    · exact notifyOne_fz d r a st (h a (List.mem_cons_self ..)) s hs
    · exact notifyLoop_fz d r rest _ (fun s hs => h s (List.mem_cons_of_mem _ hs)) s hs

theorem notifyRes_fz (d : Bool) (r : Res) (st : State) (h : FZ r) : FZ (notifyRes d r st).1 := by
  unfold notifyRes
  split
  · exact notifyLoop_fz d r r.subs st h
  · exact h

theorem notifyAll_fz : ∀ (rs : List Res) (st : State), (∀ y ∈ rs, FZ y) → ∀ y ∈ (notifyAll rs st).1, FZ y
  | [], _, _, y, hy => by simp [notifyAll] at hy
  | r :: rest, st, h, y, hy => by
    unfold notifyAll at hy
    dsimp only at hy
    cases hy with
    | head => exact notifyRes_fz false r st (h r (List.mem_cons_self ..))
    | tail _ hy' => exact notifyAll_fz rest _ (fun y hy => h y (List.mem_cons_of_mem _ hy)) y hy'

theorem checkNotify_fz (st : State) (h : FailZero st) : FailZero (checkNotify st).1 := by
  unfold checkNotify
  split
  · exact notifyAll_fz _ _ h
  · exact h

theorem removeFailedOne_fz (st : State) (x : Res) (c tok : Nat) (hx : x ∈ st.res) (h : FailZero st) :
    FailZero (removeFailedOne st x c tok) := by
  unfold removeFailedOne
  split
  · exact h
  · rename_i o ho
    split
    · exact deleteObserver_fz _ _ _ _ (failZero_of_res_eq (cancelAllMessages_res st c tok) h)
    · rename_i hc
      exfalso
      apply hc
      rw [h x hx o (List.mem_of_find?_eq_some ho)]
      decide

theorem foldl_state_inv {α : Type} (P : State → Prop) (f : State → α → State) (hf : ∀ s x, P s → P (f s x)) :
    ∀ (l : List α) (st : State), P st → P (l.foldl f st)
  | [], _, h => h
  | x :: xs, st, h => by
    simp only [List.foldl_cons]
    exact foldl_state_inv P f hf xs _ (hf st x h)

theorem failedStep_fz (c tok : Nat) (s : State) (rid : Nat) (h : FailZero s) :
    FailZero (match findRes s rid with
              | some x => removeFailedOne s x c tok
              | none => s) := by
  split
  · rename_i x hx
    exact removeFailedOne_fz s x c tok (findRes_mem hx).1 h
  · exact h

theorem handleFailedNotify_fz (st : State) (c tok : Nat) (h : FailZero st) : FailZero (handleFailedNotify st c tok) := by
  unfold handleFailedNotify
  exact foldl_state_inv FailZero _ (fun s rid hs => failedStep_fz c tok s rid hs) _ st h

theorem retransmit_fz (st : State) (q : QNode) (h : FailZero st) : FailZero (retransmit st q).1 := by
  unfold retransmit
  split
  · exact h
  · exact handleFailedNotify_fz _ _ _ h

theorem retransmitDue_fz : ∀ (fuel : Nat) (st : State), FailZero st → FailZero (retransmitDue fuel st).1
  | 0, _, h => h
  | fuel + 1, st, h => by
    unfold retransmitDue
    split
    · exact h
    · split
      · exact retransmitDue_fz fuel _ (retransmit_fz { st with sendq := _ } _ h)
      · exact h

theorem io_fz (st : State) (h : FailZero st) : FailZero (io st).1 := by
  unfold io
  dsimp only
  exact failZero_of_res_eq (reclaim_res _) (retransmitDue_fz _ _ (checkNotify_fz st h))

theorem rxThenIo_fz (p : State × List Out) (h : FailZero p.1) : FailZero (rxThenIo p).1 := by
  unfold rxThenIo
  exact io_fz p.1 h

theorem handleAck_fz (st : State) (c mid : Nat) (h : FailZero st) : FailZero (handleAck st c mid) := by
  unfold handleAck
  dsimp only
  split
  · exact h
  · split
    · show FailZero (touchObserver _ _ _)
      exact touchObserver_fz _ _ _ h
    · exact h

theorem cancelSent_fz (st : State) (c tok : Nat) (h : FailZero st) : FailZero (cancelSent st c tok) := by
  unfold cancelSent
  refine foldl_state_inv FailZero _ ?_ _ st h
  intro s rid hs
  split
  · exact deleteObserver_fz _ _ _ _ (failZero_of_res_eq (cancelAllMessages_res s c tok) hs)
  · exact hs

theorem handleRst_fz (st : State) (c mid : Nat) (h : FailZero st) : FailZero (handleRst st c mid) := by
  unfold handleRst
  dsimp only
  split
  · show FailZero (cancelSent _ _ _)
    exact cancelSent_fz _ _ _ h
  · split
    · exact deleteObserver_fz _ _ _ _ h
    · exact h

theorem sessionLost_fz (st : State) (c : Nat) (h : FailZero st) : FailZero (sessionLost st c) := by
  unfold sessionLost
  split
  · exact h
  · show FailZero (mapRes st _)
    apply failZero_mapRes _ _ _ h
    intro x hx s hs
    exact hx s (List.mem_filter.mp hs).1

theorem change_fz (st : State) (r : Nat) (h : FailZero st) : FailZero (change st r) := by
  unfold change
  split
  · exact h
  · split
    · exact h
    · show FailZero (modRes st r _)
      exact failZero_modRes _ _ _ (fun x hx => hx) h

theorem deleteResource_fz (st : State) (r : Nat) (h : FailZero st) : FailZero (deleteResource st r).1 := by
  unfold deleteResource
  split
  · exact h
  · dsimp only
    split
    · exact change_fz st r h
    · apply failZero_modRes
      · intro x _ s hs; cases hs
      · refine failZero_of_res_eq ?_ (change_fz st r h)
        rw [releaseAll_res, notifyRes_res]

/-- `FailZero` is an invariant of every step … -/
theorem step_failZero (st : State) (e : Event) (h : FailZero st) : FailZero (step st e).1 := by
  cases e with
  | reg c r tok key con mid => exact rxThenIo_fz _ (request_fz st _ c r tok key con mid h)
  | can c r tok key con mid => exact rxThenIo_fz _ (request_fz st _ c r tok key con mid h)
  | get c r tok key con mid => exact rxThenIo_fz _ (request_fz st _ c r tok key con mid h)
  | chg r => exact change_fz st r h
  | adv ms => exact io_fz _ h
  | ack c n =>
    unfold step; dsimp only
    split
    · split
      · exact rxThenIo_fz _ (handleAck_fz st c _ h)
      · exact h
    · exact h
  | rst c n =>
    unfold step; dsimp only
    split
    · exact rxThenIo_fz _ (handleRst_fz st c _ h)
    · exact h
  | err r b => exact failZero_modRes _ _ _ (fun x hx => hx) h
  | lost c => exact sessionLost_fz st c h
  | del r => exact deleteResource_fz st r h

/-- … hence of every run (it holds in every initial state: no entries). -/
theorem run_failZero (st : State) (evs : List Event) (h : FailZero st) : FailZero (run st evs).1 :=
  run_inv_state (P := FailZero) step_failZero evs st h

theorem failZero_init (res : List Res) (stTicks : Nat) (h : ∀ y ∈ res, y.subs = []) : FailZero (init res stTicks) := by
  intro y hy s hs
  rw [h y hy] at hs
  cases hs

theorem removeFailedOne_absent (s : State) (x : Res) (rid c tok : Nat) (hx : findRes s rid = some x)
    (hid : IdsNodup s) (hnd : NoDupSt s) (hfz : FailZero s) : Absent (removeFailedOne s x c tok) rid c tok := by
  obtain ⟨hmem, hxid, _⟩ := findRes_mem hx
  unfold removeFailedOne
  split
  · rename_i hnone
    apply absent_of_found hid hx
    intro s' hs'
    simpa using List.find?_eq_none.mp hnone s' hs'
  · rename_i o ho
    split
    · rw [hxid]
      exact deleteObserver_absent (cancelAllMessages s c tok) rid c tok hid hnd
    · rename_i hc
      exfalso
      apply hc
      rw [hfz x hmem o (List.mem_of_find?_eq_some ho)]
      decide

/-- coap_handle_failed_notify: (c, tok) is removed from EVERY resource -/
theorem handleFailedNotify_absent (st : State) (c tok : Nat) (hid : IdsNodup st) (hnd : NoDupSt st) (hfz : FailZero st) :
    ∀ r', Absent (handleFailedNotify st c tok) r' c tok := by
  intro r'
  unfold handleFailedNotify
  refine foldl_absent FailZero _ c tok ?_ ?_ ?_ _ st hid hnd hfz r' ?_
  · intro s rid; split
    · exact removeFailedOne_le ..
    · exact AllLe.refl _
  · intro s rid hs; exact failedStep_fz c tok s rid hs
  · intro s rid hid' hnd' hfz'
    split
    · rename_i x hx; exact removeFailedOne_absent s x rid c tok hx hid' hnd' hfz'
    · rename_i h; exact absent_of_findRes_none h c tok
  · by_cases hm : r' ∈ st.res.map (·.id)
    · exact Or.inl hm
    · exact Or.inr (absent_of_not_id hm c tok)

/-- B6. failed Confirmable notification: when coap_retransmit gives up on node q (`cnt = COAP_DEFAULT_MAX_RETRANSMIT`),
    the observer (q.sess, q.token) is removed from EVERY resource.  `FailZero` is an invariant of every run
    (`run_failZero`), like `IdsNodup` and `NoDupSt`. -/
theorem absent_after_failed_notify (st : State) (q : QNode) (hid : IdsNodup st) (hnd : NoDupSt st) (hfz : FailZero st)
    (hq : ¬ q.cnt < obsMaxRetransmit) : ∀ r', Absent (retransmit st q).1 r' q.sess q.token := by
  intro r'
  unfold retransmit
  rw [if_neg hq]
  show Absent (handleFailedNotify st q.sess q.token) r' q.sess q.token
  exact handleFailedNotify_absent st q.sess q.token hid hnd hfz r'

/-! ### (C) run-level corollaries: cause, then ANY continuation without a new registration of that observer -/

theorem quiet_run_after_step (st : State) (e : Event) (evs : List Event) (r c tok : Nat)
    (h : Absent (step st e).1 r c tok ∧ ∀ out ∈ (step st e).2, ¬ NoteTo out r c tok)
    (hne : ∀ e ∈ evs, ¬ isRegOf e c r tok) :
    Absent (run st (e :: evs)).1 r c tok ∧ ∀ out ∈ (run st (e :: evs)).2, ¬ NoteTo out r c tok := by
  rw [run_cons]
  obtain ⟨h3, h4⟩ := no_notification_while_absent _ evs r c tok h.1 hne
  refine ⟨h3, ?_⟩
  intro out ho
  rcases List.mem_append.mp ho with ho | ho
  · exact h.2 out ho
  · exact h4 out ho

/-- Observe = 1 request: from the cancel request on — its own I/O step included — nothing is notified to (c, tok) about r
    until (c, tok) registers on r again. -/
theorem no_notification_after_cancel_request_run (st : State) (c r tok key : Nat) (con : Bool) (mid : Nat) (evs : List Event)
    (hid : IdsNodup st) (hnd : NoDupSt st) (hne : ∀ e ∈ evs, ¬ isRegOf e c r tok) :
    ∀ out ∈ (run st (.can c r tok key con mid :: evs)).2, ¬ NoteTo out r c tok :=
  (quiet_run_after_step st _ evs r c tok (absent_after_cancel_request st c r tok key con mid hid hnd) hne).2

/-- error response to the registration request itself (the handler answers 4.xx/5.xx) -/
theorem no_notification_after_error_response_run (st : State) (c r tok key : Nat) (con : Bool) (mid : Nat) (x : Res)
    (evs : List Event) (hid : IdsNodup st) (hnd : NoDupSt st) (hx : findRes st r = some x) (herr : x.err = true)
    (hne : ∀ e ∈ evs, ¬ isRegOf e c r tok) :
    ∀ out ∈ (run st (.reg c r tok key con mid :: evs)).2, ¬ NoteTo out r c tok :=
  (quiet_run_after_step st _ evs r c tok (absent_after_error_response_request st c r tok key con mid x hid hnd hx herr) hne).2

/-- session loss: nothing is notified to ANY (resource, token) of that session until that very (resource, token) is
    registered again (by a new session of the same peer). -/
theorem no_notification_after_session_loss_run (st : State) (c : Nat) (s0 : Sess) (evs : List Event)
    (h : st.sess c = some s0) (r tok : Nat) (hne : ∀ e ∈ evs, ¬ isRegOf e c r tok) :
    ∀ out ∈ (run st (.lost c :: evs)).2, ¬ NoteTo out r c tok :=
  (quiet_run_after_step st _ evs r c tok ⟨absent_after_session_loss st c s0 h r tok, fun _ ho => by cases ho⟩ hne).2

/-- Reset (`_partial` for the reason given at `absent_after_reset_partial`) -/
theorem no_notification_after_reset_run_partial (st : State) (c n : Nat) (nt : Note) (evs : List Event)
    (hid : IdsNodup st) (hnd : NoDupSt st) (hl : lookupNote st c n = some nt) :
    (∀ q, (rxSession st c).sendq.find? (matchQ c nt.mid) = some q →
        ∀ r', (∀ e ∈ evs, ¬ isRegOf e c r' q.token) →
          ∀ out ∈ (run st (.rst c n :: evs)).2, ¬ NoteTo out r' c q.token) ∧
    (∀ rid tok, (rxSession st c).sendq.find? (matchQ c nt.mid) = none →
        findByMid (rxSession st c).res c nt.mid = some (rid, tok) →
        (∀ e ∈ evs, ¬ isRegOf e c rid tok) →
          ∀ out ∈ (run st (.rst c n :: evs)).2, ¬ NoteTo out rid c tok) := by
  obtain ⟨h1, h2⟩ := absent_after_reset_partial st c n nt hid hnd hl
  constructor
  · intro q hq r' hne
    exact (quiet_run_after_step st _ evs r' c q.token (h1 q hq r') hne).2
  · intro rid tok hq hm hne
    exact (quiet_run_after_step st _ evs rid c tok (h2 rid tok hq hm) hne).2

/-- failed Confirmable notification: from the state in which coap_retransmit gave up on node q -/
theorem no_notification_after_failed_notify_run (st : State) (q : QNode) (evs : List Event)
    (hid : IdsNodup st) (hnd : NoDupSt st) (hfz : FailZero st) (hq : ¬ q.cnt < obsMaxRetransmit)
    (r' : Nat) (hne : ∀ e ∈ evs, ¬ isRegOf e q.sess r' q.token) :
    ∀ out ∈ (run (retransmit st q).1 evs).2, ¬ NoteTo out r' q.sess q.token :=
  (no_notification_while_absent _ evs r' q.sess q.token (absent_after_failed_notify st q hid hnd hfz hq r') hne).2

/-! ### a deleted resource stays deleted: not even a registration request brings notifications back -/

structure ResAlLe (r' r : Res) : Prop where
  id : r'.id = r.id
  alive : r'.alive = true → r.alive = true

theorem ResAlLe.refl (r : Res) : ResAlLe r r := ⟨rfl, fun h => h⟩
theorem ResAlLe.trans {a b c : Res} (h1 : ResAlLe a b) (h2 : ResAlLe b c) : ResAlLe a c :=
  ⟨h1.id.trans h2.id, fun h => h2.alive (h1.alive h)⟩
theorem ResSubLe.alLe {a b : Res} (h : ResSubLe a b) : ResAlLe a b := ⟨h.id, h.alive⟩

abbrev AllAlLe := All2 ResAlLe
theorem AllAlLe.refl (a : List Res) : AllAlLe a a := All2.refl ResAlLe.refl a
theorem AllAlLe.trans {a b c : List Res} (h1 : AllAlLe a b) (h2 : AllAlLe b c) : AllAlLe a c :=
  All2.trans (R := ResAlLe) (fun _ _ _ h h' => ResAlLe.trans h h') h1 h2
theorem AllSubLe.alLe {a b : List Res} (h : AllSubLe a b) : AllAlLe a b := All2.mono (fun h => ResSubLe.alLe h) h
theorem AllLe.alLe {a b : List Res} (h : AllLe a b) : AllAlLe a b := h.subLe.alLe

theorem dead_of_alLe {st' st : State} (h : AllAlLe st'.res st.res) {r : Nat} (hd : Dead st r) : Dead st' r := by
  unfold Dead
  refine All2.forall (P := fun y => y.id = r → y.alive = false) ?_ h hd
  intro x y hxy hy hid
  cases hx : x.alive with
  | false => rfl
  | true =>
    have := hy (hxy.id ▸ hid)
    rw [hxy.alive hx] at this
    cases this

theorem map_alLe (l : List Res) (f : Res → Res) (hf : ∀ x, ResAlLe (f x) x) : AllAlLe (l.map f) l := by
  induction l with
  | nil => exact All2.nil
  | cons x xs ih => exact All2.cons (hf x) ih

theorem addObserver_alLe (st : State) (r c tok key : Nat) : AllAlLe (addObserver st r c tok key).res st.res := by
  unfold addObserver
  split
  · exact AllAlLe.refl _
  · split
    · exact AllAlLe.refl _
    · dsimp only
      have key : ∀ (st1 : State), st1.res = st.res → ∀ m,
          AllAlLe (refInc (mapRes (newMid st1 c).2 fun y => if y.id = r ∧ y.alive = true then addToRes y c tok key m else y) c).res st.res := by
        intro st1 h1 m
        simp only [refInc_res, mapRes, newMid_res, h1]
        apply map_alLe; intro x; split
        · exact ⟨addToRes_id .., fun h => by rwa [addToRes_alive] at h⟩
        · exact ResAlLe.refl x
      split
      · exact key _ (refDec_res st c) _
      · exact key _ rfl _

theorem request_alLe (st : State) (o : Option Nat) (c r tok key : Nat) (con : Bool) (mid : Nat) :
    AllAlLe (request st o c r tok key con mid).1.res st.res := by
  unfold request
  dsimp only
  split
  · exact AllAlLe.refl _
  · have h1 : AllAlLe (match o with
               | some 0 => touchObserver (addObserver (rxSession st c) r c tok key) c tok
               | some 1 => deleteObserverRequest (rxSession st c) r c tok key
               | _ => rxSession st c).res st.res := by
      split
      · exact (touchObserver_le ..).alLe.trans (addObserver_alLe (rxSession st c) r c tok key)
      · exact (deleteObserverRequest_le (rxSession st c) r c tok key).alLe
      · exact AllAlLe.refl _
    split
    · split
      · show AllAlLe (deleteObserver _ _ _ _).res st.res
        exact (deleteObserver_le ..).alLe.trans h1
      · exact h1
    · exact h1

theorem rxThenIo_alLe (p : State × List Out) : AllAlLe (rxThenIo p).1.res p.1.res := by
  unfold rxThenIo
  exact (io_subLe p.1).alLe

/-- no step revives a resource (or changes an id) -/
theorem step_alLe (st : State) (e : Event) : AllAlLe (step st e).1.res st.res := by
  cases e with
  | reg c r tok key con mid => exact (rxThenIo_alLe _).trans (request_alLe st _ c r tok key con mid)
  | can c r tok key con mid => exact (rxThenIo_alLe _).trans (request_alLe st _ c r tok key con mid)
  | get c r tok key con mid => exact (rxThenIo_alLe _).trans (request_alLe st _ c r tok key con mid)
  | chg r => exact (change_subLe st r).alLe
  | adv ms => exact (io_subLe _).alLe
  | ack c n =>
    unfold step; dsimp only
    split
    · split
      · exact (rxThenIo_alLe _).trans (handleAck_le ..).alLe
      · exact AllAlLe.refl _
    · exact AllAlLe.refl _
  | rst c n =>
    unfold step; dsimp only
    split
    · exact (rxThenIo_alLe _).trans (handleRst_le ..).alLe
    · exact AllAlLe.refl _
  | err r b =>
    show AllAlLe (modRes st r _).res st.res
    unfold modRes mapRes
    apply map_alLe; intro x; split
    · exact ⟨rfl, fun h => h⟩
    · exact ResAlLe.refl x
  | lost c => exact (sessionLost_le ..).alLe
  | del r => exact (deleteResource_subLe st r).alLe

/-- one event on a state in which resource r is dead: it stays dead and NOTHING is notified about it — registration
    requests included (they are answered 4.04) -/
theorem step_dead (st : State) (e : Event) (r : Nat) (h : Dead st r) :
    Dead (step st e).1 r ∧ ∀ c tok, ∀ out ∈ (step st e).2, ¬ NoteTo out r c tok := by
  refine ⟨dead_of_alLe (step_alLe st e) h, ?_⟩
  intro c tok
  by_cases hreg : isRegOf e c r tok
  · obtain ⟨key, con, mid, rfl⟩ := (isRegOf_iff e c r tok).mp hreg
    refine (rxThenIo_absent _ r c tok ⟨?_, ?_⟩).2
    · exact absent_of_dead (dead_of_alLe (request_alLe st _ c r tok key con mid) h) c tok
    · exact fun out ho => not_noteTo_of_tag (by rw [request_tag_resp _ _ _ _ _ _ _ _ out ho]; decide)
  · exact (step_absent st e r c tok (absent_of_dead h c tok) hreg).2

theorem run_dead (st : State) (evs : List Event) (r : Nat) (h : Dead st r) :
    Dead (run st evs).1 r ∧ ∀ c tok, ∀ out ∈ (run st evs).2, ¬ NoteTo out r c tok := by
  induction evs generalizing st with
  | nil => exact ⟨h, fun _ _ _ ho => by cases ho⟩
  | cons e es ih =>
    rw [run_cons]
    obtain ⟨h1, h2⟩ := step_dead st e r h
    obtain ⟨h3, h4⟩ := ih (step st e).1 h1
    refine ⟨h3, ?_⟩
    intro c tok out ho
    rcases List.mem_append.mp ho with ho | ho
    · exact h2 c tok out ho
    · exact h4 c tok out ho

/-- resource deletion: after the `.del r` step NO event sequence whatsoever (registration requests included) makes the
    server notify anybody about r.  No hypothesis. -/
theorem no_notification_after_resource_deletion_run (st : State) (r : Nat) (evs : List Event) :
    ∀ c tok, ∀ out ∈ (run (step st (.del r)).1 evs).2, ¬ NoteTo out r c tok :=
  (run_dead _ evs r (deleteResource_dead st r)).2

/-! ### what the `.del` step itself sends: the 4.04 goodbyes, without Observe -/

theorem notifyOne_goodbye (r : Res) (o : Sub) (st : State) :
    ∀ out ∈ (notifyOne true r o st).outs, out.code = 132 ∧ out.obs = none := by
  intro out h
  unfold notifyOne at h
  split at h
  · simp at h
  · split at h
    · simp at h
    · simp [sendNote_snd_eq] at h
      rw [h]; exact ⟨rfl, rfl⟩

theorem notifyLoop_goodbye (r : Res) : ∀ (subs : List Sub) (st : State),
    ∀ out ∈ (notifyLoop true r subs st).outs, out.code = 132 ∧ out.obs = none
  | [], _, out, h => by simp [notifyLoop] at h
  | a :: rest, st, out, h => by
    unfold notifyLoop at h
    dsimp only at h
    rcases List.mem_append.mp h with h | h
    · exact notifyOne_goodbye r a st out h
    · exact notifyLoop_goodbye r rest _ out h

theorem goodbye_on_resource_deletion (st : State) (r : Nat) :
    ∀ out ∈ (step st (.del r)).2, out.code = 132 ∧ out.obs = none := by
  intro out h
  change out ∈ (deleteResource st r).2 at h
  unfold deleteResource at h
  split at h
  · simp at h
  · dsimp only at h
    split at h
    · simp at h
    · unfold notifyRes at h
      split at h
      · exact notifyLoop_goodbye _ _ _ out h
      · simp at h

/-! ### B6 at the level of the I/O step: a node given up by the retransmission loop of coap_io_prepare_io -/

/-- node q is popped and given up (`cnt = COAP_DEFAULT_MAX_RETRANSMIT`) by the loop `retransmitDue fuel st` -/
inductive GivenUp : Nat → State → QNode → Prop where
  | here {fuel : Nat} {st : State} {q : QNode} {qs : List QNode} :
      st.sendq = q :: qs → q.due ≤ st.now → ¬ q.cnt < obsMaxRetransmit → GivenUp (fuel + 1) st q
  | later {fuel : Nat} {st : State} {q0 q : QNode} {qs : List QNode} :
      st.sendq = q0 :: qs → q0.due ≤ st.now → GivenUp fuel (retransmit { st with sendq := qs } q0).1 q →
      GivenUp (fuel + 1) st q

theorem retransmitDue_cons (fuel : Nat) (st : State) (q : QNode) (qs : List QNode) (hsq : st.sendq = q :: qs)
    (hdue : q.due ≤ st.now) :
    (retransmitDue (fuel + 1) st).1 = (retransmitDue fuel (retransmit { st with sendq := qs } q).1).1 := by
  conv => lhs; unfold retransmitDue
  split
  · rename_i h; rw [hsq] at h; cases h
  · rename_i q' qs' h
    rw [hsq] at h
    cases h
    rw [if_pos hdue]

theorem givenUp_absent {fuel : Nat} {st : State} {q : QNode} (hg : GivenUp fuel st q) :
    IdsNodup st → NoDupSt st → FailZero st → ∀ r', Absent (retransmitDue fuel st).1 r' q.sess q.token := by
  induction hg with
  | @here fuel st q qs hsq hdue hq =>
    intro hid hnd hfz r'
    rw [retransmitDue_cons _ _ _ _ hsq hdue]
    exact absent_of_le (retransmitDue_le _ _) (absent_after_failed_notify { st with sendq := qs } q hid hnd hfz hq r')
  | @later fuel st q0 q qs hsq hdue _ ih =>
    intro hid hnd hfz r'
    rw [retransmitDue_cons _ _ _ _ hsq hdue]
    have hle := retransmit_le { st with sendq := qs } q0
    exact ih (idsNodup_of_le hle hid) (noDupSt_of_le hle.idLe hnd) (retransmit_fz { st with sendq := qs } q0 hfz) r'

/-- failed Confirmable notification inside coap_io_prepare_io: after the I/O step the observer of the node that was given
    up is unlisted on every resource.  (Notifications written by the notify pass of the SAME I/O step precede the
    give-up, so the claim is about the state.) -/
theorem absent_after_failed_notify_io (st : State) (q : QNode) (hid : IdsNodup st) (hnd : NoDupSt st) (hfz : FailZero st)
    (hg : GivenUp ((checkNotify st).1.sendq.length + 1) (checkNotify st).1 q) :
    ∀ r', Absent (io st).1 r' q.sess q.token := by
  intro r'
  have hid1 : IdsNodup (checkNotify st).1 := by
    unfold IdsNodup resIds; rw [(checkNotify_idLe st).ids]; exact hid
  have hnd1 : NoDupSt (checkNotify st).1 := noDupSt_of_le (checkNotify_idLe st) hnd
  have hfz1 : FailZero (checkNotify st).1 := checkNotify_fz st hfz
  have := givenUp_absent hg hid1 hnd1 hfz1 r'
  unfold io
  dsimp only
  exact absent_of_res_eq (reclaim_res _) this

theorem no_notification_after_failed_notify_io_run (st : State) (q : QNode) (evs : List Event)
    (hid : IdsNodup st) (hnd : NoDupSt st) (hfz : FailZero st)
    (hg : GivenUp ((checkNotify st).1.sendq.length + 1) (checkNotify st).1 q)
    (r' : Nat) (hne : ∀ e ∈ evs, ¬ isRegOf e q.sess r' q.token) :
    ∀ out ∈ (run (io st).1 evs).2, ¬ NoteTo out r' q.sess q.token :=
  (no_notification_while_absent _ evs r' q.sess q.token (absent_after_failed_notify_io st q hid hnd hfz hg r') hne).2

/-- … as an event: the I/O step `.adv ms` (clock advanced by ms, then coap_io_prepare_io) -/
theorem no_notification_after_failed_notify_adv_run (st : State) (ms : Nat) (q : QNode) (evs : List Event)
    (hid : IdsNodup st) (hnd : NoDupSt st) (hfz : FailZero st)
    (hg : GivenUp ((checkNotify { st with now := st.now + ms }).1.sendq.length + 1) (checkNotify { st with now := st.now + ms }).1 q)
    (r' : Nat) (hne : ∀ e ∈ evs, ¬ isRegOf e q.sess r' q.token) :
    ∀ out ∈ (run (step st (.adv ms)).1 evs).2, ¬ NoteTo out r' q.sess q.token :=
  no_notification_after_failed_notify_io_run { st with now := st.now + ms } q evs hid hnd hfz hg r' hne

/-! ### B7. error response produced while notifying (coap_notify_observers: response class > 2 ⇒ coap_delete_observer)
The cause is visible in the outputs: a notification with code 4.04 (132).  Whenever ANY step writes one to (c, tok) about
r, (c, tok) is unlisted on r after that step. -/

theorem distinct_no_match {a b : Sub} (h : Distinct (ident a) (ident b)) {c tok : Nat} (ha : matchST c tok a = true) :
    matchST c tok b = false := by
  unfold matchST at ha ⊢
  simp at ha ⊢
  intro hc ht
  have := h (by simp [ident, ha.1, hc])
  simp [ident] at this
  exact this.1 (by rw [ha.2, ht])

theorem notifyOne_err (r : Res) (a : Sub) (st : State) (out : Out) (h : out ∈ (notifyOne false r a st).outs)
    (hc : out.code = 132) : (notifyOne false r a st).sub = none := by
  unfold notifyOne at h ⊢
  by_cases h1 : (!r.dirty && !a.dirty) = true
  · simp [h1] at h
  · by_cases h2 : backPressured st r a = true
    · simp [h1, h2] at h
    · by_cases h3 : r.err = true
      · simp [h1, h2, h3]
      · simp [h1, h2, h3, sendNote_snd_eq] at h
        rw [h] at hc
        simp at hc

theorem notifyLoop_err (r : Res) (c tok : Nat) (out : Out) (hc : out.c = c) (ht : out.token = tok) (hcode : out.code = 132) :
    ∀ (subs : List Sub) (st : State), (subs.map ident).Pairwise Distinct → out ∈ (notifyLoop false r subs st).outs →
      ∀ s ∈ (notifyLoop false r subs st).subs, matchST c tok s = false
  | [], _, _, h, _, _ => by simp [notifyLoop] at h
  | a :: rest, st, hp, h, s, hs => by
    rw [List.map_cons, List.pairwise_cons] at hp
    unfold notifyLoop at h hs
    dsimp only at h hs
    rcases List.mem_append.mp h with h | h
    · -- the visit of `a` wrote the error response: `a` is (c, tok), it is dropped, nobody else is (c, tok)
      obtain ⟨_, h2, h3⟩ := notifyOne_from false r a st out h
      have hma : matchST c tok a = true := by unfold matchST; simp [← h2, ← h3, hc, ht]
      rw [notifyOne_err r a st out h hcode] at hs
      simp only [Option.toList_none, List.nil_append] at hs
      obtain ⟨s', hs', he⟩ := mem_of_idLe (notifyLoop_idLe false r rest _) hs
      rw [← matchST_congr_ident he]
      exact distinct_no_match (hp.1 (ident s') (List.mem_map_of_mem hs')) hma
    · obtain ⟨_, o, ho, h2, h3⟩ := notifyLoop_from false r rest _ out h
      have hmo : matchST c tok o = true := by unfold matchST; simp [← h2, ← h3, hc, ht]
      rcases List.mem_append.mp hs with hs | hs
      · have hsub := notifyOne_ident false r a st
        have hmem : ident s ∈ [ident a] := hsub.subset (List.mem_map_of_mem hs)
        have he : ident s = ident a := by simpa using hmem
        rw [matchST_congr_ident he]
        cases hx : matchST c tok a with
        | false => rfl
        | true =>
          have := distinct_no_match (hp.1 (ident o) (List.mem_map_of_mem ho)) hx
          rw [hmo] at this; cases this
      · exact notifyLoop_err r c tok out hc ht hcode rest _ hp.2 h s hs

theorem notifyRes_err (r0 : Res) (st : State) (c tok : Nat) (out : Out) (hc : out.c = c) (ht : out.token = tok)
    (hcode : out.code = 132) (hnd : NoDup r0) (h : out ∈ (notifyRes false r0 st).2.2) :
    ∀ s ∈ (notifyRes false r0 st).1.subs, matchST c tok s = false := by
  unfold notifyRes at h ⊢
  split
  · rename_i hcnd
    rw [if_pos hcnd] at h
    exact notifyLoop_err r0 c tok out hc ht hcode r0.subs st hnd h
  · rename_i hcnd
    rw [if_neg hcnd] at h
    simp at h

theorem notifyAll_err (r c tok : Nat) (out : Out) (hn : NoteTo out r c tok) (hcode : out.code = 132) :
    ∀ (rs : List Res) (st : State), (rs.map (·.id)).Nodup → (∀ y ∈ rs, NoDup y) → out ∈ (notifyAll rs st).2.2 →
      ∀ y' ∈ (notifyAll rs st).1, y'.id = r → y'.alive = true → ∀ s ∈ y'.subs, matchST c tok s = false
  | [], _, _, _, h, _, _, _, _ => by simp [notifyAll] at h
  | r0 :: rest, st, hids, hnd, h, y', hy', hyid, hal => by
    rw [List.map_cons, List.nodup_cons] at hids
    unfold notifyAll at h hy'
    dsimp only at h hy'
    have hrest_ids : (notifyAll rest (notifyRes false r0 st).2.1).1.map (·.id) = rest.map (·.id) :=
      (notifyAll_idLe rest _).ids
    rcases List.mem_append.mp h with h | h
    · have hr0 : r0.id = r := by
        have := (notifyRes_fromRes false r0 st out h).2.1
        rw [← this]; exact hn.2.2.2
      cases hy' with
      | head => exact notifyRes_err r0 st c tok out hn.2.1 hn.2.2.1 hcode (hnd r0 (List.mem_cons_self ..)) h
      | tail _ hy'' =>
        exfalso
        apply hids.1
        rw [← hrest_ids, hr0, ← hyid]
        exact List.mem_map_of_mem (f := (·.id)) hy''
    · obtain ⟨y, hy, hfrom⟩ := notifyAll_listed rest _ out h
      have hyr : y.id = r := by rw [← hfrom.2.1]; exact hn.2.2.2
      cases hy' with
      | head =>
        exfalso
        apply hids.1
        have : (notifyRes false r0 st).1.id = r0.id := (notifyRes_idLe false r0 st).id
        rw [← this, hyid, ← hyr]
        exact List.mem_map_of_mem (f := (·.id)) hy
      | tail _ hy'' =>
        exact notifyAll_err r c tok out hn hcode rest _ hids.2 (fun y hy => hnd y (List.mem_cons_of_mem _ hy)) h y' hy'' hyid hal

theorem checkNotify_err (st : State) (r c tok : Nat) (out : Out) (hid : IdsNodup st) (hnd : NoDupSt st)
    (hn : NoteTo out r c tok) (hcode : out.code = 132) (h : out ∈ (checkNotify st).2) :
    Absent (checkNotify st).1 r c tok := by
  unfold checkNotify at h ⊢
  split
  · rename_i hp
    rw [if_pos hp] at h
    exact notifyAll_err r c tok out hn hcode st.res _ hid hnd h
  · rename_i hp
    rw [if_neg hp] at h
    simp at h

theorem io_err (st : State) (r c tok : Nat) (out : Out) (hid : IdsNodup st) (hnd : NoDupSt st)
    (hn : NoteTo out r c tok) (hcode : out.code = 132) (h : out ∈ (io st).2) : Absent (io st).1 r c tok := by
  unfold io at h ⊢
  dsimp only at h ⊢
  rcases List.mem_append.mp h with h | h
  · exact absent_of_res_eq (reclaim_res _)
      (absent_of_le (retransmitDue_le _ _) (checkNotify_err st r c tok out hid hnd hn hcode h))
  · have := retransmitDue_tag_rtx _ _ out h
    rw [hn.1] at this; cases this

theorem rxThenIo_err (p : State × List Out) (r c tok : Nat) (out : Out) (hid : IdsNodup p.1) (hnd : NoDupSt p.1)
    (hp : ∀ o ∈ p.2, o.tag ≠ .note)
    (hn : NoteTo out r c tok) (hcode : out.code = 132) (h : out ∈ (rxThenIo p).2) : Absent (rxThenIo p).1 r c tok := by
  unfold rxThenIo at h ⊢
  dsimp only at h ⊢
  rcases List.mem_append.mp h with h | h
  · exact absurd hn.1 (hp out h)
  · exact io_err p.1 r c tok out hid hnd hn hcode h

/-- B7. error response while notifying — FULL strength, every event: if a step writes a notification with code 4.04 to
    (c, tok) about r (the handler failed while the notify loop visited the entry, or the resource is being deleted), then
    after that step (c, tok) is unlisted on r. -/
theorem absent_after_error_notification (st : State) (e : Event) (r c tok : Nat) (out : Out)
    (hid : IdsNodup st) (hnd : NoDupSt st) (ho : out ∈ (step st e).2) (hn : NoteTo out r c tok) (hcode : out.code = 132) :
    Absent (step st e).1 r c tok := by
  have hreq : ∀ (o : Option Nat) (c' r' tok' key : Nat) (con : Bool) (mid : Nat),
      out ∈ (rxThenIo (request st o c' r' tok' key con mid)).2 →
      Absent (rxThenIo (request st o c' r' tok' key con mid)).1 r c tok := by
    intro o c' r' tok' key con mid h
    refine rxThenIo_err _ r c tok out ?_ (request_noDup st o c' r' tok' key con mid hnd) ?_ hn hcode h
    · unfold IdsNodup; rw [request_ids]; exact hid
    · intro o' ho'; rw [request_tag_resp _ _ _ _ _ _ _ _ o' ho']; decide
  cases e with
  | reg c' r' tok' key con mid => exact hreq _ c' r' tok' key con mid ho
  | can c' r' tok' key con mid => exact hreq _ c' r' tok' key con mid ho
  | get c' r' tok' key con mid => exact hreq _ c' r' tok' key con mid ho
  | chg r' => cases ho
  | adv ms => exact io_err _ r c tok out hid hnd hn hcode ho
  | ack c' n =>
    unfold step at ho ⊢; dsimp only at ho ⊢
    split
    · rename_i nt hl
      rw [hl] at ho
      dsimp only at ho
      split
      · rename_i hcon
        rw [if_pos hcon] at ho
        exact rxThenIo_err _ r c tok out (idsNodup_of_le (handleAck_le ..) hid) (noDupSt_of_le (handleAck_le ..).idLe hnd)
          (fun _ h => by cases h) hn hcode ho
      · rename_i hcon
        rw [if_neg hcon] at ho
        cases ho
    · rename_i hl
      rw [hl] at ho
      cases ho
  | rst c' n =>
    unfold step at ho ⊢; dsimp only at ho ⊢
    split
    · rename_i nt hl
      rw [hl] at ho
      dsimp only at ho
      exact rxThenIo_err _ r c tok out (idsNodup_of_le (handleRst_le ..) hid) (noDupSt_of_le (handleRst_le ..).idLe hnd)
        (fun _ h => by cases h) hn hcode ho
    · rename_i hl
      rw [hl] at ho
      cases ho
  | err r' b => cases ho
  | lost c' => cases ho
  | del r' =>
    have hres : r' = r := by
      change out ∈ (deleteResource st r').2 at ho
      unfold deleteResource at ho
      split at ho
      · cases ho
      · dsimp only at ho
        split at ho
        · cases ho
        · rename_i x1 hx1
          have h1 := (notifyRes_fromRes true x1 _ out ho).2.1
          rw [← (findRes_mem hx1).2.1, ← h1]; exact hn.2.2.2
    rw [← hres]
    exact absent_of_dead (deleteResource_dead st r') c tok

/-- … run-level: from the step that wrote the error notification on, nothing more (the error notification itself is the
    last one; it is in the outputs of that step, so the claim is about the outputs of the continuation). -/
theorem no_notification_after_error_notification_run (st : State) (e : Event) (evs : List Event) (r c tok : Nat) (out : Out)
    (hid : IdsNodup st) (hnd : NoDupSt st) (ho : out ∈ (step st e).2) (hn : NoteTo out r c tok) (hcode : out.code = 132)
    (hne : ∀ e ∈ evs, ¬ isRegOf e c r tok) :
    ∀ out' ∈ (run (step st e).1 evs).2, ¬ NoteTo out' r c tok :=
  (no_notification_while_absent _ evs r c tok (absent_after_error_notification st e r c tok out hid hnd ho hn hcode) hne).2

/-! ### decidability of `Absent` (for the concrete instances), the invariants at start -/

instance (st : State) (r c tok : Nat) : Decidable (Absent st r c tok) :=
  inferInstanceAs (Decidable (∀ y ∈ st.res, y.id = r → y.alive = true → ∀ s ∈ y.subs, matchST c tok s = false))

theorem noDupSt_init (res : List Res) (stTicks : Nat) (h : ∀ y ∈ res, y.subs = []) : NoDupSt (init res stTicks) := by
  intro y hy
  unfold NoDup
  rw [h y hy]
  exact List.Pairwise.nil

/-! ### B2', the cause read off the outputs: ANY 4.xx response to the registration request (4.04 because the resource
does not exist / was deleted, or the handler's verdict) leaves the requester unlisted -/

theorem notifyOne_tag_note (d : Bool) (r : Res) (o : Sub) (st : State) : ∀ out ∈ (notifyOne d r o st).outs, out.tag = .note := by
  intro out h
  unfold notifyOne at h
  split at h
  · simp at h
  · split at h
    · simp at h
    · dsimp only at h
      split at h
      · simp [sendNote_snd_eq] at h; rw [h]
      · split at h
        · simp [sendNote_snd_eq] at h; rw [h]
        · simp [sendNote_snd_eq] at h; rw [h]

theorem notifyLoop_tag_note (d : Bool) (r : Res) : ∀ (subs : List Sub) (st : State),
    ∀ out ∈ (notifyLoop d r subs st).outs, out.tag = .note
  | [], _, out, h => by simp [notifyLoop] at h
  | a :: rest, st, out, h => by
    unfold notifyLoop at h
    dsimp only at h
    rcases List.mem_append.mp h with h | h
    · exact notifyOne_tag_note d r a st out h
    · exact notifyLoop_tag_note d r rest _ out h

theorem notifyRes_tag_note (d : Bool) (r : Res) (st : State) : ∀ out ∈ (notifyRes d r st).2.2, out.tag = .note := by
  intro out h
  unfold notifyRes at h
  split at h
  · exact notifyLoop_tag_note d r r.subs st out h
  · simp at h

theorem notifyAll_tag_note : ∀ (rs : List Res) (st : State), ∀ out ∈ (notifyAll rs st).2.2, out.tag = .note
  | [], _, out, h => by simp [notifyAll] at h
  | r :: rest, st, out, h => by
    unfold notifyAll at h
    dsimp only at h
    rcases List.mem_append.mp h with h | h
    · exact notifyRes_tag_note false r st out h
    · exact notifyAll_tag_note rest _ out h

/-- an I/O step writes notifications and retransmissions, never responses -/
theorem io_tag_ne_resp (st : State) : ∀ out ∈ (io st).2, out.tag ≠ .resp := by
  intro out h
  unfold io at h
  dsimp only at h
  rcases List.mem_append.mp h with h | h
  · unfold checkNotify at h
    split at h
    · rw [notifyAll_tag_note _ _ out h]; decide
    · simp at h
  · rw [retransmitDue_tag_rtx _ _ out h]; decide

theorem request_none_absent (st : State) (o : Option Nat) (c r tok key : Nat) (con : Bool) (mid : Nat)
    (h : findRes st r = none) : Absent (request st o c r tok key con mid).1 r c tok := by
  have hx' : findRes (rxSession st c) r = none := h
  unfold request
  dsimp only
  rw [hx']
  exact absent_of_findRes_none h c tok

theorem request_ok_outs (st : State) (o : Option Nat) (c r tok key : Nat) (con : Bool) (mid : Nat) (x : Res)
    (hx : findRes st r = some x) (herr : x.err = false) :
    ∀ out ∈ (request st o c r tok key con mid).2, out.code = 69 := by
  have hx' : findRes (rxSession st c) r = some x := hx
  intro out h
  unfold request at h
  dsimp only at h
  rw [hx'] at h
  simp [herr] at h
  rw [h]

theorem absent_after_error_response_output (st : State) (c r tok key : Nat) (con : Bool) (mid : Nat) (out : Out)
    (hid : IdsNodup st) (hnd : NoDupSt st) (ho : out ∈ (step st (.reg c r tok key con mid)).2)
    (htag : out.tag = .resp) (hcode : out.code = 132) :
    Absent (step st (.reg c r tok key con mid)).1 r c tok ∧
    ∀ out' ∈ (step st (.reg c r tok key con mid)).2, ¬ NoteTo out' r c tok := by
  have ho' : out ∈ (request st (some 0) c r tok key con mid).2 := by
    change out ∈ (rxThenIo (request st (some 0) c r tok key con mid)).2 at ho
    unfold rxThenIo at ho
    dsimp only at ho
    rcases List.mem_append.mp ho with ho | ho
    · exact ho
    · exact absurd htag (io_tag_ne_resp _ out ho)
  refine rxThenIo_absent _ r c tok ⟨?_, fun o' h => not_noteTo_of_tag (by rw [request_tag_resp _ _ _ _ _ _ _ _ o' h]; decide)⟩
  cases hx : findRes st r with
  | none => exact request_none_absent st _ c r tok key con mid hx
  | some x =>
    cases herr : x.err with
    | true => exact request_error_absent st c r tok key con mid x hid hnd hx herr
    | false =>
      have := request_ok_outs st _ c r tok key con mid x hx herr out ho'
      rw [hcode] at this
      cases this

theorem no_notification_after_error_response_output_run (st : State) (c r tok key : Nat) (con : Bool) (mid : Nat) (out : Out)
    (evs : List Event) (hid : IdsNodup st) (hnd : NoDupSt st) (ho : out ∈ (step st (.reg c r tok key con mid)).2)
    (htag : out.tag = .resp) (hcode : out.code = 132) (hne : ∀ e ∈ evs, ¬ isRegOf e c r tok) :
    ∀ out' ∈ (run st (.reg c r tok key con mid :: evs)).2, ¬ NoteTo out' r c tok :=
  (quiet_run_after_step st _ evs r c tok (absent_after_error_response_output st c r tok key con mid out hid hnd ho htag hcode) hne).2

/-! ### B1', cancellation by cache key: an Observe = 1 request whose token is not registered but whose options match an
entry of the session removes THAT entry (libcoap's coap_delete_observer_request; RFC 7641 §3.6 only asks for the token) -/

theorem absent_after_cancel_request_by_key (st : State) (c r tok key : Nat) (con : Bool) (mid : Nat)
    (hid : IdsNodup st) (hnd : NoDupSt st) (y : Res) (o : Sub) (hy : findRes st r = some y)
    (hno : y.subs.any (matchST c tok) = false) (hkey : y.subs.find? (matchSK c key) = some o) :
    Absent (step st (.can c r tok key con mid)).1 r c o.token ∧
    ∀ out ∈ (step st (.can c r tok key con mid)).2, ¬ NoteTo out r c o.token := by
  have hy' : findRes (rxSession st c) r = some y := hy
  have h1 : Absent (deleteObserverRequest (rxSession st c) r c tok key) r c o.token := by
    unfold deleteObserverRequest
    rw [hy']
    simp only [hno, hkey, Bool.false_eq_true, if_false]
    exact deleteObserver_absent (rxSession st c) r c o.token hid hnd
  have h2 : Absent (request st (some 1) c r tok key con mid).1 r c o.token := by
    unfold request
    dsimp only
    rw [hy']
    dsimp only
    split
    · show Absent (deleteObserver _ _ _ _) r c o.token
      exact absent_of_le (deleteObserver_le ..) h1
    · exact h1
  exact rxThenIo_absent _ r c o.token
    ⟨h2, fun o' h => not_noteTo_of_tag (by rw [request_tag_resp _ _ _ _ _ _ _ _ o' h]; decide)⟩

/-! ### the three invariants hold in every state reachable from an initial state -/

theorem invariants_of_init (res : List Res) (stTicks : Nat) (evs : List Event) (hids : (res.map (·.id)).Nodup)
    (hsubs : ∀ y ∈ res, y.subs = []) :
    IdsNodup (run (init res stTicks) evs).1 ∧ NoDupSt (run (init res stTicks) evs).1 ∧ FailZero (run (init res stTicks) evs).1 :=
  ⟨run_idsNodup _ _ hids, run_noDup _ _ (noDupSt_init res stTicks hsubs), run_failZero _ _ (failZero_init res stTicks hsubs)⟩

/-- HEADLINE instance, no invariant hypotheses left: in any history of a server started with distinct resource ids and no
    observers, after an Observe = 1 request nothing is notified to that observer until it registers again. -/
theorem no_notification_after_cancel_request_init (res : List Res) (stTicks : Nat) (pre evs : List Event)
    (c r tok key : Nat) (con : Bool) (mid : Nat) (hids : (res.map (·.id)).Nodup) (hsubs : ∀ y ∈ res, y.subs = [])
    (hne : ∀ e ∈ evs, ¬ isRegOf e c r tok) :
    ∀ out ∈ (run (run (init res stTicks) pre).1 (.can c r tok key con mid :: evs)).2, ¬ NoteTo out r c tok := by
  obtain ⟨h1, h2, _⟩ := invariants_of_init res stTicks pre hids hsubs
  exact no_notification_after_cancel_request_run _ c r tok key con mid evs h1 h2 hne

/-! ### two global readings of the engine -/

/-- an observer that never registered on r is never notified about r -/
theorem never_registered_never_notified (res : List Res) (stTicks : Nat) (evs : List Event) (r c tok : Nat)
    (hsubs : ∀ y ∈ res, y.subs = []) (hne : ∀ e ∈ evs, ¬ isRegOf e c r tok) :
    ∀ out ∈ (run (init res stTicks) evs).2, ¬ NoteTo out r c tok := by
  refine (no_notification_while_absent (init res stTicks) evs r c tok ?_ hne).2
  intro y hy _ _ s hs
  rw [hsubs y hy] at hs
  cases hs

/-- "… unless a new registration occurs in between": the outputs of a run split at ANY point; up to the first
    registration request of (c, tok) on r — wherever it is — nothing is notified to it. -/
theorem no_notification_until_reregistration (st : State) (evs1 evs2 : List Event) (r c tok : Nat)
    (h : Absent st r c tok) (hne : ∀ e ∈ evs1, ¬ isRegOf e c r tok) :
    (run st (evs1 ++ evs2)).2 = (run st evs1).2 ++ (run (run st evs1).1 evs2).2 ∧
    ∀ out ∈ (run st evs1).2, ¬ NoteTo out r c tok := by
  refine ⟨?_, (no_notification_while_absent st evs1 r c tok h hne).2⟩
  rw [run_append]

/-! ### (D) the hypotheses are satisfiable: concrete instances -/

section Examples

/-- one resource sending Non-confirmable, one sending Confirmable notifications -/
def exInit : State := init [mkRes 0 false false 5, mkRes 1 true false 0] 30000

theorem exInit_ids : IdsNodup exInit := by unfold IdsNodup resIds; decide
theorem exInit_noDup : NoDupSt exInit := noDupSt_init _ _ (by decide)
theorem exInit_fz : FailZero exInit := failZero_init _ _ (by decide)

/-- register (session 0, token 1) on resource 0 / on resource 1, one change, one I/O step -/
def exPre0 : List Event := [.reg 0 0 1 0 true 1, .chg 0, .adv 0]
def exPre1 : List Event := [.reg 0 1 1 0 true 1, .chg 1, .adv 0]
def exSt0 : State := (run exInit exPre0).1
def exSt1 : State := (run exInit exPre1).1

theorem exSt0_ids : IdsNodup exSt0 := run_idsNodup _ _ exInit_ids
theorem exSt0_noDup : NoDupSt exSt0 := run_noDup _ _ exInit_noDup
theorem exSt1_ids : IdsNodup exSt1 := run_idsNodup _ _ exInit_ids
theorem exSt1_noDup : NoDupSt exSt1 := run_noDup _ _ exInit_noDup
theorem exSt1_fz : FailZero exSt1 := run_failZero _ _ exInit_fz

/-- while registered the observer IS notified, and it is listed … -/
example : ∃ out ∈ (run exInit exPre0).2, NoteTo out 0 0 1 := by decide
example : ¬ Absent exSt0 0 0 1 := by decide
example : ¬ Absent exSt1 1 0 1 := by decide

/-- (A) an observer that never registered (token 2) is not notified whatever else happens -/
example : ∀ out ∈ (run exInit (exPre0 ++ [.chg 0, .adv 0, .can 0 0 1 0 true 2])).2, ¬ NoteTo out 0 0 2 :=
  (no_notification_while_absent exInit _ 0 0 2 (by decide) (by decide)).2

/-- B1 / (C): after the Observe = 1 request two more changes are not notified -/
example : ∀ out ∈ (run exSt0 [.can 0 0 1 0 true 2, .chg 0, .adv 0, .chg 0, .adv 0]).2, ¬ NoteTo out 0 0 1 :=
  no_notification_after_cancel_request_run exSt0 0 0 1 0 true 2 _ exSt0_ids exSt0_noDup (by decide)
/-- … the same events with a registration request in between DO notify: `hne` is what excludes it -/
example : ∃ out ∈ (run exSt0 [.can 0 0 1 0 true 2, .reg 0 0 1 0 true 3, .chg 0, .adv 0]).2, NoteTo out 0 0 1 := by decide

/-- B2: the handler answers the re-registration with 4.04 -/
theorem absentEx_of_err {st : State} {r : Nat} (h : (findRes st r).map (·.err) = some true) :
    ∃ x, findRes st r = some x ∧ x.err = true := by
  cases hf : findRes st r with
  | none => rw [hf] at h; cases h
  | some x => rw [hf] at h; simp at h; exact ⟨x, rfl, h⟩

example : ∀ out ∈ (run (run exSt0 [.err 0 true]).1 [.reg 0 0 1 0 true 2, .err 0 false, .chg 0, .adv 0]).2, ¬ NoteTo out 0 0 1 := by
  obtain ⟨x, hx, herr⟩ := absentEx_of_err (st := (run exSt0 [.err 0 true]).1) (r := 0) (by decide)
  exact no_notification_after_error_response_run _ 0 0 1 0 true 2 x _ (run_idsNodup _ _ exSt0_ids) (run_noDup _ _ exSt0_noDup)
    hx herr (by decide)

/-- B3: session loss -/
theorem absentEx_of_isSome {α : Type} {o : Option α} (h : o.isSome = true) : ∃ x, o = some x := by
  cases o with
  | none => cases h
  | some x => exact ⟨x, rfl⟩

example : ∀ out ∈ (run exSt0 [.lost 0, .chg 0, .adv 0, .get 0 0 1 0 true 5, .chg 0, .adv 0]).2, ¬ NoteTo out 0 0 1 := by
  obtain ⟨s0, hs0⟩ := absentEx_of_isSome (o := exSt0.sess 0) (by decide)
  exact no_notification_after_session_loss_run exSt0 0 s0 _ hs0 0 1 (by decide)

/-- B4: resource deletion — the goodbye is sent by the `.del` step, nothing afterwards, not even after a new registration -/
example : ∃ out ∈ (step exSt0 (.del 0)).2, NoteTo out 0 0 1 ∧ out.code = 132 := by decide
example : ∀ out ∈ (run (step exSt0 (.del 0)).1 [.reg 0 0 1 0 true 2, .chg 0, .adv 0]).2, ¬ NoteTo out 0 0 1 :=
  no_notification_after_resource_deletion_run exSt0 0 _ 0 1

/-- B5 (ii): Reset of the latest (Non-confirmable) notification -/
example : ∀ out ∈ (run exSt0 [.rst 0 0, .chg 0, .adv 0]).2, ¬ NoteTo out 0 0 1 :=
  (no_notification_after_reset_run_partial exSt0 0 0 { mid := 2, con := false } _ exSt0_ids exSt0_noDup (by decide)).2
    0 1 (by decide) (by decide) (by decide)

/-- B5 (i): Reset of a Confirmable notification that is still in the send queue -/
example : ∀ out ∈ (run exSt1 [.rst 0 0, .chg 1, .adv 0]).2, ¬ NoteTo out 1 0 1 :=
  (no_notification_after_reset_run_partial exSt1 0 0 { mid := 2, con := true } _ exSt1_ids exSt1_noDup (by decide)).1
    { sess := 0, mid := 2, token := 1, code := 69, due := 3000, cnt := 0, n := 0 } (by decide) 1 (by decide)

/-- B6: the Confirmable notification is retransmitted four times and then given up by the fifth I/O step -/
def exSt1' : State := (run exSt1 [.adv 2000, .adv 4000, .adv 8000, .adv 16000]).1

example : ¬ Absent exSt1' 1 0 1 := by decide

example : ∀ out ∈ (run (step exSt1' (.adv 32000)).1 [.chg 1, .adv 0]).2, ¬ NoteTo out 1 0 1 :=
  no_notification_after_failed_notify_adv_run exSt1' 32000
    { sess := 0, mid := 2, token := 1, code := 69, due := 63000, cnt := 4, n := 0 } _
    (run_idsNodup _ _ exSt1_ids) (run_noDup _ _ exSt1_noDup) (run_failZero _ _ exSt1_fz)
    (GivenUp.here (qs := []) (by decide) (by decide) (by decide)) 1 (by decide)

example : ∀ r', Absent (retransmit exSt1 { sess := 0, mid := 2, token := 1, code := 69, due := 3000, cnt := 4, n := 0 }).1 r' 0 1 :=
  absent_after_failed_notify exSt1 _ exSt1_ids exSt1_noDup exSt1_fz (by decide)

/-- B7: the handler starts failing; the next notification is the 4.04, and it is the last one -/
def exStE : State := (run exSt0 [.err 0 true, .chg 0]).1

example : ∀ out' ∈ (run (step exStE (.adv 0)).1 [.err 0 false, .chg 0, .adv 0]).2, ¬ NoteTo out' 0 0 1 := by
  obtain ⟨out, ho, hn, hc⟩ : ∃ out ∈ (step exStE (.adv 0)).2, NoteTo out 0 0 1 ∧ out.code = 132 := by decide
  exact no_notification_after_error_notification_run exStE (.adv 0) _ 0 0 1 out (run_idsNodup _ _ exSt0_ids)
    (run_noDup _ _ exSt0_noDup) ho hn hc (by decide)

/-- B2': the cause read off the response (here the handler's verdict; the same for a resource that does not exist) -/
example : ∀ out' ∈ (run (run exSt0 [.err 0 true]).1 [.reg 0 0 1 0 true 2, .err 0 false, .chg 0, .adv 0]).2, ¬ NoteTo out' 0 0 1 := by
  obtain ⟨out, ho, ht, hc⟩ : ∃ out ∈ (step (run exSt0 [.err 0 true]).1 (.reg 0 0 1 0 true 2)).2,
      out.tag = .resp ∧ out.code = 132 := by decide
  exact no_notification_after_error_response_output_run _ 0 0 1 0 true 2 out _ (run_idsNodup _ _ exSt0_ids)
    (run_noDup _ _ exSt0_noDup) ho ht hc (by decide)

/-- B1': Observe = 1 with an unknown token 9 but the cache key of the entry registered with token 1 -/
example : Absent (step exSt0 (.can 0 0 9 0 true 2)).1 0 0 1 := by
  obtain ⟨y, hy⟩ := absentEx_of_isSome (o := findRes exSt0 0) (by decide)
  have hno : y.subs.any (matchST 0 9) = false := by
    have : (findRes exSt0 0).map (fun y => y.subs.any (matchST 0 9)) = some false := by decide
    rw [hy] at this; simpa using this
  obtain ⟨o, hkey⟩ := absentEx_of_isSome (o := y.subs.find? (matchSK 0 0)) (by
    have : (findRes exSt0 0).map (fun y => (y.subs.find? (matchSK 0 0)).isSome) = some true := by decide
    rw [hy] at this; simpa using this)
  have ht : o.token = 1 := by
    have : ((findRes exSt0 0).bind (fun y => y.subs.find? (matchSK 0 0))).map (·.token) = some 1 := by decide
    rw [hy] at this; simp [hkey] at this; exact this
  have := (absent_after_cancel_request_by_key exSt0 0 0 9 0 true 2 exSt0_ids exSt0_noDup y o hy hno hkey).1
  rw [ht] at this; exact this

/-- the headline instance from an initial state -/
example : ∀ out ∈ (run (run (init [mkRes 0 false false 5, mkRes 1 true false 0] 30000) exPre0).1
    (.can 0 0 1 0 true 2 :: [.chg 0, .adv 0])).2, ¬ NoteTo out 0 0 1 :=
  no_notification_after_cancel_request_init _ _ _ _ 0 0 1 0 true 2 (by decide) (by decide) (by decide)

/-- never registered: token 2 is never notified, whatever token 1 does -/
example : ∀ out ∈ (run (init [mkRes 0 false false 5] 30000) (exPre0 ++ [.chg 0, .adv 0, .can 0 0 2 0 true 9])).2, ¬ NoteTo out 0 0 2 :=
  never_registered_never_notified _ _ _ 0 0 2 (by decide) (by decide)

end Examples

end Coap.Observe
