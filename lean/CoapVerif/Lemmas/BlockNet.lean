import CoapVerif.Lemmas.BlockXmit
import CoapVerif.Model.BlockNet
/- The composed Block2 system (Model/BlockNet.lean): invariant over every schedule.  Core Lean only. -/
set_option linter.unusedSimpArgs false
set_option linter.unusedVariables false
namespace Coap.Block
open Coap.Spec.Block

/-! ## which (ETag, SZX) an lg_crcv is filed under -/

theorem crcvStore_key (single : Bool) (cap : Nat) (junk : UInt8) (lg : Crcv) (num m szx : Nat) (payload data : Bytes)
    (offset size2 fmt : Nat) (c' : Crcv)
    (h : (crcvStore single cap junk lg num m szx payload data offset size2 fmt).1 = some c') :
    c'.etag = lg.etag ∧ c'.etagSet = lg.etagSet ∧ c'.szx = lg.szx := by
  unfold crcvStore at h
  dsimp only at h
  by_cases hf : fmt ≠ lg.fmt
  · rw [if_pos hf] at h; cases h; exact ⟨rfl, rfl, rfl⟩
  · rw [if_neg hf] at h
    by_cases hsz : szx ≠ lg.szx
    · rw [if_pos hsz] at h; cases h; exact ⟨rfl, rfl, rfl⟩
    rw [if_neg hsz] at h
    by_cases hr : checkIfReceived lg.recv num = true
    · rw [if_pos hr] at h; cases h; exact ⟨rfl, rfl, rfl⟩
    · rw [if_neg hr] at h
      cases hu : updateReceived cap lg.recv num with
      | mk ok rec' =>
        rw [hu] at h
        cases ok with
        | false => simp only at h; cases h; exact ⟨rfl, rfl, rfl⟩
        | true =>
          simp only at h
          cases single with
          | false =>
            simp only [Bool.false_eq_true, if_false] at h
            by_cases hc : m ≠ 0 ∨ ¬ checkAllBlocksIn rec' ((size2 + 2 ^ (szx + 4) - 1) / 2 ^ (szx + 4)) = true
            · rw [if_pos hc] at h; cases h; exact ⟨rfl, rfl, rfl⟩
            · rw [if_neg hc] at h; cases h
          | true =>
            simp only [if_true] at h
            cases hb : buildBody junk lg.body data offset size2 with
            | none => rw [hb] at h; simp only at h; cases h; exact ⟨rfl, rfl, rfl⟩
            | some b =>
              rw [hb] at h
              simp only at h
              by_cases hc : m ≠ 0 ∨ ¬ checkAllBlocksIn rec' ((size2 + 2 ^ (szx + 4) - 1) / 2 ^ (szx + 4)) = true
              · rw [if_pos hc] at h
                by_cases hm : m ≠ 0
                · rw [if_pos hm] at h; cases h; exact ⟨rfl, rfl, rfl⟩
                · rw [if_neg hm] at h
                  by_cases hsh : data.length % 2 ^ (szx + 4) ≠ 0
                  · rw [if_pos hsh] at h; cases h; exact ⟨rfl, rfl, rfl⟩
                  · rw [if_neg hsh] at h; cases h; exact ⟨rfl, rfl, rfl⟩
              · rw [if_neg hc] at h; cases h

theorem crcvInit_key (lg : Crcv) (szx size2 : Nat) (r : Resp) (e : Bytes) (he : r.etag = some e) :
    (lg.initial = true → (crcvInit lg szx size2 r).etag = e ∧ (crcvInit lg szx size2 r).etagSet = true ∧
      (crcvInit lg szx size2 r).szx = szx) ∧
    (lg.initial = false → (crcvInit lg szx size2 r).etag = lg.etag ∧ (crcvInit lg szx size2 r).etagSet = lg.etagSet ∧
      (crcvInit lg szx size2 r).szx = lg.szx) := by
  unfold crcvInit
  cases hi : lg.initial with
  | true =>
    simp only [if_true, he]
    refine ⟨fun _ => ?_, fun hh => (by cases hh)⟩
    split <;> exact ⟨rfl, rfl, rfl⟩
  | false =>
    simp only [Bool.false_eq_true, if_false]
    refine ⟨fun hh => (by cases hh), fun _ => ?_⟩
    split <;> exact ⟨rfl, rfl, rfl⟩

theorem crcvBlock_key (single : Bool) (cap : Nat) (junk : UInt8) (lg : Crcv) (num m szx : Nat) (r : Resp)
    (e : Bytes) (he : r.etag = some e) (c' : Crcv)
    (h : (crcvBlock single cap junk lg num m szx r).1 = some c') (hi' : c'.initial = false) :
    (c'.etagSet = true ∧ c'.etag = e ∧ c'.szx = szx) ∨
    (lg.initial = false ∧ c'.etag = lg.etag ∧ c'.etagSet = lg.etagSet ∧ c'.szx = lg.szx) := by
  unfold crcvBlock at h
  dsimp only at h
  generalize (if r.payload.length > 2 ^ (szx + 4) then r.payload.take (2 ^ (szx + 4)) else r.payload) = data at h
  by_cases hund : m ≠ 0 ∧ data.length ≠ 2 ^ (szx + 4)
  · rw [if_pos hund] at h; cases h
  · rw [if_neg hund] at h
    by_cases hlastnum : m ≠ 0 ∧ 0xFFFFF ≤ num
    · rw [if_pos hlastnum] at h; cases h
    rw [if_neg hlastnum] at h
    generalize crcvSize2 r.size2 m (num * 2 ^ (szx + 4) + data.length) = size2 at h
    obtain ⟨k1, k2⟩ := crcvInit_key lg szx size2 r e he
    generalize crcvInit lg szx size2 r = lg2 at h k1 k2
    rw [he] at h
    simp only at h
    by_cases hne : e ≠ lg2.etag
    · rw [if_pos hne] at h
      cases h
      cases hi'
    · rw [if_neg hne] at h
      obtain ⟨b, c, d⟩ := crcvStore_key _ _ _ _ _ _ _ _ _ _ _ _ c' h
      cases hli : lg.initial with
      | true =>
        obtain ⟨x, y, z⟩ := k1 hli
        exact Or.inl ⟨by rw [c, y], by rw [b, x], by rw [d, z]⟩
      | false =>
        obtain ⟨x, y, z⟩ := k2 hli
        exact Or.inr ⟨rfl, by rw [b, x], by rw [c, y], by rw [d, z]⟩

/-- the (ETag, SZX) of the initialised lg_crcv after a step is the response's (it was (re-)initialised by it) or
unchanged -/
theorem crcvStep_key (single : Bool) (cap : Nat) (junk : UInt8) (st : Option Crcv) (r : Resp) (num m szx : Nat)
    (e : Bytes) (hb : r.blk = some (num, m, szx)) (he : r.etag = some e) (c' : Crcv)
    (h : (crcvStep single cap junk st r).1 = some c') (hi' : c'.initial = false) :
    (c'.etagSet = true ∧ c'.etag = e ∧ c'.szx = szx) ∨
    (∃ c, st = some c ∧ c.initial = false ∧ c'.etag = c.etag ∧ c'.etagSet = c.etagSet ∧ c'.szx = c.szx) := by
  have hfound : ∀ lg : Crcv, (crcvFound single cap junk lg r).1 = some c' →
      (c'.etagSet = true ∧ c'.etag = e ∧ c'.szx = szx) ∨
      (lg.initial = false ∧ c'.etag = lg.etag ∧ c'.etagSet = lg.etagSet ∧ c'.szx = lg.szx) := by
    intro lg hf
    unfold crcvFound at hf
    rw [hb] at hf
    simp only at hf
    by_cases hc : m ≠ 0 ∨ r.payload.length ≠ 0
    · rw [if_pos hc] at hf
      exact crcvBlock_key single cap junk lg num m szx r e he c' hf hi'
    · rw [if_neg hc] at hf
      cases hf
  unfold crcvStep at h
  cases st with
  | some lg =>
    simp only at h
    rcases hfound lg h with hh | ⟨a, b, c, d⟩
    · exact Or.inl hh
    · exact Or.inr ⟨lg, rfl, a, b, c, d⟩
  | none =>
    simp only at h
    rw [hb] at h
    simp only at h
    by_cases hn : num ≠ 0
    · rw [if_pos hn] at h; cases h
    · rw [if_neg hn] at h
      rcases hfound {} h with hh | ⟨a, _⟩
      · exact Or.inl hh
      · cases a

/-! ## the system invariant -/

/-- a response datagram is what a libcoap server sends for this body: the slice for its NUM/SZX, right More bit,
Size2 = the length, the ETag of one of the lg_xmits created so far -/
def RespOK (P : B2Par) (s : B2Sys) (r : Resp) : Prop :=
  ∃ num szx k, r.blk = some (num, more P.body.length szx num, szx) ∧ num < nBlocks P.body.length szx ∧
    r.payload = slice P.body szx num ∧ r.size2 = some P.body.length ∧ r.etag = some (P.etagOf k) ∧ 1 ≤ k ∧ k ≤ s.srvEtag

def szxOf (r : Resp) : Nat := match r.blk with | some (_, _, szx) => szx | none => 0

structure B2Inv (P : B2Par) (s : B2Sys) : Prop where
  rsp : ∀ r, r ∈ s.rsps → RespOK P s r
  /-- one ETag, one block size -/
  func : ∀ r1 r2, r1 ∈ s.rsps → r2 ∈ s.rsps → r1.etag = r2.etag → szxOf r1 = szxOf r2
  srv : ∀ x, s.srv = some x → x.data = P.body ∧ (1 ≤ s.curEtag ∧ s.curEtag ≤ s.srvEtag) ∧
    ∀ r, r ∈ s.rsps → r.etag = some (P.etagOf s.curEtag) → szxOf r = x.blkSize
  cli : ∀ c, s.cli = some c → c.initial = false →
    CrcvInv P.single P.cap P.body (some P.body.length) c ∧ c.etagSet = true ∧
    ∃ r, r ∈ s.rsps ∧ r.etag = some c.etag ∧ szxOf r = c.szx
  outs : ∀ o, o ∈ s.outs → GoodOut P.single P.body o

/-- the response path calls `adlBody` with sane parameters (what `coap_add_data_large_internal` computes in front of
it: `b2` is at most the size fitting `avail` and at most 6; the Block2 option, if already in the PDU, is part of
`tokOpts0`) and a body below 2^32 bytes; ETags of different lg_xmits differ -/
structure B2ParOK (P : B2Par) : Prop where
  len : P.body.length < 2 ^ 32
  ms : ∀ szx c, P.cfg szx = some c → c.maxSize < 2 ^ 62
  tok : ∀ szx c, P.cfg szx = some c → c.tokOpts0 ≤ c.base + 43
  b2 : ∀ szx c, P.cfg szx = some c → (16 : Int) ≤ adlAvail c.maxSize c.tokOpts0 c.tokLen →
    ((2 ^ (c.b2 + 4) : Nat) : Int) ≤ adlAvail c.maxSize c.tokOpts0 c.tokLen
  b26 : ∀ szx c, P.cfg szx = some c → c.b2 ≤ 6
  inj : ∀ k1 k2, P.etagOf k1 = P.etagOf k2 → k1 = k2

theorem respOK_mono (P : B2Par) (s s' : B2Sys) (r : Resp) (hle : s.srvEtag ≤ s'.srvEtag) (h : RespOK P s r) :
    RespOK P s' r := by
  obtain ⟨num, szx, k, a, b, c, d, e, f, g⟩ := h
  exact ⟨num, szx, k, a, b, c, d, e, f, by omega⟩

theorem b2_init_inv (P : B2Par) : B2Inv P {} :=
  { rsp := (by intro r hr; cases hr)
    func := (by intro r1 r2 hr; cases hr)
    srv := (by intro x hx; cases hx)
    cli := (by intro c hc; cases hc)
    outs := (by intro o ho; cases ho) }

/-- a request reaching the server -/
theorem srvOnReq_inv (P : B2Par) (hP : B2ParOK P) (s : B2Sys) (num szx : Nat) (hinv : B2Inv P s) :
    B2Inv P (srvOnReq P s num szx) := by
  -- dropping the lg_xmit changes nothing else
  have hdrop : B2Inv P { s with srv := none } :=
    { rsp := hinv.rsp, func := hinv.func, srv := (by intro x hx; cases hx), cli := hinv.cli, outs := hinv.outs }
  unfold srvOnReq
  by_cases h0 : num = 0
  · rw [if_pos h0]
    cases hcfg : P.cfg szx with
    | none => exact hdrop
    | some c =>
    simp only
    cases ha : adlBody c.maxSize c.tokLen c.base c.d c.tokOpts0 c.b2 P.body.length c.extra c.blk with
    | none => exact hdrop
    | some r =>
      simp only
      by_cases hlg : r.lgXmit = true
      · rw [if_pos hlg]
        obtain ⟨f1, f2, f3, f4⟩ := adlBody_first _ _ _ _ _ _ _ _ _ r (hP.ms szx c hcfg) hP.len (hP.tok szx c hcfg)
          (hP.b2 szx c hcfg) ha hlg
        rw [f1]
        simp only
        have hB : r.blkSize ≤ 6 := by have := hP.b26 szx c hcfg; omega
        have hv16 : blockValue 0 1 r.blkSize / 16 = 0 := by unfold blockValue; omega
        have hv8 : (blockValue 0 1 r.blkSize / 8) % 2 = 1 := by unfold blockValue; omega
        have hvs : blockValue 0 1 r.blkSize % 8 = r.blkSize := by unfold blockValue; omega
        rw [hv16, hv8, hvs, f2]
        have hcs : 2 ^ (r.blkSize + 4) = chunkSize r.blkSize := rfl
        rw [hcs] at f3 ⊢
        have hnb : 1 < nBlocks P.body.length r.blkSize := (lt_nBlocks_iff _ _ 1).mpr (by omega)
        have hmore : more P.body.length r.blkSize 0 = 1 := by unfold more; rw [if_pos (by omega)]
        have hsl : P.body.take (chunkSize r.blkSize) = slice P.body r.blkSize 0 := by unfold slice; simp
        -- the new response
        have hnew : RespOK P { s with srvEtag := s.srvEtag + 1 }
            (mkResp P (s.srvEtag + 1) 0 1 r.blkSize (P.body.take (chunkSize r.blkSize))) :=
          ⟨0, r.blkSize, s.srvEtag + 1, by rw [hmore]; rfl, by omega, hsl, rfl, rfl, by omega, Nat.le_refl _⟩
        -- no earlier response carries the fresh ETag
        have hfresh : ∀ r', r' ∈ s.rsps → r'.etag ≠ some (P.etagOf (s.srvEtag + 1)) := by
          intro r' hr' heq
          obtain ⟨_, _, k, _, _, _, _, e, _, g⟩ := hinv.rsp r' hr'
          rw [e] at heq
          have := hP.inj _ _ (Option.some.inj heq)
          omega
        refine { rsp := ?_, func := ?_, srv := ?_, cli := ?_, outs := hinv.outs }
        · intro r' hr'
          rcases List.mem_append.mp hr' with hr' | hr'
          · exact respOK_mono P s _ r' (Nat.le_succ _) (hinv.rsp r' hr')
          · rw [List.mem_singleton] at hr'; rw [hr']; exact hnew
        · intro r1 r2 h1 h2 heq
          rcases List.mem_append.mp h1 with h1 | h1 <;> rcases List.mem_append.mp h2 with h2 | h2
          · exact hinv.func r1 r2 h1 h2 heq
          · rw [List.mem_singleton] at h2; rw [h2] at heq; exact (hfresh r1 h1 heq).elim
          · rw [List.mem_singleton] at h1; rw [h1] at heq; exact (hfresh r2 h2 heq.symm).elim
          · rw [List.mem_singleton] at h1 h2; rw [h1, h2]
        · intro x hx
          cases hx
          refine ⟨rfl, ⟨Nat.le_add_left 1 _, Nat.le_refl _⟩, ?_⟩
          intro r' hr' he'
          rcases List.mem_append.mp hr' with hr' | hr'
          · exact (hfresh r' hr' he').elim
          · rw [List.mem_singleton] at hr'; rw [hr']; rfl
        · intro c hc hi
          obtain ⟨a, b, r', hr', e1, e2⟩ := hinv.cli c hc hi
          exact ⟨a, b, r', List.mem_append_left _ hr', e1, e2⟩
      · rw [if_neg hlg]; exact hdrop
  · rw [if_neg h0]
    cases hsrv : s.srv with
    | none =>
      have : xmitB2Step none P.room num szx = (none, B2Out.passUp) := by
        unfold xmitB2Step; rw [if_neg h0]
      rw [this]
      simp only
      rw [← hsrv]
      exact hinv
    | some x =>
      obtain ⟨d1, d2, d3⟩ := hinv.srv x hsrv
      obtain ⟨x', hx', hd, hb⟩ := xmitB2Step_state x P.room num szx
      cases hstep : xmitB2Step (some x) P.room num szx with
      | mk srv' out =>
        rw [hstep] at hx'
        simp only at hx'
        subst hx'
        -- the lg_xmit afterwards
        have hsrv' : ∀ (rs : List Resp), (∀ r', r' ∈ rs → r'.etag = some (P.etagOf s.curEtag) → szxOf r' = x.blkSize) →
            ∀ y, some x' = some y → y.data = P.body ∧ (1 ≤ s.curEtag ∧ s.curEtag ≤ s.srvEtag) ∧
              ∀ r', r' ∈ rs → r'.etag = some (P.etagOf s.curEtag) → szxOf r' = y.blkSize := by
          intro rs hrs y hy
          cases hy
          exact ⟨by rw [hd]; exact d1, d2, fun r' hr' he' => by rw [hb]; exact hrs r' hr' he'⟩
        cases out with
        | block n m sx p =>
          simp only
          obtain ⟨e1, e2, e3, e4, e5, e6, _, _⟩ := xmitB2Step_spec x P.room num szx _ n m sx p hstep
          rw [d1] at e4 e5 e6
          have hnew : RespOK P s (mkResp P s.curEtag n m sx p) :=
            ⟨n, sx, s.curEtag, by rw [e6]; rfl, e4, e5, rfl, rfl, d2.1, d2.2⟩
          have hsz : szxOf (mkResp P s.curEtag n m sx p) = x.blkSize := by
            show sx = x.blkSize
            exact e3
          refine { rsp := ?_, func := ?_, srv := ?_, cli := ?_, outs := hinv.outs }
          · intro r' hr'
            rcases List.mem_append.mp hr' with hr' | hr'
            · exact hinv.rsp r' hr'
            · rw [List.mem_singleton] at hr'; rw [hr']; exact hnew
          · intro r1 r2 h1 h2 heq
            rcases List.mem_append.mp h1 with h1 | h1 <;> rcases List.mem_append.mp h2 with h2 | h2
            · exact hinv.func r1 r2 h1 h2 heq
            · rw [List.mem_singleton] at h2
              rw [h2] at heq ⊢
              rw [hsz]
              exact d3 r1 h1 heq
            · rw [List.mem_singleton] at h1
              rw [h1] at heq ⊢
              rw [hsz]
              exact (d3 r2 h2 heq.symm).symm
            · rw [List.mem_singleton] at h1 h2; rw [h1, h2]
          · apply hsrv'
            intro r' hr' he'
            rcases List.mem_append.mp hr' with hr' | hr'
            · exact d3 r' hr' he'
            · rw [List.mem_singleton] at hr'; rw [hr']; exact hsz
          · intro c hc hi
            obtain ⟨a, b, r', hr', e1', e2'⟩ := hinv.cli c hc hi
            exact ⟨a, b, r', List.mem_append_left _ hr', e1', e2'⟩
        | passUp => simp only; exact { rsp := hinv.rsp, func := hinv.func, srv := hsrv' _ d3, cli := hinv.cli, outs := hinv.outs }
        | err400 => simp only; exact { rsp := hinv.rsp, func := hinv.func, srv := hsrv' _ d3, cli := hinv.cli, outs := hinv.outs }
        | err500 => simp only; exact { rsp := hinv.rsp, func := hinv.func, srv := hsrv' _ d3, cli := hinv.cli, outs := hinv.outs }


theorem goodOut_of_storeSpec (single : Bool) (cap : Nat) (body : Bytes) (sz : Option Nat) (pre : Ranges) (num szx : Nat)
    (payload : Bytes) (st' : Option Crcv) (out : CrcvOut)
    (hspec : StoreSpec single cap body sz pre num szx payload st' out)
    (hnum : num < nBlocks body.length szx) (hpay : payload = slice body szx num) : GoodOut single body out := by
  refine ⟨?_, ?_, ?_, ?_, hspec.noPlain⟩
  · intro d l hb
    obtain ⟨a, b, c, _⟩ := hspec.dBody d l hb
    exact ⟨a, b, c⟩
  · intro off p total nx hb
    obtain ⟨a, b, c, _⟩ := hspec.dBlock off p total nx hb
    exact ⟨a, num, szx, hnum, b, by rw [c]; exact hpay⟩
  · intro off p total hb
    obtain ⟨a, b, c, _⟩ := hspec.dLast off p total hb
    exact ⟨a, num, szx, hnum, b, by rw [c]; exact hpay⟩
  · intro off p total hb
    obtain ⟨b, c⟩ := hspec.ra off p total hb
    exact ⟨num, szx, hnum, b, by rw [c]; exact hpay⟩

/-- a response reaching the client -/
theorem cliOnRsp_inv (P : B2Par) (s : B2Sys) (r : Resp) (hr : r ∈ s.rsps) (hinv : B2Inv P s) :
    B2Inv P { s with cli := (crcvStep P.single P.cap P.junk s.cli r).1,
                     outs := s.outs ++ [(crcvStep P.single P.cap P.junk s.cli r).2],
                     reqs := s.reqs ++ (match nextReq (crcvStep P.single P.cap P.junk s.cli r).2 with
                                        | some q => [q] | none => []) } := by
  obtain ⟨num, szx, k, g1, g2, g3, g4, g5, g6, g7⟩ := hinv.rsp r hr
  have hszr : szxOf r = szx := by unfold szxOf; rw [g1]
  have hg : Genuine2 P.body (some P.body.length) s.cli r num szx := by
    refine ⟨g1, g2, g3, g4, ?_⟩
    intro c hc hi hp
    obtain ⟨_, _, r', hr', e1, e2⟩ := hinv.cli c hc hi
    have he : P.etagOf k = c.etag := hp.1 _ g5
    have := hinv.func r r' hr hr' (by rw [g5, e1, he])
    rw [hszr, e2] at this
    exact this.symm
  have hspec := crcvStep_spec P.single P.cap P.junk P.body (some P.body.length) s.cli r num szx _ _
    (by intro t ht; cases ht; exact Nat.le_refl _) (fun c hc hi => (hinv.cli c hc hi).1) hg rfl
  refine { rsp := hinv.rsp, func := hinv.func, srv := hinv.srv, cli := ?_, outs := ?_ }
  · intro c' hc' hi'
    have hc'' : (crcvStep P.single P.cap P.junk s.cli r).1 = some c' := hc'
    refine ⟨hspec.inv c' hc'' hi', ?_⟩
    rcases crcvStep_key P.single P.cap P.junk s.cli r num _ szx _ g1 g5 c' hc'' hi' with ⟨a, b, c⟩ | ⟨c0, h0, h1, h2, h3, h4⟩
    · exact ⟨a, r, hr, by rw [g5, b], by rw [hszr, c]⟩
    · obtain ⟨_, x, r', hr', e1, e2⟩ := hinv.cli c0 h0 h1
      exact ⟨by rw [h3]; exact x, r', hr', by rw [e1, h2], by rw [e2, h4]⟩
  · intro o ho
    have ho' : o ∈ s.outs ++ [(crcvStep P.single P.cap P.junk s.cli r).2] := ho
    rcases List.mem_append.mp ho' with ho' | ho'
    · exact hinv.outs o ho'
    · rw [List.mem_singleton] at ho'
      rw [ho']
      exact goodOut_of_storeSpec _ _ _ _ _ _ _ _ _ _ hspec g2 g3

/-- `crcvStepS` is `crcvStep` unless there is no lg_crcv and `sent` is NULL -/
theorem crcvStepS_cases (sent single : Bool) (cap : Nat) (junk : UInt8) (st : Option Crcv) (r : Resp) :
    crcvStepS sent single cap junk st r = crcvStep single cap junk st r ∨
    (st = none ∧ sent = false ∧ crcvStepS sent single cap junk st r =
      (match r.blk with | some _ => (none, CrcvOut.skip) | none => (none, CrcvOut.plain r.payload))) := by
  cases st with
  | some lg => exact Or.inl rfl
  | none =>
    cases sent with
    | true => exact Or.inl rfl
    | false => exact Or.inr ⟨rfl, rfl, rfl⟩

theorem b2Step_inv (P : B2Par) (hP : B2ParOK P) (s : B2Sys) (e : B2Event) (hinv : B2Inv P s) : B2Inv P (b2Step P s e) := by
  cases e with
  | appGet szx =>
    exact { rsp := hinv.rsp, func := hinv.func, srv := hinv.srv, cli := hinv.cli, outs := hinv.outs }
  | reqArrives i =>
    simp only [b2Step]
    cases hq : s.reqs[i]? with
    | none => exact hinv
    | some q =>
      obtain ⟨num, szx⟩ := q
      exact srvOnReq_inv P hP s num szx hinv
  | rspArrives j sent =>
    simp only [b2Step]
    cases hq : s.rsps[j]? with
    | none => exact hinv
    | some r =>
      simp only
      rcases crcvStepS_cases sent P.single P.cap P.junk s.cli r with he | ⟨hc, hs, he⟩
      · rw [he]; exact cliOnRsp_inv P s r (List.mem_of_getElem? hq) hinv
      · -- no lg_crcv and matched to no request: dropped
        obtain ⟨num, szx, k, g1, _⟩ := hinv.rsp r (List.mem_of_getElem? hq)
        have hskip : crcvStepS sent P.single P.cap P.junk s.cli r = (none, CrcvOut.skip) := by
          rw [he, g1]
        rw [hskip]
        refine { rsp := hinv.rsp, func := hinv.func, srv := hinv.srv, cli := (by intro c hc'; cases hc'), outs := ?_ }
        intro o ho
        have ho' : o ∈ s.outs ++ [CrcvOut.skip] := ho
        rcases List.mem_append.mp ho' with ho' | ho'
        · exact hinv.outs o ho'
        · rw [List.mem_singleton] at ho'
          rw [ho']
          exact ⟨fun d l h => (by cases h), fun off p total nx h => (by cases h), fun off p total h => (by cases h),
            fun off p total h => (by cases h), fun p h => (by cases h)⟩
  | srvExpire =>
    exact { rsp := hinv.rsp, func := hinv.func, srv := (by intro x hx; cases hx), cli := hinv.cli, outs := hinv.outs }
  | cliExpire =>
    exact { rsp := hinv.rsp, func := hinv.func, srv := hinv.srv, cli := (by intro c hc; cases hc), outs := hinv.outs }
  | cliNew =>
    exact { rsp := hinv.rsp, func := hinv.func, srv := hinv.srv,
            cli := (by intro c hc hi; cases hc; cases hi), outs := hinv.outs }

theorem b2Run_inv (P : B2Par) (hP : B2ParOK P) : ∀ (evs : List B2Event) (s : B2Sys), B2Inv P s →
    B2Inv P (evs.foldl (b2Step P) s)
  | [], _, h => h
  | e :: evs, s, h => b2Run_inv P hP evs _ (b2Step_inv P hP s e h)


/-! ## the response path's parameters (`rspCfg`) satisfy `B2ParOK` -/

theorem encodeVarAux_length : ∀ (n v : Nat), (encodeVarAux n v).length = n
  | 0, _ => rfl
  | n + 1, v => by simp [encodeVarAux, encodeVarAux_length n v]

theorem varLen_le4 (x : Nat) : varLen x ≤ 4 := by
  unfold varLen; split <;> (try split) <;> (try split) <;> (try split) <;> omega

theorem optEncodeSize_le43 (d l : Nat) (hl : l ≤ 4) : optEncodeSize d l ≤ 43 := by
  unfold optEncodeSize
  have e1 : ¬ (l ≥ 13) := by omega
  simp only [e1, if_false]
  split <;> (try split) <;> omega

theorem writeBlockBOpt_val_len (maxSize tokOpts num szx dataLen : Nat) (b : BlockB) (val : Bytes)
    (h : writeBlockBOpt maxSize tokOpts num szx dataLen = WriteRes.ok b val) : val.length ≤ 4 := by
  unfold writeBlockBOpt at h
  dsimp only at h
  split at h
  · cases h
  · cases hsb : setupBlockB maxSize tokOpts num szx dataLen with
    | none => rw [hsb] at h; cases h
    | some sb =>
      rw [hsb] at h
      simp only at h
      cases h
      unfold encodeBlock encodeVar
      rw [encodeVarAux_length]
      exact varLen_le4 _

theorem writeOk_some (w : WriteRes) (b : BlockB) (val : Bytes) (h : writeOk w = some (b, val)) : w = WriteRes.ok b val := by
  cases w with
  | ok b' val' => simp only [writeOk] at h; cases h; rfl
  | illegal => simp only [writeOk] at h; cases h
  | nospace => simp only [writeOk] at h; cases h

/-- the response path's parameters (`rspCfg`, tied to coap_add_data_large_response through `addDataLargeRsp` and the T2
op `xmit2`) satisfy what `B2ParOK` asks of `cfg` -/
theorem rspCfg_ok (maxSize tokLen optBytes lastOpt maxBlk length etagLen : Nat) (hms : maxSize < 2 ^ 62)
    (szx : Nat) (c : AdlCfg) (h : rspCfg maxSize tokLen optBytes lastOpt maxBlk length etagLen szx = some c) :
    c.maxSize < 2 ^ 62 ∧ c.tokOpts0 ≤ c.base + 43 ∧
    ((16 : Int) ≤ adlAvail c.maxSize c.tokOpts0 c.tokLen →
      ((2 ^ (c.b2 + 4) : Nat) : Int) ≤ adlAvail c.maxSize c.tokOpts0 c.tokLen) ∧ c.b2 ≤ 6 := by
  unfold rspCfg at h
  obtain ⟨p, hp, hc⟩ := Option.map_eq_some_iff.mp h
  obtain ⟨b, val⟩ := p
  have hw := writeOk_some _ b val hp
  have hval := writeBlockBOpt_val_len _ _ _ _ _ b val hw
  have hopt := optEncodeSize_le43 (23 - lastOpt) val.length hval
  rw [← hc]
  unfold rspCfgOf
  dsimp only
  generalize hA : adlAvail maxSize (tokLen + optBytes + optEncodeSize (23 - lastOpt) val.length) tokLen = A
  have hb6 := adlBlkSize_le6 A
  have hb2 : (if b.aszx < (if maxBlk ≠ 0 ∧ adlBlkSize A > maxBlk then maxBlk else adlBlkSize A) then b.aszx
      else (if maxBlk ≠ 0 ∧ adlBlkSize A > maxBlk then maxBlk else adlBlkSize A)) ≤ adlBlkSize A := by
    split <;> split <;> omega
  refine ⟨hms, by omega, ?_, by omega⟩
  intro h16
  exact adl_b2_le _ _ hb2 h16 (by rw [← hA, adlAvail_eq]; omega)

/-! ## Block1 direction -/

theorem srcvDecide_szx (lg1 : Srcv) (m chunk : Nat) (s' : Srcv) (h : (srcvDecide lg1 m chunk).1 = some s') :
    s'.szx = lg1.szx := by
  unfold srcvDecide at h
  dsimp only at h
  by_cases hm : m = 1
  · rw [if_pos hm] at h
    split at h
    · cases h; rfl
    · cases h
  · rw [if_neg hm] at h
    split at h
    · cases h; rfl
    · cases h

theorem srcvCore_szx (cap : Nat) (junk : UInt8) (lg : Srcv) (n szxU m : Nat) (data : Bytes) (offset : Nat) (s' : Srcv)
    (h : (srcvCore cap junk lg n szxU m data offset).1 = some s') : s'.szx = lg.szx := by
  unfold srcvCore at h
  dsimp only at h
  split at h
  · cases h
  cases hl : recvLoop cap ((data.length + 2 ^ (szxU + 4) - 1) / 2 ^ (szxU + 4)) lg.recv n false with
  | none => rw [hl] at h; cases h
  | some res =>
    obtain ⟨rec', upd⟩ := res
    rw [hl] at h
    dsimp only at h
    cases upd with
    | false =>
      simp only [Bool.false_eq_true, if_false] at h
      exact srcvDecide_szx { lg with recv := rec' } _ _ s' h
    | true =>
      simp only [if_true] at h
      cases hb : buildBody junk lg.body data offset
          (if lg.totalLen < offset + data.length then offset + data.length else lg.totalLen) with
      | none => rw [hb] at h; cases h; rfl
      | some b =>
        rw [hb] at h
        simp only at h
        exact srcvDecide_szx { lg with recv := rec', totalLen := _, body := some b } _ _ s' h

/-- the lg_srcv a request leaves behind tracks the body in the size fixed when it was allocated -/
theorem srcvStep_szx (cap : Nat) (junk : UInt8) (maxBlk : Nat) (st : Option Srcv) (num m szx : Nat) (payload : Bytes)
    (size1 : Option Nat) (s' : Srcv) (hge : ∀ s, st = some s → s.szx ≤ szx)
    (h : (srcvStep cap junk maxBlk st num m szx payload size1).1 = some s') :
    (∃ s, st = some s ∧ s'.szx = s.szx) ∨
    (st = none ∧ s'.szx = (if num = 0 ∧ maxBlk ≠ 0 ∧ maxBlk < szx then maxBlk else szx)) := by
  have hloc : (∃ s, st = some s ∧ (srcvLocate maxBlk st num szx size1).szx = s.szx) ∨
      (st = none ∧ (srcvLocate maxBlk st num szx size1).szx = (if num = 0 ∧ maxBlk ≠ 0 ∧ maxBlk < szx then maxBlk else szx)) := by
    unfold srcvLocate
    cases st with
    | some s => exact Or.inl ⟨s, rfl, rfl⟩
    | none => exact Or.inr ⟨rfl, rfl⟩
  unfold srcvStep at h
  dsimp only at h
  by_cases h1 : num = 0 ∧ m = 0
  · rw [if_pos h1] at h
    cases st with
    | some s => simp only at h; cases h; exact Or.inl ⟨s', rfl, rfl⟩
    | none => cases h
  · rw [if_neg h1] at h
    by_cases h2 : ¬ (payload.length > 2 ^ (szx + 4)) ∧ m = 1 ∧ payload.length ≠ 2 ^ (szx + 4)
    · rw [if_pos h2] at h
      cases st with
      | some s => simp only at h; cases h; exact Or.inl ⟨s', rfl, rfl⟩
      | none => cases h
    · rw [if_neg h2] at h
      unfold srcvConv at h
      have hnlt : ¬ szx < (srcvLocate maxBlk st num szx size1).szx := by
        rcases hloc with ⟨s, e1, e2⟩ | ⟨e1, e2⟩
        · rw [e2]; have := hge s e1; omega
        · rw [e2]; split <;> omega
      have hk : s'.szx = (srcvLocate maxBlk st num szx size1).szx := by
        by_cases hbig : szx > (srcvLocate maxBlk st num szx size1).szx
        · rw [if_pos hbig] at h
          exact srcvCore_szx _ _ _ _ _ _ _ _ s' h
        · rw [if_neg hbig, if_neg hnlt] at h
          exact srcvCore_szx _ _ _ _ _ _ _ _ s' h
      rcases hloc with ⟨s, e1, e2⟩ | ⟨e1, e2⟩
      · exact Or.inl ⟨s, e1, by rw [hk, e2]⟩
      · exact Or.inr ⟨e1, by rw [hk, e2]⟩


/-- the block size the client starts with -/
def b1B0 (P : B1Par) : Nat :=
  match addDataLarge P.maxSize P.tokLen P.optBytes P.lastOpt P.blk P.maxBlkC P.body.length P.rtagLen with
  | some r => r.blkSize
  | none => 0

/-- the block size the transfer settles on -/
def b1S (P : B1Par) : Nat := if P.maxBlk ≠ 0 ∧ P.maxBlk < b1B0 P then P.maxBlk else b1B0 P

theorem b1S_le (P : B1Par) : b1S P ≤ b1B0 P := by
  unfold b1S; split <;> omega

/-- the SZX the server tracks / answers with for a request in one of the two sizes -/
theorem szxR_eq (P : B1Par) (num szx : Nat) (h : szx = b1S P ∨ (szx = b1B0 P ∧ num = 0)) :
    (if num = 0 ∧ P.maxBlk ≠ 0 ∧ P.maxBlk < szx then P.maxBlk else szx) = b1S P := by
  unfold b1S at *
  generalize b1B0 P = B at *
  by_cases hc : P.maxBlk ≠ 0 ∧ P.maxBlk < B
  · rw [if_pos hc] at h
    rw [if_pos hc]
    rcases h with h | ⟨h, h0⟩
    · rw [if_neg (by omega)]; exact h
    · rw [if_pos ⟨h0, hc.1, by omega⟩]
  · rw [if_neg hc] at h
    rw [if_neg hc]
    have hsz : szx = B := by rcases h with h | ⟨h, _⟩ <;> exact h
    rw [if_neg (by intro hh; exact hc ⟨hh.2.1, by omega⟩)]
    exact hsz

theorem adlFinish_payload (maxSize tokOpts rem : Nat) (lg : Bool) (b : Nat) (bv : Option Nat) (r : AdlRes)
    (h : adlFinish maxSize tokOpts rem lg b bv = some r) : r.lgXmit = lg ∧ r.payload = rem := by
  unfold adlFinish at h
  split at h
  · cases h
  · cases h; exact ⟨rfl, rfl⟩

/-- "No need to use blocks": without an lg_xmit the one message carries the whole body -/
theorem adlBody_single (maxSize tokLen base d tokOpts0 b2 length extra : Nat) (blk : Option Nat) (r : AdlRes)
    (h : adlBody maxSize tokLen base d tokOpts0 b2 length extra blk = some r) (hlg : r.lgXmit = false) :
    r.payload = length := by
  unfold adlBody at h
  dsimp only at h
  split at h
  · cases h
  · split at h
    · cases hsb : setupBlockB maxSize (tokOpts0 + extra) 0 b2 length with
      | none => rw [hsb] at h; cases h
      | some sb =>
        rw [hsb] at h
        simp only at h
        unfold adlLgTail at h
        dsimp only at h
        split at h
        · split at h
          · cases h
          · have := (adlFinish_payload _ _ _ _ _ _ r h).1
            rw [hlg] at this; cases this
        · have := (adlFinish_payload _ _ _ _ _ _ r h).1
          rw [hlg] at this; cases this
    · unfold adlNoBlock at h
      exact (adlFinish_payload _ _ _ _ _ _ r h).2

theorem addDataLarge_single (maxSize tokLen optBytes lastOpt : Nat) (blk : Option Nat) (maxBlk length rtagLen : Nat)
    (r : AdlRes) (h : addDataLarge maxSize tokLen optBytes lastOpt blk maxBlk length rtagLen = some r)
    (hlg : r.lgXmit = false) : r.payload = length := by
  unfold addDataLarge at h
  exact adlBody_single _ _ _ _ _ _ _ _ _ r h hlg

/-- a request datagram of a block-wise transfer is what a libcoap client sends for this body -/
def ReqBlk (P : B1Par) (d : Req1) : Prop :=
  d.szx ≤ 6 ∧ d.num < nBlocks P.body.length d.szx ∧ d.payload = slice P.body d.szx d.num ∧
  d.m = more P.body.length d.szx d.num ∧ d.size1 = some P.body.length ∧
  (d.szx = b1S P ∨ (d.szx = b1B0 P ∧ d.num = 0))

/-- the one message of a body that needs no blocks: the whole body, Block1 absent or (0, 0, SZX) -/
def ReqSingle (P : B1Par) (d : Req1) : Prop := d.num = 0 ∧ d.m = 0 ∧ d.payload = P.body

/-- a request datagram is what a libcoap client sends for this body -/
def ReqOK (P : B1Par) (d : Req1) : Prop := ReqBlk P d ∨ ReqSingle P d

structure B1Inv (P : B1Par) (s : B1Sys) : Prop where
  req : ∀ d, d ∈ s.reqs → ReqOK P d
  rsp : ∀ ok blk, (ok, blk) ∈ s.rsps → ∀ num szx, blk = some (num, szx) → szx = b1S P
  cli : ∀ x, s.cli = some x → x.data = P.body ∧ XmitInv x ∧ (x.blkSize = b1B0 P ∨ x.blkSize = b1S P)
  srv : ∀ v, s.srv = some v → SrcvInv P.cap P.body v ∧ v.szx = b1S P
  outs : ∀ o, o ∈ s.outs → ∀ b l, o = SrcvOut.deliver b l → b = P.body ∧ l = P.body.length

structure B1ParOK (P : B1Par) : Prop where
  len : P.body.length < 2 ^ 31
  ms : P.maxSize < 2 ^ 62

theorem b1_init_inv (P : B1Par) : B1Inv P {} :=
  { req := (by intro d hd; cases hd)
    rsp := (by intro ok blk h; cases h)
    cli := (by intro x hx; cases hx)
    srv := (by intro v hv; cases hv)
    outs := (by intro o ho; cases ho) }

theorem b1Put_inv (P : B1Par) (hP : B1ParOK P) (s : B1Sys) (hinv : B1Inv P s) : B1Inv P (b1Step P s B1Event.appPut) := by
  simp only [b1Step]
  cases ha : addDataLarge P.maxSize P.tokLen P.optBytes P.lastOpt P.blk P.maxBlkC P.body.length P.rtagLen with
  | none => exact hinv
  | some r =>
    simp only
    by_cases hlg : r.lgXmit = true
    · rw [if_pos hlg]
      have hlen := hP.len
      obtain ⟨f1, f2, f3, f4⟩ := addDataLarge_first _ _ _ _ _ _ _ _ r hP.ms (by omega) ha hlg
      have hB0 : b1B0 P = r.blkSize := by unfold b1B0; rw [ha]
      rw [f1]
      simp only
      have hv16 : blockValue 0 1 r.blkSize / 16 = 0 := by unfold blockValue; omega
      have hv8 : (blockValue 0 1 r.blkSize / 8) % 2 = 1 := by unfold blockValue; omega
      have hvs : blockValue 0 1 r.blkSize % 8 = r.blkSize := by unfold blockValue; omega
      rw [hv16, hv8, hvs, f2]
      have hcs : 2 ^ (r.blkSize + 4) = chunkSize r.blkSize := rfl
      have hnb : 1 < nBlocks P.body.length r.blkSize := (lt_nBlocks_iff _ _ 1).mpr (by rw [← hcs]; omega)
      have hmore : more P.body.length r.blkSize 0 = 1 := by unfold more; rw [if_pos (by omega)]
      have hsl : P.body.take (2 ^ (r.blkSize + 4)) = slice P.body r.blkSize 0 := by unfold slice chunkSize; simp
      refine { req := ?_, rsp := hinv.rsp, cli := ?_, srv := hinv.srv, outs := hinv.outs }
      · intro d hd
        rcases List.mem_append.mp hd with hd | hd
        · exact hinv.req d hd
        · rw [List.mem_singleton] at hd
          rw [hd]
          exact Or.inl ⟨f4, (by show 0 < nBlocks P.body.length r.blkSize; omega), hsl, hmore.symm, rfl, Or.inr ⟨hB0.symm, rfl⟩⟩
      · intro x hx
        cases hx
        refine ⟨rfl, ⟨Nat.zero_mod _, ?_, f4⟩, Or.inl hB0.symm⟩
        show 0 + 2 ^ (r.blkSize + 4) ≤ P.body.length + 1024
        omega
    · rw [if_neg hlg]
      have hlg' : r.lgXmit = false := by cases hx : r.lgXmit with | true => exact (hlg hx).elim | false => rfl
      have hpay := addDataLarge_single _ _ _ _ _ _ _ _ r ha hlg'
      refine { req := ?_, rsp := hinv.rsp, cli := hinv.cli, srv := hinv.srv, outs := hinv.outs }
      intro d hd
      rcases List.mem_append.mp hd with hd | hd
      · exact hinv.req d hd
      · rw [List.mem_singleton] at hd
        rw [hd]
        exact Or.inr ⟨rfl, rfl, by show P.body.take r.payload = P.body; rw [hpay]; exact List.take_length⟩

theorem b1Req_inv (P : B1Par) (hP : B1ParOK P) (s : B1Sys) (d : Req1) (hd : d ∈ s.reqs) (hinv : B1Inv P s) :
    B1Inv P { s with srv := (srcvStep P.cap P.junk P.maxBlk s.srv d.num d.m d.szx d.payload d.size1).1,
                     outs := s.outs ++ [(srcvStep P.cap P.junk P.maxBlk s.srv d.num d.m d.szx d.payload d.size1).2],
                     rsps := s.rsps ++ b1Responses P d (srcvStep P.cap P.junk P.maxBlk s.srv d.num d.m d.szx d.payload d.size1).2 } := by
  rcases hinv.req d hd with hblk | ⟨q1, q2, q3⟩
  case inr =>
    -- a single-message body: "Not blocked, or a single block" — the payload as it is, the lg_srcv is not touched
    have hstep : srcvStep P.cap P.junk P.maxBlk s.srv d.num d.m d.szx d.payload d.size1 =
        (s.srv, SrcvOut.deliver P.body P.body.length) := by
      unfold srcvStep
      dsimp only
      rw [if_pos ⟨q1, q2⟩, q3]
    rw [hstep]
    refine { req := hinv.req, rsp := ?_, cli := hinv.cli, srv := hinv.srv, outs := ?_ }
    · intro ok blk hmem num szx hb
      have hmem' : (ok, blk) ∈ s.rsps ++ b1Responses P d (SrcvOut.deliver P.body P.body.length) := hmem
      rcases List.mem_append.mp hmem' with hm | hm
      · exact hinv.rsp ok blk hm num szx hb
      · unfold b1Responses at hm
        simp only [List.mem_cons, List.mem_nil_iff, or_false] at hm
        rcases hm with hm | hm <;> (cases hm; cases hb)
    · intro o ho b l hb
      have ho' : o ∈ s.outs ++ [SrcvOut.deliver P.body P.body.length] := ho
      rcases List.mem_append.mp ho' with ho' | ho'
      · exact hinv.outs o ho' b l hb
      · rw [List.mem_singleton] at ho'
        rw [ho'] at hb
        cases hb
        exact ⟨rfl, rfl⟩
  obtain ⟨g1, g2, g3, g4, g5, g6⟩ := hblk
  have hsle := b1S_le P
  have hg : Genuine P.body s.srv ⟨d.num, d.m, d.szx, d.payload, d.size1⟩ := by
    refine ⟨g1, g2, g3, g4, ?_, ?_⟩
    · intro v hv
      have := (hinv.srv v hv).2
      show v.szx ≤ d.szx
      rcases g6 with g6 | ⟨g6, _⟩ <;> omega
    · intro t ht
      have ht' : d.size1 = some t := ht
      rw [g5] at ht'
      cases ht'
      exact Nat.le_refl _
  have hspec := srcvStep_spec P.cap P.junk P.maxBlk P.body s.srv ⟨d.num, d.m, d.szx, d.payload, d.size1⟩ _ _
    (fun v hv => (hinv.srv v hv).1) hg hP.len rfl
  refine { req := hinv.req, rsp := ?_, cli := hinv.cli, srv := ?_, outs := ?_ }
  · intro ok blk hmem num szx hb
    have hmem' : (ok, blk) ∈ s.rsps ++ b1Responses P d (srcvStep P.cap P.junk P.maxBlk s.srv d.num d.m d.szx d.payload d.size1).2 := hmem
    rcases List.mem_append.mp hmem' with hm | hm
    · exact hinv.rsp ok blk hm num szx hb
    · unfold b1Responses at hm
      cases hout : (srcvStep P.cap P.junk P.maxBlk s.srv d.num d.m d.szx d.payload d.size1).2 with
      | cont =>
        rw [hout] at hm
        simp only at hm
        by_cases hm1 : d.m = 1
        · rw [if_pos hm1, List.mem_singleton] at hm
          cases hm
          cases hb
          exact szxR_eq P d.num d.szx g6
        · rw [if_neg hm1] at hm; cases hm
      | deliver b l =>
        rw [hout] at hm
        simp only [List.mem_cons, List.mem_nil_iff, or_false] at hm
        rcases hm with hm | hm <;> (cases hm; cases hb)
      | fail =>
        rw [hout] at hm
        simp only [List.mem_singleton] at hm
        cases hm; cases hb
      | undersized =>
        rw [hout] at hm
        simp only [List.mem_singleton] at hm
        cases hm; cases hb
  · intro v hv
    have hv' : (srcvStep P.cap P.junk P.maxBlk s.srv d.num d.m d.szx d.payload d.size1).1 = some v := hv
    refine ⟨hspec.1 v hv', ?_⟩
    rcases srcvStep_szx _ _ _ _ _ _ _ _ _ v hg.2.2.2.2.1 hv' with ⟨v0, e1, e2⟩ | ⟨_, e2⟩
    · rw [e2]; exact (hinv.srv v0 e1).2
    · rw [e2]; exact szxR_eq P d.num d.szx g6
  · intro o ho b l hb
    have ho' : o ∈ s.outs ++ [(srcvStep P.cap P.junk P.maxBlk s.srv d.num d.m d.szx d.payload d.size1).2] := ho
    rcases List.mem_append.mp ho' with ho' | ho'
    · exact hinv.outs o ho' b l hb
    · rw [List.mem_singleton] at ho'
      obtain ⟨x, y, _⟩ := hspec.2 b l (ho' ▸ hb)
      exact ⟨x, y⟩

theorem b1Rsp_inv (P : B1Par) (hP : B1ParOK P) (s : B1Sys) (ok : Bool) (blk : Option (Nat × Nat)) (x : LgXmit)
    (hr : (ok, blk) ∈ s.rsps) (hx : s.cli = some x) (hinv : B1Inv P s) :
    B1Inv P { s with cli := (xmitB1Step x P.room ok blk).1,
                     reqs := s.reqs ++ (match (xmitB1Step x P.room ok blk).2 with
                                        | .sendNext n m sx p => [⟨n, m, sx, p, some P.body.length⟩]
                                        | _ => []) } := by
  obtain ⟨c1, c2, c3⟩ := hinv.cli x hx
  have hsle := b1S_le P
  have hlen := hP.len
  have hblk : ∀ num szx, blk = some (num, szx) → szx ≤ x.blkSize := by
    intro num szx hb
    have := hinv.rsp ok blk hr num szx hb
    rcases c3 with c3 | c3 <;> omega
  refine { req := ?_, rsp := hinv.rsp, cli := ?_, srv := hinv.srv, outs := hinv.outs }
  · intro d hd
    have hd' : d ∈ s.reqs ++ (match (xmitB1Step x P.room ok blk).2 with
        | .sendNext n m sx p => [⟨n, m, sx, p, some P.body.length⟩]
        | _ => []) := hd
    rcases List.mem_append.mp hd' with hd' | hd'
    · exact hinv.req d hd'
    · cases hres : xmitB1Step x P.room ok blk with
      | mk st' o =>
        rw [hres] at hd'
        cases o with
        | sendNext n m sx p =>
          simp only [List.mem_singleton] at hd'
          rw [hd']
          obtain ⟨a, b, _, ⟨num0, sx0, hb, hs0⟩, e⟩ := xmitB1Step_spec x P.room ok blk st' n m sx p hres
          have hs1 : sx = sx0 := by rw [hs0]; exact (xmitB1Szx_facts x sx0).2.2.1 (hblk num0 sx0 hb)
          subst hs1
          have hsx := hinv.rsp ok blk hr num0 sx hb
          obtain ⟨e1, _⟩ := e c2
          rw [c1] at a b e1
          have h6 : sx ≤ 6 := by have := hblk num0 sx hb; have := c2.2.2; omega
          exact Or.inl ⟨h6, a, b, e1, rfl, Or.inl hsx⟩
        | dupIgnored => simp only at hd'; cases hd'
        | finished => simp only at hd'; cases hd'
        | fail500 => simp only at hd'; cases hd'
  · intro x' hx'
    have hx'' : (xmitB1Step x P.room ok blk).1 = some x' := hx'
    obtain ⟨a, b, _, num, szx, hb, e⟩ := xmitB1Step_inv x P.room ok blk x' c2 (by rw [c1]; omega) hx''
    rw [(xmitB1Szx_facts x szx).2.2.1 (hblk num szx hb)] at e
    exact ⟨by rw [b, c1], a, Or.inr (by rw [e]; exact hinv.rsp ok blk hr num szx hb)⟩

theorem b1Step_inv (P : B1Par) (hP : B1ParOK P) (s : B1Sys) (e : B1Event) (hinv : B1Inv P s) : B1Inv P (b1Step P s e) := by
  cases e with
  | appPut => exact b1Put_inv P hP s hinv
  | reqArrives i =>
    simp only [b1Step]
    cases hq : s.reqs[i]? with
    | none => exact hinv
    | some d => exact b1Req_inv P hP s d (List.mem_of_getElem? hq) hinv
  | rspArrives j =>
    simp only [b1Step]
    cases hq : s.rsps[j]? with
    | none => exact hinv
    | some r =>
      obtain ⟨ok, blk⟩ := r
      cases hc : s.cli with
      | none => exact hinv
      | some x => exact b1Rsp_inv P hP s ok blk x (List.mem_of_getElem? hq) hc hinv
  | srvExpire =>
    exact { req := hinv.req, rsp := hinv.rsp, cli := hinv.cli, srv := (by intro v hv; cases hv), outs := hinv.outs }
  | cliExpire =>
    exact { req := hinv.req, rsp := hinv.rsp, cli := (by intro x hx; cases hx), srv := hinv.srv, outs := hinv.outs }

theorem b1Run_inv (P : B1Par) (hP : B1ParOK P) : ∀ (evs : List B1Event) (s : B1Sys), B1Inv P s →
    B1Inv P (evs.foldl (b1Step P) s)
  | [], _, h => h
  | e :: evs, s, h => b1Run_inv P hP evs _ (b1Step_inv P hP s e h)

end Coap.Block
