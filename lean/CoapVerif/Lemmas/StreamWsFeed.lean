import CoapVerif.Lemmas.StreamWsSession
/- C05, WebSocket part: a `coap_read_session` call from any state of the invariant (handshake or frame phase),
   the event loop on one chunk, and the whole sequence of chunks = S on the concatenation. -/
namespace Coap
open Coap.M Coap.M.Ws Coap.Spec.Stream Coap.Spec.Stream.Ws

theorem Res.pre_nil (r : Res) : Res.pre [] r = r := rfl

theorem Res.pre_pre (a b : List Msg) (r : Res) : Res.pre a (Res.pre b r) = Res.pre (a ++ b) r := by
  simp [Res.pre, List.append_assoc]

/-- what a `coap_read_session` call may do, relative to `R0` = what S makes of everything from here on -/
def SessPost (mode : Mode) (accept : Bytes) (X : Bytes) (R0 : Res) (av : Bytes) : List Msg × Sess × Bytes → Prop
  | (ms, .open st', av') =>
      (∃ a', WsInv mode st' a' ∧
        R0 = Res.pre ms (specFrom mode accept a' (av' ++ X))) ∧
      av'.length ≤ av.length ∧ (av ≠ [] → av'.length < av.length)
  | (ms, .closed, _) => R0.msgs = ms ∧ R0.closed = true
  | (_, .oob, _) => False

theorem SessPost_of_fr (mode : Mode) (accept : Bytes) (X : Bytes) (R0 : Res) (c : Prop) (p av av1 : Bytes)
    (res : List Msg × Sess × Bytes) (h : SessFr mode X c p av1 res) (hR : R0 = frRes mode (p ++ (av1 ++ X)))
    (hle : av1.length ≤ av.length) (hs : av ≠ [] → av1.length < av.length ∨ (c ∧ av1 ≠ [])) :
    SessPost mode accept X R0 av res := by
  obtain ⟨ms, sess, av'⟩ := res
  cases sess with
  | oob => exact h.elim
  | closed =>
    simp only [SessFr] at h
    simp only [SessPost]
    rw [hR, frRes_eq, h]
    exact ⟨rfl, rfl⟩
  | «open» st' =>
    simp only [SessFr] at h
    simp only [SessPost]
    obtain ⟨⟨p', hi, hf⟩, hp1, hp2⟩ := h
    refine ⟨⟨.fr p', hi, ?_⟩, by omega, ?_⟩
    · rw [hR, frRes_eq, hf]
      simp only [specFrom, frRes_eq, Res.pre]
    · intro hne
      rcases hs hne with h1 | ⟨hc, h1⟩
      · omega
      · have := hp2 hc h1; omega

theorem readSession_spec (mode : Mode) (accept : Bytes) (X : Bytes) (st : St) (av : Bytes) (a : Abs)
    (hinv : WsInv mode st a) :
    SessPost mode accept X (specFrom mode accept a (av ++ X)) av
      (readSession mode accept (av.length + fsCap + 2) st av) := by
  cases a with
  | fr p =>
    have := readSession_fr_inv mode accept X (av.length + fsCap + 1) st av p hinv (by omega)
    exact SessPost_of_fr mode accept X _ True p av av _ this rfl (Nat.le_refl _) (fun hne => Or.inr ⟨trivial, hne⟩)
  | hs s l =>
    obtain ⟨hhs, hseen, hhdr⟩ := hinv
    subst hseen hhdr
    have hspec := rdHttpHeader_spec mode accept X (av.length + 2) st av hhs (by omega)
    simp only [specFrom]
    generalize hrr : rdHttpHeader mode accept (av.length + 2) st av = rr at hspec
    have hfu : av.length + fsCap + 2 = (av.length + fsCap + 1) + 1 := rfl
    cases rr with
    | rej =>
      simp only at hspec
      rw [hfu, readSession]
      simp only [wsRead, hhs.1, hrr, Bool.not_false, if_true]
      simp only [SessPost, hspec]
      exact ⟨trivial, trivial⟩
    | oob => exact hspec.elim
    | ok pr =>
      obtain ⟨st', av'⟩ := pr
      simp only at hspec
      obtain ⟨hdown, hup⟩ := hspec
      by_cases hup' : st'.up = true
      · obtain ⟨hpre, hlen, hav, hR⟩ := hup hup'
        by_cases h0 : st'.rdHeader.length = 0
        · rw [hfu, readSession]
          simp only [wsRead, hhs.1, hrr, Bool.not_false, if_true, hup', Bool.not_true, Bool.false_eq_true, if_false, h0]
          simp only [SessPost]
          have hnil : st'.rdHeader = [] := List.length_eq_zero_iff.mp h0
          refine ⟨⟨.fr [], Or.inl ⟨by rw [← hnil]; exact hpre, trivial⟩, ?_⟩, by omega, fun _ => hav⟩
          rw [hR, hnil]; rfl
        · have hw : wsRead mode accept rxBuf st av = readFrame mode rxBuf (av'.length + fsCap + 2) st' av' := by
            simp only [wsRead, hhs.1, hrr, Bool.not_false, if_true, hup', Bool.not_true, Bool.false_eq_true, if_false, h0]
          have hpost : FrPost mode X (st'.rdHeader.length < fsCap) st'.rdHeader av' (wsRead mode accept rxBuf st av) := by
            rw [hw]; exact readFrame_spec mode X _ st' av' st'.rdHeader hpre (by omega) (by omega)
          have := readSession_of_post mode accept X (av.length + fsCap + 1)
            (readSession_fr mode accept X (av.length + fsCap + 1)) st av st'.rdHeader av' _ hpost (by omega)
          exact SessPost_of_fr mode accept X _ _ st'.rdHeader av av' _ this hR (by omega) (fun _ => Or.inl hav)
      · have hup'' : st'.up = false := by cases h : st'.up <;> simp_all
        obtain ⟨hav, hinv', hR⟩ := hdown hup''
        rw [hfu, readSession]
        simp only [wsRead, hhs.1, hrr, Bool.not_false, if_true, hup'']
        simp only [SessPost]
        subst hav
        refine ⟨⟨.hs st'.seen st'.httpHdr, ⟨hinv', rfl, rfl⟩, ?_⟩, Nat.zero_le _, fun hne => List.length_pos_iff.mpr hne⟩
        rw [hR]; simp [specFrom, Res.pre_nil]

/-! ### the event loop on one chunk -/

def ChunkPost (mode : Mode) (accept : Bytes) (X : Bytes) (R0 : Res) : List Msg × Sess × Bool → Prop
  | (ms, .open st', stuck) =>
      stuck = false ∧ ∃ a', WsInv mode st' a' ∧ R0 = Res.pre ms (specFrom mode accept a' X)
  | (ms, .closed, _) => R0.msgs = ms ∧ R0.closed = true
  | (_, .oob, _) => False

theorem feedChunk_spec (mode : Mode) (accept : Bytes) (X : Bytes) : ∀ (fuel idle : Nat) (st : St) (av : Bytes) (a : Abs),
    WsInv mode st a → av.length < fuel →
    ChunkPost mode accept X (specFrom mode accept a (av ++ X)) (feedChunk mode accept fuel idle st av) := by
  intro fuel
  induction fuel with
  | zero => intro _ _ av _ _ h; omega
  | succ fuel ih =>
    intro idle st av a hinv hfuel
    rw [feedChunk]
    by_cases h0 : av.length = 0
    · rw [if_pos h0]
      have hnil : av = [] := List.length_eq_zero_iff.mp h0
      subst hnil
      simp only [ChunkPost]
      exact ⟨trivial, a, hinv, rfl⟩
    · rw [if_neg h0]
      have hne : av ≠ [] := fun h => h0 (by rw [h]; rfl)
      have hs := readSession_spec mode accept X st av a hinv
      generalize readSession mode accept (av.length + fsCap + 2) st av = res at hs
      obtain ⟨ms, sess, av'⟩ := res
      cases sess with
      | oob => exact hs.elim
      | closed => simp only [SessPost] at hs; simp only [ChunkPost]; exact hs
      | «open» st' =>
        simp only [SessPost] at hs
        obtain ⟨⟨a', hi, hR⟩, _, hlt⟩ := hs
        have hlt' := hlt hne
        have hneq : ¬ av'.length = av.length := by omega
        simp only [if_neg hneq]
        have hr := ih 0 st' av' a' hi (by omega)
        generalize feedChunk mode accept fuel 0 st' av' = r at hr
        obtain ⟨ms2, sess2, stuck⟩ := r
        cases sess2 with
        | oob => exact hr.elim
        | closed =>
          simp only [ChunkPost] at hr ⊢
          rw [hR]
          simp only [Res.pre, hr.1, hr.2, and_self]
        | «open» st'' =>
          simp only [ChunkPost] at hr ⊢
          obtain ⟨hst, a'', hi2, hR2⟩ := hr
          exact ⟨hst, a'', hi2, by rw [hR, hR2, Res.pre_pre]⟩

/-! ### the whole sequence of chunks -/

/-- what is observed of a session at the end -/
inductive WsEnd where
  | open (up : Bool) | closed | oob | stuck
  deriving DecidableEq, Repr

/-- M_ws: the messages handed to coap_dispatch, and how the session ends -/
def wsObs (r : List Msg × Sess × Bool) : List Msg × WsEnd :=
  (r.1, match r.2.1 with
        | .open st => if r.2.2 then .stuck else .open st.up
        | .closed => .closed
        | .oob => .oob)

/-- S_ws: the same observation -/
def specObs (r : Res) : List Msg × WsEnd := (r.msgs, if r.closed then .closed else .open r.up)

/-- S finds no further message in what a reader state of the invariant holds -/
theorem specFrom_pend (mode : Mode) (accept : Bytes) (st : St) (a : Abs) (h : WsInv mode st a) :
    specFrom mode accept a [] = ⟨[], st.up, false⟩ := by
  cases a with
  | hs s l =>
    obtain ⟨⟨hup, hno, hlen, _⟩, _, hl⟩ := h
    subst hl
    simp only [specFrom, List.append_nil]
    rw [hsRes_pend _ mode s st.httpHdr hno hlen, hup]
  | fr p =>
    have hp := frOf_pend mode st p h
    have hup : st.up = true := by
      rcases h with h | h
      · exact h.1.1
      · exact h.1
    simp only [specFrom, List.append_nil, frRes_eq, hp, hup]

def FeedPost (mode : Mode) (R0 : Res) : List Msg × Sess × Bool → Prop
  | (ms, .open st', stuck) => stuck = false ∧ (∃ a', WsInv mode st' a') ∧ R0 = ⟨ms, st'.up, false⟩
  | (ms, .closed, _) => R0.msgs = ms ∧ R0.closed = true
  | (_, .oob, _) => False

theorem feed_spec (mode : Mode) (accept : Bytes) : ∀ (chunks : List Bytes) (st : St) (a : Abs),
    WsInv mode st a →
    FeedPost mode (specFrom mode accept a chunks.flatten) (feed mode accept st chunks) := by
  intro chunks
  induction chunks with
  | nil =>
    intro st a hinv
    simp only [feed, List.flatten_nil, FeedPost]
    exact ⟨trivial, ⟨a, hinv⟩, specFrom_pend mode accept st a hinv⟩
  | cons c cs ih =>
    intro st a hinv
    rw [List.flatten_cons]
    have hc := feedChunk_spec mode accept cs.flatten (6 * (c.length + 1)) 0 st c a hinv (by omega)
    rw [feed]
    generalize feedChunk mode accept (6 * (c.length + 1)) 0 st c = r at hc
    obtain ⟨ms, sess, stuck⟩ := r
    cases sess with
    | oob => exact hc.elim
    | closed => simp only [ChunkPost] at hc; simp only [FeedPost]; exact hc
    | «open» st' =>
      simp only [ChunkPost] at hc
      obtain ⟨hst, a', hi, hR⟩ := hc
      subst hst
      simp only
      have hr := ih st' a' hi
      generalize feed mode accept st' cs = r2 at hr
      obtain ⟨ms2, sess2, stuck2⟩ := r2
      cases sess2 with
      | oob => exact hr.elim
      | closed =>
        simp only [FeedPost] at hr ⊢
        rw [hR]
        simp only [Res.pre, hr.1, hr.2, and_self]
      | «open» st'' =>
        simp only [FeedPost] at hr ⊢
        obtain ⟨hst2, hex, hR2⟩ := hr
        exact ⟨hst2, hex, by rw [hR, hR2]; rfl⟩

theorem wsObs_of_post (mode : Mode) (R0 : Res) (r : List Msg × Sess × Bool) (h : FeedPost mode R0 r) :
    wsObs r = specObs R0 := by
  obtain ⟨ms, sess, stuck⟩ := r
  cases sess with
  | oob => exact h.elim
  | closed =>
    simp only [FeedPost] at h
    simp only [wsObs, specObs, h.1, h.2, if_true]
  | «open» st' =>
    simp only [FeedPost] at h
    obtain ⟨hst, _, hR⟩ := h
    subst hst
    rw [hR]
    simp [wsObs, specObs]

/-! ### the abstraction as a function of the reader state -/

/-- phase and bytes consumed but not yet delivered, read off the reader state: before `up` the validator state and
the line buffer; inside a frame header `rd_header[0 .. hdr_ofs)`; inside a payload the complete header (its length
is determined by its second byte) ++ `rx_data[0 .. data_ofs)` -/
def wsAbs (st : St) : Abs :=
  if !st.up then .hs st.seen st.httpHdr
  else if st.allHdrIn then
    .fr (st.rdHeader.take (2 + hExtra (st.rdHeader.getD 1 0).toNat) ++ st.rxData.getD [])
  else .fr st.rdHeader

/-- the parser position of the invariant is determined by the reader state -/
theorem wsAbs_of_inv (mode : Mode) (st : St) (a : Abs) (h : WsInv mode st a) : wsAbs st = a := by
  cases a with
  | hs s l =>
    obtain ⟨⟨hup, _⟩, hs, hl⟩ := h
    simp [wsAbs, hup, hs, hl]
  | fr p =>
    rcases h with ⟨⟨hup, hall, hrd, _⟩, _⟩ | ⟨hup, hall, b0, b1, r, D, hp, hr, _, _, _, _, _, _, _, _, hrx, ⟨junk, hpre⟩⟩
    · simp [wsAbs, hup, hall, hrd]
    · have htake : st.rdHeader.take (2 + hExtra (st.rdHeader.getD 1 0).toNat) = b0 :: b1 :: r := by
        rw [← hpre]
        simp only [List.cons_append, List.getD_cons_succ, List.getD_cons_zero]
        rw [show 2 + hExtra b1.toNat = (b0 :: b1 :: r).length by simp only [List.length_cons]; omega]
        exact List.take_left' rfl
      have hget : st.rxData.getD [] = D := by
        rw [hrx]
        by_cases hd : D = []
        · simp [hd]
        · simp [hd]
      simp only [wsAbs, hup, hall, Bool.not_true, Bool.false_eq_true, if_false, if_true, htake, hget, hp]
      simp

end Coap
