import CoapVerif.Lemmas.BlockNet
import CoapVerif.Lemmas.BlockSrcvHostile
/- C09, composed systems (Model/BlockNet.lean): RUN-level "at most once" with a ghost history.

   Block1 (`b1Step`): the ghost `g` is the list of request datagrams the server's lg_srcv has processed since the server
   last had NO lg_srcv (the "epoch": it is emptied whenever the lg_srcv is released — by a delivery, by 4.08, by a
   time-out).  Along EVERY schedule a delivery hands over the client's body and EVERY byte of it was carried, for exactly
   that offset, by a request that arrived in the current epoch: a delivery uses up a complete set of blocks received after
   the previous delivery / release.  Nothing left over from an earlier epoch can contribute, so a replay of the last block
   (or of any set of datagrams that does not contain block 0) never delivers.  "At most one delivery per PUT event" is
   NOT true of the code and RFC 7959 does not demand it: after the release a replay of the COMPLETE datagram sequence is
   a new transfer (SPEC DECISION D6) — witness in Props/C09.lean.

   Block2 (`b2Step`): the same with the epoch = the responses the client's lg_crcv has processed since it was last absent
   or (re-)initialised.  Core Lean only. -/
set_option linter.unusedSimpArgs false
set_option linter.unusedVariables false
namespace Coap.Block
open Coap.Spec.Block

/-! ## Block1 -/

def Req1.dgram (d : Req1) : Dgram := ⟨d.num, d.m, d.szx, d.payload, d.size1⟩

/-- the ghost after an event: emptied when the server is left without lg_srcv, extended by the datagram otherwise -/
def b1Epoch (P : B1Par) (s : B1Sys) (g : List Dgram) (e : B1Event) : List Dgram :=
  match (b1Step P s e).srv with
  | none => []
  | some _ =>
    match e with
    | .reqArrives i => (match s.reqs[i]? with | some d => d.dgram :: g | none => g)
    | _ => g

/-- the composed Block1 system with its ghost -/
def b1StepG (P : B1Par) (sg : B1Sys × List Dgram) (e : B1Event) : B1Sys × List Dgram :=
  (b1Step P sg.1 e, b1Epoch P sg.1 sg.2 e)

/-- ghost invariant: no lg_srcv ⇒ empty epoch; the lg_srcv holds nothing but what the epoch's datagrams carried -/
structure B1Ghost (P : B1Par) (sg : B1Sys × List Dgram) : Prop where
  empty : sg.1.srv = none → sg.2 = []
  hs : ∀ v, sg.1.srv = some v → HSInv P.cap sg.2 v

theorem nBlocks_mono (len a b : Nat) (h : a ≤ b) (k : Nat) (hk : k < nBlocks len b) : k < nBlocks len a := by
  rw [lt_nBlocks_iff] at hk ⊢
  have hc : chunkSize a ≤ chunkSize b := Nat.pow_le_pow_right (by decide) (by omega)
  have := Nat.mul_le_mul_left k hc
  omega

/-- every request in flight passes `coap_get_block_b` (NUM < 2^20) when the body is addressable in the settled size -/
theorem reqBlk_num (P : B1Par) (d : Req1) (hN : nBlocks P.body.length (b1S P) ≤ 2 ^ 20) (h : ReqBlk P d) :
    d.num < 2 ^ 20 ∧ d.szx ≤ 6 := by
  obtain ⟨g1, g2, _, _, _, g6⟩ := h
  have hle : b1S P ≤ d.szx := by
    have := b1S_le P
    rcases g6 with g6 | ⟨g6, _⟩ <;> omega
  have := nBlocks_mono P.body.length (b1S P) d.szx hle d.num g2
  exact ⟨by omega, g1⟩

/-- one request arriving: the ghost invariant is kept and a delivery consists of bytes carried in THIS epoch -/
theorem b1Req_ghost (P : B1Par) (hN : nBlocks P.body.length (b1S P) ≤ 2 ^ 20) (s : B1Sys) (g : List Dgram) (d : Req1)
    (hd : ReqOK P d) (hg : B1Ghost P (s, g)) :
    let res := srcvStep P.cap P.junk P.maxBlk s.srv d.num d.m d.szx d.payload d.size1
    (∀ v, res.1 = some v → HSInv P.cap (d.dgram :: g) v) ∧ GoodDeliver (d.dgram :: g) res.2 := by
  intro res
  rcases hd with hblk | ⟨q1, q2, q3⟩
  · obtain ⟨hn, hz⟩ := reqBlk_num P d hN hblk
    exact srcvStep_hostile P.cap P.junk P.maxBlk g d.dgram s.srv res.1 res.2 hg.hs hn hz rfl
  · have hstep : res = (s.srv, SrcvOut.deliver d.payload d.payload.length) := by
      show srcvStep P.cap P.junk P.maxBlk s.srv d.num d.m d.szx d.payload d.size1 = _
      unfold srcvStep
      dsimp only
      rw [if_pos ⟨q1, q2⟩]
    rw [hstep]
    refine ⟨fun v hv => HSInv_cons P.cap g d.dgram v (hg.hs v hv), ?_⟩
    intro b l hb
    cases hb
    refine ⟨Nat.le_refl _, ?_⟩
    intro o ho
    refine ⟨d.payload[o], List.getElem?_eq_getElem ho, d.dgram, List.mem_cons_self, ?_, ?_⟩
    · show d.num * 2 ^ (d.szx + 4) ≤ o
      rw [q1, Nat.zero_mul]; exact Nat.zero_le _
    · show d.payload[o - d.num * 2 ^ (d.szx + 4)]? = some d.payload[o]
      rw [q1, Nat.zero_mul, Nat.sub_zero]; exact List.getElem?_eq_getElem ho

theorem b1_init_ghost (P : B1Par) : B1Ghost P ({}, []) :=
  { empty := fun _ => rfl, hs := (by intro v hv; cases hv) }

theorem b1StepG_ghost (P : B1Par) (hN : nBlocks P.body.length (b1S P) ≤ 2 ^ 20) (sg : B1Sys × List Dgram) (e : B1Event)
    (hinv : B1Inv P sg.1) (hg : B1Ghost P sg) : B1Ghost P (b1StepG P sg e) := by
  obtain ⟨s, g⟩ := sg
  -- events that leave the lg_srcv alone
  have hsame : (b1Step P s e).srv = s.srv → b1Epoch P s g e = g → B1Ghost P (b1StepG P (s, g) e) := by
    intro h1 h2
    refine { empty := ?_, hs := ?_ }
    · intro hn
      show b1Epoch P s g e = []
      rw [h2]
      exact hg.empty (by rw [← h1]; exact hn)
    · intro v hv
      show HSInv P.cap (b1Epoch P s g e) v
      rw [h2]
      exact hg.hs v (by rw [← h1]; exact hv)
  cases e with
  | appPut =>
    have h1 : (b1Step P s B1Event.appPut).srv = s.srv := by
      simp only [b1Step]
      split
      · split
        · split <;> rfl
        · rfl
      · rfl
    apply hsame h1
    unfold b1Epoch
    rw [h1]
    cases hs : s.srv with
    | none => exact (hg.empty hs).symm
    | some v => rfl
  | rspArrives j =>
    have h1 : (b1Step P s (B1Event.rspArrives j)).srv = s.srv := by
      simp only [b1Step]
      split <;> rfl
    apply hsame h1
    unfold b1Epoch
    rw [h1]
    cases hs : s.srv with
    | none => exact (hg.empty hs).symm
    | some v => rfl
  | cliExpire =>
    have h1 : (b1Step P s B1Event.cliExpire).srv = s.srv := rfl
    apply hsame h1
    unfold b1Epoch
    rw [h1]
    cases hs : s.srv with
    | none => exact (hg.empty hs).symm
    | some v => rfl
  | srvExpire =>
    exact { empty := fun _ => rfl, hs := (by intro v hv; cases hv) }
  | reqArrives i =>
    cases hq : s.reqs[i]? with
    | none =>
      have h1 : (b1Step P s (B1Event.reqArrives i)).srv = s.srv := by simp only [b1Step, hq]
      apply hsame h1
      unfold b1Epoch
      rw [h1]
      cases hs : s.srv with
      | none => exact (hg.empty hs).symm
      | some v => simp only [hq]
    | some d =>
      have hd := hinv.req d (List.mem_of_getElem? hq)
      obtain ⟨k1, _⟩ := b1Req_ghost P hN s g d hd hg
      have h1 : (b1Step P s (B1Event.reqArrives i)).srv =
          (srcvStep P.cap P.junk P.maxBlk s.srv d.num d.m d.szx d.payload d.size1).1 := by simp only [b1Step, hq]
      refine { empty := ?_, hs := ?_ }
      · intro hn
        show b1Epoch P s g (B1Event.reqArrives i) = []
        unfold b1Epoch
        have hn' : (b1Step P s (B1Event.reqArrives i)).srv = none := hn
        rw [hn']
      · intro v hv
        have hv' : (b1Step P s (B1Event.reqArrives i)).srv = some v := hv
        show HSInv P.cap (b1Epoch P s g (B1Event.reqArrives i)) v
        unfold b1Epoch
        rw [hv']
        simp only [hq]
        exact k1 v (by rw [← h1]; exact hv')

theorem b1StepG_fst (P : B1Par) : ∀ (evs : List B1Event) (sg : B1Sys × List Dgram),
    (evs.foldl (b1StepG P) sg).1 = evs.foldl (b1Step P) sg.1
  | [], _ => rfl
  | e :: evs, sg => b1StepG_fst P evs (b1StepG P sg e)

theorem b1RunG_inv (P : B1Par) (hP : B1ParOK P) (hN : nBlocks P.body.length (b1S P) ≤ 2 ^ 20) :
    ∀ (evs : List B1Event) (sg : B1Sys × List Dgram), B1Inv P sg.1 → B1Ghost P sg →
      B1Inv P (evs.foldl (b1StepG P) sg).1 ∧ B1Ghost P (evs.foldl (b1StepG P) sg)
  | [], _, h1, h2 => ⟨h1, h2⟩
  | e :: evs, sg, h1, h2 =>
    b1RunG_inv P hP hN evs (b1StepG P sg e) (b1Step_inv P hP sg.1 e h1) (b1StepG_ghost P hN sg e h1 h2)

/-- a block-wise delivery releases the lg_srcv -/
theorem b1Req_release (P : B1Par) (hP : B1ParOK P) (s : B1Sys) (d : Req1) (hinv : B1Inv P s) (hblk : ReqBlk P d) :
    ∀ b l, (srcvStep P.cap P.junk P.maxBlk s.srv d.num d.m d.szx d.payload d.size1).2 = SrcvOut.deliver b l →
      ¬ (d.num = 0 ∧ d.m = 0) → (srcvStep P.cap P.junk P.maxBlk s.srv d.num d.m d.szx d.payload d.size1).1 = none := by
  obtain ⟨g1, g2, g3, g4, g5, g6⟩ := hblk
  have hsle := b1S_le P
  have hg : Genuine P.body s.srv ⟨d.num, d.m, d.szx, d.payload, d.size1⟩ := by
    refine ⟨g1, g2, g3, g4, ?_, ?_⟩
    · intro v hv
      have := (hinv.srv v hv).2
      show v.szx ≤ d.szx
      rcases g6 with g6 | ⟨g6, _⟩ <;> omega
    · intro t ht
      have ht' : d.size1 = some t := ht
      rw [g5] at ht'
      cases ht'
      exact Nat.le_refl _
  have hspec := srcvStep_spec P.cap P.junk P.maxBlk P.body s.srv ⟨d.num, d.m, d.szx, d.payload, d.size1⟩ _ _
    (fun v hv => (hinv.srv v hv).1) hg hP.len rfl
  intro b l hb hn
  exact (hspec.2 b l hb).2.2 hn

/-- what the next request arrival does to the state and the outputs -/
theorem b1Step_req (P : B1Par) (s : B1Sys) (i : Nat) (d : Req1) (hq : s.reqs[i]? = some d) :
    (b1Step P s (B1Event.reqArrives i)).srv = (srcvStep P.cap P.junk P.maxBlk s.srv d.num d.m d.szx d.payload d.size1).1 ∧
    (b1Step P s (B1Event.reqArrives i)).outs =
      s.outs ++ [(srcvStep P.cap P.junk P.maxBlk s.srv d.num d.m d.szx d.payload d.size1).2] := by
  simp [b1Step, hq]

end Coap.Block
