import CoapVerif.Lemmas.BlockNet
import CoapVerif.Lemmas.BlockSrcvHostile
import CoapVerif.Lemmas.BlockTok
/- C09, composed systems (Model/BlockNet.lean): RUN-level "at most once" with a ghost history.

   Block1 (`b1Step`): the ghost `g` is the list of request datagrams the server's lg_srcv has processed since the server
   last had NO lg_srcv (the "epoch": it is emptied whenever the lg_srcv is released — by a delivery, by 4.08, by a
   time-out).  Along EVERY schedule a delivery hands over the client's body and EVERY byte of it was carried, for exactly
   that offset, by a request that arrived in the current epoch: a delivery uses up a complete set of blocks received after
   the previous delivery / release.  Nothing left over from an earlier epoch can contribute, so a replay of the last block
   (or of any set of datagrams that does not contain block 0) never delivers.  "At most one delivery per PUT event" is
   NOT true of the code and RFC 7959 does not demand it: after the release a replay of the COMPLETE datagram sequence is
   a new transfer (SPEC DECISION D6) — witness in Props/C09.lean.

   Block2 (`b2Step`): the same with the epoch = the responses the client's lg_crcv has processed since it was last absent
   or (re-)initialised.  Core Lean only. -/
set_option linter.unusedSimpArgs false
set_option linter.unusedVariables false
namespace Coap.Block
open Coap.Spec.Block

/-! ## Block1 -/

def Req1.dgram (d : Req1) : Dgram := ⟨d.num, d.m, d.szx, d.payload, d.size1⟩

/-- the ghost after an event: emptied when the server is left without lg_srcv, extended by the datagram otherwise -/
def b1Epoch (P : B1Par) (s : B1Sys) (g : List Dgram) (e : B1Event) : List Dgram :=
  match (b1Step P s e).srv with
  | none => []
  | some _ =>
    match e with
    | .reqArrives i => (match s.reqs[i]? with | some d => d.dgram :: g | none => g)
    | _ => g

/-- the composed Block1 system with its ghost -/
def b1StepG (P : B1Par) (sg : B1Sys × List Dgram) (e : B1Event) : B1Sys × List Dgram :=
  (b1Step P sg.1 e, b1Epoch P sg.1 sg.2 e)

/-- ghost invariant: no lg_srcv ⇒ empty epoch; the lg_srcv holds nothing but what the epoch's datagrams carried -/
structure B1Ghost (P : B1Par) (sg : B1Sys × List Dgram) : Prop where
  empty : sg.1.srv = none → sg.2 = []
  hs : ∀ v, sg.1.srv = some v → HSInv P.cap sg.2 v

theorem nBlocks_mono (len a b : Nat) (h : a ≤ b) (k : Nat) (hk : k < nBlocks len b) : k < nBlocks len a := by
  rw [lt_nBlocks_iff] at hk ⊢
  have hc : chunkSize a ≤ chunkSize b := Nat.pow_le_pow_right (by decide) (by omega)
  have := Nat.mul_le_mul_left k hc
  omega

/-- every request in flight passes `coap_get_block_b` (NUM < 2^20) when the body is addressable in the settled size -/
theorem reqBlk_num (P : B1Par) (d : Req1) (hN : nBlocks P.body.length (b1S P) ≤ 2 ^ 20) (h : ReqBlk P d) :
    d.num < 2 ^ 20 ∧ d.szx ≤ 6 := by
  obtain ⟨g1, g2, _, _, _, g6⟩ := h
  have hle : b1S P ≤ d.szx := by
    have := b1S_le P
    rcases g6 with g6 | ⟨g6, _⟩ <;> omega
  have := nBlocks_mono P.body.length (b1S P) d.szx hle d.num g2
  exact ⟨by omega, g1⟩

/-- one request arriving: the ghost invariant is kept and a delivery consists of bytes carried in THIS epoch -/
theorem b1Req_ghost (P : B1Par) (hN : nBlocks P.body.length (b1S P) ≤ 2 ^ 20) (s : B1Sys) (g : List Dgram) (d : Req1)
    (hd : ReqOK P d) (hg : B1Ghost P (s, g)) :
    let res := srcvStep P.cap P.junk P.maxBlk s.srv d.num d.m d.szx d.payload d.size1
    (∀ v, res.1 = some v → HSInv P.cap (d.dgram :: g) v) ∧ GoodDeliver (d.dgram :: g) res.2 := by
  intro res
  rcases hd with hblk | ⟨q1, q2, q3⟩
  · obtain ⟨hn, hz⟩ := reqBlk_num P d hN hblk
    exact srcvStep_hostile P.cap P.junk P.maxBlk g d.dgram s.srv res.1 res.2 hg.hs hn hz rfl
  · have hstep : res = (s.srv, SrcvOut.deliver d.payload d.payload.length) := by
      show srcvStep P.cap P.junk P.maxBlk s.srv d.num d.m d.szx d.payload d.size1 = _
      unfold srcvStep
      dsimp only
      rw [if_pos ⟨q1, q2⟩]
    rw [hstep]
    refine ⟨fun v hv => HSInv_cons P.cap g d.dgram v (hg.hs v hv), ?_⟩
    intro b l hb
    cases hb
    refine ⟨Nat.le_refl _, ?_⟩
    intro o ho
    refine ⟨d.payload[o], List.getElem?_eq_getElem ho, d.dgram, List.mem_cons_self, ?_, ?_⟩
    · show d.num * 2 ^ (d.szx + 4) ≤ o
      rw [q1, Nat.zero_mul]; exact Nat.zero_le _
    · show d.payload[o - d.num * 2 ^ (d.szx + 4)]? = some d.payload[o]
      rw [q1, Nat.zero_mul, Nat.sub_zero]; exact List.getElem?_eq_getElem ho

theorem b1_init_ghost (P : B1Par) : B1Ghost P ({}, []) :=
  { empty := fun _ => rfl, hs := (by intro v hv; cases hv) }

theorem b1StepG_ghost (P : B1Par) (hN : nBlocks P.body.length (b1S P) ≤ 2 ^ 20) (sg : B1Sys × List Dgram) (e : B1Event)
    (hinv : B1Inv P sg.1) (hg : B1Ghost P sg) : B1Ghost P (b1StepG P sg e) := by
  obtain ⟨s, g⟩ := sg
  -- events that leave the lg_srcv alone
  have hsame : (b1Step P s e).srv = s.srv → b1Epoch P s g e = g → B1Ghost P (b1StepG P (s, g) e) := by
    intro h1 h2
    refine { empty := ?_, hs := ?_ }
    · intro hn
      show b1Epoch P s g e = []
      rw [h2]
      exact hg.empty (by rw [← h1]; exact hn)
    · intro v hv
      show HSInv P.cap (b1Epoch P s g e) v
      rw [h2]
      exact hg.hs v (by rw [← h1]; exact hv)
  cases e with
  | appPut =>
    have h1 : (b1Step P s B1Event.appPut).srv = s.srv := by
      simp only [b1Step]
      split
      · split
        · split <;> rfl
        · rfl
      · rfl
    apply hsame h1
    unfold b1Epoch
    rw [h1]
    cases hs : s.srv with
    | none => exact (hg.empty hs).symm
    | some v => rfl
  | rspArrives j =>
    have h1 : (b1Step P s (B1Event.rspArrives j)).srv = s.srv := by
      simp only [b1Step]
      split <;> rfl
    apply hsame h1
    unfold b1Epoch
    rw [h1]
    cases hs : s.srv with
    | none => exact (hg.empty hs).symm
    | some v => rfl
  | cliExpire =>
    have h1 : (b1Step P s B1Event.cliExpire).srv = s.srv := rfl
    apply hsame h1
    unfold b1Epoch
    rw [h1]
    cases hs : s.srv with
    | none => exact (hg.empty hs).symm
    | some v => rfl
  | srvExpire =>
    exact { empty := fun _ => rfl, hs := (by intro v hv; cases hv) }
  | reqArrives i =>
    cases hq : s.reqs[i]? with
    | none =>
      have h1 : (b1Step P s (B1Event.reqArrives i)).srv = s.srv := by simp only [b1Step, hq]
      apply hsame h1
      unfold b1Epoch
      rw [h1]
      cases hs : s.srv with
      | none => exact (hg.empty hs).symm
      | some v => simp only [hq]
    | some d =>
      have hd := hinv.req d (List.mem_of_getElem? hq)
      obtain ⟨k1, _⟩ := b1Req_ghost P hN s g d hd hg
      have h1 : (b1Step P s (B1Event.reqArrives i)).srv =
          (srcvStep P.cap P.junk P.maxBlk s.srv d.num d.m d.szx d.payload d.size1).1 := by simp only [b1Step, hq]
      refine { empty := ?_, hs := ?_ }
      · intro hn
        show b1Epoch P s g (B1Event.reqArrives i) = []
        unfold b1Epoch
        have hn' : (b1Step P s (B1Event.reqArrives i)).srv = none := hn
        rw [hn']
      · intro v hv
        have hv' : (b1Step P s (B1Event.reqArrives i)).srv = some v := hv
        show HSInv P.cap (b1Epoch P s g (B1Event.reqArrives i)) v
        unfold b1Epoch
        rw [hv']
        simp only [hq]
        exact k1 v (by rw [← h1]; exact hv')

theorem b1StepG_fst (P : B1Par) : ∀ (evs : List B1Event) (sg : B1Sys × List Dgram),
    (evs.foldl (b1StepG P) sg).1 = evs.foldl (b1Step P) sg.1
  | [], _ => rfl
  | e :: evs, sg => b1StepG_fst P evs (b1StepG P sg e)

theorem b1RunG_inv (P : B1Par) (hP : B1ParOK P) (hN : nBlocks P.body.length (b1S P) ≤ 2 ^ 20) :
    ∀ (evs : List B1Event) (sg : B1Sys × List Dgram), B1Inv P sg.1 → B1Ghost P sg →
      B1Inv P (evs.foldl (b1StepG P) sg).1 ∧ B1Ghost P (evs.foldl (b1StepG P) sg)
  | [], _, h1, h2 => ⟨h1, h2⟩
  | e :: evs, sg, h1, h2 =>
    b1RunG_inv P hP hN evs (b1StepG P sg e) (b1Step_inv P hP sg.1 e h1) (b1StepG_ghost P hN sg e h1 h2)

/-- a block-wise delivery releases the lg_srcv -/
theorem b1Req_release (P : B1Par) (hP : B1ParOK P) (s : B1Sys) (d : Req1) (hinv : B1Inv P s) (hblk : ReqBlk P d) :
    ∀ b l, (srcvStep P.cap P.junk P.maxBlk s.srv d.num d.m d.szx d.payload d.size1).2 = SrcvOut.deliver b l →
      ¬ (d.num = 0 ∧ d.m = 0) → (srcvStep P.cap P.junk P.maxBlk s.srv d.num d.m d.szx d.payload d.size1).1 = none := by
  obtain ⟨g1, g2, g3, g4, g5, g6⟩ := hblk
  have hsle := b1S_le P
  have hg : Genuine P.body s.srv ⟨d.num, d.m, d.szx, d.payload, d.size1⟩ := by
    refine ⟨g1, g2, g3, g4, ?_, ?_⟩
    · intro v hv
      have := (hinv.srv v hv).2
      show v.szx ≤ d.szx
      rcases g6 with g6 | ⟨g6, _⟩ <;> omega
    · intro t ht
      have ht' : d.size1 = some t := ht
      rw [g5] at ht'
      cases ht'
      exact Nat.le_refl _
  have hspec := srcvStep_spec P.cap P.junk P.maxBlk P.body s.srv ⟨d.num, d.m, d.szx, d.payload, d.size1⟩ _ _
    (fun v hv => (hinv.srv v hv).1) hg hP.len rfl
  intro b l hb hn
  exact (hspec.2 b l hb).2.2 hn

/-- what the next request arrival does to the state and the outputs -/
theorem b1Step_req (P : B1Par) (s : B1Sys) (i : Nat) (d : Req1) (hq : s.reqs[i]? = some d) :
    (b1Step P s (B1Event.reqArrives i)).srv = (srcvStep P.cap P.junk P.maxBlk s.srv d.num d.m d.szx d.payload d.size1).1 ∧
    (b1Step P s (B1Event.reqArrives i)).outs =
      s.outs ++ [(srcvStep P.cap P.junk P.maxBlk s.srv d.num d.m d.szx d.payload d.size1).2] := by
  simp [b1Step, hq]

/-! ## Block2 (single-body mode): the epoch = the responses the lg_crcv has processed since it was last absent or
(re-)initialised (`initial`: fresh from coap_send, or after an ETag change restarted the transfer) -/

def b2Epoch (P : B2Par) (s : B2Sys) (g : List Resp) (e : B2Event) : List Resp :=
  match (b2Step P s e).cli with
  | none => []
  | some c =>
    if c.initial then []
    else
      match e with
      | .rspArrives j _ => (match s.rsps[j]? with | some r => r :: g | none => g)
      | _ => g

def b2StepG (P : B2Par) (sg : B2Sys × List Resp) (e : B2Event) : B2Sys × List Resp :=
  (b2Step P sg.1 e, b2Epoch P sg.1 sg.2 e)

structure B2Ghost (P : B2Par) (sg : B2Sys × List Resp) : Prop where
  empty : (∀ c, sg.1.cli = some c → c.initial = true) → sg.2 = []
  h : ∀ c, sg.1.cli = some c → c.initial = false → HInv P.cap sg.2 c

theorem b2_init_ghost (P : B2Par) : B2Ghost P ({}, []) :=
  { empty := fun _ => rfl, h := (by intro c hc; cases hc) }

/-- one response arriving (matched to a queued request or not): the ghost invariant is kept and a body handed over
consists of bytes carried in THIS epoch.  No hypothesis on the response. -/
theorem b2Rsp_ghost (cap : Nat) (junk : UInt8) (sent : Bool) (st : Option Crcv) (g : List Resp) (r : Resp)
    (hst : ∀ c, st = some c → c.initial = false → HInv cap g c) :
    (∀ c', (crcvStepS sent true cap junk st r).1 = some c' → c'.initial = false → HInv cap (r :: g) c') ∧
    (∀ d l, (crcvStepS sent true cap junk st r).2 = CrcvOut.body d l →
      l ≤ d.length ∧ ∀ o, o < l → ∃ v, d[o]? = some v ∧ SentIn (r :: g) o v) := by
  rcases crcvStepS_cases sent true cap junk st r with he | ⟨_, _, he⟩
  · rw [he]
    exact crcvStep_hostile cap junk g r st _ _ hst rfl
  · rw [he]
    cases r.blk with
    | none => exact ⟨fun c' hc => (by cases hc), fun d l hb => (by cases hb)⟩
    | some b => exact ⟨fun c' hc => (by cases hc), fun d l hb => (by cases hb)⟩

theorem srvOnReq_cli (P : B2Par) (s : B2Sys) (num szx : Nat) :
    (srvOnReq P s num szx).cli = s.cli ∧ (srvOnReq P s num szx).outs = s.outs := by
  unfold srvOnReq
  split
  · split
    · split
      · split <;> exact ⟨rfl, rfl⟩
      · exact ⟨rfl, rfl⟩
    · exact ⟨rfl, rfl⟩
  · split <;> exact ⟨rfl, rfl⟩

theorem b2StepG_ghost (P : B2Par) (hs : P.single = true) (sg : B2Sys × List Resp) (e : B2Event) (hg : B2Ghost P sg) :
    B2Ghost P (b2StepG P sg e) := by
  obtain ⟨s, g⟩ := sg
  have hsame : (b2Step P s e).cli = s.cli → (∀ c, s.cli = some c → c.initial = false → b2Epoch P s g e = g) →
      B2Ghost P (b2StepG P (s, g) e) := by
    intro h1 h2
    have hep : b2Epoch P s g e = g := by
      cases hc : s.cli with
      | none =>
        have : b2Epoch P s g e = [] := by unfold b2Epoch; rw [h1, hc]
        rw [this]
        exact (hg.empty (by intro c hc'; rw [hc] at hc'; cases hc')).symm
      | some c =>
        cases hi : c.initial with
        | true =>
          have : b2Epoch P s g e = [] := by unfold b2Epoch; rw [h1, hc]; simp only [hi, if_true]
          rw [this]
          exact (hg.empty (by intro c' hc'; rw [hc] at hc'; cases hc'; exact hi)).symm
        | false => exact h2 c hc hi
    refine { empty := ?_, h := ?_ }
    · intro hn
      show b2Epoch P s g e = []
      rw [hep]
      exact hg.empty (by intro c hc; exact hn c (by show (b2Step P s e).cli = some c; rw [h1]; exact hc))
    · intro c hc hi
      show HInv P.cap (b2Epoch P s g e) c
      rw [hep]
      have hc' : (b2Step P s e).cli = some c := hc
      rw [h1] at hc'
      exact hg.h c hc' hi
  have hinner : ∀ (e : B2Event), (b2Step P s e).cli = s.cli → (∀ j b, e ≠ B2Event.rspArrives j b) →
      ∀ c, s.cli = some c → c.initial = false → b2Epoch P s g e = g := by
    intro e h1 hne c hc hi
    unfold b2Epoch
    rw [h1, hc]
    cases e with
    | rspArrives j b => exact (hne j b rfl).elim
    | appGet szx => simp only [hi, Bool.false_eq_true, if_false]
    | reqArrives i => simp only [hi, Bool.false_eq_true, if_false]
    | srvExpire => simp only [hi, Bool.false_eq_true, if_false]
    | cliExpire => simp only [hi, Bool.false_eq_true, if_false]
    | cliNew => simp only [hi, Bool.false_eq_true, if_false]
  cases e with
  | appGet szx => exact hsame rfl (hinner _ rfl (by intro j b h; cases h))
  | srvExpire => exact hsame rfl (hinner _ rfl (by intro j b h; cases h))
  | reqArrives i =>
    have h1 : (b2Step P s (B2Event.reqArrives i)).cli = s.cli := by
      simp only [b2Step]
      split
      · exact (srvOnReq_cli P s _ _).1
      · rfl
    exact hsame h1 (hinner _ h1 (by intro j b h; cases h))
  | cliExpire => exact { empty := fun _ => rfl, h := (by intro c hc; cases hc) }
  | cliNew =>
    refine { empty := fun _ => rfl, h := ?_ }
    intro c hc hi
    have hc' : some ({} : Crcv) = some c := hc
    cases hc'
    cases hi
  | rspArrives j sent =>
    cases hq : s.rsps[j]? with
    | none =>
      have h1 : (b2Step P s (B2Event.rspArrives j sent)).cli = s.cli := by simp only [b2Step, hq]
      apply hsame h1
      intro c hc hi
      unfold b2Epoch
      rw [h1, hc]
      simp only [hi, Bool.false_eq_true, if_false, hq]
    | some r =>
      have h1 : (b2Step P s (B2Event.rspArrives j sent)).cli = (crcvStepS sent true P.cap P.junk s.cli r).1 := by
        simp only [b2Step, hq, hs]
      obtain ⟨k1, _⟩ := b2Rsp_ghost P.cap P.junk sent s.cli g r hg.h
      refine { empty := ?_, h := ?_ }
      · intro hn
        show b2Epoch P s g (B2Event.rspArrives j sent) = []
        unfold b2Epoch
        cases hc : (b2Step P s (B2Event.rspArrives j sent)).cli with
        | none => rfl
        | some c =>
          have := hn c hc
          simp only [this, if_true]
      · intro c hc hi
        have hc' : (b2Step P s (B2Event.rspArrives j sent)).cli = some c := hc
        show HInv P.cap (b2Epoch P s g (B2Event.rspArrives j sent)) c
        unfold b2Epoch
        rw [hc']
        simp only [hi, Bool.false_eq_true, if_false, hq]
        exact k1 c (by rw [← h1]; exact hc') hi

theorem b2StepG_fst (P : B2Par) : ∀ (evs : List B2Event) (sg : B2Sys × List Resp),
    (evs.foldl (b2StepG P) sg).1 = evs.foldl (b2Step P) sg.1
  | [], _ => rfl
  | e :: evs, sg => b2StepG_fst P evs (b2StepG P sg e)

theorem b2RunG_inv (P : B2Par) (hP : B2ParOK P) (hs : P.single = true) :
    ∀ (evs : List B2Event) (sg : B2Sys × List Resp), B2Inv P sg.1 → B2Ghost P sg →
      B2Inv P (evs.foldl (b2StepG P) sg).1 ∧ B2Ghost P (evs.foldl (b2StepG P) sg)
  | [], _, h1, h2 => ⟨h1, h2⟩
  | e :: evs, sg, h1, h2 =>
    b2RunG_inv P hP hs evs (b2StepG P sg e) (b2Step_inv P hP sg.1 e h1) (b2StepG_ghost P hs sg e h2)

theorem b2Step_rsp (P : B2Par) (s : B2Sys) (j : Nat) (sent : Bool) (r : Resp) (hq : s.rsps[j]? = some r) :
    (b2Step P s (B2Event.rspArrives j sent)).cli = (crcvStepS sent P.single P.cap P.junk s.cli r).1 ∧
    (b2Step P s (B2Event.rspArrives j sent)).outs = s.outs ++ [(crcvStepS sent P.single P.cap P.junk s.cli r).2] := by
  simp [b2Step, hq]

/-- events after which the client cannot have been given a new transfer: no request sent by the application through
coap_send() with an lg_crcv set up (`cliNew`), no response matched to a request that is still queued -/
def B2Event.unsolicited : B2Event → Bool
  | .rspArrives _ sent => !sent
  | .cliNew => false
  | _ => true

/-- the client without lg_crcv: along any sequence of such events (replays of ANY response datagrams, in any number and
order, among them) the handler is not called and no lg_crcv appears -/
theorem b2_unsolicited_run (P : B2Par) (hP : B2ParOK P) : ∀ (evs : List B2Event) (s : B2Sys), B2Inv P s → s.cli = none →
    (∀ e, e ∈ evs → e.unsolicited = true) →
    (evs.foldl (b2Step P) s).cli = none ∧ ∀ o, o ∈ (evs.foldl (b2Step P) s).outs → o ∈ s.outs ∨ o = CrcvOut.skip
  | [], s, _, hc, _ => ⟨hc, fun o ho => Or.inl ho⟩
  | e :: evs, s, hinv, hc, hu => by
    have he := hu e List.mem_cons_self
    have hstep : (b2Step P s e).cli = none ∧ ∀ o, o ∈ (b2Step P s e).outs → o ∈ s.outs ∨ o = CrcvOut.skip := by
      cases e with
      | appGet szx => exact ⟨hc, fun o ho => Or.inl ho⟩
      | srvExpire => exact ⟨hc, fun o ho => Or.inl ho⟩
      | cliExpire => exact ⟨rfl, fun o ho => Or.inl ho⟩
      | cliNew => cases he
      | reqArrives i =>
        simp only [b2Step]
        split
        · obtain ⟨a, b⟩ := srvOnReq_cli P s _ _
          rw [a, b]
          exact ⟨hc, fun o ho => Or.inl ho⟩
        · exact ⟨hc, fun o ho => Or.inl ho⟩
      | rspArrives j sent =>
        have hsent : sent = false := by cases sent with | true => cases he | false => rfl
        subst hsent
        cases hq : s.rsps[j]? with
        | none =>
          simp only [b2Step, hq]
          exact ⟨hc, fun o ho => Or.inl ho⟩
        | some r =>
          obtain ⟨a, b⟩ := b2Step_rsp P s j false r hq
          obtain ⟨num, szx, k, g1, _⟩ := hinv.rsp r (List.mem_of_getElem? hq)
          have hskip : crcvStepS false P.single P.cap P.junk s.cli r = (none, CrcvOut.skip) := by
            rw [hc]
            exact crcvStepS_unsolicited P.single P.cap P.junk r (by rw [g1]; exact fun h => (by cases h))
          rw [a, b, hskip]
          refine ⟨rfl, fun o ho => ?_⟩
          rcases List.mem_append.mp ho with ho | ho
          · exact Or.inl ho
          · rw [List.mem_singleton] at ho; exact Or.inr ho
    obtain ⟨r1, r2⟩ := b2_unsolicited_run P hP evs (b2Step P s e) (b2Step_inv P hP s e hinv) hstep.1
      (fun e' he' => hu e' (List.mem_cons_of_mem _ he'))
    refine ⟨r1, fun o ho => ?_⟩
    rcases r2 o ho with h | h
    · exact hstep.2 o h
    · exact Or.inr h

/-! ## Block2, per-block mode: the ghost `seen` = the block numbers handed to the handler since the lg_crcv was last
(re-)initialised (`seenAfter`, Lemmas/BlockCrcv.lean), threaded through the composed system -/

/-- one step of `tilesOnce_run`, with the ghost's characterisation afterwards -/
theorem tiles_step (cap : Nat) (junk : UInt8) (body : Bytes) (sz : Option Nat) (hsz : ∀ t, sz = some t → t ≤ body.length)
    (st : Option Crcv) (seen : List Nat) (r : Resp) (num szx : Nat)
    (hst : ∀ s, st = some s → s.initial = false → CrcvInv false cap body sz s)
    (hG : ∀ k, k ∈ seen ↔ Covers (effRecv st) k) (hg : Genuine2 body sz st r num szx) :
    (∀ off p t nx, (crcvStep false cap junk st r).2 = CrcvOut.block off p t nx → numOf r ∉ seen) ∧
    (∀ off p t, (crcvStep false cap junk st r).2 = CrcvOut.last off p t →
      numOf r ∉ seen ∧ ∀ k, k < nBlocks body.length (szxOfR r) → k = numOf r ∨ k ∈ seen) ∧
    (∀ k, k ∈ seenAfter (crcvStep false cap junk st r).1 seen (numOf r) (crcvStep false cap junk st r).2 ↔
      Covers (effRecv (crcvStep false cap junk st r).1) k) := by
  have hnum : numOf r = num := by unfold numOf; rw [hg.1]
  have hszx : szxOfR r = szx := by unfold szxOfR; rw [hg.1]
  obtain ⟨hpn, hpw⟩ := crcvStep_perblock cap junk st r
  rw [hnum, hszx]
  generalize hres : crcvStep false cap junk st r = res at hpn hpw ⊢
  obtain ⟨st', out⟩ := res
  have hspec := crcvStep_spec false cap junk body sz st r num szx st' out hsz hst hg hres
  dsimp only at hpn hpw ⊢
  refine ⟨?_, ?_, ?_⟩
  · intro off p t nx hb hmem
    exact (hspec.dBlock off p t nx hb).2.2.2.1 ((hG num).mp hmem)
  · intro off p t hb
    refine ⟨fun hmem => (hspec.dLast off p t hb).2.2.2.1 ((hG num).mp hmem), ?_⟩
    intro k hk
    rcases hspec.complete (by rw [hb]; rfl) k hk with h | h
    · exact Or.inl h
    · exact Or.inr ((hG k).mpr h)
  · intro k
    unfold seenAfter effRecv
    cases st' with
    | none => simp [covers_nil]
    | some s' =>
      simp only
      cases hi : s'.initial with
      | true => simp [covers_nil]
      | false =>
        simp only [Bool.false_eq_true, if_false]
        have hgrow := hspec.grow s' rfl hi k
        rw [hgrow]
        cases out with
        | block off p t nx =>
          simp only [List.mem_cons]
          constructor
          · intro h
            rcases h with h | h
            · exact Or.inr ⟨h, Or.inr (Or.inr ⟨off, p, t, nx, rfl⟩)⟩
            · exact Or.inl ((hG k).mp h)
          · intro h
            rcases h with h | ⟨h, _⟩
            · exact Or.inr ((hG k).mpr h)
            · exact Or.inl h
        | next n s => exact (hpn n s rfl).elim
        | wait => exact (hpw rfl).elim
        | _ =>
          simp only
          constructor
          · intro h; exact Or.inl ((hG k).mp h)
          · intro h
            rcases h with h | ⟨_, h⟩
            · exact (hG k).mpr h
            · rcases h with h | h | ⟨_, _, _, _, h⟩ <;> cases h

/-- every response in flight is genuine for the lg_crcv it meets (what `cliOnRsp_inv` derives from `B2Inv`) -/
theorem b2_genuine (P : B2Par) (s : B2Sys) (r : Resp) (hr : r ∈ s.rsps) (hinv : B2Inv P s) :
    ∃ num szx, Genuine2 P.body (some P.body.length) s.cli r num szx := by
  obtain ⟨num, szx, k, g1, g2, g3, g4, g5, g6, g7⟩ := hinv.rsp r hr
  have hszr : szxOf r = szx := by unfold szxOf; rw [g1]
  refine ⟨num, szx, g1, g2, g3, g4, ?_⟩
  intro c hc hi hp
  obtain ⟨_, _, r', hr', e1, e2⟩ := hinv.cli c hc hi
  have he : P.etagOf k = c.etag := hp.1 _ g5
  have := hinv.func r r' hr hr' (by rw [g5, e1, he])
  rw [hszr, e2] at this
  exact this.symm

def b2Seen (P : B2Par) (s : B2Sys) (seen : List Nat) (e : B2Event) : List Nat :=
  match e with
  | .rspArrives j sent =>
    (match s.rsps[j]? with
     | some r => seenAfter (crcvStepS sent P.single P.cap P.junk s.cli r).1 seen (numOf r)
                   (crcvStepS sent P.single P.cap P.junk s.cli r).2
     | none => seen)
  | .cliExpire => []
  | .cliNew => []
  | _ => seen

def b2StepS (P : B2Par) (ss : B2Sys × List Nat) (e : B2Event) : B2Sys × List Nat :=
  (b2Step P ss.1 e, b2Seen P ss.1 ss.2 e)

/-- the ghost is exactly the set of blocks the lg_crcv has recorded in its current lifetime -/
def B2SeenInv (ss : B2Sys × List Nat) : Prop := ∀ k, k ∈ ss.2 ↔ Covers (effRecv ss.1.cli) k

theorem b2StepS_inv (P : B2Par) (hs : P.single = false) (ss : B2Sys × List Nat) (e : B2Event) (hinv : B2Inv P ss.1)
    (hG : B2SeenInv ss) : B2SeenInv (b2StepS P ss e) := by
  obtain ⟨s, seen⟩ := ss
  cases e with
  | appGet szx => exact hG
  | srvExpire => exact hG
  | cliExpire => intro k; simp [b2StepS, b2Seen, b2Step, effRecv, covers_nil]
  | cliNew => intro k; simp [b2StepS, b2Seen, b2Step, effRecv, covers_nil]
  | reqArrives i =>
    intro k
    show k ∈ seen ↔ Covers (effRecv (b2Step P s (B2Event.reqArrives i)).cli) k
    have h1 : (b2Step P s (B2Event.reqArrives i)).cli = s.cli := by
      simp only [b2Step]
      split
      · exact (srvOnReq_cli P s _ _).1
      · rfl
    rw [h1]
    exact hG k
  | rspArrives j sent =>
    cases hq : s.rsps[j]? with
    | none =>
      intro k
      show k ∈ b2Seen P s seen (B2Event.rspArrives j sent) ↔ Covers (effRecv (b2Step P s (B2Event.rspArrives j sent)).cli) k
      simp only [b2Seen, b2Step, hq]
      exact hG k
    | some r =>
      obtain ⟨e1, _⟩ := b2Step_rsp P s j sent r hq
      intro k
      show k ∈ b2Seen P s seen (B2Event.rspArrives j sent) ↔ Covers (effRecv (b2Step P s (B2Event.rspArrives j sent)).cli) k
      rw [e1]
      simp only [b2Seen, hq]
      rw [hs]
      rcases crcvStepS_cases sent false P.cap P.junk s.cli r with he | ⟨_, _, he⟩
      · rw [he]
        obtain ⟨num, szx, hg⟩ := b2_genuine P s r (List.mem_of_getElem? hq) hinv
        have hst : ∀ c, s.cli = some c → c.initial = false → CrcvInv false P.cap P.body (some P.body.length) c := by
          intro c hc hi
          have := (hinv.cli c hc hi).1
          rw [hs] at this
          exact this
        exact (tiles_step P.cap P.junk P.body (some P.body.length) (by intro t ht; cases ht; exact Nat.le_refl _)
          s.cli seen r num szx hst hG hg).2.2 k
      · rw [he]
        cases r.blk with
        | none => simp [seenAfter, effRecv, covers_nil]
        | some b => simp [seenAfter, effRecv, covers_nil]

theorem b2RunS_inv (P : B2Par) (hP : B2ParOK P) (hs : P.single = false) :
    ∀ (evs : List B2Event) (ss : B2Sys × List Nat), B2Inv P ss.1 → B2SeenInv ss →
      B2Inv P (evs.foldl (b2StepS P) ss).1 ∧ B2SeenInv (evs.foldl (b2StepS P) ss)
  | [], _, h1, h2 => ⟨h1, h2⟩
  | e :: evs, ss, h1, h2 =>
    b2RunS_inv P hP hs evs (b2StepS P ss e) (b2Step_inv P hP ss.1 e h1) (b2StepS_inv P hs ss e h1 h2)

end Coap.Block
