import CoapVerif.Model.TlsGate
/- C19 helper lemmas: a trace monitor and the invariant every function of M preserves. -/
namespace Coap.TlsGate

/-- outputs that must not happen before the TLS library reported a completed handshake: handler calls, PDUs written -/
def Out.needsHs : Out → Bool
  | .req .. => true
  | .rsp .. => true
  | .tx .. => true
  | _ => false

/-- a PDU written around the TLS layer -/
def Out.isClear : Out → Bool
  | .tx false _ _ _ => true
  | _ => false

def Out.isMark : Out → Bool
  | .hsOkMark => true
  | _ => false

/-- monitor state: trace so far acceptable / the oracle has reported a completed handshake -/
structure Mon where
  ok : Bool
  seen : Bool
  deriving DecidableEq, Repr

def Mon.step (m : Mon) (o : Out) : Mon :=
  { ok := m.ok && (!o.needsHs || m.seen) && !o.isClear, seen := m.seen || o.isMark }

def Mon.run (m : Mon) : List Out → Mon
  | [] => m
  | o :: t => (m.step o).run t

@[simp] theorem Mon.run_nil (m : Mon) : m.run [] = m := rfl
@[simp] theorem Mon.run_cons (m : Mon) (o : Out) (t : List Out) : m.run (o :: t) = (m.step o).run t := rfl

theorem Mon.run_append (m : Mon) (a b : List Out) : m.run (a ++ b) = (m.run a).run b := by
  induction a generalizing m with
  | nil => rfl
  | cons o t ih => simp [ih]

@[simp] theorem Mon.run_snoc (m : Mon) (a : List Out) (o : Out) : m.run (a ++ [o]) = (m.run a).step o := by
  simp [Mon.run_append]

/-- outputs the monitor does not care about -/
def Out.inert (o : Out) : Bool := !o.needsHs && !o.isClear && !o.isMark

theorem Mon.step_inert (m : Mon) (o : Out) (h : o.inert = true) : m.step o = m := by
  cases m; cases o <;> simp_all [Mon.step, Out.inert, Out.needsHs, Out.isClear, Out.isMark]

theorem Mon.run_inert (m : Mon) (l : List Out) (h : ∀ o ∈ l, o.inert = true) : m.run l = m := by
  induction l generalizing m with
  | nil => rfl
  | cons o t ih =>
    simp only [Mon.run_cons]
    rw [Mon.step_inert m o (h o (by simp))]
    exact ih m fun o ho => h o (by simp [ho])

theorem Mon.seen_mono (m : Mon) (l : List Out) (h : m.seen = true) : (m.run l).seen = true := by
  induction l generalizing m with
  | nil => exact h
  | cons o t ih => exact ih _ (by simp [Mon.step, h])

theorem Mon.ok_anti (m : Mon) (l : List Out) (h : (m.run l).ok = true) : m.ok = true := by
  induction l generalizing m with
  | nil => exact h
  | cons o t ih =>
    have := ih _ h
    simp [Mon.step] at this
    exact this.1.1

/-- the invariant: the trace is acceptable so far, `established` (GnuTLS' flag and libcoap's session state) implies
the oracle reported success, the session is a DTLS or a TLS session; `b` = the caller already knows success was reported -/
structure Inv (m0 : Mon) (b : Bool) (c : Ctx) : Prop where
  ok : (m0.run c.out).ok = true
  est : c.s.est = true → (m0.run c.out).seen = true
  st : c.s.state = .established → (m0.run c.out).seen = true
  known : b = true → (m0.run c.out).seen = true
  proto : c.s.proto ≠ .udp

theorem Inv.weaken {m0 b c} (h : Inv m0 b c) : Inv m0 false c :=
  { h with known := by simp }

theorem Inv.strengthen {m0 b c} (h : Inv m0 b c) (hs : (m0.run c.out).seen = true) : Inv m0 true c :=
  { h with known := fun _ => hs }

end Coap.TlsGate

namespace Coap.TlsGate
open Ctx

macro "inv_simp" : tactic => `(tactic| (
  constructor <;> simp_all [Ctx.emit, Ctx.upd, Ctx.setRet, Mon.step, Out.needsHs, Out.isClear, Out.isMark, Mon.run_append]))

section
variable {m0 : Mon} {b : Bool} {c : Ctx}

theorem inv_emit_inert (o : Out) (ho : o.inert = true) (h : Inv m0 b c) : Inv m0 b (c.emit o) := by
  obtain ⟨h1, h2, h3, h4, h5⟩ := h
  have : (m0.run c.out).step o = m0.run c.out := Mon.step_inert _ _ ho
  constructor <;> simp_all [Ctx.emit]

theorem inv_outs_inert (l : List Out) (hl : ∀ o ∈ l, o.inert = true) (h : Inv m0 b c) :
    Inv m0 b { c with out := c.out ++ l } := by
  obtain ⟨h1, h2, h3, h4, h5⟩ := h
  have : (m0.run c.out).run l = m0.run c.out := Mon.run_inert _ _ hl
  constructor <;> simp_all [Mon.run_append]

theorem inv_setRet (r : Int) (h : Inv m0 b c) : Inv m0 b (c.setRet r) := by
  obtain ⟨h1, h2, h3, h4, h5⟩ := h; inv_simp

theorem inv_ite {p : Prop} [Decidable p] {x y : Ctx} (hx : p → Inv m0 b x) (hy : ¬p → Inv m0 b y) :
    Inv m0 b (if p then x else y) := by
  split
  · exact hx ‹_›
  · exact hy ‹_›

/-- a session update that does not raise `est`, does not enter ESTABLISHED and keeps the protocol -/
theorem inv_upd (f : Sess → Sess) (he : (f c.s).est = true → c.s.est = true)
    (hst : (f c.s).state = .established → c.s.state = .established) (hp : (f c.s).proto = c.s.proto)
    (h : Inv m0 b c) : Inv m0 b (c.upd f) := by
  obtain ⟨h1, h2, h3, h4, h5⟩ := h
  constructor <;> simp_all [Ctx.upd]

theorem popHs_inv (h : Inv m0 b c) : Inv m0 b c.popHs := by
  obtain ⟨h1, h2, h3, h4, h5⟩ := h; unfold Ctx.popHs; split <;> inv_simp
theorem popRec_inv (h : Inv m0 b c) : Inv m0 b c.popRec := by
  obtain ⟨h1, h2, h3, h4, h5⟩ := h; unfold Ctx.popRec; split <;> inv_simp
theorem popSnd_inv (h : Inv m0 b c) : Inv m0 b c.popSnd := by
  obtain ⟨h1, h2, h3, h4, h5⟩ := h; unfold Ctx.popSnd; split <;> inv_simp
theorem popEnv_inv (h : Inv m0 b c) : Inv m0 b c.popEnv := by
  obtain ⟨h1, h2, h3, h4, h5⟩ := h; unfold Ctx.popEnv; split <;> inv_simp
theorem popCk_inv (h : Inv m0 b c) : Inv m0 b c.popCk := by
  obtain ⟨h1, h2, h3, h4, h5⟩ := h; unfold Ctx.popCk; split <;> inv_simp

theorem doHandshake_inv (h : Inv m0 b c) : Inv m0 b c.doHandshake := by
  have h' := popHs_inv h
  unfold Ctx.doHandshake
  generalize c.popHs = c' at h'
  obtain ⟨h1, h2, h3, h4, h5⟩ := h'
  simp only
  split <;> (try split) <;> inv_simp

/-- after a handshake step that returned 1 the oracle has reported success -/
theorem doHandshake_ret1 (h : Inv m0 b c) (hr : c.doHandshake.ret = 1) : Inv m0 true c.doHandshake := by
  have hI := doHandshake_inv h
  refine hI.strengthen (hI.est ?_)
  revert hr
  unfold Ctx.doHandshake
  simp only
  split <;> (try split) <;> simp [Ctx.emit, Ctx.upd, Ctx.setRet]

theorem freeEnv_inv (sb : Bool) (h : Inv m0 b c) : Inv m0 b (c.freeEnv sb) := by
  obtain ⟨h1, h2, h3, h4, h5⟩ := h; unfold Ctx.freeEnv; simp only; split <;> inv_simp

theorem dtlsFreeSession_inv (h : Inv m0 b c) : Inv m0 b c.dtlsFreeSession := by
  unfold Ctx.dtlsFreeSession
  split
  · apply inv_emit_inert _ rfl
    apply inv_upd _ (by simp) (by simp) (by simp)
    exact freeEnv_inv _ h
  · exact h

theorem sessionClose_inv (h : Inv m0 b c) : Inv m0 b c.sessionClose := by
  unfold Ctx.sessionClose
  split
  · exact h
  · exact dtlsFreeSession_inv h
  · exact inv_upd _ (by simp) (by simp) (by simp) (dtlsFreeSession_inv h)

theorem inv_ite_emit_inert (p : Prop) [Decidable p] (o : Out) (ho : o.inert = true) (h : Inv m0 b c) :
    Inv m0 b (if p then c.emit o else c) :=
  inv_ite (fun _ => inv_emit_inert o ho h) fun _ => h

theorem evTcp_inert (e : TcpEv) : (Out.evTcp e).inert = true := rfl

theorem relTail_inv (st0 : SState) (h : Inv m0 b c) : Inv m0 b (c.relTail st0) := by
  unfold Ctx.relTail
  refine inv_ite (fun _ => ?_) fun _ => h
  simp only
  apply inv_upd _ (by simp) (by simp) (by simp)
  have h1 := inv_ite_emit_inert (c.s.sockOpen = true) (.evTcp (if st0 = .connecting then .failed else .closed)) (evTcp_inert _) h
  exact inv_ite_emit_inert (st0 ≠ .none) (.evTcp (if st0 = .established then .sessClosed else .sessFailed)) (evTcp_inert _) h1

theorem nackOf_inert (r : Nack) (l : List QMsg) : ∀ o ∈ l.map (nackOf r), o.inert = true := by
  intro o ho
  simp only [List.mem_map] at ho
  obtain ⟨q, _, rfl⟩ := ho
  rfl

end
end Coap.TlsGate

namespace Coap.TlsGate
open Ctx
section
variable {m0 : Mon} {b : Bool} {c : Ctx}

theorem discFirst_nack (r : Nack) (c : Ctx) : ∀ o ∈ c.discFirst r, ∃ q : QMsg, o = nackOf r q := by
  intro o ho
  unfold Ctx.discFirst at ho
  split at ho
  · simp at ho; exact ⟨_, ho⟩
  · simp at ho

theorem discDq_nack (r : Nack) (c : Ctx) : ∀ o ∈ c.discDq r, ∃ q : QMsg, o = nackOf r q := by
  intro o ho
  unfold Ctx.discDq at ho
  split at ho
  · simp at ho
  · simp only [List.mem_map] at ho
    obtain ⟨q, _, rfl⟩ := ho
    exact ⟨q, rfl⟩

theorem discLg_nack (r : Nack) (c : Ctx) : ∀ o ∈ c.discLg r, ∃ q : QMsg, o = nackOf r q := by
  intro o ho
  unfold Ctx.discLg at ho
  split at ho
  · split at ho
    · simp at ho; exact ⟨_, ho⟩
    · simp at ho
  · simp at ho

theorem discOuts_inert (r : Nack) (c : Ctx) : ∀ o ∈ c.discOuts r, o.inert = true := by
  intro o ho
  unfold Ctx.discOuts at ho
  simp only [List.mem_append] at ho
  rcases ho with ((ho | ho) | ho) | ho
  · obtain ⟨q, rfl⟩ := discFirst_nack r c o ho; rfl
  · obtain ⟨q, rfl⟩ := discDq_nack r c o ho; rfl
  · obtain ⟨q, rfl⟩ := discLg_nack r c o ho; rfl
  · split at ho
    · simp at ho; subst ho; rfl
    · simp at ho

theorem disconnected_inv (r : Nack) (h : Inv m0 b c) : Inv m0 b (c.disconnected r) := by
  unfold Ctx.disconnected
  simp only
  have h1 := inv_outs_inert _ (discOuts_inert r c) h
  split
  · exact h1
  · apply sessionClose_inv
    apply relTail_inv
    apply inv_upd _ (by simp) (by simp) (by simp)
    apply inv_outs_inert _ (nackOf_inert _ _)
    apply inv_upd _ (by simp) _ (by simp) h1
    have := h.proto
    simp_all

theorem delayPdu_inv (m : QMsg) (fn : Bool) (h : Inv m0 b c) : Inv m0 b (c.delayPdu m fn) := by
  unfold Ctx.delayPdu
  split
  · exact inv_setRet _ (inv_upd _ (by simp) (by simp) (by simp) h)
  · split
    · exact inv_setRet _ h
    · exact inv_setRet _ (inv_upd _ (by simp) (by simp) (by simp) h)

end
end Coap.TlsGate

namespace Coap.TlsGate
open Ctx
section
variable {m0 : Mon} {b : Bool} {c : Ctx}

theorem sndResult_inv (h : Inv m0 b c) : Inv m0 b c.sndResult := by
  have h' := popSnd_inv h
  unfold Ctx.sndResult
  simp only
  split
  · exact inv_setRet _ h'
  · exact inv_setRet _ h'
  · exact inv_setRet _ (inv_upd _ (by simp) (by simp) (by simp) h')
  · exact inv_setRet _ h'
  · exact inv_setRet _ h'
  · exact inv_setRet _ h'

/-- writing a PDU through the TLS layer is acceptable once the oracle has reported success -/
theorem inv_emit_tx (v : View) (sn : Option Nat) (cnt : Nat) (h : Inv m0 true c) : Inv m0 true (c.emit (.tx true v sn cnt)) := by
  obtain ⟨h1, h2, h3, h4, h5⟩ := h
  have := h4 rfl
  inv_simp

theorem inv_emit_handler (o : Out) (ho : o.isClear = false) (hm : o.isMark = false) (h : Inv m0 true c) :
    Inv m0 true (c.emit o) := by
  obtain ⟨h1, h2, h3, h4, h5⟩ := h
  have := h4 rfl
  constructor <;> simp_all [Ctx.emit, Mon.step]

theorem dtlsSendCore_inv (m : QMsg) (ack : Bool) (h : Inv m0 true c) : Inv m0 true (c.dtlsSendCore m ack) := by
  unfold Ctx.dtlsSendCore
  simp only
  have h1 := inv_upd (fun s => { s with dtlsEvent := none }) (by simp) (by simp) (by simp) (inv_emit_tx (m.view ack) (m.snOf ack) m.cnt h)
  split
  · exact sndResult_inv h1
  · have h2 := doHandshake_inv h1
    split
    · exact sndResult_inv (inv_upd _ (by simp) (by simp) (by simp) h2)
    · exact inv_setRet _ h2

theorem sendTail_inv (h : Inv m0 b c) : Inv m0 b c.sendTail := by
  unfold Ctx.sendTail
  split
  · simp only
    have h1 := inv_emit_inert (.ev ‹DEv›) rfl h
    split
    · exact inv_setRet _ (disconnected_inv _ h1)
    · exact h1
  · exact h

theorem dtlsSend_inv (m : QMsg) (ack : Bool) (h : Inv m0 true c) : Inv m0 true (c.dtlsSend m ack) :=
  sendTail_inv (dtlsSendCore_inv m ack h)

/-! TLS over TCP: the write side -/

theorem tlsTail_inv (h : Inv m0 b c) : Inv m0 b c.tlsTail := by
  unfold Ctx.tlsTail
  split
  · simp only
    rename_i e _
    have h1 := inv_ite_emit_inert (e ≠ .closed) (.ev e) rfl h
    exact inv_ite (fun _ => inv_setRet _ (disconnected_inv _ h1)) fun _ => h1
  · exact h

theorem tlsRecordSend_inv (m : QMsg) (ack : Bool) (h : Inv m0 true c) : Inv m0 true (c.tlsRecordSend m ack) := by
  unfold Ctx.tlsRecordSend
  simp only
  have h1 := popSnd_inv (inv_upd (fun s => { s with dtlsEvent := none }) (by simp) (by simp) (by simp) (inv_emit_tx m.strmView (m.snOf ack) m.cnt h))
  apply tlsTail_inv
  split
  · exact inv_setRet _ h1
  · exact inv_setRet _ h1
  · exact inv_setRet _ (inv_upd _ (by simp) (by simp) (by simp) h1)
  · exact inv_setRet _ (inv_upd _ (by simp) (by simp) (by simp) h1)
  · exact inv_setRet _ h1
  · exact inv_setRet _ (inv_emit_inert _ rfl h1)

/-- any session update keeps the invariant once the oracle is known to have reported success -/
theorem inv_upd_true (f : Sess → Sess) (hp : (f c.s).proto = c.s.proto) (h : Inv m0 true c) : Inv m0 true (c.upd f) := by
  obtain ⟨h1, h2, h3, h4, h5⟩ := h
  have := h4 rfl
  constructor <;> simp_all [Ctx.upd]

theorem sendCsm_inv (h : Inv m0 true c) : Inv m0 true c.sendCsm := by
  unfold Ctx.sendCsm
  simp only
  have h1 := inv_upd_true (fun s => { s with next := s.next + 1 }) (by simp)
    (inv_upd_true (fun s => { s with state := .csm }) (by simp) h)
  have key : ∀ X : Ctx, Inv m0 true X → Inv m0 true (if X.ret ≠ 1 then X.disconnected .undeliv else X) :=
    fun X hX => inv_ite (fun _ => disconnected_inv _ hX) fun _ => hX
  apply key
  exact inv_ite (fun _ => tlsRecordSend_inv _ false h1) fun _ => inv_setRet (-1) (inv_emit_inert (.unmodelled "csm-before-established") rfl h1)

theorem tlsWrite_inv (m : QMsg) (ack : Bool) (h : Inv m0 true c) : Inv m0 true (c.tlsWrite m ack) := by
  unfold Ctx.tlsWrite
  refine inv_ite (fun _ => tlsRecordSend_inv m ack h) fun _ => ?_
  simp only
  have h1 := doHandshake_inv (inv_upd (fun s => { s with dtlsEvent := none }) (by simp) (by simp) (by simp) (inv_emit_tx m.strmView (m.snOf ack) m.cnt h))
  apply tlsTail_inv
  exact inv_ite (fun _ => inv_setRet _ (sendCsm_inv (inv_emit_inert _ rfl h1))) fun _ => inv_setRet _ h1

theorem sessionSendPdu_inv (m : QMsg) (ack : Bool) (h : Inv m0 true c) : Inv m0 true (c.sessionSendPdu m ack) := by
  unfold Ctx.sessionSendPdu
  split
  · have := h.proto; simp_all
  · exact dtlsSend_inv m ack h
  · exact tlsWrite_inv m ack h

theorem sendPdu_inv (m : QMsg) (ack fn : Bool) (h : Inv m0 b c) : Inv m0 b (c.sendPdu m ack fn) := by
  unfold Ctx.sendPdu
  split
  · exact inv_setRet _ h
  · split
    · exact delayPdu_inv _ _ h
    · rename_i hne hst
      have hs : c.s.state = .established := by
        simp only [Bool.or_eq_true, decide_eq_true_eq, not_or] at hst
        simpa using hst.1
      have h1 : Inv m0 true c := h.strengthen (h.st hs)
      have h2 := (sessionSendPdu_inv m ack h1)
      simp only
      have h3 : Inv m0 b (c.sessionSendPdu m ack) := { h2 with known := fun _ => h2.known rfl }
      split
      · exact inv_upd _ (by simp) (by simp) (by simp) h3
      · exact h3

end
end Coap.TlsGate

namespace Coap.TlsGate
open Ctx
section
variable {m0 : Mon} {b : Bool} {c : Ctx}

theorem flushOne_inv (q : QMsg) (rest : List QMsg) (h : Inv m0 true c) : Inv m0 true (c.flushOne q rest) := by
  unfold Ctx.flushOne
  exact inv_upd_true _ (by simp) (sessionSendPdu_inv q false (inv_upd_true _ (by simp) h))

theorem flushLoop_inv (fuel : Nat) (h : Inv m0 true c) : Inv m0 true (flushLoop fuel c) := by
  induction fuel generalizing c with
  | zero => exact h
  | succ n ih =>
    unfold Ctx.flushLoop
    split
    · exact h
    · split
      · exact h
      · split
        · exact h
        · simp only
          have h1 := flushOne_inv ‹QMsg› ‹List QMsg› h
          refine inv_ite (fun _ => inv_ite (fun _ => inv_upd_true _ (by simp) h1) fun _ => ih h1) fun _ =>
            inv_ite (fun _ => h1) fun _ => ih h1

theorem sessionConnected_inv (h : Inv m0 true c) : Inv m0 true c.sessionConnected := by
  unfold Ctx.sessionConnected
  simp only
  have h1 : Inv m0 true (if c.s.state = .csm then (c.emit (.evTcp .sessConnected)).upd fun s => { s with doingFirst := false } else c) :=
    inv_ite (fun _ => inv_upd_true _ (by simp) (inv_emit_inert _ rfl h)) fun _ => h
  exact flushLoop_inv _ (inv_upd_true _ (by simp) h1)

theorem sessionFree_inv (h : Inv m0 b c) : Inv m0 b c.sessionFree := by
  unfold Ctx.sessionFree
  simp only
  apply inv_upd _ (by simp) (by simp) (by simp)
  exact inv_outs_inert _ (nackOf_inert _ _) (sessionClose_inv (inv_upd _ (by simp) (by simp) (by simp) h))

theorem maybeFree_inv (h : Inv m0 b c) : Inv m0 b c.maybeFree := by
  unfold Ctx.maybeFree
  split
  · exact sessionFree_inv h
  · exact h

theorem sendInternal_inv (m : QMsg) (ack : Bool) (h : Inv m0 b c) : Inv m0 b (c.sendInternal m ack) := by
  unfold Ctx.sendInternal
  simp only
  have h1 := sendPdu_inv m ack false h
  split
  · exact h1
  · split
    · exact inv_emit_inert _ rfl h1
    · split
      · exact h1
      · exact inv_upd _ (by simp) (by simp) (by simp) h1

theorem appSend_inv (con : Bool) (code mid : Nat) (tok : String) (h : Inv m0 b c) : Inv m0 b (c.appSend con code mid tok) := by
  unfold Ctx.appSend
  exact sendInternal_inv _ _ (inv_upd _ (by simp) (by simp) (by simp) h)

/-! block mode: the lg_crcv list never matters for the gate -/

theorem sendLkdTail_inv (m : QMsg) (obs : Bool) (h : Inv m0 b c) : Inv m0 b (c.sendLkdTail m obs) := by
  unfold Ctx.sendLkdTail
  refine inv_ite (fun _ => sendInternal_inv _ _ h) fun _ => inv_ite (fun _ => ?_) fun _ => sendInternal_inv _ _ h
  simp only
  have h1 := sendInternal_inv m false (inv_upd (fun s => { s with lgCrcv := eraseTok m.tok s.lgCrcv }) (by simp) (by simp) (by simp) h)
  exact inv_ite (fun _ => inv_upd _ (by simp) (by simp) (by simp) h1) fun _ => h1

theorem appSendL_inv (con obs : Bool) (code mid : Nat) (tok : String) (h : Inv m0 b c) :
    Inv m0 b (c.appSendL con obs code mid tok) := by
  unfold Ctx.appSendL
  exact sendLkdTail_inv _ _ (inv_upd _ (by simp) (by simp) (by simp) h)

theorem lgResponse_inv (v : View) (h : Inv m0 b c) : Inv m0 b (c.lgResponse v) := by
  unfold Ctx.lgResponse
  exact inv_ite (fun _ => h) fun _ => inv_ite (fun _ => inv_emit_inert _ rfl h) fun _ => inv_upd _ (by simp) (by simp) (by simp) h

theorem lgExpire_inv (keep : List String) (h : Inv m0 b c) : Inv m0 b (c.lgExpire keep) := by
  unfold Ctx.lgExpire
  exact inv_upd _ (by simp) (by simp) (by simp) h

theorem inv_setFound (q : Option QMsg) (h : Inv m0 b c) : Inv m0 b (c.setFound q) := by
  obtain ⟨h1, h2, h3, h4, h5⟩ := h
  constructor <;> simp_all [Ctx.setFound]

theorem removeInflight_inv (mid : Nat) (h : Inv m0 b c) : Inv m0 b (c.removeInflight mid) := by
  unfold Ctx.removeInflight
  split
  · exact inv_setFound _ (inv_upd _ (by simp) (by simp) (by simp) h)
  · exact inv_setFound _ h

theorem handleResponse_inv (v : View) (h : Inv m0 true c) : Inv m0 true (c.handleResponse v) := by
  unfold Ctx.handleResponse
  simp only
  have h1 := inv_upd_true (fun s =>
    if v.kind ≠ 2 then
      { s with inflight := s.inflight.filter (fun q => q.tok ≠ v.tok),
               conActive := s.conActive - (s.inflight.filter fun q => q.tok = v.tok ∧ q.con).length }
    else s) (by by_cases hk : v.kind ≠ 2 <;> simp [hk]) h
  refine inv_ite (fun _ => inv_emit_inert _ rfl h1) fun _ => inv_ite (fun _ => h1) fun _ => ?_
  exact inv_emit_handler _ rfl rfl (lgResponse_inv v (inv_upd_true _ (by by_cases hk : v.kind = 2 <;> simp [hk]) h1))

theorem handleRequest_inv (v : View) (h : Inv m0 true c) : Inv m0 true (c.handleRequest v) := by
  unfold Ctx.handleRequest
  simp only
  exact sendInternal_inv _ _ (inv_upd_true _ (by simp) (inv_emit_handler _ rfl rfl h))

end
end Coap.TlsGate

namespace Coap.TlsGate
open Ctx
section
variable {m0 : Mon} {b : Bool} {c : Ctx}

theorem Inv.relax (h : Inv m0 true c) : Inv m0 b c :=
  { h with known := fun _ => h.known rfl }

theorem inv_setFlag (f : Bool) (h : Inv m0 b c) : Inv m0 b (c.setFlag f) := by
  obtain ⟨h1, h2, h3, h4, h5⟩ := h
  constructor <;> simp_all [Ctx.setFlag]

theorem ackFlush_inv (h : Inv m0 b c) : Inv m0 b c.ackFlush := by
  unfold Ctx.ackFlush
  refine inv_ite (fun _ => ?_) fun _ => h
  simp only
  have h1 := inv_upd (fun s => { s with conActive := s.conActive - 1 }) (by simp) (by simp) (by simp) h
  refine inv_ite (fun hs => ?_) fun _ => h1
  exact (sessionConnected_inv (h1.strengthen (h1.st hs))).relax

theorem dispatch_inv (v : View) (h : Inv m0 true c) : Inv m0 true (c.dispatch v) := by
  unfold Ctx.dispatch
  refine inv_ite (fun _ => ?_) fun _ => inv_ite (fun _ => ?_) fun _ => ?_
  · simp only
    have h1 := removeInflight_inv v.mid h
    have h2 : Inv m0 true (if (c.removeInflight v.mid).found.isSome then (c.removeInflight v.mid).ackFlush else c.removeInflight v.mid) :=
      inv_ite (fun _ => ackFlush_inv h1) fun _ => h1
    exact inv_ite (fun _ => h2) fun _ => inv_ite (fun _ => h2) fun _ => handleResponse_inv v h2
  · simp only
    have h1 := removeInflight_inv v.mid (ackFlush_inv h)
    split
    · exact inv_ite (fun _ => inv_emit_inert _ rfl h1) fun _ => h1
    · exact inv_emit_inert _ rfl h1
  · simp only
    have h1 : Inv m0 true (if v.kind = 1 then c.removeInflight v.mid else c) :=
      inv_ite (fun _ => removeInflight_inv v.mid h) fun _ => h
    exact inv_ite (fun _ => inv_emit_inert _ rfl h1) fun _ => inv_ite (fun _ => handleRequest_inv v h1) fun _ =>
      inv_ite (fun _ => handleResponse_inv v h1) fun _ => inv_emit_inert _ rfl h1

theorem receiveTail_inv (h : Inv m0 b c) : Inv m0 b c.receiveTail := by
  unfold Ctx.receiveTail
  split
  · simp only
    rename_i e _
    have h1 : Inv m0 b (if e ≠ .closed then c.emit (.ev e) else c) := inv_ite (fun _ => inv_emit_inert _ rfl h) fun _ => h
    exact inv_ite (fun _ => disconnected_inv _ h1) fun _ => h1
  · exact h

theorem hsThenConnect_inv (h : Inv m0 b c) : Inv m0 b c.hsThenConnect := by
  unfold Ctx.hsThenConnect
  simp only
  refine inv_ite (fun hr => ?_) fun _ => inv_setFlag _ (doHandshake_inv h)
  exact inv_setFlag _ (sessionConnected_inv (doHandshake_ret1 h hr)).relax

theorem recvEst_inv (h : Inv m0 true c) : Inv m0 true c.recvEst := by
  unfold Ctx.recvEst
  simp only
  have h1 : Inv m0 true (if c.s.state = .handshake then (c.emit (.ev .connected)).sessionConnected else c) :=
    inv_ite (fun _ => sessionConnected_inv (inv_emit_inert _ rfl h)) fun _ => h
  have h2 := popRec_inv h1
  split
  · exact dispatch_inv _ h2
  · exact h2
  · exact receiveTail_inv (inv_upd_true _ (by simp) h2)
  · exact receiveTail_inv (inv_upd_true _ (by simp) h2)
  · exact receiveTail_inv (inv_upd_true _ (by simp) h2)
  · exact receiveTail_inv h2
  · exact receiveTail_inv h2
  · exact receiveTail_inv h2

theorem recvHs_inv (h : Inv m0 b c) : Inv m0 b c.recvHs := by
  unfold Ctx.recvHs
  simp only
  have h1 := hsThenConnect_inv h
  apply receiveTail_inv
  refine inv_ite (fun _ => h1) fun _ => ?_
  split
  · exact inv_ite (fun _ => hsThenConnect_inv h1) fun _ => h1
  · exact h1

theorem dtlsReceive_inv (h : Inv m0 b c) : Inv m0 b c.dtlsReceive := by
  unfold Ctx.dtlsReceive
  simp only
  have h1 := inv_upd (fun s => { s with dtlsEvent := none }) (by simp) (by simp) (by simp) h
  refine inv_ite (fun he => ?_) fun _ => recvHs_inv h1
  exact (recvEst_inv (h1.strengthen (h1.est he))).relax

theorem tlsTimeout_inv (h : Inv m0 b c) : Inv m0 b c.tlsTimeout := by
  unfold Ctx.tlsTimeout
  refine inv_ite (fun _ => h) fun _ => ?_
  simp only
  have h1 := inv_upd (fun s => { s with tmoCount := s.tmoCount + 1 }) (by simp) (by simp) (by simp) h
  refine inv_ite (fun _ => disconnected_inv _ h1) fun _ => ?_
  exact inv_ite (fun _ => disconnected_inv _ (doHandshake_inv h1)) fun _ => doHandshake_inv h1

theorem retransmit_inv (mid : Nat) (h : Inv m0 b c) : Inv m0 b (c.retransmit mid) := by
  unfold Ctx.retransmit
  split
  · exact h
  · rename_i q _
    refine inv_ite (fun _ => ?_) fun _ => ?_
    · simp only
      exact sendPdu_inv _ _ _ (inv_upd _ (by simp) (by simp) (by simp) (inv_emit_inert _ rfl h))
    · simp only
      have h0 := inv_upd (fun s => { s with inflight := s.inflight.filter (·.sn ≠ q.sn) }) (by simp) (by simp) (by simp) h
      exact inv_ite (fun _ => inv_emit_inert _ rfl (ackFlush_inv h0)) fun _ => ackFlush_inv h0

end
end Coap.TlsGate

namespace Coap.TlsGate
open Ctx
section
variable {m0 : Mon} {b : Bool} {c : Ctx}

theorem dtlsEstablishClient_inv (h : Inv m0 b c) : Inv m0 b c.dtlsEstablishClient := by
  unfold Ctx.dtlsEstablishClient
  simp only
  have h1 := popEnv_inv (inv_upd (fun s => { s with state := .handshake }) (by simp) (by simp) (by simp) h)
  generalize (c.upd fun s => { s with state := .handshake }).popEnv = c1 at h1
  have h2 : Inv m0 b (if c1.flag = true then
      (if c1.doHandshake.ret = -1 then c1.doHandshake.freeEnv true else c1.doHandshake.upd fun s => { s with tls := true }) else c1) :=
    inv_ite (fun _ => inv_ite (fun _ => freeEnv_inv _ (doHandshake_inv h1)) fun _ =>
      inv_upd _ (by simp) (by simp) (by simp) (doHandshake_inv h1)) fun _ => h1
  exact inv_ite (fun _ => disconnected_inv _ h2) fun _ => h2

theorem dtlsHello_inv (h : Inv m0 b c) : Inv m0 b c.dtlsHello := by
  unfold Ctx.dtlsHello
  simp only
  have h1 : Inv m0 b (if (!c.s.tls) = true then
      (if c.popEnv.flag = true then c.popEnv.upd fun s => { s with tls := true } else c.popEnv) else c) :=
    inv_ite (fun _ => inv_ite (fun _ => inv_upd _ (by simp) (by simp) (by simp) (popEnv_inv h)) fun _ => popEnv_inv h) fun _ => h
  generalize (if (!c.s.tls) = true then
      (if c.popEnv.flag = true then c.popEnv.upd fun s => { s with tls := true } else c.popEnv) else c) = c1 at h1
  refine inv_ite (fun _ => inv_setRet _ h1) fun _ => ?_
  have h2 := popCk_inv h1
  refine inv_ite (fun _ => inv_setRet _ (inv_emit_inert _ rfl h2)) fun _ => ?_
  have h3 := doHandshake_inv h2
  refine inv_ite (fun _ => ?_) fun _ => inv_setRet _ h3
  exact inv_setRet _ (inv_upd _ (by simp) (by simp) (by simp) (freeEnv_inv _ h3))

theorem handleDgramForProto_inv (h : Inv m0 b c) : Inv m0 b c.handleDgramForProto := by
  unfold Ctx.handleDgramForProto
  split
  · exact inv_emit_inert _ rfl h
  · exact h
  · refine inv_ite (fun _ => ?_) fun _ => inv_ite (fun _ => dtlsReceive_inv h) fun _ => h
    simp only
    have h1 := dtlsHello_inv h
    refine inv_ite (fun _ => ?_) fun _ => h1
    have h2 := inv_upd (fun s => { s with typ := .server, state := .handshake }) (by simp) (by simp) (by simp) h1
    exact inv_ite (fun _ => disconnected_inv _ h2) fun _ => h2

/-! TLS over TCP: establish, read, dispatch, the application's send -/

theorem tlsEstablish_inv (h : Inv m0 b c) : Inv m0 b c.tlsEstablish := by
  unfold Ctx.tlsEstablish
  simp only
  have h1 := popEnv_inv (inv_upd (fun s => { s with state := .handshake }) (by simp) (by simp) (by simp) h)
  refine inv_ite (fun _ => disconnected_inv _ h1) fun _ => ?_
  have h2 := inv_upd (fun s => { s with tls := true }) (by simp) (by simp) (by simp) h1
  refine inv_ite (fun hr => ?_) fun _ => doHandshake_inv h2
  exact (sendCsm_inv (inv_emit_inert _ rfl (doHandshake_ret1 h2 hr))).relax

theorem dispatchStrm_inv (v : View) (h : Inv m0 true c) : Inv m0 true (c.dispatchStrm v) := by
  unfold Ctx.dispatchStrm
  refine inv_ite (fun _ => inv_ite (fun _ => sessionConnected_inv h) fun _ => h) fun _ => ?_
  refine inv_ite (fun _ => inv_emit_inert _ rfl h) fun _ => inv_ite (fun _ => inv_emit_inert _ rfl h) fun _ => ?_
  refine inv_ite (fun _ => ?_) fun _ => inv_ite (fun _ => inv_emit_handler _ rfl rfl (lgResponse_inv v h)) fun _ => inv_emit_inert _ rfl h
  simp only
  exact sendPdu_inv _ _ _ (inv_upd_true _ (by simp) (inv_emit_handler _ rfl rfl h))

theorem tlsReadHs_inv (h : Inv m0 b c) : Inv m0 b c.tlsReadHs := by
  unfold Ctx.tlsReadHs
  refine inv_ite (fun _ => ?_) fun _ => inv_setRet _ h
  simp only
  refine inv_ite (fun hr => ?_) fun _ => doHandshake_inv h
  exact (inv_setRet _ (sendCsm_inv (inv_emit_inert _ rfl (doHandshake_ret1 h hr)))).relax

theorem readEnd_inv (h : Inv m0 b c) : Inv m0 b c.readEnd := by
  unfold Ctx.readEnd
  simp only
  exact inv_ite (fun _ => disconnected_inv _ (tlsTail_inv h)) fun _ => tlsTail_inv h

theorem strmRead_inv (h : Inv m0 b c) : Inv m0 b c.strmRead := by
  unfold Ctx.strmRead
  refine inv_ite (fun _ => disconnected_inv _ h) fun _ => ?_
  simp only
  have h1 := tlsReadHs_inv (inv_upd (fun s => { s with dtlsEvent := none }) (by simp) (by simp) (by simp) h)
  generalize (c.upd fun s => { s with dtlsEvent := none }).tlsReadHs = c1 at h1
  refine inv_ite (fun he => ?_) fun _ => readEnd_inv h1
  have he' : c1.s.est = true := by simp at he; exact he.2
  have h2 : Inv m0 true c1.popRec := popRec_inv (h1.strengthen (h1.est he'))
  refine Inv.relax ?_
  split
  · have h3 := tlsTail_inv (inv_setRet 1 h2)
    exact inv_ite (fun _ => dispatchStrm_inv _ h3) fun _ => inv_ite (fun _ => disconnected_inv _ h3) fun _ => h3
  · exact inv_emit_inert _ rfl h2
  · exact readEnd_inv (inv_setRet _ (inv_upd_true _ (by simp) h2))
  · exact readEnd_inv (inv_setRet _ h2)
  · exact readEnd_inv (inv_setRet _ (inv_upd_true _ (by simp) h2))
  · exact readEnd_inv (inv_setRet _ (inv_upd_true _ (by simp) h2))
  · exact readEnd_inv (inv_setRet _ (inv_upd_true _ (by simp) h2))
  · exact readEnd_inv (inv_setRet _ h2)

theorem tcpConnect_inv (ok : Bool) (h : Inv m0 b c) : Inv m0 b (c.tcpConnect ok) := by
  unfold Ctx.tcpConnect
  exact inv_ite (fun _ => tlsEstablish_inv (inv_emit_inert _ rfl h)) fun _ => disconnected_inv _ (inv_emit_inert _ rfl h)

theorem strmWrite_inv (h : Inv m0 b c) : Inv m0 b c.strmWrite := by
  unfold Ctx.strmWrite
  exact inv_ite (fun _ => h) fun _ => inv_emit_inert _ rfl h

theorem appSendStrm_inv (w : Bool) (code mid : Nat) (tok : String) (h : Inv m0 b c) : Inv m0 b (c.appSendStrm w code mid tok) := by
  unfold Ctx.appSendStrm
  refine inv_ite (fun _ => inv_emit_inert _ rfl h) fun _ => inv_ite (fun _ => inv_emit_inert _ rfl h) fun _ => ?_
  simp only
  have h0 := inv_upd (fun s => { s with doingFirst := false }) (by simp) (by simp) (by simp) h
  have h1 : Inv m0 b (if c.s.doingFirst = true then
      (if (c.upd fun s => { s with doingFirst := false }).s.state = .csm
       then (c.upd fun s => { s with doingFirst := false }).emit (.unmodelled "csm-timeout")
       else c.upd fun s => { s with doingFirst := false }) else c) :=
    inv_ite (fun _ => inv_ite (fun _ => inv_emit_inert _ rfl h0) fun _ => h0) fun _ => h
  exact sendLkdTail_inv _ _ (inv_upd _ (by simp) (by simp) (by simp) h1)

theorem stepCtx_inv (s : Sess) (e : Ev) (orc : List Orc) (h : Inv m0 false { s := s, orc := orc }) :
    Inv m0 false (s.stepCtx e orc) := by
  unfold Sess.stepCtx
  simp only
  refine inv_ite (fun _ => h) fun _ => ?_
  split
  · exact appSend_inv _ _ _ _ h
  · exact maybeFree_inv (handleDgramForProto_inv h)
  · exact tlsTimeout_inv h
  · exact maybeFree_inv (retransmit_inv _ h)
  · exact disconnected_inv _ h
  · exact maybeFree_inv (inv_upd _ (by simp) (by simp) (by simp) h)
  · exact sessionFree_inv (inv_emit_inert _ rfl h)
  · exact maybeFree_inv (tcpConnect_inv _ h)
  · exact maybeFree_inv (strmRead_inv h)
  · exact maybeFree_inv (strmWrite_inv h)
  · exact appSendStrm_inv _ _ _ _ h
  · exact appSendL_inv _ _ _ _ _ h
  · exact lgExpire_inv _ h

end
end Coap.TlsGate
