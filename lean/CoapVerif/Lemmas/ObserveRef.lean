import CoapVerif.Lemmas.ObserveBase
/-
C11, clause "the session stays alive while it has observers": as a GLOBAL invariant of M (Model/Observe.lean), for every
state reachable by ANY event sequence, the reference count of every session equals the number of its holders
    ref(c) = #observer entries of c (over ALL resources) + #queued Confirmable notifications of c           (RefInv)
(application references are 0 in M; a missing session object counts as ref 0, so RefInv also says that a session without
object has neither entries nor queued nodes).  Every `ref - 1` of M is therefore exact (Nat subtraction saturates), the
idle-session reclaim (`ref = 0`) can never free a session that still has an observer or a queued notification.

Proof architecture: `Bal st c K` : ref(c) = entries(c) + nodes(c) + K  (K = references held by the code that is running,
e.g. the node popped by coap_retransmit), `Pres st st'` : every balance of st is a balance of st' (same c, same K);
each primitive of M is `Pres` (with `IdsNodup`, because `modRes` rewrites every resource with the id while `findRes`
looks at the first alive one).  The notify loop threads a state whose resource table is written back at the end: `BalQ`
is the balance without the entries, the loop lemmas carry the entries in the offset.  `NoDupSt` is NOT needed.
-/
namespace Coap.Observe
open Coap.Generated

/-! ### counting -/
def cnt (c : Nat) (l : List Sub) : Nat := (l.filter fun s => s.sess == c).length
def qcnt (c : Nat) (l : List QNode) : Nat := (l.filter fun q => q.sess == c).length
def entriesL (rs : List Res) (c : Nat) : Nat := (rs.map fun x => cnt c x.subs).sum

def entriesOf (st : State) (c : Nat) : Nat := (st.res.map fun x => (x.subs.filter fun s => s.sess == c).length).sum
def nodesOf (st : State) (c : Nat) : Nat := (st.sendq.filter fun q => q.sess == c).length
def RefInv (st : State) : Prop := ∀ c, (getSess st c).ref = entriesOf st c + nodesOf st c

theorem entriesOf_eq (st : State) (c : Nat) : entriesOf st c = entriesL st.res c := rfl
theorem nodesOf_eq (st : State) (c : Nat) : nodesOf st c = qcnt c st.sendq := rfl

/-- the reference count of session c; 0 when the server holds no session object -/
def sref (st : State) (c : Nat) : Nat := match st.sess c with | some s => s.ref | none => 0

theorem getSess_ref (st : State) (c : Nat) : (getSess st c).ref = sref st c := by
  unfold getSess sref; cases st.sess c <;> rfl

theorem sref_setSess (st : State) (c : Nat) (s : Sess) (c' : Nat) :
    sref (setSess st c s) c' = if c' = c then s.ref else sref st c' := by
  unfold sref setSess; dsimp only
  by_cases h : c' = c <;> simp [h]

theorem sref_modSess (st : State) (c : Nat) (f : Sess → Sess) (c' : Nat) :
    sref (modSess st c f) c' = if c' = c then (f (getSess st c)).ref else sref st c' := by
  unfold modSess; exact sref_setSess ..

theorem sref_modSess_same (st : State) (c : Nat) (f : Sess → Sess) (hf : ∀ s, (f s).ref = s.ref) (c' : Nat) :
    sref (modSess st c f) c' = sref st c' := by
  rw [sref_modSess]; split
  · rename_i h; rw [hf, getSess_ref, h]
  · rfl

@[simp] theorem sref_rxSession (st : State) (c c' : Nat) : sref (rxSession st c) c' = sref st c' := by
  unfold rxSession; apply sref_modSess_same; intro s; rfl
@[simp] theorem sref_txStamp (st : State) (c c' : Nat) : sref (txStamp st c) c' = sref st c' := by
  unfold txStamp; apply sref_modSess_same; intro s; rfl
@[simp] theorem sref_conDec (st : State) (c c' : Nat) : sref (conDec st c) c' = sref st c' := by
  unfold conDec; apply sref_modSess_same; intro s; rfl
@[simp] theorem sref_newMid (st : State) (c c' : Nat) : sref (newMid st c).2 c' = sref st c' := by
  unfold newMid; dsimp only; apply sref_modSess_same; intro s; rfl
@[simp] theorem sref_addNote (st : State) (c : Nat) (n : Note) (c' : Nat) : sref (addNote st c n) c' = sref st c' := rfl
theorem sref_refInc (st : State) (c c' : Nat) : sref (refInc st c) c' = if c' = c then sref st c + 1 else sref st c' := by
  unfold refInc; rw [sref_modSess]; simp only [getSess_ref]
theorem sref_refDec (st : State) (c c' : Nat) : sref (refDec st c) c' = if c' = c then sref st c - 1 else sref st c' := by
  unfold refDec; rw [sref_modSess]; simp only [getSess_ref]
@[simp] theorem sref_mapRes (st : State) (f : Res → Res) (c' : Nat) : sref (mapRes st f) c' = sref st c' := rfl
@[simp] theorem sref_modRes (st : State) (r : Nat) (f : Res → Res) (c' : Nat) : sref (modRes st r f) c' = sref st c' := rfl

/-! sendq is untouched by -/
@[simp] theorem setSess_sendq (st : State) (c : Nat) (s : Sess) : (setSess st c s).sendq = st.sendq := rfl
@[simp] theorem modSess_sendq (st : State) (c : Nat) (f : Sess → Sess) : (modSess st c f).sendq = st.sendq := rfl
@[simp] theorem rxSession_sendq (st : State) (c : Nat) : (rxSession st c).sendq = st.sendq := rfl
@[simp] theorem refInc_sendq (st : State) (c : Nat) : (refInc st c).sendq = st.sendq := rfl
@[simp] theorem refDec_sendq (st : State) (c : Nat) : (refDec st c).sendq = st.sendq := rfl
@[simp] theorem conDec_sendq (st : State) (c : Nat) : (conDec st c).sendq = st.sendq := rfl
@[simp] theorem txStamp_sendq (st : State) (c : Nat) : (txStamp st c).sendq = st.sendq := rfl
@[simp] theorem newMid_sendq (st : State) (c : Nat) : (newMid st c).2.sendq = st.sendq := rfl
@[simp] theorem addNote_sendq (st : State) (c : Nat) (n : Note) : (addNote st c n).sendq = st.sendq := rfl
@[simp] theorem mapRes_sendq (st : State) (f : Res → Res) : (mapRes st f).sendq = st.sendq := rfl
@[simp] theorem modRes_sendq (st : State) (r : Nat) (f : Res → Res) : (modRes st r f).sendq = st.sendq := rfl
@[simp] theorem reclaim_sendq (st : State) : (reclaim st).sendq = st.sendq := rfl

/-! ### the balance of one session: `ref = entries + queued nodes + K` (K: references held by whoever is running) -/
def Bal (st : State) (c K : Nat) : Prop := sref st c = entriesL st.res c + qcnt c st.sendq + K
def Pres (st st' : State) : Prop := ∀ c K, Bal st c K → Bal st' c K

theorem refInv_iff (st : State) : RefInv st ↔ ∀ c, Bal st c 0 := by
  unfold RefInv Bal
  simp only [getSess_ref, entriesOf_eq, nodesOf_eq, Nat.add_zero]

theorem Pres.refl (st : State) : Pres st st := fun _ _ h => h
theorem Pres.trans {a b c : State} (h1 : Pres a b) (h2 : Pres b c) : Pres a c := fun x K h => h2 x K (h1 x K h)
theorem Pres.refInv {st st' : State} (h : Pres st st') (hi : RefInv st) : RefInv st' := by
  rw [refInv_iff] at hi ⊢; exact fun c => h c 0 (hi c)

theorem Pres.of_eq {st st' : State} (hr : st'.res = st.res) (hq : st'.sendq = st.sendq) (hs : ∀ c, sref st' c = sref st c) :
    Pres st st' := by
  intro c K h; unfold Bal at h ⊢; rw [hr, hq, hs]; exact h

theorem pres_modSess_same (st : State) (c : Nat) (f : Sess → Sess) (hf : ∀ s, (f s).ref = s.ref) : Pres st (modSess st c f) :=
  Pres.of_eq rfl rfl (sref_modSess_same st c f hf)
theorem pres_rxSession (st : State) (c : Nat) : Pres st (rxSession st c) := Pres.of_eq rfl rfl (by simp)
theorem pres_txStamp (st : State) (c : Nat) : Pres st (txStamp st c) := Pres.of_eq rfl rfl (by simp)
theorem pres_conDec (st : State) (c : Nat) : Pres st (conDec st c) := Pres.of_eq rfl rfl (by simp)
theorem pres_newMid (st : State) (c : Nat) : Pres st (newMid st c).2 := Pres.of_eq rfl rfl (by simp)

/-- the same without the entries (for code that threads a state whose resource table is written back later) -/
def BalQ (st : State) (c K : Nat) : Prop := sref st c = qcnt c st.sendq + K
def PresQ (st st' : State) : Prop := ∀ c K, BalQ st c K → BalQ st' c K

theorem bal_iff (st : State) (c K : Nat) : Bal st c K ↔ BalQ st c (entriesL st.res c + K) := by
  unfold Bal BalQ; omega
theorem BalQ.cast {st : State} {c K K' : Nat} (h : BalQ st c K) (hk : K = K') : BalQ st c K' := hk ▸ h
theorem Bal.cast {st : State} {c K K' : Nat} (h : Bal st c K) (hk : K = K') : Bal st c K' := hk ▸ h
theorem PresQ.refl (st : State) : PresQ st st := fun _ _ h => h
theorem PresQ.trans {a b c : State} (h1 : PresQ a b) (h2 : PresQ b c) : PresQ a c := fun x K h => h2 x K (h1 x K h)
theorem PresQ.pres {st st' : State} (h : PresQ st st') (hr : st'.res = st.res) : Pres st st' := by
  intro c K hb; rw [bal_iff] at hb ⊢; rw [hr]; exact h c _ hb
theorem PresQ.of_eq {st st' : State} (hq : st'.sendq = st.sendq) (hs : ∀ c, sref st' c = sref st c) : PresQ st st' := by
  intro c K h; unfold BalQ at h ⊢; rw [hq, hs]; exact h

theorem presQ_txStamp (st : State) (c : Nat) : PresQ st (txStamp st c) := PresQ.of_eq rfl (by simp)
theorem presQ_newMid (st : State) (c : Nat) : PresQ st (newMid st c).2 := PresQ.of_eq rfl (by simp)

/-- releasing a reference that is accounted for in the offset -/
theorem refDec_balQ (st : State) (c c' K : Nat) (h : BalQ st c' (K + if c' = c then 1 else 0)) : BalQ (refDec st c) c' K := by
  unfold BalQ at h ⊢
  simp only [refDec_sendq, sref_refDec]
  by_cases hc : c' = c
  · subst hc; simp only [if_true] at h ⊢; omega
  · simp only [hc, if_false] at h ⊢; omega

theorem refDec_bal (st : State) (c c' K : Nat) (h : Bal st c' (K + if c' = c then 1 else 0)) : Bal (refDec st c) c' K := by
  rw [bal_iff] at h ⊢
  exact refDec_balQ st c c' _ (h.cast (by simp only [refDec_res]; omega))

/-! ### list lemmas -/
theorem filter_eraseP_length {α : Type} (m p : α → Bool) : ∀ (l : List α) (a : α), l.find? m = some a →
    ((l.eraseP m).filter p).length + (if p a = true then 1 else 0) = (l.filter p).length
  | [], _, h => by simp at h
  | b :: t, a, h => by
    by_cases hb : m b = true
    · rw [List.find?_cons_of_pos hb] at h
      cases h
      rw [List.eraseP_cons_of_pos hb]
      by_cases hp : p b = true <;> simp [hp]
    · rw [List.find?_cons_of_neg (by simpa using hb)] at h
      rw [List.eraseP_cons_of_neg (by simpa using hb)]
      have ih := filter_eraseP_length m p t a h
      by_cases hp : p b = true <;> simp [hp] <;> omega

theorem find_of_any {α : Type} (m : α → Bool) (l : List α) (h : l.any m = true) : ∃ a, l.find? m = some a ∧ m a = true := by
  cases hf : l.find? m with
  | none =>
    rw [List.find?_eq_none] at hf
    obtain ⟨s, hs, hm⟩ := List.any_eq_true.mp h
    exact absurd hm (hf s hs)
  | some a => exact ⟨a, rfl, List.find?_some hf⟩

theorem cnt_nil (c : Nat) : cnt c [] = 0 := rfl
theorem cnt_cons (c : Nat) (s : Sub) (l : List Sub) : cnt c (s :: l) = (if s.sess = c then 1 else 0) + cnt c l := by
  unfold cnt; by_cases h : s.sess = c <;> simp [h] ; omega
theorem cnt_append (c : Nat) (a b : List Sub) : cnt c (a ++ b) = cnt c a + cnt c b := by
  unfold cnt; simp
theorem qcnt_cons (c : Nat) (q : QNode) (l : List QNode) : qcnt c (q :: l) = (if q.sess = c then 1 else 0) + qcnt c l := by
  unfold qcnt; by_cases h : q.sess = c <;> simp [h] ; omega

theorem cnt_eraseP_ST (c tok c' : Nat) (l : List Sub) (h : l.any (matchST c tok) = true) :
    cnt c' (l.eraseP (matchST c tok)) + (if c' = c then 1 else 0) = cnt c' l := by
  obtain ⟨a, hf, hm⟩ := find_of_any _ _ h
  have := filter_eraseP_length (matchST c tok) (fun s => s.sess == c') l a hf
  unfold matchST at hm; simp at hm
  unfold cnt; rw [← this]
  by_cases hc : c' = c
  · simp [hm.1, hc]
  · have : ¬ c = c' := by omega
    simp [hm.1, hc, this]

theorem qcnt_eraseP_Q (c mid c' : Nat) (l : List QNode) (q : QNode) (hf : l.find? (matchQ c mid) = some q) :
    qcnt c' (l.eraseP (matchQ c mid)) + (if c' = c then 1 else 0) = qcnt c' l := by
  have hm := List.find?_some hf
  have := filter_eraseP_length (matchQ c mid) (fun s => s.sess == c') l q hf
  unfold matchQ at hm; simp at hm
  unfold qcnt; rw [← this]
  by_cases hc : c' = c
  · simp [hm.1, hc]
  · have : ¬ c = c' := by omega
    simp [hm.1, hc, this]

theorem cnt_modFirst (c : Nat) (p : Sub → Bool) (f : Sub → Sub) (hf : ∀ s, (f s).sess = s.sess) :
    ∀ l : List Sub, cnt c (modFirst p f l) = cnt c l
  | [] => rfl
  | s :: r => by
    unfold modFirst; split
    · simp only [cnt_cons, hf]
    · simp only [cnt_cons, cnt_modFirst c p f hf r]

theorem cnt_filter_ne (c c' : Nat) : ∀ l : List Sub, cnt c' (l.filter fun s => !(s.sess == c)) = if c' = c then 0 else cnt c' l
  | [] => by simp [cnt_nil]
  | s :: r => by
    have ih := cnt_filter_ne c c' r
    by_cases h : s.sess = c
    · rw [List.filter_cons_of_neg (by simp [h]), ih, cnt_cons]
      by_cases hc : c' = c
      · simp [hc]
      · have : ¬ s.sess = c' := by omega
        simp [hc, this]
    · rw [List.filter_cons_of_pos (by simp [h]), cnt_cons, ih, cnt_cons]
      by_cases hc : c' = c
      · simp [hc]; omega
      · simp [hc]

theorem qcnt_filter_ne (c c' : Nat) : ∀ l : List QNode, qcnt c' (l.filter fun s => !(s.sess == c)) = if c' = c then 0 else qcnt c' l
  | [] => by simp [qcnt]
  | s :: r => by
    have ih := qcnt_filter_ne c c' r
    by_cases h : s.sess = c
    · rw [List.filter_cons_of_neg (by simp [h]), ih, qcnt_cons]
      by_cases hc : c' = c
      · simp [hc]
      · have : ¬ s.sess = c' := by omega
        simp [hc, this]
    · rw [List.filter_cons_of_pos (by simp [h]), qcnt_cons, ih, qcnt_cons]
      by_cases hc : c' = c
      · simp [hc]; omega
      · simp [hc]

theorem qcnt_filter_not (c c' : Nat) (p : QNode → Bool) (hp : ∀ q, p q = true → q.sess = c) :
    ∀ l : List QNode, qcnt c' (l.filter fun q => !p q) + (if c' = c then (l.filter p).length else 0) = qcnt c' l
  | [] => by simp [qcnt]
  | q :: r => by
    have ih := qcnt_filter_not c c' p hp r
    by_cases h : p q = true
    · rw [List.filter_cons_of_neg (by simp [h]), List.filter_cons_of_pos h, qcnt_cons, hp q h]
      by_cases hc : c' = c
      · simp [hc] at ih ⊢; omega
      · have : ¬ c = c' := by omega
        simp [hc, this] at ih ⊢; omega
    · rw [List.filter_cons_of_pos (by simp [h]), List.filter_cons_of_neg h, qcnt_cons, qcnt_cons]
      omega

theorem qcnt_insertNode (c : Nat) (n : QNode) : ∀ l : List QNode, qcnt c (insertNode n l) = qcnt c l + (if n.sess = c then 1 else 0)
  | [] => by
    unfold insertNode; rw [qcnt_cons]; simp [qcnt]
  | q :: r => by
    unfold insertNode; split
    · simp only [qcnt_cons]; omega
    · simp only [qcnt_cons, qcnt_insertNode c n r]; omega

theorem entriesL_nil (c : Nat) : entriesL [] c = 0 := rfl
theorem entriesL_cons (x : Res) (rs : List Res) (c : Nat) : entriesL (x :: rs) c = cnt c x.subs + entriesL rs c := by
  unfold entriesL; simp

theorem entriesL_map_congr (c : Nat) (f : Res → Res) : ∀ (rs : List Res), (∀ y ∈ rs, cnt c (f y).subs = cnt c y.subs) →
    entriesL (rs.map f) c = entriesL rs c
  | [], _ => rfl
  | x :: t, h => by
    rw [List.map_cons, entriesL_cons, entriesL_cons, h x (List.mem_cons_self ..),
      entriesL_map_congr c f t (fun y hy => h y (List.mem_cons_of_mem _ hy))]

/-- with distinct ids, `modRes` changes exactly one summand -/
theorem entriesL_modify (c r : Nat) (f : Res → Res) : ∀ (rs : List Res), (rs.map (·.id)).Nodup → ∀ x ∈ rs, x.id = r →
    ∃ E, entriesL rs c = E + cnt c x.subs ∧ entriesL (rs.map fun y => if y.id = r then f y else y) c = E + cnt c (f x).subs
  | [], _, x, hx, _ => by cases hx
  | a :: t, hn, x, hx, hr => by
    rw [List.map_cons, List.nodup_cons] at hn
    cases hx with
    | head =>
      refine ⟨entriesL t c, ?_, ?_⟩
      · rw [entriesL_cons]; omega
      · rw [List.map_cons, entriesL_cons, if_pos hr]
        have : t.map (fun y => if y.id = r then f y else y) = t := by
          rw [List.map_congr_left (g := id)]
          · simp
          · intro y hy
            have : y.id ≠ r := fun h => hn.1 (by rw [hr, ← h]; exact List.mem_map_of_mem (f := (·.id)) hy)
            simp [this]
        rw [this]; omega
    | tail _ hx' =>
      obtain ⟨E, h1, h2⟩ := entriesL_modify c r f t hn.2 x hx' hr
      have : a.id ≠ r := fun h => hn.1 (by rw [h, ← hr]; exact List.mem_map_of_mem (f := (·.id)) hx')
      refine ⟨cnt c a.subs + E, ?_, ?_⟩
      · rw [entriesL_cons, h1]; omega
      · rw [List.map_cons, entriesL_cons, if_neg this, h2]; omega

theorem cnt_le_entriesL (c : Nat) : ∀ (rs : List Res), ∀ x ∈ rs, cnt c x.subs ≤ entriesL rs c
  | [], x, hx => by cases hx
  | a :: t, x, hx => by
    rw [entriesL_cons]
    cases hx with
    | head => omega
    | tail _ hx' => have := cnt_le_entriesL c t x hx'; omega

theorem cnt_pos_of_mem (l : List Sub) (o : Sub) (h : o ∈ l) : 1 ≤ cnt o.sess l := by
  induction l with
  | nil => cases h
  | cons a t ih =>
    rw [cnt_cons]
    cases h with
    | head => simp
    | tail _ h' => have := ih h'; omega

/-! ### primitives acting on the resource table -/
@[simp] theorem mapRes_res (st : State) (f : Res → Res) : (mapRes st f).res = st.res.map f := rfl
theorem modRes_res (st : State) (r : Nat) (f : Res → Res) : (modRes st r f).res = st.res.map fun x => if x.id = r then f x else x := rfl

theorem entries_modRes (st : State) (hn : IdsNodup st) (r : Nat) (x : Res) (hx : findRes st r = some x) (f : Res → Res) (c : Nat) :
    ∃ E, entriesL st.res c = E + cnt c x.subs ∧ entriesL (modRes st r f).res c = E + cnt c (f x).subs := by
  obtain ⟨hm, hid, _⟩ := findRes_mem hx
  exact entriesL_modify c r f st.res hn x hm hid

theorem pres_mapRes (st : State) (f : Res → Res) (hf : ∀ c y, cnt c (f y).subs = cnt c y.subs) : Pres st (mapRes st f) := by
  intro c K h; unfold Bal at h ⊢
  rw [mapRes_res, entriesL_map_congr c f st.res (fun y _ => hf c y)]
  exact h

theorem pres_modRes (st : State) (r : Nat) (f : Res → Res) (hf : ∀ c y, cnt c (f y).subs = cnt c y.subs) : Pres st (modRes st r f) := by
  unfold modRes; apply pres_mapRes; intro c y; split
  · exact hf c y
  · rfl

theorem pres_deleteObserver (st : State) (hn : IdsNodup st) (r c tok : Nat) : Pres st (deleteObserver st r c tok) := by
  unfold deleteObserver
  split
  · exact Pres.refl _
  · rename_i x hx
    split
    · rename_i hany
      intro c' K h
      apply refDec_bal
      unfold Bal at h ⊢
      obtain ⟨E, h1, h2⟩ := entries_modRes st hn r x hx (fun y => { y with subs := y.subs.eraseP (matchST c tok) }) c'
      rw [h2]; rw [h1] at h
      simp only [sref_modRes, modRes_sendq]
      have := cnt_eraseP_ST c tok c' x.subs hany
      omega
    · exact Pres.refl _

theorem pres_touchObserver (st : State) (c tok : Nat) : Pres st (touchObserver st c tok) := by
  unfold touchObserver; apply pres_mapRes; intro c' y; split
  · exact cnt_modFirst c' (matchST c tok) (fun s => { s with failCnt := 0 }) (fun _ => rfl) y.subs
  · rfl

theorem pres_change (st : State) (r : Nat) : Pres st (change st r) := by
  unfold change
  split
  · exact Pres.refl _
  · split
    · exact Pres.refl _
    · exact (pres_modRes st r (fun y => { y with dirty := true, observe := nextObserve y.observe, ver := y.ver + 1 })
        (fun _ _ => rfl)).trans (Pres.of_eq rfl rfl (fun _ => rfl))

theorem cnt_addToRes (x : Res) (c tok key m c' : Nat) (hany : ¬ x.subs.any (matchST c tok) = true) :
    cnt c' (addToRes x c tok key m).subs + (if (x.subs.find? (matchSK c key)).isSome = true ∧ c' = c then 1 else 0)
      = cnt c' x.subs + (if c' = c then 1 else 0) := by
  unfold addToRes
  rw [if_neg hany]
  dsimp only
  rw [cnt_cons]
  dsimp only
  cases hf : x.subs.find? (matchSK c key) with
  | none =>
    by_cases hc : c' = c
    · subst hc; simp; omega
    · have : ¬ c = c' := by omega
      simp [hc, this]
  | some old =>
    dsimp only
    have hm := List.find?_some hf
    have hmem := List.mem_of_find?_eq_some hf
    unfold matchSK at hm; simp at hm
    have hany' : x.subs.any (matchST c old.token) = true :=
      List.any_eq_true.mpr ⟨old, hmem, by unfold matchST; simp [hm.1]⟩
    have h3 := cnt_eraseP_ST c old.token c' x.subs hany'
    by_cases hc : c' = c
    · subst hc
      simp at h3 ⊢; omega
    · have : ¬ c = c' := by omega
      simp [hc, this] at h3 ⊢; omega

theorem pres_addObserver (st : State) (hn : IdsNodup st) (r c tok key : Nat) : Pres st (addObserver st r c tok key) := by
  unfold addObserver
  split
  · exact Pres.refl _
  · rename_i x hx
    split
    · exact Pres.refl _
    · rename_i hany
      dsimp only
      intro c' K h
      obtain ⟨hm, hid, hal⟩ := findRes_mem hx
      have main : ∀ st1 : State, st1.res = st.res → st1.sendq = st.sendq →
          sref st1 c' + (if (x.subs.find? (matchSK c key)).isSome = true ∧ c' = c then 1 else 0) = sref st c' →
          Bal (refInc (mapRes (newMid st1 c).2 fun y => if y.id = r ∧ y.alive = true then addToRes y c tok key (newMid st1 c).1 else y) c) c' K := by
        intro st1 hr hq hs
        unfold Bal at h ⊢
        simp only [refInc_res, refInc_sendq, mapRes_sendq, newMid_sendq, sref_refInc, sref_mapRes, sref_newMid, hq, mapRes_res,
          newMid_res, hr]
        have hfun : (fun y : Res => if y.id = r ∧ y.alive = true then addToRes y c tok key (newMid st1 c).1 else y)
            = (fun y => if y.id = r then (if y.alive = true then addToRes y c tok key (newMid st1 c).1 else y) else y) := by
          funext y; by_cases h1 : y.id = r <;> simp [h1]
        obtain ⟨E, h1, h2⟩ := entriesL_modify c' r (fun y => if y.alive = true then addToRes y c tok key (newMid st1 c).1 else y)
          st.res hn x hm hid
        rw [hfun, h2]; rw [h1] at h
        simp only [hal, if_true]
        have h3 := cnt_addToRes x c tok key (newMid st1 c).1 c' hany
        by_cases hc : c' = c
        · subst hc; simp only [if_true, and_true] at h3 hs ⊢; omega
        · simp only [hc, if_false, and_false] at h3 hs ⊢; omega
      split
      · rename_i old hf
        refine main (refDec st c) rfl rfl ?_
        rw [hf, sref_refDec]
        by_cases hc : c' = c
        · subst hc
          have hm' := List.find?_some hf
          have hmem := List.mem_of_find?_eq_some hf
          unfold matchSK at hm'; simp at hm'
          have h4 := cnt_pos_of_mem x.subs old hmem
          rw [hm'.1] at h4
          have h5 := cnt_le_entriesL c' st.res x hm
          unfold Bal at h
          simp; omega
        · simp [hc]
      · rename_i hf
        refine main st rfl rfl ?_
        rw [hf]; simp

theorem pres_cancelAllMessages (st : State) (c tok : Nat) : Pres st (cancelAllMessages st c tok) := by
  intro c' K h
  unfold Bal at h ⊢
  unfold cancelAllMessages
  simp only [modSess_res, modSess_sendq, sref_modSess, getSess_ref]
  have h1 := qcnt_filter_not c c' (matchQT c tok) (by intro q hq; unfold matchQT at hq; simp at hq; exact hq.1) st.sendq
  by_cases hc : c' = c
  · subst hc; simp only [if_true] at h1 ⊢
    show sref st c' - _ = _
    omega
  · simp only [hc, if_false] at h1 ⊢
    show sref st c' = _
    omega

theorem sref_of_sess {st st' : State} (h : st'.sess = st.sess) (c : Nat) : sref st' c = sref st c := by
  unfold sref; rw [h]

theorem balQ_insert (st : State) (n : QNode) (c' K : Nat) (h : BalQ st c' (K + if n.sess = c' then 1 else 0)) :
    BalQ { st with sendq := insertNode n st.sendq } c' K := by
  unfold BalQ at h ⊢
  dsimp only
  rw [qcnt_insertNode, show sref { st with sendq := insertNode n st.sendq } c' = sref st c' from rfl]
  omega

theorem balQ_refIncCon (st : State) (c c' K : Nat) (h : BalQ st c' K) :
    BalQ (modSess st c fun s => { s with conActive := s.conActive + 1, ref := s.ref + 1 }) c' (K + if c = c' then 1 else 0) := by
  unfold BalQ at h ⊢
  simp only [modSess_sendq, sref_modSess, getSess_ref]
  by_cases hc : c' = c
  · subst hc; simp only [if_true]; omega
  · have : ¬ c = c' := by omega
    simp only [hc, this, if_false]; omega

theorem presQ_sendNote (st : State) (c tok code : Nat) (obs : Option Nat) (isCon : Bool) (mid rid ver : Nat) :
    PresQ st (sendNote st c tok code obs isCon mid rid ver).1 := by
  intro c' K h
  have h1 : BalQ (addNote (txStamp st c) c { mid := mid, con := isCon }) c' K :=
    (presQ_txStamp st c).trans (PresQ.of_eq rfl (fun _ => rfl)) c' K h
  unfold sendNote
  dsimp only
  split
  · exact balQ_insert _ _ c' K (balQ_refIncCon _ c c' K h1)
  · exact h1

theorem pres_sendNote (st : State) (c tok code : Nat) (obs : Option Nat) (isCon : Bool) (mid rid ver : Nat) :
    Pres st (sendNote st c tok code obs isCon mid rid ver).1 :=
  (presQ_sendNote st c tok code obs isCon mid rid ver).pres (sendNote_res ..)

/-! ### the notify loop -/
theorem cnt_one (c : Nat) (o : Sub) : cnt c [o] = if o.sess = c then 1 else 0 := by rw [cnt_cons, cnt_nil]; omega

theorem notifyOne_bal (d : Bool) (r : Res) (o : Sub) (st : State) (c K : Nat) (h : BalQ st c (cnt c [o] + K)) :
    BalQ (notifyOne d r o st).st c (cnt c (notifyOne d r o st).sub.toList + K) := by
  unfold notifyOne
  split
  · exact h
  · split
    · exact h.cast (by simp [cnt_one])
    · dsimp only
      have h1 : BalQ (newMid st o.sess).2 c (cnt c [o] + K) := presQ_newMid _ _ c _ h
      split
      · exact presQ_sendNote _ _ _ _ _ _ _ _ _ c _ (h1.cast (by simp [cnt_one]))
      · split
        · apply presQ_sendNote
          apply refDec_balQ
          rw [cnt_one] at h1
          refine h1.cast ?_
          by_cases hc : o.sess = c
          · subst hc; simp [cnt_nil]; omega
          · have : ¬ c = o.sess := by omega
            simp [hc, this, cnt_nil]
        · exact presQ_sendNote _ _ _ _ _ _ _ _ _ c _ (h1.cast (by simp [cnt_one]))

theorem notifyLoop_bal (d : Bool) (r : Res) : ∀ (subs : List Sub) (st : State) (c K : Nat), BalQ st c (cnt c subs + K) →
    BalQ (notifyLoop d r subs st).st c (cnt c (notifyLoop d r subs st).subs + K)
  | [], st, c, K, h => h
  | o :: rest, st, c, K, h => by
    unfold notifyLoop
    dsimp only
    have h1 := notifyOne_bal d r o st c (cnt c rest + K) (h.cast (by rw [cnt_cons, cnt_one]; omega))
    have h2 := notifyLoop_bal d r rest _ c (cnt c (notifyOne d r o st).sub.toList + K) (h1.cast (by omega))
    exact h2.cast (by rw [cnt_append]; omega)

theorem notifyRes_bal (d : Bool) (r : Res) (st : State) (c K : Nat) (h : BalQ st c (cnt c r.subs + K)) :
    BalQ (notifyRes d r st).2.1 c (cnt c (notifyRes d r st).1.subs + K) := by
  unfold notifyRes
  split
  · exact notifyLoop_bal d r r.subs st c K h
  · exact h

theorem notifyAll_bal : ∀ (rs : List Res) (st : State) (c K : Nat), BalQ st c (entriesL rs c + K) →
    BalQ (notifyAll rs st).2.1 c (entriesL (notifyAll rs st).1 c + K)
  | [], st, c, K, h => h
  | r :: rest, st, c, K, h => by
    have h1 := notifyRes_bal false r st c (entriesL rest c + K) (h.cast (by rw [entriesL_cons]; omega))
    have h2 := notifyAll_bal rest _ c (cnt c (notifyRes false r st).1.subs + K) (h1.cast (by omega))
    have e1 : (notifyAll (r :: rest) st).2.1 = (notifyAll rest (notifyRes false r st).2.1).2.1 := rfl
    have e2 : (notifyAll (r :: rest) st).1 = (notifyRes false r st).1 :: (notifyAll rest (notifyRes false r st).2.1).1 := rfl
    rw [e1, e2]
    exact h2.cast (by rw [entriesL_cons]; omega)

theorem pres_checkNotify (st : State) : Pres st (checkNotify st).1 := by
  unfold checkNotify
  split
  · intro c K h
    rw [bal_iff] at h ⊢
    exact notifyAll_bal st.res { st with pending := false } c K h
  · exact Pres.refl _

/-! ### failed notifications, retransmission -/
theorem IdsNodup.of_le {st st' : State} (h : AllIdLe st'.res st.res) (hn : IdsNodup st) : IdsNodup st' := by
  unfold IdsNodup resIds; rw [h.ids]; exact hn

theorem foldl_pres {α : Type} (f : State → α → State) (hf : ∀ s x, IdsNodup s → Pres s (f s x))
    (hle : ∀ s x, AllIdLe (f s x).res s.res) : ∀ (l : List α) (st : State), IdsNodup st → Pres st (l.foldl f st)
  | [], st, _ => Pres.refl _
  | x :: xs, st, hn => by
    simp only [List.foldl_cons]
    exact (hf st x hn).trans (foldl_pres f hf hle xs _ (IdsNodup.of_le (hle st x) hn))

theorem pres_removeFailedOne (st : State) (x : Res) (c tok : Nat) (hn : IdsNodup st) : Pres st (removeFailedOne st x c tok) := by
  unfold removeFailedOne
  split
  · exact Pres.refl _
  · split
    · exact (pres_cancelAllMessages st c tok).trans (pres_deleteObserver (cancelAllMessages st c tok) hn x.id c tok)
    · exact pres_modRes st x.id _ (fun c' y => cnt_modFirst c' (matchST c tok) (fun s => { s with failCnt := (s.failCnt + 1) % 256 })
        (fun _ => rfl) y.subs)

theorem pres_handleFailedNotify (st : State) (c tok : Nat) (hn : IdsNodup st) : Pres st (handleFailedNotify st c tok) := by
  unfold handleFailedNotify
  apply foldl_pres _ _ _ _ _ hn
  · intro s rid hs; split
    · exact pres_removeFailedOne _ _ _ _ hs
    · exact Pres.refl _
  · intro s rid; split
    · exact (removeFailedOne_le ..).idLe
    · exact AllIdLe.refl _

theorem pres_cancelSent (st : State) (c tok : Nat) (hn : IdsNodup st) : Pres st (cancelSent st c tok) := by
  unfold cancelSent
  apply foldl_pres _ _ _ _ _ hn
  · intro s rid hs; split
    · exact (pres_cancelAllMessages s c tok).trans (pres_deleteObserver (cancelAllMessages s c tok) hs rid c tok)
    · exact Pres.refl _
  · intro s rid; split
    · exact (deleteObserver_le (cancelAllMessages s c tok) rid c tok).idLe
    · exact AllIdLe.refl _

theorem bal_insert (st : State) (n : QNode) (c' K : Nat) (h : Bal st c' (K + if n.sess = c' then 1 else 0)) :
    Bal { st with sendq := insertNode n st.sendq } c' K := by
  rw [bal_iff] at h ⊢
  exact balQ_insert st n c' _ (h.cast (by dsimp only; omega))

theorem retransmit_bal (st : State) (q : QNode) (hn : IdsNodup st) (c K : Nat)
    (h : Bal st c (K + if q.sess = c then 1 else 0)) : Bal (retransmit st q).1 c K := by
  unfold retransmit
  split
  · dsimp only
    refine pres_txStamp _ _ c K ?_
    refine pres_modSess_same _ _ _ ?_ c K ?_
    · intro s; rfl
    refine pres_conDec _ _ c K ?_
    exact bal_insert st _ c K h
  · dsimp only
    apply refDec_bal
    refine pres_conDec _ _ c _ ?_
    refine pres_handleFailedNotify st q.sess q.token hn c _ ?_
    refine h.cast ?_
    by_cases hc : c = q.sess
    · simp [hc]
    · have : ¬ q.sess = c := by omega
      simp [hc, this]

theorem pres_retransmitDue : ∀ (fuel : Nat) (st : State), IdsNodup st → Pres st (retransmitDue fuel st).1
  | 0, st, _ => Pres.refl _
  | fuel + 1, st, hn => by
    unfold retransmitDue
    split
    · exact Pres.refl _
    · rename_i q qs hq
      split
      · intro c K h
        have h1 : Bal { st with sendq := qs } c (K + if q.sess = c then 1 else 0) := by
          unfold Bal at h ⊢
          rw [hq, qcnt_cons] at h
          show sref st c = entriesL st.res c + qcnt c qs + _
          omega
        have h2 := retransmit_bal { st with sendq := qs } q hn c K h1
        exact pres_retransmitDue fuel _ (IdsNodup.of_le (st := st) (retransmit_le { st with sendq := qs } q).idLe hn) c K h2
      · exact Pres.refl _

/-! ### ACK / RST -/
theorem bal_erase (st : State) (c mid : Nat) (q : QNode) (hf : st.sendq.find? (matchQ c mid) = some q) (c' K : Nat) (h : Bal st c' K) :
    Bal { st with sendq := st.sendq.eraseP (matchQ c mid) } c' (K + if c' = c then 1 else 0) := by
  unfold Bal at h ⊢
  have := qcnt_eraseP_Q c mid c' _ q hf
  show sref st c' = entriesL st.res c' + qcnt c' (st.sendq.eraseP (matchQ c mid)) + _
  omega

theorem pres_handleAck (st : State) (c mid : Nat) : Pres st (handleAck st c mid) := by
  unfold handleAck
  dsimp only
  split
  · exact pres_rxSession st c
  · rename_i q hf
    intro c' K h
    apply refDec_bal
    have h1 := bal_erase _ c mid q hf c' K (pres_rxSession st c c' K h)
    have h2 := pres_conDec _ c c' _ h1
    split
    · exact pres_touchObserver _ c q.token c' _ h2
    · exact h2

theorem pres_handleRst (st : State) (c mid : Nat) (hn : IdsNodup st) : Pres st (handleRst st c mid) := by
  unfold handleRst
  dsimp only
  split
  · rename_i q hf
    intro c' K h
    apply refDec_bal
    have h1 := bal_erase _ c mid q hf c' K (pres_rxSession st c c' K h)
    have h2 := pres_conDec _ c c' _ h1
    refine pres_cancelSent _ c q.token ?_ c' _ h2
    exact hn
  · split
    · exact (pres_rxSession st c).trans (pres_deleteObserver (rxSession st c) hn _ _ _)
    · exact pres_rxSession st c

/-! ### session loss, resource deletion, reclaim -/
theorem entriesL_filter_ne (c c' : Nat) : ∀ rs : List Res,
    entriesL (rs.map fun x => { x with subs := x.subs.filter fun s => !(s.sess == c) }) c' = if c' = c then 0 else entriesL rs c'
  | [] => by simp [entriesL_nil]
  | x :: t => by
    rw [List.map_cons, entriesL_cons, entriesL_cons, entriesL_filter_ne c c' t]
    dsimp only
    rw [cnt_filter_ne]
    by_cases hc : c' = c <;> simp [hc]

theorem pres_sessionLost (st : State) (c : Nat) : Pres st (sessionLost st c) := by
  unfold sessionLost
  split
  · exact Pres.refl _
  · intro c' K h
    unfold Bal at h ⊢
    dsimp only
    simp only [modSess_res, modSess_sendq, mapRes_res, mapRes_sendq, sref_modSess, getSess_ref]
    rw [entriesL_filter_ne, qcnt_filter_ne]
    by_cases hc : c' = c
    · subst hc
      simp only [if_true]
      show sref st c' - entriesL st.res c' - qcnt c' st.sendq = _
      omega
    · simp only [hc, if_false]
      exact h

theorem releaseAll_bal : ∀ (l : List Sub) (st : State) (c K : Nat), BalQ st c (cnt c l + K) → BalQ (releaseAll st l) c K
  | [], st, c, K, h => h.cast (by rw [cnt_nil]; omega)
  | s :: rest, st, c, K, h => by
    unfold releaseAll
    apply releaseAll_bal rest
    apply refDec_balQ
    refine h.cast ?_
    rw [cnt_cons]
    by_cases hc : c = s.sess
    · simp [hc]; omega
    · have : ¬ s.sess = c := by omega
      simp [hc, this]

theorem releaseAll_sendq : ∀ (l : List Sub) (st : State), (releaseAll st l).sendq = st.sendq
  | [], st => rfl
  | s :: rest, st => by unfold releaseAll; rw [releaseAll_sendq rest]; rfl

theorem pres_deleteResource (st : State) (r : Nat) (hn : IdsNodup st) : Pres st (deleteResource st r).1 := by
  unfold deleteResource
  split
  · exact Pres.refl _
  · dsimp only
    split
    · exact pres_change st r
    · rename_i x1 hx1
      refine (pres_change st r).trans ?_
      have hn1 : IdsNodup (change st r) := IdsNodup.of_le (change_idLe st r) hn
      intro c K h
      obtain ⟨E, h1, h2⟩ := entries_modRes (change st r) hn1 r x1 hx1
        (fun y => { y with alive := false, subs := [], dirty := false, pdirty := (notifyRes true x1 (change st r)).1.pdirty }) c
      rw [bal_iff, h1] at h
      have h3 := notifyRes_bal true x1 (change st r) c (E + K) (h.cast (by omega))
      have h4 := releaseAll_bal _ _ c (E + K) h3
      show Bal (modRes (releaseAll (notifyRes true x1 (change st r)).2.1 (notifyRes true x1 (change st r)).1.subs) r _) c K
      rw [bal_iff]
      rw [modRes_res, releaseAll_res, notifyRes_res, ← modRes_res, h2]
      dsimp only
      rw [cnt_nil]
      exact h4.cast (by omega)

theorem sref_reclaim (st : State) (c : Nat) : sref (reclaim st) c = sref st c := by
  unfold sref reclaim; dsimp only
  cases h : st.sess c with
  | none => rfl
  | some s =>
    dsimp only
    split
    · rename_i h1; split at h1
      · cases h1
      · cases h1; rfl
    · rename_i h1; split at h1
      · rename_i h2; exact h2.1.symm
      · cases h1

theorem pres_reclaim (st : State) : Pres st (reclaim st) := Pres.of_eq rfl rfl (sref_reclaim st)

theorem pres_io (st : State) (hn : IdsNodup st) : Pres st (io st).1 := by
  unfold io
  dsimp only
  have hn1 : IdsNodup (checkNotify st).1 := IdsNodup.of_le (checkNotify_idLe st) hn
  exact ((pres_checkNotify st).trans (pres_retransmitDue _ _ hn1)).trans (pres_reclaim _)

theorem pres_rxThenIo (p : State × List Out) (hn : IdsNodup p.1) : Pres p.1 (rxThenIo p).1 := by
  unfold rxThenIo; exact pres_io p.1 hn

theorem pres_deleteObserverRequest (st : State) (r c tok key : Nat) (hn : IdsNodup st) :
    Pres st (deleteObserverRequest st r c tok key) := by
  unfold deleteObserverRequest
  split
  · exact Pres.refl _
  · split
    · exact pres_deleteObserver st hn _ _ _
    · split
      · exact pres_deleteObserver st hn _ _ _
      · exact Pres.refl _

theorem pres_request (st : State) (o : Option Nat) (c r tok key : Nat) (con : Bool) (mid : Nat) (hn : IdsNodup st) :
    Pres st (request st o c r tok key con mid).1 := by
  unfold request
  dsimp only
  have hn0 : IdsNodup (rxSession st c) := hn
  split
  · exact (pres_rxSession st c).trans (pres_txStamp _ c)
  · have h1 : Pres st (match o with
               | some 0 => touchObserver (addObserver (rxSession st c) r c tok key) c tok
               | some 1 => deleteObserverRequest (rxSession st c) r c tok key
               | _ => rxSession st c) ∧ IdsNodup (match o with
               | some 0 => touchObserver (addObserver (rxSession st c) r c tok key) c tok
               | some 1 => deleteObserverRequest (rxSession st c) r c tok key
               | _ => rxSession st c) := by
      split
      · refine ⟨((pres_rxSession st c).trans (pres_addObserver _ hn0 r c tok key)).trans (pres_touchObserver _ c tok), ?_⟩
        exact IdsNodup.of_le (touchObserver_le ..).idLe (by unfold IdsNodup; rw [addObserver_ids]; exact hn0)
      · exact ⟨(pres_rxSession st c).trans (pres_deleteObserverRequest _ r c tok key hn0),
          IdsNodup.of_le (deleteObserverRequest_le ..).idLe hn0⟩
      · exact ⟨pres_rxSession st c, hn0⟩
    split
    · split
      · exact (h1.1.trans (pres_deleteObserver _ h1.2 r c tok)).trans (pres_txStamp _ c)
      · exact h1.1.trans (pres_txStamp _ c)
    · exact h1.1.trans (pres_txStamp _ c)

/-! ### one event, all runs -/
theorem pres_step (st : State) (e : Event) (hn : IdsNodup st) : Pres st (step st e).1 := by
  have hreq : ∀ o c r tok key con mid, Pres st (rxThenIo (request st o c r tok key con mid)).1 := fun o c r tok key con mid =>
    (pres_request st o c r tok key con mid hn).trans
      (pres_rxThenIo _ (by unfold IdsNodup; rw [request_ids]; exact hn))
  cases e with
  | reg c r tok key con mid => exact hreq _ c r tok key con mid
  | can c r tok key con mid => exact hreq _ c r tok key con mid
  | get c r tok key con mid => exact hreq _ c r tok key con mid
  | chg r => exact pres_change st r
  | adv ms =>
    show Pres st (io { st with now := st.now + ms }).1
    exact (Pres.of_eq rfl rfl (fun c => sref_of_sess rfl c) : Pres st { st with now := st.now + ms }).trans (pres_io _ hn)
  | ack c n =>
    unfold step; dsimp only
    split
    · split
      · exact (pres_handleAck st c _).trans (pres_rxThenIo (handleAck st c _, []) (IdsNodup.of_le (handleAck_le ..).idLe hn))
      · exact Pres.refl _
    · exact Pres.refl _
  | rst c n =>
    unfold step; dsimp only
    split
    · exact (pres_handleRst st c _ hn).trans (pres_rxThenIo (handleRst st c _, []) (IdsNodup.of_le (handleRst_le ..).idLe hn))
    · exact Pres.refl _
  | err r b => exact pres_modRes st r (fun y => { y with err := b }) (fun _ _ => rfl)
  | lost c => exact pres_sessionLost st c
  | del r => exact pres_deleteResource st r hn

/-- every event preserves "reference count = number of holders" -/
theorem step_refInv (st : State) (e : Event) (hid : IdsNodup st) (h : RefInv st) : RefInv (step st e).1 :=
  (pres_step st e hid).refInv h

theorem run_refInv (st : State) (evs : List Event) (hid : IdsNodup st) (h : RefInv st) : RefInv (run st evs).1 := by
  induction evs generalizing st with
  | nil => exact h
  | cons e es ih => rw [run_cons]; exact ih _ (step_idsNodup st e hid) (step_refInv st e hid h)

theorem entriesL_empty (c : Nat) : ∀ (res : List Res), (∀ y ∈ res, y.subs = []) → entriesL res c = 0
  | [], _ => rfl
  | x :: t, h => by
    rw [entriesL_cons, h x (List.mem_cons_self ..), cnt_nil, entriesL_empty c t (fun y hy => h y (List.mem_cons_of_mem _ hy))]

theorem init_refInv (res : List Res) (stTicks : Nat) (h : ∀ y ∈ res, y.subs = []) : RefInv (init res stTicks) := by
  intro c
  rw [getSess_ref, entriesOf_eq, nodesOf_eq]
  show 0 = entriesL res c + 0
  rw [entriesL_empty c res h]

theorem qcnt_pos_of_mem (l : List QNode) (q : QNode) (h : q ∈ l) : 1 ≤ qcnt q.sess l := by
  induction l with
  | nil => cases h
  | cons a t ih =>
    rw [qcnt_cons]
    cases h with
    | head => simp
    | tail _ h' => have := ih h'; omega

theorem exists_of_sref_pos (st : State) (c : Nat) (h : 1 ≤ sref st c) : ∃ s, st.sess c = some s ∧ 1 ≤ s.ref := by
  unfold sref at h
  cases hs : st.sess c with
  | none => rw [hs] at h; simp at h
  | some s => rw [hs] at h; exact ⟨s, rfl, h⟩

/-- under the invariant, a session with an observer entry exists and is referenced -/
theorem RefInv.observed {st : State} (h : RefInv st) : ∀ y ∈ st.res, ∀ o ∈ y.subs, ∃ s, st.sess o.sess = some s ∧ 1 ≤ s.ref := by
  intro y hy o ho
  apply exists_of_sref_pos
  have h1 := h o.sess
  rw [getSess_ref, entriesOf_eq] at h1
  have h2 := cnt_pos_of_mem y.subs o ho
  have h3 := cnt_le_entriesL o.sess st.res y hy
  omega

/-- under the invariant, a session with a queued Confirmable notification exists and is referenced -/
theorem RefInv.queued {st : State} (h : RefInv st) : ∀ q ∈ st.sendq, ∃ s, st.sess q.sess = some s ∧ 1 ≤ s.ref := by
  intro q hq
  apply exists_of_sref_pos
  have h1 := h q.sess
  rw [getSess_ref, nodesOf_eq] at h1
  have h2 := qcnt_pos_of_mem st.sendq q hq
  omega

/-- the session stays alive while it has observers: after ANY event sequence -/
theorem session_alive_while_observed (st : State) (evs : List Event) (hid : IdsNodup st) (h : RefInv st) :
    ∀ y ∈ (run st evs).1.res, ∀ o ∈ y.subs, ∃ s, (run st evs).1.sess o.sess = some s ∧ 1 ≤ s.ref :=
  (run_refInv st evs hid h).observed

theorem session_alive_while_queued (st : State) (evs : List Event) (hid : IdsNodup st) (h : RefInv st) :
    ∀ q ∈ (run st evs).1.sendq, ∃ s, (run st evs).1.sess q.sess = some s ∧ 1 ≤ s.ref :=
  (run_refInv st evs hid h).queued

theorem reclaim_keeps_of_ref {st : State} {c : Nat} {s : Sess} (hs : st.sess c = some s) (hr : 1 ≤ s.ref) :
    (reclaim st).sess c = st.sess c := by
  unfold reclaim; dsimp only
  rw [hs]; dsimp only
  rw [if_neg]
  intro h0; omega

/-- the idle-session reclaim of coap_io_prepare_io never frees a session that has an observer entry -/
theorem reclaim_keeps_observed (st : State) (h : RefInv st) : ∀ y ∈ st.res, ∀ o ∈ y.subs, (reclaim st).sess o.sess = st.sess o.sess := by
  intro y hy o ho
  obtain ⟨s, hs, hr⟩ := h.observed y hy o ho
  exact reclaim_keeps_of_ref hs hr

theorem reclaim_keeps_queued (st : State) (h : RefInv st) : ∀ q ∈ st.sendq, (reclaim st).sess q.sess = st.sess q.sess := by
  intro q hq
  obtain ⟨s, hs, hr⟩ := h.queued q hq
  exact reclaim_keeps_of_ref hs hr

/-- from the initial state: all in one -/
theorem init_session_alive (res : List Res) (stTicks : Nat) (hs : ∀ y ∈ res, y.subs = []) (hn : (res.map (·.id)).Nodup)
    (evs : List Event) :
    RefInv (run (init res stTicks) evs).1 ∧
    (∀ y ∈ (run (init res stTicks) evs).1.res, ∀ o ∈ y.subs, ∃ s, (run (init res stTicks) evs).1.sess o.sess = some s ∧ 1 ≤ s.ref) ∧
    (∀ q ∈ (run (init res stTicks) evs).1.sendq, ∃ s, (run (init res stTicks) evs).1.sess q.sess = some s ∧ 1 ≤ s.ref) :=
  ⟨run_refInv _ evs hn (init_refInv res stTicks hs), session_alive_while_observed _ evs hn (init_refInv res stTicks hs),
   session_alive_while_queued _ evs hn (init_refInv res stTicks hs)⟩

/-! ### the hypotheses are satisfiable, the statement is not vacuous -/
example : IdsNodup (init [mkRes 0 false false 5, mkRes 1 true false 7] 30000) := by
  unfold IdsNodup resIds; decide

example : ∀ y ∈ [mkRes 0 false false 5, mkRes 1 true false 7], y.subs = [] := by decide

example :
    let st := (run (init [mkRes 0 false false 5, mkRes 1 true false 7] 30000)
      [.reg 0 0 1 0 true 1, .reg 1 1 2 0 false 7, .chg 1, .adv 0]).1
    (getSess st 1).ref = entriesOf st 1 + nodesOf st 1 ∧ entriesOf st 1 = 1 ∧ nodesOf st 1 = 1 ∧ (getSess st 1).ref = 2 ∧
    (getSess st 0).ref = 1 ∧ entriesOf st 0 = 1 ∧ nodesOf st 0 = 0 := by
  decide

end Coap.Observe
