import CoapVerif.Lemmas.OscoreCbor
/- Helper lemmas for C14: libcoap's nonce construction (buffer writes) is the §5.2 nonce; the nonce is injective in
(kid, Partial IV) for Partial IVs in minimal-length encoding; `pivBytes` is the minimal-length encoding. -/
namespace Coap
open Coap.Spec.Crypto Coap.Spec.Oscore

/-! ### buffer writes -/
section Writes
open Coap.M.Oscore

theorem writeAt_zero : ∀ (ds old post : Bytes), old.length = ds.length → writeAt (old ++ post) 0 ds = ds ++ post := by
  intro ds
  induction ds with
  | nil =>
    intro old post h
    have : old = [] := List.eq_nil_of_length_eq_zero h
    subst this
    cases post <;> rfl
  | cons d ds ih =>
    intro old post h
    cases old with
    | nil => simp at h
    | cons o old =>
      simp only [List.length_cons, Nat.add_right_cancel_iff] at h
      simp only [List.cons_append, writeAt, ih old post h]

theorem writeAt_append (pre old post ds : Bytes) (h : old.length = ds.length) :
    writeAt (pre ++ (old ++ post)) pre.length ds = pre ++ (ds ++ post) := by
  induction pre with
  | nil => simpa using writeAt_zero ds old post h
  | cons b pre ih => simp only [List.cons_append, List.length_cons, writeAt, ih]

theorem xorLoop_eq_xorKs : ∀ (a ks : Bytes), a.length ≤ ks.length → xorLoop a ks = xorKs a ks := by
  intro a
  induction a with
  | nil => intro ks _; cases ks <;> rfl
  | cons x a ih =>
    intro ks h
    cases ks with
    | nil => simp at h
    | cons k ks =>
      simp only [List.length_cons, Nat.add_le_add_iff_right] at h
      simp only [xorLoop, xorKs, ih ks h]

theorem noncePlain_length (kid piv : Bytes) (hk : kid.length ≤ 7) (hp : piv.length ≤ 5) : (noncePlain kid piv).length = 13 := by
  simp [noncePlain, leftPad]; omega

/-- the two `memcpy`s into the zeroed 13-byte buffer produce |kid| ‖ kid left-padded to 7 ‖ piv left-padded to 5 -/
theorem nonce_buffer (kid piv : Bytes) (hk : kid.length ≤ 7) (hp : piv.length ≤ 5) :
    writeAt (writeAt (UInt8.ofNat (kid.length % 256) :: List.replicate 12 0) (8 - kid.length) kid) (13 - piv.length) piv =
      noncePlain kid piv := by
  have hmod : kid.length % 256 = kid.length := Nat.mod_eq_of_lt (by omega)
  have e12 : List.replicate 12 (0 : UInt8) =
      List.replicate (7 - kid.length) 0 ++ (List.replicate kid.length 0 ++ List.replicate 5 0) := by
    rw [List.replicate_append_replicate, List.replicate_append_replicate]; congr 1; omega
  have e5 : List.replicate 5 (0 : UInt8) = List.replicate (5 - piv.length) 0 ++ (List.replicate piv.length 0 ++ []) := by
    rw [List.append_nil, List.replicate_append_replicate]; congr 1; omega
  have s1 : UInt8.ofNat kid.length :: List.replicate 12 0 =
      (UInt8.ofNat kid.length :: List.replicate (7 - kid.length) 0) ++ (List.replicate kid.length 0 ++ List.replicate 5 0) := by
    rw [e12]; rfl
  have l1 : 8 - kid.length = (UInt8.ofNat kid.length :: List.replicate (7 - kid.length) (0 : UInt8)).length := by
    simp; omega
  rw [hmod, s1, l1, writeAt_append _ _ _ _ (by simp)]
  have s2 : (UInt8.ofNat kid.length :: List.replicate (7 - kid.length) 0) ++ (kid ++ List.replicate 5 0) =
      ((UInt8.ofNat kid.length :: List.replicate (7 - kid.length) 0) ++ (kid ++ List.replicate (5 - piv.length) 0)) ++
        (List.replicate piv.length 0 ++ []) := by
    rw [e5]; simp
  have l2 : 13 - piv.length =
      ((UInt8.ofNat kid.length :: List.replicate (7 - kid.length) 0) ++ (kid ++ List.replicate (5 - piv.length) 0)).length := by
    simp; omega
  rw [s2, l2, writeAt_append _ _ _ _ (by simp)]
  simp [noncePlain, leftPad]

/-- **M = S for the nonce**: `oscore_generate_nonce` (M) computes the §5.2 nonce (S), for every Sender ID of at most
7 bytes (nonce length − 6), every Partial IV of at most 5 bytes and every Common IV of at least 13 bytes. -/
theorem generateNonce_eq (civ kid piv : Bytes) (hk : kid.length ≤ 7) (hp : piv.length ≤ 5) (hc : 13 ≤ civ.length) :
    generateNonce civ kid piv = R.ok (nonce civ kid piv) := by
  have h1 : ¬ kid.length > 8 := by omega
  have h2 : ¬ piv.length > 13 := by omega
  have h3 : ¬ civ.length < 13 := by omega
  simp only [generateNonce, h1, h2, h3, if_false, nonce_buffer kid piv hk hp]
  rw [xorLoop_eq_xorKs _ _ (by rw [noncePlain_length kid piv hk hp]; exact hc)]
  rfl

end Writes

/-! ### minimal-length Partial IVs -/

/-- what libcoap's sender guarantees of a Partial IV (`coap_encode_var_safe8` of the sequence number, 0 ↦ one zero
byte): it is not empty and has no leading zero byte, except that the value 0 is the single byte 0x00 -/
def pivMinimal (p : Bytes) : Bool :=
  match p with
  | [] => false
  | [_] => true
  | b :: _ :: _ => b != 0

theorem replicate_append_minimal (k : Nat) (p q : Bytes) (hq : pivMinimal q = true) (hp : p ≠ [])
    (h : List.replicate k (0 : UInt8) ++ p = q) : k = 0 := by
  cases k with
  | zero => rfl
  | succ k =>
    subst h
    rw [List.replicate_succ] at hq
    cases hr : List.replicate k (0 : UInt8) ++ p with
    | nil => simp [hp] at hr
    | cons c r => simp [hr, pivMinimal] at hq

/-- left-padding keeps minimal-length encodings of different lengths apart -/
theorem leftPad_minimal_inj (k : Nat) (p q : Bytes) (hp : p.length ≤ k) (hq : q.length ≤ k)
    (mp : pivMinimal p = true) (mq : pivMinimal q = true) (h : leftPad k p = leftPad k q) : p = q := by
  have np : p ≠ [] := by intro e; subst e; simp [pivMinimal] at mp
  have nq : q ≠ [] := by intro e; subst e; simp [pivMinimal] at mq
  unfold leftPad at h
  rcases Nat.lt_trichotomy p.length q.length with hl | hl | hl
  · -- q is longer: its head would be one of p's padding zeros
    have e : k - p.length = (k - q.length) + (q.length - p.length) := by omega
    rw [e, ← List.replicate_append_replicate, List.append_assoc] at h
    have := replicate_append_minimal _ p q mq np (List.append_cancel_left h)
    omega
  · rw [hl] at h; exact List.append_cancel_left h
  · have e : k - q.length = (k - p.length) + (p.length - q.length) := by omega
    rw [e, ← List.replicate_append_replicate, List.append_assoc] at h
    have := replicate_append_minimal _ q p mp nq (List.append_cancel_left h).symm
    omega

/-- **The nonce determines Sender ID and Partial IV**: nonces built from the same Common IV are equal only if the
ids are equal and the (minimal-length) Partial IVs are equal — of whatever lengths. -/
theorem nonce_inj (civ kid kid' piv piv' : Bytes) (hk : kid.length ≤ 7) (hk' : kid'.length ≤ 7)
    (hp : piv.length ≤ 5) (hp' : piv'.length ≤ 5) (mp : pivMinimal piv = true) (mp' : pivMinimal piv' = true)
    (h : nonce civ kid piv = nonce civ kid' piv') : kid = kid' ∧ piv = piv' := by
  have h0 := xorKs_inj _ _ _ h
  unfold noncePlain at h0
  injection h0 with hlen hrest
  have hl : kid.length = kid'.length := u8_ofNat_inj (by omega) (by omega) hlen
  have hpad : (leftPad 7 kid).length = (leftPad 7 kid').length := by
    simp [leftPad]; omega
  obtain ⟨ha, hb⟩ := List.append_inj hrest hpad
  unfold leftPad at ha
  rw [hl] at ha
  exact ⟨List.append_cancel_left ha, leftPad_minimal_inj 5 piv piv' hp hp' mp mp' hb⟩

/-! ### `pivBytes` is the minimal-length encoding of a sequence number -/

/-- big-endian value -/
def beVal (b : Bytes) : Nat := b.foldl (fun acc x => acc * 256 + x.toNat) 0

theorem beVal_append_single (b : Bytes) (x : UInt8) : beVal (b ++ [x]) = beVal b * 256 + x.toNat := by
  simp [beVal, List.foldl_append]

theorem beVal_natBE : ∀ (fuel n : Nat), n < 256 ^ fuel → beVal (natBE fuel n) = n := by
  intro fuel
  induction fuel with
  | zero => intro n h; simp at h; subst h; rfl
  | succ f ih =>
    intro n h
    unfold natBE
    by_cases h0 : n = 0
    · simp [h0, beVal]
    · simp only [h0, if_false, beVal_append_single]
      rw [ih (n / 256) (by rw [Nat.pow_succ] at h; omega), UInt8.toNat_ofNat']
      omega

theorem natBE_length : ∀ (fuel k n : Nat), n < 256 ^ k → (natBE fuel n).length ≤ k := by
  intro fuel
  induction fuel with
  | zero => intro k n _; simp [natBE]
  | succ f ih =>
    intro k n h
    unfold natBE
    by_cases h0 : n = 0
    · simp [h0]
    · cases k with
      | zero => simp at h; omega
      | succ k =>
        have := ih k (n / 256) (by rw [Nat.pow_succ] at h; omega)
        simp [h0]; omega

/-- the digits of a non-zero number start with a non-zero digit -/
theorem natBE_head : ∀ (fuel n : Nat), n ≠ 0 → n < 256 ^ fuel → ∃ b r, natBE fuel n = b :: r ∧ b ≠ 0 := by
  intro fuel
  induction fuel with
  | zero => intro n h0 h; simp at h; omega
  | succ f ih =>
    intro n h0 h
    unfold natBE
    simp only [h0, if_false]
    by_cases hq : n / 256 = 0
    · refine ⟨UInt8.ofNat (n % 256), [], ?_, ?_⟩
      · cases f <;> simp [natBE, hq]
      · intro e
        have := congrArg UInt8.toNat e
        rw [UInt8.toNat_ofNat'] at this
        simp at this
        omega
    · obtain ⟨b, r, e, hb⟩ := ih (n / 256) hq (by rw [Nat.pow_succ] at h; omega)
      exact ⟨b, r ++ [UInt8.ofNat (n % 256)], by rw [e]; rfl, hb⟩

theorem pivBytes_minimal (n : Nat) (h : n < 2 ^ 64) : pivMinimal (pivBytes n) = true := by
  unfold pivBytes
  by_cases h0 : n = 0
  · simp [h0, pivMinimal]
  · simp only [h0, if_false]
    obtain ⟨b, r, e, hb⟩ := natBE_head 8 n h0 (by omega)
    rw [e]
    cases r <;> simp [pivMinimal, hb]

theorem pivBytes_length (n : Nat) (h : n < 2 ^ 40) : (pivBytes n).length ≤ 5 := by
  unfold pivBytes
  by_cases h0 : n = 0
  · simp [h0]
  · simp only [h0, if_false]
    exact natBE_length 8 5 n (by omega)

theorem beVal_pivBytes (n : Nat) (h : n < 2 ^ 64) : beVal (pivBytes n) = n := by
  unfold pivBytes
  by_cases h0 : n = 0
  · simp [h0, beVal]
  · simp only [h0, if_false]
    exact beVal_natBE 8 n (by omega)

theorem pivBytes_inj (n m : Nat) (hn : n < 2 ^ 64) (hm : m < 2 ^ 64) (h : pivBytes n = pivBytes m) : n = m := by
  rw [← beVal_pivBytes n hn, ← beVal_pivBytes m hm, h]

end Coap
