import CoapVerif.Model.MsgLayer
import CoapVerif.Spec.SendQueue
import CoapVerif.Spec.Timer
/-
Helper definitions and lemmas for C06 (retransmission queue): the abstraction `abs` from the delta-time list of
the code (M, `Coap.SQ`) to the list of absolute deadlines of the property (S, `Coap.Spec.SQ`), one commutation
lemma per queue operation, and the arithmetic of `coap_calc_timeout`.  Core Lean only.
-/
namespace Coap.SQ
open Coap.Spec.SQ (Entry)

/-- the absolute deadlines a delta list stands for, when its head is relative to `b` -/
def absFrom (b : Nat) : List Node → List Entry
  | [] => []
  | n :: r => ⟨b + n.t, n.sess, n.mid, n.tok⟩ :: absFrom (b + n.t) r

/-- the abstraction function M → S -/
def abs (q : Queue) : List Entry := absFrom q.base q.nodes

/-- non-decreasing deadlines -/
def Sorted (l : List Entry) : Prop := l.Pairwise (fun a b => a.deadline ≤ b.deadline)

/-- who a node / an entry is: (session, message id, token) -/
def nodeId (n : Node) : Nat × Nat × Nat := (n.sess, n.mid, n.tok)
def entryId (e : Entry) : Nat × Nat × Nat := (e.sess, e.mid, e.tok)

theorem absFrom_base_eq {b b' : Nat} (h : b = b') (l : List Node) : absFrom b l = absFrom b' l := by
  subst h; rfl

theorem absFrom_ge (b : Nat) (l : List Node) : ∀ e ∈ absFrom b l, b ≤ e.deadline := by
  induction l generalizing b with
  | nil => simp [absFrom]
  | cons n r ih =>
    intro e he
    simp only [absFrom, List.mem_cons] at he
    rcases he with rfl | he
    · simp
    · have := ih _ e he; omega

theorem absFrom_sorted (b : Nat) (l : List Node) : Sorted (absFrom b l) := by
  induction l generalizing b with
  | nil => simp [absFrom, Sorted]
  | cons n r ih =>
    simp only [absFrom, Sorted, List.pairwise_cons]
    exact ⟨fun e he => absFrom_ge _ _ e he, ih _⟩

theorem abs_sorted (q : Queue) : Sorted (abs q) := absFrom_sorted _ _

theorem absFrom_eq_nil {b : Nat} {l : List Node} : absFrom b l = [] ↔ l = [] := by
  cases l <;> simp [absFrom]

theorem absFrom_length (b : Nat) (l : List Node) : (absFrom b l).length = l.length := by
  induction l generalizing b with
  | nil => rfl
  | cons n r ih => simp [absFrom, ih]

/-! ### insert -/

theorem absFrom_insertAfter (b : Nat) (l : List Node) (n : Node) :
    absFrom b (insertAfter l n) = Spec.SQ.insert (absFrom b l) ⟨b + n.t, n.sess, n.mid, n.tok⟩ := by
  induction l generalizing b n with
  | nil => simp [insertAfter, absFrom, Spec.SQ.insert]
  | cons q r ih =>
    by_cases h : q.t ≤ n.t
    · have e1 : b + q.t + (n.t - q.t) = b + n.t := by omega
      simp [insertAfter, h, absFrom, Spec.SQ.insert, ih, e1]
    · have e1 : b + n.t + (q.t - n.t) = b + q.t := by omega
      simp [insertAfter, h, absFrom, Spec.SQ.insert, e1]

theorem insertNode_eq_insertAfter (l : List Node) (n : Node) : insertNode l n = insertAfter l n := by
  cases l with
  | nil => rfl
  | cons q r =>
    by_cases h : q.t ≤ n.t
    · have h' : ¬ n.t < q.t := by omega
      simp [insertNode, insertAfter, h, h']
    · have h' : n.t < q.t := by omega
      simp [insertNode, insertAfter, h, h']

theorem absFrom_insertNode (b : Nat) (l : List Node) (n : Node) :
    absFrom b (insertNode l n) = Spec.SQ.insert (absFrom b l) ⟨b + n.t, n.sess, n.mid, n.tok⟩ := by
  rw [insertNode_eq_insertAfter]; exact absFrom_insertAfter b l n

/-! ### pop -/

/-- what `popNext` returns, seen through the abstraction -/
def absPop (b : Nat) : Option (Node × List Node) → Option (Entry × List Entry)
  | none => none
  | some (n, r) => some (⟨b + n.t, n.sess, n.mid, n.tok⟩, absFrom b r)

theorem absPop_popNext (b : Nat) (l : List Node) : absPop b (popNext l) = Spec.SQ.pop (absFrom b l) := by
  rcases l with _ | ⟨n, _ | ⟨q, r⟩⟩
  · rfl
  · rfl
  · have e1 : b + (q.t + n.t) = b + n.t + q.t := by omega
    simp [popNext, absPop, absFrom, Spec.SQ.pop, e1]

/-- the successor inherits the removed node's relative time: nobody else's deadline moves -/
theorem absFrom_inherit (b : Nat) (n : Node) (r : List Node) :
    absFrom b (match r with
      | [] => []
      | q :: r' => { q with t := q.t + n.t } :: r') = absFrom (b + n.t) r := by
  rcases r with _ | ⟨q, r'⟩
  · rfl
  · have e1 : b + (q.t + n.t) = b + n.t + q.t := by omega
    simp [absFrom, e1]

/-! ### remove -/

theorem removeNode_rest (b : Nat) (l : List Node) (s id : Nat) :
    absFrom b (removeNode l s id).2 = (Spec.SQ.remove (absFrom b l) s id).2 := by
  induction l generalizing b with
  | nil => rfl
  | cons n r ih =>
    by_cases h : n.sess = s ∧ n.mid = id
    · rcases r with _ | ⟨q, r'⟩
      · simp [removeNode, h, absFrom, Spec.SQ.remove]
      · have e1 : b + (q.t + n.t) = b + n.t + q.t := by omega
        simp [removeNode, h, absFrom, Spec.SQ.remove, e1]
    · rcases hr : removeNode r s id with ⟨res, r'⟩
      have := ih (b + n.t)
      rw [hr] at this
      simp only [removeNode, h, if_false, hr, absFrom, Spec.SQ.remove]
      simp [this]

theorem removeNode_found (b : Nat) (l : List Node) (s id : Nat) :
    (removeNode l s id).1.map nodeId = (Spec.SQ.remove (absFrom b l) s id).1.map entryId := by
  induction l generalizing b with
  | nil => rfl
  | cons n r ih =>
    by_cases h : n.sess = s ∧ n.mid = id
    · rcases r with _ | ⟨q, r'⟩
      · simp [removeNode, h, absFrom, Spec.SQ.remove, nodeId, entryId]
      · simp [removeNode, h, absFrom, Spec.SQ.remove, nodeId, entryId]
    · rcases hr : removeNode r s id with ⟨res, r'⟩
      have := ih (b + n.t)
      rw [hr] at this
      simp only [removeNode, h, if_false, hr, absFrom, Spec.SQ.remove]
      simpa using this

theorem removeTok_rest (b : Nat) (l : List Node) (s tok : Nat) :
    absFrom b (removeTok l s tok).2 = (Spec.SQ.removeTok (absFrom b l) s tok).2 := by
  induction l generalizing b with
  | nil => rfl
  | cons n r ih =>
    by_cases h : n.sess = s ∧ n.tok = tok
    · rcases r with _ | ⟨q, r'⟩
      · simp [removeTok, h, absFrom, Spec.SQ.removeTok]
      · have e1 : b + (q.t + n.t) = b + n.t + q.t := by omega
        simp [removeTok, h, absFrom, Spec.SQ.removeTok, e1]
    · rcases hr : removeTok r s tok with ⟨res, r'⟩
      have := ih (b + n.t)
      rw [hr] at this
      simp only [removeTok, h, if_false, hr, absFrom, Spec.SQ.removeTok]
      simp [this]

theorem removeTok_found (b : Nat) (l : List Node) (s tok : Nat) :
    (removeTok l s tok).1.map nodeId = (Spec.SQ.removeTok (absFrom b l) s tok).1.map entryId := by
  induction l generalizing b with
  | nil => rfl
  | cons n r ih =>
    by_cases h : n.sess = s ∧ n.tok = tok
    · rcases r with _ | ⟨q, r'⟩
      · simp [removeTok, h, absFrom, Spec.SQ.removeTok, nodeId, entryId]
      · simp [removeTok, h, absFrom, Spec.SQ.removeTok, nodeId, entryId]
    · rcases hr : removeTok r s tok with ⟨res, r'⟩
      have := ih (b + n.t)
      rw [hr] at this
      simp only [removeTok, h, if_false, hr, absFrom, Spec.SQ.removeTok]
      simpa using this

/-! ### cancel session -/

theorem cancelAux_rest (b : Nat) (l : List Node) (s carry : Nat) :
    absFrom b (cancelSessionAux l s carry).2 = (absFrom (b + carry) l).filter (fun e => ¬ e.sess = s) := by
  induction l generalizing b carry with
  | nil => rfl
  | cons n r ih =>
    by_cases h : n.sess = s
    · rcases hr : cancelSessionAux r s (n.t + carry) with ⟨gone, rest⟩
      have := ih b (n.t + carry)
      rw [hr] at this
      have e1 : b + (n.t + carry) = b + carry + n.t := by omega
      simp only [cancelSessionAux, h, if_true, hr, absFrom]
      simp [this, e1]
    · rcases hr : cancelSessionAux r s 0 with ⟨gone, rest⟩
      have := ih (b + (n.t + carry)) 0
      rw [hr] at this
      have e1 : b + (n.t + carry) = b + carry + n.t := by omega
      simp only [cancelSessionAux, h, if_false, hr, absFrom]
      simp [e1] at this
      simp [this, e1, h]

theorem cancelAux_gone (b : Nat) (l : List Node) (s carry : Nat) :
    (cancelSessionAux l s carry).1.map nodeId = ((absFrom b l).filter (fun e => e.sess = s)).map entryId := by
  induction l generalizing b carry with
  | nil => rfl
  | cons n r ih =>
    by_cases h : n.sess = s
    · rcases hr : cancelSessionAux r s (n.t + carry) with ⟨gone, rest⟩
      have := ih (b + n.t) (n.t + carry)
      rw [hr] at this
      simp only [cancelSessionAux, h, if_true, hr, absFrom]
      simp at this
      simp [this, nodeId, entryId]
    · rcases hr : cancelSessionAux r s 0 with ⟨gone, rest⟩
      have := ih (b + n.t) 0
      rw [hr] at this
      simp only [cancelSessionAux, h, if_false, hr, absFrom]
      simp at this
      simp [this, h]

theorem cancelSession_rest (b : Nat) (l : List Node) (s : Nat) :
    absFrom b (cancelSession l s).2 = (Spec.SQ.cancelSession (absFrom b l) s).2 := by
  have := cancelAux_rest b l s 0
  simpa [cancelSession, Spec.SQ.cancelSession] using this

theorem cancelSession_gone (b : Nat) (l : List Node) (s : Nat) :
    (cancelSession l s).1.map nodeId = (Spec.SQ.cancelSession (absFrom b l) s).1.map entryId := by
  have := cancelAux_gone b l s 0
  simpa [cancelSession, Spec.SQ.cancelSession] using this

/-! ### adjust base time -/

theorem adjust_id_of_ge (l : List Entry) (now : Nat) (h : ∀ e ∈ l, now ≤ e.deadline) :
    Spec.SQ.adjust l now = l := by
  induction l with
  | nil => rfl
  | cons x r ih =>
    have hx := h x (by simp)
    have hr := ih (fun e he => h e (by simp [he]))
    simp only [Spec.SQ.adjust, List.map_cons] at hr ⊢
    rw [hr, Nat.max_eq_left hx]

theorem abs_adjust_backward (q : Queue) (now : Nat) (h : now ≤ q.base ∨ q.nodes = []) :
    abs (adjustBasetime q now).2 = Spec.SQ.adjust (abs q) now ∧ (adjustBasetime q now).2.base = now := by
  rcases q with ⟨base, nodes⟩
  rcases nodes with _ | ⟨hd, r⟩
  · simp [adjustBasetime, abs, absFrom, Spec.SQ.adjust]
  · have hb : now ≤ base := by simpa using h
    have e1 : now + (hd.t + (base - now)) = base + hd.t := by omega
    rw [adjust_id_of_ge]
    · simp [adjustBasetime, hb, abs, absFrom, e1]
    · intro e he
      have := absFrom_ge _ _ e he
      simp only [] at this
      omega

theorem abs_adjust_backward_same (q : Queue) (now : Nat) (h : now ≤ q.base ∨ q.nodes = []) :
    abs (adjustBasetime q now).2 = abs q := by
  rcases q with ⟨base, nodes⟩
  rcases nodes with _ | ⟨hd, r⟩
  · simp [adjustBasetime, abs, absFrom]
  · have hb : now ≤ base := by simpa using h
    have e1 : now + (hd.t + (base - now)) = base + hd.t := by omega
    simp [adjustBasetime, hb, abs, absFrom, e1]

/-! ### enqueue (coap_wait_ack / coap_retransmit) -/

theorem abs_enqueue (q : Queue) (now delay : Nat) (n : Node) (h : q.nodes = [] ∨ q.base ≤ now) :
    abs (enqueue q now delay n) = Spec.SQ.insert (abs q) ⟨now + delay, n.sess, n.mid, n.tok⟩ := by
  rcases q with ⟨base, nodes⟩
  rcases nodes with _ | ⟨hd, r⟩
  · simp [enqueue, abs, absFrom, Spec.SQ.insert]
  · have hb : base ≤ now := by simpa using h
    have e1 : base + (now - base + delay) = now + delay := by omega
    simp only [enqueue, abs]
    rw [absFrom_insertNode]
    simp [e1]

theorem enqueue_base (q : Queue) (now delay : Nat) (n : Node) :
    (enqueue q now delay n).base = if q.nodes = [] then now else q.base := by
  rcases q with ⟨base, nodes⟩
  rcases nodes with _ | ⟨hd, r⟩ <;> simp [enqueue]

/-! ### coap_calc_timeout -/

theorem qfix_eq (ip fp : Nat) (h : 64 * ip + (64 * fp + 500) / 1000 < 65536) :
    qfix ip fp = 64 * ip + (64 * fp + 500) / 1000 := by
  unfold qfix; exact Nat.mod_eq_of_lt h

theorem inner_eq (F r : Nat) (h : 64 ≤ F) : ((F : Int) - 64) * (r : Int) = (((F - 64) * r : Nat) : Int) := by
  rw [Int.natCast_mul, Int.natCast_sub h]; rfl

theorem calcTimeout_eq (atI atF arfI arfF r : Nat) (hr : r < 256)
    (hA : 64 * atI + (64 * atF + 500) / 1000 < 65536) (hF : 64 * arfI + (64 * arfF + 500) / 1000 < 65536)
    (h1 : 1 ≤ arfI) :
    calcTimeout atI atF arfI arfF r =
      (1000 * (((((qfix arfI arfF - 64) * r + 128) / 256 + 64) * qfix atI atF + 32) / 64) + 32) / 64 := by
  have hA' : qfix atI atF < 65536 := by rw [qfix_eq _ _ hA]; exact hA
  have hF' : qfix arfI arfF < 65536 := by rw [qfix_eq _ _ hF]; exact hF
  have hF64 : 64 ≤ qfix arfI arfF := by rw [qfix_eq _ _ hF]; omega
  unfold calcTimeout
  generalize qfix atI atF = A at *
  generalize qfix arfI arfF = F at *
  simp only []
  rw [inner_eq F r hF64]
  have hX : (F - 64) * r ≤ (F - 64) * 255 := Nat.mul_le_mul_left _ (by omega)
  generalize (F - 64) * r = X at *
  have h1 : (((X : Int) + 128) / 256 % 4294967296).toNat = (X + 128) / 256 := by omega
  rw [h1]
  have hR : (X + 128) / 256 + 64 ≤ F := by omega
  generalize (X + 128) / 256 = R at *
  have hP : (R + 64) * A ≤ 65535 * 65535 := Nat.mul_le_mul (by omega) (by omega)
  rw [Nat.mod_eq_of_lt (show R + 64 < 4294967296 by omega)]
  generalize (R + 64) * A = P at *
  rw [Nat.mod_eq_of_lt (show P < 4294967296 by omega), Nat.mod_eq_of_lt (show P + 32 < 4294967296 by omega)]
  have hQ : (P + 32) / 64 ≤ 67108864 := by omega
  generalize (P + 32) / 64 = Q at *
  rw [Nat.mod_eq_of_lt (show 1000 * Q + 32 < 18446744073709551616 by omega)]
  exact Nat.mod_eq_of_lt (by omega)

theorem calcTimeout_bounds_aux (atI atF arfI arfF r : Nat) (hr : r < 256)
    (hA : 64 * atI + (64 * atF + 500) / 1000 < 65536) (hF : 64 * arfI + (64 * arfF + 500) / 1000 < 65536)
    (h1 : 1 ≤ arfI) :
    1000 * qfix atI atF ≤ 64 * calcTimeout atI atF arfI arfF r + 32 ∧
    4096 * calcTimeout atI atF arfI arfF r ≤ 1000 * (qfix atI atF * qfix arfI arfF) + 34048 := by
  rw [calcTimeout_eq atI atF arfI arfF r hr hA hF h1]
  have hF64 : 64 ≤ qfix arfI arfF := by rw [qfix_eq _ _ hF]; omega
  generalize qfix atI atF = A at *
  generalize qfix arfI arfF = F at *
  have hX : (F - 64) * r ≤ (F - 64) * 255 := Nat.mul_le_mul_left _ (by omega)
  generalize (F - 64) * r = X at *
  have hR : (X + 128) / 256 + 64 ≤ F := by omega
  generalize (X + 128) / 256 = R at *
  have hP1 : (R + 64) * A ≤ F * A := Nat.mul_le_mul_right _ hR
  have hP2 : 64 * A ≤ (R + 64) * A := Nat.mul_le_mul_right _ (by omega)
  rw [Nat.mul_comm F A] at hP1
  generalize (R + 64) * A = P at *
  generalize A * F = AF at *
  omega

end Coap.SQ

/-! ## message layer: the clock is only moved by `setNow`; one step of `coap_retransmit` -/
namespace Coap.Msg
open Coap.SQ

@[simp] theorem setS_now (l : L) (s : Nat) (se : Sess) : (l.setS s se).now = l.now := rfl
@[simp] theorem emit_now (l : L) (o : Out) : (l.emit o).now = l.now := rfl
@[simp] theorem waitAck_now (l : L) (n : Node) : (waitAck l n).now = l.now := rfl

theorem drain_now (fuel : Nat) (l : L) (s : Nat) : (drain fuel l s).now = l.now := by
  induction fuel generalizing l with
  | zero => rfl
  | succ f ih =>
    simp only [drain]
    split
    · rfl
    · split
      · rfl
      · split
        · rfl
        · rw [ih]; split <;> simp

theorem connected_now (l : L) (s : Nat) : (connected l s).now = l.now := by
  simp [connected, drain_now]

theorem release_now (l : L) (s : Nat) : (release l s).now = l.now := by
  unfold release
  simp only []
  split
  · rfl
  · split
    · simp [connected_now]
    · rfl

theorem retransmit_now (l : L) (n : Node) : (retransmit l n).now = l.now := by
  unfold retransmit
  simp only []
  split
  · split
    · rcases removeNode _ _ _ with ⟨a, b⟩; simp
    · simp
  · split <;> simp [release_now]

theorem dueLoop_now (fuel : Nat) (l : L) : (dueLoop fuel l).now = l.now := by
  induction fuel generalizing l with
  | zero => rfl
  | succ f ih =>
    simp only [dueLoop]
    split
    · rfl
    · split
      · split
        · rfl
        · rw [ih, retransmit_now]
      · rfl

theorem prepareCore_now (l : L) : (prepareCore l).1.now = l.now := by
  unfold prepareCore
  simp only []
  split <;> simp [dueLoop_now]

theorem prepareCore_wait (l : L) : let r := prepareCore l
    ∀ d, Spec.SQ.earliest (abs r.1.q) = some d → r.1.now < d →
      (r.2 ≤ d - r.1.now) ∧ (d - r.1.now < 4294967296 → r.2 = d - r.1.now ∧ 0 < r.2) := by
  intro r d
  simp only [r]
  unfold prepareCore
  generalize dueLoop (dueFuel l) l = l'
  rcases l' with ⟨now, ⟨base, nodes⟩, sess, out⟩
  rcases nodes with _ | ⟨h, rest⟩
  · simp [abs, absFrom, Spec.SQ.earliest]
  · simp only [abs, absFrom, Spec.SQ.earliest, Option.some.injEq]
    intro hd hlt
    subst hd
    by_cases hb : now ≥ base
    · simp only [hb, if_true]
      refine ⟨?_, fun h32 => ?_⟩
      · omega
      · omega
    · simp only [hb, if_false]
      refine ⟨?_, fun h32 => ?_⟩
      · omega
      · omega

theorem retransmit_resend (l : L) (n : Node)
    (hc : n.cnt < (l.getS n.sess).maxRtx) (hest : (l.getS n.sess).est = true)
    (hroom : (l.getS n.sess).conActive - 1 < (l.getS n.sess).nstart)
    (h8 : n.cnt + 1 < 256) (h64 : n.timeout * 2 ^ (n.cnt + 1) < 2 ^ 64)
    (hq : l.q.nodes = [] ∨ l.q.base ≤ l.now) :
    (retransmit l n).out = Out.tx l.now n.sess n.mid (n.cnt + 1) n.con :: l.out ∧
    abs (retransmit l n).q =
      Spec.SQ.insert (abs l.q) ⟨l.now + n.timeout * 2 ^ (n.cnt + 1), n.sess, n.mid, n.tok⟩ ∧
    (retransmit l n).q = enqueue l.q l.now (n.timeout * 2 ^ (n.cnt + 1)) { n with cnt := n.cnt + 1 } := by
  have hg : gate { (l.getS n.sess) with conActive := (l.getS n.sess).conActive - 1 } n.con = false := by
    simp only [gate, hest]
    have : ¬ ((l.getS n.sess).conActive - 1 ≥ (l.getS n.sess).nstart) := by omega
    simp [this]
  have hm : (n.cnt + 1) % 256 = n.cnt + 1 := Nat.mod_eq_of_lt h8
  have hd : n.timeout * 2 ^ (n.cnt + 1) % 18446744073709551616 = n.timeout * 2 ^ (n.cnt + 1) :=
    Nat.mod_eq_of_lt h64
  have hq' : (retransmit l n).q = enqueue l.q l.now (n.timeout * 2 ^ (n.cnt + 1)) { n with cnt := n.cnt + 1 } := by
    unfold retransmit
    simp only [hc, if_true, hm, hd, hg]
    simp [L.setS, L.emit]
  refine ⟨?_, ?_, hq'⟩
  · unfold retransmit
    simp only [hc, if_true, hm, hd, hg]
    simp [L.setS, L.emit]
  · rw [hq', abs_enqueue _ _ _ _ hq]

theorem retransmit_giveup (l : L) (n : Node) (hc : (l.getS n.sess).maxRtx ≤ n.cnt) (hcon : n.con = true) :
    (retransmit l n).out = Out.nack l.now n.sess .retries n.mid true :: (release l n.sess).out ∧
    (retransmit l n).q = (release l n.sess).q := by
  have hc' : ¬ n.cnt < (l.getS n.sess).maxRtx := by omega
  unfold retransmit
  simp [hc', hcon, L.emit, release_now]

end Coap.Msg

namespace Coap.Msg
open Coap.SQ

/-! ### the base time never runs ahead of the clock -/

/-- `sendqueue_basetime ≤ now`: the precondition under which the time arithmetic of `coap_wait_ack` /
`coap_retransmit` is exact (`abs_enqueue`) -/
def BaseOk (l : L) : Prop := l.q.base ≤ l.now

theorem enqueue_base_le {q : Queue} {now : Nat} (delay : Nat) (n : Node) (h : q.base ≤ now) :
    (enqueue q now delay n).base ≤ now := by
  rw [enqueue_base]; split <;> omega

theorem baseOk_setS {l : L} (s : Nat) (se : Sess) (h : BaseOk l) : BaseOk (l.setS s se) := h
theorem baseOk_emit {l : L} (o : Out) (h : BaseOk l) : BaseOk (l.emit o) := h
theorem baseOk_waitAck {l : L} (n : Node) (h : BaseOk l) : BaseOk (waitAck l n) := enqueue_base_le _ _ h
theorem baseOk_nodes {l : L} (r : List Node) (h : BaseOk l) : BaseOk { l with q := { l.q with nodes := r } } := h

theorem baseOk_drain (fuel : Nat) (l : L) (s : Nat) (h : BaseOk l) : BaseOk (drain fuel l s) := by
  induction fuel generalizing l with
  | zero => exact h
  | succ f ih =>
    simp only [drain]
    split
    · exact h
    · split
      · exact h
      · split
        · exact h
        · apply ih
          split
          · exact baseOk_waitAck _ (baseOk_emit _ (baseOk_setS _ _ h))
          · exact baseOk_emit _ (baseOk_setS _ _ h)

theorem baseOk_connected (l : L) (s : Nat) (h : BaseOk l) : BaseOk (connected l s) :=
  baseOk_drain _ _ _ (baseOk_setS _ _ h)

theorem baseOk_release (l : L) (s : Nat) (h : BaseOk l) : BaseOk (release l s) := by
  unfold release
  simp only []
  split
  · exact h
  · split
    · exact baseOk_connected _ _ (baseOk_setS _ _ h)
    · exact baseOk_setS _ _ h

theorem baseOk_submit (l : L) (s : Nat) (con : Bool) (mid r : Nat) (h : BaseOk l) :
    BaseOk (submit l s con mid r) := by
  unfold submit
  simp only []
  split
  · exact h
  · split
    · split
      · exact h
      · exact h
    · split
      · exact baseOk_emit _ (baseOk_waitAck _ (baseOk_setS _ _ (baseOk_emit _ h)))
      · exact h

theorem baseOk_retransmit (l : L) (n : Node) (h : BaseOk l) : BaseOk (retransmit l n) := by
  unfold retransmit
  simp only []
  have he : ∀ d n', BaseOk { l with q := enqueue l.q l.now d n' } := fun d n' => enqueue_base_le d n' h
  split
  · split
    · rcases removeNode _ _ _ with ⟨a, b⟩
      exact baseOk_setS _ _ (baseOk_nodes _ (he _ _))
    · exact baseOk_setS _ _ (baseOk_emit _ (he _ _))
  · split
    · exact baseOk_emit _ (baseOk_release _ _ h)
    · exact baseOk_release _ _ h

theorem baseOk_dueLoop (fuel : Nat) (l : L) (h : BaseOk l) : BaseOk (dueLoop fuel l) := by
  induction fuel generalizing l with
  | zero => exact h
  | succ f ih =>
    simp only [dueLoop]
    split
    · exact h
    · split
      · split
        · exact h
        · exact ih _ (baseOk_retransmit _ _ (baseOk_nodes _ h))
      · exact h

theorem baseOk_prepareCore (l : L) (h : BaseOk l) : BaseOk (prepareCore l).1 := by
  unfold prepareCore
  simp only []
  split <;> exact baseOk_dueLoop _ _ h

theorem baseOk_prepare (l : L) (h : BaseOk l) : BaseOk (prepare l) := by
  unfold prepare
  rcases hp : prepareCore l with ⟨l', w⟩
  have := baseOk_prepareCore l h
  rw [hp] at this
  exact baseOk_emit _ this

theorem baseOk_rxAck (l : L) (s mid : Nat) (h : BaseOk l) : BaseOk (rxAck l s mid) := by
  unfold rxAck
  rcases removeNode l.q.nodes s mid with ⟨_ | n, rest⟩
  · exact baseOk_nodes _ h
  · exact baseOk_release _ _ (baseOk_nodes _ h)

theorem baseOk_rxRst (l : L) (s mid : Nat) (h : BaseOk l) : BaseOk (rxRst l s mid) := by
  unfold rxRst
  rcases removeNode l.q.nodes s mid with ⟨_ | n, rest⟩
  · exact baseOk_emit _ (baseOk_nodes _ h)
  · simp only []
    split
    · exact baseOk_emit _ (baseOk_release _ _ (baseOk_nodes _ h))
    · exact baseOk_release _ _ (baseOk_nodes _ h)

theorem baseOk_rxBad (l : L) (s mid : Nat) (h : BaseOk l) : BaseOk (rxBad l s mid) := by
  unfold rxBad
  rcases removeNode l.q.nodes s mid with ⟨_ | n, rest⟩
  · exact baseOk_nodes _ h
  · exact baseOk_emit _ (baseOk_release _ _ (baseOk_nodes _ h))

theorem baseOk_cancelToken (fuel : Nat) (l : L) (s tok : Nat) (h : BaseOk l) : BaseOk (cancelToken fuel l s tok) := by
  induction fuel generalizing l with
  | zero => exact h
  | succ f ih =>
    simp only [cancelToken]
    rcases removeTok l.q.nodes s tok with ⟨_ | n, rest⟩
    · exact h
    · simp only []
      apply ih
      split
      · exact baseOk_release _ _ (baseOk_nodes _ h)
      · exact baseOk_nodes _ h

theorem baseOk_rxNon (l : L) (s mid tok : Nat) (h : BaseOk l) : BaseOk (rxNon l s mid tok) :=
  baseOk_emit _ (baseOk_cancelToken _ _ _ _ h)

theorem baseOk_nackAll (l : L) (s : Nat) (r : Reason) (ns : List Node) (h : BaseOk l) : BaseOk (nackAll l s r ns) := by
  induction ns generalizing l with
  | nil => exact h
  | cons n ns ih =>
    simp only [nackAll]
    apply ih
    split
    · exact baseOk_emit _ h
    · exact h

theorem baseOk_disconnect (l : L) (s : Nat) (h : BaseOk l) : BaseOk (disconnect l s) := by
  unfold disconnect
  simp only []
  rcases cancelSession _ _ with ⟨gone, rest⟩
  simp only []
  apply baseOk_setS
  apply baseOk_nackAll
  apply baseOk_nodes
  apply baseOk_setS
  have h1 : BaseOk (match l.q.nodes.find? (fun n => n.sess = s) with
      | some n => l.emit (.nack l.now s .undeliv n.mid true)
      | none => l) := by
    split
    · exact baseOk_emit _ h
    · exact h
  have h2 := baseOk_nackAll _ s .undeliv (l.getS s).delayq h1
  split
  · exact h2
  · exact baseOk_emit _ h2

/-- time does not run backward -/
def Mono (l : L) : List Ev → Prop
  | [] => True
  | ev :: evs => (match ev with | .setNow t => l.now ≤ t | _ => True) ∧ Mono (step l ev) evs

theorem baseOk_step (l : L) (ev : Ev) (h : BaseOk l)
    (hm : match ev with | .setNow t => l.now ≤ t | _ => True) : BaseOk (step l ev) := by
  cases ev with
  | setNow t => exact Nat.le_trans h hm
  | submit s con mid r => exact baseOk_submit _ _ _ _ _ h
  | prepare => exact baseOk_prepare _ h
  | rxAck s mid =>
    simp only [step, afterRx]; split
    · exact baseOk_prepareCore _ (baseOk_rxAck _ _ _ h)
    · exact h
  | rxRst s mid =>
    simp only [step, afterRx]; split
    · exact baseOk_prepareCore _ (baseOk_rxRst _ _ _ h)
    · exact h
  | rxNon s mid tok =>
    simp only [step, afterRx]; split
    · exact baseOk_prepareCore _ (baseOk_rxNon _ _ _ _ h)
    · exact h
  | rxBad s mid =>
    simp only [step, afterRx]; split
    · exact baseOk_prepareCore _ (baseOk_rxBad _ _ _ h)
    · exact h
  | hold s => exact h
  | connect s => exact baseOk_connected _ _ h
  | disconnect s =>
    simp only [step]; split
    · exact baseOk_disconnect _ _ h
    · exact h

theorem baseOk_run (evs : List Ev) (l : L) (h : BaseOk l) (hm : Mono l evs) : BaseOk (run l evs) := by
  induction evs generalizing l with
  | nil => exact h
  | cons ev evs ih => exact ih _ (baseOk_step l ev h hm.1) hm.2

end Coap.Msg

namespace Coap.Msg
open Coap.SQ

theorem prepareCore_fst (l : L) : (prepareCore l).1 = dueLoop (dueFuel l) l := by
  unfold prepareCore
  simp only []
  split <;> rfl

theorem dueLoop_not_due (fuel : Nat) (l : L)
    (h : ∀ d, Spec.SQ.earliest (abs l.q) = some d → l.now < d) : dueLoop fuel l = l := by
  cases fuel with
  | zero => rfl
  | succ f =>
    rcases l with ⟨now, ⟨base, nodes⟩, sess, out⟩
    rcases nodes with _ | ⟨hd, r⟩
    · rfl
    · have := h (base + hd.t) (by simp [abs, absFrom, Spec.SQ.earliest])
      simp only [] at this
      have hc : ¬ (now ≥ base ∧ hd.t ≤ now - base) := by omega
      simp only [dueLoop, hc, if_false]

theorem dueLoop_due (f : Nat) (l : L) (hd : Node) (r : List Node) (hn : l.q.nodes = hd :: r)
    (hb : l.q.base ≤ l.now) (hdue : l.q.base + hd.t ≤ l.now) :
    ∃ rest, popNext l.q.nodes = some (hd, rest) ∧ absFrom l.q.base rest = absFrom (l.q.base + hd.t) r ∧
      dueLoop (f + 1) l = dueLoop f (retransmit { l with q := { l.q with nodes := rest } } hd) := by
  rcases l with ⟨now, ⟨base, nodes⟩, sess, out⟩
  simp only [] at hn hb hdue
  subst hn
  have hc : now ≥ base ∧ hd.t ≤ now - base := by omega
  rcases r with _ | ⟨q, r'⟩
  · exact ⟨[], rfl, rfl, by simp [dueLoop, hc, popNext]⟩
  · refine ⟨{ q with t := q.t + hd.t } :: r', rfl, ?_, by simp [dueLoop, hc, popNext]⟩
    have e1 : base + (q.t + hd.t) = base + hd.t + q.t := by omega
    simp [absFrom, e1]

end Coap.Msg

/-! ## S-level timer system (definitions in CoapVerif/Spec/Timer.lean) -/
namespace Coap.Timer
open Coap.Spec.SQ (sched)

/-! ### lemmas -/

theorem sched_succ (t0 T k : Nat) : sched t0 T (k + 1) = sched t0 T k + T * 2 ^ k := by
  unfold sched
  have hp : 1 ≤ 2 ^ k := Nat.one_le_two_pow
  obtain ⟨q, hq⟩ : ∃ q, 2 ^ k = q + 1 := ⟨2 ^ k - 1, by omega⟩
  rw [Nat.pow_succ, hq]
  have e1 : (q + 1) * 2 - 1 = q + (q + 1) := by omega
  rw [e1, Nat.add_sub_cancel, Nat.add_mul, Nat.mul_comm T (q + 1)]
  omega

theorem mem_pinsert {l : List (Nat × PMsg)} {e p : Nat × PMsg} : p ∈ pinsert l e ↔ p = e ∨ p ∈ l := by
  induction l with
  | nil => simp [pinsert]
  | cons x r ih =>
    by_cases h : x.1 ≤ e.1
    · simp only [pinsert, h, if_true, List.mem_cons, ih]
      constructor
      · rintro (h | h | h) <;> simp [h]
      · rintro (h | h | h) <;> simp [h]
    · simp [pinsert, h]

theorem mem_premove {l : List (Nat × PMsg)} {s mid : Nat} {p : Nat × PMsg} :
    p ∈ (premove l s mid).2 → p ∈ l := by
  induction l with
  | nil => simp [premove]
  | cons x r ih =>
    by_cases h : x.2.sess = s ∧ x.2.mid = mid
    · simp only [premove, h, and_self, if_true]
      intro hp; exact List.mem_cons_of_mem _ hp
    · rcases hr : premove r s mid with ⟨res, r'⟩
      rw [hr] at ih
      simp only [premove, h, if_false, hr, List.mem_cons]
      rintro (h | h)
      · exact Or.inl h
      · exact Or.inr (ih h)

/-- the schedule invariant -/
def TInv (ts : TS) : Prop :=
  (∀ p ∈ ts.pend, p.1 = sched p.2.t0 p.2.T (p.2.cnt + 1) ∧ p.2.cnt ≤ p.2.maxRtx ∧ 0 < p.2.T) ∧
  (∀ t s mid k t0 T mx, TOut.tx t s mid k t0 T mx ∈ ts.outs → t = sched t0 T k ∧ k ≤ mx)

def Future (ts : TS) : Prop := ∀ p ∈ ts.pend, ts.now ≤ p.1

theorem fire_inv (fuel : Nat) (ts : TS) (hi : TInv ts) (hf : Future ts) :
    TInv (fire fuel ts) ∧ Future (fire fuel ts) := by
  induction fuel generalizing ts with
  | zero => exact ⟨hi, hf⟩
  | succ f ih =>
    rcases ts with ⟨now, pend, outs⟩
    rcases pend with _ | ⟨⟨d, m⟩, r⟩
    · exact ⟨hi, hf⟩
    · simp only [fire]
      have hhd := hi.1 (d, m) (by simp)
      have hdf : now ≤ d := hf (d, m) (by simp)
      simp only [] at hhd hdf
      by_cases hd : d ≤ now
      · have hdn : d = now := by omega
        simp only [hd, if_true]
        by_cases hc : m.cnt < m.maxRtx
        · simp only [hc, if_true]
          apply ih
          · constructor
            · intro p hp
              rcases mem_pinsert.1 hp with rfl | hp
              · simp only []
                refine ⟨?_, by omega, hhd.2.2⟩
                rw [sched_succ, ← hhd.1, hdn]
              · exact hi.1 p (List.mem_cons_of_mem _ hp)
            · intro t s mid k t0 T mx ho
              simp only [List.mem_cons] at ho
              rcases ho with ho | ho
              · injection ho with h1 h2 h3 h4 h5 h6 h7
                subst h1 h2 h3 h4 h5 h6 h7
                exact ⟨by rw [← hhd.1, hdn], by omega⟩
              · exact hi.2 _ _ _ _ _ _ _ ho
          · intro p hp
            rcases mem_pinsert.1 hp with rfl | hp
            · simp only []; omega
            · exact hf p (List.mem_cons_of_mem _ hp)
        · simp only [hc, if_false]
          apply ih
          · constructor
            · intro p hp; exact hi.1 p (List.mem_cons_of_mem _ hp)
            · intro t s mid k t0 T mx ho
              simp only [List.mem_cons] at ho
              rcases ho with ho | ho
              · cases ho
              · exact hi.2 _ _ _ _ _ _ _ ho
          · intro p hp; exact hf p (List.mem_cons_of_mem _ hp)
      · simp only [hd, if_false]
        exact ⟨hi, hf⟩

theorem step_inv (ts : TS) (ev : TEv) (hi : TInv ts) (hok : EvOk ts ev) : TInv (step ts ev) := by
  cases ev with
  | send s mid T mx =>
    simp only [step]
    constructor
    · intro p hp
      rcases mem_pinsert.1 hp with rfl | hp
      · simp only []
        refine ⟨?_, Nat.zero_le _, hok⟩
        simp [sched]
      · exact hi.1 p hp
    · intro t s' mid' k t0 T' mx' ho
      simp only [List.mem_cons] at ho
      rcases ho with ho | ho
      · injection ho with h1 h2 h3 h4 h5 h6 h7
        subst h1 h2 h3 h4 h5 h6 h7
        simp [sched]
      · exact hi.2 _ _ _ _ _ _ _ ho
  | tick now' =>
    simp only [step]
    split
    · exact (fire_inv _ { ts with now := now' } hi hok).1
    · exact hi
  | tickN now' k =>
    simp only [step]
    split
    · exact (fire_inv _ { ts with now := now' } hi hok).1
    · exact hi
  | ack s mid =>
    simp only [step]
    rcases hr : premove ts.pend s mid with ⟨_ | m, r⟩
    · exact hi
    · simp only []
      constructor
      · intro p hp
        have : p ∈ (premove ts.pend s mid).2 := by rw [hr]; exact hp
        exact hi.1 p (mem_premove this)
      · intro t s' mid' k t0 T' mx' ho
        simp only [List.mem_cons] at ho
        rcases ho with ho | ho
        · cases ho
        · exact hi.2 _ _ _ _ _ _ _ ho
  | rst s mid =>
    simp only [step]
    rcases hr : premove ts.pend s mid with ⟨_ | m, r⟩
    · exact hi
    · simp only []
      constructor
      · intro p hp
        have : p ∈ (premove ts.pend s mid).2 := by rw [hr]; exact hp
        exact hi.1 p (mem_premove this)
      · intro t s' mid' k t0 T' mx' ho
        simp only [List.mem_cons] at ho
        rcases ho with ho | ho
        · cases ho
        · exact hi.2 _ _ _ _ _ _ _ ho

theorem run_inv (evs : List TEv) (ts : TS) (hi : TInv ts) (hok : RunOk ts evs) : TInv (run ts evs) := by
  induction evs generalizing ts with
  | nil => exact hi
  | cons ev evs ih => exact ih _ (step_inv ts ev hi hok.1) hok.2

/-! ### conservation: every send ends in exactly one outcome or is still pending -/

/-- number of pending entries of (s, mid) -/
def pc (s mid : Nat) : List (Nat × PMsg) → Nat
  | [] => 0
  | p :: r => (if p.2.sess = s ∧ p.2.mid = mid then 1 else 0) + pc s mid r

/-- 1 if the output is an outcome (acked, NACK rst, NACK retries) of (s, mid) -/
def outW (s mid : Nat) : TOut → Nat
  | .tx .. => 0
  | .nackRetries _ s' m' => if s' = s ∧ m' = mid then 1 else 0
  | .nackRst _ s' m' => if s' = s ∧ m' = mid then 1 else 0
  | .acked _ s' m' => if s' = s ∧ m' = mid then 1 else 0

/-- number of outcomes of (s, mid) -/
def oc (s mid : Nat) : List TOut → Nat
  | [] => 0
  | o :: r => outW s mid o + oc s mid r

def sendW (s mid : Nat) : TEv → Nat
  | .send s' m' _ _ => if s' = s ∧ m' = mid then 1 else 0
  | _ => 0

/-- number of sends of (s, mid) -/
def sc (s mid : Nat) : List TEv → Nat
  | [] => 0
  | e :: r => sendW s mid e + sc s mid r

theorem pc_pinsert (s mid : Nat) (l : List (Nat × PMsg)) (e : Nat × PMsg) :
    pc s mid (pinsert l e) = (if e.2.sess = s ∧ e.2.mid = mid then 1 else 0) + pc s mid l := by
  induction l with
  | nil => simp [pinsert, pc]
  | cons x r ih =>
    by_cases h : x.1 ≤ e.1
    · simp only [pinsert, h, if_true, pc, ih]; omega
    · simp only [pinsert, h, if_false, pc]

theorem pc_premove (s mid s' m' : Nat) (l : List (Nat × PMsg)) :
    pc s mid l = pc s mid (premove l s' m').2 +
      (match (premove l s' m').1 with
        | some _ => if s' = s ∧ m' = mid then 1 else 0
        | none => 0) := by
  induction l with
  | nil => simp [premove, pc]
  | cons x r ih =>
    by_cases h : x.2.sess = s' ∧ x.2.mid = m'
    · simp only [premove, h, and_self, if_true, pc]
      omega
    · rcases hr : premove r s' m' with ⟨res, r'⟩
      rw [hr] at ih
      simp only [premove, h, if_false, hr, pc]
      simp only [] at ih
      omega

theorem fire_conserve (s mid fuel : Nat) (ts : TS) :
    oc s mid (fire fuel ts).outs + pc s mid (fire fuel ts).pend = oc s mid ts.outs + pc s mid ts.pend := by
  induction fuel generalizing ts with
  | zero => rfl
  | succ f ih =>
    rcases ts with ⟨now, pend, outs⟩
    rcases pend with _ | ⟨⟨d, m⟩, r⟩
    · rfl
    · simp only [fire]
      by_cases hd : d ≤ now
      · simp only [hd, if_true]
        by_cases hc : m.cnt < m.maxRtx
        · simp only [hc, if_true]
          rw [ih]
          simp only [oc, outW, pc, pc_pinsert]
          omega
        · simp only [hc, if_false]
          rw [ih]
          simp only [oc, outW, pc]
          omega
      · simp only [hd, if_false]

theorem step_conserve (s mid : Nat) (ts : TS) (ev : TEv) :
    oc s mid (step ts ev).outs + pc s mid (step ts ev).pend =
      sendW s mid ev + (oc s mid ts.outs + pc s mid ts.pend) := by
  cases ev with
  | send s' m' T mx =>
    simp only [step, oc, outW, pc_pinsert, sendW]
    omega
  | tick now' =>
    simp only [step, sendW]
    split
    · rw [fire_conserve]; simp
    · simp
  | tickN now' k =>
    simp only [step, sendW]
    split
    · rw [fire_conserve]; simp
    · simp
  | ack s' m' =>
    have := pc_premove s mid s' m' ts.pend
    simp only [step, sendW]
    rcases hr : premove ts.pend s' m' with ⟨_ | m, r⟩
    · rw [hr] at this
      simp only [] at this ⊢
      omega
    · rw [hr] at this
      simp only [oc, outW] at this ⊢
      omega
  | rst s' m' =>
    have := pc_premove s mid s' m' ts.pend
    simp only [step, sendW]
    rcases hr : premove ts.pend s' m' with ⟨_ | m, r⟩
    · rw [hr] at this
      simp only [] at this ⊢
      omega
    · rw [hr] at this
      simp only [oc, outW] at this ⊢
      omega

theorem run_conserve (s mid : Nat) (evs : List TEv) (ts : TS) :
    oc s mid (run ts evs).outs + pc s mid (run ts evs).pend =
      sc s mid evs + (oc s mid ts.outs + pc s mid ts.pend) := by
  induction evs generalizing ts with
  | nil => simp [run, sc]
  | cons ev evs ih =>
    have h1 := ih (step ts ev)
    have h2 := step_conserve s mid ts ev
    simp only [run, List.foldl_cons, sc] at h1 ⊢
    omega

/-! ### a retransmission is only ever emitted for a message that is pending -/

theorem fire_tx_pending (fuel : Nat) (ts : TS) :
    ∃ new, (fire fuel ts).outs = new ++ ts.outs ∧
      ∀ t s mid k t0 T mx, TOut.tx t s mid k t0 T mx ∈ new →
        1 ≤ k ∧ ∃ p ∈ ts.pend, p.2.sess = s ∧ p.2.mid = mid := by
  induction fuel generalizing ts with
  | zero => exact ⟨[], rfl, by simp⟩
  | succ f ih =>
    rcases ts with ⟨now, pend, outs⟩
    rcases pend with _ | ⟨⟨d, m⟩, r⟩
    · exact ⟨[], rfl, by simp⟩
    · simp only [fire]
      by_cases hd : d ≤ now
      · simp only [hd, if_true]
        by_cases hc : m.cnt < m.maxRtx
        · simp only [hc, if_true]
          obtain ⟨new, hnew, hall⟩ := ih
            { now := now, pend := pinsert r (now + m.T * 2 ^ (m.cnt + 1), { m with cnt := m.cnt + 1 }),
              outs := .tx now m.sess m.mid (m.cnt + 1) m.t0 m.T m.maxRtx :: outs }
          refine ⟨new ++ [.tx now m.sess m.mid (m.cnt + 1) m.t0 m.T m.maxRtx], by simp [hnew], ?_⟩
          intro t s mid k t0 T mx ho
          simp only [List.mem_append, List.mem_singleton] at ho
          rcases ho with ho | ho
          · obtain ⟨hk, p, hp, hkey⟩ := hall _ _ _ _ _ _ _ ho
            refine ⟨hk, ?_⟩
            rcases mem_pinsert.1 hp with rfl | hp
            · exact ⟨(d, m), by simp, hkey⟩
            · exact ⟨p, by simp [hp], hkey⟩
          · injection ho with h1 h2 h3 h4 h5 h6 h7
            subst h1 h2 h3 h4 h5 h6 h7
            exact ⟨by omega, (d, m), by simp, rfl, rfl⟩
        · simp only [hc, if_false]
          obtain ⟨new, hnew, hall⟩ := ih
            { now := now, pend := r, outs := .nackRetries now m.sess m.mid :: outs }
          refine ⟨new ++ [.nackRetries now m.sess m.mid], by simp [hnew], ?_⟩
          intro t s mid k t0 T mx ho
          simp only [List.mem_append, List.mem_singleton] at ho
          rcases ho with ho | ho
          · obtain ⟨hk, p, hp, hkey⟩ := hall _ _ _ _ _ _ _ ho
            exact ⟨hk, p, by simp [hp], hkey⟩
          · cases ho
      · simp only [hd, if_false]
        exact ⟨[], rfl, by simp⟩

theorem step_tx_pending (ts : TS) (ev : TEv) (hns : ∀ s mid T mx, ev ≠ .send s mid T mx) :
    ∃ new, (step ts ev).outs = new ++ ts.outs ∧
      ∀ t s mid k t0 T mx, TOut.tx t s mid k t0 T mx ∈ new →
        1 ≤ k ∧ ∃ p ∈ ts.pend, p.2.sess = s ∧ p.2.mid = mid := by
  cases ev with
  | send s mid T mx => exact absurd rfl (hns s mid T mx)
  | tick now' =>
    simp only [step]
    split
    · exact fire_tx_pending _ { ts with now := now' }
    · exact ⟨[], rfl, by simp⟩
  | tickN now' k =>
    simp only [step]
    split
    · exact fire_tx_pending _ { ts with now := now' }
    · exact ⟨[], rfl, by simp⟩
  | ack s mid =>
    simp only [step]
    rcases premove ts.pend s mid with ⟨_ | m, r⟩
    · exact ⟨[], rfl, by simp⟩
    · exact ⟨[.acked ts.now s mid], rfl, by simp⟩
  | rst s mid =>
    simp only [step]
    rcases premove ts.pend s mid with ⟨_ | m, r⟩
    · exact ⟨[], rfl, by simp⟩
    · exact ⟨[.nackRst ts.now s mid], rfl, by simp⟩


/-! ### nothing that is due is left behind by a tick -/

def SortedP (l : List (Nat × PMsg)) : Prop := l.Pairwise (fun a b => a.1 ≤ b.1)

/-- pending list ordered by deadline, every timeout positive -/
def Good (ts : TS) : Prop := SortedP ts.pend ∧ ∀ p ∈ ts.pend, 0 < p.2.T

def SendPos : TEv → Prop
  | .send _ _ T _ => 0 < T
  | _ => True

theorem pinsert_sorted {l : List (Nat × PMsg)} (e : Nat × PMsg) (h : SortedP l) : SortedP (pinsert l e) := by
  induction l with
  | nil => simp [pinsert, SortedP]
  | cons x r ih =>
    simp only [SortedP, List.pairwise_cons] at h
    by_cases hx : x.1 ≤ e.1
    · simp only [pinsert, hx, if_true, SortedP, List.pairwise_cons]
      refine ⟨?_, ih h.2⟩
      intro y hy
      rcases mem_pinsert.1 hy with rfl | hy
      · exact hx
      · exact h.1 y hy
    · simp only [pinsert, hx, if_false, SortedP, List.pairwise_cons]
      refine ⟨?_, h⟩
      intro y hy
      simp only [List.mem_cons] at hy
      rcases hy with rfl | hy
      · omega
      · have := h.1 y hy; omega

theorem premove_sorted {l : List (Nat × PMsg)} (s mid : Nat) (h : SortedP l) : SortedP (premove l s mid).2 := by
  induction l with
  | nil => simp [premove, SortedP]
  | cons x r ih =>
    simp only [SortedP, List.pairwise_cons] at h
    by_cases hx : x.2.sess = s ∧ x.2.mid = mid
    · simp only [premove, hx, and_self, if_true]; exact h.2
    · have hm := @mem_premove r s mid
      have ih' := ih h.2
      rcases hr : premove r s mid with ⟨res, r'⟩
      rw [hr] at hm ih'
      simp only [premove, hx, if_false, hr, SortedP, List.pairwise_cons]
      exact ⟨fun y hy => h.1 y (hm hy), ih'⟩

/-- number of entries that are due at `now` -/
def dc (now : Nat) : List (Nat × PMsg) → Nat
  | [] => 0
  | p :: r => (if p.1 ≤ now then 1 else 0) + dc now r

theorem dc_pinsert (now : Nat) (l : List (Nat × PMsg)) (e : Nat × PMsg) :
    dc now (pinsert l e) = (if e.1 ≤ now then 1 else 0) + dc now l := by
  induction l with
  | nil => simp [pinsert, dc]
  | cons x r ih =>
    by_cases h : x.1 ≤ e.1
    · simp only [pinsert, h, if_true, dc, ih]; omega
    · simp only [pinsert, h, if_false, dc]

theorem dc_le_length (now : Nat) (l : List (Nat × PMsg)) : dc now l ≤ l.length := by
  induction l with
  | nil => simp [dc]
  | cons x r ih => simp only [dc, List.length_cons]; split <;> omega

theorem length_le_tickFuel (ts : TS) : ts.pend.length ≤ tickFuel ts := by
  unfold tickFuel
  induction ts.pend with
  | nil => simp
  | cons x r ih => simp only [List.length_cons, List.map_cons, List.sum_cons]; omega

theorem fire_now (fuel : Nat) (ts : TS) : (fire fuel ts).now = ts.now := by
  induction fuel generalizing ts with
  | zero => rfl
  | succ f ih =>
    rcases ts with ⟨now, pend, outs⟩
    rcases pend with _ | ⟨⟨d, m⟩, r⟩
    · rfl
    · simp only [fire]
      split
      · split <;> rw [ih]
      · rfl

theorem fire_complete (fuel : Nat) (ts : TS) (hg : Good ts) (hf : dc ts.now ts.pend ≤ fuel) :
    Good (fire fuel ts) ∧ ∀ p ∈ (fire fuel ts).pend, ts.now < p.1 := by
  induction fuel generalizing ts with
  | zero =>
    refine ⟨hg, ?_⟩
    rcases ts with ⟨now, pend, outs⟩
    simp only [fire]
    simp only [] at hf
    clear hg
    induction pend with
    | nil => simp
    | cons x r ih =>
      simp only [dc] at hf
      intro p hp
      simp only [List.mem_cons] at hp
      rcases hp with rfl | hp
      · by_cases hx : p.1 ≤ now
        · simp [hx] at hf
        · omega
      · exact ih (by omega) p hp
  | succ f ih =>
    rcases ts with ⟨now, pend, outs⟩
    rcases pend with _ | ⟨⟨d, m⟩, r⟩
    · exact ⟨hg, by simp [fire]⟩
    · have hs := hg.1
      simp only [SortedP, List.pairwise_cons] at hs
      have hT := hg.2
      simp only [fire]
      simp only [dc] at hf
      by_cases hd : d ≤ now
      · simp only [hd, if_true] at hf ⊢
        by_cases hc : m.cnt < m.maxRtx
        · simp only [hc, if_true]
          have hTm : 0 < m.T := hT (d, m) (by simp)
          have hpos : 0 < m.T * 2 ^ (m.cnt + 1) := Nat.mul_pos hTm (Nat.two_pow_pos _)
          apply ih
          · refine ⟨pinsert_sorted _ hs.2, ?_⟩
            intro p hp
            rcases mem_pinsert.1 hp with rfl | hp
            · exact hTm
            · exact hT p (List.mem_cons_of_mem _ hp)
          · simp only [dc_pinsert]
            have : ¬ (now + m.T * 2 ^ (m.cnt + 1) ≤ now) := by omega
            simp only [this, if_false]
            omega
        · simp only [hc, if_false]
          apply ih
          · exact ⟨hs.2, fun p hp => hT p (List.mem_cons_of_mem _ hp)⟩
          · show dc now r ≤ f; omega
      · simp only [hd, if_false]
        refine ⟨hg, ?_⟩
        intro p hp
        simp only [List.mem_cons] at hp
        rcases hp with rfl | hp
        · show now < d; omega
        · have : d ≤ p.1 := hs.1 p hp; omega

/-- firing any number of due entries keeps the pending list ordered with positive timeouts -/
theorem fire_good (fuel : Nat) (ts : TS) (hg : Good ts) : Good (fire fuel ts) := by
  induction fuel generalizing ts with
  | zero => exact hg
  | succ f ih =>
    rcases ts with ⟨now, pend, outs⟩
    rcases pend with _ | ⟨⟨d, m⟩, r⟩
    · exact hg
    · simp only [fire]
      have hs : SortedP r := (List.pairwise_cons.mp hg.1).2
      have hr : ∀ p ∈ r, 0 < p.2.T := fun p hp => hg.2 p (List.mem_cons_of_mem _ hp)
      have hm : 0 < m.T := hg.2 (d, m) (by simp)
      split
      · split
        · apply ih
          refine ⟨pinsert_sorted _ hs, ?_⟩
          intro p hp
          rcases mem_pinsert.1 hp with rfl | hp
          · exact hm
          · exact hr p hp
        · exact ih _ ⟨hs, hr⟩
      · exact hg

theorem step_good (ts : TS) (ev : TEv) (hg : Good ts) (hp : SendPos ev) : Good (step ts ev) := by
  cases ev with
  | send s mid T mx =>
    simp only [step]
    refine ⟨pinsert_sorted _ hg.1, ?_⟩
    intro p hp'
    rcases mem_pinsert.1 hp' with rfl | hp'
    · exact hp
    · exact hg.2 p hp'
  | tick now' =>
    simp only [step]
    split
    · exact (fire_complete _ { ts with now := now' } hg
        (Nat.le_trans (dc_le_length _ _) (length_le_tickFuel ts))).1
    · exact hg
  | tickN now' k =>
    simp only [step]
    split
    · exact fire_good _ { ts with now := now' } hg
    · exact hg
  | ack s mid =>
    have h1 := premove_sorted s mid hg.1
    have h2 := @mem_premove ts.pend s mid
    simp only [step]
    rcases hr : premove ts.pend s mid with ⟨_ | m, r⟩
    · exact hg
    · rw [hr] at h1 h2
      exact ⟨h1, fun p hp' => hg.2 p (h2 hp')⟩
  | rst s mid =>
    have h1 := premove_sorted s mid hg.1
    have h2 := @mem_premove ts.pend s mid
    simp only [step]
    rcases hr : premove ts.pend s mid with ⟨_ | m, r⟩
    · exact hg
    · rw [hr] at h1 h2
      exact ⟨h1, fun p hp' => hg.2 p (h2 hp')⟩

theorem run_good (evs : List TEv) (ts : TS) (hg : Good ts) (hp : ∀ ev ∈ evs, SendPos ev) : Good (run ts evs) := by
  induction evs generalizing ts with
  | nil => exact hg
  | cons ev evs ih =>
    exact ih _ (step_good ts ev hg (hp ev (by simp))) (fun e he => hp e (by simp [he]))

theorem tick_complete (ts : TS) (now' : Nat) (hg : Good ts) (h : ts.now ≤ now') :
    (step ts (.tick now')).now = now' ∧ ∀ p ∈ (step ts (.tick now')).pend, now' < p.1 := by
  simp only [step, h, if_true]
  exact ⟨fire_now _ _, (fire_complete _ { ts with now := now' } hg
    (Nat.le_trans (dc_le_length _ _) (length_le_tickFuel ts))).2⟩

theorem runOk_sendPos (evs : List TEv) (ts : TS) (h : RunOk ts evs) : ∀ ev ∈ evs, SendPos ev := by
  induction evs generalizing ts with
  | nil => simp
  | cons ev evs ih =>
    intro e he
    simp only [List.mem_cons] at he
    rcases he with rfl | he
    · have := h.1
      cases e <;> simp_all [EvOk, SendPos]
    · exact ih _ h.2 e he

end Coap.Timer

/-! ## M level: one confirmable message on an idle endpoint, closed form -/
namespace Coap.Msg
open Coap.SQ
open Coap.Spec.SQ (sched)

/-! ### one confirmable message on an otherwise idle endpoint, closed form -/

def soloNode (mid T k : Nat) : Node :=
  { sess := 0, mid := mid, t := T * 2 ^ k, timeout := T, cnt := k, tok := mid, con := true }

/-- the state right after the `k`-th retransmission (made at `N`), outputs `o` -/
def soloL (se : Sess) (N T mid k : Nat) (o : List Out) : L :=
  { now := N, q := { base := N, nodes := [soloNode mid T k] }, sess := [{ se with conActive := 1 }], out := o }

theorem retransmit_solo (se : Sess) (N B T mid k : Nat) (o : List Out)
    (hest : se.est = true) (hns : 1 ≤ se.nstart) (hk : k < se.maxRtx) (h8 : k + 1 < 256)
    (h64 : T * 2 ^ (k + 1) < 2 ^ 64) :
    retransmit { now := N, q := { base := B, nodes := [] }, sess := [{ se with conActive := 1 }], out := o }
      (soloNode mid T k) = soloL se N T mid (k + 1) (.tx N 0 mid (k + 1) true :: o) := by
  have hm : (k + 1) % 256 = k + 1 := Nat.mod_eq_of_lt h8
  have hd : T * 2 ^ (k + 1) % 18446744073709551616 = T * 2 ^ (k + 1) := Nat.mod_eq_of_lt h64
  have hn : ¬ (0 ≥ se.nstart) := by omega
  simp [retransmit, soloNode, soloL, L.getS, L.setS, L.emit, gate, enqueue, hk, hm, hd, hest, hn]

theorem sched_le_succ (t0 T k : Nat) : sched t0 T k ≤ sched t0 T (k + 1) := by
  rw [Coap.Timer.sched_succ]; omega

/-- outputs (newest first) after the `k`-th retransmission -/
def soloOut (t0 T mid : Nat) : Nat → List Out
  | 0 => [.sub (some mid), .tx t0 0 mid 0 true]
  | k + 1 => .wait (sched t0 T (k + 1)) (T * 2 ^ (k + 1) % 4294967296) ::
      .tx (sched t0 T (k + 1)) 0 mid (k + 1) true :: soloOut t0 T mid k

def soloState (se : Sess) (t0 T mid k : Nat) : L := soloL se (sched t0 T k) T mid k (soloOut t0 T mid k)

/-- `soloL` armed at `B`, clock at `N` -/
def soloAt (se : Sess) (B N T mid k : Nat) (o : List Out) : L :=
  { now := N, q := { base := B, nodes := [soloNode mid T k] }, sess := [{ se with conActive := 1 }], out := o }

def soloPopped (se : Sess) (B N : Nat) (o : List Out) : L :=
  { now := N, q := { base := B, nodes := [] }, sess := [{ se with conActive := 1 }], out := o }

theorem dueLoop_solo (f : Nat) (se : Sess) (B T mid k : Nat) (o : List Out) :
    dueLoop (f + 1) (soloAt se B (B + T * 2 ^ k) T mid k o) =
      dueLoop f (retransmit (soloPopped se B (B + T * 2 ^ k) o) (soloNode mid T k)) := by
  have hc : B + T * 2 ^ k ≥ B ∧ T * 2 ^ k ≤ B + T * 2 ^ k - B := by omega
  simp only [dueLoop, soloAt, popNext, soloPopped]
  simp only [soloNode] at hc ⊢
  simp only [hc, and_self, if_true]

theorem prepareCore_solo (se : Sess) (B T mid k : Nat) (o : List Out)
    (hest : se.est = true) (hns : 1 ≤ se.nstart) (hT : 0 < T) (hk : k < se.maxRtx) (h8 : k + 1 < 256)
    (h64 : T * 2 ^ (k + 1) < 2 ^ 64) :
    prepareCore (soloAt se B (B + T * 2 ^ k) T mid k o) =
      (soloL se (B + T * 2 ^ k) T mid (k + 1) (.tx (B + T * 2 ^ k) 0 mid (k + 1) true :: o),
        T * 2 ^ (k + 1) % 4294967296) := by
  have hpos : 0 < T * 2 ^ (k + 1) := Nat.mul_pos hT (Nat.two_pow_pos _)
  have hdl : dueLoop (dueFuel (soloAt se B (B + T * 2 ^ k) T mid k o)) (soloAt se B (B + T * 2 ^ k) T mid k o) =
      soloL se (B + T * 2 ^ k) T mid (k + 1) (.tx (B + T * 2 ^ k) 0 mid (k + 1) true :: o) := by
    obtain ⟨f, hf⟩ : ∃ f, dueFuel (soloAt se B (B + T * 2 ^ k) T mid k o) = f + 1 :=
      ⟨dueFuel (soloAt se B (B + T * 2 ^ k) T mid k o) - 1, by unfold dueFuel; omega⟩
    rw [hf]
    rw [dueLoop_solo]
    unfold soloPopped
    rw [retransmit_solo se _ _ T mid k o hest hns hk h8 h64]
    apply dueLoop_not_due
    intro d hd
    simp only [soloL, soloNode, abs, absFrom, Spec.SQ.earliest, Option.some.injEq] at hd ⊢
    omega
  unfold prepareCore
  simp only []
  rw [hdl]
  simp only [soloL, soloNode]
  have e : (T * 2 ^ (k + 1) - (B + T * 2 ^ k - (B + T * 2 ^ k))) = T * 2 ^ (k + 1) := by omega
  simp only [Nat.le_refl, ge_iff_le, if_true, e]
  have : (T * 2 ^ (k + 1) * 1000 + 999) / 1000 = T * 2 ^ (k + 1) := by omega
  rw [this]

theorem solo_step (se : Sess) (t0 T mid k : Nat)
    (hest : se.est = true) (hns : 1 ≤ se.nstart) (hT : 0 < T) (hk : k < se.maxRtx) (h8 : k + 1 < 256)
    (h64 : T * 2 ^ (k + 1) < 2 ^ 64) :
    step (step (soloState se t0 T mid k) (.setNow (sched t0 T (k + 1)))) .prepare =
      soloState se t0 T mid (k + 1) := by
  have hs := Coap.Timer.sched_succ t0 T k
  have := prepareCore_solo se (sched t0 T k) T mid k (soloOut t0 T mid k) hest hns hT hk h8 h64
  rw [← hs] at this
  have e : step (soloState se t0 T mid k) (.setNow (sched t0 T (k + 1))) =
      soloAt se (sched t0 T k) (sched t0 T (k + 1)) T mid k (soloOut t0 T mid k) := rfl
  rw [e]
  simp only [step, prepare]
  rw [this]
  simp [soloL, L.emit, soloOut, soloState]

theorem calcTimeout_lt (a b c d r : Nat) : calcTimeout a b c d r < 4294967296 := by
  unfold calcTimeout; exact Nat.mod_lt _ (by decide)

/-- an idle endpoint: nothing queued, one session that is established, open, with no CON in flight -/
def soloInit (se : Sess) (t0 B : Nat) : L :=
  { now := t0, q := { base := B, nodes := [] }, sess := [se], out := [] }

theorem submit_solo (se : Sess) (t0 B mid r : Nat) (hopen : se.sockOpen = true) (hest : se.est = true)
    (hca : se.conActive = 0) (hns : 1 ≤ se.nstart) :
    submit (soloInit se t0 B) 0 true mid r =
      soloState se t0 (calcTimeout se.atI se.atF se.arfI se.arfF r) mid 0 := by
  have hlt := calcTimeout_lt se.atI se.atF se.arfI se.arfF r
  have hn : ¬ (0 ≥ se.nstart) := by omega
  have hm := Nat.mod_eq_of_lt hlt
  simp [submit, soloInit, soloState, soloL, soloNode, soloOut, L.getS, L.setS, L.emit, gate, waitAck, enqueue,
    hopen, hest, hca, hn, hm, sched]

/-- the clock is moved exactly to each deadline, then `coap_io_prepare_io` runs -/
def soloEvs (t0 T : Nat) : Nat → List Ev
  | 0 => []
  | k + 1 => soloEvs t0 T k ++ [.setNow (sched t0 T (k + 1)), .prepare]

theorem solo_run (se : Sess) (t0 T mid : Nat) (hest : se.est = true) (hns : 1 ≤ se.nstart) (hT : 0 < T)
    (h8 : se.maxRtx < 256) (h64 : T * 2 ^ se.maxRtx < 2 ^ 64) (k : Nat) (hk : k ≤ se.maxRtx) :
    run (soloState se t0 T mid 0) (soloEvs t0 T k) = soloState se t0 T mid k := by
  induction k with
  | zero => rfl
  | succ k ih =>
    have hle : T * 2 ^ (k + 1) ≤ T * 2 ^ se.maxRtx :=
      Nat.mul_le_mul_left T (Nat.pow_le_pow_right (by decide) hk)
    simp only [soloEvs, run, List.foldl_append, List.foldl_cons, List.foldl_nil]
    have ih' := ih (by omega)
    simp only [run] at ih'
    rw [ih']
    exact solo_step se t0 T mid k hest hns hT (by omega) (by omega) (by omega)

theorem solo_giveup (se : Sess) (t0 T mid : Nat) (hest : se.est = true) (hdq : se.delayq = []) :
    let l := step (step (soloState se t0 T mid se.maxRtx) (.setNow (sched t0 T (se.maxRtx + 1)))) .prepare
    l.out = .wait (sched t0 T (se.maxRtx + 1)) 0 :: .nack (sched t0 T (se.maxRtx + 1)) 0 .retries mid true ::
        soloOut t0 T mid se.maxRtx ∧ l.q.nodes = [] := by
  have hs := Coap.Timer.sched_succ t0 T se.maxRtx
  have e : step (soloState se t0 T mid se.maxRtx) (.setNow (sched t0 T (se.maxRtx + 1))) =
      soloAt se (sched t0 T se.maxRtx) (sched t0 T (se.maxRtx + 1)) T mid se.maxRtx (soloOut t0 T mid se.maxRtx) := rfl
  intro l
  simp only [l]
  rw [e, hs]
  generalize sched t0 T se.maxRtx = B
  generalize soloOut t0 T mid se.maxRtx = o
  obtain ⟨f, hf⟩ : ∃ f, dueFuel (soloAt se B (B + T * 2 ^ se.maxRtx) T mid se.maxRtx o) = f + 1 :=
    ⟨dueFuel (soloAt se B (B + T * 2 ^ se.maxRtx) T mid se.maxRtx o) - 1, by unfold dueFuel; omega⟩
  have hr : retransmit (soloPopped se B (B + T * 2 ^ se.maxRtx) o) (soloNode mid T se.maxRtx) =
      { now := B + T * 2 ^ se.maxRtx, q := { base := B, nodes := [] },
        sess := [{ se with conActive := 0, est := true }],
        out := .nack (B + T * 2 ^ se.maxRtx) 0 .retries mid true :: o } := by
    simp [retransmit, soloPopped, soloNode, L.getS, L.setS, L.emit, release, connected, drain, hest, hdq]
  have hd : dueLoop (f + 1) (soloAt se B (B + T * 2 ^ se.maxRtx) T mid se.maxRtx o) =
      { now := B + T * 2 ^ se.maxRtx, q := { base := B, nodes := [] },
        sess := [{ se with conActive := 0, est := true }],
        out := .nack (B + T * 2 ^ se.maxRtx) 0 .retries mid true :: o } := by
    rw [dueLoop_solo, hr]
    cases f <;> rfl
  simp only [step, prepare, prepareCore, hf, hd]
  simp [L.emit]

theorem soloOut_mem (t0 T mid : Nat) (k j : Nat) (h : j ≤ k) :
    Out.tx (sched t0 T j) 0 mid j true ∈ soloOut t0 T mid k := by
  induction k with
  | zero =>
    have : j = 0 := by omega
    subst this
    simp [soloOut, sched]
  | succ k ih =>
    by_cases hj : j = k + 1
    · subst hj; simp [soloOut]
    · simp only [soloOut, List.mem_cons]
      exact Or.inr (Or.inr (ih (by omega)))

theorem abs_soloState (se : Sess) (t0 T mid k : Nat) :
    abs (soloState se t0 T mid k).q = [⟨sched t0 T (k + 1), 0, mid, mid⟩] := by
  simp [soloState, soloL, soloNode, abs, absFrom, Coap.Timer.sched_succ]

end Coap.Msg

namespace Coap.Msg
open Coap.SQ
open Coap.Spec.SQ (sched)

theorem afterRx_empty (l : L) (h : l.q.nodes = []) : afterRx l = l := by
  unfold afterRx
  rw [prepareCore_fst]
  apply dueLoop_not_due
  intro d hd
  simp [abs, h, absFrom, Spec.SQ.earliest] at hd

/-- the endpoint after the message is gone: idle again -/
def soloDone (se : Sess) (N B : Nat) (o : List Out) : L :=
  { now := N, q := { base := B, nodes := [] }, sess := [{ se with conActive := 0, est := true }], out := o }

theorem solo_rxAck (se : Sess) (t0 T mid k : Nat) (hopen : se.sockOpen = true) (hest : se.est = true)
    (hdq : se.delayq = []) :
    step (soloState se t0 T mid k) (.rxAck 0 mid) =
      soloDone se (sched t0 T k) (sched t0 T k) (soloOut t0 T mid k) := by
  have h1 : rxAck (soloState se t0 T mid k) 0 mid =
      soloDone se (sched t0 T k) (sched t0 T k) (soloOut t0 T mid k) := by
    simp [rxAck, soloState, soloL, soloNode, removeNode, release, connected, drain, L.getS, L.setS, soloDone,
      hest, hdq]
  have h0 : ((soloState se t0 T mid k).getS 0).sockOpen = true := by
    simp [soloState, soloL, L.getS, hopen]
  simp only [step, h0, if_true]
  rw [h1]
  exact afterRx_empty _ rfl

theorem solo_rxRst (se : Sess) (t0 T mid k : Nat) (hopen : se.sockOpen = true) (hest : se.est = true)
    (hdq : se.delayq = []) :
    step (soloState se t0 T mid k) (.rxRst 0 mid) =
      soloDone se (sched t0 T k) (sched t0 T k)
        (.nack (sched t0 T k) 0 .rst mid true :: soloOut t0 T mid k) := by
  have h1 : rxRst (soloState se t0 T mid k) 0 mid =
      soloDone se (sched t0 T k) (sched t0 T k)
        (.nack (sched t0 T k) 0 .rst mid true :: soloOut t0 T mid k) := by
    simp [rxRst, soloState, soloL, soloNode, removeNode, release, connected, drain, L.getS, L.setS, L.emit,
      soloDone, hest, hdq]
  have h0 : ((soloState se t0 T mid k).getS 0).sockOpen = true := by
    simp [soloState, soloL, L.getS, hopen]
  simp only [step, h0, if_true]
  rw [h1]
  exact afterRx_empty _ rfl

/-- once idle, `coap_io_prepare_io` never produces anything for the message again, whatever the time -/
theorem soloDone_quiet (se : Sess) (N B : Nat) (o : List Out) (t : Nat) :
    step (step (soloDone se N B o) (.setNow t)) .prepare = soloDone se t B (.wait t 0 :: o) := by
  have e : step (soloDone se N B o) (.setNow t) = soloDone se t B o := rfl
  rw [e]
  have h := afterRx_empty (soloDone se t B o) rfl
  unfold afterRx at h
  simp only [step, prepare]
  have h2 : prepareCore (soloDone se t B o) = (soloDone se t B o, 0) := by
    have : (prepareCore (soloDone se t B o)).2 = 0 := by
      unfold prepareCore
      simp only []
      rw [← prepareCore_fst, h]
      rfl
    exact Prod.ext h this
  rw [h2]
  rfl

end Coap.Msg
