import CoapVerif.Model.WsReader
import CoapVerif.Lemmas.Parse
/- C05, WebSocket part: what is proved about the WS reader model and the WS specification.
   (Older one-step lemmas; the full correspondence M_ws = S_ws is in Lemmas/StreamWs{Defs,Hs,Frames,Session,Feed}.) -/
namespace Coap
open Coap.M Coap.M.Ws Coap.Spec.Stream.Ws

/-- M, any state: once 159 bytes of a handshake line are buffered without a line end, the next read attempt
fails the handshake — nothing more is read or buffered -/
theorem rdHttpHeader_long_line (mode : Mode) (accept : Bytes) (fuel : Nat) (st : St) (av : Bytes)
    (hup : st.up = false) (hlen : httpCap - 1 ≤ st.httpHdr.length) :
    rdHttpHeader mode accept (fuel + 1) st av = R.rej := by
  have h0 : httpCap - 1 - st.httpHdr.length = 0 := by omega
  simp [rdHttpHeader, hup, h0, fsCap]

theorem readSession_long_line (mode : Mode) (accept : Bytes) (fuel : Nat) (st : St) (av : Bytes)
    (hup : st.up = false) (hlen : httpCap - 1 ≤ st.httpHdr.length) :
    readSession mode accept (fuel + 1) st av = ([], .closed, av) := by
  simp [readSession, wsRead, hup, rdHttpHeader_long_line mode accept _ st av hup hlen]

/-- S: a first line of more than `maxLine` bytes without a line end is refused -/
theorem spec_long_line {σ} (V : Validator σ) (mode : Mode) (bs : Bytes) (hlf : lfIndex bs = none)
    (hlen : maxLine < bs.length) : run V mode bs = ⟨[], false, true⟩ := by
  simp [run, handshake, hlf, hlen]

/-- S: a line end that comes too late is refused as well -/
theorem spec_late_line_end {σ} (V : Validator σ) (mode : Mode) (bs : Bytes) (i : Nat) (hlf : lfIndex bs = some i)
    (hlen : maxLine < i) : run V mode bs = ⟨[], false, true⟩ := by
  simp [run, handshake, hlf, hlen]

/-- S: a frame header declaring more than `maxFrame` bytes closes the session: nothing is delivered from
it or after it (7-bit / 16-bit / 64-bit length forms, masked or not) -/
theorem spec_oversize_frame_closes (mode : Mode) (fuel : Nat) (b0 b1 : UInt8) (r : Bytes)
    (hmask : ¬ (mode = .server ∧ ¬ b1.toNat / 128 = 1))
    (hhdr : ¬ r.length < (if b1.toNat % 128 = 127 then 8 else if b1.toNat % 128 = 126 then 2 else 0) +
        (if b1.toNat / 128 = 1 then 4 else 0))
    (hop : b0.toNat % 16 = 2)
    (hbig : maxFrame < (if (if b1.toNat % 128 = 127 then 8 else if b1.toNat % 128 = 126 then 2 else 0) = 0
        then b1.toNat % 128 else be (r.take (if b1.toNat % 128 = 127 then 8 else if b1.toNat % 128 = 126 then 2 else 0)))) :
    frames mode (fuel + 1) (b0 :: b1 :: r) = ([], true) := by
  simp only [frames]
  rw [if_neg hmask, if_neg hhdr]
  have : ¬ (b0.toNat % 16 ≠ 2) := by omega
  rw [if_neg this, if_pos hbig]

def noLF (l : Bytes) : Prop := ∀ b ∈ l, b ≠ 10

theorem lfIdx_none (l : Bytes) (h : noLF l) : lfIdx l = none := by
  induction l with
  | nil => rfl
  | cons b r ih =>
    have hb : b ≠ 10 := h b (by simp)
    have hr : noLF r := fun x hx => h x (by simp [hx])
    simp only [lfIdx, if_neg hb]
    split
    · rfl
    · rw [ih hr]; rfl

theorem lfIndex_none (l : Bytes) (h : noLF l) : lfIndex l = none := by
  induction l with
  | nil => rfl
  | cons b r ih =>
    have hb : b ≠ 10 := h b (by simp)
    have hr : noLF r := fun x hx => h x (by simp [hx])
    simp only [lfIndex, if_neg hb, ih hr]
    split <;> rfl

/-- strchr(http_hdr, LF) in the model and the line end of the specification (D20) are the same function -/
theorem lfIdx_eq (l : Bytes) : lfIdx l = lfIndex l := by
  induction l with
  | nil => rfl
  | cons b r ih => simp only [lfIdx, lfIndex, ih]

theorem noLF_append {a b : Bytes} (ha : noLF a) (hb : noLF b) : noLF (a ++ b) := by
  intro x hx
  rcases List.mem_append.mp hx with h | h
  · exact ha x h
  · exact hb x h

theorem noLF_take {a : Bytes} (n : Nat) (ha : noLF a) : noLF (a.take n) :=
  fun x hx => ha x (List.mem_of_mem_take hx)

theorem noLF_drop {a : Bytes} (n : Nat) (ha : noLF a) : noLF (a.drop n) :=
  fun x hx => ha x (List.mem_of_mem_drop hx)

theorem lineLoop_noLF (mode : Mode) (accept : Bytes) (fuel : Nat) (st : St) (h : lfIdx st.httpHdr = none) :
    lineLoop mode accept fuel st = .cont st := by
  cases fuel <;> simp [lineLoop, h]

/-- the handshake reader on bytes without a line end: it buffers them (14 at a time) until 159 are in, then fails -/
theorem rdHttp_noLF (mode : Mode) (accept : Bytes) : ∀ (fuel : Nat) (st : St) (av : Bytes),
    st.up = false → noLF st.httpHdr → noLF av → av.length < fuel →
    rdHttpHeader mode accept fuel st av =
      if st.httpHdr.length + av.length < httpCap - 1 then R.ok ({ st with httpHdr := st.httpHdr ++ av }, []) else R.rej := by
  intro fuel
  induction fuel with
  | zero => intro st av _ _ _ h; omega
  | succ f ih =>
    intro st av hup hh hav hf
    obtain ⟨up, H, seen, rdHeader, allHdrIn, maskKey, dataOfs, dataSize, rxData⟩ := st
    simp only at hup hh ⊢
    subst hup
    by_cases hlong : httpCap - 1 ≤ H.length
    · have h0 : httpCap - 1 - H.length = 0 := by omega
      have : ¬ (H.length + av.length < httpCap - 1) := by omega
      simp [rdHttpHeader, h0, fsCap, this]
    · -- room left: read min(14, room) bytes
      generalize hrem : (if httpCap - 1 - H.length > fsCap then fsCap else httpCap - 1 - H.length) = rem
      have hrem_pos : 0 < rem := by
        rw [← hrem]
        by_cases h : httpCap - 1 - H.length > fsCap
        · rw [if_pos h]; simp [fsCap]
        · rw [if_neg h]; omega
      have hrem_le : rem ≤ httpCap - 1 - H.length := by
        rw [← hrem]
        by_cases h : httpCap - 1 - H.length > fsCap
        · rw [if_pos h]; omega
        · rw [if_neg h]; exact Nat.le_refl _
      have hne : ¬ rem = 0 := by omega
      rcases av with _ | ⟨a, av⟩
      · -- nothing available
        have : H.length + ([] : Bytes).length < httpCap - 1 := by simp; omega
        simp only [rdHttpHeader, hrem, if_neg hne, Bool.false_eq_true, if_false, List.take_nil, List.length_nil,
          if_true, List.append_nil]
        have this' : H.length + 0 < httpCap - 1 := by omega
        rw [if_pos this']
      · have hgl : ¬ ((a :: av).take rem).length = 0 := by
          rw [List.length_take]; simp only [List.length_cons]; omega
        have hbuf : ¬ (H ++ (a :: av).take rem).length ≥ httpCap := by
          rw [List.length_append, List.length_take]; simp only [httpCap] at *; omega
        have hno : lfIdx (H ++ (a :: av).take rem) = none :=
          lfIdx_none _ (noLF_append hh (noLF_take rem hav))
        have hll := lineLoop_noLF mode accept ((H ++ (a :: av).take rem).length + 1)
          ⟨false, H ++ (a :: av).take rem, seen, rdHeader, allHdrIn, maskKey, dataOfs, dataSize, rxData⟩ hno
        have hdl : ((a :: av).drop rem).length < f := by
          rw [List.length_drop]; simp only [List.length_cons] at hf ⊢; omega
        have hih := ih ⟨false, H ++ (a :: av).take rem, seen, rdHeader, allHdrIn, maskKey, dataOfs, dataSize, rxData⟩
          ((a :: av).drop rem) rfl (noLF_append hh (noLF_take rem hav)) (noLF_drop rem hav) hdl
        simp only [rdHttpHeader, hrem, if_neg hne, if_neg hgl, if_neg hbuf, hll, Bool.false_eq_true, if_false]
        rw [hih]
        have hlen : (H ++ (a :: av).take rem).length + ((a :: av).drop rem).length = H.length + (a :: av).length := by
          rw [List.length_append, List.length_take, List.length_drop]; omega
        simp only [hlen, List.append_assoc, List.take_append_drop]

/-- the state in which only the first `h` bytes of the handshake have been buffered -/
def hsState (h : Bytes) : St := { httpHdr := h }

theorem readSession_noLF (mode : Mode) (accept : Bytes) (fuel : Nat) (h av : Bytes) (hh : noLF h) (hav : noLF av) :
    readSession mode accept (fuel + 1) (hsState h) av =
      if h.length + av.length < httpCap - 1 then ([], .open (hsState (h ++ av)), []) else ([], .closed, av) := by
  have hr := rdHttp_noLF mode accept (av.length + 2) (hsState h) av rfl hh hav (by omega)
  simp only [hsState] at hr ⊢
  simp only [readSession, wsRead, Bool.not_false, if_true, hr]
  by_cases hlt : h.length + av.length < httpCap - 1
  · simp [hlt]
  · simp [hlt]

theorem feedChunk_noLF (mode : Mode) (accept : Bytes) (fuel idle : Nat) (h av : Bytes) (hh : noLF h) (hav : noLF av)
    (hroom : h.length < httpCap - 1) :
    feedChunk mode accept (fuel + 1) idle (hsState h) av =
      if h.length + av.length < httpCap - 1 then ([], .open (hsState (h ++ av)), false) else ([], .closed, false) := by
  rcases av with _ | ⟨a, av⟩
  · simp [feedChunk, hroom]
  · have hne : ¬ (a :: av).length = 0 := by simp
    simp only [feedChunk, if_neg hne, readSession_noLF mode accept _ h (a :: av) hh hav]
    by_cases hlt : h.length + (a :: av).length < httpCap - 1
    · simp only [if_pos hlt]
      have : ¬ ([] : Bytes).length = (a :: av).length := by simp
      rw [if_neg this]
      cases fuel <;> simp [feedChunk]
    · simp only [if_neg hlt]

/-- every way of delivering bytes that contain no line end to a fresh WS session: they are buffered while
fewer than 159 have arrived, the session is closed by the chunk with which the 159th arrives -/
theorem feed_noLF (mode : Mode) (accept : Bytes) : ∀ (chunks : List Bytes) (h : Bytes), noLF h → noLF chunks.flatten →
    h.length < httpCap - 1 →
    feed mode accept (hsState h) chunks =
      if h.length + chunks.flatten.length < httpCap - 1 then ([], .open (hsState (h ++ chunks.flatten)), false)
      else ([], .closed, false) := by
  intro chunks
  induction chunks with
  | nil => intro h hh _ hroom; simp [feed, hroom]
  | cons c cs ih =>
    intro h hh hfl hroom
    have hc : noLF c := fun x hx => hfl x (by simp [hx])
    have hcs : noLF cs.flatten := fun x hx => hfl x (by simp only [List.flatten_cons, List.mem_append]; exact Or.inr hx)
    have e : 6 * (c.length + 1) = (6 * c.length + 5) + 1 := by omega
    simp only [feed, e, feedChunk_noLF mode accept _ 0 h c hh hc hroom]
    by_cases hlt : h.length + c.length < httpCap - 1
    · simp only [if_pos hlt]
      rw [ih (h ++ c) (noLF_append hh hc) hcs (by rw [List.length_append]; exact hlt)]
      simp only [List.flatten_cons, List.length_append, List.append_assoc, List.nil_append, Nat.add_assoc]
    · simp only [if_neg hlt]
      have : ¬ (h.length + (c :: cs).flatten.length < httpCap - 1) := by
        simp only [List.flatten_cons, List.length_append]; omega
      rw [if_neg this]

end Coap
