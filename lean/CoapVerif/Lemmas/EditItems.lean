import CoapVerif.Lemmas.Edit
/-
M-side lemmas for the editors (C04), part 1: the option iterator on the representing PDU.

`items (conc ms a)` — what `coap_option_iterator_init` + `coap_option_next` deliver on the canonical buffer — is the
abstract option list annotated with offsets and parse results (`absItems`), and the two search loops
(`findInsert`: coap_insert_option, `findEq`: coap_check_option / coap_remove_option) find exactly the split point of
the abstract operations `insertStable`, `removeFirst`, `replaceFirst`.
-/
namespace Coap
open Coap.M

/-- `prev`-relative bound used by `encOpts_app`: number of the last option of `os`, `prev` if there is none -/
def lastD (prev : Nat) (os : List (Nat × Bytes)) : Nat := (os.getLast?.map (·.1)).getD prev

theorem lastD_nil (prev : Nat) : lastD prev [] = prev := rfl
theorem lastD_cons (prev : Nat) (o : Nat × Bytes) (os : List (Nat × Bytes)) : lastD prev (o :: os) = lastD o.1 os :=
  lastNum_cons prev o os
theorem lastNum_eq_lastD (os : List (Nat × Bytes)) : lastNum os = lastD 0 os := rfl

theorem lastD_append_cons (prev : Nat) (pre : List (Nat × Bytes)) (o : Nat × Bytes) (post : List (Nat × Bytes)) :
    lastD prev (pre ++ o :: post) = lastD o.1 post := by
  induction pre generalizing prev with
  | nil => exact lastD_cons prev o post
  | cons p pre ih => rw [List.cons_append, lastD_cons, ih]

theorem encOpts_split (prev : Nat) (pre post : List (Nat × Bytes)) :
    Spec.encOpts prev (pre ++ post) = Spec.encOpts prev pre ++ Spec.encOpts (lastD prev pre) post :=
  encOpts_app prev pre post

/-- options ascending from `prev`, numbers fit 16 bits, values fit the length field (no RFC length table) -/
def optsB : Nat → List (Nat × Bytes) → Prop
  | _, [] => True
  | prev, o :: os => prev ≤ o.1 ∧ o.1 ≤ 65535 ∧ o.2.length ≤ 65804 ∧ optsB o.1 os

theorem optsB_of_sorted (prev : Nat) (os : List (Nat × Bytes)) (hs : os.Pairwise (fun a b => a.1 ≤ b.1))
    (ha : ∀ o ∈ os, prev ≤ o.1 ∧ o.1 ≤ 65535 ∧ o.2.length ≤ 65804) : optsB prev os := by
  induction os generalizing prev with
  | nil => trivial
  | cons o os ih =>
    rw [List.pairwise_cons] at hs
    obtain ⟨a1, a2, a3⟩ := ha o (List.mem_cons_self ..)
    refine ⟨a1, a2, a3, ih o.1 hs.2 ?_⟩
    intro x hx
    obtain ⟨_, b2, b3⟩ := ha x (List.mem_cons_of_mem _ hx)
    exact ⟨hs.1 x hx, b2, b3⟩

theorem optsB_of_shape {a : Msg} (hs : Shape a) : optsB 0 a.opts :=
  optsB_of_sorted 0 a.opts hs.2.1 (fun o ho => ⟨Nat.zero_le _, hs.2.2 o ho⟩)

theorem optsB_mem {prev : Nat} {os : List (Nat × Bytes)} (h : optsB prev os) :
    ∀ o ∈ os, prev ≤ o.1 ∧ o.1 ≤ 65535 ∧ o.2.length ≤ 65804 := by
  induction os generalizing prev with
  | nil => intro o ho; cases ho
  | cons x os ih =>
    obtain ⟨h1, h2, h3, h4⟩ := h
    intro o ho
    rcases List.mem_cons.mp ho with rfl | ho
    · exact ⟨h1, h2, h3⟩
    · obtain ⟨j1, j2⟩ := ih h4 o ho
      exact ⟨by omega, j2⟩

/-- splitting `optsB` at an element -/
theorem optsB_split {prev : Nat} {pre : List (Nat × Bytes)} {o : Nat × Bytes} {post : List (Nat × Bytes)}
    (h : optsB prev (pre ++ o :: post)) :
    optsB prev pre ∧ lastD prev pre ≤ o.1 ∧ o.1 ≤ 65535 ∧ o.2.length ≤ 65804 ∧ optsB o.1 post ∧ prev ≤ lastD prev pre := by
  induction pre generalizing prev with
  | nil => exact ⟨trivial, h.1, h.2.1, h.2.2.1, h.2.2.2, Nat.le_refl _⟩
  | cons p pre ih =>
    obtain ⟨h1, h2, h3, h4⟩ := h
    obtain ⟨i1, i2, i3, i4, i5, i6⟩ := ih h4
    rw [lastD_cons]
    exact ⟨⟨h1, h2, h3, i1⟩, i2, i3, i4, i5, by omega⟩

theorem lastD_le_of_optsB {prev : Nat} {os : List (Nat × Bytes)} (h : optsB prev os) : prev ≤ lastD prev os ∧ lastD prev os ≤ 65535 ∨ os = [] := by
  rcases List.eq_nil_or_concat os with rfl | ⟨init, l, hl⟩
  · right; rfl
  · left
    rw [List.concat_eq_append] at hl
    subst hl
    obtain ⟨_, i2, i3, _, _, i6⟩ := optsB_split h
    rw [lastD_append_cons, lastD_nil]
    omega

/-- what `coap_opt_parse` returns on the canonical encoding of an option -/
theorem optParse_encOpt (d : Nat) (v tail : Bytes) (hd : d ≤ 65535) (hv : v.length ≤ 65804) :
    optParse (Spec.encOpt d v ++ tail) (Spec.encOpt d v ++ tail).length =
      R.ok ⟨d, v.length, 1 + (Spec.extBytes d).length + (Spec.extBytes v.length).length,
            (Spec.encOpt d v).length⟩ := by
  obtain ⟨_, hdn, hln⟩ := hdr_byte d v.length
  have hE1 := ext_roundtrip d (Spec.extBytes v.length ++ (v ++ tail)) (by omega)
  have hE2 := ext_roundtrip v.length (v ++ tail) hv
  have hlen : (Spec.encOpt d v ++ tail).length =
      (Spec.extBytes d ++ (Spec.extBytes v.length ++ (v ++ tail))).length + 1 := by
    simp [Spec.encOpt]
  have hcons : Spec.encOpt d v ++ tail = UInt8.ofNat (Spec.nib d * 16 + Spec.nib v.length) ::
      (Spec.extBytes d ++ (Spec.extBytes v.length ++ (v ++ tail))) := by simp [Spec.encOpt]
  rw [hlen, hcons, optParse_eq]
  have hnb : ¬ d > 65535 := by omega
  have hfit : v.length ≤ (v ++ tail).length := by simp
  simp only [optSpec, hdn, hln, hE1, hE2, hnb, if_false, hfit, if_true, encOpt_length]
  simp only [List.length_append]
  congr 2 <;> omega

/-- the iterator item of option `o` stored at offset `ofs` behind an option numbered `prev` -/
def itemOf (ofs prev : Nat) (o : Nat × Bytes) : It :=
  ⟨ofs, o.1, ⟨o.1 - prev, o.2.length, 1 + (Spec.extBytes (o.1 - prev)).length + (Spec.extBytes o.2.length).length,
              (Spec.encOpt (o.1 - prev) o.2).length⟩⟩

/-- the abstract option list as the iterator sees it -/
def absItems : Nat → Nat → List (Nat × Bytes) → List It
  | _, _, [] => []
  | ofs, prev, o :: os => itemOf ofs prev o :: absItems (ofs + (Spec.encOpt (o.1 - prev) o.2).length) o.1 os

theorem optIter_cons (fuel : Nat) (b : UInt8) (r : Bytes) (ofs number : Nat) (p : OptP) (hff : b ≠ 0xFF)
    (hp : optParse (b :: r) (r.length + 1) = R.ok p) :
    optIter (fuel + 1) (b :: r) ofs number =
      ⟨ofs, (number + p.delta) % 65536, p⟩ ::
        optIter fuel ((b :: r).drop p.size) (ofs + p.size) ((number + p.delta) % 65536) := by
  simp only [optIter, hff, if_false, List.length_cons, hp]

theorem encOpt_cons (d : Nat) (v : Bytes) :
    Spec.encOpt d v = UInt8.ofNat (Spec.nib d * 16 + Spec.nib v.length) :: (Spec.extBytes d ++ (Spec.extBytes v.length ++ v)) := rfl

/-- `items_conc`, general form: the iterator over a canonical option area delivers the abstract list -/
theorem optIter_encOpts : ∀ (os : List (Nat × Bytes)) (fuel prev ofs : Nat) (rest : Bytes),
    optsB prev os → (rest = [] ∨ ∃ t, rest = 0xFF :: t) → os.length < fuel →
    optIter fuel (Spec.encOpts prev os ++ rest) ofs prev = absItems ofs prev os := by
  intro os
  induction os with
  | nil =>
    intro fuel prev ofs rest _ hr hf
    obtain ⟨fuel, rfl⟩ : ∃ f, fuel = f + 1 := ⟨fuel - 1, by simp at hf; omega⟩
    rcases hr with rfl | ⟨t, rfl⟩
    · simp [Spec.encOpts, optIter, absItems]
    · simp [Spec.encOpts, optIter, absItems]
  | cons o os ih =>
    intro fuel prev ofs rest hb hr hf
    obtain ⟨fuel, rfl⟩ : ∃ f, fuel = f + 1 := ⟨fuel - 1, by simp at hf; omega⟩
    obtain ⟨h1, h2, h3, h4⟩ := hb
    obtain ⟨hff, _, _⟩ := hdr_byte (o.1 - prev) o.2.length
    have hp := optParse_encOpt (o.1 - prev) o.2 (Spec.encOpts o.1 os ++ rest) (by omega) h3
    have hbs : Spec.encOpts prev (o :: os) ++ rest =
        UInt8.ofNat (Spec.nib (o.1 - prev) * 16 + Spec.nib o.2.length) ::
          ((Spec.extBytes (o.1 - prev) ++ (Spec.extBytes o.2.length ++ o.2)) ++ (Spec.encOpts o.1 os ++ rest)) := by
      simp [Spec.encOpts, encOpt_cons]
    have hbs2 : Spec.encOpts prev (o :: os) ++ rest = Spec.encOpt (o.1 - prev) o.2 ++ (Spec.encOpts o.1 os ++ rest) := by
      simp [Spec.encOpts]
    have hp' := hp
    rw [← hbs2, hbs] at hp'
    rw [List.length_cons] at hp'
    rw [hbs, optIter_cons fuel _ _ ofs prev _ hff hp']
    have hnum : (prev + (o.1 - prev)) % 65536 = o.1 := by
      rw [Nat.mod_eq_of_lt (by omega)]; omega
    simp only [hnum]
    rw [← hbs, hbs2, drop_app_len]
    rw [ih fuel o.1 _ rest h4 hr (by simp at hf; omega)]
    rfl

theorem conc_drop_etl (ms : Nat) (a : Msg) :
    (conc ms a).buf.drop (conc ms a).etl = Spec.encOpts 0 a.opts ++ Spec.encPayload a.payload := by
  have h : (conc ms a).etl = (Spec.encToken a.token).length := by simp [conc, encToken_length]
  rw [h]
  exact drop_app_len _ _

/-- `items_conc`: on the representing PDU the iterator delivers the abstract option list -/
theorem items_conc (ms : Nat) (a : Msg) (hs : Shape a) :
    items (conc ms a) = absItems ((Spec.extBytes a.token.length).length + a.token.length) 0 a.opts := by
  unfold items
  rw [conc_drop_etl]
  have hfuel : a.opts.length < (conc ms a).buf.length + 1 := by
    have := encOpts_length_ge 0 a.opts
    have := conc_buf_length ms a
    omega
  exact optIter_encOpts a.opts _ 0 _ _ (optsB_of_shape hs) (encPayload_shape a.payload) hfuel

/-! ### the search loops -/

/-- number of the last option that is not above `n` (0 if none): `prev_number` of coap_insert_option, and
`max_opt` when nothing is above `n` -/
def prevNum (n : Nat) (os : List (Nat × Bytes)) : Nat := lastD 0 (os.takeWhile (fun o => decide (o.1 ≤ n)))

theorem takeWhile_all (n : Nat) (os : List (Nat × Bytes)) (h : ∀ o ∈ os, o.1 ≤ n) :
    os.takeWhile (fun o => decide (o.1 ≤ n)) = os := by
  induction os with
  | nil => rfl
  | cons x os ih =>
    have hx := h x (List.mem_cons_self ..)
    simp [List.takeWhile, hx, ih (fun o ho => h o (List.mem_cons_of_mem _ ho))]

theorem prevNum_all (n : Nat) (os : List (Nat × Bytes)) (h : ∀ o ∈ os, o.1 ≤ n) : prevNum n os = lastNum os := by
  unfold prevNum; rw [takeWhile_all n os h]; rfl

/-- the loop of coap_insert_option stops at the split point of `insertStable` -/
theorem findInsert_abs (n : Nat) (v : Bytes) : ∀ (os : List (Nat × Bytes)) (ofs prev : Nat),
    (∃ o ∈ os, n < o.1) →
    ∃ pre nx post, os = pre ++ nx :: post ∧ (∀ o ∈ pre, o.1 ≤ n) ∧ n < nx.1 ∧
      findInsert n prev (absItems ofs prev os) =
        some (itemOf (ofs + (Spec.encOpts prev pre).length) (lastD prev pre) nx, lastD prev pre) ∧
      Spec.insertStable n v os = pre ++ (n, v) :: nx :: post ∧
      pre = os.takeWhile (fun o => decide (o.1 ≤ n)) := by
  intro os
  induction os with
  | nil => intro ofs prev ⟨o, ho, _⟩; cases ho
  | cons x os ih =>
    intro ofs prev hex
    by_cases hx : x.1 ≤ n
    · have hex' : ∃ o ∈ os, n < o.1 := by
        obtain ⟨o, ho, hlt⟩ := hex
        rcases List.mem_cons.mp ho with rfl | ho
        · omega
        · exact ⟨o, ho, hlt⟩
      obtain ⟨pre, nx, post, e1, e2, e3, e4, e5, e6⟩ := ih (ofs + (Spec.encOpt (x.1 - prev) x.2).length) x.1 hex'
      refine ⟨x :: pre, nx, post, by simp [e1], ?_, e3, ?_, ?_, by simp [List.takeWhile, hx, e6]⟩
      · intro o ho
        rcases List.mem_cons.mp ho with rfl | ho
        · exact hx
        · exact e2 o ho
      · have hng : ¬ (x.1 > n) := by omega
        simp only [absItems, findInsert, itemOf, hng, if_false]
        have := e4
        simp only [itemOf] at this
        rw [this, lastD_cons]
        simp only [Spec.encOpts, List.length_append, Nat.add_assoc]
      · simp only [Spec.insertStable, hx, if_true, e5, List.cons_append]
    · refine ⟨[], x, os, rfl, by simp, by omega, ?_, ?_, by simp [List.takeWhile, hx]⟩
      · have hg : x.1 > n := by omega
        simp [absItems, findInsert, itemOf, hg, Spec.encOpts, lastD_nil]
      · simp [Spec.insertStable, hx]

theorem findInsert_none (n : Nat) : ∀ (os : List (Nat × Bytes)) (ofs prev : Nat),
    (∀ o ∈ os, o.1 ≤ n) → findInsert n prev (absItems ofs prev os) = none := by
  intro os
  induction os with
  | nil => intro ofs prev _; rfl
  | cons x os ih =>
    intro ofs prev h
    have hx : ¬ (x.1 > n) := by have := h x (List.mem_cons_self ..); omega
    simp only [absItems, findInsert, itemOf, hx, if_false]
    exact ih _ _ (fun o ho => h o (List.mem_cons_of_mem _ ho))

/-- coap_check_option finds nothing iff the abstract list has no such option -/
theorem findEq_none (n : Nat) : ∀ (os : List (Nat × Bytes)) (ofs prev : Nat),
    Spec.hasOpt n os = false → findEq n (absItems ofs prev os) = none := by
  intro os
  induction os with
  | nil => intro ofs prev _; rfl
  | cons x os ih =>
    intro ofs prev h
    rw [hasOpt_cons] at h
    simp at h
    simp only [absItems, findEq, itemOf, h.1, if_false]
    exact ih _ _ h.2

/-- … and otherwise stops at the split point of `removeFirst` / `replaceFirst` -/
theorem findEq_abs (n : Nat) : ∀ (os : List (Nat × Bytes)) (ofs prev : Nat),
    Spec.hasOpt n os = true →
    ∃ pre w post, os = pre ++ (n, w) :: post ∧ (∀ o ∈ pre, o.1 ≠ n) ∧
      findEq n (absItems ofs prev os) =
        some (itemOf (ofs + (Spec.encOpts prev pre).length) (lastD prev pre) (n, w),
              (absItems (ofs + (Spec.encOpts prev pre).length + (Spec.encOpt (n - lastD prev pre) w).length) n post).head?) ∧
      Spec.removeFirst n os = pre ++ post ∧ (∀ v, Spec.replaceFirst n v os = pre ++ (n, v) :: post) := by
  intro os
  induction os with
  | nil => intro ofs prev h; simp [Spec.hasOpt] at h
  | cons x os ih =>
    intro ofs prev h
    by_cases hx : x.1 = n
    · refine ⟨[], x.2, os, ?_, by simp, ?_, by simp [Spec.removeFirst, hx], ?_⟩
      · subst hx; rfl
      · subst hx
        simp [absItems, findEq, itemOf, Spec.encOpts, lastD_nil]
      · intro v; simp [Spec.replaceFirst, hx]
    · rw [hasOpt_cons] at h
      have h' : Spec.hasOpt n os = true := by simpa [hx] using h
      obtain ⟨pre, w, post, e1, e2, e3, e4, e5⟩ := ih (ofs + (Spec.encOpt (x.1 - prev) x.2).length) x.1 h'
      refine ⟨x :: pre, w, post, by simp [e1], ?_, ?_, by simp [Spec.removeFirst, hx, e4], ?_⟩
      · intro o ho
        rcases List.mem_cons.mp ho with rfl | ho
        · exact hx
        · exact e2 o ho
      · simp only [absItems, findEq, itemOf, hx, if_false]
        have := e3
        simp only [itemOf] at this
        rw [this, lastD_cons]
        simp only [Spec.encOpts, List.length_append, Nat.add_assoc]
      · intro v; simp [Spec.replaceFirst, hx, e5 v]

theorem hasOption_conc (ms : Nat) (a : Msg) (hs : Shape a) (n : Nat) :
    hasOption (conc ms a) n = Spec.hasOpt n a.opts := by
  unfold hasOption
  rw [items_conc ms a hs]
  cases h : Spec.hasOpt n a.opts with
  | false => rw [findEq_none n a.opts _ _ h]; rfl
  | true =>
    obtain ⟨pre, w, post, _, _, e3, _⟩ := findEq_abs n a.opts ((Spec.extBytes a.token.length).length + a.token.length) 0 h
    rw [e3]; rfl

end Coap
