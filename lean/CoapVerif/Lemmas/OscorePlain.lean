import CoapVerif.Lemmas.Encode
import CoapVerif.Lemmas.OscoreOpt
/- Helper lemmas for C14: the OSCORE plaintext (§5.3: code ‖ class E options ‖ 0xFF payload) round-trips — the
RFC 7252 §3.1 option codec on the inner message, from the 13/14-scheme lemmas of C01 (Lemmas/Encode.lean);
the response direction of the inner / outer recombination. -/
namespace Coap
open Coap.Spec.Crypto Coap.Spec.Oscore

theorem oscore_extNib_eq (v : Nat) : Coap.Spec.Oscore.extNib v = Spec.nib v := rfl
theorem oscore_extBytes_eq (v : Nat) : Coap.Spec.Oscore.extBytes v = Spec.extBytes v := rfl

/-- what the RFC 7252 §3.1 option format can carry: ascending numbers starting at `prev`, deltas and value lengths
at most 65804 (= 65535 + 269) -/
def optsWire : Nat → List Opt → Bool
  | _, [] => true
  | prev, o :: os => decide (prev ≤ o.1) && decide (o.1 - prev ≤ 65804) && decide (o.2.length ≤ 65804) && optsWire o.1 os

theorem optsWire_cons (prev : Nat) (o : Opt) (os : List Opt) :
    optsWire prev (o :: os) = true ↔ prev ≤ o.1 ∧ o.1 - prev ≤ 65804 ∧ o.2.length ≤ 65804 ∧ optsWire o.1 os = true := by
  simp [optsWire, and_assoc]

/-- option numbers are 16-bit, values at most 65804 bytes, list sorted ⇒ encodable -/
theorem optsWire_of_sorted : ∀ (os : List Opt) (prev : Nat), os.Pairwise (fun a b => a.1 ≤ b.1) →
    (∀ o ∈ os, prev ≤ o.1 ∧ o.1 ≤ 65535 ∧ o.2.length ≤ 65804) → optsWire prev os = true := by
  intro os
  induction os with
  | nil => intro _ _ _; rfl
  | cons o os ih =>
    intro prev hs h
    rw [List.pairwise_cons] at hs
    obtain ⟨h1, h2, h3⟩ := h o (by simp)
    rw [optsWire_cons]
    refine ⟨h1, by omega, h3, ih o.1 hs.2 ?_⟩
    intro x hx
    obtain ⟨_, h5, h6⟩ := h x (by simp [hx])
    exact ⟨hs.1 x hx, h5, h6⟩

theorem oscore_encOpts_length (os : List Opt) : ∀ prev, os.length ≤ (Coap.Spec.Oscore.encOpts prev os).length := by
  induction os with
  | nil => intro _; simp [Coap.Spec.Oscore.encOpts]
  | cons o os ih =>
    intro prev
    obtain ⟨n, v⟩ := o
    have := ih n
    simp [Coap.Spec.Oscore.encOpts]; omega

/-- decoding the encoded inner option list (followed by nothing or by a payload marker) gives the list back -/
theorem decOpts_encOpts : ∀ (os : List Opt) (prev fuel : Nat) (rest : Bytes),
    optsWire prev os = true → (rest = [] ∨ ∃ t, rest = 0xFF :: t) → os.length < fuel →
    decOpts fuel prev (Coap.Spec.Oscore.encOpts prev os ++ rest) = some (os, rest) := by
  intro os
  induction os with
  | nil =>
    intro prev fuel rest _ hr hf
    obtain ⟨fuel, rfl⟩ : ∃ f, fuel = f + 1 := ⟨fuel - 1, by simp at hf; omega⟩
    rcases hr with rfl | ⟨t, rfl⟩
    · simp [Coap.Spec.Oscore.encOpts, decOpts]
    · simp [Coap.Spec.Oscore.encOpts, decOpts]
  | cons o os ih =>
    intro prev fuel rest hok hr hf
    obtain ⟨fuel, rfl⟩ : ∃ f, fuel = f + 1 := ⟨fuel - 1, by simp at hf; omega⟩
    obtain ⟨n, v⟩ := o
    rw [optsWire_cons] at hok
    obtain ⟨hp, hd, hl, hrest⟩ := hok
    simp only at hp hd hl hrest
    obtain ⟨hff, hdn, hln⟩ := hdr_byte (n - prev) v.length
    have hE1 := ext_roundtrip (n - prev)
      (Spec.extBytes v.length ++ (v ++ (Coap.Spec.Oscore.encOpts n os ++ rest))) hd
    have hE2 := ext_roundtrip v.length (v ++ (Coap.Spec.Oscore.encOpts n os ++ rest)) hl
    have hpd : prev + (n - prev) = n := by omega
    have hih := ih n fuel rest hrest hr (by simp at hf; omega)
    simp only [Coap.Spec.Oscore.encOpts, oscore_extNib_eq, oscore_extBytes_eq, List.cons_append, List.append_assoc, decOpts,
      hff, if_false, hdn, hln, hE1, hE2, hpd, List.length_append, List.take_left', List.drop_left', hih]
    simp

/-- **§5.3 plaintext round trip**: `decPlain (encPlain code inner payload) = (code, inner, payload)` for every code
below 256, every encodable option list and every payload -/
theorem decPlain_encPlain (code : Nat) (inner : List Opt) (payload : Bytes) (hc : code < 256)
    (hw : optsWire 0 inner = true) : decPlain (encPlain code inner payload) = some (code, inner, payload) := by
  have hcode : (UInt8.ofNat code).toNat = code := toNat_ofNat_lt code hc
  have hlen := oscore_encOpts_length inner 0
  unfold encPlain decPlain
  simp only
  by_cases hp : payload = []
  · subst hp
    simp only [if_true]
    rw [decOpts_encOpts inner 0 _ [] hw (Or.inl rfl) (by simp; omega)]
    simp [hcode]
  · simp only [hp, if_false]
    rw [decOpts_encOpts inner 0 _ (0xFF :: payload) hw (Or.inr ⟨payload, rfl⟩) (by simp; omega)]
    simp [hcode, hp]

/-! ### responses: inner / outer recombination with the recipient's Observe value (D14.3) -/

/-- D14.3: the recipient's substitution of the Observe value -/
def obsSet (obs : Bytes) (o : Opt) : Opt := if o.1 = optObserve then (o.1, obs) else o

theorem obsSet_fst (obs : Bytes) (o : Opt) : (obsSet obs o).1 = o.1 := by
  unfold obsSet; split <;> rfl

theorem filter_map_obsSet (obs : Bytes) (q : Nat → Bool) (l : List Opt) :
    (l.map (obsSet obs)).filter (fun o => q o.1) = (l.filter (fun o => q o.1)).map (obsSet obs) := by
  rw [List.filter_map]
  congr 1
  apply List.filter_congr
  intro o _
  simp [obsSet_fst]

/-- inner / outer recombination for responses: the outer options that survive §8.4 step 1, merged with the inner
options after the recipient has set the Observe value, are the original options with that Observe value -/
theorem split_merge_response (os : List Opt) (ov obs : Bytes) (hs : os.Pairwise (fun a b => a.1 ≤ b.1))
    (hno : ∀ o ∈ os, o.1 ≠ optOscore) :
    mergeOpts (withOscore (outerOpts os) ov) ((innerOpts false os).map (obsSet obs)) = os.map (obsSet obs) := by
  unfold mergeOpts
  rw [kept_outer_eq os ov hs]
  have hs' : (os.map (obsSet obs)).Pairwise (fun a b => a.1 ≤ b.1) := by
    rw [List.pairwise_map]
    exact hs.imp (fun {a b} h => by rw [obsSet_fst, obsSet_fst]; exact h)
  have hA : os.filter (fun o => classUOnly o.1 && decide (o.1 ≠ 9)) =
      (os.map (obsSet obs)).filter (fun o => classUOnly o.1 && decide (o.1 ≠ 9)) := by
    rw [filter_map_obsSet obs (fun n => classUOnly n && decide (n ≠ 9))]
    symm
    rw [List.map_congr_left (g := id), List.map_id]
    intro o ho
    have := (List.mem_filter.mp ho).2
    have h6 : o.1 ≠ 6 := by
      intro e; rw [e] at this; simp [classUOnly] at this
    simp [obsSet, h6]
  have hB : (innerOpts false os).map (obsSet obs) =
      (os.map (obsSet obs)).filter (fun o => !(classUOnly o.1 && decide (o.1 ≠ 9))) := by
    rw [filter_map_obsSet obs (fun n => !(classUOnly n && decide (n ≠ 9)))]
    unfold innerOpts
    rw [List.map_map]
    have e1 : os.filter (fun o => !classUOnly o.1) = os.filter (fun o => !(classUOnly o.1 && decide (o.1 ≠ 9))) := by
      apply List.filter_congr
      intro o ho
      have := hno o ho
      simp [this]
    rw [e1]
    apply List.map_congr_left
    intro o _
    by_cases h6 : o.1 = optObserve <;> simp [obsSet, h6]
  rw [hA, hB]
  exact merge_filter_sorted (fun n => classUOnly n && decide (n ≠ 9)) _ hs'

/-- the inner options of a message whose options are sorted, 16-bit numbered and at most 65804 bytes long are encodable -/
theorem innerOpts_wire (req : Bool) (os : List Opt) (hs : os.Pairwise (fun a b => a.1 ≤ b.1))
    (hw : ∀ o ∈ os, o.1 ≤ 65535 ∧ o.2.length ≤ 65804) : optsWire 0 (innerOpts req os) = true := by
  have hf : ∀ c : Opt, (if c.1 = optObserve ∧ ¬ req then ((c.1, []) : Opt) else c).1 = c.1 := by
    intro c; split <;> rfl
  apply optsWire_of_sorted
  · unfold innerOpts
    rw [List.pairwise_map]
    refine List.Pairwise.imp ?_ (List.Pairwise.filter _ hs)
    intro a b hab
    rw [hf a, hf b]; exact hab
  · intro x hx
    unfold innerOpts at hx
    rw [List.mem_map] at hx
    obtain ⟨y, hy, rfl⟩ := hx
    obtain ⟨h1, h2⟩ := hw y (List.mem_filter.mp hy).1
    split
    · exact ⟨Nat.zero_le _, h1, by simp⟩
    · exact ⟨Nat.zero_le _, h1, h2⟩

theorem pivBytes_ne_nil (n : Nat) (h : n < 2 ^ 64) : pivBytes n ≠ [] := by
  intro e
  have := pivBytes_minimal n h
  rw [e] at this
  simp [pivMinimal] at this

theorem obsSet_lambda (obs : Bytes) : (fun o : Opt => if o.1 = optObserve then (o.1, obs) else o) = obsSet obs := rfl

end Coap
