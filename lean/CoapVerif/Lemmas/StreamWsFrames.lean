import CoapVerif.Lemmas.StreamWsHs
/- C05, WebSocket part, frame phase: S's `frames` seen one frame at a time, and one call of `coap_ws_read`
   (label next_frame on: `readFrame`) = S on the pending bytes ++ the bytes it consumed. -/
namespace Coap
open Coap.M Coap.M.Ws Coap.Spec.Stream Coap.Spec.Stream.Ws

/-! ### S -/

/-- `frames` on a stream with at least the two fixed header bytes, in the vocabulary of StreamWsDefs -/
theorem frames_cons2 (mode : Mode) (fuel : Nat) (b0 b1 : UInt8) (r : Bytes) :
    frames mode (fuel + 1) (b0 :: b1 :: r) =
      if mode = .server ∧ ¬ b1.toNat / 128 = 1 then ([], true) else
      if r.length < hExtra b1.toNat then ([], false) else
      if b0.toNat % 16 ≠ 2 then ([], true) else
      if hSize b1.toNat r > maxFrame then ([], true) else
      if (r.drop (hExtra b1.toNat)).length < hSize b1.toNat r then ([], false) else
      let pl := if mode = .server then unmask ((r.drop (hExt b1.toNat)).take 4) 0 ((r.drop (hExtra b1.toNat)).take (hSize b1.toNat r))
                else (r.drop (hExtra b1.toNat)).take (hSize b1.toNat r)
      let rest := frames mode fuel ((r.drop (hExtra b1.toNat)).drop (hSize b1.toNat r))
      (if hSize b1.toNat r = 0 then rest.1 else deliver (Spec.decode .ws pl) rest.1, rest.2) := by
  rfl

theorem wsFrames_short (mode : Mode) (fuel : Nat) (bs : Bytes) (h : bs.length < 2) : frames mode fuel bs = ([], false) := by
  cases fuel with
  | zero => rfl
  | succ f =>
    match bs, h with
    | [], _ => rfl
    | [_], _ => rfl

/-- the result of S does not depend on the fuel once it exceeds the length -/
theorem wsFrames_fuel (mode : Mode) : ∀ (f1 f2 : Nat) (bs : Bytes), bs.length < f1 → bs.length < f2 →
    frames mode f1 bs = frames mode f2 bs := by
  intro f1
  induction f1 with
  | zero => intro f2 bs h; omega
  | succ f1 ih =>
    intro f2 bs h1 h2
    obtain ⟨f2, rfl⟩ : ∃ k, f2 = k + 1 := ⟨f2 - 1, by omega⟩
    match bs, h1, h2 with
    | [], _, _ => rfl
    | [_], _, _ => rfl
    | b0 :: b1 :: r, h1, h2 =>
      rw [frames_cons2, frames_cons2]
      have hd : ((r.drop (hExtra b1.toNat)).drop (hSize b1.toNat r)).length ≤ r.length := by
        rw [List.length_drop, List.length_drop]; omega
      simp only [List.length_cons] at h1 h2
      rw [ih f2 _ (by omega) (by omega)]

def frOf (mode : Mode) (bs : Bytes) : List Msg × Bool := frames mode (bs.length + 1) bs

theorem frRes_eq (mode : Mode) (bs : Bytes) : frRes mode bs = ⟨(frOf mode bs).1, true, (frOf mode bs).2⟩ := rfl

theorem frOf_short (mode : Mode) (bs : Bytes) (h : bs.length < 2) : frOf mode bs = ([], false) :=
  wsFrames_short mode _ bs h

theorem frOf_cons2 (mode : Mode) (b0 b1 : UInt8) (r : Bytes) :
    frOf mode (b0 :: b1 :: r) =
      if mode = .server ∧ ¬ b1.toNat / 128 = 1 then ([], true) else
      if r.length < hExtra b1.toNat then ([], false) else
      if b0.toNat % 16 ≠ 2 then ([], true) else
      if hSize b1.toNat r > maxFrame then ([], true) else
      if (r.drop (hExtra b1.toNat)).length < hSize b1.toNat r then ([], false) else
      let pl := if mode = .server then unmask ((r.drop (hExt b1.toNat)).take 4) 0 ((r.drop (hExtra b1.toNat)).take (hSize b1.toNat r))
                else (r.drop (hExtra b1.toNat)).take (hSize b1.toNat r)
      let rest := frOf mode ((r.drop (hExtra b1.toNat)).drop (hSize b1.toNat r))
      (if hSize b1.toNat r = 0 then rest.1 else deliver (Spec.decode .ws pl) rest.1, rest.2) := by
  have hd : ((r.drop (hExtra b1.toNat)).drop (hSize b1.toNat r)).length ≤ r.length := by
    rw [List.length_drop, List.length_drop]; omega
  unfold frOf
  rw [frames_cons2]
  simp only [List.length_cons]
  rw [wsFrames_fuel mode (r.length + 1 + 1) (((r.drop (hExtra b1.toNat)).drop (hSize b1.toNat r)).length + 1) _ (by omega) (by omega)]

/-! ### M: `readFrame` in the vocabulary of StreamWsDefs -/

theorem xorKey_eq (key : Bytes) : ∀ (bs : Bytes) (i : Nat), xorKey key i bs = unmask key i bs := by
  intro bs
  induction bs with
  | nil => intro i; rfl
  | cons b r ih => intro i; simp only [xorKey, unmask, ih]

theorem be64_eq (bs : Bytes) : be64 bs = be bs := rfl

theorem drop2 (b0 b1 : UInt8) (r : Bytes) (k : Nat) : (b0 :: b1 :: r).drop (2 + k) = r.drop k := by
  rw [Nat.add_comm]; rfl

/-- `readFrame` once the two fixed header bytes are in `rd_header`, in the vocabulary of StreamWsDefs;
`st` already has `rdHeader := b0 :: b1 :: r'` -/
def afterHdr (mode : Mode) (fuel : Nat) (st : St) (b0 b1 : UInt8) (r' : Bytes) (av : Bytes) : Ret × St × Bytes :=
  if mode = .server ∧ ¬ b1.toNat / 128 = 1 then (.closed, st, av) else
  if r'.length < hExtra b1.toNat then (.zero, st, av) else
  if b0.toNat % 16 ≠ 2 then (.closed, st, av) else
  let key := if b1.toNat / 128 = 1 then (r'.drop (hExt b1.toNat)).take 4 else st.maskKey
  let size := hSize b1.toNat r'
  let st2 : St := { st with allHdrIn := true, maskKey := key, dataSize := size }
  if size > rxBuf then (.closed, st2, av) else
  let data := r'.drop (hExtra b1.toNat)
  if size = 0 then
    if data.length > 0 then readFrame mode rxBuf fuel { st2 with rdHeader := data, allHdrIn := false } av
    else (.zero, { st2 with rdHeader := data, allHdrIn := false }, av)
  else if data.length > 0 then
    if data.length ≤ size then
      if data.length = size then
        (.pkt (if mode = .server then xorKey key 0 data else data),
          { st2 with dataOfs := data.length, allHdrIn := false, rdHeader := [] }, av)
      else readData mode { st2 with dataOfs := data.length } av data rxBuf
    else
      (.pkt (if mode = .server then xorKey key 0 (data.take size) else data.take size),
        { st2 with dataOfs := size, allHdrIn := false, rdHeader := data.drop size }, av)
  else readData mode { st2 with dataOfs := 0 } av [] rxBuf

theorem hExt_cases (b1 : Nat) : (b1 % 128 = 127 ∧ hExt b1 = 8) ∨ (b1 % 128 = 126 ∧ hExt b1 = 2) ∨
    (b1 % 128 ≠ 127 ∧ b1 % 128 ≠ 126 ∧ hExt b1 = 0) := by
  unfold hExt
  by_cases h1 : b1 % 128 = 127
  · simp [h1]
  · by_cases h2 : b1 % 128 = 126
    · simp [h2]
    · simp [h1, h2]

theorem hExtra_le (b1 : Nat) : hExtra b1 ≤ 12 := by
  unfold hExtra
  rcases hExt_cases b1 with ⟨_, h⟩ | ⟨_, h⟩ | ⟨_, _, h⟩ <;> rw [h] <;> split <;> omega

theorem hExt_le_hExtra (b1 : Nat) : hExt b1 ≤ hExtra b1 := by unfold hExtra; omega

theorem size_eq (b0 b1 : UInt8) (r' : Bytes) :
    (if b1.toNat % 128 = 127 then be64 (List.take 8 (List.drop 2 (b0 :: b1 :: r')))
      else if b1.toNat % 128 = 126 then be64 (List.take 2 (List.drop 2 (b0 :: b1 :: r'))) else b1.toNat % 128) =
    hSize b1.toNat r' := by
  unfold hSize
  rcases hExt_cases b1.toNat with ⟨h1, h⟩ | ⟨h1, h⟩ | ⟨h1, h2, h⟩
  · simp [h1, h, be64_eq]
  · simp [h1, h, be64_eq]
  · simp [h1, h2, h]

theorem readFrame_hdr (mode : Mode) (fuel : Nat) (st : St) (av : Bytes) (b0 b1 : UInt8) (r' : Bytes)
    (hall : st.allHdrIn = false)
    (hh : st.rdHeader ++ av.take (fsCap - st.rdHeader.length) = b0 :: b1 :: r') :
    readFrame mode rxBuf (fuel + 1) st av =
      afterHdr mode fuel { st with rdHeader := b0 :: b1 :: r' } b0 b1 r' (av.drop (fsCap - st.rdHeader.length)) := by
  obtain ⟨up, H, seen, p, all, key, ofs, size, rx⟩ := st
  simp only at hall hh
  subst hall
  have e1 : (if b1.toNat % 128 = 127 then 8 else if b1.toNat % 128 = 126 then 2 else 0) = hExt b1.toNat := rfl
  have e2 : hExt b1.toNat + (if b1.toNat / 128 = 1 then 4 else 0) = hExtra b1.toNat := rfl
  have e3 : List.length r' + 1 + 1 - 2 - hExtra b1.toNat = (r'.drop (hExtra b1.toNat)).length := by
    rw [List.length_drop]; omega
  have hle := hExtra_le b1.toNat
  have e4 : ¬ (2 + hExtra b1.toNat > fsCap) := by simp only [fsCap]; omega
  have e5 : ¬ (List.length r' + 1 + 1 < 2) := by omega
  have e6 : (List.length r' + 1 + 1 < 2 + hExtra b1.toNat) = (r'.length < hExtra b1.toNat) := by
    apply propext; constructor <;> intro h <;> omega
  simp only [readFrame, hh, Bool.false_eq_true, if_false, List.length_cons, rd_cons_zero, rd_cons_succ, size_eq, e1, e2,
    e3, e4, e5, e6, drop2, Nat.add_assoc]
  simp only [afterHdr, List.drop_drop]
  by_cases hop : b0.toNat % 16 = 2
  · simp [hop]
  · by_cases h8 : b0.toNat % 16 = 8
    · simp [h8]
    · simp [hop, h8]

theorem readFrame_short (mode : Mode) (fuel : Nat) (st : St) (av : Bytes) (hall : st.allHdrIn = false)
    (hh : (st.rdHeader ++ av.take (fsCap - st.rdHeader.length)).length < 2) :
    readFrame mode rxBuf (fuel + 1) st av =
      (.zero, { st with rdHeader := st.rdHeader ++ av.take (fsCap - st.rdHeader.length) },
        av.drop (fsCap - st.rdHeader.length)) := by
  simp only [readFrame, hall, Bool.false_eq_true, if_false, hh, if_true]

/-- "Get in (remaining) data": `D` = the payload bytes collected so far -/
theorem readData_eq (mode : Mode) (st : St) (av data D : Bytes)
    (hD : (match st.rxData with | some rx => rx.take st.dataOfs | none => data.take st.dataOfs) = D)
    (hlen : D.length = st.dataOfs) (hsz : st.dataSize ≤ rxBuf) (hlt : st.dataOfs < st.dataSize)
    (hrx : st.rxData = none ∨ D ≠ []) :
    readData mode st av data rxBuf =
      if st.dataSize ≤ D.length + av.length then
        (.pkt (if mode = .server then xorKey st.maskKey 0 (D ++ av.take (st.dataSize - D.length))
               else D ++ av.take (st.dataSize - D.length)),
          { st with allHdrIn := false, rdHeader := [], dataOfs := 0, rxData := none }, av.drop (st.dataSize - D.length))
      else
        (.zero, { st with dataOfs := D.length + av.length, rxData := if D ++ av = [] then none else some (D ++ av) }, []) := by
  obtain ⟨up, H, seen, p, all, key, ofs, size, rx⟩ := st
  simp only at hD hlen hsz hlt hrx ⊢
  subst hlen
  have h0 : ¬ size > rxBuf := by omega
  by_cases hc : size ≤ D.length + av.length
  · have hg : D.length + (av.take (size - D.length)).length = size := by rw [List.length_take]; omega
    cases rx with
    | none =>
      simp only at hD
      simp only [readData, h0, if_false, hD, hg, if_true, if_pos hc]
    | some rx0 =>
      simp only at hD
      simp only [readData, h0, if_false, hD, hg, if_true, if_pos hc]
  · have ht : av.take (size - D.length) = av := List.take_of_length_le (by omega)
    have hd : av.drop (size - D.length) = [] := List.drop_eq_nil_of_le (by omega)
    have hg : ¬ D.length + av.length = size := by omega
    have hgt : (D.length + av.length > 0) = ¬ (D ++ av = []) := by
      apply propext
      rw [← List.length_append]
      constructor
      · intro h he; rw [he] at h; simp at h
      · intro h; exact List.length_pos_iff.mpr h
    cases rx with
    | none =>
      simp only at hD
      simp only [readData, h0, if_false, hD, ht, hd, hg, if_neg hc, hgt]
      by_cases he : D ++ av = []
      · simp only [he, not_true_eq_false, if_false, if_true]
      · simp only [he, not_false_eq_true, if_true, if_false]
    | some rx0 =>
      simp only at hD
      have hne : D ≠ [] := by
        rcases hrx with h | h
        · cases h
        · exact h
      have he : ¬ (D ++ av = []) := by simp [hne]
      simp only [readData, h0, if_false, hD, ht, hd, hg, if_neg hc, if_neg he]

/-! ### S on a stream that starts with a complete frame header -/

theorem take_app3 (D av X : Bytes) (n : Nat) (h1 : D.length ≤ n) (h2 : n ≤ D.length + av.length) :
    (D ++ (av ++ X)).take n = D ++ av.take (n - D.length) := by
  rw [List.take_append, List.take_of_length_le h1, List.take_append_of_le_length (by omega)]

theorem drop_app3 (D av X : Bytes) (n : Nat) (h1 : D.length ≤ n) (h2 : n ≤ D.length + av.length) :
    (D ++ (av ++ X)).drop n = av.drop (n - D.length) ++ X := by
  rw [List.drop_append, List.drop_of_length_le h1, List.drop_append_of_le_length (by omega)]; rfl

theorem hSize_append (b1 : Nat) (r body : Bytes) (h : hExtra b1 ≤ r.length) : hSize b1 (r ++ body) = hSize b1 r := by
  unfold hSize
  rw [List.take_append_of_le_length (by have := hExt_le_hExtra b1; omega)]

/-- S on header (`b0 b1 r`, complete, acceptable) ++ `body` -/
theorem frOf_frame (mode : Mode) (b0 b1 : UInt8) (r body : Bytes) (hr : r.length = hExtra b1.toNat)
    (hm : ¬ (mode = .server ∧ ¬ b1.toNat / 128 = 1)) (hop : b0.toNat % 16 = 2) (hsz : hSize b1.toNat r ≤ maxFrame) :
    frOf mode (b0 :: b1 :: (r ++ body)) =
      if body.length < hSize b1.toNat r then ([], false) else
      ((if hSize b1.toNat r = 0 then (frOf mode (body.drop (hSize b1.toNat r))).1
        else deliver (Spec.decode .ws (if mode = .server then unmask ((r.drop (hExt b1.toNat)).take 4) 0 (body.take (hSize b1.toNat r))
                else body.take (hSize b1.toNat r))) (frOf mode (body.drop (hSize b1.toNat r))).1),
       (frOf mode (body.drop (hSize b1.toNat r))).2) := by
  have h1 : ¬ (r ++ body).length < hExtra b1.toNat := by rw [List.length_append]; omega
  have h2 : ¬ (b0.toNat % 16 ≠ 2) := by omega
  have h3 : ¬ hSize b1.toNat r > maxFrame := by omega
  have hkey : mode = .server → ((r ++ body).drop (hExt b1.toNat)).take 4 = (r.drop (hExt b1.toNat)).take 4 := by
    intro hs
    have hmask : b1.toNat / 128 = 1 := by
      rcases Nat.lt_or_ge 0 0 with h | _
      · omega
      · exact Classical.byContradiction fun hn => hm ⟨hs, hn⟩
    have hl : r.length = hExt b1.toNat + 4 := by rw [hr]; unfold hExtra; rw [if_pos hmask]
    rw [List.drop_append_of_le_length (by omega), List.take_append_of_le_length (by rw [List.length_drop]; omega)]
  rw [frOf_cons2, if_neg hm, if_neg h1, if_neg h2, hSize_append _ _ _ (by omega), if_neg h3, List.drop_left' hr]
  by_cases hb : body.length < hSize b1.toNat r
  · rw [if_pos hb, if_pos hb]
  · rw [if_neg hb, if_neg hb]
    by_cases hs : mode = .server
    · simp only [hs, if_true, hkey hs]
    · simp only [hs, if_false]

/-! ### M: "Get in (remaining) data" against S -/

def DataSt (mode : Mode) (st : St) (b0 b1 : UInt8) (r : Bytes) : Prop :=
  r.length = hExtra b1.toNat ∧ ¬ (mode = .server ∧ ¬ b1.toNat / 128 = 1) ∧ b0.toNat % 16 = 2 ∧
  st.dataSize = hSize b1.toNat r ∧ 0 < st.dataSize ∧ st.dataSize ≤ maxFrame ∧
  (mode = .server → st.maskKey = (r.drop (hExt b1.toNat)).take 4)

theorem readData_spec (mode : Mode) (X : Bytes) (st : St) (av data D : Bytes) (b0 b1 : UInt8) (r : Bytes)
    (hup : st.up = true) (hall : st.allHdrIn = true) (hds : DataSt mode st b0 b1 r)
    (hD : (match st.rxData with | some rx => rx.take st.dataOfs | none => data.take st.dataOfs) = D)
    (hlen : D.length = st.dataOfs) (hlt : st.dataOfs < st.dataSize) (hrx : st.rxData = none ∨ D ≠ [])
    (hpre : (b0 :: b1 :: r) <+: st.rdHeader) :
    match readData mode st av data rxBuf with
    | (.pkt pl, st', av') => FrPre st' [] ∧ av'.length < av.length ∧
        frOf mode (b0 :: b1 :: (r ++ (D ++ (av ++ X)))) =
          (deliver (Spec.decode .ws pl) (frOf mode (av' ++ X)).1, (frOf mode (av' ++ X)).2)
    | (.zero, st', av') => av' = [] ∧ DataInv mode st' (b0 :: b1 :: (r ++ (D ++ av)))
    | _ => False := by
  obtain ⟨hr, hm, hop, hsize, hpos, hmax, hkey⟩ := hds
  have hsz : st.dataSize ≤ rxBuf := hmax
  rw [readData_eq mode st av data D hD hlen hsz hlt hrx]
  by_cases hc : st.dataSize ≤ D.length + av.length
  · rw [if_pos hc]
    simp only
    refine ⟨⟨hup, rfl, rfl, rfl⟩, by rw [List.length_drop]; omega, ?_⟩
    · rw [frOf_frame mode b0 b1 r _ hr hm hop (by rw [← hsize]; exact hmax), ← hsize]
      have hb : ¬ (D ++ (av ++ X)).length < st.dataSize := by
        rw [List.length_append, List.length_append]; omega
      have h0 : ¬ st.dataSize = 0 := by omega
      rw [if_neg hb, if_neg h0, take_app3 D av X _ (by omega) hc, drop_app3 D av X _ (by omega) hc]
      by_cases hs : mode = .server
      · simp only [hs, if_true, hkey hs, xorKey_eq]
      · simp only [hs, if_false]
  · rw [if_neg hc]
    simp only
    refine ⟨trivial, hup, hall, b0, b1, r, D ++ av, rfl, hr, hm, hop, hsize, hpos, hmax, hkey, ?_, ?_, rfl, hpre⟩
    · simp
    · simp only [List.length_append]; omega

/-! ### what one `coap_ws_read` may do, relative to S

`p` = pending bytes before, `av` = available bytes, `X` = the rest of the stream (not yet available). -/

def Prog (c : Prop) (av av' : Bytes) : Prop := av'.length ≤ av.length ∧ (c → av ≠ [] → av'.length < av.length)

def FrPost (mode : Mode) (X : Bytes) (c : Prop) (p av : Bytes) : Ret × St × Bytes → Prop
  | (.zero, st', av') =>
      (∃ p', WsInv mode st' (.fr p') ∧ frOf mode (p ++ (av ++ X)) = frOf mode (p' ++ (av' ++ X))) ∧ Prog c av av'
  | (.pkt pl, st', av') =>
      FrPre st' st'.rdHeader ∧ st'.rdHeader.length ≤ fsCap ∧
      st'.rdHeader.length + av'.length + 3 ≤ min p.length fsCap + av.length ∧
      frOf mode (p ++ (av ++ X)) =
        (deliver (Spec.decode .ws pl) (frOf mode (st'.rdHeader ++ (av' ++ X))).1, (frOf mode (st'.rdHeader ++ (av' ++ X))).2) ∧
      Prog c av av'
  | (.closed, _, _) => frOf mode (p ++ (av ++ X)) = ([], true)
  | (.err, _, _) => False
  | (.oob, _, _) => False

theorem FrPost_transfer (mode : Mode) (X : Bytes) (c c1 : Prop) (p av p1 av1 : Bytes) (res : Ret × St × Bytes)
    (h : FrPost mode X c1 p1 av1 res) (he : frOf mode (p ++ (av ++ X)) = frOf mode (p1 ++ (av1 ++ X)))
    (hl : min p1.length fsCap + av1.length ≤ min p.length fsCap + av.length) (hav : av1.length ≤ av.length)
    (hs : c → av ≠ [] → av1.length < av.length) : FrPost mode X c p av res := by
  obtain ⟨ret, st', av'⟩ := res
  cases ret with
  | err => exact h
  | oob => exact h
  | closed => simp only [FrPost] at h ⊢; rw [he]; exact h
  | zero =>
    simp only [FrPost] at h ⊢
    obtain ⟨⟨p', hi, hf⟩, hp1, _⟩ := h
    exact ⟨⟨p', hi, he.trans hf⟩, by omega, fun hc hne => by have := hs hc hne; omega⟩
  | pkt pl =>
    simp only [FrPost] at h ⊢
    obtain ⟨h1, h2, h3, h4, hp1, _⟩ := h
    exact ⟨h1, h2, by omega, he.trans h4, by omega, fun hc hne => by have := hs hc hne; omega⟩

theorem readData_post (mode : Mode) (X : Bytes) (st : St) (av data D : Bytes) (b0 b1 : UInt8) (r : Bytes)
    (hup : st.up = true) (hall : st.allHdrIn = true) (hds : DataSt mode st b0 b1 r)
    (hD : (match st.rxData with | some rx => rx.take st.dataOfs | none => data.take st.dataOfs) = D)
    (hlen : D.length = st.dataOfs) (hlt : st.dataOfs < st.dataSize) (hrx : st.rxData = none ∨ D ≠ [])
    (hpre : (b0 :: b1 :: r) <+: st.rdHeader) :
    FrPost mode X True (b0 :: b1 :: (r ++ D)) av (readData mode st av data rxBuf) := by
  have h := readData_spec mode X st av data D b0 b1 r hup hall hds hD hlen hlt hrx hpre
  generalize readData mode st av data rxBuf = res at h
  obtain ⟨ret, st', av'⟩ := res
  cases ret with
  | err => exact h
  | oob => exact h
  | closed => exact h.elim
  | zero =>
    simp only at h
    obtain ⟨hav, hinv⟩ := h
    subst hav
    simp only [FrPost]
    refine ⟨⟨b0 :: b1 :: (r ++ (D ++ av)), Or.inr hinv, by simp⟩, by simp, ?_⟩
    intro _ hne
    exact List.length_pos_iff.mpr hne
  | pkt pl =>
    simp only at h
    obtain ⟨hpre', hlt', hf⟩ := h
    simp only [FrPost]
    have hrd : st'.rdHeader = [] := hpre'.2.2.1
    refine ⟨by rw [hrd]; exact hpre', by rw [hrd]; simp, ?_, ?_, by omega, fun _ _ => hlt'⟩
    · rw [hrd]
      simp only [List.length_nil, List.length_cons, List.length_append, fsCap]
      omega
    · rw [hrd]
      simpa using hf

theorem key_append (b1 : Nat) (r data : Bytes) (hr : r.length = hExtra b1) (hmask : b1 / 128 = 1) :
    ((r ++ data).drop (hExt b1)).take 4 = (r.drop (hExt b1)).take 4 := by
  have hl : r.length = hExt b1 + 4 := by rw [hr]; unfold hExtra; rw [if_pos hmask]
  rw [List.drop_append_of_le_length (by omega), List.take_append_of_le_length (by rw [List.length_drop]; omega)]

theorem masked_of_server {mode : Mode} {b1 : Nat} (hm : ¬ (mode = .server ∧ ¬ b1 / 128 = 1)) (hs : mode = .server) :
    b1 / 128 = 1 := Classical.byContradiction fun hn => hm ⟨hs, hn⟩

/-- `afterHdr` against S; `ih` = the statement for the `goto next_frame` round -/
theorem afterHdr_spec (mode : Mode) (X : Bytes) (fuel : Nat)
    (ih : ∀ (st : St) (av p : Bytes), FrPre st p → p.length ≤ fsCap → p.length + av.length < fuel →
      FrPost mode X (p.length < fsCap) p av (readFrame mode rxBuf fuel st av))
    (st : St) (b0 b1 : UInt8) (r' av1 : Bytes) (hup : st.up = true) (hall : st.allHdrIn = false)
    (hrd : st.rdHeader = b0 :: b1 :: r') (hrx : st.rxData = none) (hcap : r'.length + 2 ≤ fsCap)
    (hfuel : r'.length + av1.length < fuel) (hnotfull : r'.length + 2 < fsCap → av1 = []) :
    FrPost mode X False (b0 :: b1 :: r') av1 (afterHdr mode fuel st b0 b1 r' av1) := by
  have hle := hExtra_le b1.toNat
  have hstream : (b0 :: b1 :: r') ++ (av1 ++ X) = b0 :: b1 :: (r' ++ (av1 ++ X)) := rfl
  by_cases hm : mode = .server ∧ ¬ b1.toNat / 128 = 1
  · simp only [afterHdr, if_pos hm, FrPost]
    rw [hstream, frOf_cons2, if_pos hm]
  by_cases hshort : r'.length < hExtra b1.toNat
  · simp only [afterHdr, if_neg hm, if_pos hshort, FrPost]
    have hav : av1 = [] := hnotfull (by simp only [fsCap]; omega)
    exact ⟨⟨b0 :: b1 :: r', Or.inl ⟨⟨hup, hall, hrd, hrx⟩, hm, hshort⟩, rfl⟩, Nat.le_refl _, fun h => h.elim⟩
  have hlong : ¬ (r' ++ (av1 ++ X)).length < hExtra b1.toNat := by rw [List.length_append]; omega
  by_cases hop : b0.toNat % 16 ≠ 2
  · simp only [afterHdr, if_neg hm, if_neg hshort, if_pos hop, FrPost]
    rw [hstream, frOf_cons2, if_neg hm, if_neg hlong, if_pos hop]
  have hop2 : b0.toNat % 16 = 2 := by omega
  by_cases hbig : hSize b1.toNat r' > rxBuf
  · simp only [afterHdr, if_neg hm, if_neg hshort, if_neg hop, if_pos hbig, FrPost]
    rw [hstream, frOf_cons2, if_neg hm, if_neg hlong, if_neg hop, hSize_append _ _ _ (by omega),
      if_pos (show hSize b1.toNat r' > maxFrame from hbig)]
  -- header complete and acceptable: r' = r ++ data
  have hsz : hSize b1.toNat r' ≤ maxFrame := Nat.le_of_not_gt hbig
  generalize he : hExtra b1.toNat = e at hshort hlong hle
  have hsplit : r' = r'.take e ++ r'.drop e := (List.take_append_drop e r').symm
  generalize hr : r'.take e = r at hsplit
  generalize hdata : r'.drop e = data at hsplit
  have hrl : r.length = hExtra b1.toNat := by rw [← hr, List.length_take, he]; omega
  have hdl : data.length + e = r'.length := by rw [← hdata, List.length_drop]; omega
  have hsize : hSize b1.toNat r' = hSize b1.toNat r := by rw [hsplit]; exact hSize_append _ _ _ (by omega)
  have hS : frOf mode ((b0 :: b1 :: r') ++ (av1 ++ X)) = frOf mode (b0 :: b1 :: (r ++ (data ++ (av1 ++ X)))) := by
    rw [hsplit]; simp
  have hF := frOf_frame mode b0 b1 r (data ++ (av1 ++ X)) hrl hm hop2 (by rw [← hsize]; exact hsz)
  rw [← hsize] at hF
  have hkeyeq : mode = .server → (if b1.toNat / 128 = 1 then (r'.drop (hExt b1.toNat)).take 4 else st.maskKey) =
      (r.drop (hExt b1.toNat)).take 4 := by
    intro hs
    have hmask := masked_of_server hm hs
    rw [if_pos hmask, hsplit, key_append _ _ _ hrl hmask]
  generalize hkey : (if b1.toNat / 128 = 1 then (r'.drop (hExt b1.toNat)).take 4 else st.maskKey) = key at hkeyeq
  generalize hsz' : hSize b1.toNat r' = size at hsz hF hbig hsize
  simp only [afterHdr, if_neg hm, he, if_neg hshort, if_neg hop, hsz', if_neg hbig, hdata, hkey]
  have hS' : frOf mode ((b0 :: b1 :: r') ++ (av1 ++ X)) = frOf mode ((b0 :: b1 :: (r ++ data)) ++ (av1 ++ X)) := by
    rw [hsplit]
  by_cases h0 : size = 0
  · -- frame without data
    have hE : frOf mode ((b0 :: b1 :: r') ++ (av1 ++ X)) = frOf mode (data ++ (av1 ++ X)) := by
      rw [hS, hF, h0]; simp
    rw [if_pos h0]
    by_cases hd : data.length > 0
    · rw [if_pos hd]
      have := ih { st with rdHeader := data, allHdrIn := false, maskKey := key, dataSize := size } av1 data
        ⟨hup, rfl, rfl, hrx⟩ (by omega) (by omega)
      exact FrPost_transfer mode X False _ _ _ _ _ _ this hE (by simp only [List.length_cons]; omega) (Nat.le_refl _)
        (fun h => h.elim)
    · rw [if_neg hd]
      have hdn : data = [] := List.length_eq_zero_iff.mp (by omega)
      simp only [FrPost]
      refine ⟨⟨[], Or.inl ⟨⟨hup, rfl, hdn, hrx⟩, trivial⟩, ?_⟩, Nat.le_refl _, fun h => h.elim⟩
      rw [hE, hdn]
  rw [if_neg h0]
  by_cases hd : data.length > 0
  · rw [if_pos hd]
    by_cases hle2 : data.length ≤ size
    · rw [if_pos hle2]
      by_cases heq : data.length = size
      · -- the whole payload is in the header buffer, nothing follows it there
        rw [if_pos heq]
        simp only [FrPost]
        refine ⟨⟨hup, rfl, rfl, hrx⟩, by simp, by simp only [List.length_nil, List.length_cons]; omega, ?_,
          Nat.le_refl _, fun h => h.elim⟩
        have hb : ¬ (data ++ (av1 ++ X)).length < size := by rw [List.length_append]; omega
        rw [hS, hF, if_neg hb, if_neg h0, List.take_left' heq, List.drop_left' heq]
        by_cases hs : mode = .server
        · simp only [hs, if_true, hkeyeq hs, xorKey_eq, List.nil_append]
        · simp only [hs, if_false, List.nil_append]
      · -- part of the payload is in the header buffer
        rw [if_neg heq]
        have := readData_post mode X
          { st with allHdrIn := true, maskKey := key, dataOfs := data.length, dataSize := size } av1 data data b0 b1 r
          hup rfl ⟨hrl, hm, hop2, hsize, by simp only; omega, hsz, hkeyeq⟩ (by simp only [hrx, List.take_length])
          rfl (by simp only; omega) (Or.inl hrx) (by rw [hrd, hsplit]; exact ⟨data, by simp⟩)
        exact FrPost_transfer mode X False _ _ _ _ _ _ this hS' (by rw [hsplit]; exact Nat.le_refl _) (Nat.le_refl _)
          (fun h => h.elim)
    · -- the header buffer holds the whole payload and the beginning of the next frame
      rw [if_neg hle2]
      simp only [FrPost]
      refine ⟨⟨hup, rfl, rfl, hrx⟩, by rw [List.length_drop]; omega,
        by simp only [List.length_drop, List.length_cons]; omega, ?_, Nat.le_refl _, fun h => h.elim⟩
      have hb : ¬ (data ++ (av1 ++ X)).length < size := by rw [List.length_append]; omega
      rw [hS, hF, if_neg hb, if_neg h0, List.take_append_of_le_length (by omega),
        List.drop_append_of_le_length (by omega)]
      by_cases hs : mode = .server
      · simp only [hs, if_true, hkeyeq hs, xorKey_eq]
      · simp only [hs, if_false]
  · -- header complete, no payload byte yet
    rw [if_neg hd]
    have hdn : data = [] := List.length_eq_zero_iff.mp (by omega)
    have := readData_post mode X
      { st with allHdrIn := true, maskKey := key, dataOfs := 0, dataSize := size } av1 [] [] b0 b1 r
      hup rfl ⟨hrl, hm, hop2, hsize, by simp only; omega, hsz, hkeyeq⟩ (by simp only [hrx, List.take_nil])
      rfl (by simp only; omega) (Or.inl hrx) (by rw [hrd, hsplit]; exact ⟨data, by simp⟩)
    rw [List.append_nil] at this
    exact FrPost_transfer mode X False _ _ _ _ _ _ this (by rw [hS', hdn, List.append_nil])
      (by rw [hsplit, hdn, List.append_nil]; exact Nat.le_refl _) (Nat.le_refl _) (fun h => h.elim)

theorem FrPost_imp (mode : Mode) (X : Bytes) (c c1 : Prop) (p av : Bytes) (res : Ret × St × Bytes)
    (h : FrPost mode X c1 p av res) (hc : c → c1) : FrPost mode X c p av res := by
  obtain ⟨ret, st', av'⟩ := res
  cases ret with
  | err => exact h
  | oob => exact h
  | closed => exact h
  | zero =>
    simp only [FrPost] at h ⊢
    exact ⟨h.1, h.2.1, fun x => h.2.2 (hc x)⟩
  | pkt pl =>
    simp only [FrPost] at h ⊢
    obtain ⟨h1, h2, h3, h4, hp1, hp2⟩ := h
    exact ⟨h1, h2, h3, h4, hp1, fun x => hp2 (hc x)⟩

/-- the reader between frames / inside a header: one `coap_ws_read` against S -/
theorem readFrame_spec (mode : Mode) (X : Bytes) : ∀ (fuel : Nat) (st : St) (av p : Bytes),
    FrPre st p → p.length ≤ fsCap → p.length + av.length < fuel →
    FrPost mode X (p.length < fsCap) p av (readFrame mode rxBuf fuel st av) := by
  intro fuel
  induction fuel with
  | zero => intro st av p _ _ h; omega
  | succ fuel ih =>
    intro st av p hpre hpl hfuel
    obtain ⟨hup, hall, hrd, hrx⟩ := hpre
    -- the header buffer after the read
    generalize hn : fsCap - p.length = n
    have hsplit : p ++ (av ++ X) = (p ++ av.take n) ++ (av.drop n ++ X) := by
      rw [List.append_assoc, ← List.append_assoc (av.take n), List.take_append_drop]
    have hlen_hdr : (p ++ av.take n).length + (av.drop n).length = p.length + av.length := by
      rw [List.length_append, List.length_take, List.length_drop]; omega
    have hdrop_le : (av.drop n).length ≤ av.length := by rw [List.length_drop]; omega
    have hstrict : p.length < fsCap → av ≠ [] → (av.drop n).length < av.length := by
      intro h1 h2
      have := List.length_pos_iff.mpr h2
      rw [List.length_drop]; omega
    have hcap : (p ++ av.take n).length ≤ fsCap := by
      rw [List.length_append, List.length_take]; omega
    -- a header buffer that is not full has consumed everything available
    have hnotfull : (p ++ av.take n).length < fsCap → av.drop n = [] ∧ p ++ av.take n = p ++ av := by
      intro h
      rw [List.length_append, List.length_take] at h
      have : av.length ≤ n := by omega
      exact ⟨List.drop_eq_nil_of_le this, by rw [List.take_of_length_le this]⟩
    generalize hhdr : p ++ av.take n = hdr at hsplit hlen_hdr hcap hnotfull
    have hh' : st.rdHeader ++ av.take (fsCap - st.rdHeader.length) = hdr := by rw [hrd, hn]; exact hhdr
    match hdr, hh' with
    | [], hh' =>
      have hs : (st.rdHeader ++ av.take (fsCap - st.rdHeader.length)).length < 2 := by rw [hh']; simp
      rw [readFrame_short mode fuel st av hall hs, hh', hrd, hn]
      obtain ⟨hd0, hpa⟩ := hnotfull (by simp [fsCap])
      simp only [FrPost]
      refine ⟨⟨[], Or.inl ⟨⟨hup, hall, rfl, hrx⟩, trivial⟩, ?_⟩, hdrop_le, hstrict⟩
      rw [hsplit]
    | [b], hh' =>
      have hs : (st.rdHeader ++ av.take (fsCap - st.rdHeader.length)).length < 2 := by rw [hh']; simp
      rw [readFrame_short mode fuel st av hall hs, hh', hrd, hn]
      simp only [FrPost]
      refine ⟨⟨[b], Or.inl ⟨⟨hup, hall, rfl, hrx⟩, trivial⟩, ?_⟩, hdrop_le, hstrict⟩
      rw [hsplit]
    | b0 :: b1 :: r', hh' =>
      rw [readFrame_hdr mode fuel st av b0 b1 r' hall hh', hrd, hn]
      simp only [List.length_cons] at hcap hlen_hdr hnotfull
      have := afterHdr_spec mode X fuel ih { st with rdHeader := b0 :: b1 :: r' } b0 b1 r' (av.drop n) hup hall rfl hrx
        (by omega) (by omega) (fun h => (hnotfull (by omega)).1)
      exact FrPost_transfer mode X _ False _ _ _ _ _ this (by rw [hsplit])
        (by simp only [List.length_cons]; omega) hdrop_le hstrict

end Coap
