import CoapVerif.Lemmas.EditRefine
/-
M-side lemmas for the editors (C04) and the builders (C01), part 4: every API call on the representing PDU, for
every capacity, as a deterministic function on the abstract message (`abs*`: return code and message after — refusals
included), and the relation of those outcomes to the specification's `Spec.applyEdit` (`Trace`).
-/
namespace Coap
open Coap.M

/-! ### the abstract outcome of the option-adding calls (deterministic, capacity included) -/

/-- placing option `n` (append behind the highest number, or insert in the middle): needs room for its encoding
relative to the option before it; `rc` = encoded size -/
def absPlace (ms : Nat) (a : Msg) (n : Nat) (v : Bytes) : Nat × Msg :=
  if ms = 0 ∨ (conc ms a).buf.length + (Spec.encOpt (n - prevNum n a.opts) v).length ≤ ms
  then ((Spec.encOpt (n - prevNum n a.opts) v).length, { a with opts := Spec.insertStable n v a.opts })
  else (0, a)

/-- coap_add_option_internal -/
def absAdd (ms : Nat) (a : Msg) (n : Nat) (v : Bytes) : Nat × Msg :=
  if v.length > 65804 then (0, a) else
  if n = lastNum a.opts ∧ ¬ repeatable n then (0, a) else
  absPlace ms (if Spec.hopApplies a.code n a.opts then (absPlace ms a 16 [16]).2 else a) n v

/-- coap_insert_option -/
def absInsert (ms : Nat) (a : Msg) (n : Nat) (v : Bytes) : Nat × Msg :=
  if v.length > 65804 then (0, a) else
  if n ≥ lastNum a.opts then absAdd ms a n v else absPlace ms a n v

theorem appendOption_total (ms : Nat) (a : Msg) (n : Nat) (v : Bytes) (hs : Shape a)
    (hn : lastNum a.opts ≤ n) (hn2 : n ≤ 65535) (hv : v.length ≤ 65804) :
    appendOption (conc ms a) n v = R.ok ((absPlace ms a n v).1, conc ms (absPlace ms a n v).2) := by
  have hall : ∀ o ∈ a.opts, o.1 ≤ n := fun o ho => Nat.le_trans (le_lastNum a.opts hs.2.1 o ho) hn
  unfold absPlace
  rw [prevNum_all n a.opts hall]
  by_cases hfit : ms = 0 ∨ (conc ms a).buf.length + (Spec.encOpt (n - lastNum a.opts) v).length ≤ ms
  · rw [if_pos hfit, appendOption_conc ms a n v hs hn hn2 hv hfit, insertStable_append n v a.opts hs.2.1 hn]
  · rw [if_neg hfit]
    have hδ : (n - lastNum a.opts) % 65536 = n - lastNum a.opts := Nat.mod_eq_of_lt (by omega)
    have hsz : optEncodeSize (n - lastNum a.opts) v.length = (Spec.encOpt (n - lastNum a.opts) v).length := by
      rw [optEncodeSize_eq, encOpt_length]
    exact appendOption_refused ms a n v ⟨fun h => hfit (Or.inl h), by
      rw [hδ, hsz]
      have : ¬ _ ≤ ms := fun h => hfit (Or.inr h)
      omega⟩

theorem insertBody_total (ms : Nat) (a : Msg) (n : Nat) (v : Bytes) (hs : Shape a) (hn : n < lastNum a.opts)
    (hv : v.length ≤ 65804) :
    insertBody (conc ms a) n v = R.ok ((absPlace ms a n v).1, conc ms (absPlace ms a n v).2) := by
  rw [insertBody_conc ms a n v hs hn hv]
  unfold absPlace
  split <;> rfl

theorem lastNum_hasOpt (os : List (Nat × Bytes)) (h : lastNum os ≠ 0) : Spec.hasOpt (lastNum os) os = true := by
  rcases List.eq_nil_or_concat os with rfl | ⟨init, l, hl⟩
  · simp [lastNum] at h
  · rw [List.concat_eq_append] at hl
    subst hl
    rw [lastNum_eq_lastD, lastD_append_cons, lastD_nil]
    simp [Spec.hasOpt]

theorem ins3_eq (pdu : Pdu) (n : Nat) (v : Bytes) :
    ins3 pdu n v = if v.length > 65804 then R.ok (0, pdu) else if n ≥ pdu.maxOpt then add2 pdu n v else insertBody pdu n v := rfl

theorem add2_hop (pdu : Pdu) (h : pdu.maxOpt < 16) : add2 pdu 16 [16] = appendOption pdu 16 [16] := by
  have h1 : ¬ (16 = pdu.maxOpt ∧ ¬ repeatable 16 = true) := by omega
  have h2 : ¬ (16 < pdu.maxOpt) := by omega
  simp [add2, addInternalK, h2]
  intro h'; omega

theorem Shape_insert (a : Msg) (n : Nat) (v : Bytes) (hs : Shape a) (hn : n ≤ 65535) (hv : v.length ≤ 65804) :
    Shape { a with opts := Spec.insertStable n v a.opts } := by
  obtain ⟨h1, h2, h3⟩ := hs
  refine ⟨h1, insertStable_sorted n v a.opts h2, ?_⟩
  intro o ho
  rcases (mem_insertStable n v a.opts o).mp ho with rfl | ho
  · exact ⟨hn, hv⟩
  · exact h3 o ho

theorem absPlace_shape (ms : Nat) (a : Msg) (n : Nat) (v : Bytes) (hs : Shape a) (hn : n ≤ 65535) (hv : v.length ≤ 65804) :
    Shape (absPlace ms a n v).2 := by
  unfold absPlace
  split
  · exact Shape_insert a n v hs hn hv
  · exact hs

/-- the implicit Hop-Limit insertion of coap_add_option_internal (result ignored by the caller) -/
theorem ins3_hop (ms : Nat) (a : Msg) (hs : Shape a) (hh : Spec.hasOpt 16 a.opts = false) :
    ins3 (conc ms a) 16 [16] = R.ok ((absPlace ms a 16 [16]).1, conc ms (absPlace ms a 16 [16]).2) := by
  have hne : lastNum a.opts ≠ 16 := by
    intro h
    have := lastNum_hasOpt a.opts (by omega)
    rw [h, hh] at this
    cases this
  have hmo : (conc ms a).maxOpt = lastNum a.opts := rfl
  rw [ins3_eq]
  have hl : ¬ (([16] : Bytes).length > 65804) := by simp
  rw [if_neg hl, hmo]
  by_cases hge : 16 ≥ lastNum a.opts
  · rw [if_pos hge, add2_hop _ (by rw [hmo]; omega)]
    exact appendOption_total ms a 16 [16] hs hge (by omega) (by simp)
  · rw [if_neg hge]
    exact insertBody_total ms a 16 [16] hs (by omega) (by simp)

theorem hopCond_conc (ms : Nat) (a : Msg) (n : Nat) (hs : Shape a) :
    (((conc ms a).code ≠ 0 ∧ (conc ms a).code < 32) ∧ (n = 35 ∨ n = 39) ∧ ¬ hasOption (conc ms a) 16 = true) ↔
      Spec.hopApplies a.code n a.opts = true := by
  rw [hasOption_conc ms a hs 16]
  have hc : (conc ms a).code = a.code := rfl
  rw [hc]
  simp [Spec.hopApplies]
  constructor
  · rintro ⟨⟨h1, h2⟩, h3, h4⟩; exact ⟨⟨⟨by omega, h2⟩, h3⟩, h4⟩
  · rintro ⟨⟨⟨h1, h2⟩, h3⟩, h4⟩; exact ⟨⟨by omega, h2⟩, h3, h4⟩

theorem absPlace_fields (ms : Nat) (a : Msg) (n : Nat) (v : Bytes) :
    (absPlace ms a n v).2.code = a.code ∧ (absPlace ms a n v).2.type = a.type ∧ (absPlace ms a n v).2.mid = a.mid ∧
    (absPlace ms a n v).2.token = a.token ∧ (absPlace ms a n v).2.payload = a.payload := by
  unfold absPlace
  split <;> exact ⟨rfl, rfl, rfl, rfl, rfl⟩

/-- `coap_add_option_internal` on the representing PDU -/
theorem addOptionInternal_conc (ms : Nat) (a : Msg) (n : Nat) (v : Bytes) (hs : Shape a) (hn : n ≤ 65535) :
    addOptionInternal (conc ms a) n v = R.ok ((absAdd ms a n v).1, conc ms (absAdd ms a n v).2) := by
  unfold absAdd addOptionInternal addInternalK
  by_cases hv : v.length > 65804
  · simp only [hv, if_true]
  · simp only [hv, if_false]
    have hmo : (conc ms a).maxOpt = lastNum a.opts := rfl
    rw [hmo]
    by_cases hrep : n = lastNum a.opts ∧ ¬ repeatable n = true
    · rw [if_pos hrep, if_pos hrep]
    · rw [if_neg hrep, if_neg hrep]
      -- the PDU after the optional Hop-Limit insertion
      obtain ⟨a1, ha1⟩ : ∃ a1, a1 = (if Spec.hopApplies a.code n a.opts = true then (absPlace ms a 16 [16]).2 else a) := ⟨_, rfl⟩
      have hpdu : (if ((conc ms a).code ≠ 0 ∧ (conc ms a).code < 32) ∧ (n = 35 ∨ n = 39) ∧ ¬ hasOption (conc ms a) 16 = true
          then (ins3 (conc ms a) 16 [16] >>= fun r => R.ok r.2) else R.ok (conc ms a) : R Pdu) = R.ok (conc ms a1) := by
        by_cases hhop : Spec.hopApplies a.code n a.opts = true
        · rw [if_pos ((hopCond_conc ms a n hs).mpr hhop)]
          have h16 : Spec.hasOpt 16 a.opts = false := by
            simp [Spec.hopApplies] at hhop; exact hhop.2
          rw [ins3_hop ms a hs h16, ha1, if_pos hhop]; rfl
        · rw [if_neg (fun h => hhop ((hopCond_conc ms a n hs).mp h)), ha1, if_neg hhop]
      have hs1 : Shape a1 := by
        rw [ha1]; split
        · exact absPlace_shape ms a 16 [16] hs (by omega) (by simp)
        · exact hs
      rw [← ha1]
      show ((if _ then _ else _ : R Pdu) >>= _) = _
      rw [hpdu, R.bind_ok]
      have hmo1 : (conc ms a1).maxOpt = lastNum a1.opts := rfl
      rw [hmo1]
      by_cases hlt : n < lastNum a1.opts
      · rw [if_pos hlt, ins3_eq, if_neg hv, hmo1, if_neg (by omega)]
        exact insertBody_total ms a1 n v hs1 hlt (by omega)
      · rw [if_neg hlt]
        exact appendOption_total ms a1 n v hs1 (by omega) hn (by omega)

/-- `coap_insert_option` on the representing PDU -/
theorem insertOption_conc (ms : Nat) (a : Msg) (n : Nat) (v : Bytes) (hs : Shape a) (hn : n ≤ 65535) :
    insertOption (conc ms a) n v = R.ok ((absInsert ms a n v).1, conc ms (absInsert ms a n v).2) := by
  unfold absInsert insertOption insertK
  have hmo : (conc ms a).maxOpt = lastNum a.opts := rfl
  rw [hmo]
  by_cases hv : v.length > 65804
  · simp only [hv, if_true]
  · simp only [hv, if_false]
    by_cases hge : n ≥ lastNum a.opts
    · rw [if_pos hge, if_pos hge]
      exact addOptionInternal_conc ms a n v hs hn
    · rw [if_neg hge, if_neg hge]
      exact insertBody_total ms a n v hs (by omega) (by omega)

end Coap
