import CoapVerif.Lemmas.EditRefine
/-
M-side lemmas for the editors (C04) and the builders (C01), part 4: every API call on the representing PDU, for
every capacity, as a deterministic function on the abstract message (`abs*`: return code and message after — refusals
included), and the relation of those outcomes to the specification's `Spec.applyEdit` (`Trace`).
-/
namespace Coap
open Coap.M

/-! ### the abstract outcome of the option-adding calls (deterministic, capacity included) -/

/-- placing option `n` (append behind the highest number, or insert in the middle): needs room for its encoding
relative to the option before it; `rc` = encoded size -/
def absPlace (ms : Nat) (a : Msg) (n : Nat) (v : Bytes) : Nat × Msg :=
  if ms = 0 ∨ (conc ms a).buf.length + (Spec.encOpt (n - prevNum n a.opts) v).length ≤ ms
  then ((Spec.encOpt (n - prevNum n a.opts) v).length, { a with opts := Spec.insertStable n v a.opts })
  else (0, a)

/-- coap_add_option_internal (after the fix: a refused option takes its implicit Hop-Limit with it) -/
def absAdd (ms : Nat) (a : Msg) (n : Nat) (v : Bytes) : Nat × Msg :=
  if v.length > 65804 then (0, a) else
  if n = lastNum a.opts ∧ ¬ repeatable n then (0, a) else
  if (absPlace ms (if Spec.hopApplies a.code n a.opts then (absPlace ms a 16 [16]).2 else a) n v).1 = 0 then (0, a)
  else absPlace ms (if Spec.hopApplies a.code n a.opts then (absPlace ms a 16 [16]).2 else a) n v

/-- coap_insert_option -/
def absInsert (ms : Nat) (a : Msg) (n : Nat) (v : Bytes) : Nat × Msg :=
  if v.length > 65804 then (0, a) else
  if n ≥ lastNum a.opts then absAdd ms a n v else absPlace ms a n v

theorem appendOption_total (ms : Nat) (a : Msg) (n : Nat) (v : Bytes) (hs : Shape a)
    (hn : lastNum a.opts ≤ n) (hn2 : n ≤ 65535) (hv : v.length ≤ 65804) :
    appendOption (conc ms a) n v = R.ok ((absPlace ms a n v).1, conc ms (absPlace ms a n v).2) := by
  have hall : ∀ o ∈ a.opts, o.1 ≤ n := fun o ho => Nat.le_trans (le_lastNum a.opts hs.2.1 o ho) hn
  unfold absPlace
  rw [prevNum_all n a.opts hall]
  by_cases hfit : ms = 0 ∨ (conc ms a).buf.length + (Spec.encOpt (n - lastNum a.opts) v).length ≤ ms
  · rw [if_pos hfit, appendOption_conc ms a n v hs hn hn2 hv hfit, insertStable_append n v a.opts hs.2.1 hn]
  · rw [if_neg hfit]
    have hδ : (n - lastNum a.opts) % 65536 = n - lastNum a.opts := Nat.mod_eq_of_lt (by omega)
    have hsz : optEncodeSize (n - lastNum a.opts) v.length = (Spec.encOpt (n - lastNum a.opts) v).length := by
      rw [optEncodeSize_eq, encOpt_length]
    exact appendOption_refused ms a n v ⟨fun h => hfit (Or.inl h), by
      rw [hδ, hsz]
      have : ¬ _ ≤ ms := fun h => hfit (Or.inr h)
      omega⟩

theorem insertBody_total (ms : Nat) (a : Msg) (n : Nat) (v : Bytes) (hs : Shape a) (hn : n < lastNum a.opts)
    (hv : v.length ≤ 65804) :
    insertBody (conc ms a) n v = R.ok ((absPlace ms a n v).1, conc ms (absPlace ms a n v).2) := by
  rw [insertBody_conc ms a n v hs hn hv]
  unfold absPlace
  split <;> rfl

theorem lastNum_hasOpt (os : List (Nat × Bytes)) (h : lastNum os ≠ 0) : Spec.hasOpt (lastNum os) os = true := by
  rcases List.eq_nil_or_concat os with rfl | ⟨init, l, hl⟩
  · simp [lastNum] at h
  · rw [List.concat_eq_append] at hl
    subst hl
    rw [lastNum_eq_lastD, lastD_append_cons, lastD_nil]
    simp [Spec.hasOpt]

theorem ins3_eq (pdu : Pdu) (n : Nat) (v : Bytes) :
    ins3 pdu n v = if v.length > 65804 then R.ok (0, pdu) else if n ≥ pdu.maxOpt then add2 pdu n v else insertBody pdu n v := rfl

theorem R_bind_ret {α : Type} (x : R α) : (x >>= fun r => R.ok r) = x := by cases x <;> rfl

theorem absPlace_zero (ms : Nat) (a : Msg) (n : Nat) (v : Bytes) (h : (absPlace ms a n v).1 = 0) :
    (absPlace ms a n v).2 = a := by
  unfold absPlace at h ⊢
  split
  · rename_i hf
    rw [if_pos hf] at h
    have := encOpt_length (n - prevNum n a.opts) v
    simp only at h
    omega
  · rfl

theorem absPlace_nonzero (ms : Nat) (a : Msg) (n : Nat) (v : Bytes) (h : (absPlace ms a n v).1 ≠ 0) :
    (absPlace ms a n v).2 = { a with opts := Spec.insertStable n v a.opts } := by
  unfold absPlace at h ⊢
  split
  · rfl
  · rename_i hf
    rw [if_neg hf] at h
    exact absurd rfl h

theorem removeFirst_insertStable (n : Nat) (v : Bytes) (os : List (Nat × Bytes)) (h : Spec.hasOpt n os = false) :
    Spec.removeFirst n (Spec.insertStable n v os) = os := by
  induction os with
  | nil => simp [Spec.insertStable, Spec.removeFirst]
  | cons o os ih =>
    rw [hasOpt_cons] at h
    simp at h
    by_cases ho : o.1 ≤ n
    · simp [Spec.insertStable, ho, Spec.removeFirst, h.1, ih h.2]
    · simp [Spec.insertStable, ho, Spec.removeFirst]

theorem hasOpt_insertStable (n : Nat) (v : Bytes) (os : List (Nat × Bytes)) :
    Spec.hasOpt n (Spec.insertStable n v os) = true := by
  unfold Spec.hasOpt
  rw [List.any_eq_true]
  exact ⟨(n, v), (mem_insertStable n v os (n, v)).mpr (Or.inl rfl), by simp⟩

theorem add2_hop (pdu : Pdu) (h : pdu.maxOpt < 16) : add2 pdu 16 [16] = appendOption pdu 16 [16] := by
  have h1 : ¬ (16 = pdu.maxOpt ∧ ¬ repeatable 16 = true) := by omega
  have h2 : ¬ (16 < pdu.maxOpt) := by omega
  simp [add2, addInternalK, h2]
  rw [R_bind_ret, if_neg (by omega)]

theorem Shape_insert (a : Msg) (n : Nat) (v : Bytes) (hs : Shape a) (hn : n ≤ 65535) (hv : v.length ≤ 65804) :
    Shape { a with opts := Spec.insertStable n v a.opts } := by
  obtain ⟨h1, h2, h3⟩ := hs
  refine ⟨h1, insertStable_sorted n v a.opts h2, ?_⟩
  intro o ho
  rcases (mem_insertStable n v a.opts o).mp ho with rfl | ho
  · exact ⟨hn, hv⟩
  · exact h3 o ho

theorem absPlace_shape (ms : Nat) (a : Msg) (n : Nat) (v : Bytes) (hs : Shape a) (hn : n ≤ 65535) (hv : v.length ≤ 65804) :
    Shape (absPlace ms a n v).2 := by
  unfold absPlace
  split
  · exact Shape_insert a n v hs hn hv
  · exact hs

/-- the implicit Hop-Limit insertion of coap_add_option_internal (result ignored by the caller) -/
theorem ins3_hop (ms : Nat) (a : Msg) (hs : Shape a) (hh : Spec.hasOpt 16 a.opts = false) :
    ins3 (conc ms a) 16 [16] = R.ok ((absPlace ms a 16 [16]).1, conc ms (absPlace ms a 16 [16]).2) := by
  have hne : lastNum a.opts ≠ 16 := by
    intro h
    have := lastNum_hasOpt a.opts (by omega)
    rw [h, hh] at this
    cases this
  have hmo : (conc ms a).maxOpt = lastNum a.opts := rfl
  rw [ins3_eq]
  have hl : ¬ (([16] : Bytes).length > 65804) := by simp
  rw [if_neg hl, hmo]
  by_cases hge : 16 ≥ lastNum a.opts
  · rw [if_pos hge, add2_hop _ (by rw [hmo]; omega)]
    exact appendOption_total ms a 16 [16] hs hge (by omega) (by simp)
  · rw [if_neg hge]
    exact insertBody_total ms a 16 [16] hs (by omega) (by simp)

theorem hopCond_conc (ms : Nat) (a : Msg) (n : Nat) (hs : Shape a) :
    (((conc ms a).code ≠ 0 ∧ (conc ms a).code < 32) ∧ (n = 35 ∨ n = 39) ∧ ¬ hasOption (conc ms a) 16 = true) ↔
      Spec.hopApplies a.code n a.opts = true := by
  rw [hasOption_conc ms a hs 16]
  have hc : (conc ms a).code = a.code := rfl
  rw [hc]
  simp [Spec.hopApplies]
  constructor
  · rintro ⟨⟨h1, h2⟩, h3, h4⟩; exact ⟨⟨⟨by omega, h2⟩, h3⟩, h4⟩
  · rintro ⟨⟨⟨h1, h2⟩, h3⟩, h4⟩; exact ⟨⟨by omega, h2⟩, h3, h4⟩

theorem absPlace_fields (ms : Nat) (a : Msg) (n : Nat) (v : Bytes) :
    (absPlace ms a n v).2.code = a.code ∧ (absPlace ms a n v).2.type = a.type ∧ (absPlace ms a n v).2.mid = a.mid ∧
    (absPlace ms a n v).2.token = a.token ∧ (absPlace ms a n v).2.payload = a.payload := by
  unfold absPlace
  split <;> exact ⟨rfl, rfl, rfl, rfl, rfl⟩

theorem addInternalK_eq (ins : Pdu → Nat → Bytes → R (Nat × Pdu)) (pdu : Pdu) (n : Nat) (v : Bytes) :
    addInternalK ins pdu n v =
      if v.length > 65804 then R.ok (0, pdu) else
      if n = pdu.maxOpt ∧ ¬ repeatable n then R.ok (0, pdu) else
      (if (pdu.code ≠ 0 ∧ pdu.code < 32) ∧ (n = 35 ∨ n = 39) ∧ ¬ hasOption pdu 16
        then (ins pdu 16 [16] >>= fun r => R.ok (r.2, decide (r.1 ≠ 0))) else R.ok (pdu, false) : R (Pdu × Bool)) >>= fun ph =>
      (if n < ph.1.maxOpt then ins ph.1 n v else appendOption ph.1 n v) >>= fun r =>
      if r.1 = 0 ∧ ph.2 = true then (removeOption r.2 16 >>= fun r2 => R.ok (0, r2.2)) else R.ok r := rfl

/-- `coap_add_option_internal` on the representing PDU -/
theorem addOptionInternal_conc (ms : Nat) (a : Msg) (n : Nat) (v : Bytes) (hs : Shape a) (hn : n ≤ 65535) :
    addOptionInternal (conc ms a) n v = R.ok ((absAdd ms a n v).1, conc ms (absAdd ms a n v).2) := by
  unfold absAdd addOptionInternal
  rw [addInternalK_eq]
  by_cases hv : v.length > 65804
  · simp only [hv, if_true]
  · simp only [hv, if_false]
    have hmo : (conc ms a).maxOpt = lastNum a.opts := rfl
    rw [hmo]
    by_cases hrep : n = lastNum a.opts ∧ ¬ repeatable n = true
    · rw [if_pos hrep, if_pos hrep]
    · rw [if_neg hrep, if_neg hrep]
      -- the PDU after the optional Hop-Limit insertion, and `hop_limit_added`
      obtain ⟨a1, ha1⟩ : ∃ a1, a1 = (if Spec.hopApplies a.code n a.opts = true then (absPlace ms a 16 [16]).2 else a) := ⟨_, rfl⟩
      obtain ⟨added, hadded⟩ : ∃ b : Bool, b = (if Spec.hopApplies a.code n a.opts = true
          then decide ((absPlace ms a 16 [16]).1 ≠ 0) else false) := ⟨_, rfl⟩
      have hpdu : (if ((conc ms a).code ≠ 0 ∧ (conc ms a).code < 32) ∧ (n = 35 ∨ n = 39) ∧ ¬ hasOption (conc ms a) 16 = true
          then (ins3 (conc ms a) 16 [16] >>= fun r => R.ok (r.2, decide (r.1 ≠ 0))) else R.ok (conc ms a, false) : R (Pdu × Bool)) =
            R.ok (conc ms a1, added) := by
        by_cases hhop : Spec.hopApplies a.code n a.opts = true
        · rw [if_pos ((hopCond_conc ms a n hs).mpr hhop)]
          have h16 : Spec.hasOpt 16 a.opts = false := by
            simp [Spec.hopApplies] at hhop; exact hhop.2
          rw [ins3_hop ms a hs h16, ha1, hadded, if_pos hhop, if_pos hhop]; rfl
        · rw [if_neg (fun h => hhop ((hopCond_conc ms a n hs).mp h)), ha1, hadded, if_neg hhop, if_neg hhop]
      -- the abstract facts about the two cases of `hop_limit_added`
      have hfacts : (added = true → Spec.hasOpt 16 a.opts = false ∧
            a1 = { a with opts := Spec.insertStable 16 [16] a.opts }) ∧ (added = false → a1 = a) := by
        by_cases hhop : Spec.hopApplies a.code n a.opts = true
        · rw [hadded, ha1, if_pos hhop, if_pos hhop]
          have h16 : Spec.hasOpt 16 a.opts = false := by
            simp [Spec.hopApplies] at hhop; exact hhop.2
          constructor
          · intro h
            exact ⟨h16, absPlace_nonzero ms a 16 [16] (by simpa using h)⟩
          · intro h
            exact absPlace_zero ms a 16 [16] (by simpa using h)
        · rw [hadded, ha1, if_neg hhop, if_neg hhop]
          exact ⟨(fun h => by cases h), fun _ => rfl⟩
      have hs1 : Shape a1 := by
        rw [ha1]; split
        · exact absPlace_shape ms a 16 [16] hs (by omega) (by simp)
        · exact hs
      rw [← ha1]
      rw [hpdu, R.bind_ok]
      simp only []
      have hmo1 : (conc ms a1).maxOpt = lastNum a1.opts := rfl
      rw [hmo1]
      have hplace : (if n < lastNum a1.opts then ins3 (conc ms a1) n v else appendOption (conc ms a1) n v) =
          R.ok ((absPlace ms a1 n v).1, conc ms (absPlace ms a1 n v).2) := by
        by_cases hlt : n < lastNum a1.opts
        · rw [if_pos hlt, ins3_eq, if_neg hv, hmo1, if_neg (by omega)]
          exact insertBody_total ms a1 n v hs1 hlt (by omega)
        · rw [if_neg hlt]
          exact appendOption_total ms a1 n v hs1 (by omega) hn (by omega)
      rw [hplace, R.bind_ok]
      simp only []
      by_cases hz : (absPlace ms a1 n v).1 = 0
      · rw [if_pos hz]
        have h2 := absPlace_zero ms a1 n v hz
        cases hb : added with
        | true =>
          obtain ⟨h16, he⟩ := hfacts.1 hb
          have hc : (absPlace ms a1 n v).1 = 0 ∧ true = true := ⟨hz, rfl⟩
          rw [if_pos hc, h2, removeOption_conc ms a1 16 hs1]
          have hh : Spec.hasOpt 16 a1.opts = true := by rw [he]; exact hasOpt_insertStable 16 [16] a.opts
          rw [if_pos hh, R.bind_ok]
          have : ({ a1 with opts := Spec.removeFirst 16 a1.opts } : Msg) = a := by
            rw [he]
            show ({ a with opts := Spec.removeFirst 16 (Spec.insertStable 16 [16] a.opts) } : Msg) = a
            rw [removeFirst_insertStable 16 [16] a.opts h16]
          simp only [this]
        | false =>
          have hc : ¬ ((absPlace ms a1 n v).1 = 0 ∧ false = true) := fun h => by cases h.2
          rw [if_neg hc, h2, hz, hfacts.2 hb]
      · rw [if_neg hz]
        have hc : ¬ ((absPlace ms a1 n v).1 = 0 ∧ added = true) := fun h => hz h.1
        rw [if_neg hc]

/-- `coap_insert_option` on the representing PDU -/
theorem insertOption_conc (ms : Nat) (a : Msg) (n : Nat) (v : Bytes) (hs : Shape a) (hn : n ≤ 65535) :
    insertOption (conc ms a) n v = R.ok ((absInsert ms a n v).1, conc ms (absInsert ms a n v).2) := by
  unfold absInsert insertOption insertK
  have hmo : (conc ms a).maxOpt = lastNum a.opts := rfl
  rw [hmo]
  by_cases hv : v.length > 65804
  · simp only [hv, if_true]
  · simp only [hv, if_false]
    by_cases hge : n ≥ lastNum a.opts
    · rw [if_pos hge, if_pos hge]
      exact addOptionInternal_conc ms a n v hs hn
    · rw [if_neg hge, if_neg hge]
      exact insertBody_total ms a n v hs (by omega) (by omega)

/-- coap_update_option -/
def absUpdate (ms : Nat) (a : Msg) (n : Nat) (v : Bytes) : Nat × Msg :=
  if v.length > 65804 then (0, a) else
  if Spec.hasOpt n a.opts = true then
    if (conc ms { a with opts := Spec.replaceFirst n v a.opts }).buf.length ≤ (conc ms a).buf.length ∨ ms = 0 ∨
       (conc ms { a with opts := Spec.replaceFirst n v a.opts }).buf.length ≤ ms
    then (1, { a with opts := Spec.replaceFirst n v a.opts }) else (0, a)
  else absInsert ms a n v

/-- coap_remove_option -/
def absRemove (a : Msg) (n : Nat) : Nat × Msg :=
  if Spec.hasOpt n a.opts = true then (1, { a with opts := Spec.removeFirst n a.opts }) else (0, a)

/-- coap_update_token -/
def absSetToken (ms : Nat) (a : Msg) (t : Bytes) : Nat × Msg :=
  if t.length > 65804 then (0, a) else
  if (Spec.encToken t).length ≤ (Spec.encToken a.token).length ∨ ms = 0 ∨ (conc ms { a with token := t }).buf.length ≤ ms
  then (1, { a with token := t }) else (0, a)

/-- coap_add_token -/
def absAddToken (ms : Nat) (a : Msg) (t : Bytes) : Nat × Msg :=
  if (conc ms a).buf ≠ [] ∨ t.length > 65804 ∨ (ms ≠ 0 ∧ (Spec.extBytes t.length).length + t.length > ms) then (0, a)
  else (1, { a with token := t })

/-- coap_add_data -/
def absAddData (ms : Nat) (a : Msg) (d : Bytes) : Nat × Msg :=
  if d = [] then (1, a) else
  if a.payload ≠ [] ∨ (ms ≠ 0 ∧ (conc ms a).buf.length + d.length + 1 > ms) then (0, a) else (1, { a with payload := d })

/-- every API call, on the abstract message -/
def absCall (ms : Nat) (a : Msg) : Call → Nat × Msg
  | .addToken t => absAddToken ms a t
  | .addOption n v => if a.payload ≠ [] then (0, a) else absAdd ms a n v
  | .insertOption n v => absInsert ms a n v
  | .updateOption n v => absUpdate ms a n v
  | .removeOption n => absRemove a n
  | .updateToken t => absSetToken ms a t
  | .addData d => absAddData ms a d

/-- `coap_option_num_t` is `uint16_t` -/
def callNumOk : Call → Prop
  | .addOption n _ => n ≤ 65535
  | .insertOption n _ => n ≤ 65535
  | .updateOption n _ => n ≤ 65535
  | .removeOption n => n ≤ 65535
  | _ => True

instance (c : Call) : Decidable (callNumOk c) := by
  cases c <;> unfold callNumOk <;> infer_instance

theorem updateOption_conc (ms : Nat) (a : Msg) (n : Nat) (v : Bytes) (hs : Shape a) (hn : n ≤ 65535) :
    updateOption (conc ms a) n v = R.ok ((absUpdate ms a n v).1, conc ms (absUpdate ms a n v).2) := by
  unfold absUpdate
  by_cases hv : v.length > 65804
  · simp only [hv, if_true, updateOption]
  · rw [if_neg hv]
    cases hh : Spec.hasOpt n a.opts with
    | true =>
      rw [updateOption_found ms a n v hs (by omega) hh]
      simp only [if_true]
      split <;> rfl
    | false =>
      have : (false = true) = False := by simp
      simp only [this, if_false]
      unfold updateOption
      simp only [hv, if_false, items_conc ms a hs, findEq_none n a.opts _ _ hh]
      exact insertOption_conc ms a n v hs hn

theorem removeOption_total (ms : Nat) (a : Msg) (n : Nat) (hs : Shape a) :
    removeOption (conc ms a) n = R.ok ((absRemove a n).1, conc ms (absRemove a n).2) := by
  rw [removeOption_conc ms a n hs]
  unfold absRemove
  split <;> rfl

theorem encToken_nil_iff (t : Bytes) : Spec.encToken t = [] ↔ t = [] := by
  constructor
  · intro h
    have := congrArg List.length h
    rw [encToken_length] at this
    simp only [List.length_nil] at this
    exact List.eq_nil_of_length_eq_zero (by omega)
  · rintro rfl; rfl

theorem conc_buf_nil (ms : Nat) (a : Msg) (h : (conc ms a).buf = []) : a = ⟨a.type, a.code, a.mid, [], [], []⟩ := by
  have hl := conc_buf_length ms a
  rw [h] at hl
  simp only [List.length_nil] at hl
  have h1 : a.token = [] := List.eq_nil_of_length_eq_zero (by omega)
  have h2 : a.opts = [] := List.eq_nil_of_length_eq_zero (by have := encOpts_length_ge 0 a.opts; omega)
  have h3 : a.payload = [] := by
    by_cases hp : a.payload = []
    · exact hp
    · have : (Spec.encPayload a.payload).length = a.payload.length + 1 := by simp [Spec.encPayload, hp]
      omega
  cases a
  simp only at h1 h2 h3
  subst h1 h2 h3
  rfl

theorem addToken_total (ms : Nat) (a : Msg) (t : Bytes) :
    addToken (conc ms a) t = R.ok ((absAddToken ms a t).1, conc ms (absAddToken ms a t).2) := by
  unfold absAddToken
  by_cases h : (conc ms a).buf ≠ [] ∨ t.length > 65804 ∨ (ms ≠ 0 ∧ (Spec.extBytes t.length).length + t.length > ms)
  · rw [if_pos h]; exact addToken_refused ms a t h
  · rw [if_neg h]
    have hb : (conc ms a).buf = [] := by
      by_cases hb : (conc ms a).buf = []
      · exact hb
      · exact absurd (Or.inl hb) h
    have ha := conc_buf_nil ms a hb
    have ht : t.length ≤ 65804 := by
      have : ¬ t.length > 65804 := fun x => h (Or.inr (Or.inl x))
      omega
    have hfit : ms = 0 ∨ (Spec.extBytes t.length).length + t.length ≤ ms := by
      by_cases h0 : ms = 0
      · exact Or.inl h0
      · right
        have : ¬ ((Spec.extBytes t.length).length + t.length > ms) := fun x => h (Or.inr (Or.inr ⟨h0, x⟩))
        omega
    have := addToken_conc ms a.type a.code a.mid t ht hfit
    rw [← ha] at this
    rw [this]
    show _ = R.ok (1, conc ms { a with token := t })
    rw [ha]

theorem addData_total (ms : Nat) (a : Msg) (d : Bytes) :
    addData (conc ms a) d = R.ok ((absAddData ms a d).1, conc ms (absAddData ms a d).2) := by
  unfold absAddData
  by_cases hd : d = []
  · subst hd; rw [if_pos rfl]; exact addData_empty ms a
  · rw [if_neg hd]
    by_cases h : a.payload ≠ [] ∨ (ms ≠ 0 ∧ (conc ms a).buf.length + d.length + 1 > ms)
    · rw [if_pos h]; exact addData_refused ms a d hd h
    · rw [if_neg h]
      have hp : a.payload = [] := by
        by_cases hp : a.payload = []
        · exact hp
        · exact absurd (Or.inl hp) h
      have hfit : ms = 0 ∨ (conc ms a).buf.length + d.length + 1 ≤ ms := by
        by_cases h0 : ms = 0
        · exact Or.inl h0
        · right
          have : ¬ ((conc ms a).buf.length + d.length + 1 > ms) := fun x => h (Or.inr ⟨h0, x⟩)
          omega
      exact addData_conc ms a d hp hd hfit

theorem updateToken_total (ms : Nat) (a : Msg) (t : Bytes) :
    updateToken (conc ms a) t = R.ok ((absSetToken ms a t).1, conc ms (absSetToken ms a t).2) := by
  unfold absSetToken
  by_cases hb : (conc ms a).buf = []
  · -- empty PDU: coap_update_token falls through to coap_add_token
    have ha := conc_buf_nil ms a hb
    have hut : updateToken (conc ms a) t = addToken (conc ms a) t := by
      unfold updateToken; rw [hb]; simp
    rw [hut, addToken_total]
    unfold absAddToken
    have hnb : ¬ ((conc ms a).buf ≠ []) := by simp [hb]
    have htok : a.token = [] := by rw [ha]
    have hlen : (conc ms { a with token := t }).buf.length = (Spec.extBytes t.length).length + t.length := by
      rw [conc_buf_length]
      have h2 : a.opts = [] := by rw [ha]
      have h3 : a.payload = [] := by rw [ha]
      simp [h2, h3, Spec.encOpts, Spec.encPayload]
    by_cases hv : t.length > 65804
    · have : (conc ms a).buf ≠ [] ∨ t.length > 65804 ∨ (ms ≠ 0 ∧ (Spec.extBytes t.length).length + t.length > ms) :=
        Or.inr (Or.inl hv)
      rw [if_pos this, if_pos hv]
    · rw [if_neg hv]
      rw [hlen, htok, encToken_length]
      by_cases hfit : (Spec.extBytes t.length).length + t.length ≤ (Spec.encToken ([] : Bytes)).length ∨ ms = 0 ∨
          (Spec.extBytes t.length).length + t.length ≤ ms
      · have : ¬ ((conc ms a).buf ≠ [] ∨ t.length > 65804 ∨ (ms ≠ 0 ∧ (Spec.extBytes t.length).length + t.length > ms)) := by
          rintro (h | h | ⟨h1, h2⟩)
          · exact hnb h
          · exact hv h
          · rcases hfit with h | h | h
            · have h0 : (Spec.encToken ([] : Bytes)).length = 0 := rfl
              rw [h0] at h; omega
            · exact h1 h
            · omega
        rw [if_neg this, if_pos hfit]
      · have : (conc ms a).buf ≠ [] ∨ t.length > 65804 ∨ (ms ≠ 0 ∧ (Spec.extBytes t.length).length + t.length > ms) := by
          refine Or.inr (Or.inr ⟨fun h => hfit (Or.inr (Or.inl h)), ?_⟩)
          have : ¬ _ ≤ ms := fun h => hfit (Or.inr (Or.inr h))
          omega
        rw [if_pos this, if_neg hfit]
  · by_cases hv : t.length > 65804
    · rw [if_pos hv]
      have hlen : ¬ ((conc ms a).buf.length = 0) := fun h => hb (List.eq_nil_of_length_eq_zero h)
      unfold updateToken
      simp only [hlen, if_false, tokBias_none t.length hv]
    · rw [if_neg hv]
      by_cases hfit : (Spec.encToken t).length ≤ (Spec.encToken a.token).length ∨ ms = 0 ∨
          (conc ms { a with token := t }).buf.length ≤ ms
      · rw [if_pos hfit]
        exact updateToken_conc ms a t (by omega) hb hfit
      · rw [if_neg hfit]
        have hlen : ¬ ((conc ms a).buf.length = 0) := fun h => hb (List.eq_nil_of_length_eq_zero h)
        have h1 : ¬ (Spec.encToken t).length ≤ (Spec.encToken a.token).length := fun h => hfit (Or.inl h)
        have h2 : ¬ ms = 0 := fun h => hfit (Or.inr (Or.inl h))
        have h3 : ¬ (conc ms { a with token := t }).buf.length ≤ ms := fun h => hfit (Or.inr (Or.inr h))
        have hEt := encToken_length t
        have hEa := encToken_length a.token
        have hn : t.length + (Spec.extBytes t.length).length = (Spec.encToken t).length := by rw [hEt]; omega
        have hetl : (conc ms a).etl = (Spec.encToken a.token).length := by rw [hEa]; rfl
        have hl1 := conc_buf_length ms a
        have hl2 := conc_buf_length ms { a with token := t }
        simp only at hl2
        have hcr : checkResize (conc ms a) ((conc ms a).buf.length + (Spec.encToken t).length - (Spec.encToken a.token).length) = false :=
          checkResize_false _ _ ⟨h2, by show _ > ms; omega⟩
        have hne : ¬ ((Spec.encToken t).length = (Spec.encToken a.token).length) := by omega
        have hgt : (Spec.encToken t).length > (Spec.encToken a.token).length := by omega
        unfold updateToken
        simp only [hlen, if_false, tokBias_ext t.length (by omega), hn, hetl, hne, hgt, if_true, hcr]
        simp

/-- every API call on the representing PDU is its abstract outcome: no `oob`, no other PDU than a representing one -/
theorem call_conc (ms : Nat) (a : Msg) (c : Call) (hs : Shape a) (hc : callNumOk c) :
    call (conc ms a) c = R.ok ((absCall ms a c).1, conc ms (absCall ms a c).2) := by
  cases c with
  | addToken t => exact addToken_total ms a t
  | addOption n v =>
    show addOption (conc ms a) n v = R.ok ((if a.payload ≠ [] then (0, a) else absAdd ms a n v).1,
      conc ms (if a.payload ≠ [] then (0, a) else absAdd ms a n v).2)
    unfold addOption
    by_cases hp : a.payload = []
    · have hd : (conc ms a).data = none := by simp [conc, hp]
      have : ¬ (a.payload ≠ []) := by simp [hp]
      rw [hd, if_neg this]
      exact addOptionInternal_conc ms a n v hs hc
    · have hd : (conc ms a).data.isSome = true := by simp [conc, hp]
      have hp' : a.payload ≠ [] := hp
      rw [hd, if_pos hp']; rfl
  | insertOption n v => exact insertOption_conc ms a n v hs hc
  | updateOption n v => exact updateOption_conc ms a n v hs hc
  | removeOption n => exact removeOption_total ms a n hs
  | updateToken t => exact updateToken_total ms a t
  | addData d => exact addData_total ms a d

/-! ### `Shape` is kept -/

theorem Shape_remove (a : Msg) (n : Nat) (hs : Shape a) : Shape { a with opts := Spec.removeFirst n a.opts } := by
  obtain ⟨h1, h2, h3⟩ := hs
  exact ⟨h1, removeFirst_sorted n a.opts h2, fun o ho => h3 o ((removeFirst_sublist n a.opts).subset ho)⟩

theorem mem_replaceFirst (n : Nat) (v : Bytes) (os : List (Nat × Bytes)) (o : Nat × Bytes)
    (h : o ∈ Spec.replaceFirst n v os) : o = (n, v) ∨ o ∈ os := by
  induction os with
  | nil => cases h
  | cons x os ih =>
    by_cases hx : x.1 = n
    · simp only [Spec.replaceFirst, hx, if_true] at h
      rcases List.mem_cons.mp h with h | h
      · exact Or.inl h
      · exact Or.inr (List.mem_cons_of_mem _ h)
    · simp only [Spec.replaceFirst, hx, if_false] at h
      rcases List.mem_cons.mp h with h | h
      · exact Or.inr (by rw [h]; exact List.mem_cons_self ..)
      · rcases ih h with h | h
        · exact Or.inl h
        · exact Or.inr (List.mem_cons_of_mem _ h)

theorem Shape_replace (a : Msg) (n : Nat) (v : Bytes) (hs : Shape a) (hn : n ≤ 65535) (hv : v.length ≤ 65804) :
    Shape { a with opts := Spec.replaceFirst n v a.opts } := by
  obtain ⟨h1, h2, h3⟩ := hs
  refine ⟨h1, replaceFirst_sorted n v a.opts h2, ?_⟩
  intro o ho
  rcases mem_replaceFirst n v a.opts o ho with rfl | ho
  · exact ⟨hn, hv⟩
  · exact h3 o ho

theorem absAdd_shape (ms : Nat) (a : Msg) (n : Nat) (v : Bytes) (hs : Shape a) (hn : n ≤ 65535) :
    Shape (absAdd ms a n v).2 := by
  unfold absAdd
  by_cases hv : v.length > 65804
  · rw [if_pos hv]; exact hs
  · rw [if_neg hv]
    by_cases hrep : n = lastNum a.opts ∧ ¬ repeatable n = true
    · rw [if_pos hrep]; exact hs
    · rw [if_neg hrep]
      have hs1 : Shape (if Spec.hopApplies a.code n a.opts = true then (absPlace ms a 16 [16]).2 else a) := by
        split
        · exact absPlace_shape ms a 16 [16] hs (by omega) (by simp)
        · exact hs
      by_cases hz : (absPlace ms (if Spec.hopApplies a.code n a.opts = true then (absPlace ms a 16 [16]).2 else a) n v).1 = 0
      · rw [if_pos hz]; exact hs
      · rw [if_neg hz]
        exact absPlace_shape _ _ _ _ hs1 hn (by omega)

theorem absInsert_shape (ms : Nat) (a : Msg) (n : Nat) (v : Bytes) (hs : Shape a) (hn : n ≤ 65535) :
    Shape (absInsert ms a n v).2 := by
  unfold absInsert
  by_cases hv : v.length > 65804
  · rw [if_pos hv]; exact hs
  · rw [if_neg hv]
    split
    · exact absAdd_shape ms a n v hs hn
    · exact absPlace_shape ms a n v hs hn (by omega)

theorem absCall_shape (ms : Nat) (a : Msg) (c : Call) (hs : Shape a) (hc : callNumOk c) : Shape (absCall ms a c).2 := by
  cases c with
  | addToken t =>
    show Shape (absAddToken ms a t).2
    unfold absAddToken
    split
    · exact hs
    · rename_i h
      have : ¬ t.length > 65804 := fun x => h (Or.inr (Or.inl x))
      exact ⟨by show t.length ≤ 65804; omega, hs.2⟩
  | addOption n v =>
    show Shape (if a.payload ≠ [] then (0, a) else absAdd ms a n v).2
    split
    · exact hs
    · exact absAdd_shape ms a n v hs hc
  | insertOption n v => exact absInsert_shape ms a n v hs hc
  | updateOption n v =>
    show Shape (absUpdate ms a n v).2
    unfold absUpdate
    by_cases hv : v.length > 65804
    · rw [if_pos hv]; exact hs
    · rw [if_neg hv]
      split
      · split
        · exact Shape_replace a n v hs hc (by omega)
        · exact hs
      · exact absInsert_shape ms a n v hs hc
  | removeOption n =>
    show Shape (absRemove a n).2
    unfold absRemove
    split
    · exact Shape_remove a n hs
    · exact hs
  | updateToken t =>
    show Shape (absSetToken ms a t).2
    unfold absSetToken
    by_cases hv : t.length > 65804
    · rw [if_pos hv]; exact hs
    · rw [if_neg hv]
      split
      · exact ⟨by show t.length ≤ 65804; omega, hs.2⟩
      · exact hs
  | addData d =>
    show Shape (absAddData ms a d).2
    unfold absAddData
    split
    · exact hs
    · split
      · exact hs
      · exact ⟨hs.1, hs.2⟩

/-- a whole script on the abstract message: return codes in call order, message after -/
def absRun (ms : Nat) : Msg → List Call → List Nat × Msg
  | a, [] => ([], a)
  | a, c :: cs => ((absCall ms a c).1 :: (absRun ms (absCall ms a c).2 cs).1, (absRun ms (absCall ms a c).2 cs).2)

/-- any script of API calls, started on a representing PDU, runs without `oob` and ends on the PDU that represents
the abstract run -/
theorem run_conc (ms : Nat) (cs : List Call) : ∀ (a : Msg), Shape a → (∀ c ∈ cs, callNumOk c) →
    run (conc ms a) cs = R.ok ((absRun ms a cs).1, conc ms (absRun ms a cs).2) ∧ Shape (absRun ms a cs).2 := by
  induction cs with
  | nil => intro a hs _; exact ⟨rfl, hs⟩
  | cons c cs ih =>
    intro a hs hc
    have hc1 := hc c (List.mem_cons_self ..)
    obtain ⟨i1, i2⟩ := ih (absCall ms a c).2 (absCall_shape ms a c hs hc1) (fun x hx => hc x (List.mem_cons_of_mem _ hx))
    refine ⟨?_, i2⟩
    simp only [run, call_conc ms a c hs hc1, i1, absRun]

end Coap
